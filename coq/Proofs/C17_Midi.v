(* C17 -- the path of a pitch through load_score_midi (Model/C17_Midi.v): every file note ends up in a part as a
   Note whose midi_pitch is the file's pitch. *)
From PV Require Import Lib.Base Gen.C17_PS13 Gen.C17_MidiTab Model.C17_Spelling Model.C17_Midi Proofs.C17_lib Proofs.C17_Spelling.
From Coq Require Import Sorting.Permutation.
#[local] Open Scope Z_scope.

Lemma row_eqb_eq : forall a b, row_eqb a b = true -> a = b.
Proof.
  intros [[o p] d] [[o' p'] d']. unfold row_eqb, r_onset, r_pitch, r_dur. cbn.
  rewrite !Bool.andb_true_iff, !Z.eqb_eq. intros [[-> ->] ->]. reflexivity.
Qed.

Lemma row_eqb_refl : forall a, row_eqb a a = true.
Proof. intros [[o p] d]. unfold row_eqb, r_onset, r_pitch, r_dur. cbn. now rewrite !Z.eqb_refl. Qed.

Lemma take_first_spec : forall r tab sp tab', take_first r tab = Some (sp, tab') ->
  Permutation tab ((r, sp) :: tab').
Proof.
  intros r tab. induction tab as [|[r' s'] rest IH]; intros sp tab' H; cbn in H; [discriminate|].
  destruct (row_eqb r r') eqn:E.
  - apply row_eqb_eq in E. subst r'. inversion H; subst. apply Permutation_refl.
  - destruct (take_first r rest) as [[s rest']|] eqn:T; [|discriminate].
    inversion H; subst. specialize (IH _ _ eq_refl).
    eapply Permutation_trans; [apply perm_skip; exact IH|]. apply perm_swap.
Qed.

Lemma take_first_exists : forall r tab, In r (map fst tab) -> take_first r tab <> None.
Proof.
  intros r tab. induction tab as [|[r' s'] rest IH]; intros H; cbn in *; [contradiction|].
  destruct (row_eqb r r') eqn:E; [discriminate|].
  destruct H as [H|H]; [subst r'; rewrite row_eqb_refl in E; discriminate|].
  specialize (IH H). destruct (take_first r rest) as [[s rest']|]; [discriminate|contradiction].
Qed.

Lemma Forall2_weaken : forall {A B} (R R' : A -> B -> Prop) l l',
  (forall a b, R a b -> R' a b) -> Forall2 R l l' -> Forall2 R' l l'.
Proof. intros A B R R' l l' I H. induction H; constructor; auto. Qed.

Lemma assign_in_order_spec : forall rows tab, Permutation (map fst tab) rows ->
  exists out, assign_in_order tab rows = Some out /\ Forall2 (fun r sp => In (r, sp) tab) rows out.
Proof.
  induction rows as [|r rest IH]; intros tab P; cbn.
  - exists []. split; [reflexivity|constructor].
  - assert (Hin : In r (map fst tab)) by (eapply Permutation_in; [apply Permutation_sym; exact P|now left]).
    pose proof (take_first_exists r tab Hin) as T.
    destruct (take_first r tab) as [[sp tab']|] eqn:E; [|contradiction].
    pose proof (take_first_spec _ _ _ _ E) as PT.
    assert (P' : Permutation (map fst tab') rest).
    { apply (Permutation_cons_inv (a := r)).
      eapply Permutation_trans; [|exact P].
      apply Permutation_sym. change (r :: map fst tab') with (map fst ((r, sp) :: tab')).
      now apply Permutation_map. }
    destruct (IH tab' P') as [out [A F]]. rewrite A. exists (sp :: out). split; [reflexivity|].
    constructor.
    + eapply Permutation_in; [apply Permutation_sym; exact PT|now left].
    + eapply Forall2_weaken; [|exact F]. intros a b Hab. cbv beta in Hab.
      eapply Permutation_in; [apply Permutation_sym; exact PT|now right].
Qed.

(* estimate_spelling returns one spelling per row, in the order of the rows, each the table's entry of its row *)
Lemma spelling_global_spec : forall rows,
  exists out, spelling_global rows = Some out /\
              Forall2 (fun r sp => In (r, sp) (spell_default rows)) rows out.
Proof.
  intros rows. unfold spelling_global. apply assign_in_order_spec.
  unfold spell_default. rewrite spell_tab_fst. apply ps_sort_perm.
Qed.

(* every key gets a part in each of the six modes (and none in any other mode) *)
Lemma assign_parts_from_total : forall mode keys ph_tr ph_key, 0 <= mode <= 5 ->
  List.length (assign_parts_from mode ph_tr ph_key keys) = List.length keys /\
  Forall (fun p => p <> None) (assign_parts_from mode ph_tr ph_key keys).
Proof.
  intros mode keys. induction keys as [|k rest IH]; intros ph_tr ph_key Hm; cbn [assign_parts_from].
  - split; [reflexivity|constructor].
  - destruct ((mode =? 0) || (mode =? 3)) eqn:E03.
    { destruct (setdefault Z.eqb (fst k) (zlen ph_tr) ph_tr) as [p ph'].
      destruct (IH ph' ph_key Hm) as [L F]. split; [cbn; now rewrite L|constructor; [discriminate|exact F]]. }
    destruct ((mode =? 1) || (mode =? 5)) eqn:E15.
    { destruct (setdefault trch_eqb k (zlen ph_key) ph_key) as [p ph'].
      destruct (IH ph_tr ph' Hm) as [L F]. split; [cbn; now rewrite L|constructor; [discriminate|exact F]]. }
    destruct ((mode =? 2) || (mode =? 4)) eqn:E24.
    { destruct (IH ph_tr ph_key Hm) as [L F]. split; [cbn; now rewrite L|constructor; [discriminate|exact F]]. }
    exfalso. apply Bool.orb_false_iff in E03, E15, E24.
    destruct E03, E15, E24. zb. lia.
Qed.

Lemma assign_parts_other_mode : forall mode keys ph_tr ph_key, ~ (0 <= mode <= 5) ->
  assign_parts_from mode ph_tr ph_key keys = map (fun _ => None) keys.
Proof.
  intros mode keys. induction keys as [|k rest IH]; intros ph_tr ph_key Hm; cbn [assign_parts_from map]; [reflexivity|].
  replace ((mode =? 0) || (mode =? 3)) with false by (symmetry; apply Bool.orb_false_iff; split; apply Z.eqb_neq; lia).
  replace ((mode =? 1) || (mode =? 5)) with false by (symmetry; apply Bool.orb_false_iff; split; apply Z.eqb_neq; lia).
  replace ((mode =? 2) || (mode =? 4)) with false by (symmetry; apply Bool.orb_false_iff; split; apply Z.eqb_neq; lia).
  f_equal. apply IH. exact Hm.
Qed.

(* part_voice_list: one entry per note, each the part of the note's key *)
Lemma parts_list_spec : forall (ps : list (option Z)) (gs : list mgroup),
  List.length ps = List.length gs -> Forall (fun p => p <> None) ps ->
  let parts := flat_map (fun pg => repeat (fst pg) (List.length (snd (snd pg)))) (combine ps gs) in
  List.length parts = List.length (flat_map (fun g => snd g) gs) /\ Forall (fun p => p <> None) parts.
Proof.
  induction ps as [|p ps IH]; intros [|g gs] L F; cbn in L; try lia; cbn zeta.
  - split; [reflexivity|constructor].
  - inversion F; subst. destruct (IH gs ltac:(lia) H2) as [A B]. cbn [combine flat_map fst snd].
    rewrite !app_length, repeat_length. split; [cbv zeta in A; lia|].
    apply Forall_app. split; [|exact B].
    apply Forall_forall. intros x Hx. apply repeat_spec in Hx. now subst.
Qed.

Lemma kpost_default_pos : (1 <= Z.to_nat ps_k_post)%nat.
Proof. vm_compute. lia. Qed.

(* a note of the range 21..108 and the spelling the table gives it: the Note created sounds the file's pitch *)
Lemma imported_note_pitch : forall rows r sp, 21 <= r_pitch r <= 108 -> In (r, sp) (spell_default rows) ->
  imported_note r sp = (r_onset r, Some (r_pitch r)).
Proof.
  intros rows r sp Hp Hin. unfold imported_note. f_equal.
  eapply ps13_note_midi_pitch_lemma; [apply kpost_default_pos|exact Hp|exact Hin].
Qed.

Lemma map_combine_parts : forall {A B C} (f : B -> C) (ps : list A) (l : list B),
  List.length ps = List.length l ->
  map (fun x => snd x) (map (fun x => (fst x, f (snd x))) (combine ps l)) = map f l.
Proof.
  intros A B C f. induction ps as [|p ps IH]; intros [|b l] L; cbn in *; try lia; [reflexivity|].
  f_equal. apply IH. lia.
Qed.

Lemma map_fst_combine_parts : forall {A B C} (f : B -> C) (ps : list A) (l : list B),
  List.length ps = List.length l ->
  map (fun x => fst x) (map (fun x => (fst x, f (snd x))) (combine ps l)) = ps.
Proof.
  intros A B C f. induction ps as [|p ps IH]; intros [|b l] L; cbn in *; try lia; [reflexivity|].
  f_equal. apply IH. lia.
Qed.

Lemma Forall2_length_Z : forall {A B} (R : A -> B -> Prop) l l', Forall2 R l l' -> List.length l = List.length l'.
Proof. intros A B R l l' H. induction H; cbn; auto. Qed.

Lemma map_combine_forall2 : forall {A B C} (R : A -> B -> Prop) (f : A * B -> C) (g : A -> C) l l',
  Forall2 R l l' -> (forall a b, R a b -> f (a, b) = g a) -> map f (combine l l') = map g l.
Proof.
  intros A B C R f g l l' H E. induction H; cbn; [reflexivity|]. rewrite (E _ _ H). f_equal. exact IHForall2.
Qed.

Lemma map_snd_import : forall (parts : list (option Z)) (l : list (row * spelling)), List.length parts = List.length l ->
  map (fun x => snd x) (map (fun x => (fst x, imported_note (fst (snd x)) (snd (snd x)))) (combine parts l))
  = map (fun y => imported_note (fst y) (snd y)) l.
Proof. intros parts l H. exact (map_combine_parts (fun y => imported_note (fst y) (snd y)) parts l H). Qed.

Lemma map_fst_import : forall (parts : list (option Z)) (l : list (row * spelling)), List.length parts = List.length l ->
  map (fun x => fst x) (map (fun x => (fst x, imported_note (fst (snd x)) (snd (snd x)))) (combine parts l)) = parts.
Proof. intros parts l H. exact (map_fst_combine_parts (fun y => imported_note (fst y) (snd y)) parts l H). Qed.

Lemma import_core : forall (parts : list (option Z)) (notes : list row) (sps : list spelling),
  List.length parts = List.length notes -> Forall (fun p => p <> None) parts ->
  Forall2 (fun r sp => In (r, sp) (spell_default notes)) notes sps ->
  (forall r, In r notes -> 21 <= r_pitch r <= 108) ->
  let out := map (fun x => (fst x, imported_note (fst (snd x)) (snd (snd x)))) (combine parts (combine notes sps)) in
  map (fun x => snd x) out = map (fun r => (r_onset r, Some (r_pitch r))) notes /\
  Forall (fun x => fst x <> None) out.
Proof.
  intros parts notes sps LP PN F Hp out. subst out.
  pose proof (Forall2_length_Z _ _ _ F) as LF.
  assert (LC : List.length parts = List.length (combine notes sps)) by (rewrite combine_length; lia).
  split.
  - rewrite (map_snd_import parts (combine notes sps) LC).
    apply (map_combine_forall2 (fun r sp => In (r, sp) (spell_default notes) /\ In r notes)).
    + clear -F. assert (G : forall l l', Forall2 (fun r sp => In (r, sp) (spell_default notes)) l l' ->
        (forall r, In r l -> In r notes) -> Forall2 (fun r sp => In (r, sp) (spell_default notes) /\ In r notes) l l').
      { intros l l' H. induction H; intros I; constructor; [split; [auto|apply I; now left]|apply IHForall2; intros; apply I; now right]. }
      apply G; auto.
    + intros r sp [H1 H2]. cbn [fst snd]. apply (imported_note_pitch notes); auto.
  - apply Forall_forall. intros x Hx.
    assert (In (fst x) parts).
    { rewrite <- (map_fst_import parts (combine notes sps) LC).
      apply in_map_iff. exists x. split; auto. }
    rewrite Forall_forall in PN. now apply PN.
Qed.

(* THE IMPORTER CLAUSE: in each of the six modes, for every set of (track, channel) groups with pitches 21..108,
   the notes load_score_midi creates are -- in the order of the file's note list -- exactly (onset, pitch) of the
   file's notes, and every one of them is in a part *)
Lemma import_notes_spec : forall mode gs, 0 <= mode <= 5 ->
  (forall g r, In g gs -> In r (snd g) -> 21 <= r_pitch r <= 108) ->
  exists out, import_notes mode gs = Some out /\
    map (fun x => snd x) out = map (fun r => (r_onset r, Some (r_pitch r))) (flat_map (fun g => snd g) gs) /\
    Forall (fun x => fst x <> None) out.
Proof.
  intros mode gs Hm Hp. unfold import_notes.
  destruct (spelling_global_spec (flat_map (fun g => snd g) gs)) as [sps [E F]]. rewrite E.
  destruct (assign_parts_from_total mode (map (fun g => fst g) gs) [] [] Hm) as [L NN].
  rewrite map_length in L. fold (assign_parts mode (map (fun g => fst g) gs)) in L, NN.
  destruct (parts_list_spec _ gs L NN) as [PL PN]. cbv zeta in PL, PN.
  eexists. split; [reflexivity|].
  apply import_core; [exact PL|exact PN|exact F|].
  intros r Hr. apply in_flat_map in Hr. destruct Hr as [g [Hg Hr]]. eapply Hp; eauto.
Qed.

Lemma import_example :
  option_map (map (fun x => (fst x, snd x))) (import_notes 0 [((0, 0), [(0, 61, 4); (4, 64, 0)]); ((0, 9), [(0, 68, 2)]); ((1, 0), [(2, 61, 2)])])
  = Some [(Some 0, (0, Some 61)); (Some 0, (4, Some 64)); (Some 0, (0, Some 68)); (Some 1, (2, Some 61))] /\
  midi_check (5, [((0, 0), [(0, 61, 4); (4, 64, 0)]); ((0, 9), [(0, 68, 2)]); ((1, 0), [(2, 61, 2)])], [[61; 68]; [61]; [64]]) = true /\
  assign_parts 6 [(0, 0); (1, 0)] = [None; None].
Proof. vm_compute. repeat split; reflexivity. Qed.

Lemma assign_parts_total : forall mode keys, 0 <= mode <= 5 ->
  List.length (assign_parts mode keys) = List.length keys /\ Forall (fun p => p <> None) (assign_parts mode keys).
Proof. intros. now apply assign_parts_from_total. Qed.

Lemma assign_parts_none : forall mode keys, ~ (0 <= mode <= 5) -> assign_parts mode keys = map (fun _ => None) keys.
Proof. intros. now apply assign_parts_other_mode. Qed.
