(* C06 -- generic facts on sort_le; tempo integration *)
From PV Require Import Lib.Base Model.C06.
From Coq Require Import Sorted Permutation.
#[local] Open Scope Z_scope.

Section SortLe.
  Context {A : Type} (leb : A -> A -> bool).
  Hypothesis leb_total : forall a b, leb a b = false -> leb b a = true.
  Hypothesis leb_trans : forall a b c, leb a b = true -> leb b c = true -> leb a c = true.
  Definition le_of (a b : A) : Prop := leb a b = true.

  Lemma insert_le_perm x l : Permutation (insert_le leb x l) (x :: l).
  Proof.
    induction l as [|y r IH]; simpl; auto. destruct (leb x y); auto.
    rewrite IH. apply perm_swap.
  Qed.
  Lemma sort_le_perm l : Permutation (sort_le leb l) l.
  Proof. induction l as [|x r IH]; simpl; auto. rewrite insert_le_perm. auto. Qed.

  Lemma insert_le_sorted x l : StronglySorted le_of l -> StronglySorted le_of (insert_le leb x l).
  Proof.
    induction l as [|y r IH]; intros H; simpl.
    - constructor; constructor.
    - destruct (leb x y) eqn:E.
      + constructor; auto. inversion H; subst. constructor; auto.
        eapply Forall_impl; [|eassumption]. intros a Ha. eapply leb_trans; eauto.
      + inversion H; subst. constructor; auto.
        eapply Permutation_Forall; [symmetry; apply insert_le_perm|].
        constructor; auto. apply leb_total. exact E.
  Qed.
  Lemma sort_le_sorted l : StronglySorted le_of (sort_le leb l).
  Proof. induction l as [|x r IH]; simpl. constructor. apply insert_le_sorted; auto. Qed.

  (* a sorted list is left alone *)
  Lemma insert_le_head x l : Forall (le_of x) l -> insert_le leb x l = x :: l.
  Proof. intros H. destruct l as [|y r]; simpl; auto. inversion H; subst. unfold le_of in H2. rewrite H2. reflexivity. Qed.
  Lemma sort_le_id l : StronglySorted le_of l -> sort_le leb l = l.
  Proof.
    induction 1 as [|x r S IH HF]; simpl; auto. rewrite IH. apply insert_le_head. exact HF.
  Qed.
End SortLe.

Definition tick_leb {A} (a b : Z * A) : bool := fst a <=? fst b.
Lemma tick_leb_total {A} (a b : Z * A) : tick_leb a b = false -> tick_leb b a = true.
Proof. unfold tick_leb. lia. Qed.
Lemma tick_leb_trans {A} (a b c : Z * A) : tick_leb a b = true -> tick_leb b c = true -> tick_leb a c = true.
Proof. unfold tick_leb. lia. Qed.

Definition tick_sorted {A} (l : list (Z * A)) : Prop := StronglySorted (fun a b => fst a <= fst b) l.

Lemma StronglySorted_impl {A} (R R' : A -> A -> Prop) l :
  (forall a b, R a b -> R' a b) -> StronglySorted R l -> StronglySorted R' l.
Proof.
  intros H S. induction S; constructor; auto. eapply Forall_impl; [|eassumption]. auto.
Qed.

Lemma sort_by_tick_sorted {A} (l : list (Z * A)) : tick_sorted (sort_by_tick l).
Proof.
  unfold sort_by_tick, tick_sorted.
  eapply StronglySorted_impl; [|apply (sort_le_sorted (@tick_leb A) tick_leb_total tick_leb_trans l)].
  unfold le_of, tick_leb. intros a b Hb. lia.
Qed.
Lemma sort_by_tick_perm {A} (l : list (Z * A)) : Permutation (sort_by_tick l) l.
Proof. apply sort_le_perm. Qed.

(* ---- sums over tick ranges *)
Lemma sum_from_ext f g : forall n lo,
  (forall k, lo <= k < lo + Z.of_nat n -> f k = g k) -> sum_from f lo n = sum_from g lo n.
Proof.
  induction n as [|n IH]; intros lo H; simpl; auto.
  rewrite (H lo) by lia. rewrite (IH (lo + 1)); auto. intros k Hk. apply H. lia.
Qed.
Lemma sum_from_const c : forall n lo, sum_from (fun _ => c) lo n = Z.of_nat n * c.
Proof. induction n as [|n IH]; intros lo; simpl sum_from; [lia|]. rewrite IH. lia. Qed.
Lemma sum_from_app f : forall a b lo,
  sum_from f lo (a + b) = sum_from f lo a + sum_from f (lo + Z.of_nat a) b.
Proof.
  induction a as [|a IH]; intros b lo; simpl.
  - rewrite Z.add_0_r. reflexivity.
  - rewrite IH. replace (lo + 1 + Z.of_nat a) with (lo + Z.pos (Pos.of_succ_nat a)) by lia. lia.
Qed.

(* ---- the tempo in force at tick k *)
Definition step_tempo (k : Z) (cur : Z) (e : Z * Z) : Z := if fst e <=? k then snd e else cur.
Definition tempo_from (tc : list (Z * Z)) (cur k : Z) : Z := fold_left (step_tempo k) tc cur.

Lemma tempo_from_later tc cur k : Forall (fun e => k < fst e) tc -> tempo_from tc cur k = cur.
Proof.
  unfold tempo_from. revert cur. induction tc as [|e r IH]; intros cur H; simpl; auto.
  inversion H; subst. unfold step_tempo at 2. destruct (fst e <=? k) eqn:E; [lia|]. apply IH; auto.
Qed.

Lemma adjust_loop_sum : forall tc tick last_tick last_mpq acc,
  tick_sorted tc -> Forall (fun e => last_tick <= fst e) tc -> last_tick <= tick ->
  adjust_loop tc tick last_tick last_mpq acc
  = acc + sum_from (tempo_from tc last_mpq) last_tick (Z.to_nat (tick - last_tick)).
Proof.
  induction tc as [|[ct m] r IH]; intros tick lt lm acc S HF Hle.
  - simpl. rewrite (sum_from_ext _ (fun _ => lm)) by reflexivity. rewrite sum_from_const.
    rewrite Z2Nat.id by lia. reflexivity.
  - inversion S as [|? ? S' HS]; subst. inversion HF as [|? ? Hct HF']; subst. simpl in Hct.
    cbn [adjust_loop]. destruct (tick <? ct) eqn:E.
    + rewrite (sum_from_ext _ (fun _ => lm)).
      * rewrite sum_from_const. rewrite Z2Nat.id by lia. reflexivity.
      * intros k Hk. apply tempo_from_later. constructor; [simpl; lia|].
        eapply Forall_impl; [|exact HS]. simpl. intros e He. lia.
    + assert (H1 : Forall (fun e : Z * Z => ct <= fst e) r).
      { eapply Forall_impl; [|exact HS]. simpl. intros e He. lia. }
      assert (H2 : ct <= tick) by lia.
      rewrite (IH tick ct m _ S' H1 H2).
      replace (Z.to_nat (tick - lt)) with (Z.to_nat (ct - lt) + Z.to_nat (tick - ct))%nat by lia.
      rewrite sum_from_app.
      rewrite (sum_from_ext (tempo_from ((ct, m) :: r) lm) (fun _ => lm) (Z.to_nat (ct - lt))).
      * rewrite sum_from_const. rewrite !Z2Nat.id by lia.
        rewrite (sum_from_ext (tempo_from ((ct, m) :: r) lm) (tempo_from r m) (Z.to_nat (tick - ct))).
        -- replace (lt + (ct - lt)) with ct by lia. lia.
        -- intros k Hk. unfold tempo_from. simpl. unfold step_tempo at 2. simpl.
           destruct (ct <=? k) eqn:E2; [reflexivity|lia].
      * intros k Hk. apply tempo_from_later. constructor; [simpl; lia|].
        eapply Forall_impl; [|exact HS]. simpl. intros e He. lia.
Qed.

Lemma tempo_at_from t0 m0 r k : tempo_at ((t0, m0) :: r) k = tempo_from ((t0, m0) :: r) m0 k.
Proof. reflexivity. Qed.

Lemma adjust_num_sorted tc tick :
  tick_sorted tc -> Forall (fun e => 0 <= fst e) tc -> 0 <= tick ->
  adjust_num tc tick = sum_from (tempo_at tc) 0 (Z.to_nat tick).
Proof.
  intros S HF Ht. destruct tc as [|[t0 m0] r]; unfold adjust_num.
  - rewrite (sum_from_ext _ (fun _ => 0)) by reflexivity. rewrite sum_from_const. lia.
  - rewrite adjust_loop_sum; auto. rewrite Z.sub_0_r. rewrite Z.add_0_l.
    apply sum_from_ext. intros k Hk. reflexivity.
Qed.

(* ---- dropping repeated tempo values does not change the tempo in force *)
Lemma drop_repeats_incl p l e : In e (drop_repeats p l) -> In e l.
Proof.
  revert p. induction l as [|[t m] r IH]; intros p H; simpl in *; auto.
  destruct (m =? p); [right; eapply IH; eauto|]. destruct H as [H|H]; auto. right; eapply IH; eauto.
Qed.

Lemma drop_repeats_sorted p l : tick_sorted l -> tick_sorted (drop_repeats p l).
Proof.
  unfold tick_sorted. intros S. revert p. induction S as [|[t m] r S IH HF]; intros p; simpl; [constructor|].
  destruct (m =? p); auto. constructor; auto.
  apply Forall_forall. intros e He. apply drop_repeats_incl in He. rewrite Forall_forall in HF. auto.
Qed.

Lemma tempo_from_drop_repeats k : forall l cur, tick_sorted l ->
  tempo_from (drop_repeats cur l) cur k = tempo_from l cur k.
Proof.
  induction l as [|[t m] r IH]; intros cur S; simpl; auto.
  inversion S as [|? ? S' HF]; subst.
  destruct (m =? cur) eqn:E.
  - apply Z.eqb_eq in E. subst m. rewrite IH by auto.
    unfold tempo_from. cbn [fold_left].
    replace (step_tempo k cur (t, cur)) with cur; [reflexivity|].
    unfold step_tempo. simpl. destruct (t <=? k); reflexivity.
  - unfold tempo_from. cbn [fold_left]. unfold step_tempo at 2 4. cbn [fst snd].
    destruct (t <=? k) eqn:E2.
    + apply IH; auto.
    + fold (tempo_from (drop_repeats m r) cur k). fold (tempo_from r cur k).
      rewrite !tempo_from_later; auto.
      * eapply Forall_impl; [|exact HF]. simpl. intros e He. lia.
      * apply Forall_forall. intros e He. apply drop_repeats_incl in He. rewrite Forall_forall in HF.
        specialize (HF e He). simpl in HF. lia.
Qed.

Lemma tempo_list_spec collected :
  tick_sorted (tempo_list collected) /\
  (forall e, In e (tempo_list collected) -> In e collected) /\
  (forall k, tempo_at (tempo_list collected) k = tempo_at (sort_by_tick collected) k).
Proof.
  unfold tempo_list.
  pose proof (sort_by_tick_sorted collected) as S.
  pose proof (sort_by_tick_perm collected) as P.
  destruct (sort_by_tick collected) as [|[t0 m0] r].
  { split; [constructor|]. split; [intros e []|reflexivity]. }
  inversion S as [|? ? S' HF]; subst. split; [|split].
  - constructor; [apply drop_repeats_sorted; auto|].
    apply Forall_forall. intros e He. apply drop_repeats_incl in He. rewrite Forall_forall in HF. auto.
  - intros e [<-|He].
    + eapply Permutation_in; [exact P|left; reflexivity].
    + eapply Permutation_in; [exact P|right; eapply drop_repeats_incl; eauto].
  - intros k. rewrite !tempo_at_from. unfold tempo_from. cbn [fold_left].
    replace (step_tempo k m0 (t0, m0)) with m0.
    + apply tempo_from_drop_repeats. exact S'.
    + unfold step_tempo. simpl. destruct (t0 <=? k); reflexivity.
Qed.
