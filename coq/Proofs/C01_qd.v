(* C01 -- the quarter-duration table: set_quarter_duration semantics (O3). *)
From PV Require Import Lib.Base Gen.C01_ClassTree Model.C01 Model.C01_Spec.

Lemma same_q_true prevq q : same_q prevq q = true -> prevq = Some q.
Proof. destruct prevq as [x|]; simpl; [|discriminate]. intros H. apply Z.eqb_eq in H. subst; auto. Qed.

(* inside the span [t, next change) no entry of the (later) table applies *)
Lemma in_span_hd lo r t s c :
  tab_incr lo r -> t <= lo -> in_span t (next_change t r) s = true -> qd_prev r s c = c.
Proof.
  destruct r as [|[t1 q1] r']; simpl; auto. intros [H1 _] Hlo.
  assert (E : t <? t1 = true) by lia. rewrite E. unfold in_span. intros H.
  assert (E2 : t1 <=? s = false) by lia. rewrite E2. auto.
Qed.

(* at or after the next change the carried value is irrelevant *)
Lemma qd_prev_after lo r t s a b :
  tab_incr lo r -> t <= lo -> t <= s -> in_span t (next_change t r) s = false ->
  qd_prev r s a = qd_prev r s b.
Proof.
  destruct r as [|[t1 q1] r']; simpl.
  - unfold in_span. intros _ _ H. assert (t <=? s = true) by lia. rewrite H0. simpl. discriminate.
  - intros [H1 _] Hlo Hs. assert (E : t <? t1 = true) by lia. rewrite E. unfold in_span. intros H.
    assert (E2 : t1 <=? s = true) by lia. rewrite E2. auto.
Qed.

Lemma set_q_tab_spec t q : forall tab lo prevq cur,
  tab_incr lo tab -> lo < t -> (forall q', prevq = Some q' -> cur = q') ->
  tab_incr lo (fst (set_q_tab t q prevq tab)) /\
  next_change t (fst (set_q_tab t q prevq tab)) = next_change t tab /\
  (forall s, qd_prev (fst (set_q_tab t q prevq tab)) s cur =
             if in_span t (next_change t tab) s then q else qd_prev tab s cur) /\
  (snd (set_q_tab t q prevq tab) = false -> fst (set_q_tab t q prevq tab) = tab).
Proof.
  induction tab as [|[t' q'] r IH]; intros lo prevq cur Hinc Hlo Hprev.
  - simpl. destruct (same_q prevq q) eqn:Sq; simpl.
    + apply same_q_true in Sq. specialize (Hprev _ Sq). subst cur.
      repeat split; auto. intros s. destruct (in_span t None s); auto.
    + repeat split; auto.
      * rewrite Z.ltb_irrefl. auto.
      * intros s. unfold in_span. destruct (t <=? s); auto.
      * discriminate.
  - destruct Hinc as [H1 H2]. simpl in H1, H2. simpl set_q_tab.
    destruct (t' <? t) eqn:E1.
    + assert (Hlt : t' < t) by lia.
      specialize (IH t' (Some q') q' H2 Hlt). destruct (set_q_tab t q (Some q') r) as [r' c] eqn:ER.
      simpl in IH. destruct IH as [I1 [I2 [I3 I4]]]; [intros x Hx; inversion Hx; auto|].
      assert (E3 : t <? t' = false) by lia.
      simpl. rewrite E3. repeat split; auto.
      * intros s. destruct (t' <=? s) eqn:E4; [apply I3|].
        unfold in_span. assert (t <=? s = false) by lia. rewrite H. auto.
      * intros Hc. rewrite I4; auto.
    + destruct (t' =? t) eqn:E2.
      * assert (t' = t) by lia. subst t'. destruct (q' =? q) eqn:E3.
        -- assert (q' = q) by lia. subst q'. simpl fst. simpl snd. repeat split; auto.
           intros s. destruct (in_span t (next_change t ((t, q) :: r)) s) eqn:Sp; auto.
           simpl in Sp. rewrite Z.ltb_irrefl in Sp. simpl.
           assert (t <=? s = true) by (unfold in_span in Sp; lia). rewrite H.
           eapply in_span_hd; eauto. lia.
        -- simpl fst. simpl snd. split; [simpl; auto|]. split; [|split; [|discriminate]].
           ++ simpl. rewrite Z.ltb_irrefl. auto.
           ++ intros s. simpl. rewrite Z.ltb_irrefl.
              destruct (t <=? s) eqn:E4.
              ** destruct (in_span t (next_change t r) s) eqn:Sp.
                 --- eapply in_span_hd; eauto. lia.
                 --- eapply qd_prev_after; eauto; lia.
              ** unfold in_span. rewrite E4. auto.
      * assert (Hlt : t < t') by lia. assert (E3 : t <? t' = true) by lia.
        destruct (same_q prevq q) eqn:Sq.
        -- apply same_q_true in Sq. specialize (Hprev _ Sq). subst cur.
           simpl fst. simpl snd. repeat split; auto.
           intros s. simpl. rewrite E3. unfold in_span.
           destruct (t <=? s) eqn:E4, (s <? t') eqn:E5, (t' <=? s) eqn:E6; simpl; auto; lia.
        -- simpl fst. simpl snd. split; [simpl; auto|]. split; [|split; [|discriminate]].
           ++ simpl. rewrite Z.ltb_irrefl, E3. auto.
           ++ intros s. simpl. rewrite E3. unfold in_span.
              destruct (t <=? s) eqn:E4, (s <? t') eqn:E5, (t' <=? s) eqn:E6; simpl; auto; lia.
Qed.

Lemma set_q_tab_head t q tab : 0 <= t -> (exists q0 r, tab = (0, q0) :: r) ->
  exists q0 r, fst (set_q_tab t q None tab) = (0, q0) :: r.
Proof.
  intros Ht [q0 [r ->]]. simpl. destruct (0 <? t) eqn:E.
  - destruct (set_q_tab t q (Some q0) r). simpl. eauto.
  - assert (t = 0) by lia. subst. simpl. destruct (q0 =? q); simpl; eauto.
Qed.

(* under a well-formed table the fill value of _quarter_map is irrelevant at valid times *)
Lemma qd_at_cur tab s c : qtab_ok tab -> 0 <= s -> qd_at tab s = qd_prev tab s c.
Proof.
  intros [_ [q0 [r ->]]] Hs. simpl. assert (E : 0 <=? s = true) by lia. rewrite E. auto.
Qed.

Lemma next_after_next_change t tab : next_after t (map fst tab) = next_change t tab.
Proof.
  unfold next_after. induction tab as [|[t' q'] r IH]; simpl; auto. destruct (t <? t'); auto.
Qed.

(* O3 on the table: q is in force on [t, next later change), everything else is unchanged *)
Lemma set_q_tab_qd t q tab : qtab_ok tab -> 0 <= t ->
  qtab_ok (fst (set_q_tab t q None tab)) /\
  next_change t (fst (set_q_tab t q None tab)) = next_change t tab /\
  (forall s, 0 <= s -> qd_at (fst (set_q_tab t q None tab)) s =
                       if in_span t (next_change t tab) s then q else qd_at tab s) /\
  (snd (set_q_tab t q None tab) = false -> fst (set_q_tab t q None tab) = tab).
Proof.
  intros [Hinc Hhd] Ht.
  destruct (set_q_tab_spec t q tab (-1) None 0 Hinc ltac:(lia) ltac:(discriminate)) as [A [B [C D]]].
  assert (OK' : qtab_ok (fst (set_q_tab t q None tab))) by (split; [auto | apply set_q_tab_head; auto]).
  repeat split; auto; try apply OK'.
  intros s Hs. rewrite (qd_at_cur _ s 0 OK' Hs), (qd_at_cur tab s 0 (conj Hinc Hhd) Hs). apply C.
Qed.
