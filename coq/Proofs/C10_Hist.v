(* C10 -- proofs about histories of map objects (Model/C10_Hist.v): whatever the caller did before -- queries of any
   shape, overwriting returned arrays in place, edits of the part, other map objects -- a query through a map object
   returns the lookup over the table of the part as it was when that object was requested; a map requested now answers
   for the current state.  The memoising and the aliasing variants are refuted. *)
From PV Require Import Lib.Base Lib.Round Model.C02 Model.C10 Model.C10_Impl Model.C10_Hist Proofs.C10 Proofs.C10_Impl.
#[local] Open Scope Z_scope.

Lemma nth_error_map' {X Y} (f : X -> Y) : forall l n, nth_error (map f l) n = option_map f (nth_error l n).
Proof. induction l; destruct n; simpl; auto. Qed.

Lemma upd_Forall {X} (Pr : X -> Prop) (f : X -> X) : (forall x, Pr x -> Pr (f x)) ->
  forall l n, Forall Pr l -> Forall Pr (upd n f l).
Proof.
  intros Hf. induction l as [|x r IH]; intros n H.
  - destruct n; simpl; constructor.
  - inversion H; subst. destruct n; simpl; constructor; auto.
Qed.

Section HistProofs.
Context {P A : Type}.
Variable rows : P -> list (Z * A).

Definition no_view (a : @harr A) : Prop := a_view a = None.

(* invariant of the code as it is: every map object holds the table of the part at the time it was requested, no
   returned array is a view of a map object *)
Theorem history_spec_gen : forall ops (s : hstate P A) gets,
  h_maps s = map rows gets -> Forall no_view (h_arrs s) ->
  hrun rows false false s ops = hspec rows (h_part s) gets ops.
Proof.
  induction ops as [|o r IH]; intros s gets Hm Ha; [reflexivity|].
  destruct o as [p| |i q|k v]; simpl.
  - apply IH; auto.
  - rewrite (IH _ (gets ++ [h_part s])); simpl; auto. rewrite Hm, map_app. reflexivity.
  - rewrite Hm, nth_error_map'. destruct (nth_error gets i) as [pi|]; simpl.
    + f_equal. rewrite (IH _ gets); simpl; auto.
      apply Forall_app. split; auto. constructor; [reflexivity|constructor].
    + apply IH; auto.
  - destruct (nth_error (h_arrs s) k) as [a|] eqn:E.
    + assert (Hv : a_view a = None).
      { apply nth_error_In in E. rewrite Forall_forall in Ha. apply (Ha a E). }
      rewrite Hv. rewrite (IH _ gets); simpl; auto.
      apply upd_Forall; auto.
    + apply IH; auto.
Qed.

Theorem history_spec : forall p ops, hrun rows false false (hinit p) ops = hspec rows p [] ops.
Proof. intros. apply (history_spec_gen ops (hinit p) []); simpl; auto. Qed.

Lemma hspec_app_fresh : forall ops p gets q,
  hspec rows p gets (ops ++ [HGet; HQuery (List.length gets + hgets ops) q]) =
  hspec rows p gets ops ++ [wrap_prev (rows (hcur p ops)) q].
Proof.
  induction ops as [|o r IH]; intros p gets q.
  - simpl. rewrite Nat.add_0_r, nth_error_app2, Nat.sub_diag; auto. 
  - destruct o as [p'| |i q'|k v]; simpl.
    + apply IH.
    + replace (List.length gets + S (hgets r))%nat with (List.length (gets ++ [p]) + hgets r)%nat
        by (rewrite app_length; simpl; lia).
      apply IH.
    + destruct (nth_error gets i); simpl; rewrite IH; reflexivity.
    + apply IH.
Qed.

(* "observation = f (current state)": after ANY history, a map requested now and queried now returns the lookup over
   the table of the part as it is now *)
Theorem history_current : forall p ops q,
  hrun rows false false (hinit p) (ops ++ [HGet; HQuery (hgets ops) q]) =
  hrun rows false false (hinit p) ops ++ [wrap_prev (rows (hcur p ops)) q].
Proof. intros. rewrite !history_spec. apply (hspec_app_fresh ops p [] q). Qed.

End HistProofs.

(* ---- the variants are refuted (the statement is not vacuous) *)
Definition ex10_oneks : cpart :=
  mk_cpart (c_part ex10) false [(0, (-3, -1))] 2 (c_clefs ex10) (c_meas ex10).
Definition ex10_otherks : cpart :=
  mk_cpart (c_part ex10) false [(0, (4, 1))] 2 (c_clefs ex10) (c_meas ex10).

(* the caller transposes ITS result in place; the next query through the same map object returns the transposed key *)
Example history_alias_refuted :
  let ops := [HGet; HQuery 0 (QScalar 0); HWrite 0 (-1, 1); HQuery 0 (QScalar 5); HQuery 0 (QVec [7; 2])] in
  hrun ks_rows false true (hinit ex10_oneks) ops =
    [RScalar (Some (-3, -1)); RScalar (Some (-1, 1)); RVec [Some (-1, 1); Some (-1, 1)]] /\
  hspec ks_rows ex10_oneks [] ops =
    [RScalar (Some (-3, -1)); RScalar (Some (-3, -1)); RVec [Some (-3, -1); Some (-3, -1)]] /\
  hrun ks_rows false false (hinit ex10_oneks) ops = hspec ks_rows ex10_oneks [] ops.
Proof. vm_compute. repeat split; reflexivity. Qed.

(* the table cached on the part at the first access: the key signature is replaced, the map requested afterwards
   still answers with the old one *)
Example history_memo_refuted :
  let ops := [HGet; HQuery 0 (QScalar 3); HEdit ex10_otherks; HGet; HQuery 1 (QScalar 3)] in
  hrun ks_rows true false (hinit ex10_oneks) ops = [RScalar (Some (-3, -1)); RScalar (Some (-3, -1))] /\
  hspec ks_rows ex10_oneks [] ops = [RScalar (Some (-3, -1)); RScalar (Some (4, 1))] /\
  hrun ks_rows false false (hinit ex10_oneks) ops = hspec ks_rows ex10_oneks [] ops.
Proof. vm_compute. repeat split; reflexivity. Qed.

(* composed with the refinement of Proofs/C10_Impl.v: after ANY history of edits, map objects, queries and writes into
   returned arrays, the time / key signature map requested now returns, for scalar and vector queries at or after the
   first point, the signature in force in the part as it is now *)
Theorem history_ks_current : forall cp ops q, q_ge (c_first (hcur cp ops)) q ->
  hrun ks_rows false false (hinit cp) (ops ++ [HGet; HQuery (hgets ops) q]) =
  hrun ks_rows false false (hinit cp) ops ++ [lift (ks_map (hcur cp ops)) q].
Proof. intros. rewrite history_current. f_equal. f_equal. apply (Proofs.C10_Impl.impl_ks_spec (hcur cp ops) q H). Qed.

Theorem history_ts_current : forall cp ops q, q_ge (c_first (hcur cp ops)) q ->
  hrun ts_rows false false (hinit cp) (ops ++ [HGet; HQuery (hgets ops) q]) =
  hrun ts_rows false false (hinit cp) ops ++ [lift (ts_map (hcur cp ops)) q].
Proof. intros. rewrite history_current. f_equal. f_equal. apply (Proofs.C10_Impl.impl_ts_spec (hcur cp ops) q H). Qed.
