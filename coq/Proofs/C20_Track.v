(* C20 -- proofs about Model/C20_Track.v: save_performance_midi only reads its argument, whatever kind it is;
   normalising a list argument through the Performance constructor is refuted; what the constructor's track
   renumbering does (every track in 0..num_tracks-1, no track number in two parts). *)
From PV Require Import Lib.Base Model.C20 Model.C20_Mut Model.C20_Track.
From Coq Require Import ZArith List Bool Lia.
Import ListNotations.
#[local] Open Scope Z_scope.

(* ---- the dispatch ---- *)
Lemma all_pp_map_Some : forall pps, all_pp (map Some pps) = Some pps.
Proof. induction pps as [|p r IH]; simpl; auto. now rewrite IH. Qed.

Lemma all_pp_parts : forall es pps, all_pp es = Some pps -> es = map Some pps.
Proof.
  induction es as [|[p|] r IH]; simpl; intros pps H.
  - now inversion H.
  - destruct (all_pp r) eqn:E; inversion H; subst. simpl. f_equal. auto.
  - discriminate.
Qed.

Lemma arg_parts_map_Some : forall pps, arg_parts (AIterable (map Some pps)) = pps.
Proof. induction pps as [|p r IH]; simpl in *; auto. now f_equal. Qed.

Lemma direct_preserves_lemma : forall a : pm_arg,
  snd (save_perf_midi Direct a) = a /\
  match dispatch Direct a with
  | Some (pps, a') => a' = a /\ pps = arg_parts a
  | None => fst (save_perf_midi Direct a) = OValueError
  end.
Proof.
  intros [pps|pp|es|]; unfold save_perf_midi; simpl; auto.
  destruct (all_pp es) as [pps|] eqn:E; simpl; auto.
  repeat split. apply all_pp_parts in E. subst. exact (eq_sym (arg_parts_map_Some pps)).
Qed.

Lemma direct_repeatable_lemma : forall a : pm_arg,
  save_perf_midi Direct (snd (save_perf_midi Direct a)) = save_perf_midi Direct a.
Proof. intros a. now rewrite (proj1 (direct_preserves_lemma a)). Qed.

Lemma map_Some_inj : forall (a b : list ppart), map Some a = map Some b -> a = b.
Proof.
  induction a as [|x a IH]; intros [|y b] H; simpl in *; try discriminate; auto.
  inversion H. f_equal; auto.
Qed.

Lemma through_safe_iff_lemma : forall pps : list ppart,
  snd (save_perf_midi ThroughPerformance (AIterable (map Some pps))) = AIterable (map Some pps) <-> sanitize pps = pps.
Proof.
  intros pps. unfold save_perf_midi. simpl. rewrite all_pp_map_Some. simpl. split.
  - intros H. inversion H. now apply map_Some_inj.
  - intros H. now rewrite H.
Qed.

Definition ex_two_on_zero : list ppart := [mk_pp [Some 0; Some 0] [] []; mk_pp [Some 0] [None] []].

Lemma through_refuted_lemma :
  exists es : list (option ppart),
    snd (save_perf_midi ThroughPerformance (AIterable es)) <> AIterable es /\
    fst (save_perf_midi ThroughPerformance (AIterable es)) <> fst (save_perf_midi Direct (AIterable es)) /\
    snd (save_perf_midi Direct (AIterable es)) = AIterable es /\
    save_perf_midi ThroughPerformance (snd (save_perf_midi ThroughPerformance (AIterable es)))
    = save_perf_midi ThroughPerformance (AIterable es).
Proof.
  exists (map Some ex_two_on_zero). vm_compute. repeat split; discriminate.
Qed.

(* ---- sanitize_track_numbers ---- *)
Lemma key_eqb_eq : forall a b : key, key_eqb a b = true <-> a = b.
Proof.
  intros [a1 a2] [b1 b2]. unfold key_eqb. simpl. rewrite andb_true_iff, Nat.eqb_eq, Z.eqb_eq.
  split; [intros [-> ->]; reflexivity | intros H; inversion H; auto].
Qed.

Lemma kinsert_In : forall k x l, In x (kinsert k l) <-> x = k \/ In x l.
Proof.
  intros k x. induction l as [|y r IH]; simpl.
  - intuition.
  - destruct (key_eqb k y) eqn:E.
    + apply key_eqb_eq in E. subst. simpl. intuition.
    + destruct (key_ltb k y); simpl; rewrite ?IH; intuition.
Qed.

Lemma sorted_set_In : forall ks x, In x (sorted_set ks) <-> In x ks.
Proof.
  induction ks as [|k r IH]; intros x; simpl; [tauto|].
  rewrite kinsert_In, IH. intuition.
Qed.

Lemma index_of_lt : forall k l, In k l -> (index_of k l < length l)%nat.
Proof.
  induction l as [|x r IH]; simpl; [tauto|]. intros H.
  destruct (key_eqb k x) eqn:E; [lia|].
  destruct H as [H|H]; [subst; rewrite (proj2 (key_eqb_eq k k) eq_refl) in E; discriminate|].
  apply IH in H. lia.
Qed.

Lemma index_of_inj : forall l k k', In k l -> In k' l -> index_of k l = index_of k' l -> k = k'.
Proof.
  induction l as [|x r IH]; simpl; [tauto|]. intros k k' H H' E.
  destruct (key_eqb k x) eqn:E1; destruct (key_eqb k' x) eqn:E2; try discriminate.
  - apply key_eqb_eq in E1, E2. congruence.
  - injection E as E. apply IH; auto.
    + destruct H as [H|H]; auto. subst. rewrite (proj2 (key_eqb_eq k k) eq_refl) in E1. discriminate.
    + destruct H' as [H'|H']; auto. subst. rewrite (proj2 (key_eqb_eq k' k') eq_refl) in E2. discriminate.
Qed.

Lemma enum_from_nth : forall (A : Type) (l : list A) s i a x,
  nth_error (enum_from s l) i = Some (a, x) -> a = (s + i)%nat /\ nth_error l i = Some x.
Proof.
  induction l as [|y r IH]; intros s [|i] a x H; simpl in *; try discriminate.
  - inversion H. subst. split; [lia|reflexivity].
  - apply IH in H as [-> H]. split; [lia|assumption].
Qed.

Lemma enum_from_In : forall (A : Type) (l : list A) s i x,
  nth_error l i = Some x -> In ((s + i)%nat, x) (enum_from s l).
Proof.
  induction l as [|y r IH]; intros s [|i] x H; simpl in *; try discriminate.
  - inversion H. left. f_equal. lia.
  - right. replace (s + S i)%nat with (S s + i)%nat by lia. auto.
Qed.

Lemma keys_by_In : forall f pps i pp t,
  nth_error pps i = Some pp -> In t (f pp) -> In (i, get_track (-1) t) (keys_by f pps).
Proof.
  intros f pps i pp t H Ht. unfold keys_by. apply in_flat_map. exists (i, pp). split.
  - apply (enum_from_In _ pps 0%nat i pp H).
  - simpl. apply (in_map (fun t0 => (i, get_track (-1) t0))). assumption.
Qed.

(* the KeyError of track_map[...] cannot happen *)
Lemma key_in_ids : forall pps i pp t,
  nth_error pps i = Some pp -> In t (events pp) -> In (i, get_track (-1) t) (unique_track_ids pps).
Proof.
  intros pps i pp t H Ht. unfold unique_track_ids. apply sorted_set_In. unfold all_keys. unfold events in Ht.
  rewrite !in_app_iff in *. destruct Ht as [Ht|[Ht|Ht]]; [left|right; left|right; right]; eapply keys_by_In; eauto.
Qed.

Lemma renumber_In : forall ids i ts o, In o (renumber ids i ts) ->
  exists t, In t ts /\ o = Some (Z.of_nat (index_of (i, get_track (-1) t) ids)).
Proof. intros ids i ts o H. unfold renumber in H. apply in_map_iff in H as [t [E Ht]]. exists t. auto. Qed.

Lemma sanitize_nth : forall pps i pp', nth_error (sanitize pps) i = Some pp' ->
  exists pp, nth_error pps i = Some pp /\ pp' = sanitize_part (unique_track_ids pps) (i, pp).
Proof.
  intros pps i pp' H. unfold sanitize in H. rewrite nth_error_map in H.
  destruct (nth_error (enum_from 0 pps) i) as [[a pp]|] eqn:E; [|discriminate].
  apply enum_from_nth in E as [-> E]. inversion H. exists pp. auto.
Qed.

Lemma sanitized_event : forall pps i pp' o, nth_error (sanitize pps) i = Some pp' -> In o (events pp') ->
  exists pp t, nth_error pps i = Some pp /\ In t (events pp) /\
               o = Some (Z.of_nat (index_of (i, get_track (-1) t) (unique_track_ids pps))).
Proof.
  intros pps i pp' o H Ho. apply sanitize_nth in H as [pp [H ->]]. exists pp.
  unfold events, sanitize_part in Ho. simpl in Ho. rewrite !in_app_iff in Ho.
  destruct Ho as [Ho|[Ho|Ho]]; apply renumber_In in Ho as [t [Ht ->]]; exists t; unfold events; rewrite !in_app_iff; auto.
Qed.

Lemma enum_from_length : forall (A : Type) (l : list A) s, length (enum_from s l) = length l.
Proof. induction l; simpl; auto. Qed.

Lemma sanitize_shape_lemma : forall pps : list ppart,
  length (sanitize pps) = length pps /\
  forall i pp', nth_error (sanitize pps) i = Some pp' ->
    exists pp, nth_error pps i = Some pp /\ length (p_notes pp') = length (p_notes pp) /\
               length (p_ctrls pp') = length (p_ctrls pp) /\ length (p_progs pp') = length (p_progs pp).
Proof.
  intros pps. split.
  - unfold sanitize. now rewrite map_length, enum_from_length.
  - intros i pp' H. apply sanitize_nth in H as [pp [H ->]]. exists pp. unfold sanitize_part, renumber. simpl.
    now rewrite !map_length.
Qed.

Lemma sanitize_range_lemma : forall (pps : list ppart) i pp' o,
  nth_error (sanitize pps) i = Some pp' -> In o (events pp') ->
  exists z, o = Some z /\ 0 <= z < Z.of_nat (num_tracks pps).
Proof.
  intros pps i pp' o H Ho. destruct (sanitized_event _ _ _ _ H Ho) as [pp [t [Hp [Ht ->]]]].
  eexists. split; [reflexivity|]. pose proof (index_of_lt _ _ (key_in_ids _ _ _ _ Hp Ht)). unfold num_tracks. lia.
Qed.

Lemma sanitize_unique_lemma : forall (pps : list ppart) i j ppi ppj z,
  nth_error (sanitize pps) i = Some ppi -> nth_error (sanitize pps) j = Some ppj ->
  In (Some z) (events ppi) -> In (Some z) (events ppj) -> i = j.
Proof.
  intros pps i j ppi ppj z Hi Hj Zi Zj.
  destruct (sanitized_event _ _ _ _ Hi Zi) as [pi [ti [Hpi [Hti Ei]]]].
  destruct (sanitized_event _ _ _ _ Hj Zj) as [pj [tj [Hpj [Htj Ej]]]].
  rewrite Ei in Ej. inversion Ej as [E]. apply Nat2Z.inj in E.
  apply index_of_inj in E; [inversion E; auto| |]; eapply key_in_ids; eauto.
Qed.

(* within one part, two events keep / get the same number exactly when they had the same track before *)
Lemma sanitize_same_track_lemma : forall (pps : list ppart) i pp t1 t2,
  nth_error pps i = Some pp -> In t1 (events pp) -> In t2 (events pp) ->
  (index_of (i, get_track (-1) t1) (unique_track_ids pps) = index_of (i, get_track (-1) t2) (unique_track_ids pps)
   <-> get_track (-1) t1 = get_track (-1) t2).
Proof.
  intros pps i pp t1 t2 H H1 H2. split.
  - intros E. apply index_of_inj in E; [now inversion E| |]; eapply key_in_ids; eauto.
  - intros ->. reflexivity.
Qed.

Example track_example :
  sanitize ex_two_on_zero = [mk_pp [Some 0; Some 0] [] []; mk_pp [Some 2] [Some 1] []] /\
  num_tracks ex_two_on_zero = 3%nat /\
  save_perf_midi Direct (AIterable (map Some ex_two_on_zero)) = (OFile [3], AIterable (map Some ex_two_on_zero)) /\
  save_perf_midi Direct (AIterable [Some (mk_pp [] [] []); None]) = (OValueError, AIterable [Some (mk_pp [] [] []); None]) /\
  fst (save_perf_midi Direct (APPart (mk_pp [] [] []))) = OIndexError /\
  fst (save_perf_midi Direct (APerformance (sanitize ex_two_on_zero))) = OFile [2; 0; 1].
Proof. vm_compute. repeat split. Qed.

Lemma pp_eqb_eq : forall a b, pp_eqb a b = true -> a = b.
Proof.
  intros [a1 a2 a3] [b1 b2 b3]. unfold pp_eqb. simpl. rewrite !andb_true_iff. intros [[H1 H2] H3].
  assert (Z : forall x y, zopt_eqb x y = true -> x = y).
  { intros [x|] [y|]; simpl; try discriminate; auto. intros E. apply Z.eqb_eq in E. now subst. }
  apply (list_eqb_eq _ Z) in H1, H2, H3. now subst.
Qed.

Lemma track_ok_meaning_lemma : forall (a : pm_arg) (out : pm_out) (after : list ppart),
  track_ok (a, out, after) = true -> after = arg_parts a /\ out_eqb (fst (save_perf_midi Direct a)) out = true.
Proof.
  intros a out after H. unfold track_ok in H. apply andb_true_iff in H as [H1 H2].
  rewrite (proj1 (direct_preserves_lemma a)) in H2. apply (list_eqb_eq _ pp_eqb_eq) in H2. auto.
Qed.

(* ---- idempotence of the renumbering ---- *)
Definition klt (a b : key) : Prop := (fst a < fst b)%nat \/ (fst a = fst b /\ snd a < snd b).

Lemma key_ltb_klt : forall a b, key_ltb a b = true <-> klt a b.
Proof. intros a b. unfold key_ltb, klt. rewrite orb_true_iff, andb_true_iff, Nat.ltb_lt, Nat.eqb_eq, Z.ltb_lt. tauto. Qed.

Lemma klt_trans : forall a b c, klt a b -> klt b c -> klt a c.
Proof. unfold klt. intros a b c. lia. Qed.

Lemma klt_irrefl : forall a, ~ klt a a.
Proof. unfold klt. intros a. lia. Qed.

Lemma key_eqb_refl : forall k, key_eqb k k = true.
Proof. intros k. now apply key_eqb_eq. Qed.

Lemma not_eq_not_lt : forall k x, key_eqb k x = false -> key_ltb k x = false -> klt x k.
Proof.
  unfold key_eqb, key_ltb, klt. intros k x H1 H2. apply orb_false_iff in H2 as [H2 H3]. apply Nat.ltb_ge in H2.
  destruct (Nat.eqb_spec (fst k) (fst x)) as [E|E]; simpl in *.
  - apply Z.eqb_neq in H1. apply Z.ltb_ge in H3. lia.
  - lia.
Qed.

Fixpoint ssorted (l : list key) : Prop := match l with [] => True | x :: r => Forall (klt x) r /\ ssorted r end.

Lemma kinsert_sorted : forall k l, ssorted l -> ssorted (kinsert k l).
Proof.
  intros k. induction l as [|x r IH]; simpl; intros H.
  - split; auto.
  - destruct H as [Hx Hr]. destruct (key_eqb k x) eqn:E1.
    + simpl; auto.
    + destruct (key_ltb k x) eqn:E2.
      * apply key_ltb_klt in E2. simpl. repeat split; auto. constructor; auto.
        eapply Forall_impl; [|exact Hx]. intros a Ha. eapply klt_trans; eauto.
      * simpl. split; [|auto]. apply Forall_forall. intros y Hy. apply kinsert_In in Hy as [->|Hy].
        -- apply not_eq_not_lt; auto.
        -- rewrite Forall_forall in Hx; auto.
Qed.

Lemma sorted_set_sorted : forall ks, ssorted (sorted_set ks).
Proof. induction ks; simpl; auto using kinsert_sorted. Qed.

Lemma index_lt_iff : forall l, ssorted l -> forall k x, In k l -> In x l ->
  ((index_of k l < index_of x l)%nat <-> klt k x).
Proof.
  induction l as [|y r IH]; simpl; [tauto|]. intros [Hy Hr] k x Hk Hx. rewrite Forall_forall in Hy.
  destruct (key_eqb k y) eqn:E1; destruct (key_eqb x y) eqn:E2.
  - apply key_eqb_eq in E1, E2. subst. split; [lia|]. intros H. exfalso. eapply klt_irrefl; eauto.
  - apply key_eqb_eq in E1. subst.
    destruct Hx as [Hx|Hx]; [subst; rewrite key_eqb_refl in E2; discriminate|]. split; [intros _; auto | lia].
  - apply key_eqb_eq in E2. subst.
    destruct Hk as [Hk|Hk]; [subst; rewrite key_eqb_refl in E1; discriminate|]. split; [lia|].
    intros H. exfalso. apply (klt_irrefl k). eapply klt_trans; [exact H | apply Hy; auto].
  - destruct Hk as [Hk|Hk]; [subst; rewrite key_eqb_refl in E1; discriminate|].
    destruct Hx as [Hx|Hx]; [subst; rewrite key_eqb_refl in E2; discriminate|].
    rewrite <- (IH Hr k x Hk Hx). lia.
Qed.

(* what the renumbering does to a key: same part, new track = position *)
Definition relabel (l : list key) (k : key) : key := (fst k, Z.of_nat (index_of k l)).

Lemma relabel_eqb : forall l k x, In k l -> In x l -> key_eqb (relabel l k) (relabel l x) = key_eqb k x.
Proof.
  intros l k x Hk Hx. destruct (key_eqb k x) eqn:E.
  - apply key_eqb_eq in E. subst. apply key_eqb_refl.
  - destruct (key_eqb (relabel l k) (relabel l x)) eqn:E'; auto. apply key_eqb_eq in E'. unfold relabel in E'.
    inversion E' as [[E1 E2]]. apply Nat2Z.inj in E2. apply index_of_inj in E2; auto. subst.
    rewrite key_eqb_refl in E. discriminate.
Qed.

Lemma relabel_ltb : forall l k x, ssorted l -> In k l -> In x l -> key_ltb (relabel l k) (relabel l x) = key_ltb k x.
Proof.
  intros l k x Hs Hk Hx. apply Bool.eq_iff_eq_true. rewrite !key_ltb_klt.
  pose proof (index_lt_iff l Hs k x Hk Hx) as M. unfold klt in *. unfold relabel. simpl. split; intros H.
  - destruct H as [H|[H1 H2]]; [auto|]. apply M. lia.
  - destruct H as [H|[H1 H2]]; [auto|]. right. split; auto. assert (index_of k l < index_of x l)%nat by (apply M; auto). lia.
Qed.

Lemma kinsert_map : forall (f : key -> key) k l,
  (forall x, In x l -> key_eqb (f k) (f x) = key_eqb k x /\ key_ltb (f k) (f x) = key_ltb k x) ->
  kinsert (f k) (map f l) = map f (kinsert k l).
Proof.
  intros f k. induction l as [|x r IH]; simpl; intros H; auto.
  destruct (H x (or_introl eq_refl)) as [-> ->].
  destruct (key_eqb k x); auto. destruct (key_ltb k x); auto. simpl. f_equal. apply IH. intros; apply H; auto.
Qed.

Lemma sorted_set_map : forall (f : key -> key) ks,
  (forall k x, In k ks -> In x ks -> key_eqb (f k) (f x) = key_eqb k x /\ key_ltb (f k) (f x) = key_ltb k x) ->
  sorted_set (map f ks) = map f (sorted_set ks).
Proof.
  intros f. induction ks as [|k r IH]; simpl; intros H; auto.
  rewrite IH by (intros; apply H; simpl; auto). apply kinsert_map. intros x Hx. apply (proj1 (sorted_set_In _ _)) in Hx. apply H; simpl; auto.
Qed.

Lemma index_of_map : forall (f : key -> key) k l,
  (forall x, In x l -> key_eqb (f k) (f x) = key_eqb k x) -> index_of (f k) (map f l) = index_of k l.
Proof.
  intros f k. induction l as [|x r IH]; simpl; intros H; auto.
  rewrite (H x (or_introl eq_refl)). destruct (key_eqb k x); [reflexivity|]. f_equal. apply IH. intros; apply H; auto.
Qed.

Lemma enum_from_map_sanitize : forall ids pps s,
  enum_from s (map (sanitize_part ids) (enum_from s pps)) = map (fun ip => (fst ip, sanitize_part ids ip)) (enum_from s pps).
Proof. intros ids. induction pps as [|p r IH]; intros s; simpl; auto. f_equal. apply IH. Qed.

Lemma flat_map_map_out : forall (A : Type) (phi : key -> key) (g : A -> list key) l,
  flat_map (fun x => map phi (g x)) l = map phi (flat_map g l).
Proof. induction l; simpl; auto. rewrite map_app. now f_equal. Qed.

Lemma flat_map_map_in : forall (A B C : Type) (g : B -> list C) (h : A -> B) l,
  flat_map g (map h l) = flat_map (fun x => g (h x)) l.
Proof. induction l; simpl; auto. now f_equal. Qed.

Lemma keys_by_sanitize : forall f pps ids,
  (forall ip, f (sanitize_part ids ip) = renumber ids (fst ip) (f (snd ip))) ->
  keys_by f (map (sanitize_part ids) (enum_from 0 pps)) = map (relabel ids) (keys_by f pps).
Proof.
  intros f pps ids Hf. unfold keys_by. rewrite enum_from_map_sanitize, flat_map_map_in, <- flat_map_map_out.
  apply flat_map_ext. intros ip. simpl. rewrite Hf. unfold renumber. rewrite !map_map. apply map_ext. intros t. reflexivity.
Qed.

Lemma all_keys_sanitize : forall pps, all_keys (sanitize pps) = map (relabel (unique_track_ids pps)) (all_keys pps).
Proof.
  intros pps. unfold all_keys, sanitize. rewrite !keys_by_sanitize by (intros; reflexivity). now rewrite !map_app.
Qed.

Lemma ids_sanitize : forall pps,
  unique_track_ids (sanitize pps) = map (relabel (unique_track_ids pps)) (unique_track_ids pps).
Proof.
  intros pps. change (unique_track_ids (sanitize pps)) with (sorted_set (all_keys (sanitize pps))).
  rewrite all_keys_sanitize. change (unique_track_ids pps) with (sorted_set (all_keys pps)).
  apply sorted_set_map. intros k x Hk Hx. apply (proj2 (sorted_set_In _ _)) in Hk. apply (proj2 (sorted_set_In _ _)) in Hx.
  split; [apply relabel_eqb | apply relabel_ltb]; auto using sorted_set_sorted.
Qed.

Lemma renumber_twice : forall ids i ts, (forall t, In t ts -> In (i, get_track (-1) t) ids) ->
  renumber (map (relabel ids) ids) i (renumber ids i ts) = renumber ids i ts.
Proof.
  intros ids i ts H. unfold renumber. rewrite map_map. apply map_ext_in. intros t Ht. simpl. do 2 f_equal.
  change (i, Z.of_nat (index_of (i, get_track (-1) t) ids)) with (relabel ids (i, get_track (-1) t)).
  apply index_of_map. intros x Hx. apply relabel_eqb; auto.
Qed.

Lemma sanitize_idempotent_lemma : forall pps : list ppart, sanitize (sanitize pps) = sanitize pps.
Proof.
  intros pps.
  change (sanitize (sanitize pps)) with (map (sanitize_part (unique_track_ids (sanitize pps))) (enum_from 0 (sanitize pps))).
  rewrite ids_sanitize.
  change (enum_from 0 (sanitize pps)) with (enum_from 0 (map (sanitize_part (unique_track_ids pps)) (enum_from 0 pps))).
  rewrite enum_from_map_sanitize, map_map. unfold sanitize. apply map_ext_in. intros [i pp] Hin.
  apply In_nth_error in Hin as [n Hn]. apply enum_from_nth in Hn as [-> Hn]. simpl in *.
  unfold sanitize_part. simpl. f_equal; apply renumber_twice; intros t Ht; eapply key_in_ids; eauto;
    unfold events; rewrite !in_app_iff; auto.
Qed.

(* hence: constructing a Performance from the parts of a Performance changes nothing, and the slip is harmless on
   every list that has been through the constructor before *)
Lemma through_after_sanitize_lemma : forall pps : list ppart,
  snd (save_perf_midi ThroughPerformance (AIterable (map Some (sanitize pps)))) = AIterable (map Some (sanitize pps)).
Proof. intros pps. apply through_safe_iff_lemma. apply sanitize_idempotent_lemma. Qed.

(* ---- the fixed points of the renumbering ---- *)
Lemma map_fix_pointwise : forall (f : key -> key) l, l = map f l -> Forall (fun k => k = f k) l.
Proof.
  intros f. induction l as [|x r IH]; simpl; intros H; [constructor|].
  injection H as H1 H2. constructor; auto.
Qed.

Lemma enum_from_snd : forall (A : Type) (l : list A) s, map snd (enum_from s l) = l.
Proof. induction l; intros s; simpl; auto. now f_equal. Qed.

Lemma renumber_fix : forall ids i ts,
  (forall t, In t ts -> exists z, t = Some z /\ z = Z.of_nat (index_of (i, z) ids)) -> renumber ids i ts = ts.
Proof.
  intros ids i ts H. unfold renumber. rewrite <- (map_id ts) at 2. apply map_ext_in. intros t Ht.
  destruct (H t Ht) as [z [-> Hz]]. simpl. now rewrite <- Hz.
Qed.

Lemma sanitize_fixpoint_iff_lemma : forall pps : list ppart, sanitize pps = pps <-> canonical pps.
Proof.
  intros pps. split.
  - intros E. split.
    + intros i pp o Hn Ho. rewrite <- E in Hn. destruct (sanitize_range_lemma _ _ _ _ Hn Ho) as [z [-> _]]. discriminate.
    + pose proof (ids_sanitize pps) as I. rewrite E in I. apply map_fix_pointwise in I.
      eapply Forall_impl; [|exact I]. intros k Hk. rewrite Hk at 1. reflexivity.
  - intros [Hs Hr]. rewrite Forall_forall in Hr. unfold sanitize.
    transitivity (map snd (enum_from 0%nat pps)); [|apply enum_from_snd]. apply map_ext_in. intros [i pp] Hin.
    apply In_nth_error in Hin as [n Hn]. apply enum_from_nth in Hn as [-> Hn]. simpl in *.
    assert (R : forall t, In t (events pp) -> exists z, t = Some z /\ z = Z.of_nat (index_of (n, z) (unique_track_ids pps))).
    { intros t Ht. destruct t as [z|]; [|exfalso; eapply Hs; eauto]. exists z. split; auto.
      apply (Hr (n, z)). apply (key_in_ids pps n pp (Some z) Hn Ht). }
    destruct pp as [a b c]. unfold sanitize_part, events in *. simpl in *.
    f_equal; apply renumber_fix; intros t Ht; apply R; rewrite !in_app_iff; auto.
Qed.

Example canonical_example :
  canonical [mk_pp [Some 0; Some 0] [] []; mk_pp [Some 2] [Some 1] []] /\ ~ canonical ex_two_on_zero.
Proof.
  split.
  - apply sanitize_fixpoint_iff_lemma. reflexivity.
  - intros H. apply sanitize_fixpoint_iff_lemma in H. vm_compute in H. discriminate.
Qed.
