(* C09 -- destinations are consumed in cyclic order (Model/C09_cycle.v), for ALL destination lists
   (any length, duplicates as "1, 2" brackets produce them) and ALL numbers of departures:
   after q full rounds and r+1 further departures the index computed by
   list_of_destinations_from_last_segment ("the count-th occurrence of the last destination in
   destinations*100, modulo the length") is r, as long as q < 100; from the 100th round on the code
   raises IndexError (the boundary of known finding C09-K2).  Hence the maximal policy offers
   destination (r+1) mod n, the all-variants policy the destinations after r (all of them after the
   last), the minimal policy the last one. *)
From PV Require Import Lib.Base Model.C09 Model.C09_cycle.
From Coq Require Import ZArith List Bool Lia.
Import ListNotations.
#[local] Open Scope Z_scope.

Lemma zcount_app x a b : zcount x (a ++ b) = zcount x a + zcount x b.
Proof. induction a as [|y a IH]; simpl; [lia|]. rewrite IH. lia. Qed.

Lemma zcount_nonneg x l : 0 <= zcount x l.
Proof. induction l as [|y l IH]; simpl; [lia|]. destruct (x =? y); lia. Qed.

Lemma zcount_laps x to q : zcount x (laps to q) = Z.of_nat q * zcount x to.
Proof.
  unfold laps. induction q as [|q IH]; [reflexivity|].
  cbn [repeat concat]. rewrite zcount_app, IH. lia.
Qed.

Lemma positions_length x l i : Z.of_nat (length (positions x l i)) = zcount x l.
Proof.
  revert i. induction l as [|y l IH]; intros i; simpl; [reflexivity|].
  destruct (x =? y); simpl length; rewrite ?Nat2Z.inj_succ, IH; lia.
Qed.

Lemma zcount_firstn_le x l m : zcount x (firstn m l) <= zcount x l.
Proof.
  revert m. induction l as [|y l IH]; intros [|m]; simpl; try lia.
  all: pose proof (zcount_nonneg x l); try specialize (IH m); destruct (x =? y); lia.
Qed.

(* the element at place r occurs at least once among the first r+1 *)
Lemma zcount_firstn_pos l r : (r < length l)%nat -> 1 <= zcount (nth r l (-3)) (firstn (S r) l).
Proof.
  revert r. induction l as [|y l IH]; intros r Hr; simpl in Hr; [lia|].
  destruct r as [|r].
  - cbn [nth firstn zcount]. rewrite Z.eqb_refl. simpl. lia.
  - change (firstn (S (S r)) (y :: l)) with (y :: firstn (S r) l).
    cbn [nth zcount]. specialize (IH r ltac:(lia)). destruct (_ =? y); lia.
Qed.

(* ... and it is the (that count)-th occurrence: positions lists place r at that index *)
Lemma positions_nth l : forall r i, (r < length l)%nat ->
  nth_error (positions (nth r l (-3)) l i) (Z.to_nat (zcount (nth r l (-3)) (firstn (S r) l) - 1))
  = Some (i + Z.of_nat r).
Proof.
  induction l as [|y l IH]; intros r i Hr; simpl in Hr; [lia|].
  destruct r as [|r].
  - cbn [nth firstn zcount positions]. rewrite Z.eqb_refl. simpl. f_equal. lia.
  - change (firstn (S (S r)) (y :: l)) with (y :: firstn (S r) l).
    cbn [nth zcount positions].
    pose proof (zcount_firstn_pos l r ltac:(lia)) as Hp.
    specialize (IH r (i + 1) ltac:(lia)).
    destruct (nth r l (-3) =? y).
    + replace (Z.to_nat (1 + zcount (nth r l (-3)) (firstn (S r) l) - 1))
        with (S (Z.to_nat (zcount (nth r l (-3)) (firstn (S r) l) - 1))) by lia.
      cbn [nth_error]. rewrite IH. f_equal. lia.
    + replace (0 + zcount (nth r l (-3)) (firstn (S r) l) - 1)
        with (zcount (nth r l (-3)) (firstn (S r) l) - 1) by lia.
      rewrite IH. f_equal. lia.
Qed.

Lemma last_app_ne (a b : list Z) d : b <> [] -> last (a ++ b) d = last b d.
Proof.
  intros Hb. induction a as [|y a IH]; [reflexivity|].
  cbn [app]. destruct (a ++ b) eqn:E.
  - apply app_eq_nil in E. destruct E; congruence.
  - rewrite <- IH. reflexivity.
Qed.

Lemma zlast_app_firstn a l r : (r < length l)%nat -> zlast (a ++ firstn (S r) l) = nth r l (-3).
Proof.
  intros Hr. unfold zlast.
  assert (Hne : firstn (S r) l <> []) by (destruct l; simpl in *; [lia|discriminate]).
  rewrite last_app_ne by exact Hne. clear a Hne.
  revert r Hr. induction l as [|y l IH]; intros r Hr; simpl in Hr; [lia|].
  destruct r as [|r]; [reflexivity|].
  change (firstn (S (S r)) (y :: l)) with (y :: firstn (S r) l).
  cbn [nth]. rewrite <- (IH r) by lia.
  destruct l as [|z l]; [simpl in Hr; lia|]. reflexivity.
Qed.

Section Cyc.
Variable to : list Z.
Variables q r : nat.
Hypothesis Hr : (r < length to)%nat.

Let x := nth r to (-3).
Let c := zcount x to.
Let c' := zcount x (firstn (S r) to).

Lemma cyc_last : zlast (cyc_used to q r) = x.
Proof. unfold cyc_used. apply zlast_app_firstn. exact Hr. Qed.

Lemma cyc_count : zcount x (cyc_used to q r) = Z.of_nat q * c + c'.
Proof. unfold cyc_used. rewrite zcount_app, zcount_laps. reflexivity. Qed.

Lemma cc_bounds : 1 <= c' <= c.
Proof. split; [apply zcount_firstn_pos; exact Hr | apply zcount_firstn_le]. Qed.

(* the index of the last destination taken: its place in the list, for fewer than 100 rounds;
   IndexError from the 100th round on *)
Lemma last_dest_index_cyc :
  last_dest_index to (cyc_used to q r) = if (q <? 100)%nat then Some (Z.of_nat r) else None.
Proof.
  unfold last_dest_index. rewrite cyc_last, cyc_count. fold x c c'.
  pose proof cc_bounds as Hb.
  pose proof (positions_length x to 0) as Hl. fold c in Hl.
  pose proof (positions_nth to r 0 Hr) as Hn. fold x c' in Hn.
  remember (positions x to 0) as pos eqn:Ep.
  destruct pos as [|p0 ps].
  { simpl in Hl. lia. }
  rewrite Hl.
  destruct (Nat.ltb_spec q 100) as [Hq|Hq].
  - destruct (Z.ltb_spec (100 * c) (Z.of_nat q * c + c')) as [H|H]; [nia|].
    replace (Z.of_nat q * c + c' - 1) with ((c' - 1) + Z.of_nat q * c) by lia.
    rewrite Z_mod_plus_full, Z.mod_small by lia.
    rewrite Hn. f_equal.
  - destruct (Z.ltb_spec (100 * c) (Z.of_nat q * c + c')) as [H|H]; [reflexivity|nia].
Qed.
End Cyc.

(* ------------------------------------------------------------------ *)
(* what the three policies offer after q rounds and r+1 further departures *)

Lemma one_seg_used to used nr ar :
  used <> [] ->
  dests_of to used nr ar =
    match last_dest_index to used with
    | None => None
    | Some ldi =>
        let len := Z.of_nat (length to) in
        if nr then Some [zlast to]
        else if ar then
          (if ldi <? len - 1 then option_map (fun x => [x]) (znth to (ldi + 1))
           else option_map (fun x => [x]) (znth to 0))
        else (if ldi <? len - 1 then Some (skipn (Z.to_nat (ldi + 1)) to) else Some to)
    end.
Proof. intros H. destruct used as [|u us]; [congruence|]. reflexivity. Qed.

Lemma cyc_used_ne to q r : (r < length to)%nat -> cyc_used to q r <> [].
Proof.
  intros Hr H. unfold cyc_used in H. apply app_eq_nil in H. destruct H as [_ H].
  destruct to; simpl in *; [lia|discriminate].
Qed.

Lemma znth_nat l (i : nat) : (i < length l)%nat -> znth l (Z.of_nat i) = Some (nth i l (-3)).
Proof.
  intros H. unfold znth. destruct (Z.ltb_spec (Z.of_nat i) 0); [lia|].
  rewrite Nat2Z.id. apply nth_error_nth'. exact H.
Qed.

(* the place offered next: r+1, or 0 after the last destination *)
Definition next_place (n r : nat) : nat := if (S r <? n)%nat then S r else O.

(* maximal policy (all_repeats): exactly one destination, the next one in cyclic order *)
Theorem dests_maximal_cyclic_lemma to q r :
  (r < length to)%nat -> (q < 100)%nat ->
  dests_of to (cyc_used to q r) false true = Some [nth (next_place (length to) r) to (-3)].
Proof.
  intros Hr Hq. rewrite one_seg_used by (apply cyc_used_ne; exact Hr).
  rewrite last_dest_index_cyc by exact Hr.
  destruct (Nat.ltb_spec q 100); [|lia]. cbv zeta. unfold next_place.
  destruct (Nat.ltb_spec (S r) (length to)) as [H1|H1].
  - destruct (Z.ltb_spec (Z.of_nat r) (Z.of_nat (length to) - 1)); [|lia].
    replace (Z.of_nat r + 1) with (Z.of_nat (S r)) by lia.
    rewrite znth_nat by exact H1. reflexivity.
  - destruct (Z.ltb_spec (Z.of_nat r) (Z.of_nat (length to) - 1)); [lia|].
    change 0 with (Z.of_nat 0). rewrite znth_nat by lia. reflexivity.
Qed.

(* all-variants policy: the destinations behind the last one taken, all of them after the last *)
Theorem dests_all_variants_cyclic_lemma to q r :
  (r < length to)%nat -> (q < 100)%nat ->
  dests_of to (cyc_used to q r) false false =
    Some (if (S r <? length to)%nat then skipn (S r) to else to).
Proof.
  intros Hr Hq. rewrite one_seg_used by (apply cyc_used_ne; exact Hr).
  rewrite last_dest_index_cyc by exact Hr.
  destruct (Nat.ltb_spec q 100); [|lia]. cbv zeta.
  destruct (Nat.ltb_spec (S r) (length to)) as [H1|H1].
  - destruct (Z.ltb_spec (Z.of_nat r) (Z.of_nat (length to) - 1)); [|lia].
    replace (Z.to_nat (Z.of_nat r + 1)) with (S r) by lia. reflexivity.
  - destruct (Z.ltb_spec (Z.of_nat r) (Z.of_nat (length to) - 1)); [lia|]. reflexivity.
Qed.

(* minimal policy: always the last destination *)
Theorem dests_minimal_last_lemma to q r ar :
  (r < length to)%nat -> (q < 100)%nat ->
  dests_of to (cyc_used to q r) true ar = Some [zlast to].
Proof.
  intros Hr Hq. rewrite one_seg_used by (apply cyc_used_ne; exact Hr).
  rewrite last_dest_index_cyc by exact Hr.
  destruct (Nat.ltb_spec q 100); [|lia]. reflexivity.
Qed.

(* the 100-round limit: every policy raises from the 100th round on *)
Theorem dests_hundred_rounds_lemma to q r nr ar :
  (r < length to)%nat -> (100 <= q)%nat -> dests_of to (cyc_used to q r) nr ar = None.
Proof.
  intros Hr Hq. rewrite one_seg_used by (apply cyc_used_ne; exact Hr).
  rewrite last_dest_index_cyc by exact Hr.
  destruct (Nat.ltb_spec q 100); [lia|]. reflexivity.
Qed.

(* ------------------------------------------------------------------ *)
(* chaining: leaving the segment again and again under the maximal policy *)

Lemma laps_snoc to q : laps to (S q) = laps to q ++ to.
Proof.
  unfold laps. induction q as [|q IH]; [cbn; rewrite app_nil_r; reflexivity|].
  change (repeat to (S (S q))) with (to :: repeat to (S q)).
  cbn [concat]. rewrite IH at 1. change (repeat to (S q)) with (to :: repeat to q).
  cbn [concat]. rewrite app_assoc. reflexivity.
Qed.

Lemma firstn_snoc (l : list Z) r : (S r < length l)%nat -> firstn (S r) l ++ [nth (S r) l (-3)] = firstn (S (S r)) l.
Proof.
  revert r. induction l as [|y l IH]; intros r H; simpl in H; [lia|].
  destruct r as [|r].
  - destruct l as [|z l]; [simpl in H; lia|]. reflexivity.
  - change (firstn (S (S r)) (y :: l)) with (y :: firstn (S r) l).
    change (firstn (S (S (S r))) (y :: l)) with (y :: firstn (S (S r)) l).
    cbn [nth]. cbn [app]. rewrite IH by lia. reflexivity.
Qed.

(* one more departure: the used list is again of the cyclic shape *)
Lemma cyc_used_step to q r :
  (r < length to)%nat ->
  cyc_used to q r ++ [nth (next_place (length to) r) to (-3)] =
  if (S r <? length to)%nat then cyc_used to q (S r) else cyc_used to (S q) 0.
Proof.
  intros Hr. unfold cyc_used, next_place.
  destruct (Nat.ltb_spec (S r) (length to)) as [H|H].
  - rewrite <- app_assoc, firstn_snoc by exact H. reflexivity.
  - rewrite laps_snoc, <- !app_assoc. f_equal.
    replace (S r) with (length to) by lia. rewrite firstn_all.
    destruct to as [|y l]; [simpl in Hr; lia|]. reflexivity.
Qed.

(* k further departures from the cyclic shape stay in the cyclic shape (while below 100 rounds):
   the place reached is the one k steps further round the list *)
Definition adv (n q r k : nat) : nat * nat := (q + (r + k) / n, (r + k) mod n)%nat.

Lemma depart_from_cyc to : forall k q r,
  (r < length to)%nat ->
  (q * length to + r + k < 100 * length to)%nat ->
  depart k to (cyc_used to q r) false true =
    Some (cyc_used to (fst (adv (length to) q r k)) (snd (adv (length to) q r k))).
Proof.
  induction k as [|k IH]; intros q r Hr Hq.
  - unfold adv. cbn [depart fst snd].
    rewrite Nat.add_0_r, Nat.div_small, Nat.mod_small, Nat.add_0_r by exact Hr.
    reflexivity.
  - cbn [depart].
    assert (Hn : (length to <> 0)%nat) by lia.
    assert (Hq0 : (q < 100)%nat) by nia.
    rewrite dests_maximal_cyclic_lemma by assumption.
    rewrite cyc_used_step by exact Hr.
    unfold adv in *. cbn [fst snd] in *.
    destruct (Nat.ltb_spec (S r) (length to)) as [H|H].
    + rewrite IH; [|exact H|lia].
      replace (S r + k)%nat with (r + S k)%nat by lia. reflexivity.
    + assert (E : ((r + S k) = k + 1 * length to)%nat) by lia.
      assert (Ed : ((r + S k) / length to = S (k / length to))%nat).
      { rewrite E, Nat.div_add by exact Hn. lia. }
      assert (Em : ((r + S k) mod length to = k mod length to)%nat).
      { rewrite E, Nat.mod_add by exact Hn. reflexivity. }
      rewrite Ed, Em.
      rewrite IH; [|lia|nia].
      cbn [Nat.add]. f_equal. f_equal. lia.
Qed.

(* from the fresh path: after k >= 1 departures (at most 100 rounds) the used list is the cyclic one *)
Theorem depart_cyclic_lemma to k :
  to <> [] -> (1 <= k <= 100 * length to)%nat ->
  depart k to [] false true =
    Some (cyc_used to ((k - 1) / length to) ((k - 1) mod length to)).
Proof.
  intros Hne Hk. destruct k as [|k]; [lia|].
  assert (Hn : (0 < length to)%nat) by (destruct to; simpl; [congruence|lia]).
  cbn [depart]. unfold dests_of, one_seg_state. cbn [dests p_path p_used p_segs zlast last find_seg].
  cbn. destruct to as [|y l]; [congruence|].
  change (depart k (y :: l) [y] false true = Some (cyc_used (y :: l) ((S k - 1) / length (y :: l)) ((S k - 1) mod length (y :: l)))).
  change [y] with (cyc_used (y :: l) 0 0).
  replace (S k - 1)%nat with k by lia.
  rewrite depart_from_cyc; [reflexivity|exact Hn|].
  cbn [length] in *. lia.
Qed.

(* ------------------------------------------------------------------ *)
(* the whole path machine, maximal policy, tables without leaps (repeats and endings, nested or
   not): along every returned path every segment is left along its destinations in cyclic order *)

Definition cyc_shape (to l : list Z) : Prop :=
  l = [] \/ exists q r, (r < length to)%nat /\ l = cyc_used to q r.

Lemma dests_local st sg :
  find_seg (zlast (p_path st)) (p_segs st) = Some sg ->
  dests st = dests_of (s_to sg) (used_of (zlast (p_path st)) (p_used st)) (p_norep st) (p_allrep st).
Proof.
  intros H. unfold dests_of, one_seg_state, dests. rewrite H.
  destruct (used_of (zlast (p_path st)) (p_used st)) as [|u us]; reflexivity.
Qed.

Lemma cyc_shape_step to l ds :
  cyc_shape to l -> dests_of to l false true = Some ds ->
  exists d, ds = [d] /\ cyc_shape to (l ++ [d]).
Proof.
  intros [->|(q & r & Hr & ->)] H.
  - destruct to as [|x to']; [discriminate|]. injection H as <-. exists x. split; [reflexivity|].
    right. exists O, O. split; [simpl; lia|reflexivity].
  - destruct (Nat.ltb_spec q 100) as [Hq|Hq].
    + rewrite dests_maximal_cyclic_lemma in H by assumption. injection H as <-.
      eexists. split; [reflexivity|]. rewrite cyc_used_step by exact Hr. right.
      destruct (Nat.ltb_spec (S r) (length to)).
      * exists q, (S r). split; [assumption|reflexivity].
      * exists (S q), O. split; [lia|reflexivity].
    + rewrite dests_hundred_rounds_lemma in H by assumption. discriminate.
Qed.

Lemma used_of_append s a d u :
  used_of s (used_append a d u) = used_of s u ++ (if s =? a then [d] else []).
Proof.
  unfold used_of. induction u as [|[k l] r IH].
  - cbn [used_append zlookup]. destruct (s =? a); reflexivity.
  - cbn [used_append]. destruct (Z.eqb_spec a k) as [->|Hak].
    + cbn [zlookup]. destruct (Z.eqb_spec s k) as [->|Hsk]; [reflexivity|].
      rewrite app_nil_r. reflexivity.
    + cbn [zlookup]. destruct (Z.eqb_spec s k) as [->|Hsk].
      * destruct (Z.eqb_spec k a); [congruence|]. rewrite app_nil_r. reflexivity.
      * exact IH.
Qed.

Lemma nexts_snoc s p d : p <> [] ->
  nexts s (p ++ [d]) = nexts s p ++ (if zlast p =? s then [d] else []).
Proof.
  induction p as [|a p IH]; [congruence|]. intros _.
  destruct p as [|b p].
  - cbn. unfold zlast. cbn. destruct (a =? s); reflexivity.
  - change ((a :: b :: p) ++ [d]) with (a :: (b :: p) ++ [d]).
    assert (E : zlast (a :: b :: p) = zlast (b :: p)) by reflexivity. rewrite E.
    specialize (IH ltac:(discriminate)).
    change (nexts s (a :: (b :: p) ++ [d])) with
      (if a =? s then b :: nexts s ((b :: p) ++ [d]) else nexts s ((b :: p) ++ [d])).
    change (nexts s (a :: b :: p)) with (if a =? s then b :: nexts s (b :: p) else nexts s (b :: p)).
    rewrite IH. destruct (a =? s); reflexivity.
Qed.

Lemma leap_free_type g a : leap_free g = true -> seg_type a g =? TLEAP_START = false.
Proof.
  intros H. unfold seg_type, find_seg. destruct (a <? 0); [reflexivity|].
  destruct (nth_error g (Z.to_nat a)) as [sd|] eqn:E; [|reflexivity].
  apply nth_error_In in E. unfold leap_free in H. rewrite forallb_forall in H.
  specialize (H _ E). apply negb_true_iff in H. exact H.
Qed.

Lemma jump_leap_free g ign st d : leap_free g = true -> p_segs st = g ->
  jump ign st d = mkP (p_path st ++ [d]) (used_append (zlast (p_path st)) d (p_used st))
                      (p_jumped st) (p_norep st) (p_allrep st) (p_segs st).
Proof.
  intros H Hs. unfold jump. rewrite Hs, (leap_free_type g _ H), andb_false_r. reflexivity.
Qed.

Definition cinv (g : list seg) (st : pstate) : Prop :=
  p_segs st = g /\ p_norep st = false /\ p_allrep st = true /\ p_path st <> [] /\
  (forall s, used_of s (p_used st) = nexts s (p_path st)) /\
  (forall s sg, find_seg s g = Some sg -> cyc_shape (s_to sg) (nexts s (p_path st))).

Lemma unfold_cyc g ign : leap_free g = true -> forall fuel st ps,
  cinv g st -> C09.unfold fuel ign st = Some ps ->
  forall p, In p ps -> forall s sg, find_seg s g = Some sg -> cyc_shape (s_to sg) (succs s p).
Proof.
  intros Hlf. induction fuel as [|f IH]; intros st ps Hi Hu; [discriminate|].
  destruct Hi as (Hsegs & Hnr & Har & Hne & Hused & Hshape).
  simpl in Hu. destruct (dests st) as [ds|] eqn:Ed; [|discriminate].
  destruct (find_seg (zlast (p_path st)) (p_segs st)) as [sl|] eqn:Esl;
    [|unfold dests in Ed; rewrite Esl in Ed; discriminate].
  rewrite (dests_local st sl Esl), Hnr, Har, Hused in Ed.
  rewrite Hsegs in Esl.
  destruct (cyc_shape_step _ _ _ (Hshape _ _ Esl) Ed) as (d & -> & Hstep).
  destruct (d =? END) eqn:Eend.
  - injection Hu as <-. intros p [<-|[]] s sg Hs.
    unfold succs. rewrite nexts_snoc by exact Hne.
    apply Z.eqb_eq in Eend. subst d.
    destruct (Z.eqb_spec (zlast (p_path st)) s) as [<-|Hn].
    + rewrite Esl in Hs. injection Hs as <-. exact Hstep.
    + rewrite app_nil_r. apply Hshape. exact Hs.
  - destruct (find_seg d (p_segs st)) as [sd|]; [|discriminate].
    destruct (C09.unfold f ign (jump ign st d)) as [a|] eqn:Ea; [|discriminate].
    injection Hu as <-. intros p Hp. rewrite app_nil_r in Hp.
    refine (IH _ _ _ Ea p Hp).
    rewrite (jump_leap_free g ign st d Hlf Hsegs).
    repeat split; cbn [p_segs p_norep p_allrep p_path p_used]; try assumption.
    + intro Hn. apply app_eq_nil in Hn as [_ Hn]. discriminate.
    + intros s. rewrite used_of_append, nexts_snoc, Hused by exact Hne.
      rewrite (Z.eqb_sym s). reflexivity.
    + intros s sg Hs. rewrite nexts_snoc by exact Hne.
      destruct (Z.eqb_spec (zlast (p_path st)) s) as [<-|Hn].
      * rewrite Esl in Hs. injection Hs as <-. exact Hstep.
      * rewrite app_nil_r. apply Hshape. exact Hs.
Qed.

(* the maximal unfolding of ANY table without leaps -- any number of repeats and volta groups,
   nested in any way, destination lists with duplicates --: every returned path leaves every
   segment along that segment's destinations in cyclic order: first, second, ..., last, first again
   (the k-th departure takes destination k mod n; the last segment is left for END) *)
Theorem maximal_walk_cyclic_lemma : forall fuel g ign ps,
  leap_free g = true -> get_paths fuel g false true ign = Some ps ->
  forall p, In p ps -> forall s sg, find_seg s g = Some sg ->
    succs s p = [] \/ exists q r, (r < length (s_to sg))%nat /\ succs s p = cyc_used (s_to sg) q r.
Proof.
  intros fuel g ign ps Hlf H p Hp s sg Hs. unfold get_paths in H.
  refine (unfold_cyc g ign Hlf fuel _ _ _ H p Hp s sg Hs).
  repeat split; cbn; try discriminate; try reflexivity.
  - intros s0 sg0 _. left. reflexivity.
Qed.

(* the maximal policy returns exactly one path on such a table *)
Lemma unfold_single g ign : leap_free g = true -> forall fuel st ps,
  cinv g st -> C09.unfold fuel ign st = Some ps -> exists p, ps = [p].
Proof.
  intros Hlf. induction fuel as [|f IH]; intros st ps Hi Hu; [discriminate|].
  destruct Hi as (Hsegs & Hnr & Har & Hne & Hused & Hshape).
  simpl in Hu. destruct (dests st) as [ds|] eqn:Ed; [|discriminate].
  destruct (find_seg (zlast (p_path st)) (p_segs st)) as [sl|] eqn:Esl;
    [|unfold dests in Ed; rewrite Esl in Ed; discriminate].
  rewrite (dests_local st sl Esl), Hnr, Har, Hused in Ed.
  rewrite Hsegs in Esl.
  destruct (cyc_shape_step _ _ _ (Hshape _ _ Esl) Ed) as (d & -> & Hstep).
  destruct (d =? END) eqn:Eend.
  - injection Hu as <-. eexists. reflexivity.
  - destruct (find_seg d (p_segs st)) as [sd|]; [|discriminate].
    destruct (C09.unfold f ign (jump ign st d)) as [a|] eqn:Ea; [|discriminate].
    injection Hu as <-. rewrite app_nil_r.
    refine (IH _ _ _ Ea).
    rewrite (jump_leap_free g ign st d Hlf Hsegs).
    repeat split; cbn [p_segs p_norep p_allrep p_path p_used]; try assumption.
    + intro Hn. apply app_eq_nil in Hn as [_ Hn]. discriminate.
    + intros s. rewrite used_of_append, nexts_snoc, Hused by exact Hne.
      rewrite (Z.eqb_sym s). reflexivity.
    + intros s sg Hs. rewrite nexts_snoc by exact Hne.
      destruct (Z.eqb_spec (zlast (p_path st)) s) as [<-|Hn].
      * rewrite Esl in Hs. injection Hs as <-. exact Hstep.
      * rewrite app_nil_r. apply Hshape. exact Hs.
Qed.

Theorem maximal_single_path_lemma : forall fuel g ign ps,
  leap_free g = true -> get_paths fuel g false true ign = Some ps -> exists p, ps = [p].
Proof.
  intros fuel g ign ps Hlf H. unfold get_paths in H.
  refine (unfold_single g ign Hlf fuel _ _ _ H).
  repeat split; cbn; try discriminate; try reflexivity.
  - intros s0 sg0 _. left. reflexivity.
Qed.

(* ------------------------------------------------------------------ *)
(* minimal policy on a table without a leap start: one path, every segment always left for its
   LAST destination ("plays each section once with the last ending", at table level) *)

Definition minv (g : list seg) (st : pstate) : Prop :=
  p_segs st = g /\ p_norep st = true /\ p_path st <> [] /\
  (forall s sg, find_seg s g = Some sg -> forall d, In d (nexts s (p_path st)) -> d = zlast (s_to sg)).

Lemma dests_norep st ds : p_norep st = true -> dests st = Some ds ->
  exists sg, find_seg (zlast (p_path st)) (p_segs st) = Some sg /\ ds = [zlast (s_to sg)].
Proof.
  intros Hn H. unfold dests in H. rewrite Hn in H.
  destruct (find_seg (zlast (p_path st)) (p_segs st)) as [sg|]; [|discriminate].
  exists sg. split; [reflexivity|].
  destruct (used_of (zlast (p_path st)) (p_used st)) as [|u us].
  - destruct (s_to sg); [discriminate|]. injection H as <-. reflexivity.
  - destruct (last_dest_index (s_to sg) (u :: us)); [|discriminate]. injection H as <-. reflexivity.
Qed.

Lemma unfold_minimal g ign : leap_free g = true -> forall fuel st ps,
  minv g st -> C09.unfold fuel ign st = Some ps ->
  exists p, ps = [p] /\
    forall s sg, find_seg s g = Some sg -> forall d, In d (succs s p) -> d = zlast (s_to sg).
Proof.
  intros Hlf. induction fuel as [|f IH]; intros st ps Hi Hu; [discriminate|].
  destruct Hi as (Hsegs & Hnr & Hne & Hall).
  simpl in Hu. destruct (dests st) as [ds|] eqn:Ed; [|discriminate].
  destruct (dests_norep st ds Hnr Ed) as (sl & Esl & ->).
  rewrite Hsegs in Esl.
  assert (Hstep : forall s sg, find_seg s g = Some sg ->
            forall d, In d (nexts s (p_path st ++ [zlast (s_to sl)])) -> d = zlast (s_to sg)).
  { intros s sg Hs d Hd. rewrite nexts_snoc in Hd by exact Hne. apply in_app_or in Hd as [Hd|Hd].
    - eapply Hall; eauto.
    - destruct (Z.eqb_spec (zlast (p_path st)) s) as [<-|Hn]; [|destruct Hd].
      rewrite Esl in Hs. injection Hs as <-. destruct Hd as [<-|[]]. reflexivity. }
  destruct (zlast (s_to sl) =? END) eqn:Eend.
  - injection Hu as <-. eexists. split; [reflexivity|].
    apply Z.eqb_eq in Eend. unfold succs. rewrite <- Eend. exact Hstep.
  - destruct (find_seg (zlast (s_to sl)) (p_segs st)) as [sd|]; [|discriminate].
    destruct (C09.unfold f ign (jump ign st (zlast (s_to sl)))) as [a|] eqn:Ea; [|discriminate].
    injection Hu as <-. rewrite app_nil_r.
    refine (IH _ _ _ Ea).
    rewrite (jump_leap_free g ign st _ Hlf Hsegs).
    repeat split; cbn [p_segs p_norep p_allrep p_path p_used]; try assumption.
    intro Hn. apply app_eq_nil in Hn as [_ Hn]. discriminate.
Qed.

Theorem minimal_walk_last_lemma : forall fuel g ar ign ps,
  leap_free g = true -> get_paths fuel g true ar ign = Some ps ->
  exists p, ps = [p] /\
    forall s sg, find_seg s g = Some sg -> forall d, In d (succs s p) -> d = zlast (s_to sg).
Proof.
  intros fuel g ar ign ps Hlf H. unfold get_paths in H.
  refine (unfold_minimal g ign Hlf fuel _ _ _ H).
  repeat split; cbn; try discriminate; try reflexivity.
  intros s sg _ d [].
Qed.

(* ------------------------------------------------------------------ *)
(* non-vacuity and discrimination *)

(* |: ... [1, 2. C :| [3. D: destinations of the segment before the brackets are C C D (duplicates).
   Fourth departure (one full round and one more): the maximal policy offers the second C again *)
Example cyc_example :
  cyc_used [2; 2; 3] 1 0 = [2; 2; 3; 2] /\
  dests_of [2; 2; 3] [2; 2; 3; 2] false true = Some [2] /\
  last_dest_index [2; 2; 3] [2; 2; 3; 2] = Some 0 /\
  dests_of [2; 2; 3] [2; 2; 3] false true = Some [2] /\
  dests_of [2; 2; 3] [2; 2] false false = Some [3] /\
  depart 7 [2; 2; 3] [] false true = Some [2; 2; 3; 2; 2; 3; 2].
Proof. vm_compute. repeat split. Qed.

(* |: m1 |: m2 :| m3 :| m4 m5 as _make_segments builds it (A is a leap end, no leap start):
   the maximal path plays the inner repeat again on the second pass of the outer one;
   B is left for B, C, B, C (two rounds), C for A, D (one round) *)
Definition nested_table : list seg :=
  [mkSeg 0 0 4 [1] [] TLEAP_END; mkSeg 1 4 8 [1; 2] [] TDEFAULT;
   mkSeg 2 8 12 [0; 3] [] TDEFAULT; mkSeg 3 12 20 [END] [] TDEFAULT].
Example nested_example :
  leap_free nested_table = true /\
  get_paths FUEL nested_table false true true = Some [[0; 1; 1; 2; 0; 1; 1; 2; 3]] /\
  succs 1 [0; 1; 1; 2; 0; 1; 1; 2; 3] = cyc_used [1; 2] 1 1 /\
  succs 2 [0; 1; 1; 2; 0; 1; 1; 2; 3] = cyc_used [0; 3] 0 1 /\
  succs 3 [0; 1; 1; 2; 0; 1; 1; 2; 3] = cyc_used [END] 0 0.
Proof. vm_compute. repeat split. Qed.

Example nested_minimal_example :
  get_paths FUEL nested_table true false true = Some [[0; 1; 2; 3]] /\
  succs 1 [0; 1; 2; 3] = [2] /\ succs 2 [0; 1; 2; 3] = [3].
Proof. vm_compute. repeat split. Qed.

(* the path seed j's clamped index yields on that table (inner repeat skipped on the second pass:
   A B B C A B C D) does not meet the statement: B is left for B, C, C *)
Lemma cyc_used_length to q r : (r < length to)%nat ->
  length (cyc_used to q r) = (q * length to + S r)%nat.
Proof.
  intros Hr. unfold cyc_used, laps. rewrite app_length, firstn_length_le by lia. f_equal.
  induction q as [|q IH]; [reflexivity|]. cbn [repeat concat]. rewrite app_length, IH. lia.
Qed.

Example nested_clamped_path_refuted :
  succs 1 [0; 1; 1; 2; 0; 1; 2; 3] = [1; 2; 2] /\
  forall q r, (r < 2)%nat -> succs 1 [0; 1; 1; 2; 0; 1; 2; 3] <> cyc_used [1; 2] q r.
Proof.
  split; [reflexivity|]. intros q r Hr H.
  assert (Hl := f_equal (@length Z) H). rewrite cyc_used_length in Hl by exact Hr.
  change (length (succs 1 [0; 1; 1; 2; 0; 1; 2; 3])) with 3%nat in Hl. cbn [length] in Hl.
  assert (q = 1%nat /\ r = 0%nat) as [-> ->] by lia. vm_compute in H. discriminate.
Qed.

(* seed j (index clamped instead of wrapped): after the last destination the clamped variant offers
   the last one again where the theorem's statement demands the first *)
Example clamped_variant_refuted_lemma :
  let to := [0; 2] in
  dests_of to (cyc_used to 0 1) false true = Some [nth (next_place 2 1) to (-3)] /\
  dests_clamped to (cyc_used to 0 1) <> Some [nth (next_place 2 1) to (-3)] /\
  dests_clamped to (cyc_used to 0 1) = Some [2].
Proof. vm_compute. repeat split; discriminate. Qed.

(* seed d (index = number of jumps taken, not the place of the last one): agrees on cyclic
   histories -- the statement about cyclic histories cannot tell it apart -- but not after the
   all-variants policy skipped a destination: to = C D E, used = [D] (first ending skipped) *)
Example by_count_variant_refuted_lemma :
  dests_of [2; 3; 4] [3] false true = Some [4] /\ dests_by_count [2; 3; 4] [3] = Some [3].
Proof. vm_compute. split; reflexivity. Qed.
