(* C16 -- T2: the graphs of the real functions (Gen/C16_*.v, regenerated from the working
   tree on every run) coincide with the model on the WHOLE domain named by the property.
   "In (x, y) rows" therefore reads "the implementation returns y on x". *)
From PV Require Import Lib.Base Lib.Tab Model.C16 Proofs.C16 Gen.C16_Tab Gen.C16_TN.
#[local] Open Scope Z_scope.

(* ---------- decoding the boolean equalities ---------- *)
Lemma pitch_eqb_eq x y : pitch_eqb x y = true -> x = y.
Proof.
  destruct x as [[i a] o], y as [[i' a'] o']. cbn. intros H.
  apply andb_true_iff in H as [H H3]. apply andb_true_iff in H as [H1 H2].
  apply Z.eqb_eq in H1. apply Z.eqb_eq in H2. apply Z.eqb_eq in H3. congruence.
Qed.

Lemma iv_eqb_eq x y : iv_eqb x y = true -> x = y.
Proof.
  destruct x as [[n q] u], y as [[n' q'] u']. cbn. intros H.
  apply andb_true_iff in H as [H H3]. apply andb_true_iff in H as [H1 H2].
  apply Z.eqb_eq in H1. apply Z.eqb_eq in H2. apply Bool.eqb_prop in H3. congruence.
Qed.

Lemma zz_eqb_eq x y : zz_eqb x y = true -> x = y.
Proof.
  destruct x, y. unfold zz_eqb. cbn. intros H. apply andb_true_iff in H as [H1 H2].
  apply Z.eqb_eq in H1. apply Z.eqb_eq in H2. congruence.
Qed.

Lemma tnkey_eqb_eq x y : tnkey_eqb x y = true -> x = y.
Proof.
  destruct x as [[[[n q] u] i] a], y as [[[[n' q'] u'] i'] a']. cbn. intros H.
  repeat match goal with
  | E : _ && _ = true |- _ => apply andb_true_iff in E; destruct E
  | E : (_ =? _) = true |- _ => apply Z.eqb_eq in E
  | E : Bool.eqb _ _ = true |- _ => apply Bool.eqb_prop in E
  end; congruence.
Qed.

Lemma ozz_eqb_eq x y : ozz_eqb x y = true -> x = y.
Proof.
  destruct x, y; cbn; intros H; try discriminate; [|reflexivity]. f_equal. apply zz_eqb_eq. exact H.
Qed.

(* a list whose keys are a known enumeration contains a row for every key of it *)
Lemma keys_In {R K} (key : R -> K) (rows : list R) (dom : list K) k :
  map key rows = dom -> In k dom -> exists r, In r rows /\ key r = k.
Proof.
  intros E I. rewrite <- E in I. apply in_map_iff in I as [r [Hk Hr]]. exists r. split; assumption.
Qed.

(* ---------- domains ---------- *)
Lemma dom_notes_In i a o : 0 <= i <= 6 -> -2 <= a <= 2 -> 0 <= o <= 8 -> In (i, a, o) dom_notes.
Proof.
  intros. unfold dom_notes. apply in_prod; [apply in_prod|]; apply zrange_In; simpl; lia.
Qed.

Lemma dom_ivs_In n q up sem : iv_semitones n q = Some sem -> In (n, q, up) dom_ivs.
Proof.
  intros H. unfold dom_ivs. apply in_flat_map. exists (n, q). split; [eapply interval_class_In; eassumption|].
  cbn [fst snd]. destruct up; cbn; tauto.
Qed.

(* ---------- the tables are the model (decided in the kernel on every run) ---------- *)
Lemma tab_transpose_ok : tab_ok tab_transpose = true.
Proof. vm_cast_no_check (eq_refl true). Qed.

Lemma tab_intervals_ok : ivtab_ok tab_intervals = true.
Proof. vm_cast_no_check (eq_refl true). Qed.

Lemma tab_tn_ok : tntab_ok tab_tn = true.
Proof. vm_cast_no_check (eq_refl true). Qed.

Lemma tab_step2pc_ok : forallb (fun r => let '(i, a, v) := r in Z.eqb v (step2pc i a)) tab_step2pc = true.
Proof. vm_cast_no_check (eq_refl true). Qed.

(* ---------- lifted statements ---------- *)
Lemma impl_transpose_domain_lemma n q sem up i a o :
  iv_semitones n q = Some sem -> 0 <= i <= 6 -> -2 <= a <= 2 -> 0 <= o <= 8 ->
  exists rows, In (n, q, up, rows) tab_transpose /\
               In ((i, a, o), tr_note (is_p1 n q) n sem up (i, a, o)) rows.
Proof.
  intros S Hi Ha Ho.
  pose proof tab_transpose_ok as T. unfold tab_ok in T. apply andb_true_iff in T as [K G].
  apply (list_eqb_eq iv_eqb iv_eqb_eq) in K.
  destruct (keys_In _ _ _ (n, q, up) K (dom_ivs_In n q up sem S)) as [[[[n' q'] up'] rows] [Hin Hk]].
  injection Hk as -> -> ->.
  exists rows. split; [exact Hin|].
  pose proof (forallb_In _ _ G _ Hin) as Gg. unfold group_ok in Gg. rewrite S in Gg.
  apply andb_true_iff in Gg as [K2 R].
  apply (list_eqb_eq pitch_eqb pitch_eqb_eq) in K2.
  destruct (keys_In _ _ _ (i, a, o) K2 (dom_notes_In i a o Hi Ha Ho)) as [[x y] [Hr Hx]].
  cbn [fst] in Hx. subst x.
  pose proof (forallb_In _ _ R _ Hr) as E. cbn [fst snd] in E. apply pitch_eqb_eq in E. subst y. exact Hr.
Qed.

(* and nothing else is in the table: every row is a model row of the domain *)
Lemma impl_transpose_rows_lemma n q up rows x y :
  In (n, q, up, rows) tab_transpose -> In (x, y) rows ->
  exists sem, iv_semitones n q = Some sem /\ y = tr_note (is_p1 n q) n sem up x.
Proof.
  intros Hin Hr.
  pose proof tab_transpose_ok as T. unfold tab_ok in T. apply andb_true_iff in T as [_ G].
  pose proof (forallb_In _ _ G _ Hin) as Gg. unfold group_ok in Gg.
  destruct (iv_semitones n q) as [sem|]; [|discriminate].
  apply andb_true_iff in Gg as [_ R].
  pose proof (forallb_In _ _ R _ Hr) as E. cbn [fst snd] in E. apply pitch_eqb_eq in E.
  exists sem. split; [reflexivity | exact E].
Qed.

Lemma impl_intervals_lemma n q sem :
  iv_semitones n q = Some sem -> In (n, q, sem, Some sem, Some sem) tab_intervals.
Proof.
  intros S. pose proof tab_intervals_ok as T. unfold ivtab_ok in T. apply andb_true_iff in T as [K R].
  apply (list_eqb_eq zz_eqb zz_eqb_eq) in K.
  destruct (keys_In _ _ _ (n, q) K (interval_class_In n q sem S)) as [[[[[n' q'] s] su] sd] [Hin Hk]].
  injection Hk as -> ->.
  pose proof (forallb_In _ _ R _ Hin) as E. unfold ivrow_ok in E. rewrite S in E.
  apply andb_true_iff in E as [E E3]. apply andb_true_iff in E as [E1 E2].
  apply zopt_eqb_eq in E1. apply zopt_eqb_eq in E2. apply zopt_eqb_eq in E3.
  injection E1 as <-. subst su sd. exact Hin.
Qed.

Lemma impl_intervals_only_lemma n q s su sd :
  In (n, q, s, su, sd) tab_intervals -> iv_semitones n q = Some s /\ su = Some s /\ sd = Some s.
Proof.
  intros Hin. pose proof tab_intervals_ok as T. unfold ivtab_ok in T. apply andb_true_iff in T as [_ R].
  pose proof (forallb_In _ _ R _ Hin) as E. unfold ivrow_ok in E.
  apply andb_true_iff in E as [E E3]. apply andb_true_iff in E as [E1 E2].
  apply zopt_eqb_eq in E1. apply zopt_eqb_eq in E2. apply zopt_eqb_eq in E3. auto.
Qed.

Lemma impl_transpose_note_lemma n q sem up i a :
  iv_semitones n q = Some sem -> 0 <= i <= 6 -> -2 <= a <= 2 ->
  In (n, q, up, i, a, tn_note n sem up i a) tab_tn.
Proof.
  intros S Hi Ha. pose proof tab_tn_ok as T. unfold tntab_ok in T. apply andb_true_iff in T as [K R].
  apply (list_eqb_eq tnkey_eqb tnkey_eqb_eq) in K.
  assert (D : In (n, q, up, i, a) dom_tn).
  { unfold dom_tn. apply in_flat_map. exists (n, q, up). split; [eapply dom_ivs_In; eassumption|].
    cbn [fst snd]. apply in_map_iff. exists (i, a). split; [reflexivity|].
    apply in_prod; apply zrange_In; simpl; lia. }
  destruct (keys_In _ _ _ _ K D) as [[[[[[n' q'] u'] i'] a'] res] [Hin Hk]].
  injection Hk as -> -> -> -> ->.
  pose proof (forallb_In _ _ R _ Hin) as E. unfold tnrow_ok in E. rewrite S in E.
  apply ozz_eqb_eq in E. subst res. exact Hin.
Qed.
