(* C09 -- the unfolded part holds lists of its own (Model/C09_heap.v).  Proofs. *)
From PV Require Import Lib.Base Model.C09_heap.
From Coq Require Import ZArith List Bool Lia.
Import ListNotations.
#[local] Open Scope Z_scope.

Definition fresh_cells (st st' : store) (l : list nat) : Prop :=
  (exists ext, st' = st ++ ext) /\ Forall (fun a => (length st <= a < length st')%nat) l.

Lemma rr_attr_fresh : forall f st a st' a',
  rr_attr false f st a = (st', a') -> fresh_cells st st' [a'].
Proof.
  intros f st a st' a' H. unfold rr_attr in H.
  assert (G : forall e, fresh_cells st (st ++ [e]) [length st]).
  { intro e. split; [eexists; reflexivity|]. constructor; [|constructor]. rewrite app_length. simpl. lia. }
  destruct (cell st a); inversion H; subst; apply G.
Qed.

Lemma fresh_trans : forall st st1 st2 l1 l2,
  fresh_cells st st1 l1 -> fresh_cells st1 st2 l2 -> fresh_cells st st2 (l1 ++ l2).
Proof.
  intros st st1 st2 l1 l2 [[e1 E1] F1] [[e2 E2] F2]. subst. split.
  - exists (e1 ++ e2). now rewrite app_assoc.
  - apply Forall_app. split.
    + eapply Forall_impl; [|exact F1]. intros a Ha. simpl in Ha. rewrite !app_length in *. lia.
    + eapply Forall_impl; [|exact F2]. intros a Ha. simpl in Ha. rewrite !app_length in *. lia.
Qed.

Lemma fresh_refl : forall st, fresh_cells st st [].
Proof. intros st. split; [exists []; now rewrite app_nil_r | constructor]. Qed.

Lemma rr_attrs_fresh : forall f l st st' l',
  rr_attrs false f st l = (st', l') -> fresh_cells st st' l'.
Proof.
  intros f l. induction l as [|a r IH]; intros st st' l' H; simpl in H.
  - inversion H; subst. apply fresh_refl.
  - destruct (rr_attr false f st a) as [st1 a1] eqn:E1.
    destruct (rr_attrs false f st1 r) as [st2 r2] eqn:E2.
    inversion H; subst. change (a1 :: r2) with ([a1] ++ r2).
    eapply fresh_trans; [eapply rr_attr_fresh; eassumption | eapply IH; eassumption].
Qed.

Lemma copy_all_fresh : forall f os st st' cs,
  copy_all false f st os = (st', cs) -> fresh_cells st st' (addrs cs).
Proof.
  intros f os. induction os as [|o r IH]; intros st st' cs H; simpl in H.
  - inversion H; subst. apply fresh_refl.
  - destruct (rr_attrs false f st (h_lists o)) as [st1 l1] eqn:E1.
    destruct (copy_all false f st1 r) as [st2 r2] eqn:E2.
    inversion H; subst. unfold addrs. simpl.
    eapply fresh_trans; [eapply rr_attrs_fresh; eassumption | eapply IH; eassumption].
Qed.

Lemma visits_fresh : forall stride vs k st st' cs,
  visits false stride k st vs = (st', cs) -> fresh_cells st st' (flat_map addrs cs).
Proof.
  intros stride vs. induction vs as [|os r IH]; intros k st st' cs H; simpl in H.
  - inversion H; subst. apply fresh_refl.
  - destruct (copy_all false _ st os) as [st1 c] eqn:E1.
    destruct (visits false stride (S k) st1 r) as [st2 r2] eqn:E2.
    inversion H; subst. simpl.
    eapply fresh_trans; [eapply copy_all_fresh; eassumption | eapply IH; eassumption].
Qed.

Lemma cell_append_other : forall st a x b, a <> b -> cell (append_at st a x) b = cell st b.
Proof.
  unfold cell. induction st as [|c r IH]; intros a x b Hab; simpl.
  - reflexivity.
  - destruct a as [|a']; destruct b as [|b']; simpl; try reflexivity; try congruence.
    apply IH. congruence.
Qed.

Lemma cell_prefix : forall st ext b, (b < length st)%nat -> cell (st ++ ext) b = cell st b.
Proof. intros. unfold cell. now apply app_nth1. Qed.

(* a visit's copies hold lists of their own: whatever is appended to a list of a copy, every list that existed
   before the unfolding (the original's, an earlier unfolded part's) reads as before *)
Lemma edit_of_copy_keeps_original_lemma : forall stride k vs st st' cs a x b,
  visits false stride k st vs = (st', cs) -> In a (flat_map addrs cs) -> (b < length st)%nat ->
  cell (append_at st' a x) b = cell st b.
Proof.
  intros stride k vs st st' cs a x b H Ha Hb.
  destruct (visits_fresh _ _ _ _ _ _ H) as [[ext E] F].
  rewrite Forall_forall in F. specialize (F a Ha). simpl in F.
  rewrite cell_append_other by lia. subst. now apply cell_prefix.
Qed.

(* the copies of different visits (and different objects, different attributes) hold different lists *)
Lemma fresh_nodup_rr : forall f l st st' l', rr_attrs false f st l = (st', l') -> NoDup l'.
Proof.
  intros f l. induction l as [|a r IH]; intros st st' l' H; simpl in H.
  - inversion H; subst. constructor.
  - destruct (rr_attr false f st a) as [st1 a1] eqn:E1.
    destruct (rr_attrs false f st1 r) as [st2 r2] eqn:E2.
    inversion H; subst. constructor; [|eapply IH; eassumption].
    intro Hin. destruct (rr_attr_fresh _ _ _ _ _ E1) as [_ F1].
    destruct (rr_attrs_fresh _ _ _ _ _ E2) as [_ F2].
    rewrite Forall_forall in F2. specialize (F2 _ Hin). simpl in F2.
    inversion F1; subst. simpl in H2. lia.
Qed.

Lemma nodup_app_fresh : forall st st1 st2 (l1 l2 : list nat),
  fresh_cells st st1 l1 -> fresh_cells st1 st2 l2 -> NoDup l1 -> NoDup l2 -> NoDup (l1 ++ l2).
Proof.
  intros st st1 st2 l1 l2 [_ F1] [_ F2] N1 N2. induction l1 as [|a r IH]; simpl; [exact N2|].
  inversion N1; subst. inversion F1; subst. constructor; [|apply IH; assumption].
  intro Hin. apply in_app_or in Hin. destruct Hin as [Hin|Hin]; [contradiction|].
  rewrite Forall_forall in F2. specialize (F2 _ Hin). simpl in *. lia.
Qed.

Lemma copy_all_nodup : forall f os st st' cs, copy_all false f st os = (st', cs) -> NoDup (addrs cs).
Proof.
  intros f os. induction os as [|o r IH]; intros st st' cs H; simpl in H.
  - inversion H; subst. constructor.
  - destruct (rr_attrs false f st (h_lists o)) as [st1 l1] eqn:E1.
    destruct (copy_all false f st1 r) as [st2 r2] eqn:E2.
    inversion H; subst. unfold addrs. simpl.
    eapply nodup_app_fresh; [eapply rr_attrs_fresh; eassumption | eapply copy_all_fresh; eassumption
                            | eapply fresh_nodup_rr; eassumption | eapply IH; eassumption].
Qed.

Lemma visits_share_nothing_lemma : forall stride vs k st st' cs,
  visits false stride k st vs = (st', cs) -> NoDup (flat_map addrs cs).
Proof.
  intros stride vs. induction vs as [|os r IH]; intros k st st' cs H; simpl in H.
  - inversion H; subst. constructor.
  - destruct (copy_all false _ st os) as [st1 c] eqn:E1.
    destruct (visits false stride (S k) st1 r) as [st2 r2] eqn:E2.
    inversion H; subst. simpl.
    eapply nodup_app_fresh; [eapply copy_all_fresh; eassumption | eapply visits_fresh; eassumption
                            | eapply copy_all_nodup; eassumption | eapply IH; eassumption].
Qed.

(* the variant that leaves empty lists alone: |: n :| with a note without slurs; a slur id appended to the first
   visit's copy shows in the original note and in the second visit's copy *)
Lemma skip_empty_variant_refuted_lemma :
  let '(st', cs) := visits true 100 1 [[]; []] [[ex_note]; [ex_note]] in
  flat_map addrs cs = [0; 1; 0; 1]%nat /\
  cell (append_at st' 0 77) 0 = [77] /\ cell [[]; []] 0 = [] /\
  let '(st2, cs2) := visits false 100 1 [[]; []] [[ex_note]; [ex_note]] in
  flat_map addrs cs2 = [2; 3; 4; 5]%nat /\ cell (append_at st2 2 77) 0 = [] /\ cell (append_at st2 2 77) 4 = [].
Proof. vm_compute. repeat split. Qed.

Lemma check_heap_example :
  check_heap (mkHC [[]; [7]] [[(1, [0; 1])]; [(1, [0; 1])]] [2; 3; 4; 5]) = true /\
  check_heap (mkHC [[]; [7]] [[(1, [0; 1])]; [(1, [0; 1])]] [0; 2; 0; 3]) = false.
Proof. vm_compute. split; reflexivity. Qed.
