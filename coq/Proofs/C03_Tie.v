(* C03 -- tie links (round j extension): proofs about Model/C03_Tie.v *)
From Coq Require Import ZArith List Bool Lia.
From PV Require Import Lib.Base Model.C03_Tie.
#[local] Open Scope Z_scope.

(* ---------------------------------------------------------------- the reader, one note more *)
Lemma import_snoc kf ws w s :
  import_ties_with kf (ws ++ [w]) s = tie_step_with kf w (import_ties_with kf ws s).
Proof. unfold import_ties_with. rewrite fold_left_app. reflexivity. Qed.

Lemma export_snoc a n : export_ties (a ++ [n]) = export_ties a ++ [export_tie n].
Proof. unfold export_ties. rewrite map_app. reflexivity. Qed.

Lemma last_marked_snoc k a n :
  last_marked k (a ++ [n]) = if (t_key n =? k) && marked n then Some n else last_marked k a.
Proof. unfold last_marked. rewrite rev_unit. reflexivity. Qed.

Lemma ongoing_step w s k :
  ongoing (tie_step w s) k =
  if k =? w_key w then
    (if w_start w then Some (w_id w) else if w_stop w then None else ongoing s k)
  else ongoing s k.
Proof.
  unfold tie_step, tie_step_with, start_step, stop_step.
  destruct (w_stop w), (w_start w); cbn.
  - destruct (ongoing s (w_key w)) eqn:E; cbn; unfold tupd; destruct (k =? w_key w) eqn:K; auto.
  - destruct (ongoing s (w_key w)) eqn:E; cbn; unfold tupd; destruct (k =? w_key w) eqn:K; auto.
    apply Z.eqb_eq in K. subst. exact E.
  - unfold tupd; destruct (k =? w_key w); auto.
  - destruct (k =? w_key w); auto.
Qed.

Lemma links_step w s :
  links (tie_step w s) =
  links s ++ (if w_stop w then match ongoing s (w_key w) with Some p => [(p, w_id w)] | None => [] end else []).
Proof.
  unfold tie_step, tie_step_with, start_step, stop_step.
  destruct (w_stop w), (w_start w); cbn; try (destruct (ongoing s (w_key w)); cbn); rewrite ?app_nil_r; reflexivity.
Qed.

(* ---------------------------------------------------------------- the dict is the abstract map, for EVERY part *)
Lemma tie_state_char : forall a k,
  ongoing (import_ties (export_ties a) tst0) k = open_tie a k.
Proof.
  induction a as [|n a IH] using rev_ind; intro k.
  - reflexivity.
  - rewrite export_snoc. unfold import_ties. rewrite import_snoc. fold import_ties. fold tie_step.
    rewrite ongoing_step. unfold open_tie. rewrite last_marked_snoc. fold (open_tie a k).
    cbn [export_tie w_key w_start w_stop w_id]. unfold marked.
    rewrite (Z.eqb_sym k (t_key n)).
    destruct (t_key n =? k) eqn:K; cbn [andb].
    + destruct (t_next n) eqn:N; cbn.
      * rewrite orb_true_r. cbn. rewrite N. reflexivity.
      * rewrite orb_false_r. destruct (t_prev n) eqn:P; cbn.
        -- rewrite N. reflexivity.
        -- apply IH.
    + apply IH.
Qed.

Lemma ties_by_pitch_prefix a n : ties_by_pitch (a ++ [n]) -> ties_by_pitch a.
Proof.
  intros H a1 n1 b p E P. apply (H a1 n1 (b ++ [n]) p); auto.
  rewrite E. rewrite <- app_assoc. reflexivity.
Qed.

Lemma prev_links_snoc a n :
  prev_links (a ++ [n]) = prev_links a ++ match t_prev n with Some p => [(p, t_id n)] | None => [] end.
Proof. unfold prev_links. rewrite flat_map_app. cbn. rewrite app_nil_r. reflexivity. Qed.

(* MAIN: pairing by pitch = the score's links *)
Lemma tie_links_roundtrip_l : forall l, ties_by_pitch l ->
  links (import_ties (export_ties l) tst0) = prev_links l.
Proof.
  induction l as [|n a IH] using rev_ind; intro H.
  - reflexivity.
  - rewrite export_snoc. unfold import_ties. rewrite import_snoc. fold import_ties. fold tie_step.
    rewrite links_step, prev_links_snoc. rewrite IH by (eapply ties_by_pitch_prefix; eauto).
    f_equal. cbn [export_tie w_key w_start w_stop w_id].
    destruct (t_prev n) as [p|] eqn:P; cbn; auto.
    destruct (H a n [] p eq_refl P) as (n0 & L & I & X).
    rewrite tie_state_char. unfold open_tie. rewrite L.
    destruct (t_next n0); [|congruence]. cbn. subst. reflexivity.
Qed.

Lemma tie_links_both_l : forall l, ties_by_pitch l -> ties_symmetric l ->
  forall x, In x (links (import_ties (export_ties l) tst0)) <-> In x (next_links l).
Proof. intros l H S x. rewrite tie_links_roundtrip_l by auto. symmetry. apply S. Qed.

(* at the end of the part nothing waits: every start written found its stop *)
Lemma first_marked_spec k l n : first_marked k l = Some n -> In n l /\ t_key n = k /\ marked n = true.
Proof.
  induction l as [|m r IH]; cbn; [discriminate|].
  destruct ((t_key m =? k) && marked m) eqn:E.
  - intros [= ->]. apply andb_true_iff in E. destruct E as [E1 E2]. apply Z.eqb_eq in E1. auto.
  - intro F. destruct (IH F) as (A & B & C). auto.
Qed.

(* ---------------------------------------------------------------- the boolean hypothesis is sound *)
Lemma tbp_go_sound : forall l arev, tbp_go arev l = true ->
  forall a n b p, l = a ++ n :: b -> t_prev n = Some p ->
    exists n0, first_marked (t_key n) (List.rev a ++ arev) = Some n0 /\ t_id n0 = p /\ t_next n0 <> None.
Proof.
  induction l as [|m r IH]; intros arev T a n b p E P.
  - destruct a; discriminate.
  - cbn in T. apply andb_true_iff in T. destruct T as [T1 T2].
    destruct a as [|m' a'].
    + cbn in E. injection E as -> ->. cbn. rewrite P in T1.
      destruct (first_marked (t_key n) arev) as [n0|]; [|discriminate].
      apply andb_true_iff in T1. destruct T1 as [A B]. apply Z.eqb_eq in A.
      exists n0. repeat split; auto. destruct (t_next n0); [discriminate|discriminate].
    + cbn in E. injection E as -> ->.
      destruct (IH (m' :: arev) T2 a' n b p eq_refl P) as (n0 & F & I & X).
      exists n0. repeat split; auto. cbn. rewrite <- app_assoc. exact F.
Qed.

Lemma ties_by_pitch_b_sound l : ties_by_pitch_b l = true -> ties_by_pitch l.
Proof.
  intros T a n b p E P. destruct (tbp_go_sound l [] T a n b p E P) as (n0 & F & I & X).
  rewrite app_nil_r in F. exists n0. auto.
Qed.

Lemma pr_eqb_eq a b : pr_eqb a b = true <-> a = b.
Proof.
  destruct a, b. unfold pr_eqb. cbn. rewrite andb_true_iff, !Z.eqb_eq. split; [intros [-> ->]; auto|intros [= -> ->]; auto].
Qed.

Lemma pr_mem_In x l : pr_mem x l = true <-> In x l.
Proof.
  unfold pr_mem. rewrite existsb_exists. split.
  - intros (y & I & E). apply pr_eqb_eq in E. subst. exact I.
  - intro I. exists x. split; auto. apply pr_eqb_eq. reflexivity.
Qed.

Lemma ties_symmetric_b_sound l : ties_symmetric_b l = true -> ties_symmetric l.
Proof.
  unfold ties_symmetric_b. rewrite andb_true_iff. intros [A B] x. split; intro I.
  - apply pr_mem_In. eapply forallb_In in A; eauto.
  - apply pr_mem_In. eapply forallb_In in B; eauto.
Qed.

(* the evaluated checker accepts the model's own output on every part inside the hypotheses *)
Lemma list_eqb_refl {A} (eqb : A -> A -> bool) (R : forall x, eqb x x = true) l : list_eqb eqb l l = true.
Proof. induction l; cbn; auto. rewrite R, IHl. reflexivity. Qed.

Lemma wtie_eqb_refl w : wtie_eqb w w = true.
Proof. unfold wtie_eqb. rewrite !Z.eqb_refl, !eqb_reflx. reflexivity. Qed.

Lemma pr_eqb_refl x : pr_eqb x x = true.
Proof. apply pr_eqb_eq. reflexivity. Qed.

Lemma model_passes_check_ties_l l nx :
  ties_by_pitch l -> pr_sort nx = pr_sort (prev_links l) ->
  check_ties (l, export_ties l, prev_links l, nx) = true.
Proof.
  intros H E. unfold check_ties. rewrite (list_eqb_refl _ wtie_eqb_refl). cbn [andb].
  rewrite tie_links_roundtrip_l by auto. rewrite E. rewrite (list_eqb_refl _ pr_eqb_refl). reflexivity.
Qed.

(* ---------------------------------------------------------------- the hypothesis is exact: converse *)

Lemma links_le : forall a, (List.length (links (import_ties (export_ties a) tst0)) <= List.length (prev_links a))%nat.
Proof.
  induction a as [|n a IH] using rev_ind; [cbn; lia|].
  rewrite export_snoc. unfold import_ties. rewrite import_snoc. fold import_ties. fold tie_step.
  rewrite links_step, prev_links_snoc, !app_length. cbn [export_tie w_key w_start w_stop w_id].
  destruct (t_prev n); cbn.
  - destruct (ongoing _ _); cbn; lia.
  - lia.
Qed.

Lemma snoc_split {A} (a : list A) n a1 n1 b :
  a ++ [n] = a1 ++ n1 :: b -> (b = [] /\ a = a1 /\ n = n1) \/ exists b', b = b' ++ [n] /\ a = a1 ++ n1 :: b'.
Proof.
  intro E. destruct b as [|x b0] using rev_ind.
  - left. apply app_inj_tail in E. destruct E; auto.
  - right. clear IHb0. exists b0. rewrite app_comm_cons, app_assoc in E. apply app_inj_tail in E.
    destruct E as [E1 E2]. subst. auto.
Qed.

Lemma ties_by_pitch_snoc a n :
  ties_by_pitch a ->
  (forall p, t_prev n = Some p -> exists n0, last_marked (t_key n) a = Some n0 /\ t_id n0 = p /\ t_next n0 <> None) ->
  ties_by_pitch (a ++ [n]).
Proof.
  intros H Hn a1 n1 b p E P. destruct (snoc_split _ _ _ _ _ E) as [(-> & -> & ->)|(b' & -> & ->)].
  - apply Hn; auto.
  - eapply H; eauto.
Qed.

Lemma tie_links_roundtrip_conv_l : forall l,
  links (import_ties (export_ties l) tst0) = prev_links l -> ties_by_pitch l.
Proof.
  induction l as [|n a IH] using rev_ind; intro E.
  - intros a n b p X. destruct a; discriminate.
  - pose proof (links_le a) as LE. pose proof (tie_state_char a (t_key n)) as SC.
    rewrite export_snoc in E. unfold import_ties in E. rewrite import_snoc in E. fold import_ties in E. fold tie_step in E.
    rewrite links_step, prev_links_snoc in E. cbn [export_tie w_key w_start w_stop w_id] in E.
    destruct (t_prev n) as [p|] eqn:P; cbn in E.
    + destruct (ongoing (import_ties (export_ties a) tst0) (t_key n)) as [q|] eqn:O.
      * apply app_inj_tail in E. destruct E as [E1 E2]. injection E2 as ->.
        apply ties_by_pitch_snoc; auto.
        intros p' X. rewrite P in X. injection X as <-. unfold open_tie in SC. destruct (last_marked (t_key n) a) as [n0|]; [|discriminate].
        exists n0. destruct (t_next n0); cbn in SC; [|discriminate]. injection SC as ->. repeat split; auto. discriminate.
      * rewrite app_nil_r in E. rewrite E in LE. rewrite app_length in LE. cbn in LE. lia.
    + rewrite !app_nil_r in E. apply ties_by_pitch_snoc; auto. intros p' X. rewrite P in X. discriminate.
Qed.

Lemma tie_links_roundtrip_iff_l : forall l,
  links (import_ties (export_ties l) tst0) = prev_links l <-> ties_by_pitch l.
Proof. intro l. split; [apply tie_links_roundtrip_conv_l|apply tie_links_roundtrip_l]. Qed.

(* ---------------------------------------------------------------- examples *)
(* three voices' worth of notes in document order: a chain 0 -> 3 -> 6 of pitch 60 whose middle note sits in another
   voice, an untied 60 in between (note 2), a tie 1 -> 4 of pitch 64 open at the same time, a tied rest pair is
   absent, an untied rest (note 5) *)
Definition ex_part : list tnote :=
  [ mkT 0 60 1 None (Some 3); mkT 1 64 1 None (Some 4); mkT 2 60 2 None None;
    mkT 3 60 2 (Some 0) (Some 6); mkT 4 64 1 (Some 1) None; mkT 5 (-1) 1 None None;
    mkT 6 60 1 (Some 3) None ].

Lemma tie_example_l :
  ties_by_pitch ex_part /\ ties_symmetric ex_part /\
  links (import_ties (export_ties ex_part) tst0) = [(0, 3); (1, 4); (3, 6)] /\
  prev_links ex_part = [(0, 3); (1, 4); (3, 6)].
Proof.
  split; [apply ties_by_pitch_b_sound; vm_compute; reflexivity|].
  split; [apply ties_symmetric_b_sound; vm_compute; reflexivity|].
  split; vm_compute; reflexivity.
Qed.

(* boundary of the quantifier: two ties of ONE pitch open together (voice 1: 0 -> 2, voice 2: 1 -> 3, written
   0 1 2 3) are outside ties_by_pitch, and the reader pairs 1 -> 2 and loses the other *)
Definition ex_concurrent : list tnote :=
  [ mkT 0 60 1 None (Some 2); mkT 1 60 2 None (Some 3); mkT 2 60 1 (Some 0) None; mkT 3 60 2 (Some 1) None ].

Lemma tie_concurrent_same_pitch_lost_l :
  ties_by_pitch_b ex_concurrent = false /\ ~ ties_by_pitch ex_concurrent /\
  links (import_ties (export_ties ex_concurrent) tst0) = [(1, 2)] /\
  prev_links ex_concurrent = [(0, 2); (1, 3)].
Proof.
  split; [vm_compute; reflexivity|]. split; [|split; vm_compute; reflexivity].
  intro H. pose proof (tie_links_roundtrip_l _ H) as E. vm_compute in E. discriminate.
Qed.

(* the statement discriminates: a reader whose key also holds the voice loses the tie of ex_part that changes voice;
   a reader that handles the start before the stop ties the middle note of a chain to itself *)
Lemma tie_key_per_voice_refuted_l :
  ties_by_pitch ex_part /\
  links (import_ties_with key_voice (export_ties ex_part) tst0) <> prev_links ex_part.
Proof.
  split; [apply ties_by_pitch_b_sound; vm_compute; reflexivity|]. vm_compute. discriminate.
Qed.

Lemma tie_start_first_refuted_l :
  ties_by_pitch ex_part /\
  links (import_ties_start_first (export_ties ex_part) tst0) <> prev_links ex_part.
Proof.
  split; [apply ties_by_pitch_b_sound; vm_compute; reflexivity|]. vm_compute. discriminate.
Qed.
