(* C19 -- proofs about the kern spine-split bookkeeping (Model/C19.v part 5). *)
From PV Require Import Lib.Base Model.C19.
From Coq Require Import ZArith List Lia Bool Arith.
Import ListNotations.
#[local] Open Scope Z_scope.

Definition runs_sum (runs : list nat) : Z := fold_right (fun n acc => acc + Z.of_nat n) 0 runs.

Lemma runs_sum_app a b : runs_sum (a ++ b) = runs_sum a + runs_sum b.
Proof. unfold runs_sum. induction a; simpl; [lia|]. rewrite IHa. lia. Qed.

Lemma flush_sum cur : runs_sum (flush cur) = Z.of_nat cur.
Proof. destruct cur; unfold runs_sum; simpl; lia. Qed.

Lemma count_cons f t r : count_tok f (t :: r) = (if f t then 1 else 0) + count_tok f r.
Proof. unfold count_tok. cbn [filter]. destruct (f t); cbn [List.length]; lia. Qed.

Lemma count_nil f : count_tok f [] = 0.
Proof. reflexivity. Qed.

Lemma merge_runs_sum l : forall cur, runs_sum (merge_runs cur l) = Z.of_nat cur + count_tok is_merge l.
Proof.
  induction l as [|t r IH]; intros cur; cbn [merge_runs].
  - rewrite flush_sum, count_nil. lia.
  - rewrite count_cons. destruct t; cbn [is_merge].
    + rewrite runs_sum_app, flush_sum, IH. lia.
    + rewrite IH. lia.
    + rewrite runs_sum_app, flush_sum, IH. lia.
Qed.

Lemma all2_loss runs : Forall (fun n => n = 2%nat) runs -> runs_sum runs = 2 * runs_loss runs.
Proof.
  induction 1; [reflexivity|]. subst. unfold runs_sum, runs_loss in *. cbn [fold_right]. lia.
Qed.

Lemma count_nonneg f l : 0 <= count_tok f l.
Proof. unfold count_tok. lia. Qed.

Lemma existsb_count l : existsb is_split l = true <-> 1 <= count_tok is_split l.
Proof.
  induction l as [|t r IH]; [rewrite count_nil; simpl; split; [discriminate|lia]|].
  rewrite count_cons. pose proof (count_nonneg is_split r). cbn [existsb]. destruct t; cbn [is_split orb].
  - split; [lia|reflexivity].
  - rewrite IH. lia.
  - rewrite IH. lia.
Qed.

Lemma runs_loss_nil_of_sum0 runs : Forall (fun n => n = 2%nat) runs -> runs_sum runs = 0 -> runs_loss runs = 0.
Proof. intros H E. rewrite (all2_loss _ H) in E. lia. Qed.

Lemma step_width_correct_lemma w line :
  Z.of_nat (List.length line) = w ->
  count_tok is_split line <= 1 ->
  (count_tok is_split line = 1 -> count_tok is_merge line = 0) ->
  Forall (fun n => n = 2%nat) (merge_runs O line) ->
  step_width w line = humdrum_width w line.
Proof.
  intros Hl Hs Hsm Hr. unfold step_width, humdrum_width.
  assert (Hf : firstn (Z.to_nat w) line = line).
  { apply firstn_all2. lia. }
  rewrite Hf. pose proof (merge_runs_sum line O) as Hsum. simpl in Hsum.
  destruct (existsb is_split line) eqn:E.
  - apply existsb_count in E. assert (H1 : count_tok is_split line = 1) by lia.
    rewrite H1. specialize (Hsm H1). rewrite Hsm in Hsum.
    rewrite (runs_loss_nil_of_sum0 _ Hr Hsum). lia.
  - assert (H0 : count_tok is_split line = 0).
    { assert (~ 1 <= count_tok is_split line) by (intro H; apply existsb_count in H; congruence).
      unfold count_tok in *. lia. }
    rewrite H0. rewrite (all2_loss _ Hr) in Hsum. rewrite <- Hsum.
    rewrite Z.mul_comm, Z.div_mul by lia. lia.
Qed.

Lemma step_width_two_splits_refuted_lemma : exists w line, Z.of_nat (List.length line) = w /\ step_width w line <> humdrum_width w line.
Proof. exists 2, [KSplit; KSplit]. split; [reflexivity|]. vm_compute. discriminate. Qed.

Lemma step_width_triple_merge_refuted_lemma :
  exists w line, Z.of_nat (List.length line) = w /\ count_tok is_split line = 0 /\ step_width w line <> humdrum_width w line.
Proof. exists 3, [KMerge; KMerge; KMerge]. split; [reflexivity|]. split; [reflexivity|]. vm_compute. discriminate. Qed.

Example ex_widths : widths 1 [[KOther]; [KSplit]; [KOther; KOther]; [KMerge; KMerge]; [KOther]] = [1; 1; 2; 2; 1]
  /\ spine_voices [[KOther]; [KSplit]; [KOther; KOther]; [KMerge; KMerge]; [KOther]] = 2.
Proof. vm_compute. split; reflexivity. Qed.
