(* C06 -- load (save p) returns the quantised notes of p: the model of save_performance_midi
   followed by the model of load_performance_midi, for every performance whose notes do not overlap
   within a (track, channel, pitch) at tick resolution *)
From PV Require Import Lib.Base Lib.Round Model.C12 Model.C06 Proofs.C06_lib Proofs.C06 Proofs.C06_pair.
From Coq Require Import QArith Sorted Permutation.
#[local] Open Scope Z_scope.

(* ---- filtering commutes with the stable insertion sort *)
Section FilterSort.
  Context {A : Type} (leb : A -> A -> bool) (p : A -> bool).
  Hypothesis leb_total : forall a b, leb a b = false -> leb b a = true.
  Hypothesis leb_trans : forall a b c, leb a b = true -> leb b c = true -> leb a c = true.

  Lemma filter_insert_le x l : StronglySorted (le_of leb) l ->
    filter p (insert_le leb x l) = if p x then insert_le leb x (filter p l) else filter p l.
  Proof.
    induction l as [|y r IH]; intros S.
    - simpl. destruct (p x); reflexivity.
    - inversion S as [|? ? S' HF]; subst. cbn [insert_le]. destruct (leb x y) eqn:E.
      + cbn [filter]. destruct (p x) eqn:Px; [|reflexivity].
        destruct (p y) eqn:Py.
        * cbn [insert_le]. rewrite E. reflexivity.
        * rewrite insert_le_head; [reflexivity|].
          apply Forall_forall. intros z Hz. apply filter_In in Hz as [Hz _].
          rewrite Forall_forall in HF. unfold le_of. eapply leb_trans; [exact E|]. apply HF. exact Hz.
      + cbn [filter]. rewrite (IH S'). destruct (p y) eqn:Py; destruct (p x) eqn:Px; try reflexivity.
        cbn [insert_le]. rewrite E. reflexivity.
  Qed.

  Lemma filter_sort_le l : filter p (sort_le leb l) = sort_le leb (filter p l).
  Proof.
    induction l as [|x r IH]; [reflexivity|].
    cbn [sort_le fold_right]. fold (sort_le leb r).
    rewrite filter_insert_le by (apply sort_le_sorted; auto).
    cbn [filter]. destruct (p x); [|exact IH]. cbn [sort_le fold_right]. fold (sort_le leb (filter p r)).
    rewrite IH. reflexivity.
  Qed.
End FilterSort.

Lemma filter_sort_by_tick {A} (p : Z * A -> bool) l : filter p (sort_by_tick l) = sort_by_tick (filter p l).
Proof. unfold sort_by_tick. apply (filter_sort_le (@tick_leb A)); [apply tick_leb_total|apply tick_leb_trans]. Qed.

(* ---- sorting the messages of notes with disjoint closed tick intervals writes them one after the other *)
Definition disj (n m : lnote) : Prop := ln_off m < ln_on n \/ ln_off n < ln_on m.
Definition evs (ns : list lnote) : list (Z * msg) := flat_map note_events ns.
Definition ins (e : Z * msg) (l : list (Z * msg)) := insert_le (fun a b : Z * msg => fst a <=? fst b) e l.

Lemma insert_note n : forall r, ln_on n <= ln_off n ->
  Forall (fun m => ln_on m <= ln_off m /\ disj n m) r ->
  exists r1 r2, r = r1 ++ r2 /\
    ins (ln_on n, NoteOn (ln_ch n) (ln_pitch n) (ln_vel n)) (ins (ln_off n, NoteOff (ln_ch n) (ln_pitch n) 0) (evs r))
    = evs (r1 ++ n :: r2).
Proof.
  induction r as [|m r IH]; intros Hn HF.
  - exists [], []. split; [reflexivity|]. unfold ins, evs. simpl.
    destruct (ln_on n <=? ln_off n) eqn:E; [reflexivity|lia].
  - inversion HF as [|? ? [Hm Hd] HF']; subst.
    destruct Hd as [Hd|Hd].
    + (* m entirely before n *)
      destruct (IH Hn HF') as (r1 & r2 & -> & E).
      exists (m :: r1), r2. split; [reflexivity|].
      unfold evs in *. cbn [flat_map note_events app]. unfold ins in *. cbn [insert_le fst].
      destruct (ln_off n <=? ln_on m) eqn:E1; [lia|]. destruct (ln_off n <=? ln_off m) eqn:E2; [lia|].
      cbn [insert_le fst].
      destruct (ln_on n <=? ln_on m) eqn:E3; [lia|]. destruct (ln_on n <=? ln_off m) eqn:E4; [lia|].
      rewrite E. reflexivity.
    + (* m entirely after n *)
      exists [], (m :: r). split; [reflexivity|].
      unfold evs, ins. cbn [flat_map note_events app insert_le fst].
      destruct (ln_off n <=? ln_on m) eqn:E1; [|lia]. cbn [insert_le fst].
      destruct (ln_on n <=? ln_off n) eqn:E2; [reflexivity|lia].
Qed.

Lemma sort_note_events : forall ns,
  Forall (fun n => ln_on n <= ln_off n) ns -> ForallOrdPairs disj ns ->
  exists ns', Permutation ns' ns /\ sort_by_tick (evs ns) = evs ns'.
Proof.
  induction ns as [|n r IH]; intros Hle Hd.
  - exists []. split; auto.
  - inversion Hle as [|? ? Hn Hle']; subst. inversion Hd as [|? ? Hnr Hd']; subst.
    destruct (IH Hle' Hd') as (r' & P & E).
    assert (HF : Forall (fun m => ln_on m <= ln_off m /\ disj n m) r').
    { apply Forall_forall. intros m Hm. apply (Permutation_in _ P) in Hm.
      rewrite Forall_forall in Hle', Hnr. split; auto. }
    destruct (insert_note n r' Hn HF) as (r1 & r2 & -> & E2).
    exists (r1 ++ n :: r2). split.
    + symmetry. apply Permutation_cons_app. symmetry. exact P.
    + unfold sort_by_tick, evs in *. cbn [flat_map note_events app sort_le fold_right].
      fold (sort_le (fun a b : Z * msg => fst a <=? fst b) (flat_map note_events r)).
      rewrite E. exact E2.
Qed.

(* ---- ForallOrdPairs through filter and map *)
Lemma FOP_filter {A} (R : A -> A -> Prop) (p : A -> bool) l : ForallOrdPairs R l -> ForallOrdPairs R (filter p l).
Proof.
  induction 1 as [|a l Ha H IH]; simpl; [constructor|].
  destruct (p a); auto. constructor; auto.
  apply Forall_forall. intros x Hx. apply filter_In in Hx as [Hx _]. rewrite Forall_forall in Ha. auto.
Qed.
Lemma FOP_map {A B} (R : B -> B -> Prop) (f : A -> B) l :
  ForallOrdPairs (fun a b => R (f a) (f b)) l -> ForallOrdPairs R (map f l).
Proof.
  induction 1 as [|a l Ha H IH]; simpl; constructor; auto.
  apply Forall_forall. intros y Hy. apply in_map_iff in Hy as (x & <- & Hx). rewrite Forall_forall in Ha. auto.
Qed.
Lemma FOP_impl {A} (R R' : A -> A -> Prop) l :
  (forall a b, In a l -> In b l -> R a b -> R' a b) -> ForallOrdPairs R l -> ForallOrdPairs R' l.
Proof.
  intros H F. induction F as [|a l Ha F IH]; constructor.
  - apply Forall_forall. intros x Hx. rewrite Forall_forall in Ha. apply H; simpl; auto.
  - apply IH. intros x y Hx Hy. apply H; simpl; auto.
Qed.

(* ---- two lists whose per-key sublists are permutations of each other are permutations *)
Section FilterPermPerm.
  Context {A : Type} (f : A -> Z).
  Let on (k : Z) (x : A) : bool := f x =? k.

  Lemma filter_perm_perm : forall a b,
    (forall k, Permutation (filter (on k) a) (filter (on k) b)) -> Permutation a b.
  Proof.
    induction a as [|x a IH]; intros b H.
    - destruct b as [|y b]; auto. specialize (H (f y)). simpl in H.
      assert (E : on (f y) y = true) by (unfold on; lia). rewrite E in H.
      apply Permutation_nil in H. discriminate.
    - pose proof (H (f x)) as Hx. simpl in Hx.
      assert (E : on (f x) x = true) by (unfold on; lia). rewrite E in Hx.
      assert (Hin : In x b).
      { assert (I : In x (filter (on (f x)) b)) by (eapply Permutation_in; [exact Hx|left; reflexivity]).
        apply filter_In in I. tauto. }
      apply in_split in Hin as (b1 & b2 & ->).
      apply Permutation_cons_app. apply IH. intros k.
      specialize (H k). rewrite filter_app in *. simpl in H.
      destruct (on k x) eqn:Ek.
      + apply Permutation_cons_app_inv in H. exact H.
      + exact H.
  Qed.
End FilterPermPerm.

(* ---- the messages save writes on one track, seen through one key *)
Definition is_note_msg (m : msg) : bool := match m with NoteOn _ _ _ | NoteOff _ _ _ => true | _ => false end.
Definition pkey (n : pnote) : Z := note_hash (pn_ch n) (pn_pitch n).
Definition all_notes (ps : list ppart) : list pnote := flat_map pp_notes ps.
Definition items_ok (p : ppart) : Prop :=
  Forall (fun i => is_note_msg (pi_msg i) = false) (pp_metas p ++ pp_keys p ++ pp_times p ++ pp_ctrls p ++ pp_progs p).

Lemma proj_app k a b : proj k (a ++ b) = proj k a ++ proj k b.
Proof. unfold proj. apply filter_app. Qed.
Lemma evs_app a b : evs (a ++ b) = evs a ++ evs b.
Proof. unfold evs. apply flat_map_app. Qed.
Lemma proj_no_notes k l : Forall (fun e => is_note_msg (snd e) = false) l -> proj k l = [].
Proof.
  induction 1 as [|[t m] r H HF IH]; [reflexivity|]. unfold proj in *. cbn [filter snd] in *.
  destruct m; cbn [is_note_ev]; try exact IH; discriminate.
Qed.

Section SaveLoad.
  Variables (rule ppq mpq : Z).
  Let Qn := quantised rule ppq mpq.
  Definition strip (e : ev) : Z * msg := (ev_tick e, snd e).
  Definition track_abs (tr : Z) (l : list ev) : list (Z * msg) := map strip (filter (fun e => ev_track e =? tr) l).
  Definition sel_tk (tr k : Z) (n : pnote) : bool := (pn_track n =? tr) && (pkey n =? k).

  Lemma track_abs_app tr a b : track_abs tr (a ++ b) = track_abs tr a ++ track_abs tr b.
  Proof. unfold track_abs. rewrite filter_app, map_app. reflexivity. Qed.

  Lemma track_abs_items k tr items :
    Forall (fun i => is_note_msg (pi_msg i) = false) items ->
    proj k (track_abs tr (map (emit_item rule ppq mpq) items)) = [].
  Proof.
    intros H. apply proj_no_notes. unfold track_abs.
    apply Forall_forall. intros e He. apply in_map_iff in He as (x & <- & Hx).
    apply filter_In in Hx as [Hx _]. apply in_map_iff in Hx as (i & <- & Hi).
    rewrite Forall_forall in H. apply (H i Hi).
  Qed.

  Lemma track_abs_notes k tr ns :
    proj k (track_abs tr (flat_map (emit_note rule ppq mpq) ns)) = evs (map Qn (filter (sel_tk tr k) ns)).
  Proof.
    induction ns as [|n r IH]; [reflexivity|].
    cbn [flat_map]. rewrite track_abs_app, proj_app, IH. cbn [filter]. unfold sel_tk at 2.
    unfold track_abs, emit_note, proj. cbn [filter ev_track fst snd].
    destruct (pn_track n =? tr) eqn:E1; cbn [andb map filter strip ev_tick snd fst is_note_ev].
    - unfold pkey. destruct (note_hash (pn_ch n) (pn_pitch n) =? k) eqn:E2; reflexivity.
    - reflexivity.
  Qed.

  Lemma default_programs_no_notes sofar p :
    Forall (fun e : ev => is_note_msg (snd e) = false) (default_programs sofar p).
  Proof.
    unfold default_programs. destruct (pp_progs p); [|constructor].
    apply Forall_forall. intros e He. apply in_flat_map in He as (tr & _ & He).
    apply in_map_iff in He as (ch & <- & _). reflexivity.
  Qed.

  Lemma track_abs_defaults k tr sofar p : proj k (track_abs tr (default_programs sofar p)) = [].
  Proof.
    apply proj_no_notes. unfold track_abs. apply Forall_forall. intros e He.
    apply in_map_iff in He as (x & <- & Hx). apply filter_In in Hx as [Hx _].
    pose proof (default_programs_no_notes sofar p) as H. rewrite Forall_forall in H. apply (H x Hx).
  Qed.

  Lemma track_abs_body k tr p : items_ok p ->
    proj k (track_abs tr (emit_part_body rule ppq mpq p)) = evs (map Qn (filter (sel_tk tr k) (pp_notes p))).
  Proof.
    unfold items_ok. rewrite !Forall_app. intros (H1 & H2 & H3 & H4 & H5).
    unfold emit_part_body. rewrite !track_abs_app, !proj_app.
    rewrite !track_abs_items by assumption. rewrite track_abs_notes. cbn [app]. rewrite app_nil_r. reflexivity.
  Qed.

  Lemma track_abs_parts k tr : forall ps sofar, Forall items_ok ps ->
    proj k (track_abs tr (emit_parts rule ppq mpq sofar ps))
    = proj k (track_abs tr sofar) ++ evs (map Qn (filter (sel_tk tr k) (all_notes ps))).
  Proof.
    induction ps as [|p r IH]; intros sofar H.
    - cbn. rewrite app_nil_r. reflexivity.
    - inversion H as [|? ? Hp Hr]; subst. cbn [emit_parts]. rewrite IH by assumption.
      rewrite !track_abs_app, !proj_app, track_abs_defaults, track_abs_body by assumption.
      unfold all_notes. cbn [flat_map]. rewrite filter_app, map_app, evs_app, app_nil_r, app_assoc. reflexivity.
  Qed.

  (* hypotheses: the items of the parts are not note messages; velocities > 0; no note ends before it
     starts; two notes of one track, channel and pitch have disjoint closed tick intervals *)
  Definition notes_ok (ps : list ppart) : Prop :=
    Forall items_ok ps /\
    Forall (fun n => 0 < pn_vel n /\ ln_on (Qn n) <= ln_off (Qn n)) (all_notes ps) /\
    ForallOrdPairs (fun a b => pn_track a = pn_track b -> pkey a = pkey b -> disj (Qn a) (Qn b)) (all_notes ps).

  Lemma filter_map_key k (ptr : pnote -> bool) l :
    filter (on_key k) (map Qn (filter ptr l)) = map Qn (filter (fun n => ptr n && (pkey n =? k)) l).
  Proof.
    induction l as [|n r IH]; [reflexivity|]. cbn [filter]. destruct (ptr n); cbn [andb map filter].
    - unfold on_key at 1. change (key_of (Qn n)) with (pkey n). destruct (pkey n =? k); rewrite IH; reflexivity.
    - exact IH.
  Qed.

  Lemma track_pairs tr ps : notes_ok ps ->
    Permutation (pair_notes [] (track_msgs (emit_parts rule ppq mpq [] ps) tr))
                (map Qn (filter (fun n => pn_track n =? tr) (all_notes ps))).
  Proof.
    intros (Hi & Hv & Hd). apply (filter_perm_perm key_of). intros k.
    change (fun x : lnote => key_of x =? k) with (on_key k).
    rewrite pair_notes_key. change (restrict [] k) with (@nil (Z * (Z * Z))).
    unfold track_msgs. change (map (fun e : ev => (ev_tick e, snd e)) (filter (fun e : ev => ev_track e =? tr) (emit_parts rule ppq mpq [] ps))) with (track_abs tr (emit_parts rule ppq mpq [] ps)).
    unfold proj. rewrite filter_sort_by_tick. fold (proj k (track_abs tr (emit_parts rule ppq mpq [] ps))).
    rewrite track_abs_parts by assumption. cbn [app track_abs filter map proj].
    rewrite filter_map_key. fold (sel_tk tr k).
    set (N := map Qn (filter (sel_tk tr k) (all_notes ps))).
    assert (HN1 : Forall (fun n => 0 < ln_vel n /\ ln_on n <= ln_off n) N).
    { apply Forall_forall. intros x Hx. apply in_map_iff in Hx as (n & <- & Hn). apply filter_In in Hn as [Hn _].
      rewrite Forall_forall in Hv. apply (Hv n Hn). }
    assert (HN2 : ForallOrdPairs disj N).
    { apply FOP_map. eapply FOP_impl; [|apply FOP_filter; exact Hd].
      intros a b Ha Hb H. apply filter_In in Ha as [_ Ha]. apply filter_In in Hb as [_ Hb].
      unfold sel_tk in Ha, Hb. apply H; lia. }
    destruct (sort_note_events N) as (N' & P & E); auto.
    { eapply Forall_impl; [|exact HN1]. intros a Ha. apply Ha. }
    fold (evs N). rewrite E. unfold evs. rewrite pairing_inverts_sequential_lemma.
    - exact P.
    - apply Forall_forall. intros x Hx. apply (Permutation_in _ P) in Hx.
      rewrite Forall_forall in HN1. apply HN1. exact Hx.
  Qed.

  (* ---- through the file: delta times, the set_tempo in front of the first track, read_track *)
  Lemma undelta_deltas : forall l t, undelta t (deltas t l) = l.
  Proof.
    induction l as [|[tk m] r IH]; intros t; [reflexivity|].
    cbn [deltas undelta]. replace (t + (tk - t)) with tk by lia. rewrite IH. reflexivity.
  Qed.

  Lemma zmem_In x l : zmem x l = true <-> In x l.
  Proof.
    induction l as [|y r IH]; simpl; [split; [discriminate|tauto]|].
    rewrite orb_true_iff, IH. split; intros [H|H]; auto; [left; lia|left; lia].
  Qed.
  Lemma zuniq_In x l : In x (zuniq l) <-> In x l.
  Proof.
    induction l as [|y r IH]; simpl; [tauto|].
    destruct (zmem y r) eqn:E.
    - rewrite IH. split; auto. intros [<-|H]; auto. apply zmem_In. exact E.
    - simpl. rewrite IH. tauto.
  Qed.
  Lemma sorted_uniq_In x l : In x (sorted_uniq l) <-> In x l.
  Proof.
    unfold sorted_uniq. split; intros H.
    - apply zuniq_In. eapply Permutation_in; [apply sort_le_perm|exact H].
    - eapply Permutation_in; [symmetry; apply sort_le_perm|]. apply zuniq_In. exact H.
  Qed.

  Lemma emit_parts_incl e : forall ps sofar,
    In e sofar \/ (exists p, In p ps /\ In e (emit_part_body rule ppq mpq p)) -> In e (emit_parts rule ppq mpq sofar ps).
  Proof.
    induction ps as [|p r IH]; intros sofar H; cbn [emit_parts].
    - destruct H as [H|(p & [] & _)]. exact H.
    - apply IH. destruct H as [H|(p' & [<-|Hp] & He)].
      + left. apply in_or_app. left. apply in_or_app. left. exact H.
      + left. apply in_or_app. left. apply in_or_app. right. exact He.
      + right. exists p'. auto.
  Qed.

  Definition save_tracks (ps : list ppart) : list Z := sorted_uniq (map ev_track (emit_parts rule ppq mpq [] ps)).

  Lemma note_track_saved ps n : In n (all_notes ps) -> In (pn_track n) (save_tracks ps).
  Proof.
    intros H. unfold all_notes in H. apply in_flat_map in H as (p & Hp & Hn).
    unfold save_tracks. apply sorted_uniq_In. apply in_map_iff.
    exists (pn_track n, q rule ppq mpq (pn_on n), NoteOn (pn_ch n) (pn_pitch n) (pn_vel n)). split; [reflexivity|].
    apply emit_parts_incl. right. exists p. split; [exact Hp|].
    unfold emit_part_body. do 4 (apply in_or_app; right). apply in_or_app. left.
    apply in_flat_map. exists n. split; [exact Hn|]. left. reflexivity.
  Qed.

  Theorem save_load_notes_lemma ps : notes_ok ps ->
    let trs := save_tracks ps in
    let file := save rule ppq mpq false ps in
    List.length file = List.length trs /\
    (forall i tr, nth_error trs i = Some tr ->
       exists t, nth_error file i = Some t /\
         Permutation (lp_notes (read_track (Z.of_nat i) (undelta 0 t)))
                     (map Qn (filter (fun n => pn_track n =? tr) (all_notes ps)))) /\
    (forall n, In n (all_notes ps) -> In (pn_track n) trs).
  Proof.
    intros Hok. cbv zeta. split; [|split].
    - unfold save, save_tracks. cbn [andb]. destruct (sorted_uniq _) as [|tr0 trs]; [reflexivity|].
      cbn [map List.length]. rewrite map_length. reflexivity.
    - intros i tr Hi. unfold save. fold (save_tracks ps). cbn [andb].
      set (f := fun tr0 => deltas 0 (track_msgs (emit_parts rule ppq mpq [] ps) tr0)).
      destruct (save_tracks ps) as [|tr0 trs]; [destruct i; discriminate|].
      cbn [map]. destruct i as [|j].
      + cbn in Hi. injection Hi as ->. eexists. split; [reflexivity|].
        unfold read_track. cbn [lp_notes]. unfold sort_notes. rewrite sort_le_perm.
        unfold f. cbn [undelta]. change (0 + 0) with 0. rewrite undelta_deltas. cbn [pair_notes].
        apply track_pairs. exact Hok.
      + cbn [nth_error] in Hi |- *. exists (f tr). split; [apply map_nth_error; exact Hi|].
        unfold read_track. cbn [lp_notes]. unfold sort_notes. rewrite sort_le_perm.
        unfold f. rewrite undelta_deltas. apply track_pairs. exact Hok.
    - intros n Hn. apply note_track_saved. exact Hn.
  Qed.

  (* ---- everything else: a file track holds, at their nearest ticks, exactly the messages emitted for
     its track number (plus the set_tempo in front of the first track); so what the loader selects from
     it by message class (controls, programs, key / time signatures, other meta) is what was given *)
  Lemma Permutation_filter' {A} (p : A -> bool) l l' : Permutation l l' -> Permutation (filter p l) (filter p l').
  Proof.
    induction 1 as [|x l l' P IH|x y l|l l' l'' P1 IH1 P2 IH2]; cbn [filter]; auto.
    - destruct (p x); auto.
    - destruct (p x), (p y); auto. apply perm_swap.
    - etransitivity; eassumption.
  Qed.

  Theorem save_load_items_lemma ps (f : msg -> bool) : f (Tempo mpq) = false ->
    forall i tr, nth_error (save_tracks ps) i = Some tr ->
      exists t, nth_error (save rule ppq mpq false ps) i = Some t /\
        Permutation (sel f (undelta 0 t)) (sel f (track_abs tr (emit_parts rule ppq mpq [] ps))).
  Proof.
    intros Hf i tr Hi. unfold save. fold (save_tracks ps). cbn [andb].
    set (g := fun tr0 => deltas 0 (track_msgs (emit_parts rule ppq mpq [] ps) tr0)).
    assert (G : forall tr0, Permutation (sel f (undelta 0 (g tr0))) (sel f (track_abs tr0 (emit_parts rule ppq mpq [] ps)))).
    { intros tr0. unfold g. rewrite undelta_deltas. apply Permutation_filter'. unfold track_msgs. apply sort_by_tick_perm. }
    destruct (save_tracks ps) as [|tr0 trs]; [destruct i; discriminate|].
    cbn [map]. destruct i as [|j].
    - cbn in Hi. injection Hi as ->. eexists. split; [reflexivity|].
      cbn [undelta]. change (0 + 0) with 0. unfold sel at 1. cbn [filter snd]. rewrite Hf. apply G.
    - cbn [nth_error] in Hi |- *. exists (g tr). split; [apply map_nth_error; exact Hi|]. apply G.
  Qed.
End SaveLoad.

(* the hypotheses are satisfiable: two parts; three notes of one key on track 0 -- the second ending
   at 0.999 s, one tick before the third, a zero-length note, starts -- under a long note of another
   channel, a control change; a note of the same key at the same time on another track *)
Definition ex_ps : list ppart :=
  [mkPP [mkPI 0 0 (Meta 1)] [] [] [mkPI 0 (1 # 4) (CC 0 64 127)]
        [mkPN 0 0 60 64 0 (1 # 2); mkPN 0 1 60 70 (1 # 4) 2; mkPN 0 0 60 30 (3 # 4) (999 # 1000); mkPN 0 0 60 5 1 1] [];
   mkPP [] [] [] [] [mkPN 1 0 60 90 (1 # 10) (7 # 10)] [mkPI 1 0 (PC 0 5)]].

Lemma save_load_notes_example_lemma :
  notes_ok 0 480 500000 ex_ps /\
  save_tracks 0 480 500000 ex_ps = [0; 1] /\
  map (fun t => pair_notes [] (undelta 0 t)) (save 0 480 500000 false ex_ps)
  = [[mkLN 60 64 0 0 480; mkLN 60 30 0 720 959; mkLN 60 5 0 960 960; mkLN 60 70 1 240 1920]; [mkLN 60 90 0 96 672]].
Proof.
  split; [|split; vm_compute; reflexivity].
  unfold notes_ok, ex_ps, items_ok, all_notes. cbn [flat_map app pp_notes pp_metas pp_keys pp_times pp_ctrls pp_progs].
  split; [|split].
  - repeat constructor.
  - repeat constructor; vm_compute; congruence.
  - repeat (apply FOP_cons;
      [repeat (apply Forall_cons;
         [intros Ht Hk; first [ vm_compute in Ht; discriminate Ht | vm_compute in Hk; discriminate Hk
                              | unfold disj; vm_compute; first [left; reflexivity | right; reflexivity] ]|]);
       apply Forall_nil|]); apply FOP_nil.
Qed.

Lemma load_unmerged_parts_lemma dmpq tracks :
  fst (load dmpq false tracks)
  = filter nonempty_part (map (fun x => read_track (fst x) (snd x)) (number_from 0 (map (undelta 0) tracks))).
Proof. reflexivity. Qed.
