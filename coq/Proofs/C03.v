(* C03 -- proofs about Model/C03.v (timing semantics of the exporter's element stream). *)
From PV Require Import Lib.Base Model.C03.
From Coq Require Import Permutation.
#[local] Open Scope Z_scope.

(* ------------------------------------------------------------------ placed objects (spec side) *)


(* ------------------------------------------------------------------ interp: basic facts *)

Lemma interp_app a b s :
  interp (a ++ b) s =
  let (x, s1) := interp a s in let (y, s2) := interp b s1 in (x ++ y, s2).
Proof.
  revert s; induction a as [|e a IH]; intros s; simpl.
  - destruct (interp b s); reflexivity.
  - destruct (istep e s) as [p s1]. rewrite IH.
    destruct (interp a s1) as [x s2]. destruct (interp b s2) as [y s3].
    rewrite app_assoc. reflexivity.
Qed.

Lemma interp_fb t s :
  ipos s <= imax s ->
  interp (fb t (ipos s)) s = ([], mkI t (ilast s) (Z.max (imax s) t)).
Proof.
  intros H. unfold fb.
  destruct (t >? ipos s) eqn:E1; [|destruct (t <? ipos s) eqn:E2]; simpl.
  - f_equal. f_equal; lia.
  - f_equal. f_equal; lia.
  - destruct s as [p l m]; simpl in *. f_equal. f_equal; lia.
Qed.

(* ------------------------------------------------------------------ emit_others *)

Lemma emit_others_interp : forall Os s,
  ipos s <= imax s ->
  match emit_others Os (ipos s) (imax s) with
  | (es, t', mx') =>
      interp es s = (map place_other Os, mkI t' (ilast s) mx') /\ t' <= mx'
  end.
Proof.
  induction Os as [|o r IH]; intros s H; simpl.
  - destruct s; simpl in *. split; [reflexivity | assumption].
  - set (s1 := mkI (o_onset o) (ilast s) (Z.max (imax s) (o_onset o))).
    specialize (IH s1). simpl in IH.
    destruct (emit_others r (o_onset o) (Z.max (imax s) (o_onset o))) as [[es t'] mx'].
    destruct IH as [IH1 IH2]; [lia|].
    split; [|assumption].
    rewrite interp_app, interp_fb by assumption.
    fold s1. simpl.
    assert (Hs : istep (oelem o) s1 = ([place_other o], s1)).
    { unfold oelem, place_other. destruct (o_div o); reflexivity. }
    rewrite Hs, IH1. reflexivity.
Qed.

(* ------------------------------------------------------------------ span_le *)

Lemma span_le_app t Os : fst (span_le t Os) ++ snd (span_le t Os) = Os.
Proof.
  induction Os as [|o r IH]; simpl; [reflexivity|].
  destruct (o_onset o <=? t); simpl; [|reflexivity].
  destruct (span_le t r); simpl in *. f_equal. assumption.
Qed.

Lemma span_le_idem t Os : fst (span_le t (snd (span_le t Os))) = [].
Proof.
  induction Os as [|o r IH]; simpl; [reflexivity|].
  destruct (o_onset o <=? t) eqn:E; simpl.
  - destruct (span_le t r); simpl in *. assumption.
  - rewrite E. reflexivity.
Qed.

(* ------------------------------------------------------------------ chord tags *)

(* every chord-tagged note directly follows a non-grace note with the same onset and duration *)
Fixpoint chord_ok (prev : option note) (N : list (note * bool)) : Prop :=
  match N with
  | [] => True
  | (n, ch) :: r =>
      (ch = true -> exists p, prev = Some p /\ grace p = false /\
                              onset p = onset n /\ ndur p = ndur n) /\
      chord_ok (Some n) r
  end.

Definition prev_rel (prev : option (Z * Z)) (pn : option note) : Prop :=
  match prev with
  | None => True
  | Some (po, pd) => exists p, pn = Some p /\ grace p = false /\ onset p = po /\ ndur p = pd
  end.

Lemma tag_chords_ok : forall l prev pn, prev_rel prev pn -> chord_ok pn (tag_chords prev l).
Proof.
  induction l as [|n r IH]; intros prev pn H; simpl; [exact I|].
  split.
  - destruct prev as [[po pd]|]; [|discriminate].
    intros E. apply andb_true_iff in E as [E1 E2].
    destruct H as (p & -> & Hg & Ho & Hd). exists p. repeat split; try assumption; lia.
  - apply IH. destruct (grace n) eqn:G; simpl; [exact I|].
    exists n. repeat split; assumption.
Qed.

(* ------------------------------------------------------------------ merge_with_voice *)


Lemma mwv_placed_perm : forall N Os,
  Permutation (mwv_placed N Os) (map (fun p => place_note (fst p)) N ++ map place_other Os).
Proof.
  induction N as [|[n ch] r IH]; intros Os; simpl; [reflexivity|].
  rewrite <- (span_le_app (onset n) Os) at 3. rewrite map_app.
  eapply Permutation_trans.
  - apply Permutation_app_head. apply perm_skip. apply IH.
  - simpl.
    set (A := map place_other (fst (span_le (onset n) Os))).
    set (B := map place_other (snd (span_le (onset n) Os))).
    set (C := map (fun p => place_note (fst p)) r).
    change (Permutation (A ++ place_note n :: C ++ B) (place_note n :: C ++ A ++ B)).
    eapply Permutation_trans; [apply Permutation_sym, Permutation_middle|].
    apply perm_skip. rewrite !app_assoc. apply Permutation_app_tail. apply Permutation_app_comm.
Qed.

(* the state the reader is in when the note after [prev] is chord-tagged *)
Definition ready (prev : option note) (Os : list other) (last_t lno : Z) (s : ist) : Prop :=
  match prev with
  | Some p => grace p = false ->
              lno = onset p /\ ilast s = onset p /\ last_t = onset p + ndur p /\
              fst (span_le (onset p) Os) = []
  | None => True
  end.

Definition nonneg (N : list (note * bool)) : Prop := Forall (fun p => 0 <= ndur (fst p)) N.

Lemma mwv_interp : forall N Os v last_t lno mx s prev,
  chord_ok prev N -> nonneg N ->
  ipos s = last_t -> imax s = mx -> last_t <= mx ->
  ready prev Os last_t lno s ->
  match mwv v N Os last_t lno mx with
  | (es, t', mx') =>
      exists l', interp es s = (mwv_placed N Os, mkI t' l' mx') /\ t' <= mx'
  end.
Proof.
  induction N as [|[n ch] r IH]; intros Os v last_t lno mx s prev Hc Hn Hp Hm Hle Hr.
  - simpl. subst last_t mx.
    pose proof (emit_others_interp Os s Hle) as H.
    destruct (emit_others Os (ipos s) (imax s)) as [[es t'] mx'].
    destruct H as [H1 H2]. exists (ilast s). split; assumption.
  - simpl in Hc. destruct Hc as [Hch Hc]. inversion Hn as [|x y Hd Hn']; subst x y. simpl in Hd.
    simpl.
    destruct ch.
    + (* chord-tagged note: nothing is emitted before it, it goes to the last note onset *)
      destruct (Hch eq_refl) as (p & -> & Hg & Ho & Hdur).
      destruct (Hr Hg) as (Hl1 & Hl2 & Hl3 & Hsp).
      rewrite Ho in Hsp.
      destruct (span_le (onset n) Os) as [Os1 Os2] eqn:ES. simpl in Hsp. subst Os1.
      simpl.
      assert (HOs2 : fst (span_le (onset n) Os2) = []).
      { pose proof (span_le_idem (onset n) Os) as Hi. rewrite ES in Hi. exact Hi. }
      set (mx1 := Z.max mx (onset n + ndur n)).
      destruct (grace n) eqn:G.
      * (* grace + chord: the reader does not move *)
        assert (Hd0 : ndur n = 0) by (unfold ndur; rewrite G; reflexivity).
        set (s1 := s).
        specialize (IH Os2 v (onset n + ndur n) (onset n) mx1 s (Some n)).
        destruct (mwv v r Os2 (onset n + ndur n) (onset n) mx1) as [[es2 t2] mx2].
        destruct IH as (l' & IH1 & IH2); try assumption.
        -- lia.
        -- unfold mx1. lia.
        -- unfold mx1. lia.
        -- unfold ready. intros Hg'. congruence.
        -- exists l'. split; [|assumption].
           replace lno with (onset n) by lia.
           assert (Hfb : fb (onset n) (onset n) = []).
           { unfold fb. rewrite Z.gtb_ltb, !Z.ltb_irrefl. reflexivity. }
           rewrite Hfb. simpl. unfold s1. rewrite IH1.
           unfold place_note. rewrite Hd0. f_equal. f_equal. f_equal. lia.
      * assert (Hdn : ndur n = dur n) by (unfold ndur; rewrite G; reflexivity).
        set (s1 := mkI (ipos s) (ilast s) (Z.max (imax s) (ipos s))).
        specialize (IH Os2 v (onset n + ndur n) (onset n) mx1 s1 (Some n)).
        destruct (mwv v r Os2 (onset n + ndur n) (onset n) mx1) as [[es2 t2] mx2].
        destruct IH as (l' & IH1 & IH2); try assumption.
        -- unfold s1; simpl. lia.
        -- unfold s1, mx1; simpl. lia.
        -- unfold mx1. lia.
        -- unfold ready. intros _. unfold s1; simpl. repeat split; try lia. assumption.
        -- exists l'. split; [|assumption].
           replace lno with (onset n) by lia.
           assert (Hfb : fb (onset n) (onset n) = []).
           { unfold fb. rewrite Z.gtb_ltb, !Z.ltb_irrefl. reflexivity. }
           rewrite Hfb. simpl. fold s1. rewrite IH1.
           unfold place_note. f_equal. f_equal. f_equal. lia.
    + (* ordinary note: others up to its onset, forward/backup, the note *)
      destruct (span_le (onset n) Os) as [Os1 Os2] eqn:ES. simpl.
      subst last_t mx.
      pose proof (emit_others_interp Os1 s Hle) as HE.
      destruct (emit_others Os1 (ipos s) (imax s)) as [[es1 t1] mx1].
      destruct HE as [HE1 HE2].
      set (sa := mkI t1 (ilast s) mx1) in *.
      set (sb := mkI (onset n) (ilast s) (Z.max mx1 (onset n))).
      assert (HOs2 : fst (span_le (onset n) Os2) = []).
      { pose proof (span_le_idem (onset n) Os) as Hi. rewrite ES in Hi. exact Hi. }
      set (mx2 := Z.max mx1 (onset n + ndur n)).
      destruct (grace n) eqn:G.
      * assert (Hd0 : ndur n = 0) by (unfold ndur; rewrite G; reflexivity).
        specialize (IH Os2 v (onset n + ndur n) (onset n) mx2 sb (Some n)).
        destruct (mwv v r Os2 (onset n + ndur n) (onset n) mx2) as [[es2 t2] mx3].
        destruct IH as (l' & IH1 & IH2); try assumption.
        -- unfold sb; simpl. lia.
        -- unfold sb, mx2; simpl. rewrite Hd0. f_equal. lia.
        -- unfold mx2. lia.
        -- unfold ready. intros Hg'. congruence.
        -- exists l'. split; [|assumption].
           rewrite interp_app, HE1.
           change (ipos sa) with t1 || idtac.
           assert (Hfb : interp (fb (onset n) t1) sa = ([], sb)).
           { change t1 with (ipos sa). rewrite interp_fb by (unfold sa; simpl; lia). reflexivity. }
           rewrite interp_app, Hfb. simpl. rewrite IH1.
           unfold place_note. rewrite Hd0. reflexivity.
      * assert (Hdn : ndur n = dur n) by (unfold ndur; rewrite G; reflexivity).
        set (sc := mkI (onset n + ndur n) (onset n) (Z.max (Z.max mx1 (onset n)) (onset n + ndur n))).
        specialize (IH Os2 v (onset n + ndur n) (onset n) mx2 sc (Some n)).
        destruct (mwv v r Os2 (onset n + ndur n) (onset n) mx2) as [[es2 t2] mx3].
        destruct IH as (l' & IH1 & IH2); try assumption.
        -- reflexivity.
        -- unfold sc, mx2; simpl. lia.
        -- unfold mx2. lia.
        -- unfold ready. intros _. unfold sc; simpl. repeat split; try lia. assumption.
        -- exists l'. split; [|assumption].
           rewrite interp_app, HE1.
           assert (Hfb : interp (fb (onset n) t1) sa = ([], sb)).
           { change t1 with (ipos sa). rewrite interp_fb by (unfold sa; simpl; lia). reflexivity. }
           rewrite interp_app, Hfb. simpl. fold sc. rewrite IH1.
           unfold place_note. reflexivity.
Qed.

(* ------------------------------------------------------------------ sorting is a permutation *)

Lemma ins_note_perm x l : Permutation (ins_note x l) (x :: l).
Proof.
  induction l as [|y r IH]; simpl; [reflexivity|].
  destruct (nkey_le x y); [reflexivity|].
  eapply Permutation_trans; [apply perm_skip, IH | apply perm_swap].
Qed.
Lemma sort_notes_perm l : Permutation (sort_notes l) l.
Proof.
  induction l as [|x r IH]; simpl; [reflexivity|].
  eapply Permutation_trans; [apply ins_note_perm | apply perm_skip, IH].
Qed.

Lemma ins_onset_perm x l : Permutation (ins_onset x l) (x :: l).
Proof.
  induction l as [|y r IH]; simpl; [reflexivity|].
  destruct (onset x <=? onset y); [reflexivity|].
  eapply Permutation_trans; [apply perm_skip, IH | apply perm_swap].
Qed.
Lemma sort_onset_perm l : Permutation (sort_onset l) l.
Proof.
  induction l as [|x r IH]; simpl; [reflexivity|].
  eapply Permutation_trans; [apply ins_onset_perm | apply perm_skip, IH].
Qed.

Lemma ins_other_perm x l : Permutation (ins_other x l) (x :: l).
Proof.
  induction l as [|y r IH]; simpl; [reflexivity|].
  destruct (okey_le x y); [reflexivity|].
  eapply Permutation_trans; [apply perm_skip, IH | apply perm_swap].
Qed.
Lemma sort_others_perm l : Permutation (sort_others l) l.
Proof.
  induction l as [|x r IH]; simpl; [reflexivity|].
  eapply Permutation_trans; [apply ins_other_perm | apply perm_skip, IH].
Qed.

Lemma ins_voice_perm x l : Permutation (ins_voice x l) (x :: l).
Proof.
  induction l as [|y r IH]; simpl; [reflexivity|].
  destruct (fst x <=? fst y); [reflexivity|].
  eapply Permutation_trans; [apply perm_skip, IH | apply perm_swap].
Qed.
Lemma sort_voices_perm l : Permutation (sort_voices l) l.
Proof.
  induction l as [|x r IH]; simpl; [reflexivity|].
  eapply Permutation_trans; [apply ins_voice_perm | apply perm_skip, IH].
Qed.

Lemma flat_map_snd_perm (a b : list (Z * list note)) :
  Permutation a b -> Permutation (flat_map snd a) (flat_map snd b).
Proof.
  induction 1; simpl.
  - reflexivity.
  - apply Permutation_app_head. assumption.
  - rewrite !app_assoc. apply Permutation_app_tail. apply Permutation_app_comm.
  - eapply Permutation_trans; eassumption.
Qed.

(* ------------------------------------------------------------------ voice re-assignment keeps every note *)

Lemma vadd_perm v n m : Permutation (flat_map snd (vadd v n m)) (n :: flat_map snd m).
Proof.
  induction m as [|[v' l] r IH]; simpl; [reflexivity|].
  destruct (v =? v'); simpl.
  - rewrite <- app_assoc. simpl.
    eapply Permutation_trans; [apply Permutation_sym, Permutation_middle|]. reflexivity.
  - eapply Permutation_trans; [apply Permutation_app_head, IH|].
    apply Permutation_sym, Permutation_middle.
Qed.

Lemma partition_perm_gen : forall ns m,
  Permutation (flat_map snd (fold_left (fun m n => vadd (voice n) n m) ns m)) (flat_map snd m ++ ns).
Proof.
  induction ns as [|n r IH]; intros m; simpl.
  - rewrite app_nil_r. reflexivity.
  - eapply Permutation_trans; [apply IH|].
    eapply Permutation_trans; [apply Permutation_app_tail, vadd_perm|].
    simpl. apply Permutation_middle.
Qed.

Lemma partition_perm ns : Permutation (flat_map snd (partition_voices ns)) ns.
Proof. unfold partition_voices. apply (partition_perm_gen ns []). Qed.

Lemma move_all_perm vmax : forall cands st,
  Permutation (flat_map snd (snd (move_all vmax cands st))) (flat_map snd (snd st) ++ cands).
Proof.
  unfold move_all.
  induction cands as [|n r IH]; intros [spans extr]; simpl.
  - rewrite app_nil_r. reflexivity.
  - eapply Permutation_trans; [apply IH|]. simpl.
    eapply Permutation_trans; [apply Permutation_app_tail, vadd_perm|].
    simpl. apply Permutation_middle.
Qed.

Lemma filter_split_perm {A} (P : A -> bool) l :
  Permutation (filter (fun x => negb (P x)) l ++ filter P l) l.
Proof.
  induction l as [|x r IH]; simpl; [reflexivity|].
  destruct (P x); simpl.
  - eapply Permutation_trans; [apply Permutation_sym, Permutation_middle|]. apply perm_skip, IH.
  - apply perm_skip, IH.
Qed.

Lemma rvp_single_perm vmax notes st :
  Permutation (fst (rvp_single vmax notes st) ++ flat_map snd (snd (snd (rvp_single vmax notes st))))
              (notes ++ flat_map snd (snd st)).
Proof.
  unfold rvp_single. simpl.
  set (c1 := filter (viol1 notes) notes).
  set (kept1 := filter (fun n => negb (viol1 notes n)) notes).
  set (c2 := filter (viol2 kept1) kept1).
  set (kept2 := filter (fun n => negb (viol2 kept1 n)) kept1).
  set (st1 := move_all vmax (sort_onset c1) st).
  eapply Permutation_trans; [apply Permutation_app_head, move_all_perm|].
  fold st1.
  eapply Permutation_trans;
    [apply Permutation_app_head, Permutation_app; [apply move_all_perm | apply sort_onset_perm]|].
  eapply Permutation_trans;
    [apply Permutation_app_head, Permutation_app_tail, Permutation_app_head, sort_onset_perm|].
  (* kept2 ++ ((extr ++ c1) ++ c2)  ~  notes ++ extr *)
  assert (H1 : Permutation (kept2 ++ c2) kept1) by apply filter_split_perm.
  assert (H2 : Permutation (kept1 ++ c1) notes) by apply filter_split_perm.
  set (X := flat_map snd (snd st)).
  eapply Permutation_trans with (l' := (kept2 ++ c2) ++ c1 ++ X).
  - rewrite <- (app_assoc kept2 c2). apply Permutation_app_head.
    eapply Permutation_trans; [apply Permutation_app_comm|].
    apply Permutation_app_head. apply Permutation_app_comm.
  - eapply Permutation_trans; [apply Permutation_app_tail, H1|].
    rewrite app_assoc. apply Permutation_app_tail. exact H2.
Qed.

Arguments rvp_single : simpl never.

Lemma rvp_loop_perm vmax : forall byv st,
  Permutation (flat_map snd (fst (rvp_loop vmax byv st)) ++ flat_map snd (snd (snd (rvp_loop vmax byv st))))
              (flat_map snd byv ++ flat_map snd (snd st)).
Proof.
  induction byv as [|[v l] r IH]; intros st; [simpl; reflexivity|].
  cbn [rvp_loop].
  pose proof (rvp_single_perm vmax l st) as H1.
  destruct (rvp_single vmax l st) as [kept st1]. cbn [fst snd] in H1.
  specialize (IH st1).
  destruct (rvp_loop vmax r st1) as [r' st2]. cbn [fst snd flat_map] in *.
  rewrite <- !app_assoc.
  eapply Permutation_trans; [apply Permutation_app_head, IH|].
  rewrite !app_assoc.
  eapply Permutation_trans; [apply Permutation_app_tail, Permutation_app_comm|].
  rewrite <- !app_assoc.
  eapply Permutation_trans; [apply Permutation_app_head, H1|].
  rewrite !app_assoc. apply Permutation_app_tail. apply Permutation_app_comm.
Qed.

Lemma rvp_perm byv : Permutation (flat_map snd (rvp byv)) (flat_map snd byv).
Proof.
  unfold rvp.
  set (vmax := fold_left (fun a p => Z.max a (fst p)) byv 0).
  pose proof (rvp_loop_perm vmax byv ([], [])) as H.
  destruct (rvp_loop vmax byv ([], [])) as [kept st]. simpl in *.
  rewrite flat_map_app. rewrite app_nil_r in H. exact H.
Qed.

Lemma voices_of_perm ns : Permutation (flat_map snd (voices_of ns)) ns.
Proof.
  unfold voices_of. destruct ns as [|n r]; [reflexivity|].
  eapply Permutation_trans; [apply flat_map_snd_perm, sort_voices_perm|].
  eapply Permutation_trans; [apply rvp_perm|]. apply partition_perm.
Qed.

Lemma voices_of_nonempty ns : voices_of ns <> [].
Proof.
  intros E. pose proof (voices_of_perm ns) as H. rewrite E in H. simpl in H.
  apply Permutation_nil in H. subst ns. discriminate E.
Qed.

(* ------------------------------------------------------------------ all voices of a segment *)

Fixpoint lv_placed (first : bool) (vs : list (Z * list note)) (Os : list other) : list placed :=
  match vs with
  | [] => []
  | (v, l) :: r =>
      mwv_placed (tag_chords None (sort_notes l)) (if first then Os else []) ++ lv_placed false r Os
  end.

Lemma tag_chords_fst : forall l prev, map fst (tag_chords prev l) = l.
Proof. induction l as [|n r IH]; intros prev; simpl; [reflexivity|]. rewrite IH. reflexivity. Qed.


Lemma nonneg_tag l prev : durs_ok l -> nonneg (tag_chords prev l).
Proof.
  intros H. unfold nonneg. rewrite <- (tag_chords_fst l prev) in H.
  unfold durs_ok in H. rewrite Forall_map in H.
  eapply Forall_impl; [|exact H]. intros [n ch] Hn; simpl in *.
  unfold ndur. destruct (grace n); lia.
Qed.

Lemma durs_ok_perm a b : Permutation a b -> durs_ok a -> durs_ok b.
Proof. intros P H. unfold durs_ok in *. eapply Permutation_Forall; eassumption. Qed.

Lemma lin_voices_interp : forall vs first Os pos mx s,
  Forall (fun vl => durs_ok (snd vl)) vs ->
  ipos s = pos -> imax s = mx -> pos <= mx ->
  match lin_voices first vs Os pos mx with
  | (es, p', m') => exists l', interp es s = (lv_placed first vs Os, mkI p' l' m') /\ p' <= m'
  end.
Proof.
  induction vs as [|[v l] r IH]; intros first Os pos mx s Hd Hp Hm Hle; simpl.
  - exists (ilast s). destruct s; simpl in *; subst. split; [reflexivity|assumption].
  - inversion Hd as [|x y Hd1 Hd2]; subst x y. simpl in Hd1.
    set (N := tag_chords None (sort_notes l)).
    set (Os' := if first then Os else []).
    pose proof (mwv_interp N Os' v pos pos mx s None) as HM.
    destruct (mwv v N Os' pos pos mx) as [[es p] m].
    destruct HM as (l1 & HM1 & HM2); try assumption.
    + apply tag_chords_ok. exact I.
    + apply nonneg_tag. eapply durs_ok_perm; [apply Permutation_sym, sort_notes_perm|assumption].
    + exact I.
    + specialize (IH false Os p m (mkI p l1 m) Hd2 eq_refl eq_refl HM2).
      destruct (lin_voices false r Os p m) as [[es' p'] m'].
      destruct IH as (l2 & IH1 & IH2).
      exists l2. split; [|assumption].
      rewrite interp_app, HM1, IH1. reflexivity.
Qed.

Lemma lv_placed_false_perm : forall vs Os,
  Permutation (lv_placed false vs Os) (map place_note (flat_map snd vs)).
Proof.
  induction vs as [|[v l] r IH]; intros Os; simpl; [reflexivity|].
  rewrite map_app. apply Permutation_app; [|apply IH].
  eapply Permutation_trans; [apply mwv_placed_perm|]. simpl. rewrite app_nil_r.
  rewrite <- map_map, tag_chords_fst. apply Permutation_map, sort_notes_perm.
Qed.

Lemma lv_placed_perm : forall vs Os, vs <> [] ->
  Permutation (lv_placed true vs Os) (map place_note (flat_map snd vs) ++ map place_other Os).
Proof.
  intros [|[v l] r] Os H; [congruence|]. simpl.
  eapply Permutation_trans;
    [apply Permutation_app; [apply mwv_placed_perm | apply lv_placed_false_perm]|].
  rewrite <- map_map, tag_chords_fst. rewrite map_app.
  set (A := map place_note (sort_notes l)). set (B := map place_other Os).
  set (C := map place_note (flat_map snd r)).
  eapply Permutation_trans with (l' := (A ++ C) ++ B).
  - rewrite <- !app_assoc. apply Permutation_app_head, Permutation_app_comm.
  - apply Permutation_app_tail, Permutation_app_tail. apply Permutation_map, sort_notes_perm.
Qed.

(* ------------------------------------------------------------------ segments and the measure *)


Lemma voices_durs_ok ns : durs_ok ns -> Forall (fun vl => durs_ok (snd vl)) (voices_of ns).
Proof.
  intros H. apply Forall_forall. intros [v l] Hin. simpl.
  unfold durs_ok in *. apply Forall_forall. intros n Hn.
  assert (Hf : In n (flat_map snd (voices_of ns))).
  { apply in_flat_map. exists (v, l). split; assumption. }
  eapply Permutation_in in Hf; [|apply voices_of_perm].
  rewrite Forall_forall in H. auto.
Qed.

Lemma lin_segment_interp ns Os pos mx s :
  durs_ok ns -> ipos s = pos -> imax s = mx -> pos <= mx ->
  match lin_segment ns Os pos mx with
  | (es, p', m') => exists pl l', interp es s = (pl, mkI p' l' m') /\ p' <= m' /\
                                  Permutation pl (seg_placed (ns, Os))
  end.
Proof.
  intros Hd Hp Hm Hle. unfold lin_segment.
  pose proof (lin_voices_interp (voices_of ns) true (sort_others Os) pos mx s
                (voices_durs_ok ns Hd) Hp Hm Hle) as H.
  destruct (lin_voices true (voices_of ns) (sort_others Os) pos mx) as [[es p'] m'].
  destruct H as (l' & H1 & H2).
  exists (lv_placed true (voices_of ns) (sort_others Os)), l'.
  repeat split; try assumption.
  eapply Permutation_trans; [apply lv_placed_perm, voices_of_nonempty|].
  unfold seg_placed; simpl. apply Permutation_app.
  - apply Permutation_map, voices_of_perm.
  - apply Permutation_map, sort_others_perm.
Qed.

Lemma lin_segs_interp : forall segs pos mx s,
  segs_ok segs -> ipos s = pos -> imax s = mx -> pos <= mx ->
  match lin_segs segs pos mx with
  | (es, p', m') => exists pl l', interp es s = (pl, mkI p' l' m') /\ p' <= m' /\
                                  Permutation pl (flat_map seg_placed segs)
  end.
Proof.
  induction segs as [|[ns Os] r IH]; intros pos mx s Hok Hp Hm Hle; simpl.
  - exists [], (ilast s). destruct s; simpl in *; subst. repeat split; [assumption|reflexivity].
  - inversion Hok as [|x y Hd Hok']; subst x y. simpl in Hd.
    pose proof (lin_segment_interp ns Os pos mx s Hd Hp Hm Hle) as H.
    destruct (lin_segment ns Os pos mx) as [[es p] m].
    destruct H as (pl & l1 & H1 & H2 & H3).
    specialize (IH p m (mkI p l1 m) Hok' eq_refl eq_refl H2).
    destruct (lin_segs r p m) as [[es' p'] m'].
    destruct IH as (pl' & l2 & I1 & I2 & I3).
    exists (pl ++ pl'), l2. repeat split; try assumption.
    + rewrite interp_app, H1, I1. reflexivity.
    + apply Permutation_app; assumption.
Qed.

(* O1, export core: read by the independent interpreter, the written measure places every note
   of the measure at its onset with its duration (and every other element at its onset); the
   reader ends the measure exactly at max(measure end, furthest element end). *)
Lemma interp_linearize_lemma : forall segs ms me,
  segs_ok segs ->
  exists pl s', interp (lin_measure segs ms me) (mkI ms ms ms) = (pl, s') /\
                Permutation pl (flat_map seg_placed segs) /\
                imax s' = Z.max me (snd (lin_segs segs ms ms)).
Proof.
  intros segs ms me Hok. unfold lin_measure.
  pose proof (lin_segs_interp segs ms ms (mkI ms ms ms) Hok eq_refl eq_refl (Z.le_refl _)) as H.
  destruct (lin_segs segs ms ms) as [[es p] m]. simpl.
  destruct H as (pl & l' & H1 & H2 & H3).
  destruct (m <? me) eqn:E.
  - exists pl, (mkI me l' (Z.max m me)). repeat split; try assumption.
    + rewrite interp_app, H1.
      change p with (ipos (mkI p l' m)) at 1. rewrite interp_fb by (simpl; lia). simpl.
      rewrite app_nil_r. reflexivity.
    + simpl. lia.
  - exists pl, (mkI p l' m). repeat split; try assumption. simpl. lia.
Qed.

(* ------------------------------------------------------------------ measure extent *)

Definition tnotes_le (B : Z) (N : list (note * bool)) : Prop :=
  Forall (fun p => onset (fst p) + ndur (fst p) <= B) N.

Lemma emit_others_max_le B : forall Os t mx,
  mx <= B -> others_le B Os -> snd (emit_others Os t mx) <= B.
Proof.
  induction Os as [|o r IH]; intros t mx Hm Ho; simpl; [assumption|].
  inversion Ho as [|x y H1 H2]; subst x y.
  specialize (IH (o_onset o) (Z.max mx (o_onset o))).
  destruct (emit_others r (o_onset o) (Z.max mx (o_onset o))) as [[es t'] mx']. simpl in *.
  apply IH; [lia|assumption].
Qed.

Lemma span_le_others_le B t Os :
  others_le B Os -> others_le B (fst (span_le t Os)) /\ others_le B (snd (span_le t Os)).
Proof.
  intros H. unfold others_le in *. rewrite <- (span_le_app t Os) in H.
  apply Forall_app in H. exact H.
Qed.

Lemma mwv_max_le B v : forall N Os t lno mx,
  mx <= B -> others_le B Os -> tnotes_le B N -> snd (mwv v N Os t lno mx) <= B.
Proof.
  induction N as [|[n ch] r IH]; intros Os t lno mx Hm Ho Hn; simpl.
  - apply emit_others_max_le; assumption.
  - inversion Hn as [|x y H1 H2]; subst x y. simpl in H1.
    destruct (span_le_others_le B (onset n) Os Ho) as [Ha Hb].
    destruct (span_le (onset n) Os) as [Os1 Os2]. simpl in Ha, Hb.
    pose proof (emit_others_max_le B Os1 t mx Hm Ha) as HE.
    destruct (emit_others Os1 t mx) as [[es1 t1] mx1]. simpl in HE.
    specialize (IH Os2 (onset n + ndur n) (onset n) (Z.max mx1 (onset n + ndur n))).
    destruct (mwv v r Os2 (onset n + ndur n) (onset n) (Z.max mx1 (onset n + ndur n))) as [[es2 t2] mx2].
    simpl in *. apply IH; [lia|assumption|assumption].
Qed.

Lemma lin_voices_max_le B : forall vs first Os pos mx,
  mx <= B -> others_le B Os -> Forall (fun vl => notes_le B (snd vl)) vs ->
  snd (lin_voices first vs Os pos mx) <= B.
Proof.
  induction vs as [|[v l] r IH]; intros first Os pos mx Hm Ho Hn; simpl; [assumption|].
  inversion Hn as [|x y H1 H2]; subst x y. simpl in H1.
  set (N := tag_chords None (sort_notes l)).
  assert (HN : tnotes_le B N).
  { unfold tnotes_le, N.
    assert (H : Forall (fun n => onset n + ndur n <= B) (map fst (tag_chords None (sort_notes l)))).
    { rewrite tag_chords_fst. eapply Permutation_Forall; [apply Permutation_sym, sort_notes_perm|exact H1]. }
    rewrite Forall_map in H. exact H. }
  pose proof (mwv_max_le B v N (if first then Os else []) pos pos mx Hm) as HM.
  destruct (mwv v N (if first then Os else []) pos pos mx) as [[es p] m]. simpl in HM.
  specialize (IH false Os p m).
  destruct (lin_voices false r Os p m) as [[es' p'] m']. simpl in *.
  apply IH; try assumption. apply HM; [|assumption].
  destruct first; [assumption|constructor].
Qed.

Lemma lin_segs_max_le B : forall segs pos mx,
  mx <= B ->
  Forall (fun seg => notes_le B (fst seg) /\ others_le B (snd seg)) segs ->
  snd (lin_segs segs pos mx) <= B.
Proof.
  induction segs as [|[ns Os] r IH]; intros pos mx Hm H; simpl; [assumption|].
  inversion H as [|x y [H1 H2] H3]; subst x y. simpl in H1, H2.
  assert (HL : snd (lin_segment ns Os pos mx) <= B).
  { unfold lin_segment. apply lin_voices_max_le; try assumption.
    - unfold others_le in *. eapply Permutation_Forall; [apply Permutation_sym, sort_others_perm|assumption].
    - apply Forall_forall. intros [v l] Hin. simpl. unfold notes_le in *.
      apply Forall_forall. intros n Hn.
      assert (Hf : In n (flat_map snd (voices_of ns))).
      { apply in_flat_map. exists (v, l). split; assumption. }
      eapply Permutation_in in Hf; [|apply voices_of_perm].
      rewrite Forall_forall in H1. auto. }
  destruct (lin_segment ns Os pos mx) as [[es p] m]. simpl in HL.
  specialize (IH p m HL H3).
  destruct (lin_segs r p m) as [[es' p'] m']. simpl in *. exact IH.
Qed.

(* a measure whose notes and other elements lie inside [ms, me] is read back with exactly that extent *)
Lemma measure_extent_lemma : forall segs ms me,
  segs_ok segs -> ms <= me ->
  Forall (fun seg => notes_le me (fst seg) /\ others_le me (snd seg)) segs ->
  imax (snd (interp (lin_measure segs ms me) (mkI ms ms ms))) = me.
Proof.
  intros segs ms me Hok Hle Hin.
  destruct (interp_linearize_lemma segs ms me Hok) as (pl & s' & H1 & _ & H3).
  rewrite H1. simpl. rewrite H3.
  pose proof (lin_segs_max_le me segs ms ms Hle Hin). lia.
Qed.

(* position after one voice = end of its last element (what the voice switch relies on) *)
Lemma interp_position_end_lemma : forall l Os v pos mx s,
  durs_ok l -> ipos s = pos -> imax s = mx -> pos <= mx ->
  let N := tag_chords None (sort_notes l) in
  ipos (snd (interp (fst (fst (mwv v N Os pos pos mx))) s)) = snd (fst (mwv v N Os pos pos mx)).
Proof.
  intros l Os v pos mx s Hd Hp Hm Hle N.
  pose proof (mwv_interp N Os v pos pos mx s None) as HM.
  destruct (mwv v N Os pos pos mx) as [[es p] m]. simpl.
  destruct HM as (l1 & HM1 & HM2); try assumption.
  - apply tag_chords_ok. exact I.
  - apply nonneg_tag. eapply durs_ok_perm; [apply Permutation_sym, sort_notes_perm|assumption].
  - exact I.
  - rewrite HM1. reflexivity.
Qed.

(* ------------------------------------------------------------------ ties *)

Lemma fold_split_at b : forall r d,
  fold_left (fun a x => a + snd x) (split_at b r) d = fold_left (fun a x => a + snd x) r d.
Proof.
  induction r as [|[o d'] r IH]; intros d; simpl; [reflexivity|].
  destruct ((o <? b) && (b <? o + d')); simpl.
  - f_equal. lia.
  - apply IH.
Qed.

(* the sounding note of a tie chain (onset of the head, summed duration) does not change when a
   piece is split at a barline *)
Lemma sounding_merge_ties_lemma b c : chain_sound (split_at b c) = chain_sound c.
Proof.
  destruct c as [|[o d] r]; simpl; [reflexivity|].
  destruct ((o <? b) && (b <? o + d)); simpl.
  - f_equal. f_equal. f_equal. lia.
  - rewrite fold_split_at. reflexivity.
Qed.

(* ------------------------------------------------------------------ a non-trivial instance *)

(* two voices; voice 2 has a gap (4..8) and a grace note; voice 1 has a chord with unequal
   durations (the longer member is moved to voice 3) and a divisions change mid-measure *)
Definition ex_seg1 : list note * list other :=
  ([mkN 1 0 8 1 false (-480); mkN 2 0 4 1 false (-500); mkN 3 4 4 1 false (-480);
    mkN 4 0 4 2 false (-400); mkN 5 8 0 2 true 0; mkN 6 8 4 2 false (-410)],
   [mkO 0 1 (Some 4); mkO 6 2 None]).
Definition ex_seg2 : list note * list other :=
  ([mkN 7 12 6 1 false (-480)], [mkO 12 1 (Some 6)]).

Example ex_hypotheses : segs_ok [ex_seg1; ex_seg2].
Proof. repeat constructor; simpl; lia. Qed.

Example ex_linearize :
  lin_measure [ex_seg1; ex_seg2] 0 24 =
  [EDivisions 4; ENote 2 4 false false 1; ENote 3 4 false false 1;
   EBackup 2; EOther 2;
   EBackup 6; ENote 4 4 false false 2; EForward 4; ENote 5 0 false true 2; ENote 6 4 false false 2;
   EBackup 12; ENote 1 8 false false 3;
   EForward 4; EDivisions 6; ENote 7 6 false false 1; EForward 6].
Proof. vm_compute. reflexivity. Qed.

Lemma chord_tags_consistent_lemma : forall l, chord_ok None (tag_chords None l).
Proof. intros l. apply tag_chords_ok. exact I. Qed.

Lemma rvp_preserves_notes_lemma : forall ns,
  Permutation (flat_map snd (rvp (partition_voices ns))) ns.
Proof.
  intros ns. eapply Permutation_trans; [apply rvp_perm | apply partition_perm].
Qed.
