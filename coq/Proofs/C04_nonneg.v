(* C04 -- ticks are non-negative under each anacrusis behaviour (Model/C04.v). *)
From PV Require Import Lib.Base Lib.Round Model.C04 Proofs.C04.
From Coq Require Import QArith Qround Permutation Lqa.
#[local] Open Scope Z_scope.

Fixpoint qd_sorted (qd : list (Z * Z)) : Prop :=
  match qd with
  | [] => True
  | (t0, q0) :: r => 0 < q0 /\ match r with [] => True | (t1, _) :: _ => t0 <= t1 end /\ qd_sorted r
  end.

Lemma seg_nonneg a q : 0 <= a -> (0 <= seg a q)%Q.
Proof. intros H. unfold seg, Qle. cbn [Qnum Qden]. lia. Qed.

Lemma qraw_nonneg qd : qd_sorted qd -> forall t,
  match qd with (t0, _) :: _ => t0 <= t | [] => True end -> (0 <= qraw qd t)%Q.
Proof.
  induction qd as [|[t0 q0] r IH]; intros Hs t Ht; cbn [qraw]; [apply Qle_refl|].
  destruct Hs as (Hq & H1 & Hr). destruct r as [|[t1 q1] r'].
  - apply seg_nonneg. lia.
  - destruct (t <=? t1) eqn:E.
    + apply seg_nonneg. lia.
    + assert (A : (0 <= seg (t1 - t0) q0)%Q) by (apply seg_nonneg; lia).
      assert (B : (0 <= qraw ((t1, q1) :: r') t)%Q) by (apply IH; [exact Hr | lia]).
      lra.
Qed.

Lemma qraw_first qd : (match qd with (t0, _) :: _ => t0 = 0 | [] => True end) -> qd_sorted qd -> (qraw qd 0 == 0)%Q.
Proof.
  destruct qd as [|[t0 q0] r]; intros H0 Hs; cbn [qraw]; [reflexivity|]. subst t0.
  destruct Hs as (Hq & H1 & Hr). destruct r as [|[t1 q1] r'].
  - unfold seg, Qeq. cbn. reflexivity.
  - destruct (0 <=? t1) eqn:E; [|lia]. unfold seg, Qeq. cbn. reflexivity.
Qed.

Lemma Qle_bool_false a b : Qle_bool a b = false -> (b < a)%Q.
Proof.
  intros H. apply Qnot_le_lt. intros C. apply Qle_bool_iff in C. congruence.
Qed.

Lemma min_first_le ps p : In p ps -> (min_first ps <= q_first p)%Q.
Proof.
  induction ps as [|a r IH]; intros H; [contradiction|].
  destruct r as [|b r'].
  - destruct H as [->|[]]. apply Qle_refl.
  - change (min_first (a :: b :: r')) with (qmin (q_first a) (min_first (b :: r'))).
    unfold qmin. destruct (Qle_bool (q_first a) (min_first (b :: r'))) eqn:E.
    + apply Qle_bool_iff in E. destruct H as [->|H]; [apply Qle_refl|].
      specialize (IH H). lra.
    + apply Qle_bool_false in E. destruct H as [->|H]; [lra|]. apply IH. exact H.
Qed.

Lemma arg_first_eq m ps p : arg_first m ps = Some p -> (q_first p == m)%Q.
Proof.
  induction ps as [|a r IH]; cbn [arg_first]; [discriminate|].
  destruct (Qeq_bool (q_first a) m) eqn:E; intros H; [inversion H; subst; apply Qeq_bool_iff; exact E | auto].
Qed.

Lemma arg_first_total m ps p0 : In p0 ps -> (q_first p0 == m)%Q -> exists p', arg_first m ps = Some p'.
Proof.
  induction ps as [|a r IH]; intros Hin Hq; [contradiction|]. cbn [arg_first].
  destruct (Qeq_bool (q_first a) m) eqn:E; [eexists; reflexivity|].
  destruct Hin as [->|Hin]; [|apply IH; assumption].
  apply Qeq_bool_iff in Hq. congruence.
Qed.

Definition part_wf (p : part) : Prop :=
  qd_sorted (p_qd p) /\ (match p_qd p with (t0, _) :: _ => t0 = 0 | [] => True end) /\
  (match p_m1 p with Some (e, b, bt) => p_ts0 p = (b, bt) /\ 0 <= e | None => True end) /\
  0 < fst (p_ts0 p) /\ 0 < snd (p_ts0 p).

Lemma anac_bounds p : part_wf p ->
  (0 <= anac p)%Q /\ (anac p <= Qmake (4 * fst (p_ts0 p)) (Z.to_pos (snd (p_ts0 p))))%Q.
Proof.
  intros (Hs & H0 & Hm & Hb & Hbt). unfold anac.
  assert (N : (0 <= Qmake (4 * fst (p_ts0 p)) (Z.to_pos (snd (p_ts0 p))))%Q) by (unfold Qle; cbn [Qnum Qden]; lia).
  destruct (p_m1 p) as [[[e b] bt]|]; [|split; [apply Qle_refl | exact N]].
  destruct Hm as [Hts He]. rewrite Hts in *. cbn [fst snd] in *.
  unfold qlt. destruct (Qle_bool (Qmake (4 * b) (Z.to_pos bt)) (qraw (p_qd p) e)) eqn:E; cbn [negb].
  - split; [apply Qle_refl | exact N].
  - apply Qle_bool_false in E. split; [|lra].
    apply qraw_nonneg; [exact Hs|]. destruct (p_qd p) as [|[t0 q0] r]; [exact I | lia].
Qed.

Lemma q_first_eq p : part_wf p -> (q_first p == - anac p)%Q.
Proof.
  intros (Hs & H0 & _). unfold q_first, quarter. rewrite (qraw_first _ H0 Hs). ring.
Qed.

Lemma offset_nonneg an ps p t :
  (forall p, In p ps -> part_wf p) -> In p ps -> 0 <= t -> (0 <= quarter p t - ftp an ps)%Q.
Proof.
  intros Hwf Hin Ht.
  pose proof (Hwf p Hin) as Hp. pose proof (q_first_eq p Hp) as Hq.
  pose proof (min_first_le ps p Hin) as Hmin.
  assert (Hr : (0 <= qraw (p_qd p) t)%Q).
  { destruct Hp as (Hs & H0 & _). apply qraw_nonneg; [exact Hs|].
    destruct (p_qd p) as [|[t0 q0] r]; [exact I | lia]. }
  unfold ftp, quarter. unfold qlt.
  destruct (Qle_bool 0 (min_first ps)) eqn:E; cbn [negb].
  - apply Qle_bool_iff in E. lra.
  - apply Qle_bool_false in E. destruct (an =? 2).
    + destruct (arg_first (min_first ps) ps) as [p'|] eqn:A.
      * pose proof (arg_first_eq _ _ _ A) as Hq'. apply arg_first_in in A.
        pose proof (Hwf p' A) as Hp'. pose proof (q_first_eq p' Hp') as Hq2.
        destruct (anac_bounds p' Hp') as [_ Hb].
        destruct (p_ts0 p') as [b bt]. cbn [fst snd] in Hb. lra.
      * exfalso. assert (NE : ps <> []) by (intros ->; contradiction).
        destruct (min_first_in ps NE) as [p0 [Hin0 Hq0]].
        destruct (arg_first_total (min_first ps) ps p0 Hin0) as [p' Hp']; [rewrite Hq0; reflexivity | congruence].
    + lra.
Qed.

Lemma round_half_even_nonneg q : (0 <= q)%Q -> 0 <= round_half_even q.
Proof.
  intros H. assert (F : 0 <= Qfloor q).
  { change 0 with (Qfloor 0). apply Qfloor_resp_le. exact H. }
  unfold round_half_even. destruct (Qcompare _ _); [destruct (Z.even _)|..]; lia.
Qed.

(* ticks are non-negative under each of the three anacrusis behaviours *)
Theorem ticks_nonneg ppq an ps p t :
  0 <= ppq -> (forall p, In p ps -> part_wf p) -> In p ps -> 0 <= t ->
  0 <= tick ppq (ftp an ps) p t.
Proof.
  intros Hppq Hwf Hin Ht. unfold tick, tick_q. apply round_half_even_nonneg.
  apply Qmult_le_0_compat; [|apply offset_nonneg; assumption].
  unfold Qle, inject_Z. cbn. lia.
Qed.

(* the hypotheses are satisfiable: divisions 3 then 4, a one-quarter pickup in 4/4 *)
Example part_wf_example :
  let p := mkPart 1 1 [(0, 3); (15, 4)] (Some (3, 4, 4)) (4, 4) [(0, 3, 60, 1); (7, 2, 62, 1)] [(0, 4, 4)] [] [] in
  part_wf p /\ (anac p == 1)%Q /\ tick 12 (ftp 0 [p]) p 7 = 28 /\ tick 12 (ftp 2 [p]) p 7 = 64.
Proof.
  cbv zeta. split; [|split; [|split]]; try (vm_compute; reflexivity).
  unfold part_wf. cbn. repeat split; lia.
Qed.
