(* C19 -- proofs about the export -> load clause (Model/C19.v part 4). *)
From PV Require Import Lib.Base Model.C19 Proofs.C19.
From Coq Require Import QArith Qround Qfield Lqa.
#[local] Open Scope Z_scope.

(* ---------------------------------------------------------------- staff of a re-loaded note *)
Lemma imp_staff_own_lemma s ca en : imp_staff (Some s) ca en = s.
Proof. reflexivity. Qed.

Lemma imp_staff_omitted_lemma ca en :
  imp_staff None ca en = match ca with Some c => c | None => en end.
Proof. reflexivity. Qed.

Lemma export_staff_preserved_lemma s na ca en :
  na = Some s \/ (na = None /\ ca = Some s) \/ (na = None /\ ca = None /\ en = s) -> imp_staff na ca en = s.
Proof. intros [->|[[-> ->]|[-> [-> ->]]]]; reflexivity. Qed.

(* leaving @staff out because the note's staff equals the number of the enclosing LAYER (the voice number) is not
   sound: seeded change c_mei_chord_staff_vs_layer_n *)
Lemma export_staff_vs_layer_refuted_lemma :
  exists (s layer_n en : Z), s = layer_n /\ imp_staff None None en <> s.
Proof. exists 2, 2, 1. split; [reflexivity|]. vm_compute. discriminate. Qed.

(* ---------------------------------------------------------------- position from order vs original onsets *)
#[local] Open Scope Q_scope.

Lemma onsets_from_durs_layer_lemma mlen evs : forall t,
  map fst (layer_onsets mlen t evs) = onsets_from_durs t (map (ev_dur mlen) evs).
Proof. induction evs as [|e r IH]; intros t; simpl; [reflexivity|]. rewrite IH. reflexivity. Qed.

Lemma onsets_from_durs_eq ds : forall t t', t == t' -> Forall2 Qeq (onsets_from_durs t ds) (onsets_from_durs t' ds).
Proof.
  induction ds as [|d r IH]; intros t t' H; simpl; constructor; [assumption|].
  apply IH. rewrite H. reflexivity.
Qed.

Lemma Forall2_Qeq_trans a : forall b c, Forall2 Qeq a b -> Forall2 Qeq b c -> Forall2 Qeq a c.
Proof.
  induction a as [|x a IH]; intros b c H1 H2; inversion H1; subst; inversion H2; subst; constructor.
  - etransitivity; eassumption.
  - eapply IH; eassumption.
Qed.

Lemma Forall2_Qeq_sym a : forall b, Forall2 Qeq a b -> Forall2 Qeq b a.
Proof. induction a; intros b H; inversion H; subst; constructor; [symmetry; assumption|auto]. Qed.

(* re-deriving the onsets from the durations alone gives back the original onsets exactly when the voice has no hole *)
Lemma reload_onsets_iff_gapless_lemma rows : forall t,
  gapless t rows = true <-> Forall2 Qeq (map fst rows) (onsets_from_durs t (map snd rows)).
Proof.
  induction rows as [|[o d] r IH]; intros t; simpl.
  - split; [constructor|reflexivity].
  - split.
    + intros H. apply andb_true_iff in H. destruct H as [H1 H2]. apply Qeq_bool_iff in H1.
      constructor; [assumption|]. apply IH in H2.
      eapply Forall2_Qeq_trans; [exact H2|]. apply onsets_from_durs_eq. rewrite H1. reflexivity.
    + intros H. inversion H; subst. apply andb_true_iff. split; [apply Qeq_bool_iff; assumption|].
      apply IH. eapply Forall2_Qeq_trans; [eassumption|]. apply onsets_from_durs_eq. rewrite H3. reflexivity.
Qed.

(* a hole shifts what follows: if the second element starts later than the first ends, position-from-order misplaces it *)
Lemma hole_shifts_lemma t d o2 d2 r : ~ o2 == t + d ->
  ~ Forall2 Qeq (map fst ((t, d) :: (o2, d2) :: r)) (onsets_from_durs t (map snd ((t, d) :: (o2, d2) :: r))).
Proof. intros Hn H. simpl in H. inversion H; subst. inversion H5; subst. contradiction. Qed.

(* ---------------------------------------------------------------- durations survive the round trip *)
Lemma mei_roundtrip_duration_lemma (D t divs' : Z) e k :
  (0 < D)%Z -> (0 < divs')%Z -> (0 < e_val e)%Z -> (0 < e_num e)%Z -> e_grace e = false ->
  inject_Z t == inject_Z D * den_dur (e_val e) (e_dots e) (e_num e) (e_base e) ->
  mei_ticks divs' e = Some k ->
  inject_Z k / inject_Z divs' == inject_Z t / inject_Z D.
Proof.
  intros HD Hd Hv Hn Hg Ht Hk.
  pose proof (mei_ticks_exact_lemma divs' e k Hv Hn Hk) as H. rewrite Hg in H.
  rewrite H, Ht.
  pose proof (Qpos_neq _ (inject_Z_pos _ HD)). pose proof (Qpos_neq _ (inject_Z_pos _ Hd)).
  field. split; assumption.
Qed.

Lemma kern_roundtrip_duration_lemma (D t divs' v num base : Z) (d : nat) (k : Z) :
  (0 < D)%Z -> (0 < divs')%Z -> (0 < v)%Z -> (0 < num)%Z -> (0 < base)%Z ->
  inject_Z t == inject_Z D * den_dur v d num base ->
  kern_quarters (kern_recip v num base) d * inject_Z divs' == inject_Z k ->
  kern_ticks divs' (kern_recip v num base) d = k /\ inject_Z k / inject_Z divs' == inject_Z t / inject_Z D.
Proof.
  intros HD Hd Hv Hn Hb Ht Hk. split; [apply kern_ticks_exact_lemma; assumption|].
  rewrite <- Hk, Ht, kern_dur_denotes_lemma by assumption.
  pose proof (Qpos_neq _ (inject_Z_pos _ HD)). pose proof (Qpos_neq _ (inject_Z_pos _ Hd)).
  field. split; assumption.
Qed.

(* ---------------------------------------------------------------- examples *)
Example ex_gapless : gapless 0 [(0, 1 # 3); (1 # 3, 1 # 3); (2 # 3, 1 # 3); (1, 1)] = true
  /\ gapless 0 [(0, 1 # 3); (1 # 3, 1 # 3); (1, 1)] = false.
Proof. vm_compute. split; reflexivity. Qed.

(* dotted triplet eighth: 1/2 quarter = 6 of 12 divisions; re-loaded with 48 divisions it is 24 ticks = 1/2 quarter *)
Example ex_roundtrip : mei_ticks 48 (ex_note 8 1 3 2 false) = Some 24%Z
  /\ (inject_Z 6 == inject_Z 12 * den_dur 8 1 3 2).
Proof. vm_compute. split; reflexivity. Qed.

Example ex_imp_staff : imp_staff (Some 2%Z) None 1 = 2%Z /\ imp_staff None (Some 3%Z) 1 = 3%Z /\ imp_staff None None 1 = 1%Z.
Proof. vm_compute. repeat split; reflexivity. Qed.
