(* C13 -- proofs about the history machine of Model/C13_Hist.v *)
From Coq Require Import ZArith QArith List Bool Lia.
From PV Require Import Lib.Base Model.C13 Model.C13_Hist.
Import ListNotations.
#[local] Open Scope Z_scope.

Lemma pc_source_fold : forall p a, pc_source p a = option_map fold_idx (compute_pianoroll (pc_copts p) a).
Proof.
  intros p a. unfold pc_source, pc_copts.
  destruct (compute_pianoroll _ a); reflexivity.
Qed.

(* without the memo the machine never reads what it stored: the observations are hspec of the two arrays *)
Lemma hrun_spec_lemma : forall keq ops s, hrun keq false s ops = hspec (h_cur s) (h_other s) ops.
Proof.
  intros keq ops. induction ops as [|o r IH]; intros s; [reflexivity|].
  destruct o as [a| |c|p|k R]; cbn [hrun hstep hspec call_roll].
  - rewrite IH. reflexivity.
  - rewrite IH. reflexivity.
  - rewrite IH. reflexivity.
  - rewrite IH. cbn [h_cur h_other]. rewrite pc_source_fold. reflexivity.
  - rewrite IH. reflexivity.
Qed.

Lemma history_spec_lemma : forall keq a b ops, hrun keq false (hinit a b) ops = hspec a b ops.
Proof. intros. rewrite hrun_spec_lemma. reflexivity. Qed.

Lemma hspec_app_roll : forall ops cur other c,
  hspec cur other (ops ++ [HRoll c]) = hspec cur other ops ++ [compute_pianoroll c (hcur cur other ops)].
Proof.
  induction ops as [|o r IH]; intros cur other c; [reflexivity|].
  destruct o; cbn [app hspec hcur]; rewrite IH; reflexivity.
Qed.

Lemma history_last_lemma : forall keq a b ops c,
  last (hrun keq false (hinit a b) (ops ++ [HRoll c])) None = compute_pianoroll c (hcur a b ops).
Proof.
  intros. rewrite history_spec_lemma, hspec_app_roll. apply last_last.
Qed.

Lemma hspec_app_pc : forall ops cur other p,
  hspec cur other (ops ++ [HPc p]) = hspec cur other ops ++ [pc_source p (hcur cur other ops)].
Proof.
  induction ops as [|o r IH]; intros cur other p; [reflexivity|].
  destruct o; cbn [app hspec hcur]; rewrite IH; reflexivity.
Qed.

Lemma history_last_pc_lemma : forall keq a b ops p,
  last (hrun keq false (hinit a b) (ops ++ [HPc p])) None = pc_source p (hcur a b ops).
Proof.
  intros. rewrite history_spec_lemma, hspec_app_pc. apply last_last.
Qed.

(* ---- the memo variant is refuted by three short histories *)
Definition hx_arr (p : Z) : narr := ([UBeat], true, false, [(p, [(0 # 1, 1 # 1)%Q], 80, 0)]).
Definition hx_opts : copts := mkCopts None (Some 2) true (mkOpts 1 false false (-1) 0 false true None false).
Definition hx_pc : pcopts := mkPcopts false None (Some 2) false false 0 true None false.

(* call, edit the array in place (pitch 60 -> 72), call again with the same options: the stale roll comes back *)
Lemma memo_stale_lemma :
  let ops := [HRoll hx_opts; HSet (hx_arr 72); HRoll hx_opts] in
  hrun copts_eqb true (hinit (hx_arr 60) (hx_arr 60)) ops <> hspec (hx_arr 60) (hx_arr 60) ops
  /\ hrun copts_eqb false (hinit (hx_arr 60) (hx_arr 60)) ops = hspec (hx_arr 60) (hx_arr 60) ops.
Proof. split; [vm_compute; discriminate | vm_compute; reflexivity]. Qed.

(* call, the caller clears the object it got, call again: the cleared object comes back although the array is unchanged *)
Lemma memo_alias_lemma :
  let ops := [HRoll hx_opts; HWrite 0 None; HRoll hx_opts] in
  hrun copts_eqb true (hinit (hx_arr 60) (hx_arr 60)) ops <> hspec (hx_arr 60) (hx_arr 60) ops
  /\ hrun copts_eqb false (hinit (hx_arr 60) (hx_arr 60)) ops = hspec (hx_arr 60) (hx_arr 60) ops.
Proof. split; [vm_compute; discriminate | vm_compute; reflexivity]. Qed.

(* roll, pitch-class roll with the options it maps to, roll again: the index row of pitch 60 has become row 0 *)
Lemma memo_sibling_lemma :
  let ops := [HRoll (pc_copts hx_pc); HPc hx_pc; HRoll (pc_copts hx_pc)] in
  hrun copts_eqb true (hinit (hx_arr 60) (hx_arr 60)) ops <> hspec (hx_arr 60) (hx_arr 60) ops
  /\ hrun copts_eqb false (hinit (hx_arr 60) (hx_arr 60)) ops = hspec (hx_arr 60) (hx_arr 60) ops.
Proof. split; [vm_compute; discriminate | vm_compute; reflexivity]. Qed.
