(* C19 -- dispatch by extension (Model/C19_disp.v): the reader depends on the last extension only. *)
From PV Require Import Lib.Base Model.C19_disp.
From Coq Require Import Ascii String NArith.
#[local] Open Scope string_scope.

Lemma ext_scan_plain e : plain_name e = true -> forall seen cand, seen = true -> ext_scan seen cand e = cand.
Proof.
  induction e as [|c r IH]; intros H seen cand Hs; [reflexivity|].
  cbn [plain_name] in H. apply andb_true_iff in H. destruct H as [H Hr]. apply andb_true_iff in H. destruct H as [H1 H2].
  cbn [ext_scan]. destruct (Ascii.eqb c "/"); [discriminate|]. destruct (Ascii.eqb c "."); [discriminate|].
  apply IH; [assumption|reflexivity].
Qed.

(* the extension of  stem ++ "." ++ e  is  "." ++ e  whatever the stem holds (dots, other readers' extensions, slashes),
   provided the last path component of the stem has a character other than '.' and e has no '.' and no '/' *)
Lemma ext_scan_app e : plain_name e = true -> forall stem seen cand, scan_seen seen stem = true ->
  ext_scan seen cand (stem ++ String "." e) = String "." e.
Proof.
  intros He. induction stem as [|c r IH]; intros seen cand Hs.
  - cbn [scan_seen] in Hs. subst seen. cbn [append ext_scan]. cbn. apply ext_scan_plain; [assumption|reflexivity].
  - cbn [append ext_scan]. cbn [scan_seen] in Hs.
    destruct (Ascii.eqb c "/"); [apply IH; assumption|].
    destruct (Ascii.eqb c "."); apply IH; assumption.
Qed.

Lemma splitext_last_lemma stem e : plain_name e = true -> scan_seen false stem = true ->
  splitext_ext (stem ++ String "." e) = String "." e.
Proof. intros He Hs. unfold splitext_ext. apply ext_scan_app; assumption. Qed.

Lemma dispatch_last_extension_lemma stem e : plain_name e = true -> scan_seen false stem = true ->
  load_score_reader (stem ++ String "." e) = reader_of_ext (lower (String "." e)).
Proof. intros He Hs. unfold load_score_reader. rewrite splitext_last_lemma by assumption. reflexivity. Qed.

(* a name without an extension (no dot after a non-dot character of its last component) is rejected *)
Lemma ext_scan_none s : forall cand, plain_name s = true -> ext_scan false cand s = cand.
Proof.
  induction s as [|c r IH]; intros cand H; [reflexivity|].
  cbn [plain_name] in H. apply andb_true_iff in H. destruct H as [H Hr]. apply andb_true_iff in H. destruct H as [H1 H2].
  cbn [ext_scan]. destruct (Ascii.eqb c "/"); [discriminate|]. destruct (Ascii.eqb c "."); [discriminate|].
  apply ext_scan_plain; [assumption|reflexivity].
Qed.

Lemma hidden_name_rejected_lemma dir e : plain_name e = true ->
  load_score_reader (dir ++ String "/" (String "." e)) = None.
Proof.
  intros He. unfold load_score_reader, splitext_ext.
  assert (H : forall seen cand, ext_scan seen cand (dir ++ String "/" (String "." e)) = "").
  { induction dir as [|c r IH]; intros seen cand.
    - cbn [append ext_scan]. cbn. apply ext_scan_none. assumption.
    - cbn [append ext_scan]. destruct (Ascii.eqb c "/"); [apply IH|]. destruct (Ascii.eqb c "."); apply IH. }
  rewrite H. reflexivity.
Qed.

Lemma dispatch_mei_kern_lemma stem : scan_seen false stem = true ->
  load_score_reader (stem ++ ".mei") = Some RMei /\ load_score_reader (stem ++ ".krn") = Some RKern /\
  load_score_reader (stem ++ ".kern") = Some RKern /\ load_score_reader (stem ++ ".MEI") = Some RMei /\
  load_score_reader (stem ++ ".Krn") = Some RKern /\ load_score_reader (stem ++ ".txt") = None /\
  load_score_reader (stem ++ ".meix") = None.
Proof.
  intros H. repeat split; rewrite dispatch_last_extension_lemma by (assumption || reflexivity); reflexivity.
Qed.

(* examples: the hypotheses are satisfiable by names with dots, other readers' extensions and dotted directories *)
Example ex_dispatch :
  map load_score_reader ["/w/doc.mei"; "/w/doc.v2.mei"; "/w/a.krn/doc.xml.mei"; "/w/doc.mei.krn"; "/w/.mei"; "/w/a.mei/doc";
                         "/w/...krn"; "/w/x..KERN"; "/w/doc.mei.bak"; "/w/doc.mid"]
  = [Some RMei; Some RMei; Some RMei; Some RKern; None; None; None; Some RKern; None; Some RMidi].
Proof. vm_compute. reflexivity. Qed.

Example ex_scan_seen : scan_seen false "/w/a.krn/doc.xml" = true /\ scan_seen false "/w/.." = false.
Proof. split; reflexivity. Qed.
