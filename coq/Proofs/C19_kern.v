(* C19 -- proofs about Model/C19_kern.v: kern note tokens as text, the writer's tokens, placement on the timeline. *)
From PV Require Import Lib.Base Model.C19 Model.C19_kern Proofs.C19.
From Coq Require Import QArith Qround Ascii String NArith DecimalString DecimalN DecimalPos Decimal Lqa.
#[local] Open Scope Z_scope.
#[local] Open Scope string_scope.

(* ================================================================ strings *)
Lemma str_forall_app p a b : str_forall p (a ++ b) = str_forall p a && str_forall p b.
Proof. induction a as [|c a IH]; simpl; [reflexivity|]. rewrite IH, andb_assoc. reflexivity. Qed.

Lemma has_char_app c a b : has_char c (a ++ b) = has_char c a || has_char c b.
Proof. induction a as [|x a IH]; simpl; [reflexivity|]. rewrite IH, orb_assoc. reflexivity. Qed.

Lemma has_char_forall c p s : str_forall p s = true -> p c = false -> has_char c s = false.
Proof.
  induction s as [|x s IH]; simpl; intros H Hc; [reflexivity|].
  apply andb_true_iff in H. destruct H as [Hx Hs]. rewrite (IH Hs Hc), orb_false_r.
  destruct (Ascii.eqb c x) eqn:E; [|reflexivity]. apply Ascii.eqb_eq in E. subst. congruence.
Qed.

Definition stops (p : ascii -> bool) (s : string) : Prop :=
  match s with EmptyString => True | String c _ => p c = false end.

Lemma take_while_app p mid post : str_forall p mid = true -> stops p post -> take_while p (mid ++ post) = mid.
Proof.
  induction mid as [|c m IH]; simpl; intros H Hs.
  - destruct post as [|c r]; simpl in *; [reflexivity|]. rewrite Hs. reflexivity.
  - apply andb_true_iff in H. destruct H as [Hc Hm]. rewrite Hc, IH by assumption. reflexivity.
Qed.

(* the first maximal run of a class: what re.search("([class]+)") returns *)
Lemma first_run_app p pre mid post :
  str_forall (fun c => negb (p c)) pre = true -> mid <> "" -> str_forall p mid = true -> stops p post ->
  first_run p (pre ++ mid ++ post) = mid.
Proof.
  intros Hpre Hne Hmid Hpost. induction pre as [|c r IH]; simpl in *.
  - destruct mid as [|c m]; [congruence|]. simpl in *. apply andb_true_iff in Hmid. destruct Hmid as [Hc Hm].
    rewrite Hc, take_while_app by assumption. reflexivity.
  - apply andb_true_iff in Hpre. destruct Hpre as [Hc Hr]. apply negb_true_iff in Hc. rewrite Hc. apply IH. assumption.
Qed.

Lemma first_run_none p s : str_forall (fun c => negb (p c)) s = true -> first_run p s = "".
Proof.
  induction s as [|c r IH]; simpl; intros H; [reflexivity|].
  apply andb_true_iff in H. destruct H as [Hc Hr]. apply negb_true_iff in Hc. rewrite Hc. apply IH. assumption.
Qed.

Lemma str_forall_impl (p q : ascii -> bool) s : (forall c, p c = true -> q c = true) -> str_forall p s = true -> str_forall q s = true.
Proof.
  intros Hpq. induction s as [|c r IH]; simpl; intros H; [reflexivity|].
  apply andb_true_iff in H. destruct H as [Hc Hr]. rewrite (Hpq _ Hc), IH by assumption. reflexivity.
Qed.

Lemma str_forall_repeat p c n : p c = true -> str_forall p (repeat_char c n) = true.
Proof. intros H. induction n; simpl; [reflexivity|]. rewrite H, IHn. reflexivity. Qed.

Lemma count_char_app c a b : count_char c (a ++ b) = (count_char c a + count_char c b)%Z.
Proof. induction a as [|x a IH]; simpl; [reflexivity|]. rewrite IH. lia. Qed.

Lemma count_char_none c p s : str_forall p s = true -> p c = false -> count_char c s = 0%Z.
Proof.
  induction s as [|x s IH]; simpl; intros H Hc; [reflexivity|].
  apply andb_true_iff in H. destruct H as [Hx Hs]. rewrite (IH Hs Hc).
  destruct (Ascii.eqb c x) eqn:E; [|reflexivity]. apply Ascii.eqb_eq in E. subst. congruence.
Qed.

Lemma str_filter_app p a b : str_filter p (a ++ b) = str_filter p a ++ str_filter p b.
Proof. induction a as [|x a IH]; simpl; [reflexivity|]. rewrite IH. destruct (p x); reflexivity. Qed.

Lemma str_filter_all p s : str_forall p s = true -> str_filter p s = s.
Proof. induction s as [|x s IH]; simpl; intros H; [reflexivity|]. apply andb_true_iff in H. destruct H as [Hx Hs]. rewrite Hx, IH by assumption. reflexivity. Qed.

Lemma str_filter_none p c n : p c = false -> str_filter p (repeat_char c n) = "".
Proof. intros H. induction n; simpl; [reflexivity|]. rewrite H. assumption. Qed.

Lemma append_nil_r s : s ++ "" = s.
Proof. induction s; simpl; [reflexivity|]. rewrite IHs. reflexivity. Qed.

Lemma append_assoc a b c : (a ++ b) ++ c = a ++ (b ++ c).
Proof. induction a; simpl; [reflexivity|]. rewrite IHa. reflexivity. Qed.

(* ================================================================ character classes (by enumeration of the 256 characters) *)
Ltac ascii_cases c := destruct c as [[] [] [] [] [] [] [] []]; vm_compute; try reflexivity; try discriminate.

Lemma digit_not_pitch c : is_digit c = true -> is_pitch_char c = false.
Proof. ascii_cases c. Qed.
Lemma digit_is_dur c : is_digit c = true -> is_dur_char c = true.
Proof. ascii_cases c. Qed.
Lemma digit_not_dot c : is_digit c = true -> negb (Ascii.eqb c ".") = true.
Proof. ascii_cases c. Qed.
Lemma letter_is_pitch c x : letter_step c = Some x -> is_pitch_char c = true.
Proof. ascii_cases c. Qed.
Lemma letter_not_dur c x : letter_step c = Some x -> is_dur_char c = false.
Proof. ascii_cases c. Qed.
Lemma letter_not_acc c x : letter_step c = Some x -> is_acc_char c = false.
Proof. ascii_cases c. Qed.
Lemma letter_not_r c x : letter_step c = Some x -> Ascii.eqb "r" c = false.
Proof. ascii_cases c. Qed.
Lemma acc_is_pitch c : is_acc_char c = true -> is_pitch_char c = true.
Proof. ascii_cases c. Qed.

(* ================================================================ removing the accidental from the pitch *)
Lemma remove_skip sub s : remove_sub_aux sub (String.length s) s = "".
Proof. induction s as [|c r IH]; simpl; [reflexivity|assumption]. Qed.

Lemma prefix_refl s : String.prefix s s = true.
Proof. induction s as [|c r IH]; simpl; [reflexivity|]. destruct (ascii_dec c c); [assumption|congruence]. Qed.

Lemma remove_sub_suffix letters acc :
  str_forall (fun c => negb (is_acc_char c)) letters = true -> acc <> "" -> str_forall is_acc_char acc = true ->
  remove_sub acc (letters ++ acc) = letters.
Proof.
  intros Hl Hne Ha. unfold remove_sub. induction letters as [|c r IH].
  - destruct acc as [|a ar]; [congruence|]. cbn [append remove_sub_aux]. rewrite prefix_refl. cbn [String.eqb negb andb].
    cbn [String.length]. rewrite Nat.sub_succ, Nat.sub_0_r. apply remove_skip.
  - simpl in Hl. apply andb_true_iff in Hl. destruct Hl as [Hc Hr]. apply negb_true_iff in Hc.
    cbn [append remove_sub_aux]. destruct acc as [|a ar]; [congruence|].
    cbn [String.prefix]. destruct (ascii_dec a c) as [E|E].
    + subst. simpl in Ha. apply andb_true_iff in Ha. destruct Ha as [Ha _]. congruence.
    + cbn [andb]. rewrite IH by assumption. reflexivity.
Qed.

(* ================================================================ a note token: duration, dots, letters, accidental *)
Definition neutral (c : ascii) : bool := negb (is_pitch_char c) && negb (is_dur_char c).
Definition acc_alter (acc : string) : option Z :=
  if String.eqb acc "" then None else acc_value acc.

Lemma neutral_not_pitch s : str_forall neutral s = true -> str_forall (fun c => negb (is_pitch_char c)) s = true.
Proof. apply str_forall_impl. intros c H. apply andb_true_iff in H. tauto. Qed.
Lemma neutral_not_dur s : str_forall neutral s = true -> str_forall (fun c => negb (is_dur_char c)) s = true.
Proof. apply str_forall_impl. intros c H. apply andb_true_iff in H. tauto. Qed.

Lemma stops_neutral p s : (forall c, neutral c = true -> p c = false) -> str_forall neutral s = true -> stops p s.
Proof. intros Hp. destruct s as [|c r]; simpl; [trivial|]. intros H. apply andb_true_iff in H. destruct H as [H _]. apply Hp. assumption. Qed.

Lemma neutral_pitch_false c : neutral c = true -> is_pitch_char c = false.
Proof. unfold neutral. intros H. apply andb_true_iff in H. destruct H as [H _]. apply negb_true_iff in H. assumption. Qed.
Lemma neutral_dur_false c : neutral c = true -> is_dur_char c = false.
Proof. unfold neutral. intros H. apply andb_true_iff in H. destruct H as [_ H]. apply negb_true_iff in H. assumption. Qed.
Lemma neutral_acc_false c : neutral c = true -> is_acc_char c = false.
Proof.
  intros H. apply neutral_pitch_false in H. destruct (is_acc_char c) eqn:E; [|reflexivity].
  apply acc_is_pitch in E. congruence.
Qed.

Definition good_acc (acc : string) : Prop := In acc [""; "#"; "##"; "-"; "--"; "n"; "###"; "n#"; "n-"].

Lemma good_acc_chars acc : good_acc acc -> str_forall is_acc_char acc = true.
Proof. unfold good_acc. simpl. intros H. repeat (destruct H as [<-|H]; [reflexivity|]). destruct H. Qed.

Lemma digits_no_dot digits : str_forall is_digit digits = true -> str_forall (fun c => negb (Ascii.eqb c ".")) digits = true.
Proof. apply str_forall_impl. apply digit_not_dot. Qed.

Lemma count_dots_repeat n : count_char "." (repeat_char "." n) = Z.of_nat n.
Proof. apply count_repeat. Qed.

Lemma good_acc_value acc : good_acc acc -> acc <> "" -> exists z, acc_value acc = Some z.
Proof.
  unfold good_acc. simpl. intros H Hne.
  repeat (destruct H as [<-|H]; [try congruence; eexists; reflexivity|]). destruct H.
Qed.

Lemma neutral_neq_letter x c y : letter_step c = Some y -> neutral x = true -> Ascii.eqb x c = false.
Proof.
  intros Hc Hn. destruct (Ascii.eqb x c) eqn:E; [|reflexivity].
  apply Ascii.eqb_eq in E. subst x. apply letter_is_pitch in Hc. apply neutral_pitch_false in Hn. congruence.
Qed.

Section Token.
Variables (pre digits acc post : string) (nd k : nat) (c : ascii) (st : Z) (lower : bool).
Hypothesis Hpre : str_forall neutral pre = true.
Hypothesis Hpost : str_forall neutral post = true.
Hypothesis Hdne : digits <> "".
Hypothesis Hdig : str_forall is_digit digits = true.
Hypothesis Hc : letter_step c = Some (st, lower).
Hypothesis Hacc : good_acc acc.

Definition tk_letters := repeat_char c (S k).
Definition tk_dur := digits ++ repeat_char "." nd.
Definition tk_pitch := tk_letters ++ acc.
Definition tk_line := pre ++ tk_dur ++ tk_pitch ++ post.

Lemma token_dur_run : first_run is_dur_char tk_line = tk_dur.
Proof.
  unfold tk_line. apply first_run_app.
  - apply neutral_not_dur. assumption.
  - unfold tk_dur. destruct digits; [congruence|discriminate].
  - unfold tk_dur. rewrite str_forall_app. apply andb_true_iff. split.
    + eapply str_forall_impl; [apply digit_is_dur|assumption].
    + apply str_forall_repeat. reflexivity.
  - unfold tk_pitch, tk_letters. cbn [repeat_char append stops]. eapply letter_not_dur. eassumption.
Qed.

Lemma token_pitch_run : first_run is_pitch_char tk_line = tk_pitch.
Proof.
  unfold tk_line. rewrite <- append_assoc. apply first_run_app.
  - rewrite str_forall_app. apply andb_true_iff. split; [apply neutral_not_pitch; assumption|].
    unfold tk_dur. rewrite str_forall_app. apply andb_true_iff. split.
    + eapply str_forall_impl; [|exact Hdig]. intros x Hx. cbv beta. rewrite (digit_not_pitch _ Hx). reflexivity.
    + apply str_forall_repeat. reflexivity.
  - unfold tk_pitch, tk_letters. discriminate.
  - unfold tk_pitch. rewrite str_forall_app. apply andb_true_iff. split.
    + apply str_forall_repeat. eapply letter_is_pitch. eassumption.
    + eapply str_forall_impl; [apply acc_is_pitch|apply good_acc_chars; assumption].
  - apply stops_neutral; [apply neutral_pitch_false|assumption].
Qed.

Lemma letters_not_acc : str_forall (fun x => negb (is_acc_char x)) tk_letters = true.
Proof. apply str_forall_repeat. rewrite (letter_not_acc _ _ Hc). reflexivity. Qed.

Lemma token_acc_run : first_run is_acc_char tk_pitch = acc.
Proof.
  unfold tk_pitch. destruct (string_dec acc "") as [E|E].
  - rewrite E, append_nil_r. apply first_run_none. apply letters_not_acc.
  - rewrite <- (append_nil_r acc) at 1. apply first_run_app; [apply letters_not_acc|assumption|apply good_acc_chars; assumption|exact I].
Qed.

Lemma token_not_rest : String.prefix "r" tk_pitch = false.
Proof.
  unfold tk_pitch, tk_letters. cbn [repeat_char append String.prefix].
  destruct (ascii_dec "r" c) as [E|E]; [|reflexivity].
  subst c. vm_compute in Hc. discriminate.
Qed.

Lemma has_char_line x : neutral x = true -> Ascii.eqb x c = false -> has_char x tk_line = has_char x pre || has_char x post.
Proof.
  intros Hx Hxc. unfold tk_line. rewrite !has_char_app.
  assert (D : has_char x tk_dur = false).
  { unfold tk_dur. rewrite has_char_app.
    rewrite (has_char_forall x is_dur_char digits); [|eapply str_forall_impl; [apply digit_is_dur|assumption]|apply neutral_dur_false; assumption].
    rewrite (has_char_forall x is_dur_char (repeat_char "." nd)); [reflexivity|apply str_forall_repeat; reflexivity|apply neutral_dur_false; assumption]. }
  assert (P : has_char x tk_pitch = false).
  { unfold tk_pitch. rewrite has_char_app.
    rewrite (has_char_forall x is_pitch_char tk_letters); [|apply str_forall_repeat; eapply letter_is_pitch; eassumption|apply neutral_pitch_false; assumption].
    rewrite (has_char_forall x is_pitch_char acc); [reflexivity|eapply str_forall_impl; [apply acc_is_pitch|apply good_acc_chars; assumption]|apply neutral_pitch_false; assumption]. }
  rewrite D, P. cbn. reflexivity.
Qed.

Lemma kern_token_sound_lemma :
  parse_note_token tk_line =
  KT false (has_char "q" pre || has_char "q" post) (digits_value digits) nd
     (Some (st, if lower then (4 + Z.of_nat k)%Z else (3 - Z.of_nat k)%Z)) (Some (acc_alter acc))
     ((has_char "]" pre || has_char "]" post) || (has_char "_" pre || has_char "_" post)).
Proof.
  unfold parse_note_token. rewrite token_pitch_run, token_dur_run.
  assert (Hp : tk_pitch <> "") by (unfold tk_pitch, tk_letters; discriminate).
  assert (Hd : tk_dur <> "") by (unfold tk_dur; destruct digits; [congruence|discriminate]).
  destruct tk_pitch as [|p0 pr] eqn:Ep; [congruence|]. rewrite <- Ep.
  destruct tk_dur as [|d0 dr] eqn:Ed; [congruence|]. rewrite <- Ed.
  rewrite token_not_rest, token_acc_run.
  assert (Hq : forall x, neutral x = true -> Ascii.eqb x c = false -> has_char x tk_line = has_char x pre || has_char x post) by apply has_char_line.
  rewrite (Hq "q"%char), (Hq "]"%char), (Hq "_"%char); try reflexivity;
    try (eapply neutral_neq_letter; [eassumption|reflexivity]).
  assert (Hdots : Z.to_nat (count_char "." tk_dur) = nd).
  { unfold tk_dur. rewrite count_char_app, count_dots_repeat.
    rewrite (count_char_none "."%char is_digit digits) by (assumption || reflexivity). simpl. apply Nat2Z.id. }
  assert (Hval : str_filter (fun x => negb (Ascii.eqb x ".")) tk_dur = digits).
  { unfold tk_dur. rewrite str_filter_app, str_filter_all by (apply digits_no_dot; assumption).
    rewrite str_filter_none by reflexivity. apply append_nil_r. }
  rewrite Hdots, Hval.
  assert (Hlet : (match acc with "" => tk_pitch | String _ _ => remove_sub acc tk_pitch end) = tk_letters).
  { destruct acc as [|a0 ar] eqn:Ea.
    - unfold tk_pitch. rewrite Ea. apply append_nil_r.
    - rewrite <- Ea in *. unfold tk_pitch. apply remove_sub_suffix; [apply letters_not_acc|congruence|apply good_acc_chars; assumption]. }
  rewrite Hlet. unfold tk_letters. rewrite (kern_pitch_octave_lemma c st lower k Hc).
  f_equal. unfold acc_alter. destruct acc as [|a0 ar] eqn:Ea; [reflexivity|].
  cbn [String.eqb]. rewrite <- Ea in *.
  destruct (good_acc_value acc Hacc) as [z Hz]; [congruence|]. rewrite Hz. reflexivity.
Qed.

End Token.

(* a rest token *)
Lemma dur_dots digits nd : str_forall is_digit digits = true ->
  Z.to_nat (count_char "." (digits ++ repeat_char "." nd)) = nd.
Proof.
  intros Hdig. rewrite count_char_app, count_dots_repeat.
  rewrite (count_char_none "."%char is_digit digits) by (assumption || reflexivity). simpl. apply Nat2Z.id.
Qed.

Lemma dur_value digits nd : str_forall is_digit digits = true ->
  str_filter (fun x => negb (Ascii.eqb x ".")) (digits ++ repeat_char "." nd) = digits.
Proof.
  intros Hdig. rewrite str_filter_app, str_filter_all by (apply digits_no_dot; assumption).
  rewrite str_filter_none by reflexivity. apply append_nil_r.
Qed.

Lemma kern_rest_token_lemma pre digits post nd :
  str_forall neutral pre = true -> str_forall neutral post = true -> digits <> "" -> str_forall is_digit digits = true ->
  parse_note_token (pre ++ (digits ++ repeat_char "." nd) ++ "r" ++ post) =
  KT true (has_char "q" pre || has_char "q" post) (digits_value digits) nd None (Some None)
     ((has_char "]" pre || has_char "]" post) || (has_char "_" pre || has_char "_" post)).
Proof.
  intros Hpre Hpost Hne Hdig.
  assert (Hdne : digits ++ repeat_char "." nd <> "") by (destruct digits; [congruence|discriminate]).
  assert (Hd : first_run is_dur_char (pre ++ (digits ++ repeat_char "." nd) ++ "r" ++ post) = digits ++ repeat_char "." nd).
  { apply first_run_app; [apply neutral_not_dur; assumption|assumption| |reflexivity].
    rewrite str_forall_app. apply andb_true_iff. split;
      [eapply str_forall_impl; [apply digit_is_dur|assumption]|apply str_forall_repeat; reflexivity]. }
  assert (Hp : first_run is_pitch_char (pre ++ (digits ++ repeat_char "." nd) ++ "r" ++ post) = "r").
  { rewrite <- append_assoc. apply first_run_app; [| discriminate | reflexivity |].
    - rewrite str_forall_app. apply andb_true_iff. split; [apply neutral_not_pitch; assumption|].
      rewrite str_forall_app. apply andb_true_iff. split.
      + eapply str_forall_impl; [|exact Hdig]. intros x Hx. cbv beta. rewrite (digit_not_pitch _ Hx). reflexivity.
      + apply str_forall_repeat. reflexivity.
    - apply stops_neutral; [apply neutral_pitch_false|assumption]. }
  assert (Hq : forall x, neutral x = true ->
            has_char x (pre ++ (digits ++ repeat_char "." nd) ++ "r" ++ post) = has_char x pre || has_char x post).
  { intros x Hx. rewrite !has_char_app.
    rewrite (has_char_forall x is_dur_char digits); [|eapply str_forall_impl; [apply digit_is_dur|assumption]|apply neutral_dur_false; assumption].
    rewrite (has_char_forall x is_dur_char (repeat_char "." nd)); [|apply str_forall_repeat; reflexivity|apply neutral_dur_false; assumption].
    cbn [has_char orb]. destruct (Ascii.eqb x "r") eqn:E; [|reflexivity].
    apply Ascii.eqb_eq in E. subst x. discriminate. }
  unfold parse_note_token. rewrite Hp, Hd.
  rewrite (Hq "q"%char), (Hq "]"%char), (Hq "_"%char) by reflexivity.
  assert (M : (match digits ++ repeat_char "." nd with "" => "8" | String _ _ => digits ++ repeat_char "." nd end)
              = digits ++ repeat_char "." nd) by (destruct (digits ++ repeat_char "." nd); [congruence|reflexivity]).
  rewrite M, dur_dots, dur_value by assumption. reflexivity.
Qed.

(* ================================================================ the writer's token is read back *)
#[local] Open Scope Z_scope.

Lemma uint_digits d : str_forall is_digit (NilEmpty.string_of_uint d) = true.
Proof. induction d; simpl; try reflexivity; assumption. Qed.

Lemma pos_to_uint_nonnil p : Pos.to_uint p <> Nil.
Proof. apply DecimalPos.Unsigned.to_uint_nonnil. Qed.

Lemma print_Z_eq z : 0 <= z -> print_Z z = NilEmpty.string_of_uint (N.to_uint (Z.to_N z)) /\ N.to_uint (Z.to_N z) <> Nil.
Proof.
  intros Hz. unfold print_Z. destruct (Z.to_N z) as [|p] eqn:E.
  - split; [reflexivity|discriminate].
  - pose proof (pos_to_uint_nonnil p) as Hn. cbn [N.to_uint]. split; [|assumption].
    unfold NilZero.string_of_uint. destruct (Pos.to_uint p); [congruence|reflexivity..].
Qed.

Lemma print_Z_digits z : 0 <= z -> str_forall is_digit (print_Z z) = true.
Proof. intros Hz. destruct (print_Z_eq z Hz) as [-> _]. apply uint_digits. Qed.

Lemma string_of_uint_nonempty d : d <> Nil -> NilEmpty.string_of_uint d <> "".
Proof. destruct d; simpl; congruence. Qed.

Lemma print_Z_nonempty z : 0 <= z -> print_Z z <> "".
Proof. intros Hz. destruct (print_Z_eq z Hz) as [-> Hn]. apply string_of_uint_nonempty. assumption. Qed.

Lemma digits_value_print z : 0 <= z -> digits_value (print_Z z) = Some z.
Proof.
  intros Hz. pose proof (print_Z_nonempty z Hz) as Hne. destruct (print_Z_eq z Hz) as [E Hn].
  unfold digits_value. destruct (print_Z z) as [|c r] eqn:P; [congruence|]. rewrite E.
  rewrite NilEmpty.usu. cbn [option_map]. rewrite DecimalN.Unsigned.of_to. rewrite Z2N.id by assumption. reflexivity.
Qed.

Definition alter_ok (alter : option Z) : Prop := In alter [None; Some 0; Some 1; Some 2; Some (-1); Some (-2)].

Lemma step_letter_step st lower : 0 <= st <= 6 -> letter_step (step_letter st lower) = Some (st, lower).
Proof.
  intros H. assert (C : st = 0 \/ st = 1 \/ st = 2 \/ st = 3 \/ st = 4 \/ st = 5 \/ st = 6) by lia.
  destruct C as [->|[->|[->|[->|[->|[->| ->]]]]]]; destruct lower; reflexivity.
Qed.

Lemma write_letters_shape st oct :
  exists k, kern_write_letters st oct = repeat_char (step_letter st (4 <=? oct)) (S k)
            /\ (if 4 <=? oct then 4 + Z.of_nat k else 3 - Z.of_nat k) = oct.
Proof.
  unfold kern_write_letters. destruct (4 <=? oct) eqn:E.
  - exists (Z.to_nat (oct - 4)). split; [|lia]. replace (oct - 3) with (Z.succ (oct - 4)) by lia.
    rewrite Z2Nat.inj_succ by lia. reflexivity.
  - exists (Z.to_nat (3 - oct)). split; [|lia]. replace (4 - oct) with (Z.succ (3 - oct)) by lia.
    rewrite Z2Nat.inj_succ by lia. reflexivity.
Qed.

Definition written_recip (v a n : Z) : Z := if (a =? 0) || (n =? 0) then v else v * a / n.

(* READ BACK.  Whatever note save_kern writes -- any step, accidental, octave (the letter repeated as often as the
   octave demands), note value, number of dots, tuplet ratio with an integral reciprocal value, tie marks -- the token is
   parsed by load_kern's regular expressions to the same step, octave, accidental, reciprocal value, dots and tie. *)
Lemma write_parse_core st alter oct b dots tprev tnext :
  0 <= st <= 6 -> alter_ok alter -> 0 <= b ->
  parse_note_token ((print_Z b ++ repeat_char "." dots) ++ kern_write_pitch st alter oct ++ tie_mark tprev tnext)
  = KT false false (Some b) dots (Some (st, oct)) (Some alter) tprev.
Proof.
  intros Hst Halt Hb.
  destruct (write_letters_shape st oct) as [k [Hk Hoct]].
  unfold kern_write_pitch. rewrite Hk.
  pose proof (kern_token_sound_lemma "" (print_Z b) (acc_sign alter) (tie_mark tprev tnext) dots k
                (step_letter st (4 <=? oct)) st (4 <=? oct)) as T.
  unfold tk_line, tk_dur, tk_pitch, tk_letters in T. cbn [append] in T.
  rewrite !append_assoc in *.
  rewrite T; clear T.
  - rewrite digits_value_print by assumption. rewrite Hoct.
    assert (Hal : acc_alter (acc_sign alter) = alter).
    { unfold alter_ok in Halt. simpl in Halt. repeat (destruct Halt as [<-|Halt]; [reflexivity|]). destruct Halt. }
    rewrite Hal. destruct tprev, tnext; reflexivity.
  - reflexivity.
  - destruct tprev, tnext; reflexivity.
  - apply print_Z_nonempty. assumption.
  - apply print_Z_digits. assumption.
  - apply step_letter_step. assumption.
  - unfold alter_ok in Halt. simpl in Halt. unfold good_acc. simpl.
    repeat (destruct Halt as [<-|Halt]; [simpl; tauto|]). destruct Halt.
Qed.

Lemma kern_write_parse_lemma st alter oct v dots a n tprev tnext tok :
  0 <= st <= 6 -> alter_ok alter -> 0 < v -> 0 <= a -> 0 <= n ->
  kern_write_token st alter oct v dots a n tprev tnext = Some tok ->
  parse_note_token tok = KT false false (Some (written_recip v a n)) dots (Some (st, oct)) (Some alter) tprev.
Proof.
  intros Hst Halt Hv Ha Hn H. unfold kern_write_token, kern_write_dur in H. unfold written_recip.
  destruct ((a =? 0) || (n =? 0)) eqn:E.
  - cbn [option_map] in H. inversion H; subst tok. apply write_parse_core; try assumption. lia.
  - destruct ((v * a) mod n =? 0) eqn:M; [|simpl in H; discriminate].
    cbn [option_map] in H. inversion H; subst tok. apply write_parse_core; try assumption.
    apply orb_false_iff in E. destruct E as [E1 E2]. apply Z.div_pos; nia.
Qed.

(* ... and lasts what the written value denotes *)
Lemma kern_written_duration_lemma v dots a n : 0 < v -> 0 < a -> 0 < n -> (v * a) mod n = 0 ->
  (kern_quarters (inject_Z (written_recip v a n)) dots == den_dur v dots a n)%Q.
Proof.
  intros Hv Ha Hn Hm. unfold written_recip.
  replace ((a =? 0) || (n =? 0)) with false by (symmetry; apply orb_false_iff; split; apply Z.eqb_neq; lia).
  rewrite <- (kern_dur_denotes_lemma v a n dots) by assumption. unfold kern_recip.
  assert (E : (inject_Z (v * a / n) == inject_Z (v * a) / inject_Z n)%Q).
  { apply Z.mod_divide in Hm; [|lia]. destruct Hm as [q Hq]. rewrite Hq, Z.div_mul by lia.
    rewrite inject_Z_mult. field. apply Qpos_neq, inject_Z_pos. assumption. }
  unfold kern_quarters. 
  assert (Hpos : (0 < inject_Z (v * a / n))%Q).
  { rewrite E. apply Qlt_shift_div_l; [apply inject_Z_pos; assumption|]. rewrite Qmult_0_l. apply inject_Z_pos. nia. }
  rewrite !kern_dot_function_lemma; [rewrite E; reflexivity| |assumption].
  rewrite <- E. assumption.
Qed.

(* ================================================================ the written value guessed for a tuplet reciprocal value *)
Lemma pow2_below_pos fuel : forall b r, 0 < b -> 0 < pow2_below fuel b r.
Proof. induction fuel as [|f IH]; intros b r Hb; cbn [pow2_below]; [assumption|]. destruct (2 * b <? r); [apply IH; lia|assumption]. Qed.

(* the written value the loader gives a reciprocal value r -- a note value b with ratio a : n -- denotes the duration
   of r, for EVERY r: b * a / n = r (what the clause [symbolic] of the oracle observes, and what save_kern relies on) *)
Lemma kern_symbolic_denotes_lemma r b a n : 0 < r -> kern_symbolic r = (b, a, n) ->
  0 < b /\ ((a = 0 /\ n = 0 /\ b = r) \/ (0 < a /\ 0 < n /\ b * a = r * n)).
Proof.
  intros Hr. unfold kern_symbolic. destruct (is_pow2_value r).
  - intros H; inversion H; subst. split; [assumption|left; tauto].
  - set (p := pow2_below 8 1 r). assert (Hp : 0 < p) by (apply pow2_below_pos; lia).
    intros H; inversion H; subst; clear H. split; [assumption|right].
    set (g := Z.gcd r p).
    assert (Hg : 0 < g). { pose proof (Z.gcd_nonneg r p). assert (g <> 0) by (unfold g; intro E; apply Z.gcd_eq_0_l in E; lia). unfold g in *; lia. }
    destruct (Z.gcd_divide_l r p) as [x Hx]. destruct (Z.gcd_divide_r r p) as [y Hy]. fold g in Hx, Hy.
    clearbody g p.
    assert (Hrx : r / g = x) by (rewrite Hx; apply Z.div_mul; lia).
    assert (Hpy : p / g = y) by (rewrite Hy; apply Z.div_mul; lia).
    rewrite Hrx, Hpy. split; [nia|]. split; [nia|]. rewrite Hx, Hy. ring.
Qed.

(* the rule used before commit cd703a5 (value // 4 : base // 4) is wrong for the triplet quarter 6 *)
Definition old_kern_symbolic (r : Z) : Z * Z * Z := let b := pow2_below 8 1 r in (b, r / 4, b / 4).
Lemma kern_symbolic_old_rule_refuted_lemma : exists r b a n, old_kern_symbolic r = (b, a, n) /\ b * a <> r * n.
Proof. exists 6, 4, 1, 1. split; [reflexivity|lia]. Qed.

Example ex_kern_symbolic : map kern_symbolic [12; 6; 3; 10; 14; 20; 24; 8; 5] =
  [(8, 3, 2); (4, 3, 2); (2, 3, 2); (8, 5, 4); (8, 7, 4); (16, 5, 4); (16, 3, 2); (8, 0, 0); (4, 5, 4)].
Proof. vm_compute. reflexivity. Qed.

Example ex_parse_tokens :
  map parse_note_token ["[12.cc#L"; "(8.r)"; "4BB-_"; "16ccnq"; "cc4"; "[2.G##\"]%string =
  [KT false false (Some 12) 1 (Some (0, 5)) (Some (Some 1)) false;
   KT true false (Some 8) 1 None (Some None) false;
   KT false false (Some 4) 0 (Some (6, 2)) (Some (Some (-1))) true;
   KT false true (Some 16) 0 (Some (0, 5)) (Some (Some 0)) false;
   KT false false (Some 4) 0 (Some (0, 5)) (Some None) false;
   KT false false (Some 2) 1 (Some (4, 3)) (Some (Some 2)) false].
Proof. vm_compute. reflexivity. Qed.

Example ex_write_tokens :
  [kern_write_token 0 (Some 1) 5 8 1 3 2 false true; kern_write_token 6 (Some (-1)) 2 4 0 0 0 true true;
   kern_write_token 4 None 4 1 0 3 2 false false]
  = [Some "12.cc#["%string; Some "4BB-_"%string; None].
Proof. vm_compute. reflexivity. Qed.

(* ================================================================ placement on the timeline *)
From PV Require Import Model.C19_mei Proofs.C19_mei.

(* the positions a spine gets from the order of its own tokens alone *)
Fixpoint spine_own (divs : Z) (cells : list (Z * kcell)) (pos : Z) : list (Z * Z * Z) :=
  match cells with
  | [] => []
  | (line, KNote recip dots) :: r => let e := pos + kern_ticks divs recip dots in (line, pos, e) :: spine_own divs r e
  | (line, KGrace) :: r => (line, pos, pos) :: spine_own divs r pos
  | _ :: r => spine_own divs r pos
  end.

(* the table and the measure starts never contradict the spine: every position looked up for one of its lines, and
   the start of the measure a barline jumps to, is the position the spine has reached by its own durations *)
Fixpoint aligned (divs : Z) (same sub : bool) (mstarts : list Z) (cells : list (Z * kcell)) (pos : Z) (nbar : nat) (tbl : table) : Prop :=
  match cells with
  | [] => True
  | (line, c) :: r =>
      (if is_data c || (sub && is_ksplit c) then match tbl_get line tbl with Some p => p = pos | None => True end else True) /\
      let rec := if sub then tbl else (line, pos) :: tbl in
      match c with
      | KNote recip dots => aligned divs same sub mstarts r (pos + kern_ticks divs recip dots) nbar ((line, pos) :: tbl)
      | KGrace => aligned divs same sub mstarts r pos nbar ((line, pos) :: tbl)
      | KBar => if same then nth nbar mstarts pos = pos /\ aligned divs same sub mstarts r pos (S nbar) rec
                else aligned divs same sub mstarts r pos (S nbar) rec
      | KSplit | KTandem => aligned divs same sub mstarts r pos nbar rec
      end
  end.

Lemma spine_run_aligned_lemma divs same sub mstarts : forall cells pos nbar tbl,
  aligned divs same sub mstarts cells pos nbar tbl ->
  fst (fst (spine_run divs same sub mstarts cells pos nbar tbl)) = spine_own divs cells pos.
Proof.
  induction cells as [|[line c] r IH]; intros pos nbar tbl H; [reflexivity|].
  cbn [aligned] in H. destruct H as [Hl H]. cbn [spine_run spine_own].
  assert (Hp : (if is_data c || (sub && is_ksplit c) then match tbl_get line tbl with Some p => p | None => pos end else pos) = pos).
  { destruct (is_data c || (sub && is_ksplit c)); [|reflexivity]. destruct (tbl_get line tbl); [assumption|reflexivity]. }
  rewrite Hp. destruct c as [recip dots| | | |].
  - specialize (IH _ _ _ H). destruct (spine_run divs same sub mstarts r (pos + kern_ticks divs recip dots) nbar ((line, pos) :: tbl)) as [[rows ms] t'].
    cbn [fst] in *. rewrite IH. reflexivity.
  - specialize (IH _ _ _ H). destruct (spine_run divs same sub mstarts r pos nbar ((line, pos) :: tbl)) as [[rows ms] t'].
    cbn [fst] in *. rewrite IH. reflexivity.
  - destruct same.
    + destruct H as [Hm H]. rewrite Hm. apply IH. assumption.
    + specialize (IH _ _ _ H). destruct (spine_run divs false sub mstarts r pos (S nbar) (if sub then tbl else (line, pos) :: tbl)) as [[rows ms] t'].
      cbn [fst] in *. assumption.
  - apply IH; assumption.
  - apply IH; assumption.
Qed.

(* the spine that creates the part starts from an empty table: with one token per document line it is always aligned *)
Definition fresh (tbl : table) (cells : list (Z * kcell)) : Prop := forall l, In l (map fst cells) -> tbl_get l tbl = None.

Lemma first_spine_aligned divs mstarts : forall cells pos nbar tbl,
  NoDup (map fst cells) -> fresh tbl cells -> aligned divs false false mstarts cells pos nbar tbl.
Proof.
  induction cells as [|[line c] r IH]; intros pos nbar tbl Hnd Hf; [exact I|].
  cbn [map fst] in Hnd. inversion Hnd as [|? ? Hnot Hnd']; subst.
  cbn [aligned]. split.
  { destruct (is_data c || (false && is_ksplit c)); [|exact I]. rewrite (Hf line) by (left; reflexivity). exact I. }
  assert (Hf' : forall p, fresh ((line, p) :: tbl) r).
  { intros p l Hl. cbn [tbl_get]. destruct (line =? l) eqn:E.
    - apply Z.eqb_eq in E. subst. contradiction.
    - apply Hf. right. assumption. }
  destruct c; cbn; apply IH; auto.
Qed.

(* with exact divisions the positions are divs x the positions the notation denotes *)
Definition exact_cell (divs : Z) (c : Z * kcell) : Prop :=
  match snd c with
  | KNote recip dots => exists k : Z, (kern_quarters recip dots * inject_Z divs == inject_Z k)%Q
  | _ => True
  end.

Definition krow_rel (divs : Z) (row : Z * Z * Z) (den : Z * Q * Q) : Prop :=
  fst (fst row) = fst (fst den) /\ repr divs (snd (fst row)) (snd (fst den)) /\ repr divs (snd row - snd (fst row)) (snd den).

Lemma spine_own_denotes_lemma divs : forall cells pos t, Forall (exact_cell divs) cells -> repr divs pos t ->
  Forall2 (krow_rel divs) (spine_own divs cells pos) (spine_den cells t).
Proof.
  induction cells as [|[line c] r IH]; intros pos t Hex Hpos; [constructor|].
  inversion Hex as [|? ? Hc Hr]; subst. destruct c as [recip dots| | | |]; cbn [spine_own spine_den].
  - destruct Hc as [k Hk]. cbn [snd] in Hk. rewrite (kern_ticks_exact_lemma divs recip dots k Hk).
    assert (Hd : repr divs k (kern_quarters recip dots)) by (unfold repr; rewrite <- Hk; ring).
    constructor.
    + split; [reflexivity|]. split; [assumption|]. cbn [fst snd]. replace (pos + k - pos) with k by lia. assumption.
    + apply IH; [assumption|]. unfold repr in *. rewrite inject_Z_plus, Hpos, Hd. ring.
  - constructor.
    + split; [reflexivity|]. split; [assumption|]. cbn [fst snd]. replace (pos - pos) with 0 by lia. unfold repr. change (inject_Z 0) with 0%Q. ring.
    + apply IH; assumption.
  - apply IH; assumption.
  - apply IH; assumption.
  - apply IH; assumption.
Qed.

(* PLACEMENT.  The spine that creates a part (one token per document line), at divisions that represent its values
   exactly (kern_divs_exact), gets every note where the durations before it in the spine put it *)
Lemma kern_first_spine_lemma divs cells : NoDup (map fst cells) -> Forall (exact_cell divs) cells ->
  Forall2 (krow_rel divs) (fst (fst (spine_run divs false false [] cells 0 O []))) (spine_den cells 0%Q).
Proof.
  intros Hnd Hex. rewrite spine_run_aligned_lemma.
  - apply spine_own_denotes_lemma; [assumption|]. unfold repr. change (inject_Z 0) with 0%Q. ring.
  - apply first_spine_aligned; [assumption|]. intros l _. reflexivity.
Qed.

(* ... and so does every later spine of the part, as long as the table of line positions and the measure starts it
   inherits agree with its own durations (spines of a well-formed document are aligned line by line) *)
Lemma kern_later_spine_lemma divs sub mstarts tbl cells : aligned divs true sub mstarts cells 0 O tbl -> Forall (exact_cell divs) cells ->
  Forall2 (krow_rel divs) (fst (fst (spine_run divs true sub mstarts cells 0 O tbl))) (spine_den cells 0%Q).
Proof.
  intros Hal Hex. rewrite spine_run_aligned_lemma by assumption.
  apply spine_own_denotes_lemma; [assumption|]. unfold repr. change (inject_Z 0) with 0%Q. ring.
Qed.

(* examples: a part of two columns, the second a sub-spine that exists from the split in the middle of the first measure
   (while the first column's half note sounds on, with the clef change of another spine in between) to the merge *)
Definition ex_sp1 : list (Z * kcell) :=
  [(1, KTandem); (2, KBar); (3, KNote 4 0); (4, KSplit); (5, KNote 2 0); (6, KTandem); (8, KNote 4 0); (9, KTandem); (10, KBar);
   (11, KNote 1 0); (12, KBar)].
Definition ex_sp2 : list (Z * kcell) :=
  [(1, KTandem); (2, KBar); (4, KSplit); (5, KNote 4 0); (6, KTandem); (7, KGrace); (7, KNote 8 0); (8, KNote 12 0); (9, KTandem); (10, KBar); (12, KBar)].

Example ex_part_run : part_run 6 [(false, ex_sp1); (true, ex_sp2)] =
  ([[(3, 0, 6); (5, 6, 18); (8, 18, 24); (11, 24, 48)];
    [(5, 6, 12); (7, 12, 12); (7, 12, 15); (8, 18, 20)]], [0; 24; 48]).
Proof. vm_compute. reflexivity. Qed.

(* a table that contradicts the spine's own durations moves its notes: a note written on the line of another spine's
   note that starts elsewhere (or a table filled at other divisions: the class of seeded change a) *)
Lemma kern_misaligned_moves_lemma :
  exists divs tbl cells, fst (fst (spine_run divs true true [0] cells 0 O tbl)) <> spine_own divs cells 0.
Proof.
  exists 6, [(5, 3)], [(3, KNote 12 0); (4, KNote 12 0); (5, KNote 12 0)]. vm_compute. discriminate.
Qed.

(* the algorithm before commit 89ae5ce looked the table up on EVERY line: the position the first spine recorded for an
   interpretation line while its half note was sounding (its end, 18) displaced the second voice's next note (12) *)
Definition old_lookup_pos (tbl : table) (line pos : Z) : Z := match tbl_get line tbl with Some p => p | None => pos end.
Lemma kern_tandem_lookup_refuted_lemma :
  exists tbl line pos, tbl_get line tbl <> None /\ old_lookup_pos tbl line pos <> pos /\
    tbl = snd (spine_run 6 false false [] (firstn 6 ex_sp1) 0 O []) /\ line = 6 /\ pos = 12.
Proof.
  exists (snd (spine_run 6 false false [] (firstn 6 ex_sp1) 0 O [])), 6, 12. vm_compute.
  repeat split; try discriminate.
Qed.
