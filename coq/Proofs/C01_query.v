(* C01 -- query specifications (O2): iter_all, iter_next / iter_prev, first / last point, get_point. *)
From PV Require Import Lib.Base Gen.C01_ClassTree Model.C01 Model.C01_Spec
  Proofs.C01_lib Proofs.C01_tree.
From Coq Require Import Sorting.Sorted.

(* ---------------------------------------------------------------- slices of the timeline *)
Lemma SS_split t ps : StronglySorted Z.lt (map pt ps) ->
  StronglySorted Z.lt (map pt (before t ps)) /\ StronglySorted Z.lt (map pt (from t ps)).
Proof.
  intros S. rewrite <- (before_from t ps), map_app in S. apply SS_app_iff in S as [A [B _]]. auto.
Qed.

Lemma In_from t ps q : StronglySorted Z.lt (map pt ps) -> (In q (from t ps) <-> In q ps /\ t <= pt q).
Proof.
  intros S. pose proof (from_ge t ps S) as G. rewrite Forall_forall in G. split.
  - intros H. split; auto. rewrite <- (before_from t ps). apply in_app_iff; auto.
  - intros [H Ht]. rewrite <- (before_from t ps) in H. apply in_app_iff in H as [H|H]; auto.
    pose proof (before_lt t ps) as L. rewrite Forall_forall in L. specialize (L q H). lia.
Qed.

Lemma In_before t ps q : StronglySorted Z.lt (map pt ps) -> (In q (before t ps) <-> In q ps /\ pt q < t).
Proof.
  intros S. pose proof (before_lt t ps) as L. rewrite Forall_forall in L. split.
  - intros H. split; auto. rewrite <- (before_from t ps). apply in_app_iff; auto.
  - intros [H Ht]. rewrite <- (before_from t ps) in H. apply in_app_iff in H as [H|H]; auto.
    pose proof (from_ge t ps S) as G. rewrite Forall_forall in G. specialize (G q H). lia.
Qed.

Definition slice (a b : option Z) (ps : list point) := before_opt b (from_opt a ps).

Lemma slice_sorted a b ps : StronglySorted Z.lt (map pt ps) -> StronglySorted Z.lt (map pt (slice a b ps)).
Proof.
  intros S. unfold slice. assert (S1 : StronglySorted Z.lt (map pt (from_opt a ps))).
  { destruct a; simpl; auto. apply SS_split; auto. }
  destruct b; simpl; auto. apply SS_split; auto.
Qed.

Lemma In_slice a b ps q : StronglySorted Z.lt (map pt ps) ->
  (In q (slice a b ps) <-> In q ps /\ in_range a b (pt q)).
Proof.
  intros S. unfold slice, in_range.
  assert (S1 : StronglySorted Z.lt (map pt (from_opt a ps))).
  { destruct a; simpl; auto. apply SS_split; auto. }
  assert (A : In q (from_opt a ps) <-> In q ps /\ (forall x, a = Some x -> x <= pt q)).
  { destruct a as [x|]; simpl.
    - rewrite In_from by auto. split; intros [H1 H2]; split; auto. intros y E; inversion E; subst; auto.
    - split; [intros H; split; auto; intros; discriminate | tauto]. }
  destruct b as [y|]; simpl.
  - rewrite In_before by auto. rewrite A. split.
    + intros [[H1 H2] H3]. repeat split; auto. intros z E; inversion E; subst; auto.
    + intros [H1 [H2 H3]]. repeat split; auto.
  - rewrite A. split; [intros [H1 H2]; repeat split; auto; intros; discriminate | tauto].
Qed.

(* ---------------------------------------------------------------- one registry *)
Lemma by_cls_In c l o : In o (by_cls c l) <-> In o l /\ ocls o = c.
Proof. unfold by_cls. rewrite filter_In, Z.eqb_eq. tauto. Qed.

Lemma iter_reg_In l c sub o : In o (iter_reg l c sub) <-> In o l /\ cls_match c sub o.
Proof.
  unfold iter_reg, cls_match. destruct c as [c|]; [|tauto].
  rewrite in_app_iff, by_cls_In. destruct sub.
  - rewrite in_flat_map. split.
    + intros [[A B]|[d [Hd Ho]]]; [auto|]. apply by_cls_In in Ho as [A B]. subst d. auto.
    + intros [A [B|[_ B]]]; [auto|]. right. exists (ocls o). split; auto. apply by_cls_In; auto.
  - simpl. split; [intros [[A B]|[]]; auto | intros [A [B|[B _]]]; [auto|discriminate]].
Qed.

Lemma NoDup_app_intro {A} (l r : list A) :
  NoDup l -> NoDup r -> (forall x, In x l -> In x r -> False) -> NoDup (l ++ r).
Proof.
  induction l as [|a l IH]; simpl; intros Hl Hr D; auto.
  inversion Hl; subst. constructor.
  - rewrite in_app_iff. intros [H|H]; [auto|]. eapply D; eauto.
  - apply IH; auto. intros x Hx. apply D; auto.
Qed.

Lemma by_cls_flat_NoDup l ds : NoDup l -> NoDup ds -> NoDup (flat_map (fun d => by_cls d l) ds).
Proof.
  intros Hl. induction ds as [|d ds IH]; simpl; intros Hd; [constructor|].
  inversion Hd; subst. apply NoDup_app_intro; auto.
  - apply NoDup_filter; auto.
  - intros x Hx Hy. apply by_cls_In in Hx as [_ Ex]. apply in_flat_map in Hy as [d' [Hd' Hy]].
    apply by_cls_In in Hy as [_ Ey]. congruence.
Qed.

Lemma iter_reg_NoDup l c sub : NoDup l -> NoDup (iter_reg l c sub).
Proof.
  intros Hl. unfold iter_reg. destruct c as [c|]; auto.
  destruct (iter_subclasses_nodup c) as [N1 N2].
  apply NoDup_app_intro.
  - apply NoDup_filter; auto.
  - destruct sub; [apply by_cls_flat_NoDup; auto | constructor].
  - intros x Hx Hy. destruct sub; [|destruct Hy]. apply by_cls_In in Hx as [_ Ex].
    apply in_flat_map in Hy as [d [Hd Hy]]. apply by_cls_In in Hy as [_ Ey]. congruence.
Qed.

Lemma tagged_In s c sub q t o :
  In (t, o) (tagged s c sub q) <-> t = pt q /\ In o (preg s q) /\ cls_match c sub o.
Proof.
  unfold tagged. rewrite in_map_iff. split.
  - intros [x [E H]]. inversion E; subst. apply iter_reg_In in H. tauto.
  - intros [-> H]. exists o. split; auto. apply iter_reg_In; auto.
Qed.

Lemma tagged_fst s c sub q e : In e (tagged s c sub q) -> fst e = pt q.
Proof. unfold tagged. intros H. apply in_map_iff in H as [x [<- _]]. auto. Qed.

Lemma tagged_NoDup s c sub q : NoDup (preg s q) -> NoDup (tagged s c sub q).
Proof.
  intros H. unfold tagged. apply (iter_reg_NoDup _ c sub) in H. revert H.
  generalize (iter_reg (preg s q) c sub) as l. induction l as [|x l IH]; simpl; intros H; [constructor|].
  inversion H; subst. constructor; auto. rewrite in_map_iff. intros [y [E Hy]]. inversion E; subst. auto.
Qed.

(* ---------------------------------------------------------------- a run over consecutive points *)
Lemma flat_tagged_In s c sub qs t o :
  In (t, o) (flat_map (tagged s c sub) qs) <->
  exists q, In q qs /\ pt q = t /\ In o (preg s q) /\ cls_match c sub o.
Proof.
  rewrite in_flat_map. split.
  - intros [q [Hq H]]. apply tagged_In in H as [-> H]. eauto.
  - intros [q [Hq [E H]]]. exists q. split; auto. apply tagged_In. auto.
Qed.

Lemma flat_tagged_NoDup s c sub qs :
  StronglySorted Z.lt (map pt qs) -> Forall (fun q => NoDup (preg s q)) qs ->
  NoDup (flat_map (tagged s c sub) qs).
Proof.
  induction qs as [|q r IH]; simpl; intros S F; [constructor|].
  apply SS_cons_inv in S as [S1 S2]. inversion F; subst.
  apply NoDup_app_intro; auto.
  - apply tagged_NoDup; auto.
  - intros x Hx Hy. apply tagged_fst in Hx. apply in_flat_map in Hy as [q' [Hq' Hy]].
    apply tagged_fst in Hy. assert (pt q < pt q') by (apply S2; apply in_map; auto). lia.
Qed.

Lemma flat_tagged_sorted s c sub qs :
  StronglySorted Z.lt (map pt qs) -> StronglySorted Z.le (map fst (flat_map (tagged s c sub) qs)).
Proof.
  induction qs as [|q r IH]; simpl; intros S; [constructor|].
  apply SS_cons_inv in S as [S1 S2]. specialize (IH S1). rewrite map_app.
  assert (G : forall l : list (Z * obj), (forall e, In e l -> fst e = pt q) ->
              StronglySorted Z.le (map fst l ++ map fst (flat_map (tagged s c sub) r))).
  { induction l as [|e l IHl]; simpl; intros H; auto. constructor; [apply IHl; intros; apply H; auto|].
    apply Forall_forall. intros y Hy. rewrite (H e) by auto. apply in_app_iff in Hy as [Hy|Hy].
    - apply in_map_iff in Hy as [e' [<- He']]. rewrite (H e') by auto. lia.
    - apply in_map_iff in Hy as [e' [<- He']]. apply in_flat_map in He' as [q' [Hq' He']].
      apply tagged_fst in He'. rewrite He'. assert (pt q < pt q') by (apply S2; apply in_map; auto). lia. }
  apply G. intros e. apply tagged_fst.
Qed.

(* ---------------------------------------------------------------- iter_all (O2) *)
Lemma iter_all_spec_lemma p c a b sub mode : InvW p ->
  (forall t o, In (t, o) (iter_all p c a b sub mode) <->
               oref mode p o = Some t /\ in_range a b t /\ cls_match c sub o) /\
  NoDup (iter_all p c a b sub mode) /\
  StronglySorted Z.le (map fst (iter_all p c a b sub mode)).
Proof.
  intros I. pose proof (iw_sorted p I) as S. unfold iter_all. fold (slice a b (points p)).
  split; [|split].
  - intros t o. rewrite flat_tagged_In, (iw_reg p I), regs_In. split.
    + intros [q [Hq [E [Ho Hc]]]]. apply In_slice in Hq as [Hq Hr]; auto. subst t. repeat split; eauto; apply Hr.
    + intros [[q [Hq [E Ho]]] [Hr Hc]]. exists q. split; [apply In_slice; auto; subst; auto|auto].
  - apply flat_tagged_NoDup; [apply slice_sorted; auto|].
    apply Forall_forall. intros q Hq. apply In_slice in Hq as [Hq _]; auto.
    pose proof (iw_nodup p I) as N. rewrite Forall_forall in N. destruct (N q Hq). destruct mode; auto.
  - apply flat_tagged_sorted. apply slice_sorted; auto.
Qed.

(* ---------------------------------------------------------------- first / last / get_point *)
Lemma first_last_spec_lemma p : InvW p ->
  (points p = [] -> first_point p = None /\ last_point p = None) /\
  (forall q, In q (points p) ->
     exists f l, first_point p = Some f /\ last_point p = Some l /\ f <= pt q <= l /\
                 (exists qf, In qf (points p) /\ pt qf = f) /\ (exists ql, In ql (points p) /\ pt ql = l)).
Proof.
  intros I. pose proof (iw_sorted p I) as S. unfold first_point, last_point. split.
  - intros ->. auto.
  - revert S. generalize (points p) as ps. intros ps S q Hq.
    destruct ps as [|x r]; [destruct Hq|].
    destruct (last_opt_some x r) as [y Hy]. exists (pt x), (pt y). simpl hd_error. rewrite Hy. simpl.
    split; auto. split; auto.
    assert (Hyin : In y (x :: r)).
    { clear - Hy. revert x Hy. induction r as [|z r IH]; intros x Hy.
      - simpl in Hy. inversion Hy. left; auto.
      - rewrite last_opt_cons in Hy. right. apply IH. auto. }
    assert (Hlast : forall z, In z (x :: r) -> pt z <= pt y).
    { clear - S Hy. revert x S Hy. induction r as [|w r IH]; intros x S Hy z Hz.
      - simpl in Hy. inversion Hy; subst. destruct Hz as [->|[]]. lia.
      - rewrite last_opt_cons in Hy. simpl in S. apply SS_cons_inv in S as [S1 S2].
        destruct Hz as [->|Hz]; [|eapply IH; eauto].
        assert (pt z < pt w) by (apply S2; left; auto).
        assert (pt w <= pt y) by (eapply IH; eauto; left; auto). lia. }
    split; [|split; eauto; exists x; split; auto; left; auto].
    split; [|apply Hlast; auto].
    simpl in S. apply SS_cons_inv in S as [_ S2]. destruct Hq as [->|Hq]; [lia|].
    assert (pt x < pt q) by (apply S2; apply in_map; auto). lia.
Qed.

Lemma get_point_spec_lemma p t : InvW p ->
  match get_point t (points p) with
  | Some q => In q (points p) /\ pt q = t
  | None => forall q, In q (points p) -> pt q <> t
  end.
Proof.
  intros I. pose proof (iw_sorted p I) as S. destruct (get_point t (points p)) as [q|] eqn:G.
  - apply get_point_Some; auto.
  - intros q Hq E. subst t. rewrite (get_point_member _ q S Hq) in G. discriminate.
Qed.

(* ---------------------------------------------------------------- iter_next / iter_prev (O2) *)
Lemma from_all_ge t ps : Forall (fun q => t <= pt q) ps -> from t ps = ps.
Proof. destruct ps as [|p r]; simpl; auto. intros F. inversion F; subst. assert (E : pt p <? t = false) by lia. rewrite E. auto. Qed.

Lemma before_all_ge t ps : Forall (fun q => t <= pt q) ps -> before t ps = [].
Proof. destruct ps as [|p r]; simpl; auto. intros F. inversion F; subst. assert (E : pt p <? t = false) by lia. rewrite E. auto. Qed.

Lemma split_succ ps q0 r : StronglySorted Z.lt (map pt ps) -> from (pt q0) ps = q0 :: r ->
  from (pt q0 + 1) ps = r /\ before (pt q0 + 1) ps = before (pt q0) ps ++ [q0].
Proof.
  induction ps as [|p ps IH]; simpl; intros S H; [discriminate|].
  apply SS_cons_inv in S as [S1 S2].
  destruct (pt p <? pt q0) eqn:E.
  - assert (E' : pt p <? pt q0 + 1 = true) by lia. rewrite E'. destruct (IH S1 H) as [A B]. rewrite A, B. auto.
  - inversion H; subst. assert (E' : pt q0 <? pt q0 + 1 = true) by lia. rewrite E'.
    assert (F : Forall (fun q => pt q0 + 1 <= pt q) r).
    { apply Forall_forall. intros x Hx. assert (pt q0 < pt x) by (apply S2; apply in_map; auto). lia. }
    rewrite from_all_ge, before_all_ge by auto. auto.
Qed.

Lemma follow_next ps : StronglySorted Z.lt (map pt ps) -> forall r l a fuel,
  ps = l ++ r -> chain a ps None -> (List.length r < fuel)%nat -> follow pnext fuel ps (hdt r None) = r.
Proof.
  intros S. induction r as [|q r IH]; intros l a fuel E C Hf.
  - destruct fuel; simpl; auto.
  - destruct fuel as [|f]; [simpl in Hf; lia|]. simpl.
    assert (Hq : In q ps) by (rewrite E; apply in_app_iff; right; left; auto).
    rewrite (find_pt_member ps q S Hq). f_equal.
    assert (N : pnext q = hdt r None).
    { rewrite E in C. apply chain_app in C as [_ C]. simpl in C. tauto. }
    rewrite N. apply (IH (l ++ [q]) a); auto.
    + rewrite <- app_assoc. auto.
    + simpl in Hf. lia.
Qed.

Lemma lastt_snoc l q a : lastt (l ++ [q]) a = Some (pt q).
Proof.
  revert a. induction l as [|x l IH]; intros a; [reflexivity|].
  change ((x :: l) ++ [q]) with (x :: (l ++ [q])). rewrite lastt_cons. apply IH.
Qed.

Lemma follow_prev ps : StronglySorted Z.lt (map pt ps) -> forall l r b fuel,
  ps = l ++ r -> chain None ps b -> (List.length l < fuel)%nat -> follow pprev fuel ps (lastt l None) = rev l.
Proof.
  intros S. induction l as [|q l IH] using rev_ind; intros r b fuel E C Hf.
  - destruct fuel; simpl; auto.
  - destruct fuel as [|f]; [rewrite app_length in Hf; simpl in Hf; lia|].
    rewrite lastt_snoc, rev_unit. simpl.
    assert (Hq : In q ps) by (rewrite E; apply in_app_iff; left; apply in_app_iff; right; left; auto).
    rewrite (find_pt_member ps q S Hq). f_equal.
    assert (N : pprev q = lastt l None).
    { rewrite E, <- app_assoc in C. apply chain_app in C as [_ C]. simpl in C. tauto. }
    rewrite N. apply (IH ([q] ++ r) b); auto.
    + rewrite E, <- app_assoc. auto.
    + rewrite app_length in Hf. simpl in Hf. lia.
Qed.

(* iter_next from the point at t = iter_all from t (eq) or from just after t, to the end *)
Lemma iter_next_spec_lemma p t c eq sub : InvW p -> (exists q, In q (points p) /\ pt q = t) ->
  iter_next p t c eq sub = iter_all p c (Some (if eq then t else t + 1)) None sub SStart.
Proof.
  intros I [q0 [Hq0 <-]]. pose proof (iw_sorted p I) as Srt. pose proof (iw_links p I) as C.
  unfold iter_next, iter_link, iter_all. simpl before_opt. simpl from_opt.
  rewrite (find_pt_member _ q0 Srt Hq0). f_equal.
  destruct (from_member _ q0 Srt Hq0) as [r Hr].
  assert (E : points p = before (pt q0) (points p) ++ q0 :: r) by (rewrite <- Hr; symmetry; apply before_from).
  assert (Len : List.length (points p) = (List.length (before (pt q0) (points p)) + S (List.length r))%nat).
  { rewrite E at 1. rewrite app_length. auto. }
  assert (L : (List.length (q0 :: r) < S (List.length (points p)))%nat) by (simpl; lia).
  destruct eq.
  - rewrite Hr. change (Some (pt q0)) with (hdt (q0 :: r) None).
    eapply follow_next; eauto.
  - destruct (split_succ _ q0 r Srt Hr) as [-> _].
    assert (N : pnext q0 = hdt r None).
    { rewrite E in C. apply chain_app in C as [_ C]. simpl in C. tauto. }
    rewrite N. apply (follow_next _ Srt r (before (pt q0) (points p) ++ [q0]) None); auto.
    + rewrite <- app_assoc. auto.
    + simpl in L. lia.
Qed.

(* iter_prev from the point at t visits, backwards, the points iter_all(end = t or t+1) visits *)
Lemma iter_prev_spec_lemma p t c eq sub : InvW p -> (exists q, In q (points p) /\ pt q = t) ->
  iter_prev p t c eq sub =
  flat_map (tagged SStart c sub) (rev (before (if eq then t + 1 else t) (points p))).
Proof.
  intros I [q0 [Hq0 <-]]. pose proof (iw_sorted p I) as Srt. pose proof (iw_links p I) as C.
  unfold iter_prev, iter_link. rewrite (find_pt_member _ q0 Srt Hq0). f_equal.
  destruct (from_member _ q0 Srt Hq0) as [r Hr].
  assert (E : points p = before (pt q0) (points p) ++ q0 :: r) by (rewrite <- Hr; symmetry; apply before_from).
  assert (Len : List.length (points p) = (List.length (before (pt q0) (points p)) + S (List.length r))%nat).
  { rewrite E at 1. rewrite app_length. auto. }
  set (l := before (pt q0) (points p)) in *.
  assert (L : (List.length (l ++ [q0]) < S (List.length (points p)))%nat).
  { rewrite app_length. simpl. lia. }
  destruct eq.
  - destruct (split_succ _ q0 r Srt Hr) as [_ ->]. fold l.
    rewrite <- (lastt_snoc l q0 None). apply (follow_prev _ Srt (l ++ [q0]) r None); auto.
    rewrite <- app_assoc. auto.
  - assert (N : pprev q0 = lastt l None).
    { rewrite E in C. apply chain_app in C as [_ C]. simpl in C. tauto. }
    rewrite N. apply (follow_prev _ Srt l (q0 :: r) None); auto.
    rewrite app_length in L. simpl in L. lia.
Qed.

(* ---------------------------------------------------------------- iter_next / iter_prev, stated as iter_all is *)
Lemma iter_next_exact_lemma p t c eq sub : InvW p -> (exists q, In q (points p) /\ pt q = t) ->
  (forall t' o, In (t', o) (iter_next p t c eq sub) <->
                ostart p o = Some t' /\ (if eq then t <= t' else t < t') /\ cls_match c sub o) /\
  NoDup (iter_next p t c eq sub) /\
  StronglySorted Z.le (map fst (iter_next p t c eq sub)).
Proof.
  intros I Hq. rewrite (iter_next_spec_lemma p t c eq sub I Hq).
  destruct (iter_all_spec_lemma p c (Some (if eq then t else t + 1)) None sub SStart I) as [A [B C]].
  split; [|split; auto].
  intros t' o. rewrite A. simpl oref. unfold in_range. split.
  - intros [H1 [[H2 _] H3]]. split; auto. split; auto. specialize (H2 _ eq_refl). destruct eq; lia.
  - intros [H1 [H2 H3]]. split; auto. split; auto. split; [|intros; discriminate].
    intros x E. inversion E; subst. destruct eq; lia.
Qed.

Lemma SS_lt_NoDup l : StronglySorted Z.lt l -> NoDup l.
Proof.
  induction l as [|a l IH]; intros S; [constructor|]. apply SS_cons_inv in S as [S1 S2].
  constructor; auto. intros H. specialize (S2 a H). lia.
Qed.

Lemma flat_tagged_NoDup_gen s c sub qs :
  NoDup (map pt qs) -> Forall (fun q => NoDup (preg s q)) qs -> NoDup (flat_map (tagged s c sub) qs).
Proof.
  induction qs as [|q r IH]; simpl; intros S F; [constructor|].
  inversion S; subst. inversion F; subst.
  apply NoDup_app_intro; auto.
  - apply tagged_NoDup; auto.
  - intros x Hx Hy. apply tagged_fst in Hx. apply in_flat_map in Hy as [q' [Hq' Hy]].
    apply tagged_fst in Hy. apply H1. rewrite <- Hx, Hy. apply in_map; auto.
Qed.

(* the times of the objects of one point are all that point's time, so reversing the order of the points
   reverses the sequence of times *)
Lemma rev_repeat_Z (a : Z) n : rev (repeat a n) = repeat a n.
Proof.
  induction n as [|n IH]; simpl; auto. rewrite IH. clear IH.
  induction n as [|n IH]; simpl; auto. rewrite IH. auto.
Qed.

Lemma map_fst_tagged s c sub q : map fst (tagged s c sub q) = repeat (pt q) (List.length (iter_reg (preg s q) c sub)).
Proof. unfold tagged. rewrite map_map. simpl. induction (iter_reg (preg s q) c sub); simpl; congruence. Qed.

Lemma times_flat_rev s c sub qs :
  map fst (flat_map (tagged s c sub) (rev qs)) = rev (map fst (flat_map (tagged s c sub) qs)).
Proof.
  induction qs as [|q r IH]; simpl; auto.
  rewrite flat_map_app, !map_app, rev_app_distr, IH. simpl. rewrite app_nil_r.
  rewrite map_fst_tagged, rev_repeat_Z. auto.
Qed.

Lemma SS_snoc (R : Z -> Z -> Prop) l a : StronglySorted R l -> Forall (fun x => R x a) l -> StronglySorted R (l ++ [a]).
Proof.
  induction l as [|y l IH]; simpl; intros S F; [repeat constructor|].
  inversion S; subst. inversion F; subst. constructor; auto.
  apply Forall_app. split; auto.
Qed.

Lemma SS_le_rev_ge l : StronglySorted Z.le l -> StronglySorted Z.ge (rev l).
Proof.
  induction l as [|a l IH]; intros S; [constructor|]. inversion S; subst. simpl.
  apply SS_snoc; auto. apply Forall_forall. intros x Hx. apply in_rev in Hx.
  rewrite Forall_forall in H2. specialize (H2 x Hx). lia.
Qed.

(* iter_prev: precisely the matching objects registered (by start) before t -- or at t when eq --,
   each once, in DESCENDING time order *)
Lemma iter_prev_exact_lemma p t c eq sub : InvW p -> (exists q, In q (points p) /\ pt q = t) ->
  (forall t' o, In (t', o) (iter_prev p t c eq sub) <->
                ostart p o = Some t' /\ (if eq then t' <= t else t' < t) /\ cls_match c sub o) /\
  NoDup (iter_prev p t c eq sub) /\
  StronglySorted Z.ge (map fst (iter_prev p t c eq sub)).
Proof.
  intros I Hq. rewrite (iter_prev_spec_lemma p t c eq sub I Hq).
  pose proof (iw_sorted p I) as S. set (x := if eq then t + 1 else t).
  destruct (SS_split x (points p) S) as [Sb _].
  split; [|split].
  - intros t' o. rewrite flat_tagged_In. change (ostart p o) with (oref SStart p o).
    rewrite (iw_reg p I), regs_In. split.
    + intros [q [Hin [E [Ho Hc]]]]. apply in_rev in Hin. apply In_before in Hin as [Hin Hlt]; auto.
      split; [eauto|]. split; auto. subst t'. unfold x in Hlt. destruct eq; lia.
    + intros [[q [Hin [E Ho]]] [Hr Hc]]. exists q. split; [|auto]. apply -> in_rev. apply In_before; auto.
      split; auto. unfold x. subst t'. destruct eq; lia.
  - apply flat_tagged_NoDup_gen.
    + rewrite map_rev. apply NoDup_rev. apply SS_lt_NoDup. auto.
    + apply Forall_forall. intros q Hin. apply in_rev in Hin. apply In_before in Hin as [Hin _]; auto.
      pose proof (iw_nodup p I) as N. rewrite Forall_forall in N. destruct (N q Hin). auto.
  - rewrite times_flat_rev. apply SS_le_rev_ge. apply flat_tagged_sorted. auto.
Qed.

(* what "matching class" means, read off the class tree: type(o) is c, or (include_subclasses) issubclass *)
Lemma cls_match_isinstance_lemma c o : valid_cls c ->
  (cls_match (Some c) true o <-> ocls o = c \/ strict_descendant (ocls o) c) /\
  (cls_match (Some c) false o <-> ocls o = c) /\
  cls_match None false o.
Proof.
  intros Hc. destruct (subclasses_closed_lemma c Hc) as [_ [B _]]. unfold cls_match. split; [|split; [|exact I]].
  - rewrite B. tauto.
  - split; [intros [H|[H _]]; [auto|discriminate] | auto].
Qed.
