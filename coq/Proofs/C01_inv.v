(* C01 -- every operation on valid arguments succeeds, preserves the invariant and refines the
   abstract specification. *)
From PV Require Import Lib.Base Gen.C01_ClassTree Model.C01 Model.C01_Spec Proofs.C01_lib Proofs.C01_points Proofs.C01_qd.
From Coq Require Import Sorting.Sorted.

Lemma side_eq_dec (a b : side) : {a = b} + {a <> b}.
Proof. decide equality. Qed.

Lemma InvW_PInv p : InvW p -> PInv (qtab p) (points p).
Proof. intros [H1 H2 H3 H4 H5 H6 H7]. split; auto. Qed.

Lemma mk_InvW' p :
  PInv (qtab p) (points p) ->
  (forall s o t, oref s p o = Some t <-> In (t, o) (regs s (points p))) ->
  qtab_ok (qtab p) -> InvW p.
Proof. intros [H1 H2 H3 H4 H5] R Q. split; auto. Qed.

(* set_oref projections *)
Lemma points_set_oref s f ps p : points (set_oref s f ps p) = ps. Proof. destruct s; auto. Qed.
Lemma qtab_set_oref s f ps p : qtab (set_oref s f ps p) = qtab p. Proof. destruct s; auto. Qed.
Lemma oref_set_oref_same s f ps p : oref s (set_oref s f ps p) = f. Proof. destruct s; auto. Qed.
Lemma oref_set_oref_other s s' f ps p : s' <> s -> oref s' (set_oref s f ps p) = oref s' p.
Proof. destruct s, s'; auto; congruence. Qed.

Lemma set_preg_fields s l q :
  pt (set_preg s l q) = pt q /\ pq (set_preg s l q) = pq q /\
  pprev (set_preg s l q) = pprev q /\ pnext (set_preg s l q) = pnext q.
Proof. destruct s; auto. Qed.

Lemma Forall_map_impl {A} (P Q : A -> Prop) (g : A -> A) l :
  (forall x, In x l -> P x -> Q (g x)) -> Forall P l -> Forall Q (map g l).
Proof.
  intros H F. apply Forall_forall. intros y Hy. apply in_map_iff in Hy as [x [<- Hx]].
  rewrite Forall_forall in F. auto.
Qed.

Lemma map_PInv tab tab' g ps :
  (forall q, pt (g q) = pt q /\ pprev (g q) = pprev q /\ pnext (g q) = pnext q) ->
  (forall q, NoDup (pstart q) /\ NoDup (pend q) -> NoDup (pstart (g q)) /\ NoDup (pend (g q))) ->
  (forall q, In q ps -> 0 <= pt q -> pq q = qd_at tab (pt q) -> pq (g q) = qd_at tab' (pt q)) ->
  PInv tab ps -> PInv tab' (map g ps).
Proof.
  intros Hg Hn Hq [H1 H2 H3 H4 H5]. split.
  - eapply Forall_map_impl; [|exact H1]. intros x _ Hx. simpl in *. destruct (Hg x) as [-> _]. auto.
  - rewrite map_map. erewrite map_ext; [exact H2|]. intros x. apply Hg.
  - apply chain_map; auto.
  - eapply Forall_map_impl; [|exact H4]. intros x _ Hx. auto.
  - assert (F : Forall (fun q => 0 <= pt q /\ pq q = qd_at tab (pt q)) ps).
    { apply Forall_forall. intros x Hx. rewrite Forall_forall in H1, H5. auto. }
    eapply Forall_map_impl; [|exact F]. intros x Hx [A B]. simpl. destruct (Hg x) as [-> _]. auto.
Qed.

Lemma upd_at_PInv tab t f ps :
  (forall q, pt (f q) = pt q /\ pq (f q) = pq q /\ pprev (f q) = pprev q /\ pnext (f q) = pnext q) ->
  (forall q, NoDup (pstart q) /\ NoDup (pend q) -> NoDup (pstart (f q)) /\ NoDup (pend (f q))) ->
  PInv tab ps -> PInv tab (upd_at t f ps).
Proof.
  intros Hf Hn. unfold upd_at. apply map_PInv.
  - intros q. destruct (pt q =? t); auto. destruct (Hf q) as [A [B [C D]]]. auto.
  - intros q. destruct (pt q =? t); auto.
  - intros q _ _ Hq. destruct (pt q =? t); auto. destruct (Hf q) as [A [B [C D]]]. congruence.
Qed.

(* ---------------------------------------------------------------- the initial part *)
Lemma inv_init_lemma q0 : Inv (init q0).
Proof.
  split; [|constructor]. apply mk_InvW'; simpl.
  - split; simpl; constructor.
  - intros s o t. destruct s; simpl; split; intros H; try discriminate; destruct H.
  - split; [simpl; split; [lia|exact I] | eauto].
Qed.

(* ---------------------------------------------------------------- get_or_add_point *)
Lemma goap_ok p t : InvW p -> 0 <= t ->
  InvW (get_or_add_point p t) /\
  (exists q, In q (points (get_or_add_point p t)) /\ pt q = t) /\
  (forall s, oref s (get_or_add_point p t) = oref s p) /\
  qtab (get_or_add_point p t) = qtab p /\
  (Forall nonempty_point (points p) ->
   Forall (fun q => pt q = t \/ nonempty_point q) (points (get_or_add_point p t))) /\
  (get_point t (points p) <> None -> get_or_add_point p t = p).
Proof.
  intros I Ht. unfold get_or_add_point. destruct (get_point t (points p)) as [q|] eqn:G.
  - split; auto. split; [exists q; apply get_point_Some; auto|]. split; auto. split; auto. split; auto.
    intros F. eapply Forall_impl; [|exact F]. auto.
  - split; [|split; [|split; [|split; [|split]]]].
    + apply mk_InvW'; simpl.
      * apply add_point_PInv; auto. apply InvW_PInv; auto.
      * intros s o t'. rewrite add_point_regs by auto. destruct s; simpl; [apply (iw_reg p I SStart) | apply (iw_reg p I SEnd)].
      * apply (iw_qtab p I).
    + simpl. apply add_point_has; auto.
    + destruct s; auto.
    + auto.
    + simpl. intros F. apply add_point_Forall; auto. apply linkfree_nonempty.
    + congruence.
Qed.

(* ---------------------------------------------------------------- add one side *)
Lemma add_side_ok s p o t : InvW p -> 0 <= t -> oref s p o = None ->
  InvW (add_side s p o t) /\
  (forall x, oref s (add_side s p o t) x = fset (oref s p) o (Some t) x) /\
  (forall s', s' <> s -> oref s' (add_side s p o t) = oref s' p) /\
  qtab (add_side s p o t) = qtab p /\
  (Forall nonempty_point (points p) -> Forall nonempty_point (points (add_side s p o t))).
Proof.
  intros I Ht Hn. unfold add_side.
  destruct (goap_ok p t I Ht) as [I1 [[q0 [Hq0 Eq0]] [Ho [Hq [Hne _]]]]].
  set (p1 := get_or_add_point p t) in *.
  set (F := fun q => set_preg s (oset_add o (preg s q)) q).
  assert (Hn1 : oref s p1 o = None) by (rewrite Ho; auto).
  split; [|split; [|split; [|split]]].
  - apply mk_InvW'.
    + rewrite points_set_oref, qtab_set_oref. apply upd_at_PInv; [| |apply InvW_PInv; auto].
      * intros q. apply set_preg_fields.
      * intros q [A B]. unfold F. destruct s; simpl; split; auto; apply oset_add_NoDup; auto.
    + intros s0 x t'. rewrite points_set_oref. destruct (side_eq_dec s0 s) as [->|Ns].
      * rewrite oref_set_oref_same. unfold F. rewrite (regs_upd_at_same s t (oset_add o)).
        unfold fset. destruct (obj_eqb o x) eqn:E.
        -- apply obj_eqb_eq in E. subst x. split.
           ++ intros H. inversion H; subst t'. exists q0. split; auto. split; auto.
              rewrite Z.eqb_refl. apply oset_add_In. auto.
           ++ intros [q [Hq' [Ept Hin]]]. destruct (t' =? t) eqn:Et; [f_equal; lia|].
              exfalso. assert (R : In (t', o) (regs s (points p1))) by (apply regs_In; eauto).
              apply (iw_reg p1 I1) in R. congruence.
        -- apply obj_eqb_neq in E. rewrite (iw_reg p1 I1), regs_In.
           split; intros [q [Hq' [Ept Hin]]]; exists q; (split; [auto|split; [auto|]]).
           ++ destruct (t' =? t); [apply oset_add_In; auto | auto].
           ++ destruct (t' =? t); [apply oset_add_In in Hin as [->|]; [congruence|auto] | auto].
      * rewrite oref_set_oref_other by auto. unfold F. rewrite regs_upd_at_other by auto. apply (iw_reg p1 I1).
    + rewrite qtab_set_oref. apply (iw_qtab p1 I1).
  - intros x. rewrite oref_set_oref_same. unfold fset. rewrite Ho. auto.
  - intros s' Ns. rewrite oref_set_oref_other by auto. apply Ho.
  - rewrite qtab_set_oref. auto.
  - intros Fne. rewrite points_set_oref. specialize (Hne Fne). unfold upd_at.
    eapply Forall_map_impl; [|exact Hne]. intros x _ Hx. simpl in Hx.
    destruct (pt x =? t) eqn:Et.
    + unfold F, nonempty_point. destruct s; simpl; [left|right]; unfold oset_add;
        destruct (existsb _ _) eqn:Ex.
      * apply existsb_exists in Ex as [y [Hy _]]. intros C. rewrite C in Hy. destruct Hy.
      * intros C. apply app_eq_nil in C as [_ C]. discriminate.
      * apply existsb_exists in Ex as [y [Hy _]]. intros C. rewrite C in Hy. destruct Hy.
      * intros C. apply app_eq_nil in C as [_ C]. discriminate.
    + destruct Hx; [lia|auto].
Qed.

Lemma add_opt_ok sd p ob v : InvW p ->
  (forall t, v = Some t -> 0 <= t /\ oref sd p ob = None) ->
  exists p', add_opt sd (p, OutOk) ob v = (p', OutOk) /\ InvW p' /\
    (forall x, oref sd p' x = upd_opt (oref sd p) ob v x) /\
    (forall s', s' <> sd -> oref s' p' = oref s' p) /\
    qtab p' = qtab p /\
    (Forall nonempty_point (points p) -> Forall nonempty_point (points p')).
Proof.
  intros I Hv. unfold add_opt. destruct v as [t|].
  - destruct (Hv t eq_refl) as [Ht Hn]. assert (E : t <? 0 = false) by lia. rewrite E.
    destruct (add_side_ok sd p ob t I Ht Hn) as [A [B [C [D E']]]].
    eexists. split; [reflexivity|]. split; [exact A|]. split; [exact B|]. split; [exact C|]. split; [exact D|exact E'].
  - exists p. split; [reflexivity|]. split; [exact I|]. split; [reflexivity|]. split; [reflexivity|]. split; [reflexivity|auto].
Qed.

(* ---------------------------------------------------------------- remove one side *)
Lemma remove_side_ok s p o : InvW p ->
  exists p', remove_side s p o = (p', OutOk) /\ InvW p' /\
    (forall x, oref s p' x = fset (oref s p) o None x) /\
    (forall s', s' <> s -> oref s' p' = oref s' p) /\
    qtab p' = qtab p /\
    (Forall nonempty_point (points p) -> Forall nonempty_point (points p')).
Proof.
  intros I. unfold remove_side. destruct (oref s p o) as [t|] eqn:E.
  2:{ exists p. split; [reflexivity|]. split; [exact I|]. split; [|split; [reflexivity|split; [reflexivity|auto]]]. intros x. unfold fset. destruct (obj_eqb o x) eqn:Ex; auto.
      apply obj_eqb_eq in Ex. subst. auto. }
  pose proof (proj1 (iw_reg p I s o t) E) as R. apply regs_In in R as [q [Hq [Ept Ho]]].
  set (G := fun q => set_preg s (oset_remove o (preg s q)) q).
  set (ps1 := upd_at t G (points p)).
  assert (P1 : PInv (qtab p) ps1).
  { apply upd_at_PInv; [| |apply InvW_PInv; auto].
    - intros x. apply set_preg_fields.
    - intros x [A B]. unfold G. destruct s; simpl; split; auto; apply oset_remove_NoDup; auto. }
  assert (Hq1 : In (G q) ps1).
  { apply upd_at_In. exists q. split; auto. assert (Et : pt q =? t = true) by lia. rewrite Et. auto. }
  assert (Ept1 : pt (G q) = t) by (unfold G; destruct (set_preg_fields s (oset_remove o (preg s q)) q) as [-> _]; auto).
  destruct (cleanup_point_ok (qtab p) ps1 (G q) P1 Hq1) as [ps2 [C [P2 [Rg Fa]]]].
  rewrite Ept1 in C. rewrite C.
  eexists. split; [reflexivity|]. split; [|split; [|split; [|split]]].
  - apply mk_InvW'.
    + rewrite points_set_oref, qtab_set_oref. auto.
    + intros s0 x t'. rewrite points_set_oref, Rg. destruct (side_eq_dec s0 s) as [->|Ns].
      * rewrite oref_set_oref_same. unfold ps1, G. rewrite (regs_upd_at_same s t (oset_remove o)).
        unfold fset. destruct (obj_eqb o x) eqn:Ex.
        -- apply obj_eqb_eq in Ex. subst x. split; [discriminate|].
           intros [q' [Hq' [Ept' Hin]]]. exfalso. destruct (t' =? t) eqn:Et.
           ++ apply oset_remove_In in Hin as [N _]. congruence.
           ++ assert (R : In (t', o) (regs s (points p))) by (apply regs_In; eauto).
              apply (iw_reg p I) in R. assert (t' = t) by congruence. lia.
        -- apply obj_eqb_neq in Ex. rewrite (iw_reg p I), regs_In.
           split; intros [q' [Hq' [Ept' Hin]]]; exists q'; (split; [auto|split; [auto|]]).
           ++ destruct (t' =? t); [apply oset_remove_In; split; auto; congruence | auto].
           ++ destruct (t' =? t); [apply oset_remove_In in Hin as [_ ?]; auto | auto].
      * rewrite oref_set_oref_other by auto. unfold ps1, G. rewrite regs_upd_at_other by auto. apply (iw_reg p I).
    + rewrite qtab_set_oref. apply (iw_qtab p I).
  - intros x. rewrite oref_set_oref_same. auto.
  - intros s' Ns. apply oref_set_oref_other; auto.
  - apply qtab_set_oref.
  - intros Fne. rewrite points_set_oref. apply Fa.
    + apply linkfree_nonempty.
    + rewrite Ept1. unfold ps1, upd_at. eapply Forall_map_impl; [|exact Fne]. intros x _ Hx. simpl.
      destruct (pt x =? t) eqn:Et; [left; unfold G; destruct (set_preg_fields s (oset_remove o (preg s x)) x) as [-> _]; lia | auto].
    + apply is_empty_false.
Qed.

(* ---------------------------------------------------------------- TimePoint.remove_*_object *)
Lemma tp_remove_ok s p o : InvW p ->
  InvW (tp_remove s p o) /\
  (forall x, oref s (tp_remove s p o) x = fset (oref s p) o None x) /\
  (forall s', s' <> s -> oref s' (tp_remove s p o) = oref s' p) /\
  qtab (tp_remove s p o) = qtab p /\
  (oref s p o = None -> tp_remove s p o = p).
Proof.
  intros I. unfold tp_remove. destruct (oref s p o) as [t|] eqn:E.
  2:{ split; [exact I|]. split; [|split; [reflexivity|split; reflexivity]].
      intros x. unfold fset. destruct (obj_eqb o x) eqn:Ex; auto. apply obj_eqb_eq in Ex. subst. auto. }
  set (G := fun q => set_preg s (oset_remove o (preg s q)) q).
  set (ps1 := upd_at t G (points p)).
  assert (P1 : PInv (qtab p) ps1).
  { apply upd_at_PInv; [| |apply InvW_PInv; auto].
    - intros x. apply set_preg_fields.
    - intros x [A B]. unfold G. destruct s; simpl; split; auto; apply oset_remove_NoDup; auto. }
  split; [|split; [|split; [|split]]].
  - apply mk_InvW'.
    + rewrite points_set_oref, qtab_set_oref. auto.
    + intros s0 x t'. rewrite points_set_oref. destruct (side_eq_dec s0 s) as [->|Ns].
      * rewrite oref_set_oref_same. unfold ps1, G. rewrite (regs_upd_at_same s t (oset_remove o)).
        unfold fset. destruct (obj_eqb o x) eqn:Ex.
        -- apply obj_eqb_eq in Ex. subst x. split; [discriminate|].
           intros [q' [Hq' [Ept' Hin]]]. exfalso. destruct (t' =? t) eqn:Et.
           ++ apply oset_remove_In in Hin as [N _]. congruence.
           ++ assert (R : In (t', o) (regs s (points p))) by (apply regs_In; eauto).
              apply (iw_reg p I) in R. assert (t' = t) by congruence. lia.
        -- apply obj_eqb_neq in Ex. rewrite (iw_reg p I), regs_In.
           split; intros [q' [Hq' [Ept' Hin]]]; exists q'; (split; [auto|split; [auto|]]).
           ++ destruct (t' =? t); [apply oset_remove_In; split; auto; congruence | auto].
           ++ destruct (t' =? t); [apply oset_remove_In in Hin as [_ ?]; auto | auto].
      * rewrite oref_set_oref_other by auto. unfold ps1, G. rewrite regs_upd_at_other by auto. apply (iw_reg p I).
    + rewrite qtab_set_oref. apply (iw_qtab p I).
  - intros x. rewrite oref_set_oref_same. auto.
  - intros s' Ns. apply oref_set_oref_other; auto.
  - apply qtab_set_oref.
  - discriminate.
Qed.

(* ---------------------------------------------------------------- set_quarter_duration *)
Lemma setq_ok p t q : InvW p -> 0 <= t ->
  InvW (set_quarter_duration p t q) /\
  (forall s, oref s (set_quarter_duration p t q) = oref s p) /\
  qtab (set_quarter_duration p t q) = fst (set_q_tab t q None (qtab p)) /\
  (Forall nonempty_point (points p) -> Forall nonempty_point (points (set_quarter_duration p t q))).
Proof.
  intros I Ht. destruct (set_q_tab_qd t q (qtab p) (iw_qtab p I) Ht) as [A [B [C D]]].
  unfold set_quarter_duration. destruct (set_q_tab t q None (qtab p)) as [tab' ch] eqn:E. simpl in *.
  destruct ch.
  - split; [|split; [|split]].
    + apply mk_InvW'; simpl.
      * apply (map_PInv (qtab p)); [| | |apply InvW_PInv; auto].
        -- intros x. destruct (in_span t (next_change t tab') (pt x)); auto.
        -- intros x. destruct (in_span t (next_change t tab') (pt x)); auto.
        -- intros x _ Hx Hq. rewrite C by auto. rewrite B.
           destruct (in_span t (next_change t (qtab p)) (pt x)); auto.
      * intros s o t'. rewrite regs_map.
        -- destruct s; simpl; [apply (iw_reg p I SStart) | apply (iw_reg p I SEnd)].
        -- intros x. destruct (in_span t (next_change t tab') (pt x)); destruct s; auto.
      * auto.
    + destruct s; auto.
    + auto.
    + simpl. intros F. eapply Forall_map_impl; [|exact F]. intros x _ Hx. simpl.
      destruct (in_span t (next_change t tab') (pt x)); auto.
  - rewrite D by auto. split; [exact I|]. split; [reflexivity|]. split; [reflexivity|auto].
Qed.

(* ---------------------------------------------------------------- one step *)
Lemma step_ok p o : InvW p -> valid_op p o ->
  exists p', step p o = (p', OutOk) /\ InvW p' /\
    (forall x, ostart p' x = spec_start (abs p) o x) /\
    (forall x, oend p' x = spec_end (abs p) o x) /\
    (forall s, 0 <= s -> qd_at (qtab p') s = spec_qd (abs p) o s) /\
    (strict_op p o -> Forall nonempty_point (points p) -> Forall nonempty_point (points p')).
Proof.
  intros I V. destruct o as [ob s e | ob w | t q | t | ob s]; simpl in V |- *.
  - (* add *)
    destruct V as [Vs Ve]. unfold add.
    assert (Ns : neg_opt s = false) by (destruct s as [t|]; simpl; auto; destruct (Vs t eq_refl); lia).
    assert (Ne : neg_opt e = false) by (destruct e as [t|]; simpl; auto; destruct (Ve t eq_refl); lia).
    rewrite Ns, Ne. simpl orb. cbv iota.
    destruct (add_opt_ok SStart p ob s I Vs) as [p1 [E1 [I1 [A1 [B1 [C1 D1]]]]]]. rewrite E1.
    assert (Ve' : forall t, e = Some t -> 0 <= t /\ oref SEnd p1 ob = None).
    { intros t Et. destruct (Ve t Et). split; auto. rewrite (B1 SEnd) by discriminate. auto. }
    destruct (add_opt_ok SEnd p1 ob e I1 Ve') as [p2 [E2 [I2 [A2 [B2 [C2 D2]]]]]]. rewrite E2.
    exists p2. split; auto. split; auto. split; [|split; [|split]].
    + intros x. change (ostart p2) with (oref SStart p2). rewrite (B2 SStart) by discriminate. apply A1.
    + intros x. change (oend p2 x) with (oref SEnd p2 x). rewrite A2. rewrite (B1 SEnd) by discriminate. auto.
    + intros s0 _. rewrite C2, C1. auto.
    + auto.
  - (* remove *)
    unfold remove. destruct w.
    + destruct (remove_side_ok SStart p ob I) as [p1 [E1 [I1 [A1 [B1 [C1 D1]]]]]]. rewrite E1.
      exists p1. split; auto. split; auto. split; [|split; [|split]]; auto.
      * intros x. change (oend p1) with (oref SEnd p1). rewrite (B1 SEnd) by discriminate. auto.
      * intros s0 _. rewrite C1. auto.
    + destruct (remove_side_ok SEnd p ob I) as [p1 [E1 [I1 [A1 [B1 [C1 D1]]]]]]. rewrite E1.
      exists p1. split; auto. split; auto. split; [|split; [|split]]; auto.
      * intros x. change (ostart p1) with (oref SStart p1). rewrite (B1 SStart) by discriminate. auto.
      * intros s0 _. rewrite C1. auto.
    + destruct (remove_side_ok SStart p ob I) as [p1 [E1 [I1 [A1 [B1 [C1 D1]]]]]]. rewrite E1.
      destruct (remove_side_ok SEnd p1 ob I1) as [p2 [E2 [I2 [A2 [B2 [C2 D2]]]]]]. rewrite E2.
      exists p2. split; auto. split; auto. split; [|split; [|split]]; auto.
      * intros x. change (ostart p2) with (oref SStart p2). rewrite (B2 SStart) by discriminate. apply A1.
      * intros x. change (oend p2 x) with (oref SEnd p2 x). rewrite A2. rewrite (B1 SEnd) by discriminate. auto.
      * intros s0 _. rewrite C2, C1. auto.
  - (* set_quarter_duration *)
    destruct (setq_ok p t q I V) as [I1 [A1 [B1 C1]]].
    eexists. split; [reflexivity|]. split; auto. split; [|split; [|split]]; auto.
    + intros x. pose proof (A1 SStart) as H. simpl in H. rewrite H. auto.
    + intros x. pose proof (A1 SEnd) as H. simpl in H. rewrite H. auto.
    + intros s Hs. rewrite B1. destruct (set_q_tab_qd t q (qtab p) (iw_qtab p I) V) as [_ [_ [C _]]].
      rewrite C by auto. rewrite next_after_next_change. auto.
  - (* get_or_add_point *)
    assert (E : t <? 0 = false) by lia. rewrite E.
    destruct (goap_ok p t I V) as [I1 [_ [Ho [Hq [_ Hs]]]]].
    eexists. split; [reflexivity|]. split; auto. split; [|split; [|split]]; auto.
    + intros x. pose proof (Ho SStart) as H. simpl in H. rewrite H. auto.
    + intros x. pose proof (Ho SEnd) as H. simpl in H. rewrite H. auto.
    + intros s _. rewrite Hq. auto.
    + intros S F. simpl in S. rewrite Hs; auto.
  - (* TimePoint.remove_starting_object / remove_ending_object *)
    destruct (tp_remove_ok s p ob I) as [I1 [A1 [B1 [C1 D1]]]].
    eexists. split; [reflexivity|]. split; auto. split; [|split; [|split]].
    + intros x. destruct s.
      * apply (A1 x).
      * pose proof (B1 SStart) as H. simpl in H. rewrite H by discriminate. auto.
    + intros x. destruct s.
      * pose proof (B1 SEnd) as H. simpl in H. rewrite H by discriminate. auto.
      * apply (A1 x).
    + intros s0 _. rewrite C1. auto.
    + intros S F. rewrite (D1 S). auto.
Qed.
