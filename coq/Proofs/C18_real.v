(* C18 -- the laws assumed of log2 / 2** and of the tempo normalisations, over the real numbers
   (partitura: np.log2, 2 ** x, TEMPO_NORMALIZATION[...]["scale"/"rescale"]).  This file, and only
   this file of C18, depends on the standard library's axioms of the reals. *)
From Coq Require Import Reals Lra.
#[local] Open Scope R_scope.

Definition log2R (x : R) : R := ln x / ln 2.
Definition exp2R (y : R) : R := Rpower 2 y.

Lemma ln2_pos : 0 < ln 2.
Proof. pose proof ln_lt_2. lra. Qed.

(* 2 ** log2 x = x on positives: the Section hypothesis exp_log of Proofs/C18.v *)
Lemma exp2_log2 x : 0 < x -> exp2R (log2R x) = x.
Proof.
  intros H. unfold exp2R, log2R, Rpower.
  replace (ln x / ln 2 * ln 2) with (ln x) by (field; pose proof ln2_pos; lra).
  apply exp_ln. exact H.
Qed.

(* beat_period: scale = rescale = identity *)
Lemma normalisation_inverse_1 (x : R) : (fun y => y) ((fun y => y) x) = x.
Proof. reflexivity. Qed.

(* beat_period_log *)
Lemma normalisation_inverse_2 x : 0 < x -> exp2R (log2R x) = x.
Proof. apply exp2_log2. Qed.

(* beat_period_ratio: (x / mean) * mean *)
Lemma normalisation_inverse_3 x mu : mu <> 0 -> x / mu * mu = x.
Proof. intros H. field. exact H. Qed.

(* beat_period_ratio_log: 2 ** log2 (x / mean) * mean *)
Lemma normalisation_inverse_4 x mu : 0 < x -> 0 < mu -> exp2R (log2R (x / mu)) * mu = x.
Proof.
  intros Hx Hmu. rewrite exp2_log2.
  - field. lra.
  - apply Rdiv_lt_0_compat; assumption.
Qed.

(* beat_period_standardized: ((x - mean) / std) * std + mean; for a constant curve (std = 0,
   every x equal to the mean) the repaired scale stores 0 *)
Definition standardize (mu sigma x : R) : R :=
  if Req_EM_T sigma 0 then 0 else (x - mu) / sigma.
Lemma normalisation_inverse_5 x mu sigma :
  (sigma = 0 -> x = mu) -> standardize mu sigma x * sigma + mu = x.
Proof.
  intros H. unfold standardize. destruct (Req_EM_T sigma 0) as [E | E].
  - rewrite (H E), E. ring.
  - field. exact E.
Qed.

(* articulation: 2 ** log2 (pd / (bp * sd)) * sd * bp = pd *)
Lemma articulation_inverse pd bp sd : 0 < pd -> 0 < bp -> 0 < sd ->
  exp2R (log2R (pd / (bp * sd))) * sd * bp = pd.
Proof.
  intros Hp Hb Hs. rewrite exp2_log2.
  - field. lra.
  - apply Rdiv_lt_0_compat; [exact Hp | apply Rmult_lt_0_compat; assumption].
Qed.
