(* C14 -- operation histories over a performed part: whatever was done before (threshold
   assignments, controls replaced / removed / added, notes edited, parts rebuilt from notes that
   carry a sounding end, note-array round trips), the sound_off column left by the last step is
   the function sound_offs of the current (notes, controls, threshold) alone. *)
From PV Require Import Lib.Base Lib.Round Model.C12 Model.C14 Proofs.C14_so Proofs.C14.
From Coq Require Import QArith.
#[local] Open Scope Q_scope.

Definition wf (p : part) : Prop := List.length (p_so p) = List.length (p_notes p).
Definition fresh (p : part) : Prop := p_so p = sound_offs (p_thr p) (p_notes p) (p_ctrls p).

Lemma set_threshold_fresh p t : wf p -> fresh (set_threshold p t) /\ wf (set_threshold p t).
Proof.
  unfold wf, fresh. intros W. destruct (set_threshold_keeps p t) as (A & B & C).
  rewrite A, B, C, set_threshold_so.
  destruct (p_notes p) eqn:E.
  - simpl in W. destruct (p_so p); [|discriminate W]. rewrite sound_offs_nil. split; reflexivity.
  - split; [reflexivity|]. apply sound_offs_length.
Qed.

Lemma stale_length ns so : List.length (stale ns so) = List.length ns.
Proof.
  unfold stale. destruct (Nat.eqb (List.length so) (List.length ns)) eqn:E.
  - apply Nat.eqb_eq. exact E.
  - apply map_length.
Qed.

Lemma apply_step_fresh p s : wf p -> fresh (apply_step p s) /\ wf (apply_step p s).
Proof.
  intros W. destruct s; simpl.
  - apply set_threshold_fresh. exact W.
  - apply set_threshold_fresh. exact W.
  - apply set_threshold_fresh. unfold wf. simpl. apply stale_length.
  - unfold new_part_carrying. apply set_threshold_fresh. exact W.
  - unfold from_note_array, new_part. apply set_threshold_fresh. unfold wf. simpl. apply map_length.
Qed.

Lemma run_history_wf ss : forall p, wf p -> wf (run_history p ss).
Proof.
  unfold run_history. induction ss as [|s r IH]; intros p W; simpl; [exact W|].
  apply IH. apply apply_step_fresh. exact W.
Qed.

Lemma run_history_fresh p ss s : wf p -> fresh (run_history p (ss ++ [s])).
Proof.
  intros W. unfold run_history. rewrite fold_left_app. simpl.
  apply apply_step_fresh. apply (run_history_wf ss p W).
Qed.

Lemma history_independent_lemma : forall p ss s,
  List.length (p_so p) = List.length (p_notes p) ->
  let q := run_history p (ss ++ [s]) in
  p_so q = sound_offs (p_thr q) (p_notes q) (p_ctrls q).
Proof. intros p ss s W. exact (run_history_fresh p ss s W). Qed.

Lemma histories_agree_lemma : forall p p' ss ss' s s',
  List.length (p_so p) = List.length (p_notes p) ->
  List.length (p_so p') = List.length (p_notes p') ->
  let q := run_history p (ss ++ [s]) in
  let q' := run_history p' (ss' ++ [s']) in
  p_notes q = p_notes q' -> p_ctrls q = p_ctrls q' -> p_thr q = p_thr q' -> p_so q = p_so q'.
Proof.
  intros p p' ss ss' s s' W W'. simpl. intros En Ec Et.
  rewrite (run_history_fresh p ss s W), (run_history_fresh p' ss' s' W'), En, Ec, Et. reflexivity.
Qed.

Lemma no_pedal_after_history_lemma : forall p ss s,
  List.length (p_so p) = List.length (p_notes p) ->
  let q := run_history p (ss ++ [s]) in
  pedal_events (p_ctrls q) = [] -> p_so q = map n_off (p_notes q).
Proof.
  intros p ss s W. simpl. intros E. rewrite (run_history_fresh p ss s W).
  apply no_pedal_identity_lemma. exact E.
Qed.

Lemma carried_sound_off_ignored_lemma : forall thr ns so0 cs,
  List.length so0 = List.length ns ->
  new_part_carrying thr ns so0 cs = new_part thr ns cs /\
  p_so (new_part_carrying thr ns so0 cs) = sound_offs thr ns cs.
Proof.
  intros thr ns so0 cs L.
  assert (E : new_part_carrying thr ns so0 cs = new_part thr ns cs).
  { unfold new_part_carrying, new_part, set_threshold. simpl.
    destruct ns as [|n r]; [|reflexivity].
    destruct so0; [reflexivity|discriminate L]. }
  split; [exact E|]. rewrite E. apply new_part_so.
Qed.

Lemma recompute_idempotent_lemma : forall p t,
  set_threshold (set_threshold p t) t = set_threshold p t.
Proof. intros p t. unfold set_threshold. destruct (p_notes p); reflexivity. Qed.

Lemma recompute_ignores_sound_off_lemma : forall ns cs thr thr' so so' t,
  List.length so = List.length ns -> List.length so' = List.length ns ->
  p_so (set_threshold (mkPart ns cs thr so) t) = p_so (set_threshold (mkPart ns cs thr' so') t).
Proof.
  intros ns cs thr thr' so so' t L L'. rewrite !set_threshold_so. simpl.
  destruct ns; [|reflexivity]. destruct so; [|discriminate L]. destruct so'; [reflexivity|discriminate L'].
Qed.

(* ---- a history in which the pedal first extends two notes, is then removed from the controls
        (another controller stays), and the same threshold is assigned again; and a part rebuilt
        without pedal from the notes that carry the extended sounding ends *)
Definition hx_notes : list note := [mkNote 60 64 0 1; mkNote 64 64 (1#2) (3#2); mkNote 60 64 4 5].
Definition hx_pedal : list ctrl := [mkCtrl 64 (1#4) 127; mkCtrl 7 (1#8) 100; mkCtrl 64 3 0].
Definition hx_other : list ctrl := [mkCtrl 7 (1#8) 100].

Lemma history_example_lemma :
  let p := new_part 64 hx_notes hx_pedal in
  p_so p = [3; 3; 5] /\
  p_so (run_history p [SetCtrls hx_other 64]) = [1; 3#2; 5] /\
  p_so (run_history p [Rebuild hx_other 64]) = [1; 3#2; 5] /\
  p_so (run_history p [SetCtrls hx_other 64; SetCtrls hx_pedal 64]) = [3; 3; 5] /\
  p_so (new_part_carrying 64 hx_notes [3; 3; 5] hx_other) = [1; 3#2; 5].
Proof. vm_compute. repeat split; reflexivity. Qed.
