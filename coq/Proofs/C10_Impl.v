(* C10 -- proofs about the maps as the code builds them (Model/C10_Impl.v): the wrapper's scalar/vector
   dispatch and the refinement of each map to the lookup model of Model/C10.v. *)
From PV Require Import Lib.Base Lib.Round Model.C02 Model.C10 Model.C10_Impl Proofs.C02_lib Proofs.C10.
From Coq Require Import QArith.
#[local] Open Scope Z_scope.

(* ---- scipy "previous": the scan of Model/C02.prev_lookup, nan below the first sample *)
Lemma sc_scan_some {A} : forall (tbl : list (Z * A)) t d, sc_scan tbl t (Some d) = Some (prev_lookup tbl t d).
Proof. induction tbl as [|[k v] r IH]; intros; simpl; auto. destruct (k <=? t); auto. Qed.

Lemma sc_scan_cons {A} k v (r : list (Z * A)) t :
  sc_scan ((k, v) :: r) t None = if k <=? t then Some (prev_lookup r t v) else None.
Proof. simpl. destruct (k <=? t); auto. apply sc_scan_some. Qed.

Lemma repeat_map {A B} (y : B) : forall l : list A, repeat y (List.length l) = map (fun _ => y) l.
Proof. induction l; simpl; auto. f_equal; auto. Qed.

(* ---- the wrapper: a vector query returns one value per position, each the value of the scalar query
   (also in the single-sample branch and for a vector of one position); a scalar query returns one value *)
Theorem wrap_prev_vector {A} (tbl : list (Z * A)) :
  (forall l, wrap_prev tbl (QVec l) = RVec (map (scalar_of (wrap_prev tbl)) l)) /\
  (forall t, exists a, wrap_prev tbl (QScalar t) = RScalar a).
Proof.
  unfold scalar_of, wrap_prev. destruct (1 <? List.length tbl)%nat.
  - split; [reflexivity | eauto].
  - split; [|eauto]. intros l. simpl. rewrite repeat_map. reflexivity.
Qed.

Lemma wrap_prev_lift {A} (tbl : list (Z * A)) (f : Z -> option A) lo :
  (forall t, lo <= t -> scalar_of (wrap_prev tbl) t = f t) ->
  forall q, q_ge lo q -> wrap_prev tbl q = lift_opt f q.
Proof.
  intros H q Hq. destruct (wrap_prev_vector tbl) as [Hv Hs]. destruct q as [t|l]; simpl in *.
  - specialize (H t Hq). unfold scalar_of in H. destruct (Hs t) as [a Ea]. rewrite Ea in *. congruence.
  - rewrite Hv. f_equal. apply map_ext_in. intros t Ht. apply H.
    rewrite Forall_forall in Hq. auto.
Qed.

(* ---- time signatures *)
Lemma impl_ts_scalar cp t : c_first cp <= t -> scalar_of (impl_ts cp) t = Some (ts_map cp t).
Proof.
  intros Ht. unfold scalar_of, impl_ts, wrap_prev, ts_rows, ts_map, lookup_bf, backfill.
  destruct (ts_tbl cp) as [|[t0 v0] r].
  - simpl. destruct (c_first cp <=? t) eqn:E; [|lia]. destruct (c_last cp <=? t); reflexivity.
  - destruct (c_first cp <? t0) eqn:E.
    + change (1 <? List.length ((c_first cp, v0) :: (t0, v0) :: r))%nat with true. cbv iota.
      rewrite sc_scan_cons. destruct (c_first cp <=? t) eqn:E2; [|lia].
      simpl. rewrite E2. reflexivity.
    + destruct r as [|p r'].
      * simpl. destruct (t0 <=? t) eqn:E2; [|lia]. reflexivity.
      * change (1 <? List.length ((t0, v0) :: p :: r'))%nat with true. cbv iota.
        rewrite sc_scan_cons. destruct (t0 <=? t) eqn:E2; [|lia].
        change (prev_lookup ((t0, v0) :: p :: r') t v0) with (if t0 <=? t then prev_lookup (p :: r') t v0 else v0).
        rewrite E2. reflexivity.
Qed.

Theorem impl_ts_spec cp q : q_ge (c_first cp) q -> impl_ts cp q = lift (ts_map cp) q.
Proof. apply wrap_prev_lift. apply impl_ts_scalar. Qed.

(* ---- key signatures (a single signature goes through the single-sample branch) *)
Lemma impl_ks_scalar cp t : c_first cp <= t -> scalar_of (impl_ks cp) t = Some (ks_map cp t).
Proof.
  intros Ht. unfold scalar_of, impl_ks, wrap_prev, ks_rows, ks_map, lookup_bf, backfill.
  destruct (c_kss cp) as [|[t0 v0] r].
  - simpl. destruct (c_first cp <=? t) eqn:E; [|lia]. reflexivity.
  - destruct (c_first cp <? t0) eqn:E.
    + change (1 <? List.length ((c_first cp, v0) :: (t0, v0) :: r))%nat with true. cbv iota.
      rewrite sc_scan_cons. destruct (c_first cp <=? t) eqn:E2; [|lia].
      simpl. rewrite E2. reflexivity.
    + destruct r as [|p r'].
      * simpl. destruct (t0 <=? t); reflexivity.
      * change (1 <? List.length ((t0, v0) :: p :: r'))%nat with true. cbv iota.
        rewrite sc_scan_cons. destruct (t0 <=? t) eqn:E2; [|lia].
        change (prev_lookup ((t0, v0) :: p :: r') t v0) with (if t0 <=? t then prev_lookup (p :: r') t v0 else v0).
        rewrite E2. reflexivity.
Qed.

Theorem impl_ks_spec cp q : q_ge (c_first cp) q -> impl_ks cp q = lift (ks_map cp) q.
Proof. apply wrap_prev_lift. apply impl_ks_scalar. Qed.

(* ---- clefs, per staff *)
Lemma clef_rows_scalar cp s t : c_first cp <= t ->
  scalar_of (wrap_prev (clef_rows cp s)) t = Some (clef_staff cp s t).
Proof.
  intros Ht. unfold scalar_of, wrap_prev, clef_rows, clef_staff, lookup_bf, backfill.
  destruct (staff_tbl cp s) as [|[t0 v0] r].
  - rewrite Z.ltb_irrefl. simpl. destruct (c_first cp <=? t) eqn:E; [|lia]. destruct (c_last cp <=? t); reflexivity.
  - destruct r as [|p r'].
    + destruct (c_first cp <? t0) eqn:E.
      * simpl. destruct (c_first cp <=? t) eqn:E2; [|lia]. destruct (t0 <=? t); reflexivity.
      * simpl. destruct (t0 <=? t) eqn:E2; [|lia]. reflexivity.
    + destruct (c_first cp <? t0) eqn:E.
      * change (1 <? List.length ((c_first cp, v0) :: (t0, v0) :: p :: r'))%nat with true. cbv iota.
        rewrite sc_scan_cons. destruct (c_first cp <=? t) eqn:E2; [|lia].
        change (prev_lookup ((c_first cp, v0) :: (t0, v0) :: p :: r') t v0)
          with (if c_first cp <=? t then prev_lookup ((t0, v0) :: p :: r') t v0 else v0).
        rewrite E2. reflexivity.
      * change (1 <? List.length ((t0, v0) :: p :: r'))%nat with true. cbv iota.
        rewrite sc_scan_cons. destruct (t0 <=? t) eqn:E2; [|lia].
        change (prev_lookup ((t0, v0) :: p :: r') t v0) with (if t0 <=? t then prev_lookup (p :: r') t v0 else v0).
        rewrite E2. reflexivity.
Qed.

Theorem impl_clef_spec cp q : q_ge (c_first cp) q ->
  impl_clef cp q = map (fun s => lift (clef_staff cp s) q) (zrange 1 (Z.to_nat (c_nstaves cp))).
Proof.
  intros Hq. unfold impl_clef. apply map_ext. intros s.
  apply (wrap_prev_lift _ _ (c_first cp)); auto. intros t Ht. apply clef_rows_scalar; auto.
Qed.

(* a scalar query: the rows of clef_map, one per staff *)
Corollary impl_clef_scalar cp t : c_first cp <= t ->
  impl_clef cp (QScalar t) = map (fun row => RScalar (Some row)) (clef_map cp t).
Proof.
  intros Ht. rewrite impl_clef_spec by exact Ht. unfold clef_map. rewrite map_map. reflexivity.
Qed.

(* ---- number of staves *)
Lemma max_staff_spec : forall l m,
  m <= max_staff m l /\ (forall s, In (Some s) l -> s <= max_staff m l) /\
  (max_staff m l = m \/ In (Some (max_staff m l)) l).
Proof.
  unfold max_staff. induction l as [|[x|] l IH]; intros m; simpl.
  - split; [lia|]. split; [intros s []|auto].
  - destruct (m <? x) eqn:E.
    + destruct (IH x) as [A [B C]]. split; [lia|]. split.
      * intros s [Hs|Hs]; [inversion Hs; subst; lia | auto].
      * destruct C as [C|C]; [right; left; congruence | right; right; auto].
    + destruct (IH m) as [A [B C]]. split; [lia|]. split.
      * intros s [Hs|Hs]; [inversion Hs; subst; lia | auto].
      * destruct C as [C|C]; [left; auto | right; right; auto].
  - destruct (IH m) as [A [B C]]. split; [auto|]. split.
    + intros s [Hs|Hs]; [discriminate | auto].
    + destruct C as [C|C]; [left; auto | right; right; auto].
Qed.

Theorem nstaves_spec notes clefs dirs words :
  let n := nstaves_impl notes clefs dirs words in
  1 <= n /\ (forall s, In (Some s) (notes ++ clefs ++ dirs ++ words) -> s <= n) /\
  (n = 1 \/ In (Some n) (notes ++ clefs ++ dirs ++ words)).
Proof.
  unfold nstaves_impl.
  destruct (max_staff_spec notes 1) as [A1 [B1 C1]]. set (n1 := max_staff 1 notes) in *.
  destruct (max_staff_spec clefs n1) as [A2 [B2 C2]]. set (n2 := max_staff n1 clefs) in *.
  destruct (max_staff_spec dirs n2) as [A3 [B3 C3]]. set (n3 := max_staff n2 dirs) in *.
  destruct (max_staff_spec words n3) as [A4 [B4 C4]]. set (n4 := max_staff n3 words) in *.
  cbv zeta. split; [lia|]. split.
  - intros s Hs. repeat (apply in_app_or in Hs; destruct Hs as [Hs|Hs]).
    + specialize (B1 s Hs). lia.
    + specialize (B2 s Hs). lia.
    + specialize (B3 s Hs). lia.
    + specialize (B4 s Hs). lia.
  - destruct C4 as [C4|C4]; [|right; repeat (apply in_or_app; right); exact C4].
    rewrite C4. destruct C3 as [C3|C3]; [|right; apply in_or_app; right; apply in_or_app; right; apply in_or_app; left; exact C3].
    rewrite C3. destruct C2 as [C2|C2]; [|right; apply in_or_app; right; apply in_or_app; left; exact C2].
    rewrite C2. destruct C1 as [C1|C1]; [left; exact C1 | right; apply in_or_app; left; exact C1].
Qed.

(* ---- measures *)
Lemma meas_xy_lookup : forall mt t s e n,
  prev_lookup (meas_xy mt) t (s, e) = (let '(s', e', _) := prev_lookup mt t (s, e, n) in (s', e')).
Proof.
  induction mt as [|[k [[s1 e1] n1]] r IH]; intros; simpl; auto.
  destruct (k <=? t); auto.
Qed.

Lemma num_xy_lookup : forall mt t s e n,
  prev_lookup (num_xy mt) t n = (let '(_, _, n') := prev_lookup mt t (s, e, n) in n').
Proof.
  induction mt as [|[k [[s1 e1] n1]] r IH]; intros; simpl; auto.
  destruct (k <=? t); auto.
Qed.

Lemma impl_measure_scalar mt k0 v0 r t : mt = (k0, v0) :: r -> k0 <= t ->
  scalar_of (impl_measure_of mt) t = option_map (fun row => let '(s, e, _) := row in (s, e)) (meas_row_of mt t).
Proof.
  intros -> Ht. destruct v0 as [[s0 e0] n0]. unfold scalar_of, impl_measure_of, wrap_prev, meas_row_of.
  destruct r as [|p r'].
  - simpl. destruct (k0 <=? t); reflexivity.
  - change (1 <? List.length (meas_xy ((k0, (s0, e0, n0)) :: p :: r')))%nat with true. cbv iota.
    change (meas_xy ((k0, (s0, e0, n0)) :: p :: r')) with ((k0, (s0, e0)) :: meas_xy (p :: r')).
    rewrite sc_scan_cons. destruct (k0 <=? t) eqn:E; [|lia].
    rewrite (meas_xy_lookup (p :: r') t s0 e0 n0).
    change (prev_lookup ((k0, (s0, e0, n0)) :: p :: r') t (s0, e0, n0))
      with (if k0 <=? t then prev_lookup (p :: r') t (s0, e0, n0) else (s0, e0, n0)).
    rewrite E. simpl. destruct (prev_lookup (p :: r') t (s0, e0, n0)) as [[s e] n]. reflexivity.
Qed.

Lemma impl_number_scalar mt k0 v0 r t : mt = (k0, v0) :: r -> k0 <= t ->
  scalar_of (impl_number_of mt) t = Some (match meas_row_of mt t with Some (_, _, n) => n | None => None end).
Proof.
  intros -> Ht. destruct v0 as [[s0 e0] n0]. unfold scalar_of, impl_number_of, wrap_prev, meas_row_of.
  destruct r as [|p r'].
  - simpl. destruct (k0 <=? t); reflexivity.
  - change (1 <? List.length (num_xy ((k0, (s0, e0, n0)) :: p :: r')))%nat with true. cbv iota.
    change (num_xy ((k0, (s0, e0, n0)) :: p :: r')) with ((k0, n0) :: num_xy (p :: r')).
    rewrite sc_scan_cons. destruct (k0 <=? t) eqn:E; [|lia].
    rewrite (num_xy_lookup (p :: r') t s0 e0 n0).
    change (prev_lookup ((k0, (s0, e0, n0)) :: p :: r') t (s0, e0, n0))
      with (if k0 <=? t then prev_lookup (p :: r') t (s0, e0, n0) else (s0, e0, n0)).
    rewrite E. destruct (prev_lookup (p :: r') t (s0, e0, n0)) as [[s e] n]. reflexivity.
Qed.

Theorem impl_measure_spec cp q k0 v0 r : meas_tbl cp = (k0, v0) :: r -> q_ge k0 q ->
  impl_measure cp q = lift_opt (measure_map cp) q.
Proof.
  intros E Hq. unfold impl_measure, impl_measure_of. apply (wrap_prev_lift _ _ k0); auto.
  intros t Ht. apply (impl_measure_scalar _ _ _ _ _ E Ht).
Qed.

Theorem impl_number_spec cp q k0 v0 r : meas_tbl cp = (k0, v0) :: r -> q_ge k0 q ->
  impl_number cp q = lift (measure_number_map cp) q.
Proof.
  intros E Hq. unfold impl_number, impl_number_of, lift. apply (wrap_prev_lift _ _ k0); auto.
  intros t Ht. exact (impl_number_scalar _ _ _ _ _ E Ht).
Qed.

(* ---- metrical position *)
Lemma bar_tbl_lookup : forall bl t b d,
  prev_lookup (bar_tbl bl) t (b, d) =
  (prev_lookup (map (fun x => (x, x)) (removelast bl)) t b, prev_lookup (mp_dur_tbl bl) t d).
Proof.
  induction bl as [|a r IH]; intros; [reflexivity|].
  destruct r as [|a1 r']; [reflexivity|].
  change (bar_tbl (a :: a1 :: r')) with ((a, (a, a1 - a)) :: bar_tbl (a1 :: r')).
  change (removelast (a :: a1 :: r')) with (a :: removelast (a1 :: r')).
  change (mp_dur_tbl (a :: a1 :: r')) with ((a, a1 - a) :: mp_dur_tbl (a1 :: r')).
  cbn [prev_lookup map]. destruct (a <=? t); [apply IH | reflexivity].
Qed.

Lemma mp_pair_scalar b0 b1 b2 rest t : b0 <= t ->
  let bl := b0 :: b1 :: b2 :: rest in
  mp_pair bl t (scalar_of (wrap_prev (mp_dur_tbl bl)) t) =
  Some (let '(b, d) := prev_lookup (bar_tbl bl) t (b0, b1 - b0) in (t - b, d)).
Proof.
  intros Ht bl. unfold scalar_of, wrap_prev.
  change (mp_dur_tbl bl) with ((b0, b1 - b0) :: (b1, b2 - b1) :: mp_dur_tbl (b2 :: rest)).
  change (Nat.ltb 1 (List.length ((b0, b1 - b0) :: (b1, b2 - b1) :: mp_dur_tbl (b2 :: rest)))) with true. cbv iota.
  rewrite sc_scan_cons. destruct (b0 <=? t) eqn:E; [|lia].
  rewrite bar_tbl_lookup. unfold mp_pair, ppoly_lin, bl.
  change (mp_dur_tbl (b0 :: b1 :: b2 :: rest)) with ((b0, b1 - b0) :: (b1, b2 - b1) :: mp_dur_tbl (b2 :: rest)).
  change (prev_lookup ((b0, b1 - b0) :: (b1, b2 - b1) :: mp_dur_tbl (b2 :: rest)) t (b1 - b0))
    with (if b0 <=? t then prev_lookup ((b1, b2 - b1) :: mp_dur_tbl (b2 :: rest)) t (b1 - b0) else b1 - b0).
  rewrite E. reflexivity.
Qed.

Definition endf (row : Z * (Z * Z * option Z)) : Z := let '(_, (_, e, _)) := row in e.

Lemma last_cons : forall (r : list Z) x d, last (x :: r) d = last r x.
Proof. induction r as [|a r IH]; intros; [reflexivity|]. change (last (x :: a :: r) d) with (last (a :: r) d). rewrite IH, IH. reflexivity. Qed.

Lemma last_end_last : forall r e d, last_end r e = last (e :: map endf r) d.
Proof.
  induction r as [|[k [[s e1] n]] r IH]; intros; [reflexivity|].
  change (last_end ((k, (s, e1, n)) :: r) e) with (last_end r e1).
  change (map endf ((k, (s, e1, n)) :: r)) with (e1 :: map endf r).
  change (last (e :: e1 :: map endf r) d) with (last (e1 :: map endf r) d). apply IH.
Qed.

Lemma last1_ends mt : mt <> [] -> last1 (map endf mt) = [last_end mt 0].
Proof.
  destruct mt as [|[k [[s e] n]] r]; [congruence|]. intros _.
  change (last1 (map endf ((k, (s, e, n)) :: r))) with [last (map endf r) e].
  change (last_end ((k, (s, e, n)) :: r) 0) with (last_end r e).
  rewrite (last_end_last r e 0), last_cons. reflexivity.
Qed.

Lemma meas_row_of_containing mt k s e n t : meas_wf mt -> In (k, (s, e, n)) mt -> s <= t < e ->
  meas_row_of mt t = Some (s, e, n).
Proof.
  intros Hw Hin Ht. pose proof (meas_wf_in_force _ _ _ _ _ _ Hw Hin Ht) as Hf.
  unfold meas_row_of. destruct mt as [|[k0 v0] r]; [inversion Hin|]. f_equal.
  destruct Hf as [k' [Hin' [Hle Hmax]]].
  pose proof (meas_wf_keys_incr _ Hw) as Hk.
  apply (in_force_unique ((k0, v0) :: r) t _ _ Hk).
  - exact (prev_lookup_in_force _ t v0 k' _ Hk Hin' Hle).
  - exists k'; auto.
Qed.

Lemma first_key_le mt k0 v0 r k v : meas_wf mt -> mt = (k0, v0) :: r -> In (k, v) mt -> k0 <= k.
Proof.
  intros Hw -> [E|Hin]; [inversion E; lia|].
  pose proof (keys_incr_gt r k0 v0 (meas_wf_keys_incr _ Hw) _ _ Hin). lia.
Qed.

Lemma mp_lookup_containing mt k s e n t : meas_wf mt -> In (k, (s, e, n)) mt -> s <= t < e ->
  mp_lookup mt t = (s, e).
Proof.
  intros Hw Hin Ht. unfold mp_lookup. destruct mt as [|[k0 v0] r] eqn:E; [inversion Hin|].
  assert (k0 <= t) as Hk.
  { pose proof (first_key_le _ _ _ _ _ _ Hw eq_refl Hin). destruct (meas_wf_row _ _ _ _ _ Hw Hin). lia. }
  rewrite (impl_measure_scalar _ _ _ _ _ eq_refl Hk).
  rewrite (meas_row_of_containing _ _ _ _ _ _ Hw Hin Ht). reflexivity.
Qed.

(* the written start of every measure lies inside the row the (corrected) table has for it *)
Definition covers (w : Z) (row : Z * (Z * Z * option Z)) : Prop := let '(k, (s, e, _)) := row in k = s /\ s <= w < e.

Lemma mp_lookups mt : meas_wf mt -> forall ws rows, Forall2 covers ws rows -> (forall row, In row rows -> In row mt) ->
  map (fun k => fst (mp_lookup mt k)) ws = map fst rows /\ map (fun k => snd (mp_lookup mt k)) ws = map endf rows.
Proof.
  intros Hw ws rows H. induction H as [|w [k [[s e] n]] ws rows Hc H IH]; intros Hsub; [split; reflexivity|].
  destruct IH as [A B]; [intros row Hr; apply Hsub; right; exact Hr|].
  destruct Hc as [-> Hse].
  rewrite !map_cons, A, B, (mp_lookup_containing mt s s e n w Hw (Hsub _ (or_introl eq_refl)) Hse). split; reflexivity.
Qed.

Lemma covers_self : forall l, meas_wf l -> Forall2 covers (map fst l) l.
Proof.
  induction l as [|[k [[s e] n]] r IH]; intros H; [constructor|].
  destruct H as [Hk [Hse [_ Hr]]]. constructor; [simpl; lia | auto].
Qed.

Lemma mp_barlines_eq cp : meas_wf (c_meas cp) -> c_meas cp <> [] ->
  mp_barlines (meas_tbl cp) (map fst (c_meas cp)) = barlines cp.
Proof.
  intros Hw Hne. pose proof (meas_tbl_wf _ Hw) as Hw'.
  assert (Forall2 covers (map fst (c_meas cp)) (meas_tbl cp)) as Hc.
  { destruct (pickup_len cp) as [len|] eqn:Ep.
    - destruct (c_meas cp) as [|[s0 [[x e0] n0]] r] eqn:E; [congruence|].
      rewrite (meas_tbl_pickup _ _ _ _ _ _ _ E Ep).
      pose proof (pickup_len_ge _ _ _ _ _ _ _ E Ep) as Hge.
      pose proof Hw as Hw2. destruct Hw2 as [Hk [Hse [_ Hr]]]. constructor; [simpl; lia | apply covers_self; auto].
    - rewrite (meas_tbl_nopickup _ Ep). apply covers_self; auto. }
  destruct (mp_lookups _ Hw' _ _ Hc (fun row H => H)) as [A B].
  unfold mp_barlines, mp_ms, mp_me, barlines. rewrite A, B. f_equal. apply last1_ends.
  intros E. rewrite E in Hc. inversion Hc as [E2|]. apply Hne. destruct (c_meas cp); [reflexivity | discriminate].
Qed.

Lemma meas_tbl_length cp : List.length (meas_tbl cp) = List.length (c_meas cp).
Proof.
  unfold meas_tbl. destruct (c_meas cp) as [|[s0 [[x e0] n0]] r]; [reflexivity|].
  destruct (pickup_len cp); reflexivity.
Qed.

Lemma map2_map {A B C} (f : A -> B -> C) (g : A -> B) : forall l, map2 f l (map g l) = map (fun t => f t (g t)) l.
Proof. induction l; simpl; auto. f_equal; auto. Qed.

(* metrical_position_map as built = the position model of Model/C10, for scalar and vector queries at or
   after the first barline; well-formed measures (non-empty, none starting before the previous one ends) *)
Theorem impl_metpos_spec cp q k0 v0 r : meas_wf (c_meas cp) -> meas_tbl cp = (k0, v0) :: r -> q_ge k0 q ->
  impl_metpos cp q = lift (metpos cp) q.
Proof.
  intros Hw E Hq. unfold impl_metpos, impl_metpos_of. rewrite map_length, <- meas_tbl_length.
  destruct (List.length (meas_tbl cp) <? 2)%nat eqn:El.
  - apply Nat.ltb_lt in El.
    destruct q as [t|l]; unfold lift, lift_opt; [rewrite (metpos_few cp t El); reflexivity|].
    f_equal. apply map_ext. intros t. rewrite (metpos_few cp t El). reflexivity.
  - apply Nat.ltb_ge in El. rewrite mp_barlines_eq; auto.
    2:{ intros E0. pose proof (meas_tbl_length cp) as L. rewrite E, E0 in L. simpl in L. discriminate. }
    destruct r as [|m2 r']; [rewrite E in El; simpl in El; lia|].
    assert (exists b1 b2 rest, barlines cp = k0 :: b1 :: b2 :: rest) as [b1 [b2 [rest Eb]]].
    { unfold barlines. rewrite E. destruct m2 as [k1 v1].
      set (le := last_end ((k0, v0) :: (k1, v1) :: r') 0).
      change (map fst ((k0, v0) :: (k1, v1) :: r') ++ [le]) with (k0 :: k1 :: (map fst r' ++ [le])).
      destruct (map fst r' ++ [le]) as [|b2 rest] eqn:E2.
      - apply app_eq_nil in E2. destruct E2 as [_ E2]. discriminate.
      - exists k1, b2, rest. reflexivity. }
    assert (forall t, k0 <= t -> mp_pair (barlines cp) t (scalar_of (wrap_prev (mp_dur_tbl (barlines cp))) t) = Some (metpos cp t)) as Hs.
    { intros t Ht. rewrite Eb. rewrite (mp_pair_scalar k0 b1 b2 rest t Ht).
      unfold metpos, metpos_of. rewrite E, Eb. reflexivity. }
    destruct (wrap_prev_vector (mp_dur_tbl (barlines cp))) as [Hv Hsc].
    destruct q as [t|l]; unfold lift, lift_opt.
    + simpl in Hq. specialize (Hs t Hq). unfold scalar_of in Hs. destruct (Hsc t) as [a Ea]. rewrite Ea in *.
      rewrite Hs. reflexivity.
    + rewrite Hv, map2_map. f_equal. apply map_ext_in. intros t Ht. apply Hs.
      simpl in Hq. rewrite Forall_forall in Hq. auto.
Qed.

(* ---- "scalar and array queries agree": for EVERY part and EVERY vector of positions (any length, any order,
   repeated positions), each map returns one row per position, equal to what the scalar call returns there *)
Lemma impl_metpos_vector mt w l :
  impl_metpos_of mt w (QVec l) = RVec (map (scalar_of (impl_metpos_of mt w)) l).
Proof.
  unfold scalar_of, impl_metpos_of. destruct (List.length w <? 2)%nat; [reflexivity|].
  destruct (wrap_prev_vector (mp_dur_tbl (mp_barlines mt w))) as [Hv Hs].
  rewrite Hv, map2_map. f_equal. apply map_ext. intros t.
  destruct (Hs t) as [a Ea]. unfold scalar_of. rewrite Ea. reflexivity.
Qed.

Theorem query_shapes_agree cp l :
  impl_ts cp (QVec l) = RVec (map (scalar_of (impl_ts cp)) l) /\
  impl_ks cp (QVec l) = RVec (map (scalar_of (impl_ks cp)) l) /\
  impl_clef cp (QVec l) =
    map (fun s => RVec (map (scalar_of (wrap_prev (clef_rows cp s))) l)) (zrange 1 (Z.to_nat (c_nstaves cp))) /\
  impl_measure cp (QVec l) = RVec (map (scalar_of (impl_measure cp)) l) /\
  impl_number cp (QVec l) = RVec (map (scalar_of (impl_number cp)) l) /\
  impl_metpos cp (QVec l) = RVec (map (scalar_of (impl_metpos cp)) l).
Proof.
  split; [apply wrap_prev_vector|]. split; [apply wrap_prev_vector|]. split.
  - unfold impl_clef. apply map_ext. intros s. apply wrap_prev_vector.
  - split; [apply wrap_prev_vector|]. split; [apply wrap_prev_vector|]. apply impl_metpos_vector.
Qed.

(* ---- the statement at code level: what the code returns for a scalar query on the timeline *)
Theorem code_ts_in_force cp t : keys_incr (ts_tbl cp) -> c_first cp <= t ->
  (ts_tbl cp = [] -> impl_ts cp (QScalar t) = RScalar (Some (4, 4, 4))) /\
  (forall v, in_force (ts_tbl cp) t v -> impl_ts cp (QScalar t) = RScalar (Some v)) /\
  (forall t0 v0 r, ts_tbl cp = (t0, v0) :: r -> t < t0 -> impl_ts cp (QScalar t) = RScalar (Some v0)).
Proof.
  intros Hk Ht. rewrite (impl_ts_spec cp (QScalar t) Ht). unfold lift, lift_opt.
  destruct (ts_map_spec cp t Hk) as [A [B C]]. split; [intros E; rewrite (A E); reflexivity|]. split.
  - intros v Hv. rewrite (B v Hv). reflexivity.
  - intros t0 v0 r E Hlt. rewrite (C t0 v0 r E); [reflexivity|].
    intros k v Hin. rewrite E in Hin, Hk. destruct Hin as [Hin|Hin]; [inversion Hin; subst; lia|].
    pose proof (keys_incr_gt r t0 v0 Hk k v Hin). lia.
Qed.

Theorem code_ks_in_force cp t : keys_incr (c_kss cp) -> c_first cp <= t ->
  (c_kss cp = [] -> impl_ks cp (QScalar t) = RScalar (Some (0, 1))) /\
  (forall v, in_force (c_kss cp) t v -> impl_ks cp (QScalar t) = RScalar (Some v)) /\
  (forall t0 v0 r, c_kss cp = (t0, v0) :: r -> t < t0 -> impl_ks cp (QScalar t) = RScalar (Some v0)).
Proof.
  intros Hk Ht. rewrite (impl_ks_spec cp (QScalar t) Ht). unfold lift, lift_opt.
  destruct (ks_map_spec cp t Hk) as [A [B C]]. split; [intros E; rewrite (A E); reflexivity|]. split.
  - intros v Hv. rewrite (B v Hv). reflexivity.
  - intros t0 v0 r E Hlt. rewrite (C t0 v0 r E); [reflexivity|].
    intros k v Hin. rewrite E in Hin, Hk. destruct Hin as [Hin|Hin]; [inversion Hin; subst; lia|].
    pose proof (keys_incr_gt r t0 v0 Hk k v Hin). lia.
Qed.

(* clef_map: row s - 1 of the stacked result is staff s; a staff without clef gives the "none" clef *)
Theorem code_clef_in_force cp s t : keys_incr (staff_tbl cp s) -> c_first cp <= t -> 1 <= s <= c_nstaves cp ->
  let row := nth (Z.to_nat (s - 1)) (impl_clef cp (QScalar t)) (RScalar None) in
  (staff_tbl cp s = [] -> row = RScalar (Some (s, 6, 0, 0))) /\
  (forall v, in_force (staff_tbl cp s) t v -> row = RScalar (Some v)) /\
  (forall t0 v0 r, staff_tbl cp s = (t0, v0) :: r -> t < t0 -> row = RScalar (Some v0)).
Proof.
  intros Hk Ht Hs row.
  assert (row = RScalar (Some (clef_staff cp s t))) as ->.
  { unfold row. rewrite (impl_clef_spec cp (QScalar t) Ht).
    rewrite (nth_indep _ (RScalar None) ((fun s => lift (clef_staff cp s) (QScalar t)) 0))
      by (rewrite map_length, zrange_length; lia).
    rewrite (map_nth (fun s => lift (clef_staff cp s) (QScalar t))). rewrite zrange_nth by lia.
    unfold lift, lift_opt. do 3 f_equal. lia. }
  destruct (clef_staff_spec cp s t Hk) as [A [B C]]. split; [intros E; rewrite (A E); reflexivity|]. split.
  - intros v Hv. rewrite (B v Hv). reflexivity.
  - intros t0 v0 r E Hlt. rewrite (C t0 v0 r E); [reflexivity|].
    intros k v Hin. rewrite E in Hin, Hk. destruct Hin as [Hin|Hin]; [inversion Hin; subst; lia|].
    pose proof (keys_incr_gt r t0 v0 Hk k v Hin). lia.
Qed.

(* the measure clause at code level: extent, number and position of the measure CONTAINING t *)
Theorem code_measure_containing cp t k s e n : meas_wf (c_meas cp) ->
  In (k, (s, e, n)) (meas_tbl cp) -> s <= t < e ->
  impl_measure cp (QScalar t) = RScalar (Some (s, e)) /\
  impl_number cp (QScalar t) = RScalar (Some n) /\
  ((2 <= List.length (c_meas cp))%nat -> meas_contig (c_meas cp) ->
   impl_metpos cp (QScalar t) = RScalar (Some (t - s, e - s))).
Proof.
  intros Hw Hin Ht. pose proof (meas_tbl_wf _ Hw) as Hw'.
  destruct (meas_tbl cp) as [|[k0 v0] r] eqn:E; [inversion Hin|].
  assert (k0 <= t) as Hk.
  { pose proof (first_key_le _ _ _ _ _ _ Hw' eq_refl Hin). destruct (meas_wf_row _ _ _ _ _ Hw' Hin). lia. }
  rewrite <- E in Hin, Hw'.
  destruct (measure_containing cp t k s e n Hw' Hin Ht) as [A B].
  split; [|split].
  - rewrite (impl_measure_spec cp (QScalar t) k0 v0 r E Hk). unfold lift_opt. rewrite A. reflexivity.
  - rewrite (impl_number_spec cp (QScalar t) k0 v0 r E Hk). unfold lift, lift_opt. rewrite B. reflexivity.
  - intros Hl Hc. rewrite (impl_metpos_spec cp (QScalar t) k0 v0 r Hw E Hk). unfold lift, lift_opt.
    rewrite <- meas_tbl_length, E in Hl. destruct r as [|m2 r']; [simpl in Hl; lia|].
    rewrite (metpos_containing cp t k s e n (k0, v0) m2 r' E Hw' (meas_tbl_contig _ Hc) Hin Ht). reflexivity.
Qed.

(* non-vacuity on the worked part of Proofs/C10 (pickup, two key signatures, a staff without clef): a permuted
   vector with a repeated position and a one-element vector *)
Example ex10_queries :
  impl_ts ex10 (QVec [25; 0; 25]) = RVec [Some (4, 4, 4); Some (4, 4, 4); Some (4, 4, 4)] /\
  impl_ks ex10 (QVec [20; 19]) = RVec [Some (2, 1); Some (-3, -1)] /\
  impl_ks ex10 (QScalar 19) = RScalar (Some (-3, -1)) /\
  impl_clef ex10 (QVec [25]) = [RVec [Some (1, 1, 4, 0)]; RVec [Some (2, 6, 0, 0)]] /\
  impl_measure ex10 (QVec [2; 25]) = RVec [Some (-12, 4); Some (20, 36)] /\
  impl_number ex10 (QVec [25]) = RVec [Some (Some 1)] /\
  impl_metpos ex10 (QVec [25; 2]) = RVec [Some (5, 16); Some (14, 16)] /\
  impl_metpos ex10 (QScalar 2) = RScalar (Some (14, 16)) /\
  impl_measure ex10_single (QVec [3]) = RVec [Some (0, 16)] /\
  nstaves_impl [Some 1; None] [Some 2] [] [Some 4; None] = 4.
Proof. vm_compute. repeat split; reflexivity. Qed.
