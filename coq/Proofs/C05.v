(* C05 -- proofs about the note-array model (Model/C05.v). *)
From PV Require Import Lib.Base Model.C05 Model.C05_Spec Proofs.C05_lib Proofs.C05_ties.
From Coq Require Import QArith Qabs Sorting.Sorted Permutation.
#[local] Open Scope Z_scope.

(* ---------- rows of a part ---------- *)

Definition fix_voice (mv : Z) (r : row) : row :=
  if Z.eqb (r_voice r) (-1) then set_voice r (mv + 1) else r.

Lemma sanitize_voices_map rows : sanitize_voices rows = map (fix_voice (max_voice rows)) rows.
Proof. reflexivity. Qed.

Lemma r_core_fix_voice mv r : r_core (fix_voice mv r) = r_core r.
Proof. unfold fix_voice. destruct (Z.eqb (r_voice r) (-1)); reflexivity. Qed.

Lemma raw_rows_spec ns mp divs : forall heads rows, raw_rows ns mp divs heads = Some rows ->
  Forall2 (fun h r => exists d, duration_tied ns (List.length ns) h = Some d /\ r = raw_row mp divs h d)
          heads rows.
Proof.
  induction heads as [|h t IH]; simpl; intros rows H.
  - injection H as <-. constructor.
  - destruct (duration_tied ns (List.length ns) h) as [d|] eqn:D; [|discriminate].
    destruct (raw_rows ns mp divs t) as [rs|] eqn:R; [|discriminate].
    injection H as <-. constructor; [exists d; auto | apply IH; reflexivity].
Qed.

Lemma raw_row_core ns mp divs h d :
  duration_tied ns (List.length ns) h = Some d -> r_core (raw_row mp divs h d) = head_core ns h.
Proof.
  intros D. unfold head_core, r_core, raw_row. rewrite D.
  destruct (m_mp mp (n_start h)). reflexivity.
Qed.

Lemma raw_row_matches mp divs h d : row_matches mp divs h d (raw_row mp divs h d).
Proof.
  unfold row_matches, raw_row. destruct (m_mp mp (n_start h)) as [rel tot]. simpl.
  repeat (split; [try reflexivity|]); try reflexivity; rewrite H; reflexivity.
Qed.

Lemma row_matches_fix_voice mp divs h d mv r :
  row_matches mp divs h d r -> row_matches mp divs h d (fix_voice mv r).
Proof. unfold fix_voice. destruct (Z.eqb (r_voice r) (-1)); auto. Qed.

Lemma array_of_core ns mp divs sel rows : array_of ns mp divs sel = Some rows ->
  Permutation (map r_core rows) (map (head_core ns) sel).
Proof.
  unfold array_of. destruct (raw_rows ns mp divs sel) as [rows0|] eqn:R; [|discriminate].
  intros H; injection H as <-.
  etransitivity; [apply Permutation_map; symmetry; apply sort_rows_perm|].
  rewrite sanitize_voices_map, map_map.
  rewrite (map_ext _ r_core (r_core_fix_voice _)).
  apply raw_rows_spec in R. clear -R.
  induction R as [|h r hs rs [d [D ->]] _ IH]; simpl; [constructor|].
  rewrite (raw_row_core ns mp divs h d D). apply perm_skip, IH.
Qed.

(* voices: a stated voice is copied; notes without voice all get one number above every stated voice *)
Definition voice_ok (sel : list note) (h : note) (r : row) : Prop :=
  (forall v, n_voice h = Some v -> v <> -1 -> r_voice r = v) /\
  (n_voice h = None -> forall h' v', In h' sel -> n_voice h' = Some v' -> v' < r_voice r).

Lemma fold_max_ge (l : list row) : forall a,
  a <= fold_left (fun m x => Z.max m (r_voice x)) l a /\
  forall x, In x l -> r_voice x <= fold_left (fun m x => Z.max m (r_voice x)) l a.
Proof.
  induction l as [|y r IH]; simpl; intros a; [split; [lia | tauto]|].
  destruct (IH (Z.max a (r_voice y))) as [H1 H2]. split; [lia|].
  intros x [<-|Hx]; [lia | apply H2, Hx].
Qed.

Lemma max_voice_ge rows x : In x rows -> r_voice x <= max_voice rows.
Proof.
  destruct rows as [|y r]; simpl; [tauto|].
  destruct (fold_max_ge r (r_voice y)) as [H1 H2].
  intros [<-|Hx]; [exact H1 | apply H2, Hx].
Qed.

Lemma array_of_rows ns mp divs sel rows : array_of ns mp divs sel = Some rows ->
  forall r, In r rows ->
  exists h d, In h sel /\ duration_tied ns (List.length ns) h = Some d /\
              row_matches mp divs h d r /\ voice_ok sel h r.
Proof.
  unfold array_of. destruct (raw_rows ns mp divs sel) as [rows0|] eqn:R; [|discriminate].
  intros H; injection H as <-. intros r Hr.
  apply (proj1 (sort_rows_In _ _)) in Hr. rewrite sanitize_voices_map in Hr.
  apply in_map_iff in Hr as [r0 [<- Hr0]].
  apply raw_rows_spec in R.
  assert (G : forall x, In x rows0 -> exists h d, In h sel /\
              duration_tied ns (List.length ns) h = Some d /\ x = raw_row mp divs h d).
  { clear -R. induction R as [|h r hs rs [d [D ->]] _ IH]; simpl; [tauto|].
    intros x [<-|Hx].
    - exists h, d. auto.
    - destruct (IH x Hx) as [h' [d' [A [B C]]]]. exists h', d'. auto. }
  assert (V : forall h' v', In h' sel -> n_voice h' = Some v' -> v' <= max_voice rows0).
  { intros h' v' Hh' Hv'.
    assert (exists x, In x rows0 /\ r_voice x = v') as [x [Hx <-]].
    { clear -R Hh' Hv'. induction R as [|h r hs rs [d [D ->]] _ IH]; simpl in *; [tauto|].
      destruct Hh' as [->|Hh'].
      - eexists. split; [left; reflexivity|]. unfold raw_row.
        destruct (m_mp mp (n_start h')). simpl. rewrite Hv'. reflexivity.
      - destruct (IH Hh') as [x [A B]]. exists x. auto. }
    apply max_voice_ge, Hx. }
  destruct (G r0 Hr0) as [h [d [Hh [D ->]]]].
  exists h, d. split; [assumption|]. split; [assumption|].
  split; [apply row_matches_fix_voice, raw_row_matches|]. split.
  - intros v Hv Hne. unfold fix_voice, raw_row. destruct (m_mp mp (n_start h)). simpl.
    rewrite Hv. simpl. destruct (Z.eqb v (-1)) eqn:E; [lia | simpl; reflexivity].
  - intros Hn h' v' Hh' Hv'. specialize (V h' v' Hh' Hv').
    unfold fix_voice, raw_row. destruct (m_mp mp (n_start h)). simpl. rewrite Hn. simpl. lia.
Qed.

(* the four statements about a part's note array *)
Lemma rows_are_chain_heads_lemma ns mp divs rows : note_array ns mp divs = Some rows ->
  Permutation (map r_core rows) (map (head_core ns) (notes_tied (sounding ns))).
Proof. apply array_of_core. Qed.

Lemma rows_sorted_lemma ns mp divs rows : note_array ns mp divs = Some rows -> StronglySorted lexle rows.
Proof.
  unfold note_array, array_of. destruct (raw_rows _ _ _ _); [|discriminate].
  intros H; injection H as <-. apply sort_rows_sorted.
Qed.

Lemma rest_rows_sorted_lemma ns mp divs rows : rest_array ns mp divs = Some rows -> StronglySorted lexle rows.
Proof.
  unfold rest_array, array_of. destruct (raw_rows _ _ _ _); [|discriminate].
  intros H; injection H as <-. apply sort_rows_sorted.
Qed.

Lemma columns_spec_lemma ns mp divs rows : note_array ns mp divs = Some rows ->
  forall r, In r rows ->
  exists h d, In h (notes_tied (sounding ns)) /\ duration_tied ns (List.length ns) h = Some d /\
              row_matches mp divs h d r /\ voice_ok (notes_tied (sounding ns)) h r.
Proof. apply array_of_rows. Qed.

Lemma rest_rows_lemma ns mp divs rows : rest_array ns mp divs = Some rows ->
  Permutation (map r_core rows) (map (head_core ns) (filter n_rest ns)) /\
  forall r, In r rows ->
  exists h d, In h (filter n_rest ns) /\ duration_tied ns (List.length ns) h = Some d /\
              row_matches mp divs h d r /\ voice_ok (filter n_rest ns) h r.
Proof. intros H. split; [eapply array_of_core; eauto | eapply array_of_rows; eauto]. Qed.

(* the note array is defined whenever the tie links are well formed *)
Lemma raw_rows_total ns mp divs : wf_ties ns -> forall sel, incl sel ns ->
  exists rows, raw_rows ns mp divs sel = Some rows.
Proof.
  intros W. induction sel as [|h t IH]; simpl; intros I; [eexists; reflexivity|].
  destruct (duration_tied_total_lemma ns W h (I h (or_introl eq_refl))) as [l [_ D]].
  rewrite D. destruct IH as [rows R]; [intros x Hx; apply I; right; exact Hx|].
  rewrite R. eexists; reflexivity.
Qed.

Lemma note_array_total_lemma ns mp divs : wf_ties ns -> exists rows, note_array ns mp divs = Some rows.
Proof.
  intros W. unfold note_array, array_of.
  destruct (raw_rows_total ns mp divs W (notes_tied (sounding ns))) as [rows R].
  - intros x Hx. unfold notes_tied, sounding in Hx.
    apply filter_In in Hx as [Hx _]. apply filter_In in Hx as [Hx _]. exact Hx.
  - unfold sounding in R. rewrite R. eexists; reflexivity.
Qed.

Example ex_note_array :
  option_map (map (fun r => (r_core r, r_voice r, r_staff r, r_is_grace r)))
             (note_array ex_notes (maps_of [] [] []) 4)
  = Some [ (("a", 0, 12, 60), 1, 0, false); (("c", 4, 2, 63), 2, 2, true) ]%string.
Proof. vm_compute. reflexivity. Qed.

(* ---------- score level ---------- *)

Lemma score_rows_union_lemma uniq parts :
  let u := uniq && (1 <? Z.of_nat (List.length parts)) in
  Permutation (score_array uniq parts) (List.concat (prep_parts u (score_lcm parts) 0 parts)) /\
  StronglySorted lexle (score_array uniq parts).
Proof.
  cbv zeta. unfold score_array. split; [symmetry; apply sort_rows_perm | apply sort_rows_sorted].
Qed.

Definition prep_row (u : bool) (L : Z) (i : Z) (p : list row) (r0 : row) : row :=
  rescale (L / match p with r :: _ => r_divs r | [] => 1 end)
          (if u then set_id r0 (part_prefix i ++ r_id r0)%string else r0).

Lemma prep_part_In u L i p r : In r (prep_part u L i p) -> exists r0, In r0 p /\ r = prep_row u L i p r0.
Proof.
  unfold prep_part, prep_row. destruct p as [|r1 t]; [intros []|].
  intros H. apply in_map_iff in H as [r0 [<- H0]]. exists r0. auto.
Qed.

Lemma prep_parts_In u L : forall parts i r, In r (List.concat (prep_parts u L i parts)) ->
  exists j p r0, nth_error parts j = Some p /\ In r0 p /\ r = prep_row u L (i + Z.of_nat j) p r0.
Proof.
  induction parts as [|p t IH]; simpl; intros i r H; [tauto|].
  apply in_app_or in H as [H|H].
  - apply prep_part_In in H as [r0 [H0 ->]]. exists O, p, r0. simpl. rewrite Z.add_0_r. auto.
  - destruct (IH (i + 1) r H) as [j [p' [r0 [N [H0 ->]]]]].
    exists (S j), p', r0. simpl. repeat split; auto. f_equal. lia.
Qed.

Lemma part_divs_in parts p r t : In p parts -> p = r :: t -> In (r_divs r) (flat_map part_divs parts).
Proof. intros H ->. apply in_flat_map. exists (r :: t). split; [assumption | left; reflexivity]. Qed.

Lemma inject_Z_nonzero z : z <> 0 -> ~ inject_Z z == 0.
Proof. intros H E. unfold Qeq, inject_Z in E. simpl in E. lia. Qed.

(* rescaling to a multiple of the divisions keeps the position in quarters (needs only d | L) *)
Lemma rescale_preserves_quarters_lemma d L t :
  0 < d -> 0 < L -> (d | L) -> beat_of_div L (t * (L / d)) == beat_of_div d t.
Proof.
  intros Hd HL [k Hk]. unfold beat_of_div. subst L. rewrite Z.div_mul by lia.
  assert (k <> 0) by (intros ->; lia).
  rewrite !inject_Z_mult. field. split; apply inject_Z_nonzero; lia.
Qed.

(* every row of the score array is the rescaled (and prefixed) row of one part array *)
Lemma score_rows_origin_lemma uniq parts :
  Forall (fun p => exists d, 0 < d /\ Forall (fun r => r_divs r = d) p) parts ->
  forall r, In r (score_array uniq parts) ->
  exists j p r0 d, nth_error parts j = Some p /\ In r0 p /\ r_divs r0 = d /\ 0 < d /\
    r_divs r = score_lcm parts /\ (d | score_lcm parts) /\
    beat_of_div (r_divs r) (r_onset r) == beat_of_div d (r_onset r0) /\
    beat_of_div (r_divs r) (r_dur r) == beat_of_div d (r_dur r0) /\
    r_pitch r = r_pitch r0 /\ r_voice r = r_voice r0 /\
    r_id r = (if uniq && (1 <? Z.of_nat (List.length parts))
              then (part_prefix (Z.of_nat j) ++ r_id r0)%string else r_id r0).
Proof.
  intros U r Hr. unfold score_array in Hr. apply (proj1 (sort_rows_In _ _)) in Hr.
  apply prep_parts_In in Hr as [j [p [r0 [N [H0 ->]]]]].
  assert (Hp : In p parts) by (eapply nth_error_In; eauto).
  rewrite Forall_forall in U. destruct (U p Hp) as [d [Hd Ud]].
  rewrite Forall_forall in Ud.
  destruct p as [|r1 t]; [destruct H0|].
  assert (D1 : r_divs r1 = d) by (apply Ud; left; reflexivity).
  assert (D0 : r_divs r0 = d) by (apply Ud; exact H0).
  assert (Dv : (d | score_lcm parts)).
  { unfold score_lcm. apply lcm_list_divides. rewrite <- D1. eapply part_divs_in; eauto. }
  assert (LP : 0 < score_lcm parts).
  { unfold score_lcm. apply lcm_list_pos. apply Forall_forall. intros x Hx.
    apply in_flat_map in Hx as [q [Hq Hx]]. destruct q as [|r2 t2]; [destruct Hx|].
    destruct Hx as [<-|[]]. destruct (U _ Hq) as [d2 [Hd2 U2]]. rewrite Forall_forall in U2.
    rewrite (U2 r2 (or_introl eq_refl)). exact Hd2. }
  exists j, (r1 :: t), r0, d. unfold prep_row. rewrite D1. simpl Z.add.
  set (u := uniq && (1 <? Z.of_nat (List.length parts))).
  assert (RD : r_divs (rescale (score_lcm parts / d) (if u then set_id r0 (part_prefix (Z.of_nat j) ++ r_id r0)%string else r0))
               = score_lcm parts).
  { destruct u; simpl; rewrite D0; apply divide_mul_div; assumption. }
  repeat split; try assumption.
  - rewrite RD. destruct u; simpl; apply rescale_preserves_quarters_lemma; assumption.
  - rewrite RD. destruct u; simpl; apply rescale_preserves_quarters_lemma; assumption.
  - destruct u; reflexivity.
  - destruct u; reflexivity.
  - destruct u; reflexivity.
Qed.

(* ---------- id prefixes ---------- *)

Lemma digit_length d : String.length (digit d) = 1%nat.
Proof.
  destruct d as [|p|p]; try reflexivity.
  do 4 (try destruct p as [p|p|]; try reflexivity).
Qed.

Lemma string_app_length a b : String.length (a ++ b) = (String.length a + String.length b)%nat.
Proof. induction a as [|c a IH]; simpl; [reflexivity | rewrite IH; reflexivity]. Qed.

Lemma part_prefix_length i : String.length (part_prefix i) = 4%nat.
Proof.
  unfold part_prefix. rewrite !string_app_length, !digit_length. reflexivity.
Qed.

Lemma app_same_length_inj : forall a b s t,
  String.length a = String.length b -> (a ++ s = b ++ t)%string -> a = b /\ s = t.
Proof.
  induction a as [|c a IH]; intros [|c' b] s t L E; simpl in *; try discriminate.
  - auto.
  - injection E as -> E. injection L as L. destruct (IH b s t L E) as [-> ->]. auto.
Qed.

Lemma part_prefix_table :
  forallb (fun i => forallb (fun j => implb (String.eqb (part_prefix i) (part_prefix j)) (Z.eqb i j))
                            (zrange 0 100)) (zrange 0 100) = true.
Proof. vm_cast_no_check (eq_refl true). Qed.

Lemma prefix_injective_lemma i j s t : 0 <= i < 100 -> 0 <= j < 100 ->
  (part_prefix i ++ s = part_prefix j ++ t)%string -> i = j /\ s = t.
Proof.
  intros Hi Hj E.
  destruct (app_same_length_inj _ _ _ _ (eq_trans (part_prefix_length i) (eq_sym (part_prefix_length j))) E)
    as [P ->].
  split; [|reflexivity].
  pose proof (forallb_In _ _ part_prefix_table i (zrange_In 0 100 i ltac:(simpl; lia))) as H1.
  cbv beta in H1.
  pose proof (forallb_In _ _ H1 j (zrange_In 0 100 j ltac:(simpl; lia))) as H2. cbv beta in H2.
  rewrite P, String.eqb_refl in H2. simpl in H2. lia.
Qed.

(* ---------- inverse direction ---------- *)

Lemma divs_from_beats_pos onsets durs : 0 < divs_from_beats onsets durs.
Proof.
  unfold divs_from_beats. apply lcm_list_pos. apply Forall_forall. intros x Hx.
  apply in_app_or in Hx as [Hx|Hx]; apply in_map_iff in Hx as [q [<- _]]; unfold qden; lia.
Qed.

Lemma to_div_exact D q : (qden q | D) -> inject_Z (to_div D q) == q * inject_Z D.
Proof.
  intros [k ->]. unfold to_div.
  replace (k * qden q * Qnum q) with (k * Qnum q * qden q) by ring.
  rewrite Z.quot_mul by (unfold qden; lia).
  destruct q as [n d]. unfold qden, Qeq, inject_Z, Qmult. simpl. lia.
Qed.

(* divisions = lcm of ALL denominators makes every onset and duration an exact integer *)
Lemma divs_from_beats_exact_lemma onsets durs q :
  In q (onsets ++ durs) ->
  inject_Z (to_div (divs_from_beats onsets durs) q) == q * inject_Z (divs_from_beats onsets durs).
Proof.
  intros H. apply to_div_exact. unfold divs_from_beats. apply lcm_list_divides.
  apply in_app_or in H. apply in_or_app. destruct H; [right | left]; apply in_map; assumption.
Qed.

Lemma divs_roundtrip_lemma onsets durs q :
  In q (onsets ++ durs) ->
  beat_of_div (divs_from_beats onsets durs) (to_div (divs_from_beats onsets durs) q) == q.
Proof.
  intros H. unfold beat_of_div. rewrite (divs_from_beats_exact_lemma onsets durs q H).
  pose proof (divs_from_beats_pos onsets durs).
  field. apply inject_Z_nonzero. lia.
Qed.

(* the defect D10 (repaired in /repo): the lcm of the duration denominators alone is not enough *)
Lemma divs_from_durations_only_insufficient_lemma :
  exists onsets durs q, In q onsets /\
    ~ inject_Z (to_div (lcm_list (map qden durs)) q) == q * inject_Z (lcm_list (map qden durs)).
Proof.
  exists [1 # 3]%Q, [1 # 2]%Q, (1 # 3)%Q. split; [left; reflexivity|].
  vm_compute. discriminate.
Qed.
