(* C16 -- T1 tie: the definitions that harness/t1.py regenerates from the SOURCE TEXT of
   _transpose_step, _transpose_note_inplace and transpose_note on every run (Gen/T1_music.v) are
   equal, for ALL arguments, to the hand model of Model/C16.v (through the string <-> index
   encoding of Model/T1_spec.v); hence the unbounded theorems of Proofs/C16.v hold of what the
   source says now.  Guard: the direction of _transpose_note_inplace is "up" or "down"
   (Interval.validate enforces it; for any other string the code moves the step down without
   ever changing the octave, which the model does not describe). *)
From PV Require Import Lib.Base Lib.Tab Lib.Py Proofs.T1_lib Proofs.T1_core.
From PV Require Model.C12 Model.C16 Gen.T1_music Proofs.C16.
From PV Require Import Model.T1_spec.
From Coq Require Import QArith Ascii.
#[local] Open Scope Z_scope.

Theorem t1_transpose_step_eq s n d : T1_music.transpose_step s n d = spec_transpose_step s n d.
Proof.
  t1_by_stub T1_music.transpose_step_is_translated ||
  (unfold T1_music.transpose_step, spec_transpose_step, C16.tr_step, is_up; rewrite ?lookup_steps_str;
   destruct (step_index (py_capitalize s)) as [i|] eqn:Ei; cbn [opt_bind]; [|reflexivity];
   apply step_index_range in Ei as [Hi _]; cbv zeta; rewrite ?lookup_steps_int;
   t1_finish).
Qed.
Theorem t1_transpose_note_inplace_eq x iv : In (i_direction iv) ["up"; "down"]%string ->
  T1_music.transpose_note_inplace x iv = spec_transpose_note_inplace x iv.
Proof.
  t1_by_stub T1_music.transpose_note_inplace_is_translated ||
  (destruct x as [s al oc], iv as [n q d]; cbn [i_direction In]; intros Hd;
   unfold T1_music.transpose_note_inplace, spec_transpose_note_inplace, is_up;
   cbn [n_step n_alter n_octave i_number i_quality i_direction set_n_step set_n_alter set_n_octave];
   t1_rw T1_music.transpose_step_is_translated T1_music.transpose_step t1_transpose_step_eq; unfold spec_transpose_step, is_up; rewrite ?py_capitalize_idem;
   destruct (String.eqb (q ++ py_str_Z n) "P1") eqn:EP1; [reflexivity|];
   autorewrite with t1;
   destruct (step_index (py_capitalize s)) as [i|] eqn:Ei;
   [ apply step_index_range in Ei as [Hi Es]; rewrite ?Es, ?capitalize_name, ?(step_index_name i Hi), ?(base_pc_name i Hi); cbn [opt_bind];
     cbn [n_step n_alter n_octave set_n_step set_n_alter set_n_octave];
     autorewrite with t1;
     destruct (C12.interval_semitones n q) as [sem|];
     unfold C16.tr_note, C16.tr_step, note_of_pitch, alter_or_0;
     destruct Hd as [<-|[<-|[]]]; cbn [String.eqb Ascii.eqb Bool.eqb andb];
     autorewrite with t1; t1_cbn; autorewrite with t1;
     t1_finish
   | cbn [opt_bind]; reflexivity ]).
Qed.

Theorem t1_transpose_note_eq s a iv : T1_music.transpose_note s a iv = spec_transpose_note s a iv.
Proof.
  t1_by_stub T1_music.transpose_note_is_translated ||
  (destruct iv as [n q d];
   unfold T1_music.transpose_note, spec_transpose_note, is_up, C16.tn_note, C16.step2pc; t1_cbn;
   t1_rw T1_music.Interval_semitones_is_translated T1_music.Interval_semitones t1_Interval_semitones_eq; unfold spec_Interval_semitones; cbv zeta; t1_rewrite;
   destruct (step_index (py_capitalize s)) as [i|] eqn:Ei;
   [ apply step_index_range in Ei as [Hi Es];
     rewrite ?Es;
     (* calls are rewritten as the binds in front of them get resolved *)
     repeat (progress (t1_rewrite; t1_rw T1_music.step2pc_is_translated T1_music.step2pc t1_step2pc_eq; unfold spec_step2pc, C12.step2pc;
                       rewrite ?capitalize_name, ?(step_index_name i Hi), ?(base_pc_name i Hi), ?(in_steps7_name i Hi)));
     t1_finish
   | t1_finish ]).
Qed.

(* ---------- the unbounded theorems of Proofs/C16.v, about the translated definitions ---------- *)

Lemma is_up_dir_name up : is_up (dir_name up) = up.
Proof. destruct up; reflexivity. Qed.
Lemma dir_name_valid up : In (dir_name up) ["up"; "down"]%string.
Proof. destruct up; cbn; tauto. Qed.

Lemma interval_semitones_range n q sem : C12.interval_semitones n q = Some sem -> 1 <= n <= 7.
Proof.
  unfold C12.interval_semitones, C12.major_size. cbn [zlookup]. z_lit_left n.
  case_int_lit 1 n; [lia|]. case_int_lit 2 n; [lia|]. case_int_lit 3 n; [lia|]. case_int_lit 4 n; [lia|].
  case_int_lit 5 n; [lia|]. case_int_lit 6 n; [lia|]. case_int_lit 7 n; [lia|]. discriminate.
Qed.

(* the quality names of the code and the quality indices of Model/C16.v name the same 39 classes *)
Lemma iv_semitones_bridge n q : 0 <= q <= 6 -> C12.interval_semitones n (qual_name q) = C16.iv_semitones n q.
Proof.
  intros Hq. assert (C : q = 0 \/ q = 1 \/ q = 2 \/ q = 3 \/ q = 4 \/ q = 5 \/ q = 6) by lia.
  unfold C12.interval_semitones, C12.major_size, C16.iv_semitones. cbn [zlookup]. z_lit_left n.
  repeat (destruct C as [->|C]); subst;
  (case_int_lit 1 n; [reflexivity|]; case_int_lit 2 n; [reflexivity|]; case_int_lit 3 n; [reflexivity|];
   case_int_lit 4 n; [reflexivity|]; case_int_lit 5 n; [reflexivity|]; case_int_lit 6 n; [reflexivity|];
   case_int_lit 7 n; [reflexivity|]; replace ((1 <=? n) && (n <=? 7)) with false by lia; reflexivity).
Qed.

Lemma p1_test q n : String.eqb (q ++ py_str_Z n) "P1" = String.eqb "P" q && (1 =? n).
Proof.
  rewrite eqb_app_str_Z.
  change (int_suffix_splits "P1") with [("P"%string, 1)]. cbn [split_matches existsb fst snd]. apply orb_false_r.
Qed.

Theorem t1_transpose_inplace_spec i a o n q sem up : 0 <= i <= 6 -> C12.interval_semitones n q = Some sem ->
  T1_music.transpose_note_inplace (mk_note (step_name i) (Some a) o) (mk_interval n q (dir_name up))
  = Some (note_of_pitch (C16.tr_spec n sem up (i, a, o))).
Proof.
  intros Hi Hs. rewrite t1_transpose_note_inplace_eq by (cbn [i_direction]; apply dir_name_valid).
  pose proof (interval_semitones_range _ _ _ Hs) as Hn.
  unfold spec_transpose_note_inplace. t1_cbn. rewrite p1_test, is_up_dir_name.
  destruct (String.eqb "P" q && (1 =? n)) eqn:E.
  - apply andb_true_iff in E as [E1 E2]. apply String.eqb_eq in E1. apply Z.eqb_eq in E2. subst q n.
    assert (sem = 0) by (cbn in Hs; congruence). subst sem.
    rewrite <- (Proofs.C16.tr_note_spec_lemma true 1 0 up i a o Hi ltac:(lia) ltac:(auto)). reflexivity.
  - rewrite capitalize_name, (step_index_name i Hi), Hs. unfold alter_or_0.
    rewrite (Proofs.C16.tr_note_spec_lemma false n sem up i a o Hi Hn ltac:(discriminate)). reflexivity.
Qed.

Lemma midi_of_note i a o : 0 <= i <= 6 ->
  T1_music.Note_midi_pitch (note_of_pitch (i, a, o)) = Some (C16.midi (i, a, o)).
Proof.
  intros Hi. unfold note_of_pitch, C16.midi.
  t1_by_stub T1_music.Note_midi_pitch_is_translated || unfold T1_music.Note_midi_pitch; t1_cbn;
  t1_rw T1_music.pitch_spelling_to_midi_pitch_is_translated T1_music.pitch_spelling_to_midi_pitch t1_pitch_spelling_to_midi_pitch_eq; unfold spec_Note_midi_pitch, spec_pitch_spelling_to_midi_pitch, C12.ps_to_midi, alter_or_0; t1_cbn;
  rewrite (base_pc_name i Hi); reflexivity.
Qed.

(* the MIDI pitch of the note moves by exactly the interval's semitones *)
Theorem t1_midi_moves_by_semitones i a o n q sem up : 0 <= i <= 6 -> C12.interval_semitones n q = Some sem ->
  exists y, T1_music.transpose_note_inplace (mk_note (step_name i) (Some a) o) (mk_interval n q (dir_name up)) = Some y /\
            T1_music.Note_midi_pitch y = Some (if up then C16.midi (i, a, o) + sem else C16.midi (i, a, o) - sem).
Proof.
  intros Hi Hs. eexists. split; [exact (t1_transpose_inplace_spec i a o n q sem up Hi Hs)|].
  pose proof (Proofs.C16.tr_spec_midi n sem up (i, a, o)) as M.
  pose proof (Proofs.C16.tr_spec_diat n sem up i a o) as D.
  destruct (C16.tr_spec n sem up (i, a, o)) as [[i' a'] o']. destruct D as [Hi' _].
  rewrite midi_of_note by assumption. f_equal. exact M.
Qed.

(* up then down (down then up) by the same interval restores step, alteration and octave *)
Theorem t1_up_down_identity i a o n q sem up : 0 <= i <= 6 -> C12.interval_semitones n q = Some sem ->
  exists y, T1_music.transpose_note_inplace (mk_note (step_name i) (Some a) o) (mk_interval n q (dir_name up)) = Some y /\
            T1_music.transpose_note_inplace y (mk_interval n q (dir_name (negb up))) = Some (mk_note (step_name i) (Some a) o).
Proof.
  intros Hi Hs. pose proof (interval_semitones_range _ _ _ Hs) as Hn.
  eexists. split; [exact (t1_transpose_inplace_spec i a o n q sem up Hi Hs)|].
  pose proof (Proofs.C16.up_down_lemma false n sem up i a o Hi Hn ltac:(discriminate)) as U.
  rewrite (Proofs.C16.tr_note_spec_lemma false n sem up i a o Hi Hn ltac:(discriminate)) in U.
  pose proof (Proofs.C16.tr_spec_diat n sem up i a o) as D.
  destruct (C16.tr_spec n sem up (i, a, o)) as [[i' a'] o']. destruct D as [Hi' _].
  unfold note_of_pitch at 1. rewrite (t1_transpose_inplace_spec i' a' o' n q sem (negb up) Hi' Hs).
  rewrite <- (Proofs.C16.tr_note_spec_lemma false n sem (negb up) i' a' o' Hi' Hn ltac:(discriminate)), U. reflexivity.
Qed.

(* transpose_note (octave free) is the same arithmetic as Model/C16.tn_note *)
Theorem t1_transpose_note_spec i a n q sem up : 0 <= i <= 6 -> C12.interval_semitones n q = Some sem ->
  T1_music.transpose_note (step_name i) a (mk_interval n q (dir_name up)) =
  match C16.tn_note n sem up i a with Some (i', a') => Some (step_name i', a') | None => None end.
Proof.
  intros Hi Hs. t1_rw T1_music.transpose_note_is_translated T1_music.transpose_note t1_transpose_note_eq. unfold spec_transpose_note. t1_cbn.
  rewrite capitalize_name, (step_index_name i Hi), Hs, is_up_dir_name. reflexivity.
Qed.
