(* Proofs about Model/C02_Query.v: whatever the form of the query, every map answers position by position with the
   value of the current state, in the form and order of the query. *)
From PV Require Import Lib.Base Model.C02 Model.C02_Hist Model.C02_Api Model.C02_Req Model.C02_Query.
From PV Require Import Proofs.C02_lib Proofs.C02_api Proofs.C02_req.
From Coq Require Import QArith Qround Lia.
#[local] Open Scope Z_scope.

(* ------------------------------------------------------------ the wrapper *)
Lemma map_const_repeat {A B} (c : B) : forall l : list A, map (fun _ => c) l = repeat c (List.length l).
Proof. induction l; simpl; congruence. Qed.

Lemma sc_call_pointwise f q : sc_call f q = pointwise f q.
Proof. destruct q; reflexivity. Qed.

(* one sample: the constant, per position and in the form of the query; more than one: scipy's evaluation *)
Lemma wrap_call_pointwise n y1 f q : (1 <= n)%nat ->
  wrap_call n y1 f q = Some (pointwise (fun x => if Nat.eqb n 1 then y1 else f x) q).
Proof.
  intros Hn. destruct n as [|[|n]]; [lia| |].
  - simpl. destruct q as [x|xs]; simpl; [reflexivity|]. now rewrite map_const_repeat.
  - simpl. now rewrite sc_call_pointwise.
Qed.

Lemma pointwise_ext f g q : (forall x, f x = g x) -> pointwise f q = pointwise g q.
Proof. intros H. destruct q; simpl; [now rewrite H|]. f_equal. now apply map_ext. Qed.

Lemma zeros_shape_pointwise q : zeros_shape q = pointwise (fun _ => Some 0%Q) q.
Proof. destruct q; simpl; [reflexivity|]. now rewrite map_const_repeat. Qed.

(* ------------------------------------------------------------ the number of time points *)
Lemma two_in_length {A} (a b : A) (l : list A) : a <> b -> In a l -> In b l -> (2 <= List.length l)%nat.
Proof.
  intros Hab Ha Hb. destruct l as [|x [|y r]]; simpl in *; [tauto| |lia].
  destruct Ha as [Ha|Ha]; [|tauto]. destruct Hb as [Hb|Hb]; [|tauto]. congruence.
Qed.

Lemma zincr_two x y r : zincr (x :: y :: r) -> x < y.
Proof. intros H. destruct (zincr_inv _ _ H) as [Hlt _]. apply Hlt. simpl. auto. Qed.

(* at least two time points: the first lies before the last *)
Lemma n_points_first_last st : (2 <= n_points st)%nat -> afirst st < alast st.
Proof.
  unfold n_points. intros H.
  pose proof (zsort_dedup_incr (a_times st)) as Hs.
  destruct (zsort_dedup (a_times st)) as [|x [|y r]] eqn:E; simpl in H; try lia.
  assert (Hx : In x (a_times st)) by (apply zsort_dedup_In; rewrite E; simpl; auto).
  assert (Hy : In y (a_times st)) by (apply zsort_dedup_In; rewrite E; simpl; auto).
  pose proof (zmin_of_le _ _ Hx). pose proof (zmax_of_ge _ _ Hy).
  pose proof (zincr_two _ _ _ Hs). unfold afirst, alast. lia.
Qed.

(* fewer than two: every object of the part starts and ends at one and the same time *)
Lemma n_points_single st : (n_points st < 2)%nat -> forall t, In t (a_times st) -> t = afirst st /\ t = alast st.
Proof.
  unfold n_points. intros H t Ht.
  pose proof (proj2 (zsort_dedup_In (a_times st) t) Ht) as Hin.
  assert (Hne : a_times st <> []) by (intro E; rewrite E in Ht; exact Ht).
  pose proof (proj2 (zsort_dedup_In (a_times st) _) (zmin_of_In _ Hne)) as Hmin.
  pose proof (proj2 (zsort_dedup_In (a_times st) _) (zmax_of_In _ Hne)) as Hmax.
  destruct (zsort_dedup (a_times st)) as [|x [|y r]]; simpl in *; try lia; try tauto.
  unfold afirst, alast. destruct Hin as [<-|[]], Hmin as [<-|[]], Hmax as [<-|[]]. auto.
Qed.

Lemma length_shift s l : List.length (shift_pts s l) = List.length l.
Proof. apply map_length. Qed.
Lemma length_swap l : List.length (swap_pts l) = List.length l.
Proof. apply map_length. Qed.
Lemma length_cum r : forall xs x0 y0, List.length (cum r x0 y0 xs) = List.length xs.
Proof. induction xs; simpl; intros; [reflexivity|]. now rewrite IHxs. Qed.
Lemma length_time_pts m p : List.length (time_pts m p) = List.length (kp_xs m p).
Proof.
  unfold time_pts, base_pts, injx, knots. rewrite length_shift, map_length.
  destruct (kp_xs m p); simpl; [reflexivity|]. now rewrite length_cum.
Qed.

Lemma kp_two m p : p_first p <> p_last p -> (2 <= List.length (kp_xs m p))%nat.
Proof.
  intros H. unfold kp_xs. apply (two_in_length (p_first p) (p_last p)); [exact H| |];
    apply zsort_dedup_In; simpl; auto.
Qed.

(* with at least two time points every time map hands the wrapper at least two samples *)
Lemma make_two w st : (2 <= n_points st)%nat -> w <> WQd -> (2 <= List.length (m_pts (make w st)))%nat.
Proof.
  intros H Hw. pose proof (n_points_first_last st H) as Hfl.
  assert (Hne : p_first (apart_of st) <> p_last (apart_of st)) by (simpl; lia).
  destruct w; simpl; try congruence; rewrite ?length_swap, length_time_pts; now apply kp_two.
Qed.

(* ------------------------------------------------------------ the maps *)
Theorem time_call_pointwise w st q : w <> WQd -> time_call w st q = Some (pointwise (value_at w st) q).
Proof.
  intros Hw. unfold time_call.
  assert (Hv : forall x, value_at w st x = if (n_points st <? 2)%nat then Some 0%Q else ask w st x)
    by (destruct w; try congruence; reflexivity).
  destruct (n_points st <? 2)%nat eqn:E.
  - rewrite zeros_shape_pointwise. f_equal. destruct q; simpl; [now rewrite Hv|].
    f_equal. apply map_ext. intros. now rewrite Hv.
  - apply Nat.ltb_ge in E. pose proof (make_two w st E Hw) as H2.
    rewrite wrap_call_pointwise by lia.
    replace (Nat.eqb (List.length (m_pts (make w st))) 1) with false
      by (symmetry; apply Nat.eqb_neq; lia).
    f_equal. assert (Hm : forall x, interp (m_pts (make w st)) x = value_at w st x).
    { intros x. rewrite Hv. unfold ask, meval. destruct w; try congruence; reflexivity. }
    destruct q; simpl; [now rewrite Hm|]. f_equal. apply map_ext. exact Hm.
Qed.

Lemma qd_scalar tbl t : tbl <> [] ->
  let tbl2 := match tbl with [e] => [e; e] | _ => tbl end in
  match tbl2 with
  | [] => True
  | (_, y0) :: _ =>
      (if Nat.eqb (List.length tbl2) 1 then Some (inject_Z y0)
       else Some (inject_Z (sc_previous tbl2 y0 (snd (last tbl2 (0, 1))) t))) = Some (inject_Z (qd_map_impl tbl t))
  end.
Proof.
  intros Hne. destruct tbl as [|[k v] [|e2 r]]; [congruence| |]; cbv zeta.
  - reflexivity.
  - unfold qd_map_impl, wrap_previous. reflexivity.
Qed.

Theorem qd_call_pointwise st q : p_qs (apart_of st) <> [] ->
  qd_call (p_qs (apart_of st)) q = Some (pointwise (value_at WQd st) q).
Proof.
  intros Hne. unfold qd_call.
  pose proof (fun t => qd_scalar (p_qs (apart_of st)) t Hne) as Hs. cbv zeta in Hs.
  remember (match p_qs (apart_of st) with [e] => [e; e] | _ => p_qs (apart_of st) end) as tbl2.
  assert (H1 : (1 <= List.length tbl2)%nat).
  { subst tbl2. destruct (p_qs (apart_of st)) as [|e [|e2 r]]; simpl; try congruence; lia. }
  destruct tbl2 as [|[k0 y0] r]; [simpl in H1; lia|].
  rewrite wrap_call_pointwise by exact H1. f_equal.
  apply pointwise_ext. intros x. exact (Hs x).
Qed.


(* the change table of a part is never empty: Part.__init__ enters (0, q0), set_quarter_duration only replaces or
   inserts, every other edit leaves the table alone *)
Lemma setqd_from_nonempty t q : forall tbl prev, tbl <> [] -> setqd_from prev t q tbl <> [].
Proof.
  intros [|[k v] r] prev H; [congruence|]. simpl.
  destruct (t <? k); [destruct prev as [pv|]; [destruct (pv =? q)|]; congruence|].
  destruct (t =? k); congruence.
Qed.

Lemma estep_qs_nonempty st e : h_qs (a_h st) <> [] -> h_qs (a_h (estep st e)) <> [].
Proof.
  intros H. destruct e as [o| | | |]; simpl; try exact H.
  destruct o; try exact H.
  - simpl. now apply setqd_from_nonempty.
  - cbv [estep astep hstep]. cbn [a_h]. destruct (beat_step (h_flag (a_h st), h_tss (a_h st)) op). exact H.
Qed.

Lemma edits_qs_nonempty : forall edits st, h_qs (a_h st) <> [] -> h_qs (a_h (fold_left estep edits st)) <> [].
Proof. induction edits; simpl; intros; [assumption|]. apply IHedits. now apply estep_qs_nonempty. Qed.

(* ------------------------------------------------------------ the theorem *)
(* every map, every form of query, every history of edits: one value per queried position, in the order and the form
   of the query, each the value of the CURRENT state at that position *)
Theorem query_pointwise q0 edits w q :
  let st := fold_left estep edits (ainit q0) in
  map_call w st q = Some (pointwise (value_at w st) q).
Proof.
  intros st. destruct w eqn:Ew; try (apply time_call_pointwise; congruence).
  apply qd_call_pointwise. apply edits_qs_nonempty. simpl. congruence.
Qed.

(* consequences, in the words of the harness: the answer to a sequence has one entry per position ... *)
Definition ans_list (a : answer) : list (option Q) := match a with AScalar v => [v] | AVec vs => vs end.
Definition is_vec (a : answer) : bool := match a with AVec _ => true | _ => false end.

Theorem query_shape q0 edits w q a :
  map_call w (fold_left estep edits (ainit q0)) q = Some a ->
  is_vec a = negb (ndim0 q) /\ List.length (ans_list a) = List.length (atleast_1d q).
Proof.
  rewrite query_pointwise. intros [= <-]. destruct q; simpl; [auto|]. now rewrite map_length.
Qed.

(* ... entry i is what the scalar call at position i returns (so the order of the query, repetitions and the other
   positions asked along do not matter) ... *)
Theorem query_entry q0 edits w xs i x :
  let st := fold_left estep edits (ainit q0) in
  nth_error xs i = Some x ->
  exists vs, map_call w st (QVec xs) = Some (AVec vs) /\
  map_call w st (QScalar x) = Some (AScalar (value_at w st x)) /\
  nth_error vs i = Some (value_at w st x).
Proof.
  intros st Hx. exists (map (value_at w st) xs). unfold st. rewrite !query_pointwise. simpl.
  repeat split. rewrite nth_error_map'. unfold st in Hx. now rewrite Hx.
Qed.

(* ... and a query put together from two answers with the two answers put together *)
Theorem query_app q0 edits w xs ys :
  let st := fold_left estep edits (ainit q0) in
  map_call w st (QVec (xs ++ ys)) =
  Some (AVec (map (value_at w st) xs ++ map (value_at w st) ys)).
Proof. intros st. unfold st. rewrite query_pointwise. simpl. now rewrite map_app. Qed.

(* with at least two time points the value is the map of the current state (req_ask_is_the_map: tmap / tinv /
   qd_map_impl, the maps of every other theorem) *)
Theorem query_value_timeline w st x : (2 <= n_points st)%nat -> value_at w st x = ask w st x.
Proof.
  intros H. unfold value_at. apply Nat.ltb_ge in H. rewrite H. now destruct w.
Qed.

(* a part with a single time point (every present object starts and ends at one time): the four time maps are 0 at
   every position -- zero lies at the first time point, and when that point is division 0 (hist_kp_min / K1) the
   inverse maps give it back; quarter_duration_map is not affected *)
Theorem query_single_point w st x : (n_points st < 2)%nat -> w <> WQd ->
  value_at w st x = Some 0%Q /\
  (forall t, In t (a_times st) -> t = afirst st /\ t = alast st) /\
  value_at WQd st x = Some (inject_Z (qd_map_impl (p_qs (apart_of st)) x)).
Proof.
  intros H Hw. split; [|split; [now apply n_points_single|reflexivity]].
  unfold value_at. apply Nat.ltb_lt in H. rewrite H. now destruct w.
Qed.

(* ------------------------------------------------------------ not vacuous / discriminating *)
(* a part with a pickup (4/4, divisions 2, first measure 0..4, notes to 24, divisions 4 from 16): the forward map
   asked with a scalar, a list in decreasing order with a repetition and a position outside, the empty list;
   then a part with the signature only (one time point) *)
Definition ex_edits : list redit :=
  [EApi (AAddTs 0 4 4); EApi (AAddMeasure 0 4); EApi (AAddNote 0 24); EApi (ASetQ 16 4)].
Definition ex_single : list redit := [EApi (AAddTs 0 6 8); EApi (ASetQ 5 3); EApi (ABeat (UseMusical []))].

Lemma ex_query_values :
  let st := fold_left estep ex_edits (ainit 2) in
  let s1 := fold_left estep ex_single (ainit 4) in
  n_points st = 3%nat /\
  aclose (AVec [Some 8; Some 0; Some 0; None; Some (-2)]%Q) (map_call WQuarter st (QVec [24; 4; 4; 30; 0]%Q)) = true /\
  aclose (AScalar (Some 6%Q)) (map_call WQuarter st (QScalar 16%Q)) = true /\
  map_call WInvQuarter st (QVec []) = Some (AVec []) /\
  aclose (AVec [Some 2; Some 4; Some 4]%Q) (map_call WQd st (QVec [15.5; 16; 99]%Q)) = true /\
  n_points s1 = 1%nat /\
  aclose (AVec [Some 0; Some 0]%Q) (map_call WBeat s1 (QVec [0; 7]%Q)) = true /\
  aclose (AScalar (Some 0%Q)) (map_call WInvBeat s1 (QScalar 0%Q)) = true /\
  aclose (AVec [Some 4; Some 4; Some 3]%Q) (map_call WQd s1 (QVec [0; 4.5; 5]%Q)) = true.
Proof. vm_compute. repeat split; reflexivity. Qed.

(* the statement fails for the single-point branch written np.zeros(len(x)) (a scalar query raises), for one that
   numbers the positions, and for the test `len(self._points) <= 2` (a part with exactly two time points answers 0
   everywhere) *)
Lemma ex_refuted :
  zeros_len (QScalar 0%Q) <> Some (pointwise (fun _ => Some 0%Q) (QScalar 0%Q)) /\
  arange_shape (QVec [0; 0]%Q) <> pointwise (fun _ => Some 0%Q) (QVec [0; 0]%Q) /\
  (let st := fold_left estep [EApi (AAddNote 0 8)] (ainit 2) in
   time_call_le2 WQuarter st (QScalar 8%Q) <> Some (pointwise (value_at WQuarter st) (QScalar 8%Q))).
Proof. repeat split; vm_compute; discriminate. Qed.
