(* C10 -- "the maps agree with the optional note-array columns derived from them", at code level (Model/C10_NA.v: the loop of
   note_array_from_note_list / rest_array_from_rest_list over map OBJECTS called with the scalar onset and unpacked).
   For ANY three map objects built by the code from parts c1, c2, c3 (the same part for Part.note_array; other states of the
   part for objects a caller kept -- history_spec / obj_history_spec say an object answers for the part as it was when it was
   requested) and ANY list of notes with onsets on the timeline and not before the first (corrected) measure start: the loop
   succeeds and row i holds the time signature in force at onset i in c1, the key signature in force in c2, and
   (is_downbeat, position in the measure, measure length) in c3. *)
From PV Require Import Lib.Base Lib.Round Model.C02 Model.C10 Model.C10_Impl Model.C10_Hist Model.C10_Obj Model.C10_NA Proofs.C10 Proofs.C10_Impl.
#[local] Open Scope Z_scope.

Lemma na_row_spec : forall c1 c2 c3 t k0 v0 r, meas_wf (c_meas c3) -> meas_tbl c3 = (k0, v0) :: r ->
  c_first c1 <= t -> c_first c2 <= t -> k0 <= t ->
  na_row_q (impl_ts c1) (impl_ks c2) (impl_metpos c3) (QScalar t) = Some (na_ts c1 t, na_ks c2 t, na_metrical c3 t).
Proof.
  intros c1 c2 c3 t k0 v0 r Hwf Hm H1 H2 H3. unfold na_row_q.
  rewrite (Proofs.C10_Impl.impl_ts_spec c1 (QScalar t) H1), (Proofs.C10_Impl.impl_ks_spec c2 (QScalar t) H2),
          (Proofs.C10_Impl.impl_metpos_spec c3 (QScalar t) k0 v0 r Hwf Hm H3).
  simpl. unfold na_metrical, na_ts, na_ks. destruct (metpos c3 t) as [pos len]. reflexivity.
Qed.

Theorem code_na_columns : forall c1 c2 c3 (notes : list (Z * Z)) k0 v0 r, meas_wf (c_meas c3) -> meas_tbl c3 = (k0, v0) :: r ->
  Forall (fun n => c_first c1 <= fst n /\ c_first c2 <= fst n /\ k0 <= fst n) notes ->
  na_loop false (impl_ts c1) (impl_ks c2) (impl_metpos c3) notes =
  Some (map (fun n => (na_ts c1 (fst n), na_ks c2 (fst n), na_metrical c3 (fst n))) notes).
Proof.
  intros c1 c2 c3 notes k0 v0 r Hwf Hm. induction notes as [|n l IH]; intros H; [reflexivity|].
  inversion H as [|x y [H1 [H2 H3]] Hl]; subst. simpl. unfold na_row. simpl.
  rewrite (na_row_spec c1 c2 c3 (fst n) k0 v0 r Hwf Hm H1 H2 H3). rewrite (IH Hl). reflexivity.
Qed.

(* the columns without the metrical group need no measure at all: any onset on the timeline *)
Theorem code_na_signatures : forall c1 c2 t, c_first c1 <= t -> c_first c2 <= t ->
  unpack (impl_ts c1 (QScalar t)) = Some (ts_map c1 t) /\ unpack (impl_ks c2 (QScalar t)) = Some (ks_map c2 t).
Proof.
  intros. rewrite (Proofs.C10_Impl.impl_ts_spec c1 (QScalar t) H), (Proofs.C10_Impl.impl_ks_spec c2 (QScalar t) H0).
  split; reflexivity.
Qed.

(* non-vacuity on the worked part: three notes -- in the pickup, just before and on the key change / barline at 20 *)
Example na_example :
  meas_wf (c_meas ex10) /\ (exists v0 r, meas_tbl ex10 = (-12, v0) :: r) /\
  na_loop false (impl_ts ex10) (impl_ks ex10) (impl_metpos ex10) [(2, 3); (19, 1); (20, 4)] =
    Some [((4, 4, 4), (-3, -1), (0, 14, 16)); ((4, 4, 4), (-3, -1), (0, 15, 16)); ((4, 4, 4), (2, 1), (1, 0, 16))].
Proof. split; [exact (proj1 ex10_hyps)|]. split; [eexists; eexists; vm_compute; reflexivity|]. vm_compute. reflexivity. Qed.

(* the statement discriminates: columns looked up at the END of the note (at_end) give the key after the change for the note
   ending on it; a map object called with a one-element vector cannot be unpacked (no row, the array is lost) *)
Example na_at_end_refuted :
  na_loop true (impl_ts ex10) (impl_ks ex10) (impl_metpos ex10) [(19, 1)] = Some [((4, 4, 4), (2, 1), (1, 0, 16))] /\
  na_loop false (impl_ts ex10) (impl_ks ex10) (impl_metpos ex10) [(19, 1)] = Some [((4, 4, 4), (-3, -1), (0, 15, 16))] /\
  na_row_q (impl_ts ex10) (impl_ks ex10) (impl_metpos ex10) (QVec [19]) = None.
Proof. vm_compute. repeat split; reflexivity. Qed.
