(* C06 -- proofs about Model/C06.v *)
From PV Require Import Lib.Base Lib.Round Model.C12 Model.C06.
From Coq Require Import QArith Qabs Qround Lqa.
#[local] Open Scope Q_scope.

Lemma tick_of_sec_nearest_lemma ppq mpq t :
  Qabs (inject_Z (1000000 * ppq) * t / inject_Z mpq - inject_Z (sec_to_tick ppq mpq t)) <= 1 # 2.
Proof. unfold sec_to_tick. apply round_half_even_near. Qed.
