(* C06 -- proofs about Model/C06.v: tick conversion, tempo integration, id assignment, pairing *)
From PV Require Import Lib.Base Lib.Round Model.C12 Model.C06 Proofs.C06_lib.
From Coq Require Import QArith Qabs Qround Lqa Sorted Permutation.

Section Ticks.
#[local] Open Scope Q_scope.

(* ---- rounding to a nearest integer, whatever is done at exact ties *)
Lemma round_tie_near rule x : Qabs (x - inject_Z (round_tie rule x)) <= half.
Proof.
  unfold round_tie.
  destruct (Qfloor_bounds x) as [Hlo Hhi].
  set (f := Qfloor x) in *.
  destruct (Qcompare (x - inject_Z f) half) eqn:C.
  - apply Qeq_alt in C.
    destruct (tie_up rule f).
    + rewrite inject_Z_plus.
      assert (E : x - (inject_Z f + inject_Z 1) == - half).
      { setoid_replace (x - (inject_Z f + inject_Z 1)) with ((x - inject_Z f) - 1) by ring.
        rewrite C. reflexivity. }
      rewrite E. rewrite Qabs_opp. apply Qabs_case; intros; [apply Qle_refl | discriminate].
    + rewrite C. unfold half. apply Qabs_case; intros; [apply Qle_refl | discriminate].
  - apply Qlt_alt in C. unfold half in *.
    apply Qabs_case; intros H; lra.
  - apply Qgt_alt in C. rewrite inject_Z_plus. unfold half in *. change (inject_Z 1) with 1.
    apply Qabs_case; intros H; lra.
Qed.

Lemma round_tie_Z rule (k : Z) : round_tie rule (inject_Z k) = k.
Proof.
  unfold round_tie. rewrite Qfloor_Z.
  assert (H : inject_Z k - inject_Z k == 0) by ring.
  rewrite (Qcompare_comp _ _ H _ _ (Qeq_refl half)). reflexivity.
Qed.

#[global] Instance round_tie_comp rule : Proper (Qeq ==> eq) (round_tie rule).
Proof.
  intros a b E. unfold round_tie.
  rewrite (Qfloor_comp _ _ E).
  assert (H : a - inject_Z (Qfloor b) == b - inject_Z (Qfloor b)) by (rewrite E; reflexivity).
  rewrite (Qcompare_comp _ _ H _ _ (Qeq_refl half)). reflexivity.
Qed.

(* rule 0 is numpy's rounding, the one Model.C12 (score MIDI) uses *)
Lemma sec_to_tick_rule0_lemma ppq mpq t : sec_to_tick_r 0 ppq mpq t = sec_to_tick ppq mpq t.
Proof.
  unfold sec_to_tick_r, sec_to_tick, round_tie, round_half_even, tie_up. cbn [Z.eqb].
  destruct (Qcompare _ half); auto.
  rewrite <- Z.negb_odd. destruct (Z.odd _); reflexivity.
Qed.

(* ---- seconds <-> ticks *)
Lemma tick_of_sec_nearest_lemma rule ppq mpq t :
  Qabs (inject_Z (1000000 * ppq) * t / inject_Z mpq - inject_Z (sec_to_tick_r rule ppq mpq t)) <= 1 # 2.
Proof. unfold sec_to_tick_r. apply round_tie_near. Qed.

Lemma inject_Z_nonzero z : (z <> 0)%Z -> ~ inject_Z z == 0.
Proof. intros H C. unfold Qeq in C. cbn [Qnum Qden inject_Z] in C. lia. Qed.

Lemma tick_roundtrip_lemma rule ppq mpq k :
  (0 < ppq)%Z -> (0 < mpq)%Z -> sec_to_tick_r rule ppq mpq (tick_to_sec ppq mpq k) = k.
Proof.
  intros Hp Hm. unfold sec_to_tick_r, tick_to_sec.
  assert (E : inject_Z (1000000 * ppq) * (inject_Z (mpq * k) / inject_Z (1000000 * ppq)) / inject_Z mpq == inject_Z k).
  { rewrite (inject_Z_mult mpq k). field. split; apply inject_Z_nonzero; lia. }
  rewrite E. apply round_tie_Z.
Qed.

Lemma inject_Z_pos z : (0 < z)%Z -> 0 < inject_Z z.
Proof. intros H. unfold Qlt. cbn [Qnum Qden inject_Z]. lia. Qed.

Lemma sec_roundtrip_halftick_lemma rule ppq mpq s :
  (0 < ppq)%Z -> (0 < mpq)%Z ->
  Qabs (tick_to_sec ppq mpq (sec_to_tick_r rule ppq mpq s) - s) <= inject_Z mpq / inject_Z (2 * (1000000 * ppq)).
Proof.
  intros Hp Hm.
  pose proof (tick_of_sec_nearest_lemma rule ppq mpq s) as N.
  set (k := sec_to_tick_r rule ppq mpq s) in *. unfold tick_to_sec.
  set (K := inject_Z (1000000 * ppq)) in *. set (M := inject_Z mpq) in *.
  assert (HK : 0 < K) by (apply inject_Z_pos; lia).
  assert (HM : 0 < M) by (apply inject_Z_pos; lia).
  assert (E : inject_Z (mpq * k) / K - s == (M / K) * - (K * s / M - inject_Z k)).
  { rewrite inject_Z_mult. fold M. field. split; lra. }
  rewrite E, Qabs_Qmult, Qabs_opp.
  assert (Hc : 0 < M / K) by (apply Qlt_shift_div_l; lra).
  rewrite (Qabs_pos (M / K)) by lra.
  assert (E2 : M / inject_Z (2 * (1000000 * ppq)) == (M / K) * (1 # 2)).
  { rewrite (inject_Z_mult 2). fold K. change (inject_Z 2) with 2. field. lra. }
  rewrite E2. apply Qmult_le_l; assumption.
Qed.

End Ticks.

#[local] Open Scope Z_scope.

(* ---- ticks -> seconds: the loader integrates every tempo change in tick order *)
Lemma adjust_time_sorted_lemma ppq tc tick :
  tick_sorted tc -> Forall (fun e => 0 <= fst e) tc -> 0 <= tick ->
  adjust_time ppq tc tick = seconds_spec ppq tc tick.
Proof.
  intros S HF Ht. unfold adjust_time, seconds_spec. rewrite adjust_num_sorted; auto.
Qed.

Lemma load_seconds_spec_lemma ppq collected tick :
  Forall (fun e => 0 <= fst e) collected -> 0 <= tick ->
  adjust_time ppq (tempo_list collected) tick = seconds_spec ppq (sort_by_tick collected) tick.
Proof.
  intros HF Ht. destruct (tempo_list_spec collected) as (S & I & T).
  rewrite adjust_time_sorted_lemma; auto.
  - unfold seconds_spec. f_equal. f_equal. apply sum_from_ext. intros k _. apply T.
  - apply Forall_forall. intros e He. rewrite Forall_forall in HF. auto.
Qed.

(* ---- ids: assigned along the lexicographic order of (onset, pitch, offset, channel) *)
Definition lnote_key (n : lnote) : Z * Z * Z * Z := (ln_on n, ln_pitch n, ln_off n, ln_ch n).
Definition lex4_le (a b : Z * Z * Z * Z) : Prop :=
  let '(a1, a2, a3, a4) := a in let '(b1, b2, b3, b4) := b in
  a1 < b1 \/ (a1 = b1 /\ (a2 < b2 \/ (a2 = b2 /\ (a3 < b3 \/ (a3 = b3 /\ a4 <= b4))))).

Lemma lnote_leb_lex a b : lnote_leb a b = true <-> lex4_le (lnote_key a) (lnote_key b).
Proof.
  unfold lnote_leb, lex4_le, lnote_key.
  destruct (ln_on a <? ln_on b) eqn:E1; [split; [lia|reflexivity]|].
  destruct (ln_on b <? ln_on a) eqn:E2; [split; [discriminate|lia]|].
  destruct (ln_pitch a <? ln_pitch b) eqn:E3; [split; [lia|reflexivity]|].
  destruct (ln_pitch b <? ln_pitch a) eqn:E4; [split; [discriminate|lia]|].
  destruct (ln_off a <? ln_off b) eqn:E5; [split; [lia|reflexivity]|].
  destruct (ln_off b <? ln_off a) eqn:E6; [split; [discriminate|lia]|].
  split; lia.
Qed.

Lemma lnote_leb_total a b : lnote_leb a b = false -> lnote_leb b a = true.
Proof.
  intros H. apply lnote_leb_lex.
  assert (N : ~ lex4_le (lnote_key a) (lnote_key b)) by (intros C; apply lnote_leb_lex in C; congruence).
  unfold lex4_le, lnote_key in *. lia.
Qed.

Lemma lnote_leb_trans a b c : lnote_leb a b = true -> lnote_leb b c = true -> lnote_leb a c = true.
Proof.
  rewrite !lnote_leb_lex. unfold lex4_le, lnote_key. lia.
Qed.

Lemma ids_sorted_perm_lemma l :
  Permutation (sort_notes l) l /\
  StronglySorted (fun a b => lex4_le (lnote_key a) (lnote_key b)) (sort_notes l).
Proof.
  split; [apply sort_le_perm|].
  eapply StronglySorted_impl; [|apply (sort_le_sorted lnote_leb lnote_leb_total lnote_leb_trans l)].
  intros a b H. apply lnote_leb_lex. exact H.
Qed.

(* ---- pairing *)
Definition is_note_ev (k : Z) (m : msg) : bool :=
  match m with
  | NoteOn ch p _ | NoteOff ch p _ => note_hash ch p =? k
  | _ => false
  end.
Definition is_off_for (ch p : Z) (m : msg) : bool :=
  match m with
  | NoteOn ch' p' v => (ch' =? ch) && (p' =? p) && (v <=? 0)
  | NoteOff ch' p' _ => (ch' =? ch) && (p' =? p)
  | _ => false
  end.

Lemma zlookup_remove_other k k' (s : list (Z * (Z * Z))) :
  k <> k' -> zlookup k (sounding_remove k' s) = zlookup k s.
Proof.
  intros H. induction s as [|[k0 v0] r IH]; simpl; auto.
  destruct (k' =? k0) eqn:E.
  - rewrite IH. destruct (k =? k0) eqn:E2; auto. lia.
  - simpl. rewrite IH. reflexivity.
Qed.

(* the sounding table after a prefix of the track *)
Fixpoint final_state (s : list (Z * (Z * Z))) (l : list (Z * msg)) : list (Z * (Z * Z)) :=
  match l with
  | [] => s
  | (t, m) :: r =>
      match m with
      | NoteOn ch p v =>
          if 0 <? v then final_state ((note_hash ch p, (t, v)) :: sounding_remove (note_hash ch p) s) r
          else match zlookup (note_hash ch p) s with
               | Some _ => final_state (sounding_remove (note_hash ch p) s) r
               | None => final_state s r
               end
      | NoteOff ch p _ =>
          match zlookup (note_hash ch p) s with
          | Some _ => final_state (sounding_remove (note_hash ch p) s) r
          | None => final_state s r
          end
      | _ => final_state s r
      end
  end.

Lemma pair_notes_app a : forall s b,
  pair_notes s (a ++ b) = pair_notes s a ++ pair_notes (final_state s a) b.
Proof.
  induction a as [|[t m] r IH]; intros s b; simpl; auto.
  destruct m; auto.
  - destruct (0 <? vel); auto. destruct (zlookup (note_hash ch pitch) s) as [[t0 v0]|]; auto.
    simpl. rewrite IH. reflexivity.
  - destruct (zlookup (note_hash ch pitch) s) as [[t0 v0]|]; auto. simpl. rewrite IH. reflexivity.
Qed.

Lemma pair_until_off ch p t2 m2 post : forall mid s t1 v,
  zlookup (note_hash ch p) s = Some (t1, v) ->
  (forall e, In e mid -> is_note_ev (note_hash ch p) (snd e) = false) ->
  is_off_for ch p m2 = true ->
  In (mkLN p v ch t1 t2) (pair_notes s (mid ++ (t2, m2) :: post)).
Proof.
  induction mid as [|[t m] r IH]; intros s t1 v Hs Hmid Hoff.
  - simpl. destruct m2; simpl in Hoff; try discriminate.
    + apply andb_true_iff in Hoff as [Hoff Hv]. apply andb_true_iff in Hoff as [Hc Hp].
      apply Z.eqb_eq in Hc, Hp. subst. destruct (0 <? vel) eqn:E; [lia|]. rewrite Hs. left. reflexivity.
    + apply andb_true_iff in Hoff as [Hc Hp]. apply Z.eqb_eq in Hc, Hp. subst. rewrite Hs. left. reflexivity.
  - assert (Hm : is_note_ev (note_hash ch p) m = false) by (apply (Hmid (t, m)); left; reflexivity).
    assert (Hr : forall e, In e r -> is_note_ev (note_hash ch p) (snd e) = false) by (intros e He; apply Hmid; right; exact He).
    simpl. destruct m; try (apply IH; auto); simpl in Hm; apply Z.eqb_neq in Hm.
    + destruct (0 <? vel).
      * apply IH; auto. simpl. destruct (note_hash ch p =? note_hash ch0 pitch) eqn:E; [lia|].
        rewrite zlookup_remove_other; auto.
      * destruct (zlookup (note_hash ch0 pitch) s) as [[t0 v0]|].
        -- right. apply IH; auto. rewrite zlookup_remove_other; auto.
        -- apply IH; auto.
    + destruct (zlookup (note_hash ch0 pitch) s) as [[t0 v0]|].
      * right. apply IH; auto. rewrite zlookup_remove_other; auto.
      * apply IH; auto.
Qed.

(* O3: a note-on is paired with the next note-off / zero-velocity note-on of its channel and pitch *)
Lemma pairing_next_off_lemma pre t1 ch p v mid t2 m2 post :
  0 < v ->
  (forall e, In e mid -> is_note_ev (note_hash ch p) (snd e) = false) ->
  is_off_for ch p m2 = true ->
  In (mkLN p v ch t1 t2) (pair_notes [] (pre ++ (t1, NoteOn ch p v) :: mid ++ (t2, m2) :: post)).
Proof.
  intros Hv Hmid Hoff. rewrite pair_notes_app. apply in_or_app. right.
  simpl. destruct (0 <? v) eqn:E; [|lia].
  apply pair_until_off; auto. simpl. rewrite Z.eqb_refl. reflexivity.
Qed.

(* pairing inverts event generation for any sequence of notes written one after the other *)
Definition note_events (n : lnote) : list (Z * msg) :=
  [(ln_on n, NoteOn (ln_ch n) (ln_pitch n) (ln_vel n)); (ln_off n, NoteOff (ln_ch n) (ln_pitch n) 0)].

Lemma pairing_inverts_sequential_lemma ns :
  Forall (fun n => 0 < ln_vel n) ns -> pair_notes [] (flat_map note_events ns) = ns.
Proof.
  induction 1 as [|n r Hv HF IH]; simpl; auto.
  destruct (0 <? ln_vel n) eqn:E; [|lia]. cbn [zlookup]. rewrite Z.eqb_refl. rewrite IH. destruct n; reflexivity.
Qed.

Lemma load_seconds_example_lemma :
  (adjust_time 480 (tempo_list [(0, 500000); (960, 600000); (240, 250000)]%Z) 1440%Z == 1225 # 1000)%Q.
Proof. vm_compute. reflexivity. Qed.
