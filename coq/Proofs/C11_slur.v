(* C11 -- the piece that carries the slur stops of a split note ends where the note ended. *)
From PV Require Import Lib.Base Lib.Round Gen.C11_Tables Model.C11 Model.C11_Spec Model.C11_Norm
  Proofs.C11_lib Proofs.C11_est Proofs.C11_norm.
From Coq Require Import QArith Qabs.
#[local] Open Scope Z_scope.

Lemma flat_map_flat_map {A B C} (f : A -> list B) (g : B -> list C) l :
  flat_map g (flat_map f l) = flat_map (fun x => flat_map g (f x)) l.
Proof.
  induction l as [|x l IH]; simpl; [reflexivity|]. rewrite flat_map_app, IH. reflexivity.
Qed.

Lemma concat_grouped bars dm ps : List.concat (tie_pieces_grouped bars dm ps) = tie_pieces_dm bars dm ps.
Proof.
  unfold tie_pieces_grouped, tie_pieces_dm, stage2_pieces_dm, stage1_pieces.
  rewrite flat_map_flat_map. rewrite <- flat_map_concat_map. reflexivity.
Qed.

Lemma group_facts bars dm p :
  let g := stage2_pieces_dm dm (pieces (fst p) (cuts_in bars (fst p) (snd p)) (snd p)) in
  g <> [] /\ forall d, last_end g d = snd p.
Proof.
  simpl. unfold stage2_pieces_dm.
  destruct (stage1_refines bars p) as (N1 & _ & _ & C1 & L1).
  split.
  - apply (flat_map_nonnil _ (stage2_dm_refines dm)). exact N1.
  - intros d. destruct (flat_map_contiguous _ (stage2_dm_refines dm) _ C1) as [_ L2].
    rewrite (L2 N1 d). apply L1.
Qed.

Lemma nth_last_app {A} (l1 l2 : list A) d : l1 <> [] -> nth (List.length l1 - 1) (l1 ++ l2) d = List.last l1 d.
Proof.
  induction l1 as [|x l1 IH]; intros N; [congruence|].
  destruct l1 as [|y l1']; [reflexivity|].
  replace (List.length (x :: y :: l1') - 1)%nat with (Datatypes.S (List.length (y :: l1') - 1)) by (simpl; lia).
  change (nth (Datatypes.S (List.length (y :: l1') - 1)) ((x :: y :: l1') ++ l2) d)
    with (nth (List.length (y :: l1') - 1) ((y :: l1') ++ l2) d).
  rewrite (IH ltac:(discriminate)). reflexivity.
Qed.

Lemma firstn_S_nth {A} (G : list (list A)) j : (j < List.length G)%nat ->
  List.concat (firstn (S j) G) = List.concat (firstn j G) ++ nth j G [].
Proof.
  revert j. induction G as [|g G IH]; intros j H; [simpl in H; lia|].
  destruct j as [|j].
  - simpl. rewrite app_nil_r. reflexivity.
  - simpl in H.
    change (firstn (S (S j)) (g :: G)) with (g :: firstn (S j) G).
    change (firstn (S j) (g :: G)) with (g :: firstn j G).
    change (nth (S j) (g :: G) []) with (nth j G []).
    change (List.concat (g :: firstn (S j) G)) with (g ++ List.concat (firstn (S j) G)).
    change (List.concat (g :: firstn j G)) with (g ++ List.concat (firstn j G)).
    rewrite (IH j ltac:(lia)). rewrite app_assoc. reflexivity.
Qed.

Lemma nth_map_any {A B} (f : A -> B) : forall l j d d', (j < List.length l)%nat -> nth j (map f l) d' = f (nth j l d).
Proof.
  induction l as [|x l IH]; intros j d d' H; [simpl in H; lia|].
  destruct j as [|j]; [reflexivity|]. simpl in *. apply IH. lia.
Qed.

(* the piece at slur_stop_pos ends where input piece j ended *)
Lemma slur_stop_end_lemma bars dm ps j d :
  (j < List.length ps)%nat ->
  snd (nth (slur_stop_pos bars dm ps j) (tie_pieces_dm bars dm ps) (d, d)) = snd (nth j ps (d, d)).
Proof.
  intros Hj. unfold slur_stop_pos. rewrite <- concat_grouped.
  set (G := tie_pieces_grouped bars dm ps).
  assert (LG : List.length G = List.length ps) by (unfold G, tie_pieces_grouped; apply map_length).
  assert (E : List.concat G = List.concat (firstn (S j) G) ++ List.concat (skipn (S j) G)).
  { rewrite <- concat_app, firstn_skipn. reflexivity. }
  rewrite E.
  assert (Gj : nth j G [] = stage2_pieces_dm dm (pieces (fst (nth j ps (d, d))) (cuts_in bars (fst (nth j ps (d, d))) (snd (nth j ps (d, d)))) (snd (nth j ps (d, d))))).
  { unfold G, tie_pieces_grouped.
    exact (nth_map_any (fun p => stage2_pieces_dm dm (pieces (fst p) (cuts_in bars (fst p) (snd p)) (snd p))) ps j (d, d) [] Hj). }
  destruct (group_facts bars dm (nth j ps (d, d))) as [Ng Lg]. rewrite <- Gj in Ng, Lg.
  rewrite (firstn_S_nth G j ltac:(lia)).
  assert (N : List.concat (firstn j G) ++ nth j G [] <> []).
  { destruct (List.concat (firstn j G)); [simpl; exact Ng | discriminate]. }
  rewrite (nth_last_app _ _ (d, d) N).
  change (snd (List.last (List.concat (firstn j G) ++ nth j G []) (d, d))) with (last_end (List.concat (firstn j G) ++ nth j G []) d).
  rewrite (last_end_app _ _ d Ng). apply Lg.
Qed.

(* ... and the piece that keeps the slur starts begins where input piece j began *)
Lemma concat_firstn_length_nth {A} (G : list (list A)) j d : (j < List.length G)%nat -> nth j G [] <> [] ->
  nth (List.length (List.concat (firstn j G))) (List.concat G) d = hd d (nth j G []).
Proof.
  revert j. induction G as [|g G IH]; intros j H N; [simpl in H; lia|].
  destruct j as [|j]; simpl in *.
  - destruct g; [congruence | reflexivity].
  - rewrite app_length, app_nth2 by lia.
    replace (List.length g + List.length (List.concat (firstn j G)) - List.length g)%nat with (List.length (List.concat (firstn j G))) by lia.
    apply IH; [lia | exact N].
Qed.

(* ------------------------------------------------------------------ composite answers *)
Lemma composite_consistent_ok : composite_consistent = true.
Proof. vm_compute. reflexivity. Qed.

Lemma forallb2_nth {A B} (f : A -> B -> bool) : forall la lb j a b,
  forallb2 f la lb = true -> nth_error la j = Some a -> nth_error lb j = Some b -> f a b = true.
Proof.
  induction la as [|x la IH]; intros [|y lb] j a b H Ha Hb; simpl in H; try discriminate.
  - destruct j; discriminate.
  - apply andb_true_iff in H as [H1 H2]. destruct j as [|j]; simpl in *.
    + inversion Ha; inversion Hb; subst. exact H1.
    + exact (IH lb j a b H2 Ha Hb).
Qed.

Lemma forallb2_length {A B} (f : A -> B -> bool) : forall la lb, forallb2 f la lb = true -> List.length la = List.length lb.
Proof.
  induction la as [|x la IH]; intros [|y lb] H; simpl in H; try discriminate; [reflexivity|].
  apply andb_true_iff in H as [_ H]. simpl. f_equal. apply IH. exact H.
Qed.

(* estimate_symbolic_duration(d, div, return_com_durations=True) answers with a tuple only for a
   duration within eps of a quarter of a composite value, and the tuple denotes that value *)
Lemma estimate_composite_lemma d div sds :
  estimate_composite d div = Some sds ->
  exists c v, In c composite_durs /\ sum_sym sds 1 = Some v
    /\ (Qabs (inject_Z d / inject_Z div - c) < eps_default)%Q /\ (Qabs (v - c) <= tiny)%Q.
Proof.
  unfold estimate_composite.
  destruct (Qeq_bool (inject_Z d / inject_Z div) 0); [discriminate|].
  destruct (Qltb (Qabs (inject_Z d / inject_Z div - qnth durs (find_nearest durs (inject_Z d / inject_Z div)))) eps_default); [discriminate|].
  set (q := (inject_Z d / inject_Z div)%Q). set (j := find_nearest composite_durs q).
  destruct (Qltb (Qabs (q - qnth composite_durs j)) eps_default) eqn:L; [|discriminate].
  intros Hn.
  assert (Hj : (j < List.length sym_composite)%nat) by (apply nth_error_Some; congruence).
  assert (Hj2 : (j < List.length composite_durs)%nat).
  { rewrite (forallb2_length _ _ _ composite_consistent_ok). exact Hj. }
  destruct (nth_error composite_durs j) as [c|] eqn:Hc; [|apply nth_error_None in Hc; lia].
  pose proof (forallb2_nth _ _ _ j c sds composite_consistent_ok Hc Hn) as R.
  unfold composite_row_ok in R. destruct (sum_sym sds 1) as [v|]; [|discriminate].
  exists c, v. split; [eapply nth_error_In; exact Hc|]. split; [reflexivity|].
  assert (Eq : qnth composite_durs j = c).
  { unfold qnth. apply nth_error_nth. exact Hc. }
  rewrite Eq in L. split.
  - apply Qltb_lt. exact L.
  - apply Qle_bool_iff. exact R.
Qed.
