(* C14 -- the pedal part of adjust_offsets_w_sustain: table lookup = "state before / first release from" *)
From PV Require Import Lib.Base Model.C14 Proofs.C14_lib.
From Coq Require Import QArith Qminmax Lqa Sorted Permutation.
#[local] Open Scope Q_scope.

(* what the table lookup computes, directly on the time-ordered rows *)
Fixpoint state_before (st : bool) (R : list (Q * bool)) (off : Q) : bool :=
  match R with
  | [] => st
  | (t, s) :: R' => if Qltb t off then state_before s R' off else st
  end.
Fixpoint first_up (R : list (Q * bool)) (off T : Q) : Q :=
  match R with
  | [] => T
  | (t, s) :: R' => if Qle_bool off t && negb s then t else first_up R' off T
  end.

Fixpoint walk (cur : Q * bool) (rest : list (Q * bool)) (off : Q) : (Q * bool) * option (Q * bool) :=
  match rest with
  | [] => (cur, None)
  | e :: r => if Qltb (fst e) off then walk e r off else (cur, Some e)
  end.

Lemma nth_walk d cur rest off :
  let k := searchsorted_left (map fst rest) off in
  nth k (cur :: rest) d = fst (walk cur rest off) /\
  nth (S k) (cur :: rest) d = match snd (walk cur rest off) with Some e => e | None => d end.
Proof.
  revert cur. induction rest as [|e r IH]; intros cur; simpl.
  - auto.
  - destruct (Qltb (fst e) off) eqn:E.
    + specialize (IH e). simpl in IH. exact IH.
    + simpl. auto.
Qed.

Lemma pedal_off_walk cur rest off :
  Qltb (fst cur) off = true ->
  pedal_off (cur :: rest) off =
    if snd (fst (walk cur rest off))
    then fst (match snd (walk cur rest off) with Some e => e | None => (0, false) end)
    else off.
Proof.
  intros H. unfold pedal_off. cbn [map searchsorted_left]. rewrite H.
  replace (S (searchsorted_left (map fst rest) off) - 1)%nat with (searchsorted_left (map fst rest) off) by lia.
  destruct (nth_walk (0, false) cur rest off) as [E1 E2].
  rewrite E1, E2. reflexivity.
Qed.

Definition sorted_rows (R : list (Q * bool)) : Prop := sorted_by_key (fun r : Q * bool => fst r) R.

Lemma walk_changes R : forall cur off T,
  sorted_rows R -> Qltb T off = false ->
  exists c n, walk cur (changes (snd cur) R ++ [(T, false)]) off = (c, Some n) /\
              snd c = state_before (snd cur) R off /\
              (snd c = true -> fst n = first_up R off T).
Proof.
  induction R as [|[t s] R' IH]; intros cur off T S HT.
  - simpl. rewrite HT. exists cur, (T, false). auto.
  - inversion S as [|? ? S' HF]; subst. simpl.
    destruct (Qltb t off) eqn:Et.
    + assert (Eo : Qle_bool off t = false).
      { apply Qleb_false. apply Qltb_true in Et. exact Et. }
      rewrite Eo. simpl.
      destruct (Bool.eqb s (snd cur)) eqn:Es.
      * apply eqb_prop in Es. subst s. apply IH; auto.
      * simpl. rewrite Et. apply (IH (t, s)); auto.
    + assert (Eo : Qle_bool off t = true).
      { apply Qle_bool_iff. apply Qltb_false in Et. exact Et. }
      rewrite Eo. simpl.
      destruct (Bool.eqb s (snd cur)) eqn:Es.
      * apply eqb_prop in Es. subst s.
        destruct (IH cur off T S' HT) as (c & n & W & Hc & Hn).
        exists c, n. split; auto.
        assert (Est : state_before (snd cur) R' off = snd cur).
        { destruct R' as [|[t' s'] R'']; simpl; auto.
          inversion HF; subst. unfold le_key in H1. simpl in H1.
          assert (Qltb t' off = false) as ->; auto.
          apply Qltb_false. apply Qltb_false in Et. lra. }
        rewrite Est in Hc. split; auto.
        intros Hs. rewrite Hc in Hs. rewrite Hs. simpl. apply Hn. congruence.
      * simpl. rewrite Et. exists cur, (t, s). split; auto. split; auto.
        intros Hs. rewrite Hs in Es. destruct s; simpl in *; try discriminate. reflexivity.
Qed.

Lemma first_up_ge R off T : off <= T -> off <= first_up R off T.
Proof.
  intros HT. induction R as [|[t s] R' IH]; simpl; auto.
  destruct (Qle_bool off t) eqn:E; simpl; auto.
  destruct s; simpl; auto. apply Qle_bool_iff in E. exact E.
Qed.

(* lookup in the padded change table *)
Lemma pedal_off_table fo lo rows off :
  rows <> [] -> sorted_rows rows -> fo <= off -> off <= lo ->
  pedal_off (change_table fo lo rows) off =
    if state_before false rows off then first_up rows off (end_sentinel rows lo) else off.
Proof.
  intros Hne S Hfo Hlo. destruct rows as [|[t0 s0] R]; [congruence|].
  set (T := end_sentinel ((t0, s0) :: R) lo).
  assert (HT : Qltb T off = false).
  { apply Qltb_false. unfold T, end_sentinel.
    pose proof (Q.le_max_r (fst (last ((t0, s0) :: R) (0, false)) + 1) (lo + 1)). lra. }
  unfold change_table. fold T.
  rewrite pedal_off_walk.
  2:{ simpl. apply Qltb_true. pose proof (Q.le_min_r (t0 - 1) (fo - 1)). lra. }
  inversion S as [|? ? S' HF]; subst.
  cbn [walk fst]. cbn [state_before first_up].
  destruct (Qltb t0 off) eqn:E0.
  - destruct (walk_changes R (t0, s0) off T S' HT) as (c & n & W & Hc & Hn).
    cbn [snd] in W. rewrite W. cbn [fst snd]. simpl in Hc. rewrite <- Hc.
    assert (Eo : Qle_bool off t0 = false).
    { apply Qleb_false. apply Qltb_true in E0. exact E0. }
    rewrite Eo. cbn [andb].
    destruct (snd c) eqn:Esc; auto.
  - reflexivity.
Qed.
