(* C05 -- proofs about the voice column (Model/C05_Voice.v). *)
From PV Require Import Lib.Base Model.C05 Model.C05_Spec Model.C05_Ext Model.C05_Inv Model.C05_Voice
                       Proofs.C05_lib Proofs.C05_ties Proofs.C05.
From Coq Require Import QArith Permutation.
#[local] Open Scope Z_scope.

(* ---------- the maximum of the column ---------- *)

Lemma fold_zmax_ge (l : list Z) : forall a,
  a <= fold_left Z.max l a /\ forall x, In x l -> x <= fold_left Z.max l a.
Proof.
  induction l as [|y r IH]; simpl; intros a; [split; [lia | tauto]|].
  destruct (IH (Z.max a y)) as [H1 H2]. split; [lia|].
  intros x [<-|Hx]; [lia | apply H2, Hx].
Qed.

Lemma fold_zmax_In (l : list Z) : forall a, fold_left Z.max l a = a \/ In (fold_left Z.max l a) l.
Proof.
  induction l as [|y r IH]; simpl; intros a; [left; reflexivity|].
  destruct (IH (Z.max a y)) as [H|H]; [|right; right; exact H].
  rewrite H. destruct (Z.max_spec a y) as [[_ ->]|[_ ->]]; [right; left; reflexivity | left; reflexivity].
Qed.

(* the maximum is a member of a non-empty column and bounds every member *)
Lemma zmax_of_spec_lemma (l : list Z) : l <> [] ->
  In (zmax_of l) l /\ forall x, In x l -> x <= zmax_of l.
Proof.
  destruct l as [|y r]; [congruence|]. intros _. unfold zmax_of. split.
  - destruct (fold_zmax_In r y) as [->|H]; [left; reflexivity | right; exact H].
  - destruct (fold_zmax_ge r y) as [H1 H2]. intros x [<-|Hx]; [exact H1 | apply H2, Hx].
Qed.

Lemma fold_max_rows (rs : list row) : forall a,
  fold_left (fun m x => Z.max m (r_voice x)) rs a = fold_left Z.max (map r_voice rs) a.
Proof. induction rs as [|y r IH]; simpl; intros a; [reflexivity | apply IH]. Qed.

Lemma max_voice_zmax rows : max_voice rows = zmax_of (map r_voice rows).
Proof. destruct rows as [|y r]; simpl; [reflexivity | apply fold_max_rows]. Qed.

(* ---------- the raw column is the column of raw voices ---------- *)

Lemma raw_row_voice mp divs h d : r_voice (raw_row mp divs h d) = raw_voice h.
Proof. unfold raw_row, raw_voice. destruct (m_mp mp (n_start h)). reflexivity. Qed.

Lemma raw_rows_voices ns mp divs sel rows0 : raw_rows ns mp divs sel = Some rows0 ->
  map r_voice rows0 = map raw_voice sel.
Proof.
  intros R. apply raw_rows_spec in R.
  induction R as [|h r hs rs [d [D ->]] _ IH]; simpl; [reflexivity|].
  rewrite raw_row_voice, IH. reflexivity.
Qed.

(* ---------- the voice column of an array ---------- *)

Lemma array_of_voice ns mp divs sel rows : array_of ns mp divs sel = Some rows ->
  forall r, In r rows ->
  exists h d, In h sel /\ duration_tied ns (List.length ns) h = Some d /\
              row_matches mp divs h d r /\ r_voice r = voice_rule sel h.
Proof.
  unfold array_of. destruct (raw_rows ns mp divs sel) as [rows0|] eqn:R; [|discriminate].
  intros H; injection H as <-. intros r Hr.
  apply (proj1 (sort_rows_In _ _)) in Hr. rewrite sanitize_voices_map in Hr.
  apply in_map_iff in Hr as [r0 [<- Hr0]].
  pose proof (raw_rows_voices _ _ _ _ _ R) as V.
  apply raw_rows_spec in R.
  assert (G : forall x, In x rows0 -> exists h d, In h sel /\
              duration_tied ns (List.length ns) h = Some d /\ x = raw_row mp divs h d).
  { clear -R. induction R as [|h r hs rs [d [D ->]] _ IH]; simpl; [tauto|].
    intros x [<-|Hx].
    - exists h, d. auto.
    - destruct (IH x Hx) as [h' [d' [A [B C]]]]. exists h', d'. auto. }
  destruct (G r0 Hr0) as [h [d [Hh [D ->]]]].
  exists h, d. split; [assumption|]. split; [assumption|].
  split; [apply row_matches_fix_voice, raw_row_matches|].
  unfold fix_voice, voice_rule. rewrite raw_row_voice, max_voice_zmax, V.
  destruct (raw_voice h =? -1); [reflexivity | apply raw_row_voice].
Qed.

(* the three cases of the rule *)
Lemma voice_rule_cases sel h :
  (forall v, n_voice h = Some v -> v <> -1 -> voice_rule sel h = v) /\
  (n_voice h = None -> voice_rule sel h = zmax_of (map raw_voice sel) + 1) /\
  (n_voice h = Some (-1) -> voice_rule sel h = zmax_of (map raw_voice sel) + 1).
Proof.
  unfold voice_rule, raw_voice. split; [|split].
  - intros v -> Hne. simpl. destruct (v =? -1) eqn:E; [lia | reflexivity].
  - intros ->. reflexivity.
  - intros ->. reflexivity.
Qed.

Lemma array_of_voice_column ns mp divs sel rows : array_of ns mp divs sel = Some rows ->
  forall r, In r rows ->
  exists h d, In h sel /\ duration_tied ns (List.length ns) h = Some d /\
              row_matches mp divs h d r /\ voice_column sel h r.
Proof.
  intros A r Hr. destruct (array_of_voice _ _ _ _ _ A r Hr) as [h [d [Hh [D [M V]]]]].
  exists h, d. split; [exact Hh|]. split; [exact D|]. split; [exact M|].
  unfold voice_column. rewrite V. apply voice_rule_cases.
Qed.

Lemma voice_column_spec_lemma ns mp divs rows : note_array ns mp divs = Some rows ->
  forall r, In r rows ->
  exists h d, In h (notes_tied (sounding ns)) /\ duration_tied ns (List.length ns) h = Some d /\
              row_matches mp divs h d r /\ voice_column (notes_tied (sounding ns)) h r.
Proof. apply array_of_voice_column. Qed.

(* the score note_array_to_score builds is a score like any other: the clause holds for its array *)
Lemma rebuilt_voice_column_lemma l divs A bt out : roundtrip l divs A bt = Some out ->
  forall r, In r out ->
  exists h d, In h (notes_tied (sounding (rebuild 0 (inv_sort l)))) /\
              duration_tied (rebuild 0 (inv_sort l)) (List.length (rebuild 0 (inv_sort l))) h = Some d /\
              row_matches (rebuilt_maps divs A bt) divs h d r /\
              voice_column (notes_tied (sounding (rebuild 0 (inv_sort l)))) h r.
Proof. apply array_of_voice_column. Qed.

Lemma voice_column_rest_spec_lemma ns mp divs rows : rest_array ns mp divs = Some rows ->
  forall r, In r rows ->
  exists h d, In h (filter n_rest ns) /\ duration_tied ns (List.length ns) h = Some d /\
              row_matches mp divs h d r /\ voice_column (filter n_rest ns) h r.
Proof. apply array_of_voice_column. Qed.

(* the replacement number is above every voice the selection states: never a stated voice *)
Lemma replacement_above_stated_lemma sel h v :
  In h sel -> n_voice h = Some v -> v < zmax_of (map raw_voice sel) + 1.
Proof.
  intros Hh Hv.
  assert (In v (map raw_voice sel)).
  { apply in_map_iff. exists h. split; [unfold raw_voice; rewrite Hv; reflexivity | exact Hh]. }
  assert (map raw_voice sel <> []) by (intros E; rewrite E in H; exact H).
  destruct (zmax_of_spec_lemma _ H0) as [_ B]. specialize (B v H). lia.
Qed.

(* ---------- examples ---------- *)

Example ex_voices_values :
  option_map (map vview) (note_array ex_voices (maps_of [] [] []) 4)
    = Some [ ("a", 0, 0); ("b", 1, 0); ("c", 2, 0); ("d", 0, 0) ]%string /\
  option_map (map vview) (rest_array ex_voices (maps_of [] [] []) 4)
    = Some [ ("r", 0, 0); ("s", 1, 0) ]%string /\
  option_map (map vview) (note_array ex_voices_gap (maps_of [] [] []) 4)
    = Some [ ("a", 0, 0); ("b", 5, 0); ("c", -3, 0); ("d", 6, 0) ]%string.
Proof. vm_compute. repeat split; reflexivity. Qed.

(* C05-K1, the exact boundary: a note that states voice -1 is reported in another voice *)
Example ex_voices_k1_values :
  exists ns rows h r, note_array ns (maps_of [] [] []) 4 = Some rows /\
    In h (notes_tied (sounding ns)) /\ In r rows /\ r_id r = n_id h /\
    n_voice h = Some (-1) /\ r_voice r = 3.
Proof.
  exists ex_voices_k1. eexists. exists (vnote 1 "a" 0 4 "C" (Some (-1)) false). eexists.
  split; [vm_compute; reflexivity|].
  split; [left; reflexivity|]. split; [left; reflexivity|]. repeat split; reflexivity.
Qed.
