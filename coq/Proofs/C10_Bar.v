(* C10 -- the "full bar" of the anacrusis correction read as beats x divisions per beat: full_bar (Model/C10.v) is
   defined through the beat map and its inverse (Model/C02.v: tmap / tinv); with C02's exactness and inverse
   theorems it is the number of beats of the signature in force times the length of the first beat. *)
From PV Require Import Lib.Base Lib.Round Model.C02 Model.C10 Proofs.C02_lib Proofs.C02 Proofs.C10.
From Coq Require Import QArith.
#[local] Open Scope Z_scope.

(* the interpolation respects equality of rationals *)
Lemma interp_from_comp : forall rest x0 y0 t t', (t == t')%Q ->
  match interp_from x0 y0 rest t, interp_from x0 y0 rest t' with
  | Some a, Some b => (a == b)%Q
  | None, None => True
  | _, _ => False
  end.
Proof.
  induction rest as [|[x1 y1] r IH]; intros x0 y0 t t' H; simpl; [exact I|].
  assert (Qle_bool t x1 = Qle_bool t' x1) as -> by (apply Qleb_comp; [exact H | reflexivity]).
  destruct (Qle_bool t' x1); [rewrite H; reflexivity | apply IH; exact H].
Qed.

Lemma interp_comp pts t t' a : (t == t')%Q -> interp pts t = Some a ->
  exists b, interp pts t' = Some b /\ (a == b)%Q.
Proof.
  intros H. unfold interp. destruct pts as [|[x0 y0] r]; [discriminate|].
  assert (Qle_bool x0 t = Qle_bool x0 t') as -> by (apply Qleb_comp; [reflexivity | exact H]).
  destruct (Qle_bool x0 t'); [|discriminate]. intros E.
  pose proof (interp_from_comp r x0 y0 t t' H) as C. rewrite E in C.
  destruct (interp_from x0 y0 r t') as [b|]; [|contradiction]. exists b. auto.
Qed.

Definition bar_beats (cp : cpart) (s0 : Z) : Z :=
  let '(b, _, mus) := ts_map cp s0 in if c_musical cp then mus else b.

(* if the first beat after s0 lasts exactly d divisions (a whole number), the full bar is beats x d *)
Theorem full_bar_whole_beat cp s0 d : wf (c_part cp) ->
  p_first (c_part cp) <= s0 -> 0 <= d -> s0 + d <= p_last (c_part cp) ->
  (beats_between (bmode cp) (c_part cp) s0 (s0 + d) == 1)%Q ->
  exists fb, full_bar cp s0 = Some fb /\ (fb == inject_Z (bar_beats cp s0) * inject_Z d)%Q.
Proof.
  intros Hwf H1 Hd H2 Hb. set (m := bmode cp) in *. set (p := c_part cp) in *.
  destruct (tmap_value m p Hwf s0) as [v0 [E0 _]]; [lia|].
  destruct (tmap_value m p Hwf (s0 + d)) as [v1 [E1 _]]; [lia|].
  pose proof (tmap_diff m p Hwf s0 (s0 + d) v0 v1 ltac:(lia) E0 E1) as Hdiff.
  destruct (inv_fwd m p Hwf (inject_Z (s0 + d)) v1 E1) as [t' [Ei Et]].
  assert (v1 == 1 + v0)%Q as Hv.
  { rewrite Hb in Hdiff. setoid_replace v1 with ((v1 - v0) + v0)%Q by ring. rewrite Hdiff. reflexivity. }
  destruct (interp_comp _ _ _ _ Hv Ei) as [x [Ex Hx]].
  unfold full_bar, bar_beats. fold m p. unfold tmapz in E0. rewrite E0.
  unfold tinv in *. rewrite Ex.
  destruct (ts_map cp s0) as [[b bt] mus]. eexists. split; [reflexivity|].
  rewrite <- Hx, Et, inject_Z_plus. ring.
Qed.

(* ... in particular under a constant meter: q divisions per quarter, beat factor f (= beat_type / 4, times
   musical_beats / beats in musical-beat mode) on [s0, s0 + d) with d / q * f = 1 *)
Corollary full_bar_constant_meter cp s0 d q f : wf (c_part cp) ->
  p_first (c_part cp) <= s0 -> 0 <= d -> s0 + d <= p_last (c_part cp) -> 0 < q ->
  (forall k, s0 <= k < s0 + d -> div_at (c_part cp) k = q /\ (bt_at (bmode cp) (c_part cp) k == f)%Q) ->
  (inject_Z d / inject_Z q * f == 1)%Q ->
  exists fb, full_bar cp s0 = Some fb /\ (fb == inject_Z (bar_beats cp s0) * inject_Z d)%Q.
Proof.
  intros Hwf H1 Hd H2 Hq Hk Hf. apply full_bar_whole_beat; auto.
  rewrite (beats_between_const (bmode cp) (c_part cp) s0 (s0 + d) q f ltac:(lia) Hk Hq).
  replace (s0 + d - s0) with d by lia. exact Hf.
Qed.

(* the worked part of Proofs/C10: 4/4 at 4 divisions per quarter -- one beat = 4 divisions, full bar = 4 x 4 = 16 *)
Lemma ex10_wf : wf (c_part ex10).
Proof.
  unfold wf, ex10; simpl. repeat split; auto; try lia.
  - intros k q [E|[]]; inversion E; lia.
  - destruct H as [<-|[]]; simpl; lia.
  - destruct H as [<-|[]]; simpl; lia.
  - destruct H as [<-|[]]; simpl; lia.
Qed.

Example ex10_full_bar :
  wf (c_part ex10) /\ (beats_between (bmode ex10) (c_part ex10) 0 (0 + 4) == 1)%Q /\ bar_beats ex10 0 = 4 /\
  exists fb, full_bar ex10 0 = Some fb /\ (fb == 16)%Q.
Proof.
  split; [exact ex10_wf|]. split; [vm_compute; reflexivity|]. split; [reflexivity|].
  destruct (full_bar_whole_beat ex10 0 4 ex10_wf) as [fb [E H]]; try (simpl; lia).
  - vm_compute. reflexivity.
  - exists fb. split; [exact E|]. rewrite H. vm_compute. reflexivity.
Qed.
