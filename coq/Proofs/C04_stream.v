(* C04 -- proofs about Model/C04_stream.v: tied chains, the message sequence of a written track and
   its reading by the importer's pairing loop, delta coding of the sequence. *)
From PV Require Import Lib.Base Lib.Round Model.C04 Model.C04_stream Proofs.C04 Proofs.C04_nonneg.
From Coq Require Import QArith Permutation Lqa.
#[local] Open Scope Z_scope.

(* ================================================================== tied chains *)
(* the chain of Note objects reached from index i through tie_next *)
Inductive tie_path (pcs : list piece) : Z -> list piece -> Prop :=
| tp_last i pc : piece_at pcs i = Some pc -> pc_next pc = None -> tie_path pcs i [pc]
| tp_step i pc j l : piece_at pcs i = Some pc -> pc_next pc = Some j -> tie_path pcs j l ->
                     tie_path pcs i (pc :: l).

Definition sum_durs (l : list piece) : Z := fold_right (fun pc a => pc_dur pc + a) 0 l.

Lemma dur_tied_sum pcs i l : tie_path pcs i l ->
  forall fuel, (List.length l <= fuel)%nat -> dur_tied fuel pcs i = Some (sum_durs l).
Proof.
  induction 1 as [i pc Hat Hn | i pc j l Hat Hn Hp IH]; intros fuel Hf.
  - destruct fuel as [|f]; [cbn in Hf; lia|]. cbn [dur_tied]. rewrite Hat, Hn. cbn. f_equal. lia.
  - destruct fuel as [|f]; [cbn in Hf; lia|]. cbn [dur_tied]. rewrite Hat, Hn.
    rewrite (IH f) by (cbn in Hf; lia). reflexivity.
Qed.

(* every piece starts where the previous one ends *)
Fixpoint abutting (l : list piece) : Prop :=
  match l with
  | [] => True
  | a :: r => match r with [] => True | b :: _ => pc_start a + pc_dur a = pc_start b end /\ abutting r
  end.

Definition chain_end (l : list piece) : Z :=
  match l with [] => 0 | a :: _ => pc_start (last l a) + pc_dur (last l a) end.
Definition chain_start (l : list piece) : Z := match l with [] => 0 | a :: _ => pc_start a end.

Lemma last_indep {A} (l : list A) (d1 d2 : A) : l <> [] -> last l d1 = last l d2.
Proof.
  induction l as [|a r IH]; intros NE; [congruence|].
  destruct r as [|b r']; [reflexivity|]. cbn [last] in *. apply IH. discriminate.
Qed.

Lemma abutting_sum l : l <> [] -> abutting l -> chain_start l + sum_durs l = chain_end l.
Proof.
  induction l as [|a r IH]; intros NE H; [congruence|].
  destruct r as [|b r'].
  - cbn. lia.
  - destruct H as [H1 H2]. specialize (IH ltac:(discriminate) H2).
    change (sum_durs (a :: b :: r')) with (pc_dur a + sum_durs (b :: r')).
    change (chain_start (a :: b :: r')) with (pc_start a).
    change (chain_start (b :: r')) with (pc_start b) in IH.
    assert (E : chain_end (a :: b :: r') = chain_end (b :: r')).
    { unfold chain_end. change (last (a :: b :: r') a) with (last (b :: r') a).
      rewrite (last_indep (b :: r') a b) by discriminate. reflexivity. }
    rewrite E, <- IH. lia.
Qed.

(* "tied notes merged": for the head of a chain of tied Note objects that abut, the note the
   exporter writes runs from the head's start to the end of the last object of the chain *)
Theorem tied_chain_merged pcs i l fuel :
  tie_path pcs i l -> abutting l -> (List.length l <= fuel)%nat ->
  exists r, dur_tied fuel pcs i = Some r /\ r = sum_durs l /\ chain_start l + r = chain_end l.
Proof.
  intros Hp Ha Hf. exists (sum_durs l). split; [apply dur_tied_sum; assumption|]. split; [reflexivity|].
  apply abutting_sum; [|exact Ha]. destruct Hp; discriminate.
Qed.

(* a path through distinct indices is never longer than the list: the fuel len(pcs) suffices *)
Lemma tied_from_heads all : forall l i out,
  tied_from all i l = Some out ->
  List.length out = List.length (filter (fun pc => negb (pc_has_prev pc)) l).
Proof.
  induction l as [|[[[[[s d] p] v] hp] nx] r IH]; intros i out H; cbn [tied_from] in H.
  - inversion H. reflexivity.
  - destruct (tied_from all (i + 1) r) as [rest|] eqn:E; [|discriminate].
    cbn [filter pc_has_prev]. destruct hp; cbn [negb].
    + inversion H; subst. eapply IH; exact E.
    + destruct (dur_tied _ all i); [|discriminate]. inversion H; subst. cbn [List.length].
      f_equal. eapply IH; exact E.
Qed.

(* three Note objects tied over two barlines, a grace note, an untied note (iter_all order) *)
Example tied_example :
  let pcs := [(0, 3, 60, 1, false, Some 2); (0, 0, 64, 1, false, None); (3, 12, 60, 1, true, Some 4);
              (5, 2, 67, 2, false, None); (15, 5, 60, 1, true, None)] in
  tie_path pcs 0 [(0, 3, 60, 1, false, Some 2); (3, 12, 60, 1, true, Some 4); (15, 5, 60, 1, true, None)] /\
  tied_notes pcs = Some [(0, 20, 60, 1); (0, 0, 64, 1); (5, 2, 67, 2)].
Proof.
  cbv zeta. split; [|reflexivity].
  eapply tp_step; [reflexivity | reflexivity |].
  eapply tp_step; [reflexivity | reflexivity |].
  eapply tp_last; reflexivity.
Qed.

(* ================================================================== sorted distinct ticks *)
Fixpoint strict_from (a : Z) (l : list Z) : Prop :=
  match l with [] => True | x :: r => a <= x /\ strict_from (x + 1) r end.

Lemma strict_from_weaken l : forall a b, b <= a -> strict_from a l -> strict_from b l.
Proof. destruct l as [|x r]; intros a b H S; [exact I|]. destruct S. split; [lia | assumption]. Qed.

Lemma strict_from_ge l : forall a x, strict_from a l -> In x l -> a <= x.
Proof.
  induction l as [|y r IH]; intros a x S H; [contradiction|]. destruct S as [S1 S2].
  destruct H as [->|H]; [exact S1|]. specialize (IH _ _ S2 H). lia.
Qed.

Lemma uinsert_strict x : forall l a, strict_from a l -> a <= x -> strict_from a (uinsert x l).
Proof.
  induction l as [|y r IH]; intros a S Hx; cbn [uinsert].
  - cbn. split; [exact Hx | exact I].
  - destruct S as [S1 S2]. destruct (x <? y) eqn:E1.
    + cbn [strict_from]. split; [exact Hx|]. split; [lia | exact S2].
    + destruct (x =? y) eqn:E2.
      * split; assumption.
      * cbn [strict_from]. split; [exact S1|]. apply IH; [exact S2 | lia].
Qed.

Lemma uinsert_In x y : forall l, In y (uinsert x l) <-> y = x \/ In y l.
Proof.
  induction l as [|z r IH]; cbn [uinsert].
  - cbn. intuition.
  - destruct (x <? z) eqn:E1; [cbn; intuition|].
    destruct (x =? z) eqn:E2.
    + assert (x = z) by lia. subst. cbn. intuition.
    + cbn [In]. rewrite IH. intuition.
Qed.

Lemma usort_strict l a : (forall x, In x l -> a <= x) -> strict_from a (usort l).
Proof.
  induction l as [|x r IH]; intros H; cbn [usort fold_right]; [exact I|].
  apply uinsert_strict; [apply IH; intros; apply H; right; assumption | apply H; left; reflexivity].
Qed.

Lemma usort_In l y : In y (usort l) <-> In y l.
Proof.
  induction l as [|x r IH]; cbn [usort fold_right]; [tauto|].
  change (fold_right uinsert [] r) with (usort r). rewrite uinsert_In, IH. cbn. intuition.
Qed.

Lemma lower_bound (l : list Z) : exists a, forall x, In x l -> a <= x.
Proof.
  induction l as [|y r [a IH]]; [exists 0; intros x []|].
  exists (Z.min a y). intros x [->|H]; [lia|]. specialize (IH x H). lia.
Qed.

(* ================================================================== list helpers *)
Lemma filter_split_perm {A} (p q : A -> bool) (l : list A) :
  Permutation (filter p l) (filter (fun x => p x && q x) l ++ filter (fun x => p x && negb (q x)) l).
Proof.
  induction l as [|a r IH]; [constructor|]. cbn [filter].
  destruct (p a), (q a); cbn [andb negb app].
  - constructor. exact IH.
  - eapply Permutation_trans; [constructor; exact IH|]. apply Permutation_middle.
  - exact IH.
  - exact IH.
Qed.

Lemma filter_nil_iff {A} (f : A -> bool) l : (forall x, In x l -> f x = false) -> filter f l = [].
Proof.
  induction l as [|a r IH]; intros H; [reflexivity|]. cbn [filter].
  rewrite (H a) by (left; reflexivity). apply IH. intros; apply H; right; assumption.
Qed.

Lemma fop_filter_le1 {A} (R : A -> A -> Prop) (f : A -> bool) l :
  ForallOrdPairs R l -> (forall a b, f a = true -> f b = true -> R a b -> False) ->
  (List.length (filter f l) <= 1)%nat.
Proof.
  intros H N. induction H as [|a l Ha Hl IH]; [cbn; lia|].
  cbn [filter]. destruct (f a) eqn:E; [|exact IH].
  rewrite filter_nil_iff; [cbn; lia|].
  intros x Hx. destruct (f x) eqn:Ex; [|reflexivity]. exfalso.
  rewrite Forall_forall in Ha. exact (N a x E Ex (Ha x Hx)).
Qed.

Lemma fop_filter {A} (R : A -> A -> Prop) (f : A -> bool) l :
  ForallOrdPairs R l -> ForallOrdPairs R (filter f l).
Proof.
  induction 1 as [|a l Ha Hl IH]; [constructor|]. cbn [filter].
  destruct (f a); [|exact IH]. constructor; [|exact IH].
  rewrite Forall_forall in *. intros x Hx. apply filter_In in Hx as [Hx _]. auto.
Qed.

Lemma fop_strengthen {A} (R S : A -> A -> Prop) l :
  (forall a b, In a l -> In b l -> R a b -> S a b) -> ForallOrdPairs R l -> ForallOrdPairs S l.
Proof.
  intros I H. induction H as [|a l Ha Hl IH]; [constructor|].
  constructor.
  - rewrite Forall_forall in *. intros x Hx. apply I; [left; reflexivity | right; exact Hx | auto].
  - apply IH. intros; apply I; try (right; assumption); assumption.
Qed.

Lemma fop_distinct {A} (R : A -> A -> Prop) l a b :
  (forall x y, R x y -> R y x) -> ForallOrdPairs R l -> In a l -> In b l -> a <> b -> R a b.
Proof.
  intros Sy H Ia Ib N. destruct (ForallOrdPairs_In H a b Ia Ib) as [E|[E|E]]; [congruence | exact E | apply Sy; exact E].
Qed.

Lemma length_le1_cases {A} (l : list A) : (List.length l <= 1)%nat -> l = [] \/ exists a, l = [a].
Proof. destruct l as [|a [|b r]]; cbn; intros H; [left; reflexivity | right; eexists; reflexivity | lia]. Qed.

(* ================================================================== the pairing loop on one key *)
(* two sounding notes do not overlap: one ends no later than the other starts (a zero-length note
   may sit on either end of another note, and two zero-length notes may share a tick) *)
Definition sep (a b : note) : Prop := n_off a <= n_on b \/ n_off b <= n_on a.
Definition n_dur (n : note) : Z := let '(_, _, _, d) := n in d.

Lemma sep_sym a b : sep a b -> sep b a.
Proof. unfold sep. tauto. Qed.

Lemma n_off_on n : n_off n = n_on n + n_dur n.
Proof. destruct n as [[[c s] p] d]. reflexivity. Qed.
Lemma n_long_dur n : n_long n = (0 <? n_dur n).
Proof. destruct n as [[[c s] p] d]. reflexivity. Qed.

Section OneKey.
  Variable vel : Z.
  Hypothesis vel_pos : 0 < vel.
  Variable M : list note.
  Hypothesis M_dur : forall n, In n M -> 0 <= n_dur n.
  Hypothesis M_sep : ForallOrdPairs sep M.

  Definition open_at (t : Z) : list note := filter (fun n => (n_on n <? t) && (t <=? n_off n)) M.
  Definition fut_at (t : Z) : list note := filter (fun n => t <=? n_on n) M.
  Definition st_of (l : list note) : option Z := match l with [] => None | a :: _ => Some (n_on a) end.

  Lemma open_le1 t : (List.length (open_at t) <= 1)%nat.
  Proof.
    apply (fop_filter_le1 sep); [exact M_sep|]. intros a b Ha Hb [H|H]; lia.
  Qed.

  Lemma ticks_on n : In n M -> In (n_on n) (note_ticks M).
  Proof.
    intros H. unfold note_ticks. apply in_flat_map. exists n. split; [exact H|].
    destruct (n_long n); left; reflexivity.
  Qed.
  Lemma ticks_off n : In n M -> In (n_off n) (note_ticks M).
  Proof.
    intros H. unfold note_ticks. apply in_flat_map. exists n. split; [exact H|].
    destruct (n_long n) eqn:E; [right; left; reflexivity|].
    left. rewrite n_off_on. rewrite n_long_dur in E. specialize (M_dur n H). lia.
  Qed.

  (* pairing over the blocks of one tick *)
  Lemma pair_graces G : (forall g, In g G -> n_dur g = 0) -> forall X,
    pair_single None (flat_map (fun n => [msg_on vel n; msg_goff n]) G ++ X) = G ++ pair_single None X.
  Proof.
    induction G as [|[[[c s] p] d] r IH]; intros Hg X; [reflexivity|].
    cbn [flat_map app msg_on msg_goff pair_single].
    assert (E1 : (1 =? 1) && (0 <? vel) = true) by lia. rewrite E1.
    cbn [Z.eqb Z.ltb Z.compare andb orb].
    assert (d = 0) by (apply (Hg (c, s, p, d)); left; reflexivity). subst d.
    rewrite IH by (intros; apply Hg; right; assumption).
    cbn [app]. f_equal. f_equal. lia.
  Qed.

  Lemma pair_on b X : pair_single None (msg_on vel b :: X) = pair_single (Some (n_on b)) X.
  Proof.
    destruct b as [[[c s] p] d]. cbn [msg_on pair_single n_on].
    assert (E1 : (1 =? 1) && (0 <? vel) = true) by lia. rewrite E1. reflexivity.
  Qed.

  Lemma pair_off a X : pair_single (Some (n_on a)) (msg_off a :: X) = a :: pair_single None X.
  Proof.
    destruct a as [[[c s] p] d]. cbn [msg_off pair_single n_on]. cbn [Z.eqb andb orb].
    f_equal. f_equal. lia.
  Qed.

  Lemma st_perm1 l a : Permutation l [a] -> st_of l = Some (n_on a).
  Proof. intros H. apply Permutation_sym, Permutation_length_1_inv in H. subst. reflexivity. Qed.
  Lemma st_perm0 l : Permutation l [] -> st_of l = None.
  Proof. intros H. apply Permutation_sym, Permutation_nil in H. subst. reflexivity. Qed.

  Definition blk (t : Z) : list msg := at_tick vel [] M t.

  Lemma single_key : forall ts t,
    strict_from t ts ->
    (forall x, In x (note_ticks M) -> t <= x -> In x ts) ->
    Permutation (pair_single (st_of (open_at t)) (flat_map blk ts)) (open_at t ++ fut_at t).
  Proof.
    induction ts as [|t1 r IH]; intros t S Hin.
    - (* no tick at or after t: nothing is open, nothing is to come *)
      assert (O : open_at t = []).
      { apply filter_nil_iff. intros n Hn. pose proof (Hin _ (ticks_off n Hn)) as H. cbn in H.
        destruct (t <=? n_off n) eqn:E; [exfalso; apply H; lia | apply andb_false_r]. }
      assert (F : fut_at t = []).
      { apply filter_nil_iff. intros n Hn. pose proof (Hin _ (ticks_on n Hn)) as H. cbn in H.
        destruct (t <=? n_on n) eqn:E; [exfalso; apply H; lia | reflexivity]. }
      rewrite O, F. constructor.
    - destruct S as [S1 S2].
      (* nothing happens between t and t1 *)
      assert (Gap : forall x, In x (note_ticks M) -> t <= x -> t1 <= x).
      { intros x Hx Ht. destruct (Hin x Hx Ht) as [->|H]; [lia|].
        pose proof (strict_from_ge _ _ _ S2 H). lia. }
      assert (O : open_at t = open_at t1).
      { apply filter_ext_in. intros n Hn.
        pose proof (Gap _ (ticks_on n Hn)). pose proof (Gap _ (ticks_off n Hn)).
        destruct (n_on n <? t) eqn:A, (t <=? n_off n) eqn:B, (n_on n <? t1) eqn:C, (t1 <=? n_off n) eqn:D;
          try reflexivity; lia. }
      assert (F : fut_at t = fut_at t1).
      { apply filter_ext_in. intros n Hn. pose proof (Gap _ (ticks_on n Hn)).
        destruct (t <=? n_on n) eqn:A, (t1 <=? n_on n) eqn:C; try reflexivity; lia. }
      rewrite O, F. clear O F.
      assert (Hin' : forall x, In x (note_ticks M) -> t1 + 1 <= x -> In x r).
      { intros x Hx Ht. destruct (Hin x Hx ltac:(lia)) as [E|H]; [lia | exact H]. }
      specialize (IH (t1 + 1) S2 Hin').
      (* the four groups of notes met at t1 *)
      set (E := filter (fun n => n_long n && (n_off n =? t1)) M).
      set (G := filter (fun n => negb (n_long n) && (n_on n =? t1)) M).
      set (B := filter (fun n => n_long n && (n_on n =? t1)) M).
      set (C := filter (fun n => (n_on n <? t1) && (t1 <? n_off n)) M).
      assert (PO : Permutation (open_at t1) (E ++ C)).
      { unfold open_at. eapply Permutation_trans; [apply (filter_split_perm _ (fun n => n_off n =? t1))|].
        apply Permutation_app; apply Permutation_refl'; apply filter_ext_in; intros n Hn;
          specialize (M_dur n Hn); rewrite ?n_long_dur; pose proof (n_off_on n);
          destruct (n_on n <? t1) eqn:A1, (t1 <=? n_off n) eqn:A2, (n_off n =? t1) eqn:A3, (0 <? n_dur n) eqn:A4,
                   (t1 <? n_off n) eqn:A5; cbn [andb negb]; try reflexivity; lia. }
      assert (PF : Permutation (fut_at t1) ((G ++ B) ++ fut_at (t1 + 1))).
      { unfold fut_at. eapply Permutation_trans; [apply (filter_split_perm _ (fun n => n_on n =? t1))|].
        apply Permutation_app.
        - eapply Permutation_trans; [apply (filter_split_perm _ (fun n => negb (n_long n)))|].
          apply Permutation_app; apply Permutation_refl'; apply filter_ext_in; intros n Hn;
            destruct (t1 <=? n_on n) eqn:A1, (n_on n =? t1) eqn:A2, (n_long n); cbn [andb negb]; try reflexivity; lia.
        - apply Permutation_refl'. apply filter_ext_in. intros n Hn.
          destruct (t1 <=? n_on n) eqn:A1, (n_on n =? t1) eqn:A2, (t1 + 1 <=? n_on n) eqn:A3; cbn [andb negb]; try reflexivity; lia. }
      assert (PO' : Permutation (open_at (t1 + 1)) (B ++ C)).
      { unfold open_at. eapply Permutation_trans; [apply (filter_split_perm _ (fun n => n_on n =? t1))|].
        apply Permutation_app; apply Permutation_refl'; apply filter_ext_in; intros n Hn;
          specialize (M_dur n Hn); rewrite ?n_long_dur; pose proof (n_off_on n);
          destruct (n_on n <? t1 + 1) eqn:A1, (t1 + 1 <=? n_off n) eqn:A2, (n_on n =? t1) eqn:A3, (0 <? n_dur n) eqn:A4,
                   (t1 <? n_off n) eqn:A5, (n_on n <? t1) eqn:A6; cbn [andb negb]; try reflexivity; lia. }
      assert (Gd : forall g, In g G -> n_dur g = 0).
      { intros g Hg. apply filter_In in Hg as [Hg Hc]. specialize (M_dur g Hg). rewrite n_long_dur in Hc.
        destruct (0 <? n_dur g) eqn:A; cbn in Hc; [discriminate | lia]. }
      assert (LB : (List.length B <= 1)%nat).
      { apply (fop_filter_le1 sep); [exact M_sep|]. intros a b Ha Hb [H|H];
          rewrite n_long_dur in Ha, Hb; pose proof (n_off_on a); pose proof (n_off_on b); lia. }
      assert (Blk : flat_map blk (t1 :: r) =
                    map msg_off E ++ flat_map (fun n => [msg_on vel n; msg_goff n]) G ++ map (msg_on vel) B ++ flat_map blk r).
      { cbn [flat_map]. unfold blk at 1, at_tick, offs_at, graces_at, ons_at. cbn [filter app].
        rewrite <- !app_assoc. reflexivity. }
      rewrite Blk. clear Blk.
      pose proof (open_le1 t1) as LO. rewrite (Permutation_length PO) in LO.
      assert (Tail : forall o', o' = st_of (open_at (t1 + 1)) -> forall pre,
                Permutation (pre ++ G ++ pair_single o' (flat_map blk r)) (open_at t1 ++ fut_at t1) ->
                True) by auto. clear Tail.
      (* what follows the note offs *)
      assert (After : C = [] ->
                Permutation (pair_single None (flat_map (fun n => [msg_on vel n; msg_goff n]) G ++ map (msg_on vel) B ++ flat_map blk r))
                            (G ++ B ++ fut_at (t1 + 1))).
      { intros HC. rewrite HC, app_nil_r in PO'. rewrite pair_graces by exact Gd.
        apply Permutation_app_head.
        destruct (length_le1_cases B LB) as [HB|[b HB]]; rewrite HB in *; cbn [map app].
        - rewrite (st_perm0 _ PO') in IH. eapply Permutation_trans; [exact IH|].
          rewrite (Permutation_nil (Permutation_sym PO')). reflexivity.
        - rewrite pair_on. rewrite (st_perm1 _ _ PO') in IH.
          eapply Permutation_trans; [exact IH|].
          change (b :: fut_at (t1 + 1)) with ([b] ++ fut_at (t1 + 1)).
          apply Permutation_app_tail. exact PO'. }
      destruct E as [|a E'] eqn:HE.
      + destruct (length_le1_cases C ltac:(cbn in LO; exact LO)) as [HC|[a HC]].
        * (* nothing open *)
          rewrite HC in PO. cbn [app] in PO. rewrite (st_perm0 _ PO). cbn [map app].
          eapply Permutation_trans; [apply After; exact HC|].
          eapply Permutation_trans; [|apply Permutation_app; [apply Permutation_sym; exact PO | apply Permutation_sym; exact PF]].
          cbn [app]. rewrite <- app_assoc. reflexivity.
        * (* a note stays open over t1: no other note of the key may touch t1 *)
          assert (Ha : In a M /\ n_on a < t1 /\ t1 < n_off a).
          { assert (I : In a C) by (rewrite HC; left; reflexivity). apply filter_In in I as [I1 I2]. split; [exact I1 | lia]. }
          destruct Ha as (Ia & A1 & A2).
          assert (HG : G = []).
          { apply filter_nil_iff. intros g Ig.
            destruct (negb (n_long g) && (n_on g =? t1)) eqn:Q; [exfalso | reflexivity].
            assert (D0 : n_dur g = 0) by (apply Gd; apply filter_In; split; assumption).
            assert (N : a <> g) by (intros ->; pose proof (n_off_on g); lia).
            destruct (fop_distinct sep M a g sep_sym M_sep Ia Ig N) as [H|H]; pose proof (n_off_on g); lia. }
          assert (HB : B = []).
          { apply filter_nil_iff. intros b Ib.
            destruct (n_long b && (n_on b =? t1)) eqn:Q; [exfalso | reflexivity].
            assert (N : a <> b) by (intros ->; lia).
            rewrite n_long_dur in Q.
            destruct (fop_distinct sep M a b sep_sym M_sep Ia Ib N) as [H|H]; pose proof (n_off_on b); lia. }
          rewrite HG, HB, HC in *. cbn [map flat_map app] in *.
          rewrite (st_perm1 _ _ PO). rewrite (st_perm1 _ _ PO') in IH.
          eapply Permutation_trans; [exact IH|].
          apply Permutation_app; [eapply Permutation_trans; [exact PO' | apply Permutation_sym; exact PO]|].
          apply Permutation_sym. exact PF.
      + (* a note ends at t1 *)
        assert (HE' : E' = []) by (destruct E'; [reflexivity | cbn in LO; lia]).
        assert (HC : C = []) by (destruct C; [reflexivity | rewrite HE' in LO; cbn in LO; lia]).
        rewrite HE', HC in *. cbn [app map] in *.
        rewrite (st_perm1 _ _ PO). rewrite pair_off.
        eapply Permutation_trans; [constructor; apply After; reflexivity|].
        eapply Permutation_trans; [|apply Permutation_app; [apply Permutation_sym; exact PO | apply Permutation_sym; exact PF]].
        cbn [app]. rewrite <- app_assoc. reflexivity.
  Qed.
End OneKey.

(* ================================================================== the whole track *)
Lemma msg_on_note vel n : 0 < vel -> is_note_msg (msg_on vel n) = true /\ mhash (msg_on vel n) = nhash n.
Proof. destruct n as [[[c s] p] d]. intros H. cbn. split; [|reflexivity]. destruct (0 <? vel) eqn:E; [reflexivity | lia]. Qed.
Lemma msg_off_note n : is_note_msg (msg_off n) = true /\ mhash (msg_off n) = nhash n.
Proof. destruct n as [[[c s] p] d]. cbn. auto. Qed.
Lemma msg_goff_note n : is_note_msg (msg_goff n) = true /\ mhash (msg_goff n) = nhash n.
Proof. destruct n as [[[c s] p] d]. cbn. auto. Qed.

Lemma filter_map_comm {A B} (f : A -> B) (p : B -> bool) (q : A -> bool) l :
  (forall x, p (f x) = q x) -> filter p (map f l) = map f (filter q l).
Proof.
  intros H. induction l as [|a r IH]; [reflexivity|]. cbn [map filter]. rewrite H.
  destruct (q a); cbn [map]; rewrite IH; reflexivity.
Qed.

Lemma filter_filter_comm {A} (p q : A -> bool) l : filter p (filter q l) = filter q (filter p l).
Proof.
  induction l as [|a r IH]; [reflexivity|]. cbn [filter].
  destruct (p a) eqn:P, (q a) eqn:Q; cbn [filter]; rewrite ?P, ?Q, IH; reflexivity.
Qed.

Lemma filter_flat_map {A B} (p : B -> bool) (f : A -> list B) l :
  filter p (flat_map f l) = flat_map (fun x => filter p (f x)) l.
Proof.
  induction l as [|a r IH]; [reflexivity|]. cbn [flat_map]. rewrite filter_app, IH. reflexivity.
Qed.

Lemma proj_graces vel h L : 0 < vel ->
  filter (fun m => is_note_msg m && (mhash m =? h)) (flat_map (fun n => [msg_on vel n; msg_goff n]) L)
  = flat_map (fun n => [msg_on vel n; msg_goff n]) (filter (fun n => nhash n =? h) L).
Proof.
  intros Hv. induction L as [|n r IH]; [reflexivity|].
  cbn [flat_map]. rewrite filter_app, IH. cbn [filter].
  destruct (msg_on_note vel n Hv) as [-> ->]. destruct (msg_goff_note n) as [-> ->].
  cbn [andb]. destruct (nhash n =? h); reflexivity.
Qed.

(* the sub-stream of one key of the written sequence is the sequence written for the notes of that key alone *)
Lemma proj_block vel metas N h t : 0 < vel -> (forall m, In m metas -> is_note_msg m = false) ->
  proj h (at_tick vel metas N t) = at_tick vel [] (filter (fun n => nhash n =? h) N) t.
Proof.
  intros Hv Hm. unfold proj, at_tick. rewrite !filter_app. cbn [filter app].
  rewrite (filter_nil_iff _ (filter _ metas)).
  2:{ intros m Im. apply filter_In in Im as [Im _]. rewrite (Hm m Im). reflexivity. }
  cbn [app]. unfold offs_at, graces_at, ons_at. f_equal; [|f_equal].
  - rewrite (filter_map_comm _ _ (fun n => nhash n =? h)).
    + rewrite filter_filter_comm. reflexivity.
    + intros n. destruct (msg_off_note n) as [-> ->]. reflexivity.
  - rewrite proj_graces by exact Hv. rewrite filter_filter_comm. reflexivity.
  - rewrite (filter_map_comm _ _ (fun n => nhash n =? h)).
    + rewrite filter_filter_comm. reflexivity.
    + intros n. destruct (msg_on_note vel n Hv) as [-> ->]. reflexivity.
Qed.

Lemma note_ticks_filter (f : note -> bool) N x : In x (note_ticks (filter f N)) -> In x (note_ticks N).
Proof.
  unfold note_ticks. rewrite !in_flat_map. intros [n [Hn Hx]]. apply filter_In in Hn as [Hn _]. eauto.
Qed.

(* notes of one (channel, pitch) key do not overlap; other pairs are unconstrained *)
Definition no_overlap (N : list note) : Prop := ForallOrdPairs (fun a b => nhash a = nhash b -> sep a b) N.

(* MAIN: reading the sequence written for the notes N of a track with the importer's pairing loop
   returns exactly N (as a multiset): every note with its channel, on tick, pitch and length.
   Hypotheses: a positive velocity (a note_on with velocity 0 would read as a note off), signatures
   and tempi are not note messages, no note ends before it starts, and no two notes of one
   (channel, pitch) key overlap -- the condition of the property's quantifier. *)
Theorem stream_pairs vel metas N :
  0 < vel -> (forall m, In m metas -> is_note_msg m = false) ->
  (forall n, In n N -> 0 <= n_dur n) -> no_overlap N ->
  Permutation (pair_notes no_open (stream vel metas N)) N.
Proof.
  intros Hv Hm Hd Hno. apply (Permutation_count_occ note_eq_dec). intros x.
  rewrite <- (count_occ_filter_hash (pair_notes no_open _) x), <- (count_occ_filter_hash N x).
  rewrite pair_notes_proj. set (h := nhash x). set (M := filter (fun n => nhash n =? h) N).
  apply (Permutation_count_occ note_eq_dec).
  unfold stream. set (ts := usort _).
  assert (P : proj h (flat_map (at_tick vel metas N) ts) = flat_map (blk vel M) ts).
  { unfold proj. rewrite filter_flat_map. apply flat_map_ext. intros t. apply proj_block; assumption. }
  rewrite P. clear P.
  assert (Md : forall n, In n M -> 0 <= n_dur n) by (intros n Hn; apply filter_In in Hn as [Hn _]; auto).
  assert (Ms : ForallOrdPairs sep M).
  { apply (fop_strengthen (fun a b => nhash a = nhash b -> sep a b)).
    - intros a b Ia Ib H. apply H. apply filter_In in Ia as [_ Ia], Ib as [_ Ib]. lia.
    - apply fop_filter. exact Hno. }
  destruct (lower_bound (map m_time metas ++ note_ticks N)) as [a Ha].
  pose proof (single_key vel Hv M Md Ms ts a) as K.
  assert (O : open_at M a = []).
  { apply filter_nil_iff. intros n Hn. pose proof (ticks_on M n Hn) as T.
    apply note_ticks_filter in T. specialize (Ha (n_on n) ltac:(apply in_or_app; right; exact T)).
    destruct (n_on n <? a) eqn:E; [lia | reflexivity]. }
  assert (F : fut_at M a = M).
  { unfold fut_at. rewrite (filter_ext_in _ (fun _ => true)).
    - clear. induction M as [|y r IH]; [reflexivity|]. cbn [filter]. rewrite IH. reflexivity.
    - intros n Hn. pose proof (ticks_on M n Hn) as T.
      apply note_ticks_filter in T. specialize (Ha (n_on n) ltac:(apply in_or_app; right; exact T)). lia. }
  rewrite O, F in K. cbn [st_of app] in K. unfold no_open. apply K.
  - apply usort_strict. exact Ha.
  - intros y Hy _. apply usort_In. apply in_or_app. right. eapply note_ticks_filter. exact Hy.
Qed.

(* delta coding of a whole message sequence: the importer's running time restores every message *)
Lemma abs_to_delta : forall ms a, abs_from a (to_delta a ms) = ms.
Proof.
  induction ms as [|[[[[t k] x] y] z] r IH]; intros a; [reflexivity|].
  cbn [to_delta abs_from set_time m_time]. replace (a + (t - a)) with t by lia. rewrite IH. reflexivity.
Qed.

Lemma to_delta_times : forall ms a, map m_time (to_delta a ms) = delta_from a (map m_time ms).
Proof.
  induction ms as [|[[[[t k] x] y] z] r IH]; intros a; [reflexivity|].
  cbn [to_delta map delta_from set_time m_time]. rewrite IH. reflexivity.
Qed.

Lemma stream_times_sorted vel metas N a :
  (forall x, In x (map m_time metas ++ note_ticks N) -> a <= x) ->
  nondecreasing_from a (map m_time (stream vel metas N)).
Proof.
  intros Ha. unfold stream. pose proof (usort_strict _ a Ha) as S.
  set (ts := usort _) in *. clearbody ts. clear Ha. revert a S.
  induction ts as [|t r IH]; intros a S; [exact I|].
  destruct S as [S1 S2]. cbn [flat_map]. rewrite map_app.
  assert (Bt : forall m, In m (at_tick vel metas N t) -> m_time m = t).
  { intros m Hm. unfold at_tick, offs_at, graces_at, ons_at in Hm.
    repeat (apply in_app_or in Hm as [Hm|Hm]).
    - apply filter_In in Hm as [_ Hm]. lia.
    - apply in_map_iff in Hm as [n [<- Hn]]. apply filter_In in Hn as [_ Hn].
      destruct n as [[[c s] p] d]. cbn in *. lia.
    - apply in_flat_map in Hm as [n [Hn Hm]]. apply filter_In in Hn as [_ Hn].
      destruct n as [[[c s] p] d]. cbn in *. destruct Hm as [<-|[<-|[]]]; cbn; lia.
    - apply in_map_iff in Hm as [n [<- Hn]]. apply filter_In in Hn as [_ Hn].
      destruct n as [[[c s] p] d]. cbn in *. lia. }
  specialize (IH (t + 1) S2).
  assert (IH' : nondecreasing_from t (map m_time (flat_map (at_tick vel metas N) r))).
  { destruct r as [|t' r']; [exact I|].
    assert (G : forall l b, nondecreasing_from (b + 1) l -> nondecreasing_from b l).
    { intros l b. destruct l; [auto|]. cbn. intros [? ?]. split; [lia | assumption]. }
    apply G. apply IH. }
  clear IH. set (blkt := at_tick vel metas N t) in *. clearbody blkt.
  revert a S1. induction blkt as [|m bl IHb]; intros a S1; cbn [map app].
  - destruct (map m_time _) as [|y l]; [exact I|]. destruct IH' as [H1 H2]. split; [lia | exact H2].
  - cbn [nondecreasing_from]. rewrite (Bt m) by (left; reflexivity). split; [exact S1|].
    apply IHb; [intros; apply Bt; right; assumption | lia].
Qed.

(* ================================================================== the model of save_score_midi *)
Lemma track_metas_not_notes mode vel an ppq ps i m :
  In m (track_metas mode vel an ppq ps i) -> is_note_msg m = false.
Proof.
  unfold track_metas. intros H. apply filter_In in H as [_ H].
  destruct m as [[[[t k] a] b] c]. cbn in *.
  destruct (k =? 1) eqn:E1, (k =? 0) eqn:E0; cbn; try reflexivity; lia.
Qed.

(* musical time never runs backwards: quarters elapsed are monotone in the timeline time *)
Lemma seg_mono a b q : a <= b -> (seg a q <= seg b q)%Q.
Proof. intros H. unfold seg, Qle. cbn [Qnum Qden]. nia. Qed.

Lemma qraw_mono qd : qd_sorted qd -> forall t t', t <= t' -> (qraw qd t <= qraw qd t')%Q.
Proof.
  induction qd as [|[t0 q0] r IH]; intros Hs t t' Ht; cbn [qraw]; [apply Qle_refl|].
  destruct Hs as (Hq & H1 & Hr). destruct r as [|[t1 q1] r'].
  - apply seg_mono. lia.
  - destruct (t <=? t1) eqn:E, (t' <=? t1) eqn:E'.
    + apply seg_mono. lia.
    + assert (A : (seg (t - t0) q0 <= seg (t1 - t0) q0)%Q) by (apply seg_mono; lia).
      assert (B : (0 <= qraw ((t1, q1) :: r') t')%Q) by (apply qraw_nonneg; [exact Hr | lia]).
      lra.
    + lia.
    + specialize (IH Hr t t' Ht). lra.
Qed.

Lemma inject_Z_le_inv a b : (inject_Z a <= inject_Z b)%Q -> a <= b.
Proof. unfold Qle, inject_Z. cbn. lia. Qed.

(* the tick conversion is monotone (under the divisibility that makes ticks exact) *)
Lemma tick_mono ppq an ps p t t' :
  0 <= ppq -> parts_ok ppq ps -> (forall p, In p ps -> bar_ok ppq p) -> In p ps ->
  qd_sorted (p_qd p) -> t <= t' -> tick ppq (ftp an ps) p t <= tick ppq (ftp an ps) p t'.
Proof.
  intros Hp Hok Hbar Hin Hs Ht.
  destruct (tick_integral ppq an ps p t Hok Hbar Hin) as [k [Ek Tk]].
  destruct (tick_integral ppq an ps p t' Hok Hbar Hin) as [k' [Ek' Tk']].
  rewrite Tk, Tk'. apply inject_Z_le_inv. rewrite <- Ek, <- Ek'. unfold tick_q, quarter.
  pose proof (qraw_mono _ Hs t t' Ht) as Q.
  assert (P : (0 <= inject_Z ppq)%Q) by (unfold Qle, inject_Z; cbn; lia).
  setoid_rewrite Qmult_comm. apply Qmult_le_compat_r; [lra | exact P].
Qed.

Definition notes_fwd (p : part) : Prop :=
  forall s d pitch v, In (s, d, pitch, v) (p_notes p) -> 0 <= d.

Lemma track_notes_dur_nonneg mode an ppq ps i n :
  0 <= ppq -> parts_ok ppq ps -> (forall p, In p ps -> bar_ok ppq p) ->
  (forall p, In p ps -> qd_sorted (p_qd p) /\ notes_fwd p) ->
  In n (track_notes mode an ppq ps i) -> 0 <= n_dur n.
Proof.
  intros Hp Hok Hbar Hwf H. unfold track_notes in H.
  apply in_map_iff in H as [[tr n'] [<- H]]. apply filter_In in H as [H _].
  apply in_flat_map in H as [p [Hin H]]. unfold part_track_notes in H.
  apply in_map_iff in H as [[[[s d] pitch] v] [E H]].
  destruct (track_channel mode (all_keys ps) (p_group p, p_id p, v)) as [tr' ch].
  inversion E; subst. cbn [snd n_dur].
  destruct (Hwf p Hin) as [Hs Hf]. specialize (Hf s d pitch v H).
  pose proof (tick_mono ppq an ps p s (s + d) Hp Hok Hbar Hin Hs ltac:(lia)). lia.
Qed.

(* MAIN, on the model of save_score_midi: for every track i of the written file, reading the
   delta-coded message sequence of the track with the importer's loop (running time, sounding-note
   table keyed by channel*128+pitch) returns exactly the track's notes -- channel, on tick, pitch,
   length in ticks -- as a multiset, whatever the mode, the anacrusis behaviour and the signatures
   and tempi in between.  ppq is any value all quarter durations divide (model_ppq is one, by
   ppq_divisible_and_minimal). *)
Theorem score_track_roundtrip mode vel an ppq ps i :
  0 < vel -> 0 <= ppq -> parts_ok ppq ps -> (forall p, In p ps -> bar_ok ppq p) ->
  (forall p, In p ps -> qd_sorted (p_qd p) /\ notes_fwd p) ->
  no_overlap (track_notes mode an ppq ps i) ->
  Permutation (pair_notes no_open (absolute (to_delta 0 (model_stream mode vel an ppq ps i))))
              (track_notes mode an ppq ps i).
Proof.
  intros Hv Hp Hok Hbar Hwf Hno. unfold absolute. rewrite abs_to_delta. unfold model_stream.
  apply stream_pairs; [exact Hv | | | exact Hno].
  - intros m. apply track_metas_not_notes.
  - intros n. apply (track_notes_dur_nonneg mode an ppq ps i n Hp Hok Hbar Hwf).
Qed.

(* the written delta times are non-negative as soon as no event lies before tick 0
   (ticks_nonnegative gives that for the note ticks) *)
Theorem stream_deltas_nonneg vel metas N :
  (forall x, In x (map m_time metas ++ note_ticks N) -> 0 <= x) ->
  Forall (fun d => 0 <= d) (map m_time (to_delta 0 (stream vel metas N))).
Proof.
  intros H. rewrite to_delta_times. apply delta_nonneg_from. apply stream_times_sorted. exact H.
Qed.

(* the requested velocity is used: every note_on of the written sequence carries it *)
Theorem velocity_used vel metas N m :
  (forall x, In x metas -> m_kind x <> 1) ->
  In m (stream vel metas N) -> m_kind m = 1 -> let '(_, _, _, _, v) := m in v = vel.
Proof.
  intros Hm H K. unfold stream in H. apply in_flat_map in H as [t [_ H]].
  unfold at_tick, offs_at, graces_at, ons_at in H.
  repeat (apply in_app_or in H as [H|H]).
  - apply filter_In in H as [H _]. exfalso. exact (Hm m H K).
  - apply in_map_iff in H as [[[[c s] p] d] [<- _]]. cbn in K. discriminate.
  - apply in_flat_map in H as [[[[c s] p] d] [_ H]]. destruct H as [<-|[<-|[]]]; [reflexivity | cbn in K; discriminate].
  - apply in_map_iff in H as [[[[c s] p] d] [<- _]]. reflexivity.
Qed.

(* hypotheses satisfiable by a non-trivial state: one channel, two abutting notes of pitch 60 (the second
   starts where the first ends), a zero-length note of pitch 60 on that very tick, a chord note, a tempo and
   a key signature; the sequence is the exporter's (offs, zero-length notes, ons) and reads back as the notes *)
Example stream_example :
  let N := [(1, 4, 60, 2); (1, 0, 60, 4); (1, 4, 60, 0); (1, 0, 64, 6)] in
  let metas := [(0, 4, 500000, 0, 0); (4, 3, 2, 0, 0)] in
  no_overlap N /\
  stream 30 metas N =
    [(0, 4, 500000, 0, 0); (0, 1, 1, 60, 30); (0, 1, 1, 64, 30);
     (4, 3, 2, 0, 0); (4, 0, 1, 60, 0); (4, 1, 1, 60, 30); (4, 0, 1, 60, 0); (4, 1, 1, 60, 30);
     (6, 0, 1, 60, 0); (6, 0, 1, 64, 0)] /\
  pair_notes no_open (absolute (to_delta 0 (stream 30 metas N))) =
    [(1, 0, 60, 4); (1, 4, 60, 0); (1, 4, 60, 2); (1, 0, 64, 6)].
Proof.
  cbv zeta. split; [|split; reflexivity].
  unfold no_overlap, sep.
  repeat (first [apply FOP_nil | apply FOP_cons | apply Forall_nil | apply Forall_cons]); cbn; intros; lia.
Qed.

(* ================================================================== signatures *)
Lemma in_stream_meta vel metas N m : In m metas -> In m (stream vel metas N).
Proof.
  intros H. unfold stream. apply in_flat_map. exists (m_time m). split.
  - apply usort_In. apply in_or_app. left. apply in_map. exact H.
  - unfold at_tick. apply in_or_app. left. apply filter_In. split; [exact H | apply Z.eqb_refl].
Qed.

Lemma track_sigs_written kind S t k a b c :
  In (t, k, a, b, c) S -> k = kind -> In (t, a, b) (track_sigs kind (to_delta 0 S)).
Proof.
  intros H ->. unfold track_sigs, absolute. rewrite abs_to_delta.
  apply in_map_iff. exists (t, kind, a, b, c). split; [reflexivity|].
  apply filter_In. split; [exact H | cbn; apply Z.eqb_refl].
Qed.

Lemma in_track_metas mode vel an ppq ps tr m :
  In (tr, m) (model_events mode vel an ppq ps) -> 2 <= m_kind m -> In m (track_metas mode vel an ppq ps tr).
Proof.
  intros H K. unfold track_metas, track_of. apply filter_In. split; [|lia].
  apply in_map_iff. exists (tr, m). split; [reflexivity|]. apply filter_In. split; [exact H | cbn; apply Z.eqb_refl].
Qed.

Lemma part_tracks_In mode keys p k :
  In k keys -> k_part k = p_id p -> In (fst (track_channel mode keys k)) (part_tracks mode keys p).
Proof.
  intros H E. unfold part_tracks. apply (dedup_In Z.eqb Z.eqb_eq).
  apply in_map_iff. exists k. split; [reflexivity|]. apply filter_In. split; [exact H | lia].
Qed.

(* "key signatures appear at the same musical positions", the exporter's half: a key signature at
   timeline time t of a part is in the written sequence of every track holding notes of that part,
   at the tick of t *)
Theorem keysig_written mode vel an ppq ps p t code k :
  In p ps -> In (t, code) (p_ksigs p) -> In k (all_keys ps) -> k_part k = p_id p ->
  In (tick ppq (ftp an ps) p t, code, 0)
     (track_sigs 3 (to_delta 0 (model_stream mode vel an ppq ps (fst (track_channel mode (all_keys ps) k))))).
Proof.
  intros Hp Hk Hin Hpart. eapply track_sigs_written; [|reflexivity].
  unfold model_stream. apply in_stream_meta. apply in_track_metas; [|cbn; lia].
  unfold model_events. apply in_or_app. right. apply in_or_app. left.
  apply in_flat_map. exists p. split; [exact Hp|]. unfold meta_events.
  apply in_flat_map. exists (fst (track_channel mode (all_keys ps) k)). split; [apply part_tracks_In; assumption|].
  apply in_map. apply in_or_app. right.
  apply in_map_iff. exists (t, code). split; [reflexivity | exact Hk].
Qed.

Lemma tsig_events_In an ppq f p : forall l first t b bt,
  In (t, b, bt) l -> an <> 2 -> In (tick ppq f p t, 2, b, bt, 0) (tsig_events an ppq f p first l).
Proof.
  induction l as [|[[t0 b0] bt0] r IH]; intros first t b bt H A; [contradiction|].
  cbn [tsig_events]. destruct H as [E|H].
  - inversion E; subst. left. replace (an =? 2) with false by lia. rewrite andb_false_r. reflexivity.
  - right. apply IH; assumption.
Qed.

(* the same for time signatures under anacrusis_behavior = "shift" (under pad_bar the first one is moved
   to tick 0 on purpose, under time_sig_change the harness' oracle judges the signature in force) *)
Theorem timesig_written_shift mode vel ppq ps p t b bt k :
  In p ps -> In (t, b, bt) (p_tsigs p) -> In k (all_keys ps) -> k_part k = p_id p ->
  In (tick ppq (ftp 0 ps) p t, b, bt)
     (track_sigs 2 (to_delta 0 (model_stream mode vel 0 ppq ps (fst (track_channel mode (all_keys ps) k))))).
Proof.
  intros Hp Hk Hin Hpart. eapply track_sigs_written; [|reflexivity].
  unfold model_stream. apply in_stream_meta. apply in_track_metas; [|cbn; lia].
  unfold model_events. apply in_or_app. right. apply in_or_app. left.
  apply in_flat_map. exists p. split; [exact Hp|]. unfold meta_events.
  apply in_flat_map. exists (fst (track_channel mode (all_keys ps) k)). split; [apply part_tracks_In; assumption|].
  apply in_map. apply in_or_app. left. cbn [Z.eqb]. apply tsig_events_In; [exact Hk | lia].
Qed.

(* the importer's half (make_track_to_part_mapping): a part receives the key signatures of exactly the
   tracks it holds notes of, plus those of tracks without any note *)
Lemma parts_of_track_spec mode tcs i prt :
  In prt (parts_of_track mode tcs i) <-> exists ch, In (i, ch) tcs /\ gpv_part mode tcs (i, ch) = prt.
Proof.
  unfold parts_of_track. rewrite (dedup_In Z.eqb Z.eqb_eq). rewrite in_map_iff. split.
  - intros [[i' ch] [E H]]. apply filter_In in H as [H F]. cbn in F. assert (i' = i) by lia. subst. eauto.
  - intros [ch [H E]]. exists (i, ch). split; [exact E|]. apply filter_In. split; [exact H | cbn; apply Z.eqb_refl].
Qed.

Definition tcs_of (trs : list (list msg)) : list (Z * Z) := zzsort (dedup zz_eqb (map tc_of (import_tracks 0 trs))).
Definition track_sounds (trs : list (list msg)) (i : Z) : Prop := exists ch, In (i, ch) (tcs_of trs).

Lemma existsb_fst tcs i : existsb (fun k : Z * Z => fst k =? i) tcs = true <-> exists ch, In (i, ch) tcs.
Proof.
  rewrite existsb_exists. split.
  - intros [[i' ch] [H E]]. cbn in E. assert (i' = i) by lia. subst. eauto.
  - intros [ch H]. exists (i, ch). split; [exact H | cbn; apply Z.eqb_refl].
Qed.

Theorem import_keysigs_spec mode trs prt sg :
  In (prt, sg) (import_sigs mode 3 trs) <->
  (exists i tr ch, In (i, tr) (indexed 0 trs) /\ In sg (track_sigs 3 tr) /\
                   In (i, ch) (tcs_of trs) /\ gpv_part mode (tcs_of trs) (i, ch) = prt)
  \/ (exists i tr ch', In (i, tr) (indexed 0 trs) /\ In sg (track_sigs 3 tr) /\ ~ track_sounds trs i /\
                       In ch' (tcs_of trs) /\ gpv_part mode (tcs_of trs) ch' = prt).
Proof.
  unfold import_sigs. fold (tcs_of trs). change (3 =? 2) with false. cbv zeta. cbn [andb]. cbv iota. set (tcs := tcs_of trs).
  rewrite in_app_iff. split.
  - intros [H|H].
    + left. apply in_flat_map in H as [[i tr] [H1 H2]]. apply filter_In in H1 as [H1 Hn]. cbn [fst snd] in *.
      apply in_flat_map in H2 as [prt' [H2 H3]]. apply in_map_iff in H3 as [s [E H3]]. inversion E; subst.
      apply parts_of_track_spec in H2 as [ch [H2 H4]]. exists i, tr, ch. auto.
    + right. apply in_flat_map in H as [prt' [H1 H2]]. apply in_map_iff in H2 as [s [E H2]]. inversion E; subst.
      apply in_flat_map in H2 as [[i tr] [H2 H3]]. apply filter_In in H2 as [H2 Hn]. cbn [fst snd] in *.
      rewrite (dedup_In Z.eqb Z.eqb_eq) in H1. apply in_map_iff in H1 as [ch' [E1 H1]].
      exists i, tr, ch'. repeat split; auto.
      intros [ch Hc]. apply negb_true_iff in Hn.
      assert (T : existsb (fun k : Z * Z => fst k =? i) tcs = true) by (apply existsb_fst; eauto). congruence.
  - intros [[i [tr [ch (H1 & H2 & H3 & H4)]]] | [i [tr [ch' (H1 & H2 & H3 & H4 & H5)]]]].
    + left. apply in_flat_map. exists (i, tr). split.
      * apply filter_In. split; [exact H1|]. cbn [fst]. apply existsb_fst. eauto.
      * cbn [fst snd]. apply in_flat_map. exists prt. split; [apply parts_of_track_spec; eauto|].
        apply in_map. exact H2.
    + right. apply in_flat_map. exists prt. split.
      * apply (dedup_In Z.eqb Z.eqb_eq). apply in_map_iff. exists ch'. auto.
      * apply in_map. apply in_flat_map. exists (i, tr). split; [|exact H2].
        apply filter_In. split; [exact H1|]. cbn [fst]. apply negb_true_iff.
        destruct (existsb (fun k : Z * Z => fst k =? i) tcs) eqn:T; [|reflexivity].
        exfalso. apply H3. apply existsb_fst in T. exact T.
Qed.

(* ================================================================== the whole file *)
Definition model_file (mode vel an ppq : Z) (ps : list part) : list (list msg) :=
  map (fun i => to_delta 0 (model_stream mode vel an ppq ps i)) (zrange 0 (Z.to_nat (n_tracks mode ps))).

Lemma import_tracks_perm (F : Z -> list msg) (G : Z -> list note) : forall n j,
  (forall i, j <= i < j + Z.of_nat n -> Permutation (pair_notes no_open (absolute (F i))) (G i)) ->
  Permutation (import_tracks j (map F (zrange j n)))
              (flat_map (fun i => map (fun x => (i, x)) (G i)) (zrange j n)).
Proof.
  induction n as [|n IH]; intros j H; cbn [zrange map import_tracks flat_map]; [constructor|].
  apply Permutation_app.
  - apply Permutation_map. apply H. lia.
  - apply IH. intros i Hi. apply H. lia.
Qed.

(* all tracks at once: the importer's reading of the model's file is, track by track, the notes the
   exporter put there -- for every mode, anacrusis behaviour, velocity and any ppq all quarter
   durations divide *)
Theorem score_file_roundtrip mode vel an ppq ps :
  0 < vel -> 0 <= ppq -> parts_ok ppq ps -> (forall p, In p ps -> bar_ok ppq p) ->
  (forall p, In p ps -> qd_sorted (p_qd p) /\ notes_fwd p) ->
  (forall i, no_overlap (track_notes mode an ppq ps i)) ->
  Permutation (import_tracks 0 (model_file mode vel an ppq ps))
              (flat_map (fun i => map (fun n => (i, n)) (track_notes mode an ppq ps i))
                        (zrange 0 (Z.to_nat (n_tracks mode ps)))).
Proof.
  intros Hv Hp Hok Hbar Hwf Hno. unfold model_file.
  apply (import_tracks_perm (fun i => to_delta 0 (model_stream mode vel an ppq ps i))
                            (fun i => track_notes mode an ppq ps i)).
  intros i _. apply score_track_roundtrip; auto.
Qed.
