(* C05 -- general lemmas: insertion sort by an integer key, the two-pass sort, lcm of a list. *)
From PV Require Import Lib.Base Model.C05 Model.C05_Spec.
From Coq Require Import QArith Sorting.Sorted Permutation.
#[local] Open Scope Z_scope.

(* ---------- insertion sort by a key ---------- *)
Section Sort.
  Variable key : row -> Z.
  Definition keyle (a b : row) : Prop := key a <= key b.

  Lemma insert_by_perm x l : Permutation (x :: l) (insert_by key x l).
  Proof.
    induction l as [|y r IH]; simpl; [reflexivity|].
    destruct (key x <=? key y); [reflexivity|].
    etransitivity; [apply perm_swap|]. apply perm_skip, IH.
  Qed.

  Lemma isort_by_perm l : Permutation l (isort_by key l).
  Proof.
    induction l as [|x r IH]; simpl; [reflexivity|].
    etransitivity; [apply perm_skip, IH | apply insert_by_perm].
  Qed.

  Lemma insert_by_sorted x l :
    StronglySorted keyle l -> StronglySorted keyle (insert_by key x l).
  Proof.
    induction l as [|y r IH]; simpl; intros H.
    - constructor; [constructor | constructor].
    - apply StronglySorted_inv in H as [Hr Hy].
      destruct (key x <=? key y) eqn:E.
      + constructor; [constructor; assumption|].
        constructor; [unfold keyle; lia|].
        eapply Forall_impl; [|exact Hy]. unfold keyle. intros z Hz. lia.
      + constructor; [apply IH, Hr|].
        eapply Permutation_Forall; [apply insert_by_perm|].
        constructor; [unfold keyle; lia | exact Hy].
  Qed.

  Lemma isort_by_sorted l : StronglySorted keyle (isort_by key l).
  Proof.
    induction l as [|x r IH]; simpl; [constructor | apply insert_by_sorted, IH].
  Qed.
End Sort.

(* ---------- second pass: stable insertion by onset of a pitch-sorted list ---------- *)

Lemma lexle_onset a b : lexle a b -> r_onset a <= r_onset b.
Proof. unfold lexle. lia. Qed.

Lemma insert_onset_lex x l :
  StronglySorted lexle l -> Forall (fun y => r_pitch x <= r_pitch y) l ->
  StronglySorted lexle (insert_by r_onset x l).
Proof.
  induction l as [|y r IH]; simpl; intros H Hp.
  - constructor; [constructor | constructor].
  - apply StronglySorted_inv in H as [Hr Hy].
    apply Forall_cons_iff in Hp as [Hpy Hpr].
    destruct (r_onset x <=? r_onset y) eqn:E.
    + constructor; [constructor; assumption|].
      constructor; [unfold lexle; lia|].
      rewrite Forall_forall in *. intros z Hz.
      pose proof (lexle_onset _ _ (Hy z Hz)). specialize (Hpr z Hz). unfold lexle. lia.
    + constructor; [apply IH; assumption|].
      eapply Permutation_Forall; [apply insert_by_perm|].
      constructor; [unfold lexle; lia | exact Hy].
Qed.

Lemma isort_onset_lex l :
  StronglySorted pitchle l -> StronglySorted lexle (isort_by r_onset l).
Proof.
  induction l as [|x r IH]; simpl; intros H; [constructor|].
  apply StronglySorted_inv in H as [Hr Hx].
  apply insert_onset_lex; [apply IH, Hr|].
  eapply Permutation_Forall; [apply isort_by_perm | exact Hx].
Qed.

(* the first pass may be ANY sort by pitch (numpy's default argsort is not stable) *)
Lemma two_pass_any_first_pass l l1 :
  Permutation l l1 -> StronglySorted pitchle l1 ->
  StronglySorted lexle (isort_by r_onset l1) /\ Permutation l (isort_by r_onset l1).
Proof.
  intros P S. split; [apply isort_onset_lex, S|].
  etransitivity; [exact P | apply isort_by_perm].
Qed.

Lemma sort_rows_perm l : Permutation l (sort_rows l).
Proof.
  unfold sort_rows. etransitivity; [apply (isort_by_perm r_pitch) | apply isort_by_perm].
Qed.

Lemma sort_rows_sorted l : StronglySorted lexle (sort_rows l).
Proof. unfold sort_rows. apply isort_onset_lex. apply (isort_by_sorted r_pitch). Qed.

Lemma sort_rows_In l r : In r (sort_rows l) <-> In r l.
Proof.
  split; intros H.
  - eapply Permutation_in; [symmetry; apply sort_rows_perm | exact H].
  - eapply Permutation_in; [apply sort_rows_perm | exact H].
Qed.

(* ---------- lcm of a list ---------- *)

Lemma lcm_list_divides l d : In d l -> (d | lcm_list l).
Proof.
  induction l as [|x r IH]; simpl; [tauto|]. intros [<-|H].
  - apply Z.divide_lcm_l.
  - etransitivity; [apply IH, H | apply Z.divide_lcm_r].
Qed.

Lemma lcm_list_pos l : Forall (fun d => 0 < d) l -> 0 < lcm_list l.
Proof.
  induction l as [|x r IH]; simpl; intros H; [lia|].
  apply Forall_cons_iff in H as [Hx Hr]. specialize (IH Hr).
  pose proof (Z.lcm_nonneg x (lcm_list r)).
  assert (Z.lcm x (lcm_list r) <> 0) by (rewrite Z.lcm_eq_0; lia). lia.
Qed.

Lemma lcm_list_least l m : Forall (fun d => (d | m)) l -> (lcm_list l | m).
Proof.
  induction l as [|x r IH]; simpl; intros H; [apply Z.divide_1_l|].
  apply Forall_cons_iff in H as [Hx Hr]. apply Z.lcm_least; auto.
Qed.

Lemma divide_mul_div d L : 0 < d -> (d | L) -> d * (L / d) = L.
Proof. intros Hd [k ->]. rewrite Z.div_mul by lia. lia. Qed.
