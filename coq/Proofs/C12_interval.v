(* C12 -- the Interval object over histories of operations (Model/C12_Interval.v):
   after ANY sequence of reads, transpositions, change_quality calls and attribute assignments the
   size read from the object is the table value of its CURRENT fields, every operation of the
   history returned what the fields at that moment define, and change_quality(k) moves the size of
   an interval class by exactly k semitones.  A machine that memoises the size on the object (not
   the code) violates the history statement. *)
From PV Require Import Lib.Base Lib.Tab Lib.Py Proofs.T1_lib Proofs.T1_core.
From PV Require Model.C12 Model.C16 Gen.T1_music.
From PV Require Import Model.T1_spec Model.C12_Interval.
#[local] Open Scope Z_scope.

(* ---------- reflexivity of the boolean comparisons ---------- *)
Lemma zopt_eqb_refl a : zopt_eqb a a = true.
Proof. destruct a; simpl; [apply Z.eqb_refl | reflexivity]. Qed.

Lemma note_eqb_refl x : note_eqb0 x x = true.
Proof. unfold note_eqb0. rewrite String.eqb_refl, !Z.eqb_refl. reflexivity. Qed.

Lemma list_eqb_refl {A} (eqb : A -> A -> bool) : (forall x, eqb x x = true) -> forall l, list_eqb eqb l l = true.
Proof. intros H l; induction l as [|x l IH]; simpl; [reflexivity | rewrite H, IH; reflexivity]. Qed.

Lemma iobs_eqb_refl a : iobs_eqb a a = true.
Proof.
  destruct a as [v|v|v|v|v]; simpl.
  - apply zopt_eqb_refl.
  - destruct v as [[s x]|]; cbn; [rewrite String.eqb_refl, Z.eqb_refl|]; reflexivity.
  - destruct v as [l|]; cbn; [apply list_eqb_refl, note_eqb_refl | reflexivity].
  - destruct v; reflexivity.
  - apply String.eqb_refl.
Qed.

Lemma iv_eqb_refl a : iv_eqb a a = true.
Proof. unfold iv_eqb. rewrite Z.eqb_refl, !String.eqb_refl. reflexivity. Qed.

Lemma fresh_eq s : fresh s = s.
Proof. destruct s; reflexivity. Qed.

(* ---------- one step of the code's machine = the specification on the current fields ---------- *)
Lemma step_code_obs o s : snd (step_code o s) = obs_spec o s.
Proof.
  (* no step depends on whether a T1 definition is a translation or a stub in this run *)
  destruct o; cbn [step_code obs_spec snd]; rewrite ?fresh_eq.
  - exact (f_equal ObZ (t1_Interval_semitones_eq s)).
  - reflexivity.
  - reflexivity.
  - destruct (change_quality s k); reflexivity.
  - reflexivity.
  - reflexivity.
  - reflexivity.
  - exact (f_equal ObU (t1_Interval_validate_eq s)).
  - reflexivity.
Qed.

Lemma step_code_fields o s : fst (step_code o s) = fields_spec o s.
Proof. destruct o; cbn [step_code fields_spec fst]; try reflexivity. destruct (change_quality s k); reflexivity. Qed.

Definition tstep_spec (t : tstep) : Prop :=
  let '(f, o, ob, f') := t in ob = obs_spec o f /\ f' = fields_spec o f.

Lemma trace_code_spec ops : forall f0, Forall tstep_spec (trace_code ops f0).
Proof.
  unfold trace_code. induction ops as [|o r IH]; intros f0; cbn [run fst]; constructor.
  - split; [apply step_code_obs | apply step_code_fields].
  - apply IH.
Qed.

Lemma interval_history_semitones_lemma (f0 : PyInterval) (ops : list iop) :
  let s := final_code ops f0 in
  read_code s = C12.interval_semitones (i_number s) (i_quality s) /\
  (forall st al, tn_code s st al = T1_music.transpose_note st al (mk_interval (i_number s) (i_quality s) (i_direction s))) /\
  (forall x, tr_code s x = T1_music.transpose_note_inplace x (mk_interval (i_number s) (i_quality s) (i_direction s))) /\
  Forall tstep_spec (trace_code ops f0).
Proof.
  cbv zeta. generalize (final_code ops f0) as s. intros s. split; [|split; [|split]].
  - exact (t1_Interval_semitones_eq s).
  - intros; destruct s; reflexivity.
  - intros; destruct s; reflexivity.
  - apply trace_code_spec.
Qed.

(* the boolean form (the one the memoising machine is shown to violate) *)
Lemma interval_history_ok_lemma ops : forall f0, history_ok step_code (fun s => s) ops f0 = true.
Proof.
  unfold history_ok. induction ops as [|o r IH]; intros f0; cbn [run fst forallb]; [reflexivity|].
  rewrite IH, andb_true_r. unfold tstep_ok.
  rewrite step_code_obs, step_code_fields, iobs_eqb_refl, iv_eqb_refl. reflexivity.
Qed.

(* the final fields are those the specification of the assignments predicts *)
Lemma final_code_fields ops : forall f0, final_code ops f0 = fold_left (fun f o => fields_spec o f) ops f0.
Proof.
  unfold final_code. induction ops as [|o r IH]; intros f0; cbn [run snd fold_left]; [reflexivity|].
  rewrite IH, step_code_fields. reflexivity.
Qed.

(* ---------- the memoising variant violates the history statement ---------- *)
Lemma interval_history_memo_refuted_lemma :
  exists f0 ops, history_ok step_memo m_iv ops (memo_init f0) = false.
Proof. exists (mk_interval 3 "M" "up"), [OpRead; OpCq (-1); OpRead]. vm_compute. reflexivity. Qed.

(* written out: a major third, size read (4), lowered to a minor third: the memoising object still
   answers 4, the table value of its current fields (3, "m") is 3; transposing C by it gives E natural
   where a fresh minor third gives E flat *)
Lemma interval_memo_stale_example :
  let s := snd (run step_memo m_iv [OpRead; OpCq (-1)] (memo_init (mk_interval 3 "M" "up"))) in
  m_iv s = mk_interval 3 "m" "up" /\
  snd (step_memo OpRead s) = ObZ (Some 4) /\
  obs_spec OpRead (m_iv s) = ObZ (Some 3) /\
  snd (step_memo (OpTn "C" 0) s) = ObSA (Some ("E"%string, 0)) /\
  spec_transpose_note "C" 0 (m_iv s) = Some ("E"%string, -1).
Proof. vm_compute. repeat split. Qed.

(* ---------- change_quality(k) moves the size of an interval class by k semitones ---------- *)
Definition quals7 : list string := ["dd"; "d"; "m"; "M"; "P"; "A"; "AA"]%string.

Lemma interval_semitones_dom n q sem : C12.interval_semitones n q = Some sem -> In n (zrange 1 7) /\ In q quals7.
Proof.
  unfold C12.interval_semitones, C12.major_size, opt_bind. intros H.
  assert (Hn : In n (zrange 1 7)).
  { apply zrange_In. cbn [zlookup] in H.
    repeat match type of H with context [Z.eqb n ?c] => destruct (Z.eqb n c) eqn:?; [lia|] end. discriminate. }
  split; [exact Hn|].
  destruct (zlookup n _) as [s|]; [|discriminate].
  unfold C12.quality_offset in H. destruct (C12.is_perfect n); cbn [slookup] in H;
  repeat match type of H with context [String.eqb q ?c] =>
           let E := fresh "E" in destruct (String.eqb q c) eqn:E; [apply String.eqb_eq in E; subst q; cbn; tauto|] end;
  discriminate.
Qed.

Definition cq_row_ok (n : Z) (q : string) (j : Z) : bool :=
  match C12.interval_semitones n q, str_index q (ladder_of n) 0 with
  | Some sem, Some i =>
      match nth_error (ladder_of n) (Z.to_nat j) with
      | Some q' => zopt_eqb (C12.interval_semitones n q') (Some (sem + (j - i)))
      | None => negb ((0 <=? j) && (j <? Z.of_nat (List.length (ladder_of n))))
      end
  | Some _, None => false          (* every class is on the ladder of its number *)
  | None, _ => true
  end.

Lemma cq_table_ok :
  forallb (fun n => forallb (fun q => forallb (cq_row_ok n q) (zrange 0 6)) quals7) (zrange 1 7) = true.
Proof. vm_compute. reflexivity. Qed.

Lemma ladder_length n : (List.length (ladder_of n) <= 6)%nat.
Proof. unfold ladder_of. destruct (existsb _ _); cbn; lia. Qed.

Lemma change_quality_shifts_lemma iv k iv' sem :
  C12.interval_semitones (i_number iv) (i_quality iv) = Some sem ->
  change_quality iv k = Some iv' ->
  i_number iv' = i_number iv /\ i_direction iv' = i_direction iv /\
  C12.interval_semitones (i_number iv') (i_quality iv') = Some (sem + k).
Proof.
  intros Hs Hc. destruct iv as [n q d]. cbn [i_number i_quality i_direction] in *.
  destruct (interval_semitones_dom _ _ _ Hs) as [Hn Hq].
  unfold change_quality in Hc. cbn [i_number i_quality i_direction] in Hc.
  destruct (k =? 0) eqn:K0.
  { injection Hc as <-. cbn. replace (sem + k) with sem by lia. auto. }
  destruct (str_index q (ladder_of n) 0) as [i|] eqn:Hi; [|discriminate].
  destruct ((i + k >=? Z.of_nat (List.length (ladder_of n))) || (i + k <? 0)) eqn:B; [discriminate|].
  destruct (nth_error (ladder_of n) (Z.to_nat (i + k))) as [q'|] eqn:Hq'; [|discriminate].
  injection Hc as <-. cbn [i_number i_quality i_direction]. split; [reflexivity|]. split; [reflexivity|].
  pose proof (ladder_length n) as HL.
  assert (Hj : In (i + k) (zrange 0 6)) by (apply zrange_In; lia).
  pose proof (forallb_In _ _ (forallb_In _ _ (forallb_In _ _ cq_table_ok n Hn) q Hq) (i + k) Hj) as R.
  unfold cq_row_ok in R. rewrite Hs, Hi, Hq' in R.
  apply zopt_eqb_eq in R. rewrite R. f_equal. lia.
Qed.

(* a non-trivial history on the code's machine: P5 up, read (7), raised twice (AA5: 9), number set
   to 6 (AA6: 11), lowered by three (m6: 8), direction set to down *)
Lemma interval_history_example :
  let ops := [OpRead; OpCq 2; OpRead; OpSetN 6; OpRead; OpCq (-3); OpSetD "down"; OpRead; OpTn "C" 0; OpStr] in
  map (fun t : tstep => snd (fst t)) (trace_code ops (mk_interval 5 "P" "up")) =
    [ObZ (Some 7); ObU (Some tt); ObZ (Some 9); ObU (Some tt); ObZ (Some 11); ObU (Some tt); ObU (Some tt);
     ObZ (Some 8); ObSA None; ObS "6m"] /\
  final_code ops (mk_interval 5 "P" "up") = mk_interval 6 "m" "down".
Proof. vm_compute. split; reflexivity. Qed.
