(* C11 -- proofs about the find_tuplets model of Model/C11_Norm.v. *)
From PV Require Import Lib.Base Lib.Round Gen.C11_Tables Model.C11 Model.C11_Spec Model.C11_Norm
  Proofs.C11_lib Proofs.C11_est Proofs.C11_norm.
From Coq Require Import QArith Qabs Qfield.
#[local] Open Scope Z_scope.

Notation item := (nat * Z * Z)%type.

(* consecutive items touch: each starts where its predecessor ends *)
Fixpoint touching (g : list item) : Prop :=
  match g with
  | [] => True
  | x :: r => match r with [] => True | y :: _ => it_e x = it_s y end /\ touching r
  end.

Lemma untyped_items_spec : forall ns i x, In x (untyped_items i ns) ->
  (i <= it_idx x)%nat /\ nth_error ns (it_idx x - i) = Some (it_s x, it_e x, true).
Proof.
  induction ns as [|n r IH]; intros i x H; simpl in H; [destruct H|].
  assert (Hrec : In x (untyped_items (S i) r) ->
                 (i <= it_idx x)%nat /\ nth_error (n :: r) (it_idx x - i) = Some (it_s x, it_e x, true)).
  { intros H'. destruct (IH (S i) x H') as [L E]. split; [lia|].
    replace (it_idx x - i)%nat with (S (it_idx x - S i)) by lia. simpl. exact E. }
  destruct (tn_u n) eqn:U.
  - destruct H as [<-|H]; [|auto].
    unfold it_idx, it_s, it_e. simpl. split; [lia|]. rewrite Nat.sub_diag. simpl.
    destruct n as [[s e] u]. unfold tn_u, tn_s, tn_e in *. simpl in *. subst. reflexivity.
  - auto.
Qed.

Lemma untyped_items_none : forall ns i, (forall n, In n ns -> tn_u n = false) -> untyped_items i ns = [].
Proof.
  induction ns as [|n r IH]; intros i H; simpl; [reflexivity|].
  rewrite (H n (or_introl eq_refl)). apply IH. intros m Hm. apply H. right. exact Hm.
Qed.

Lemma runs_spec : forall l g, In g (runs l) -> touching g /\ incl g l.
Proof.
  induction l as [|x r IH]; intros g H; simpl in H; [destruct H|].
  assert (Single : touching [x] /\ incl [x] (x :: r)).
  { split; [simpl; auto|]. intros z [<-|[]]. left. reflexivity. }
  destruct (runs r) as [|[|y g0] gs] eqn:E.
  - destruct H as [<-|[]]. exact Single.
  - destruct H as [<-|[]]. exact Single.
  - destruct (snd x =? snd (fst y)) eqn:T.
    + destruct H as [<-|H].
      * destruct (IH (y :: g0) (or_introl eq_refl)) as [T0 I0]. split.
        -- split; [unfold it_e, it_s; lia | exact T0].
        -- intros z [<-|Hz]; [left; reflexivity | right; apply I0; exact Hz].
      * destruct (IH g (or_intror H)) as [T0 I0]. split; [exact T0|].
        intros z Hz. right. apply I0. exact Hz.
    + destruct H as [<-|H]; [exact Single|].
      destruct (IH g H) as [T0 I0]. split; [exact T0|].
      intros z Hz. right. apply I0. exact Hz.
Qed.

Lemma touching_tl g : touching g -> touching (tl g).
Proof. destruct g as [|x r]; simpl; [auto | intros [_ H]; exact H]. Qed.

Lemma touching_skipn : forall k g, touching g -> touching (skipn k g).
Proof.
  induction k as [|k IH]; intros g H; [exact H|].
  destruct g as [|x r]; [exact H|]. simpl. apply IH. exact (proj2 H).
Qed.

Lemma touching_firstn : forall k g, touching g -> touching (firstn k g).
Proof.
  induction k as [|k IH]; intros g H; [exact I|].
  destruct g as [|x r]; [exact I|]. simpl. destruct H as [H1 H2]. split; [|apply IH; exact H2].
  destruct k as [|k']; [simpl; exact I|]. destruct r as [|y r']; [simpl; exact I|]. simpl. exact H1.
Qed.

Lemma firstn_incl_l {A} k (g : list A) : incl (firstn k g) g.
Proof. intros x H. rewrite <- (firstn_skipn k g). apply in_or_app. left. exact H. Qed.

Lemma skipn_incl_l {A} k (g : list A) : incl (skipn k g) g.
Proof. intros x H. rewrite <- (firstn_skipn k g). apply in_or_app. right. exact H. Qed.

Lemma tl_incl_l {A} (g : list A) : incl (tl g) g.
Proof. destruct g as [|x r]; [intros z []|]. intros z H. right. exact H. Qed.

(* every assignment of the sliding window is made to a window of k touching items of equal
   duration for which tuplet_type gave the symbolic duration *)
Lemma slide_spec : forall fuel dm k g idxs sd, touching g ->
  In (idxs, sd) (slide fuel dm k g) ->
  exists w, incl w g /\ touching w /\ List.length w = k /\ all_same_dur w = true
            /\ tuplet_type (div_at dm (window_start w)) (window_total w) (Z.of_nat k) = Some sd
            /\ idxs = map it_idx w.
Proof.
  induction fuel as [|f IH]; intros dm k g idxs sd T H; cbn [slide] in H; [destruct H|].
  destruct (Nat.ltb (List.length g) k) eqn:L; [destruct H|].
  apply Nat.ltb_ge in L.
  assert (Rec : forall g', incl g' g -> touching g' -> In (idxs, sd) (slide f dm k g') ->
                exists w, incl w g /\ touching w /\ List.length w = k /\ all_same_dur w = true
                  /\ tuplet_type (div_at dm (window_start w)) (window_total w) (Z.of_nat k) = Some sd
                  /\ idxs = map it_idx w).
  { intros g' I' T' H'. destruct (IH dm k g' idxs sd T' H') as (w & W1 & W2).
    exists w. split; [|exact W2]. intros z Hz. apply I'. apply W1. exact Hz. }
  destruct (all_same_dur (firstn k g)) eqn:A.
  - destruct (tuplet_type (div_at dm (window_start (firstn k g))) (window_total (firstn k g)) (Z.of_nat k)) as [sd'|] eqn:TT.
    + destruct H as [E|H].
      * inversion E; subst. exists (firstn k g).
        split; [apply firstn_incl_l|]. split; [apply touching_firstn; exact T|].
        split; [apply firstn_length_le; exact L|]. auto.
      * apply (Rec (skipn k g)); [apply skipn_incl_l | apply touching_skipn; exact T | exact H].
    + apply (Rec (tl g)); [apply tl_incl_l | apply touching_tl; exact T | exact H].
  - apply (Rec (tl g)); [apply tl_incl_l | apply touching_tl; exact T | exact H].
Qed.

(* arithmetic of a window *)
Definition sum_dur (w : list item) : Z := fold_right (fun y a => it_dur y + a) 0 w.

Lemma touching_total : forall r x, touching (x :: r) -> it_e (List.last r x) - it_s x = sum_dur (x :: r).
Proof.
  induction r as [|y r IH]; intros x T.
  - unfold sum_dur, it_dur. simpl. lia.
  - rewrite last_cons. destruct T as [E T]. specialize (IH y T).
    change (sum_dur (x :: y :: r)) with (it_dur x + sum_dur (y :: r)). unfold it_dur in *. lia.
Qed.

Lemma same_dur_sum : forall r d, forallb (fun y => it_dur y =? d) r = true ->
  sum_dur r = Z.of_nat (List.length r) * d /\ forall y, In y r -> it_dur y = d.
Proof.
  induction r as [|y r IH]; intros d H.
  - split; [reflexivity | intros y []].
  - simpl in H. apply andb_true_iff in H as [H1 H2]. destruct (IH d H2) as [Sm F].
    split.
    + change (sum_dur (y :: r)) with (it_dur y + sum_dur r). rewrite Sm.
      change (List.length (y :: r)) with (Datatypes.S (List.length r)). lia.
    + intros z [<-|Hz]; [lia | apply F; exact Hz].
Qed.

Lemma window_facts w : touching w -> all_same_dur w = true -> w <> [] ->
  exists x, hd_error w = Some x /\ window_start w = it_s x
            /\ window_total w = Z.of_nat (List.length w) * it_dur x
            /\ forall y, In y w -> it_dur y = it_dur x.
Proof.
  intros T A N. destruct w as [|x r]; [congruence|]. exists x. split; [reflexivity|]. split; [reflexivity|].
  unfold all_same_dur in A. destruct (same_dur_sum r (it_dur x) A) as [Sm F].
  split.
  - unfold window_total. rewrite (touching_total r x T).
    change (sum_dur (x :: r)) with (it_dur x + sum_dur r). rewrite Sm.
    change (List.length (x :: r)) with (Datatypes.S (List.length r)). lia.
  - intros y [<-|Hy]; [reflexivity | apply F; exact Hy].
Qed.

Lemma inject_Z_nonzero k : 0 < k -> ~ (inject_Z k == 0)%Q.
Proof. intros H E. unfold Qeq in E. simpl in E. lia. Qed.

(* the value of type k:2 when the type alone denotes half of k times d *)
Lemma tuplet_k2_value ty div k d v :
  0 < k -> (k * d) mod 2 = 0 ->
  sym_to_num (ty, 0, None) div = Some v -> (v == inject_Z (k * d / 2))%Q ->
  exists v', sym_to_num (ty, 0, Some (k, 2)) div = Some v' /\ (v' == inject_Z d)%Q.
Proof.
  intros Hk Hm Hs Hv. unfold sym_to_num in *.
  destruct (slookup ty label_durs) as [lab|]; [|simpl in Hs; discriminate].
  destruct (nth_error dot_multipliers (Z.to_nat 0)) as [dm|]; [|simpl in Hs; discriminate].
  unfold opt_bind in *. 
  replace (0 =? 0) with true in Hs by reflexivity. replace (2 =? 0) with false by reflexivity.
  destruct (k =? 0) eqn:K0; [lia|].
  inversion Hs; subst v. clear Hs.
  eexists. split; [reflexivity|].
  set (X := (inject_Z div * lab * dm)%Q) in *.
  assert (HX : (X == inject_Z (k * d / 2))%Q).
  { rewrite <- Hv. field. }
  assert (E : (inject_Z (k * d / 2) * inject_Z 2 == inject_Z d * inject_Z k)%Q).
  { rewrite <- !inject_Z_mult. apply inject_Z_injective.
    pose proof (Z.div_mod (k * d) 2 ltac:(lia)). lia. }
  pose proof (inject_Z_nonzero k Hk) as NZ.
  setoid_replace (X * (inject_Z 2 / inject_Z k))%Q with ((X * inject_Z 2) / inject_Z k)%Q by (field; exact NZ).
  rewrite HX, E. field. exact NZ.
Qed.

Lemma tuplet_type_spec div total k sd :
  tuplet_type div total k = Some sd ->
  total mod 2 = 0 /\ exists ty, estimate (total / 2) div = ESome (ty, 0, None) /\ sd = (ty, 0, Some (k, 2)).
Proof.
  unfold tuplet_type. destruct (total mod 2 =? 0) eqn:M; [|discriminate].
  destruct (estimate (total / 2) div) as [| |[[ty dots] [tup|]]]; try discriminate.
  destruct (dots =? 0) eqn:D; [|discriminate].
  intros H. inversion H; subst. split; [lia|]. exists ty. replace dots with 0 by lia. auto.
Qed.

Lemma in_tuplet_sizes k : In k tuplet_sizes -> (3 <= k)%nat.
Proof. unfold tuplet_sizes. simpl. intros [<-|[<-|[<-|[<-|[]]]]]; lia. Qed.

(* find_tuplets: every assignment is made to k untyped notes of one duration d, k in {9, 7, 5, 3}; the type is
   the estimate of k*d/2 under the divisions at the first of them (a value of the table without dots), the
   ratio k:2; whenever that estimate is exact the symbolic duration evaluates to d *)
Lemma find_tuplets_assigned_lemma dm ns idxs sd :
  Forall (fun e => 0 < snd e) dm -> Forall (fun n => tn_s n < tn_e n) ns ->
  In (idxs, sd) (find_tuplets dm ns) ->
  exists ty k d i0 n0,
    sd = (ty, 0, Some (Z.of_nat k, 2)) /\ In k tuplet_sizes /\ List.length idxs = k
    /\ hd_error idxs = Some i0 /\ nth_error ns i0 = Some n0
    /\ (forall i, In i idxs -> exists n, nth_error ns i = Some n /\ tn_u n = true /\ tn_e n - tn_s n = d)
    /\ (Z.of_nat k * d) mod 2 = 0
    /\ estimate (Z.of_nat k * d / 2) (div_at dm (tn_s n0)) = ESome (ty, 0, None)
    /\ (exact_hit (Z.of_nat k * d / 2) (div_at dm (tn_s n0)) = true ->
        exists v, sym_to_num sd (div_at dm (tn_s n0)) = Some v /\ (v == inject_Z d)%Q).
Proof.
  intros Hd Hpos H. unfold find_tuplets in H. apply in_flat_map in H as (g & Hg & H).
  unfold untyped_groups in Hg. destruct (runs_spec _ _ Hg) as [Tg Ig].
  unfold group_assignments in H. apply in_flat_map in H as (k & Hk & H).
  destruct (slide_spec _ _ _ _ _ _ Tg H) as (w & Iw & Tw & Lw & Aw & TT & ->).
  pose proof (in_tuplet_sizes k Hk) as K3.
  assert (Nw : w <> []) by (destruct w; [simpl in Lw; lia | discriminate]).
  destruct (window_facts w Tw Aw Nw) as (x & Hx & Ws & Wt & Wd).
  rewrite Ws, Wt, Lw in TT.
  destruct (tuplet_type_spec _ _ _ _ TT) as (M & ty & Est & ->).
  (* every item of the window is an untyped note of the list *)
  assert (Items : forall y, In y w -> nth_error ns (it_idx y) = Some (it_s y, it_e y, true)).
  { intros y Hy. destruct (untyped_items_spec ns 0 y (Ig y (Iw y Hy))) as [_ E].
    rewrite Nat.sub_0_r in E. exact E. }
  assert (Hxw : In x w) by (destruct w; [discriminate | inversion Hx; left; reflexivity]).
  exists ty, k, (it_dur x), (it_idx x), (it_s x, it_e x, true).
  split; [reflexivity|]. split; [exact Hk|]. split; [rewrite map_length; exact Lw|].
  split; [destruct w; [discriminate | inversion Hx; reflexivity]|].
  split; [apply Items; exact Hxw|].
  split.
  { intros i Hi. apply in_map_iff in Hi as (y & <- & Hy). eexists. split; [apply Items; exact Hy|].
    split; [reflexivity|]. unfold tn_e, tn_s. simpl. apply (Wd y Hy). }
  split; [exact M|]. unfold tn_s at 1 2. simpl fst.
  split; [exact Est|].
  intros Hex.
  assert (Dpos : 0 < it_dur x).
  { pose proof (Items x Hxw) as E. apply nth_error_In in E. rewrite Forall_forall in Hpos.
    specialize (Hpos _ E). unfold tn_s, tn_e, it_dur in *. simpl in Hpos. lia. }
  assert (Hhalf : 0 < Z.of_nat k * it_dur x / 2).
  { pose proof (Z.div_mod (Z.of_nat k * it_dur x) 2 ltac:(lia)). nia. }
  destruct (estimate_exact_lemma _ _ _ Hhalf (div_at_pos dm _ Hd) Est Hex) as (v & Hv & Ev).
  apply (tuplet_k2_value ty _ (Z.of_nat k) (it_dur x) v); try assumption. lia.
Qed.

(* notes of the library's own classes always report a symbolic duration: nothing is assigned *)
Lemma find_tuplets_typed_lemma dm ns : (forall n, In n ns -> tn_u n = false) -> find_tuplets dm ns = [].
Proof.
  intros H. unfold find_tuplets, untyped_groups. rewrite (untyped_items_none ns 0 H). reflexivity.
Qed.

(* the symbolic duration a note carries afterwards is that of one of the assignments naming it *)
Lemma assigned_to_in : forall asg i sd, assigned_to asg i = Some sd ->
  exists idxs, In (idxs, sd) asg /\ In i idxs.
Proof.
  intros asg i sd. unfold assigned_to.
  assert (G : forall acc, fold_left (fun acc a => if existsb (Nat.eqb i) (fst a) then Some (snd a) else acc) asg acc = Some sd ->
              acc = Some sd \/ exists idxs, In (idxs, sd) asg /\ In i idxs).
  { induction asg as [|a asg IH]; intros acc H; simpl in H; [left; exact H|].
    destruct (IH _ H) as [E|(idxs & I1 & I2)].
    - destruct (existsb (Nat.eqb i) (fst a)) eqn:X.
      + right. inversion E; subst. exists (fst a). split; [left; destruct a; reflexivity|].
        apply existsb_exists in X as (j & Hj & Ej). apply Nat.eqb_eq in Ej. subst. exact Hj.
      + left. exact E.
    - right. exists idxs. split; [right; exact I1 | exact I2]. }
  intros H. destruct (G None H) as [E|E]; [discriminate | exact E].
Qed.

Lemma ex_find_tuplets :
  find_tuplets [(0, 6)] [(0, 4, true); (4, 8, true); (8, 12, true); (12, 18, false)]
  = [([0; 1; 2]%nat, ("quarter"%string, 0, Some (3, 2)))].
Proof. vm_compute. reflexivity. Qed.
