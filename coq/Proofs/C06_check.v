(* C06 -- what the boolean checkers of the correspondence (Model/C06.v) mean *)
From PV Require Import Lib.Base Lib.Round Model.C12 Model.C06 Proofs.C06_lib Proofs.C06.
From Coq Require Import QArith Sorted Permutation.
#[local] Open Scope Z_scope.

Section MSetSound.
  Context {A : Type} (eqb : A -> A -> bool).
  Hypothesis eqb_eq : forall a b, eqb a b = true -> a = b.

  Lemma remove1_perm x : forall l r, remove1 eqb x l = Some r -> Permutation l (x :: r).
  Proof.
    induction l as [|y l IH]; intros r H; simpl in H; [discriminate|].
    destruct (eqb x y) eqn:E.
    - injection H as <-. apply eqb_eq in E. subst y. reflexivity.
    - destruct (remove1 eqb x l) as [r'|] eqn:E2; [|discriminate]. injection H as <-.
      rewrite (IH r' eq_refl). apply perm_swap.
  Qed.

  Lemma msub_perm : forall a b r, msub eqb a b = Some r -> Permutation b (a ++ r).
  Proof.
    induction a as [|x a IH]; intros b r H; simpl in H.
    - injection H as <-. reflexivity.
    - destruct (remove1 eqb x b) as [b'|] eqn:E; [|discriminate].
      rewrite (remove1_perm x b b' E). simpl. apply perm_skip. apply IH. exact H.
  Qed.

  Lemma mset_eqb_perm a b : mset_eqb eqb a b = true -> Permutation a b.
  Proof.
    unfold mset_eqb. destruct (msub eqb a b) as [[|y r]|] eqn:E; try discriminate. intros _.
    apply msub_perm in E. rewrite app_nil_r in E. symmetry. exact E.
  Qed.
End MSetSound.

Lemma lnote_eqb_eq a b : lnote_eqb a b = true -> a = b.
Proof.
  unfold lnote_eqb. destruct a, b; simpl. intros H.
  repeat (apply andb_true_iff in H as [H ?]). f_equal; lia.
Qed.

Lemma sorted_by_sound (l : list lnote) :
  sorted_by lnote_leb l = true -> StronglySorted (fun a b => lex4_le (lnote_key a) (lnote_key b)) l.
Proof.
  intros H. apply Sorted_StronglySorted.
  - intros a b c. rewrite <- !lnote_leb_lex. apply lnote_leb_trans.
  - induction l as [|x [|y r] IH]; [constructor|repeat constructor|].
    cbn [sorted_by] in H. apply andb_true_iff in H as [H1 H2]. constructor; [apply IH; exact H2|].
    constructor. apply lnote_leb_lex. exact H1.
Qed.

(* the note part of check_load: the observed notes, in the order of their ids, are a permutation of the
   notes the message loop pairs, ordered by (onset, pitch, offset, channel) -- the statement of
   ids_sorted_perm for the implementation's list *)
Lemma check_notes_sound_lemma (paired obs : list lnote) :
  mset_eqb lnote_eqb (sort_notes paired) obs = true -> sorted_by lnote_leb obs = true ->
  Permutation obs paired /\ StronglySorted (fun a b => lex4_le (lnote_key a) (lnote_key b)) obs.
Proof.
  intros H1 H2. split; [|apply sorted_by_sound; exact H2].
  apply (mset_eqb_perm lnote_eqb lnote_eqb_eq) in H1. rewrite <- H1. apply sort_le_perm.
Qed.
