(* C09 -- quarter durations of the unfolded part: at every position of every visit the divisions
   per quarter in force are those in force at the original position (division changes inside
   repeated / skipped sections). *)
From PV Require Import Lib.Base Model.C09 Proofs.C09 Proofs.C09_variant.
From Coq Require Import ZArith List Bool Lia.
Import ListNotations.
#[local] Open Scope Z_scope.

(* times non-decreasing in list order *)
Fixpoint times_sorted (tbl : qtab) : Prop :=
  match tbl with
  | [] => True
  | p :: r => (forall q, In q r -> fst p <= fst q) /\ times_sorted r
  end.

Lemma last_default {A} (l : list A) d d' : l <> [] -> last l d = last l d'.
Proof.
  induction l as [|x l IH]; [congruence|]. intros _. destruct l as [|y l]; [reflexivity|].
  change (last (y :: l) d = last (y :: l) d'). apply IH. discriminate.
Qed.

Lemma last_cons {A} (x : A) l d : last (x :: l) d = last l x.
Proof. destruct l as [|y l]; [reflexivity|]. change (last (y :: l) d = last (y :: l) x). apply last_default. discriminate. Qed.

Lemma last_app' {A} (a b : list A) : forall d, last (a ++ b) d = last b (last a d).
Proof.
  induction a as [|x a IH]; intros d; [reflexivity|].
  change ((x :: a) ++ b) with (x :: (a ++ b)). rewrite !last_cons. apply IH.
Qed.

Lemma filter_none {A} (p : A -> bool) l : (forall x, In x l -> p x = false) -> filter p l = [].
Proof.
  induction l as [|a l IH]; simpl; intros H; [auto|]. rewrite (H a) by (left; auto). apply IH. intros; apply H; right; auto.
Qed.

Lemma filter_ext_in2 {A} (p q : A -> bool) l : (forall x, In x l -> p x = q x) -> filter p l = filter q l.
Proof.
  induction l as [|a l IH]; simpl; intros H; [auto|].
  rewrite (H a) by (left; auto). rewrite IH; auto.
Qed.

Lemma filter_filter2 {A} (p q : A -> bool) l : filter p (filter q l) = filter (fun x => q x && p x) l.
Proof.
  induction l as [|a l IH]; simpl; [auto|]. destruct (q a); simpl; [destruct (p a); rewrite IH; reflexivity|exact IH].
Qed.

Lemma filter_map_comm {A B} (p : B -> bool) (f : A -> B) l : filter p (map f l) = map f (filter (fun x => p (f x)) l).
Proof. induction l as [|a l IH]; simpl; [auto|]. destruct (p (f a)); simpl; rewrite IH; reflexivity. Qed.

(* in a sorted table the entries up to t are those up to s followed by those in (s, t] *)
Lemma filter_split tbl s t : times_sorted tbl -> s <= t ->
  filter (fun p => fst p <=? t) tbl =
  filter (fun p => fst p <=? s) tbl ++ filter (fun p => (s <? fst p) && (fst p <=? t)) tbl.
Proof.
  intros Hs Hst. induction tbl as [|p r IH]; [reflexivity|].
  destruct Hs as [Hp Hr]. simpl. destruct (fst p <=? s) eqn:E1.
  - assert (E2 : fst p <=? t = true) by lia. assert (E3 : s <? fst p = false) by lia.
    rewrite E2, E3. simpl. rewrite IH; auto.
  - assert (E3 : s <? fst p = true) by lia. rewrite E3. simpl.
    assert (Hn : filter (fun q => fst q <=? s) r = []).
    { apply filter_none. intros q Hq. specialize (Hp q Hq). lia. }
    assert (He : filter (fun q => fst q <=? t) r = filter (fun q => (s <? fst q) && (fst q <=? t)) r).
    { apply filter_ext_in2. intros q Hq. specialize (Hp q Hq). assert (s <? fst q = true) by lia. rewrite H. reflexivity. }
    rewrite Hn, He. reflexivity.
Qed.

(* entries written for the visits from offset off on carry times >= off *)
Lemma qd_go_lower d tbl : forall vs off p,
  Forall (fun v => fst v <= snd v) vs -> In p (variant_qd_go d tbl vs off) -> off <= fst p.
Proof.
  induction vs as [|[s e] r IH]; intros off p Hf Hp; simpl in Hp; [contradiction|].
  inversion Hf as [|? ? Hse Hr]; subst. simpl in Hse.
  destruct Hp as [<-|Hp]; [simpl; lia|].
  apply in_app_or in Hp as [Hp|Hp].
  - apply in_map_iff in Hp as (q & <- & Hq). apply filter_In in Hq as [_ Hq]. simpl. lia.
  - specialize (IH _ _ Hr Hp). lia.
Qed.

Lemma qd_go_inforce d tbl : times_sorted tbl ->
  forall vs P k0 off0 k s e off t,
  Forall (fun v => fst v <= snd v) vs -> In (k, s, e, off) (with_off vs k0 off0) -> s <= t < e ->
  qd_at d (P ++ variant_qd_go d tbl vs off0) (off + (t - s)) = qd_at d tbl t.
Proof.
  intros Hs. induction vs as [|[s1 e1] r IH]; intros P k0 off0 k s e off t Hf Hv Ht; simpl in Hv; [contradiction|].
  inversion Hf as [|? ? Hse Hr]; subst. simpl in Hse.
  destruct Hv as [Hv|Hv].
  - injection Hv as <- <- <- <-. simpl.
    set (F := filter (fun p => (s1 <? fst p) && (fst p <? e1)) tbl).
    set (R := variant_qd_go d tbl r (off0 + (e1 - s1))).
    set (T := off0 + (t - s1)).
    unfold qd_at at 1.
    assert (E0 : off0 <=? T = true) by (unfold T; lia).
    assert (ER : filter (fun p => fst p <=? T) R = []).
    { apply filter_none. intros p Hp. pose proof (qd_go_lower d tbl r _ p Hr Hp). unfold T. lia. }
    rewrite filter_app. cbn [filter fst]. rewrite E0, filter_app, ER, app_nil_r.
    rewrite map_app, last_app'. cbn [map snd]. rewrite last_cons.
    rewrite filter_map_comm, map_map. simpl.
    unfold F. rewrite filter_filter2.
    assert (EF : filter (fun x => (s1 <? fst x) && (fst x <? e1) && (fst x - s1 + off0 <=? T)) tbl
               = filter (fun p => (s1 <? fst p) && (fst p <=? t)) tbl).
    { apply filter_ext_in2. intros x _. unfold T. destruct (s1 <? fst x); simpl; [|reflexivity]. lia. }
    rewrite EF. unfold qd_at.
    rewrite (filter_split tbl s1 t Hs) by lia. rewrite map_app, last_app'. reflexivity.
  - cbn [variant_qd_go].
    rewrite app_assoc. eapply IH; eauto.
Qed.

(* the divisions per quarter in force at the position of the copy = those in force at the original
   position, for every position of every visit (all tables sorted by time, all visit lists) *)
Theorem variant_qd_inforce_lemma : forall d tbl vs k s e off t,
  times_sorted tbl -> Forall (fun v => fst v <= snd v) vs ->
  In (k, s, e, off) (with_off vs 0 0) -> s <= t < e ->
  qd_at d (variant_qd d tbl vs) (off + (t - s)) = qd_at d tbl t.
Proof.
  intros d tbl vs k s e off t Hs Hf Hv Ht. unfold variant_qd.
  apply (qd_go_inforce d tbl Hs vs [] 0 0 k s e off t Hf Hv Ht).
Qed.

(* ------------------------------------------------------------------ *)
(* the normal form used by the correspondence keeps the value in force at every time: tables
   with equal normal forms are indistinguishable *)

Lemma klpt_In : forall tbl x, In x (keep_last_per_time tbl) -> In x tbl.
Proof.
  induction tbl as [|p r IH]; intros x Hx; [contradiction|].
  destruct r as [|q r']; [exact Hx|].
  change (keep_last_per_time (p :: q :: r')) with
    (if fst p =? fst q then keep_last_per_time (q :: r') else p :: keep_last_per_time (q :: r')) in Hx.
  destruct (fst p =? fst q); [right; apply IH; exact Hx|].
  destruct Hx as [<-|Hx]; [left; auto|right; apply IH; exact Hx].
Qed.

Lemma klpt_sorted : forall tbl, times_sorted tbl -> times_sorted (keep_last_per_time tbl).
Proof.
  induction tbl as [|p r IH]; intros Hs; [exact I|].
  destruct Hs as [Hp Hr]. destruct r as [|q r']; [simpl; auto|].
  change (keep_last_per_time (p :: q :: r')) with
    (if fst p =? fst q then keep_last_per_time (q :: r') else p :: keep_last_per_time (q :: r')).
  destruct (fst p =? fst q); [apply IH; exact Hr|].
  split; [|apply IH; exact Hr]. intros x Hx. apply Hp. apply klpt_In. exact Hx.
Qed.

Lemma klpt_inforce : forall tbl d t, qd_at d (keep_last_per_time tbl) t = qd_at d tbl t.
Proof.
  induction tbl as [|p r IH]; intros d t; [reflexivity|].
  destruct r as [|q r']; [reflexivity|].
  change (keep_last_per_time (p :: q :: r')) with
    (if fst p =? fst q then keep_last_per_time (q :: r') else p :: keep_last_per_time (q :: r')).
  destruct (fst p =? fst q) eqn:E.
  - rewrite IH. apply Z.eqb_eq in E. unfold qd_at. cbn [filter]. rewrite E.
    destruct (fst q <=? t); [|reflexivity]. cbn [map]. rewrite !last_cons. reflexivity.
  - unfold qd_at. cbn [filter]. fold (filter (fun p0 : Z * Z => fst p0 <=? t) (keep_last_per_time (q :: r'))).
    destruct (fst p <=? t).
    + cbn [map]. rewrite !last_cons. apply (IH (snd p) t).
    + apply (IH d t).
Qed.

Lemma drop_repeats_inforce : forall tbl c t, times_sorted tbl ->
  qd_at c (drop_repeats (Some c) tbl) t = qd_at c tbl t.
Proof.
  induction tbl as [|[t1 q] r IH]; intros c t Hs; [reflexivity|].
  destruct Hs as [Hp Hr]. cbn [drop_repeats].
  destruct (c =? q) eqn:E.
  - apply Z.eqb_eq in E. subst q. rewrite IH by auto. unfold qd_at. cbn [filter fst].
    destruct (t1 <=? t); [|reflexivity]. cbn [map snd]. rewrite last_cons. reflexivity.
  - unfold qd_at. cbn [filter fst]. destruct (t1 <=? t) eqn:Et.
    + cbn [map snd]. rewrite !last_cons. apply (IH q t Hr).
    + assert (H1 : filter (fun p => fst p <=? t) r = []).
      { apply filter_none. intros x Hx. specialize (Hp x Hx). simpl in Hp. lia. }
      assert (H2 : filter (fun p => fst p <=? t) (drop_repeats (Some q) r) = []).
      { pose proof (IH q t Hr) as H. unfold qd_at in H. rewrite H1 in H. simpl in H.
        (* every entry kept comes from r *)
        apply filter_none. intros x Hx.
        assert (Hin : forall l cur y, In y (drop_repeats cur l) -> In y l).
        { clear. induction l as [|[a b] l IHl]; intros cur y Hy; [contradiction|]. cbn [drop_repeats] in Hy.
          destruct cur as [c|]; [destruct (c =? b)|]; try (destruct Hy as [<-|Hy]; [left; auto|right; eapply IHl; eauto]).
          right; eapply IHl; eauto. }
        specialize (Hp x (Hin _ _ _ Hx)). simpl in Hp. lia. }
      rewrite H1, H2. reflexivity.
Qed.

Theorem qnorm_inforce_lemma : forall tbl d t, times_sorted tbl -> qd_at d (qnorm tbl) t = qd_at d tbl t.
Proof.
  intros tbl d t Hs. unfold qnorm. rewrite <- (klpt_inforce tbl d t).
  pose proof (klpt_sorted tbl Hs) as Hk. destruct (keep_last_per_time tbl) as [|[t1 q] r]; [reflexivity|].
  destruct Hk as [Hp Hr]. cbn [drop_repeats]. unfold qd_at. cbn [filter fst]. destruct (t1 <=? t) eqn:Et.
  - cbn [map snd]. rewrite !last_cons. apply (drop_repeats_inforce r q t Hr).
  - assert (H1 : filter (fun p => fst p <=? t) r = []).
    { apply filter_none. intros x Hx. specialize (Hp x Hx). simpl in Hp. lia. }
    assert (Hin : forall l cur y, In y (drop_repeats cur l) -> In y l).
    { clear. induction l as [|[a b] l IHl]; intros cur y Hy; [contradiction|]. cbn [drop_repeats] in Hy.
      destruct cur as [c|]; [destruct (c =? b)|]; try (destruct Hy as [<-|Hy]; [left; auto|right; eapply IHl; eauto]).
      right; eapply IHl; eauto. }
    assert (H2 : filter (fun p => fst p <=? t) (drop_repeats (Some q) r) = []).
    { apply filter_none. intros x Hx. specialize (Hp x (Hin _ _ _ Hx)). simpl in Hp. lia. }
    rewrite H1, H2. reflexivity.
Qed.

(* satisfiable, non-trivial: divisions 4 from 0, 8 from 6 (inside the repeated section [4, 12)),
   12 from 12; path A B B C: the second pass of B starts again with 4 *)
Example ex_qd :
  let tbl := [(0, 4); (6, 8); (12, 12)] in
  let vs := [(0, 4); (4, 12); (4, 12); (12, 16)] in
  times_sorted tbl /\ Forall (fun v => fst v <= snd v) vs /\
  variant_qd 1 tbl vs = [(0, 4); (4, 4); (6, 8); (12, 4); (14, 8); (20, 12)] /\
  qnorm (variant_qd 1 tbl vs) = [(0, 4); (6, 8); (12, 4); (14, 8); (20, 12)] /\
  map (qd_at 1 (variant_qd 1 tbl vs)) [0; 5; 6; 11; 12; 13; 14; 19; 20] = [4; 4; 8; 8; 4; 4; 8; 8; 12].
Proof.
  split; [simpl; intuition (subst; simpl; lia)|]. split; [repeat constructor; simpl; lia|].
  vm_compute. repeat split.
Qed.
