(* C04 -- round j: proofs about Model/C04_tsc.v (time signatures under anacrusis_behavior="time_sig_change",
   key signatures appended to the same dict). *)
From PV Require Import Lib.Base Model.C04 Model.C04_stream Model.C04_tsc Proofs.C04_stream.
From Coq Require Import ZArith List QArith Qround Bool Lia.
Import ListNotations.
#[local] Open Scope Z_scope.

(* ---- the insertion-ordered dict *)
Lemma d_get_append d k x k' :
  d_get (d_append d k x) k' = if k' =? k then d_get d k' ++ [x] else d_get d k'.
Proof.
  induction d as [|[k0 v] r IH]; simpl.
  - destruct (k' =? k) eqn:E; reflexivity.
  - destruct (k =? k0) eqn:E0; simpl.
    + apply Z.eqb_eq in E0; subst k0.
      destruct (k' =? k) eqn:E; reflexivity.
    + destruct (k' =? k0) eqn:E1.
      * apply Z.eqb_eq in E1; subst k0.
        destruct (k' =? k) eqn:E; [apply Z.eqb_eq in E; subst; rewrite Z.eqb_refl in E0; discriminate | reflexivity].
      * apply IH.
Qed.

Lemma d_append_keeps d k x k' y : In y (d_get d k') -> In y (d_get (d_append d k x) k').
Proof.
  intro H. rewrite d_get_append. destruct (k' =? k); [apply in_or_app; left|]; exact H.
Qed.

Lemma d_append_has d k x : In x (d_get (d_append d k x) k).
Proof. rewrite d_get_append, Z.eqb_refl. apply in_or_app; right; left; reflexivity. Qed.

Lemma d_append_keys d k x k' : In k' (map fst (d_append d k x)) <-> k' = k \/ In k' (map fst d).
Proof.
  induction d as [|[k0 v] r IH]; simpl.
  - intuition.
  - destruct (k =? k0) eqn:E; simpl.
    + apply Z.eqb_eq in E; subst. intuition.
    + rewrite IH. intuition.
Qed.

(* ---- key signatures: appended after the clean-up, every one of them stays *)
Lemma keys_fold_keeps tk ksigs : forall d k y, In y (d_get d k) -> In y (d_get (fold_left (tsc_keys tk) ksigs d) k).
Proof.
  induction ksigs as [|ks r IH]; simpl; intros d k y H; [exact H|].
  apply IH. unfold tsc_keys. apply d_append_keeps, H.
Qed.

Lemma keys_fold_has tk ksigs : forall d t code, In (t, code) ksigs ->
  In (3, code, 0) (d_get (fold_left (tsc_keys tk) ksigs d) (tk t)).
Proof.
  induction ksigs as [|ks r IH]; simpl; intros d t code H; [contradiction|].
  destruct H as [H|H].
  - subst ks. apply keys_fold_keeps. unfold tsc_keys; simpl. apply d_append_has.
  - apply IH, H.
Qed.

Lemma keysig_kept tk tsigs ksigs ms t code : In (t, code) ksigs ->
  In (3, code, 0) (d_get (tsc_dict 0 tk tsigs ksigs ms) (tk t)).
Proof.
  intro H. unfold tsc_dict.
  destruct (fold_left (tsc_measure 0 tk tsigs) ms ([], map (fun x => fst (fst x)) tsigs, [])) as [[d tct] fitted].
  simpl. apply keys_fold_has, H.
Qed.

Lemma keys_fold_keys tk ksigs : forall d t code, In (t, code) ksigs ->
  In (tk t) (map fst (fold_left (tsc_keys tk) ksigs d)).
Proof.
  assert (K : forall ksigs d k, In k (map fst d) -> In k (map fst (fold_left (tsc_keys tk) ksigs d))).
  { induction ksigs0 as [|ks r IH]; simpl; intros d k H; [exact H|]. apply IH. unfold tsc_keys. apply d_append_keys. right; exact H. }
  induction ksigs as [|ks r IH]; simpl; intros d t code H; [contradiction|].
  destruct H as [H|H].
  - subst ks. apply K. unfold tsc_keys; simpl. apply d_append_keys. left; reflexivity.
  - eapply IH, H.
Qed.

(* ... and is written into the track, at the tick of its time, whatever other parts share the track *)
Lemma meta_seq_in ds d t x : In d ds -> In x (d_get d t) -> In t (map fst d) -> In (t, x) (track_meta_seq ds).
Proof.
  intros Hd Hx Hk. unfold track_meta_seq. apply in_flat_map. exists t. split.
  - apply usort_In. apply in_flat_map. exists d. split; assumption.
  - apply in_map. apply in_flat_map. exists d. split; [apply in_rev; rewrite rev_involutive; exact Hd | exact Hx].
Qed.

Lemma keysig_in_track tk tsigs ksigs ms ds t code :
  In (tsc_dict 0 tk tsigs ksigs ms) ds -> In (t, code) ksigs ->
  In (tk t, (3, code, 0)) (track_meta_seq ds).
Proof.
  intros Hd H. eapply meta_seq_in; [exact Hd | apply keysig_kept, H |].
  unfold tsc_dict.
  destruct (fold_left (tsc_measure 0 tk tsigs) ms ([], map (fun x => fst (fst x)) tsigs, [])) as [[d tct] fitted].
  simpl. eapply keys_fold_keys, H.
Qed.

(* ---- time signatures in force at the measure starts *)
Lemma pair_eqb_eq x y : pair_eqb x y = true -> x = y.
Proof.
  destruct x, y; unfold pair_eqb; simpl. intro H. apply andb_true_iff in H. destruct H as [A B].
  apply Z.eqb_eq in A. apply Z.eqb_eq in B. subst; reflexivity.
Qed.

Lemma z_nodup_NoDup l : z_nodup l = true -> NoDup l.
Proof.
  induction l as [|x r IH]; simpl; intro H; [constructor|].
  apply andb_true_iff in H. destruct H as [A B]. constructor; [|apply IH, B].
  intro Hin. apply negb_true_iff in A.
  assert (existsb (Z.eqb x) r = true) by (apply existsb_exists; exists x; split; [exact Hin | apply Z.eqb_refl]).
  congruence.
Qed.

Lemma tsc_ok_spec v tk tsigs ksigs ms : tsc_ok v tk tsigs ksigs ms = true ->
  (forall m, In m ms ->
     in_force (track_meta_seq [tsc_dict v tk tsigs ksigs ms]) (tk (fst (fst m))) = Some (tsc_expected tsigs m))
  /\ NoDup (tsig_ticks (track_meta_seq [tsc_dict v tk tsigs ksigs ms])).
Proof.
  unfold tsc_ok. intro H. apply andb_true_iff in H. destruct H as [A B]. split.
  - intros m Hm. rewrite forallb_forall in A. specialize (A m Hm).
    destruct (in_force _ _) as [x|]; [|discriminate]. f_equal. apply pair_eqb_eq, A.
  - apply z_nodup_NoDup, B.
Qed.


Lemma grids5_all_ok : forallb (grid_ok 0 tk3 ks0) (grids 5) = true.
Proof. vm_cast_no_check (eq_refl true). Qed.

(* complete finite domain: every measure grid of 1..5 measures, each 2, 3 or 4 beats long, each with no / a 3/4 /
   a 4/4 / a 3/8 signature at its start (the first one with a signature) *)
Lemma tsc_in_force_grids5 g : In g (grids 5) ->
  let '(ts, ms) := grid_build 0 (4, 4) g in
  (forall m, In m ms ->
     in_force (track_meta_seq [tsc_dict 0 tk3 ts ks0 ms]) (tk3 (fst (fst m))) = Some (tsc_expected ts m))
  /\ NoDup (tsig_ticks (track_meta_seq [tsc_dict 0 tk3 ts ks0 ms])).
Proof.
  intro H. pose proof grids5_all_ok as A. rewrite forallb_forall in A. specialize (A g H).
  unfold grid_ok in A. destruct (grid_build 0 (4, 4) g) as [ts ms]. apply tsc_ok_spec, A.
Qed.

Lemma sym_list_eqb_eq : forall g h : list sym, list_eqb pair_eqb g h = true -> g = h.
Proof.
  induction g as [|a r IH]; destruct h as [|b s]; simpl; intro H; try discriminate; [reflexivity|].
  apply andb_true_iff in H. destruct H as [A B]. apply pair_eqb_eq in A. apply IH in B. subst; reflexivity.
Qed.

Lemma in_grids n g : existsb (list_eqb pair_eqb g) (grids n) = true -> In g (grids n).
Proof.
  intro H. apply existsb_exists in H. destruct H as [x [Hin E]]. apply sym_list_eqb_eq in E. subst; exact Hin.
Qed.

(* the domain is not trivial and the statement discriminates *)
Lemma grids5_example :
  Z.of_nat (List.length (grids 5)) = 203589 /\
  In [(2, 2); (3, 0); (4, 0); (3, 1)] (grids 5) /\
  (let '(ts, ms) := grid_build 0 (4, 4) [(2, 2); (3, 0); (4, 0); (3, 1)] in
   ts = [(0, 4, 4); (18, 3, 4)] /\
   ms = [(0, 4, inject_Z 2); (4, 10, inject_Z 3); (10, 18, inject_Z 4); (18, 24, inject_Z 3)] /\
   track_meta_seq [tsc_dict 0 tk3 ts ks0 ms] =
     [(1, (2, 2, 4)); (1, (3, 5, 0)); (13, (2, 3, 4)); (25, (3, 7, 0)); (31, (2, 4, 4)); (55, (2, 3, 4))]).
Proof.
  split; [vm_compute; reflexivity|]. split.
  - apply in_grids. vm_compute. reflexivity.
  - vm_compute. repeat split.
Qed.

(* clean-up keeping the FIRST of two entries: two irregular measures in a row leave the restored signature in force *)
Lemma tsc_variant2_refuted : exists g, In g (grids 5) /\ grid_ok 2 tk3 ks0 g = false /\ grid_ok 0 tk3 ks0 g = true.
Proof. exists [(2, 2); (3, 0)]. split; [|split; vm_compute; reflexivity]. apply in_grids. vm_compute. reflexivity. Qed.

(* restoring the signature without looking at ts_changing_time: two time signatures on one tick *)
Lemma tsc_variant3_refuted : exists g, In g (grids 5) /\ grid_ok 3 tk3 ks0 g = false /\ grid_ok 0 tk3 ks0 g = true.
Proof. exists [(2, 1); (3, 1)]. split; [|split; vm_compute; reflexivity]. apply in_grids. vm_compute. reflexivity. Qed.

(* the slip of seed c (key signatures appended BEFORE the two-entries clean-up): a pickup with a key signature at
   its start loses its fitted time signature *)
Lemma tsc_variant1_refuted : exists g, In g (grids 5) /\ grid_ok 1 tk3 ks0 g = false /\ grid_ok 0 tk3 ks0 g = true.
Proof. exists [(2, 2)]. split; [|split; vm_compute; reflexivity]. apply in_grids. vm_compute. reflexivity. Qed.

(* ---- the part's own time signatures: written unless their time is the start of a fitted measure *)

Lemma measure_fold_fitted tk tsigs : forall ms d tct f d' tct' f',
  fold_left (tsc_measure 0 tk tsigs) ms (d, tct, f) = (d', tct', f') ->
  forall t, In t f' -> In t f \/ exists m, In m ms /\ fst (fst m) = t /\ irregular tsigs m = true.
Proof.
  induction ms as [|m r IH]; intros d tct f d' tct' f' H t Ht.
  - simpl in H. inversion H; subst. left; exact Ht.
  - destruct m as [[s e] nb]. cbn [fold_left] in H.
    remember (tsc_measure 0 tk tsigs (d, tct, f) (s, e, nb)) as st1 eqn:Est.
    unfold tsc_measure in Est.
    destruct (ts_at tsigs s) as [b bt] eqn:Ets.
    destruct (Qeq_bool nb (inject_Z b)) eqn:Eq.
    + subst st1. destruct (IH _ _ _ _ _ _ H t Ht) as [A|[m [A B]]]; [left; exact A|right; exists m; split; [right; exact A|exact B]].
    + assert (Irr : irregular tsigs (s, e, nb) = true) by (unfold irregular; rewrite Ets; simpl; rewrite Eq; reflexivity).
      destruct st1 as [[d1 tct1] f1].
      assert (Ef : f1 = f ++ [s]).
      { simpl in Est. destruct (existsb (Z.eqb e) (tct ++ [s])); inversion Est; reflexivity. }
      destruct (IH _ _ _ _ _ _ H t Ht) as [A|[m [A B]]].
      * subst f1. apply in_app_or in A. destruct A as [A|[A|[]]].
        -- left; exact A.
        -- right. exists (s, e, nb). split; [left; reflexivity|split; [exact A|exact Irr]].
      * right; exists m; split; [right; exact A|exact B].
Qed.

Lemma own_fold_keeps tk fitted tsigs : forall d k y, In y (d_get d k) -> In y (d_get (fold_left (tsc_own tk fitted) tsigs d) k).
Proof.
  induction tsigs as [|[[t b] bt] r IH]; simpl; intros d k y H; [exact H|].
  apply IH. destruct (existsb (Z.eqb t) fitted); [exact H|apply d_append_keeps, H].
Qed.

Lemma own_fold_keys tk fitted tsigs : forall d k, In k (map fst d) -> In k (map fst (fold_left (tsc_own tk fitted) tsigs d)).
Proof.
  induction tsigs as [|[[t b] bt] r IH]; simpl; intros d k H; [exact H|].
  apply IH. destruct (existsb (Z.eqb t) fitted); [exact H|apply d_append_keys; right; exact H].
Qed.

Lemma own_fold_has tk fitted tsigs : forall d t b bt, In (t, b, bt) tsigs -> existsb (Z.eqb t) fitted = false ->
  In (2, b, bt) (d_get (fold_left (tsc_own tk fitted) tsigs d) (tk t)) /\
  In (tk t) (map fst (fold_left (tsc_own tk fitted) tsigs d)).
Proof.
  induction tsigs as [|[[t0 b0] bt0] r IH]; simpl; intros d t b bt H Hf; [contradiction|].
  destruct H as [H|H].
  - inversion H; subst. rewrite Hf. split.
    + apply own_fold_keeps, d_append_has.
    + apply own_fold_keys, d_append_keys. left; reflexivity.
  - apply IH; assumption.
Qed.

Lemma keys_fold_keeps_keys tk ksigs : forall d k, In k (map fst d) -> In k (map fst (fold_left (tsc_keys tk) ksigs d)).
Proof.
  induction ksigs as [|ks r IH]; simpl; intros d k H; [exact H|]. apply IH. unfold tsc_keys. apply d_append_keys. right; exact H.
Qed.

Lemma own_signature_written tk tsigs ksigs ms ds t b bt :
  In (tsc_dict 0 tk tsigs ksigs ms) ds -> In (t, b, bt) tsigs ->
  (forall m, In m ms -> fst (fst m) = t -> irregular tsigs m = false) ->
  In (tk t, (2, b, bt)) (track_meta_seq ds).
Proof.
  intros Hd Hts Hreg.
  assert (G : In (2, b, bt) (d_get (tsc_dict 0 tk tsigs ksigs ms) (tk t)) /\ In (tk t) (map fst (tsc_dict 0 tk tsigs ksigs ms))).
  { unfold tsc_dict.
    destruct (fold_left (tsc_measure 0 tk tsigs) ms ([], map (fun x => fst (fst x)) tsigs, [])) as [[d tct] fitted] eqn:E.
    simpl.
    assert (F : existsb (Z.eqb t) fitted = false).
    { destruct (existsb (Z.eqb t) fitted) eqn:Ex; [|reflexivity].
      apply existsb_exists in Ex. destruct Ex as [x [Hx Hxe]]. apply Z.eqb_eq in Hxe. subst x.
      destruct (measure_fold_fitted _ _ _ _ _ _ _ _ _ E t Hx) as [[]|[m [A [B C]]]].
      rewrite (Hreg m A B) in C. discriminate. }
    destruct (own_fold_has tk fitted tsigs (tsc_cleanup 0 d) t b bt Hts F) as [A B].
    split; [apply keys_fold_keeps, A | apply keys_fold_keeps_keys, B]. }
  destruct G as [A B]. eapply meta_seq_in; eassumption.
Qed.

(* taking ts_changing_time for fitted_measure_time in loop 3 (variant 4) drops every signature of the score *)
Lemma own_variant4_refuted : exists tk tsigs ksigs ms t b bt,
  In (t, b, bt) tsigs /\ (forall m, In m ms -> fst (fst m) = t -> irregular tsigs m = false) /\
  ~ In (tk t, (2, b, bt)) (track_meta_seq [tsc_dict 4 tk tsigs ksigs ms]) /\
  In (tk t, (2, b, bt)) (track_meta_seq [tsc_dict 0 tk tsigs ksigs ms]).
Proof.
  exists tk3, [(0, 4, 4); (8, 3, 4)], [(0, 5)], [(0, 8, inject_Z 4); (8, 14, inject_Z 3)], 8, 3, 4.
  split; [right; left; reflexivity|]. split.
  - intros m [H|[H|[]]]; subst m; vm_compute; reflexivity.
  - vm_compute. split; [intuition discriminate | tauto].
Qed.
