(* C11 -- proofs about Model/C11_Hist.v: the quarter attribute of every time point follows the divisions table
   through every history; what a read returns is a function of the current state. *)
From PV Require Import Lib.Base Lib.Round Gen.C11_Tables Model.C11 Model.C11_Norm Model.C11_Hist.
From Coq Require Import QArith.
#[local] Open Scope Z_scope.

(* ------------------------------------------------------------------ the table *)

Lemma incr_weaken : forall tb lo lo', incr lo tb -> lo' <= lo -> incr lo' tb.
Proof. destruct tb as [|[a v] r]; simpl; intros; [exact I|]. destruct H. split; [lia|assumption]. Qed.

(* below the first entry the default is the value *)
Lemma div_at_from_below : forall tb d lo x, incr lo tb -> x <= lo -> div_at_from d tb x = d.
Proof.
  destruct tb as [|[a v] r]; simpl; intros d lo x H Hx; [reflexivity|].
  destruct H as [H _]. destruct (a <=? x) eqn:E; [lia|reflexivity].
Qed.

Lemma next_time_incr : forall tb lo t, incr lo tb -> t <= lo ->
  next_time tb t = match tb with [] => None | e :: _ => Some (fst e) end.
Proof.
  destruct tb as [|[a v] r]; simpl; intros lo t H Ht; [reflexivity|].
  destruct H as [H _]. unfold next_time. simpl. destruct (t <? a) eqn:E; [reflexivity|lia].
Qed.

Lemma next_time_skip : forall a v r t, a <= t -> next_time ((a, v) :: r) t = next_time r t.
Proof. intros. unfold next_time. simpl. destruct (t <? a) eqn:E; [lia|reflexivity]. Qed.

(* set_quarter_duration keeps the table sorted *)
Lemma setq_table_incr : forall tb prev lo t q, incr lo tb -> lo < t -> incr lo (fst (setq_table prev tb t q)).
Proof.
  induction tb as [|[a v] r IH]; intros prev lo t q H Ht; simpl.
  - destruct prev as [p|]; [destruct (p =? q)|]; simpl; auto.
  - destruct H as [H1 H2]. destruct (a <? t) eqn:E1.
    + specialize (IH (Some v) a t q H2 ltac:(lia)). destruct (setq_table (Some v) r t q) as [r' c]. simpl in *. auto.
    + destruct (a =? t) eqn:E2.
      * assert (a = t) by lia. subst a. destruct (v =? q); simpl; auto.
      * assert (t < a) by lia.
        destruct prev as [p|]; [destruct (p =? q)|]; simpl; repeat split; auto; lia.
Qed.

(* the new table: q from t to the next entry, the old value elsewhere *)
Lemma setq_table_spec : forall tb d lo t q x, incr lo tb -> lo < t ->
  div_at_from d (fst (setq_table (Some d) tb t q)) x
  = if in_range t (next_time (fst (setq_table (Some d) tb t q)) t) x then q else div_at_from d tb x.
Proof.
  induction tb as [|[a v] r IH]; intros d lo t q x H Ht; simpl.
  - destruct (d =? q) eqn:E; simpl.
    + assert (d = q) by lia. subst. unfold in_range, next_time; simpl. destruct (t <=? x); reflexivity.
    + unfold in_range, next_time. simpl. rewrite Z.ltb_irrefl. simpl. destruct (t <=? x); reflexivity.
  - destruct H as [H1 H2]. destruct (a <? t) eqn:E1.
    + specialize (IH v a t q x H2 ltac:(lia)).
      destruct (setq_table (Some v) r t q) as [r' c] eqn:ES. simpl in *.
      rewrite next_time_skip by lia.
      destruct (a <=? x) eqn:E2; [exact IH|].
      unfold in_range. destruct (t <=? x) eqn:E3; [lia|reflexivity].
    + destruct (a =? t) eqn:E2.
      * assert (a = t) by lia. subst a.
        destruct (v =? q) eqn:E3; simpl.
        -- assert (v = q) by lia. subst v.
           rewrite next_time_skip by lia. rewrite (next_time_incr r t t H2 ltac:(lia)).
           unfold in_range. destruct (t <=? x) eqn:E4; simpl; [|reflexivity].
           destruct r as [|[a1 v1] r1]; simpl; [reflexivity|].
           destruct (x <? a1) eqn:E5; [|reflexivity]. destruct (a1 <=? x) eqn:E6; [lia|reflexivity].
        -- rewrite next_time_skip by lia. rewrite (next_time_incr r t t H2 ltac:(lia)).
           unfold in_range. destruct (t <=? x) eqn:E4; simpl; [|reflexivity].
           destruct r as [|[a1 v1] r1]; simpl; [reflexivity|].
           destruct (x <? a1) eqn:E5; destruct (a1 <=? x) eqn:E6; try lia; reflexivity.
      * assert (t < a) by lia.
        destruct (d =? q) eqn:E3; simpl.
        -- assert (d = q) by lia. subst d.
           unfold next_time. simpl. replace (t <? a) with true by lia. simpl.
           unfold in_range. destruct (t <=? x) eqn:E4; simpl; [|reflexivity].
           destruct (x <? a) eqn:E5; [|reflexivity]. destruct (a <=? x) eqn:E6; [lia|reflexivity].
        -- unfold next_time. simpl. rewrite Z.ltb_irrefl. replace (t <? a) with true by lia. simpl.
           unfold in_range. destruct (t <=? x) eqn:E4; simpl.
           ++ destruct (x <? a) eqn:E5; destruct (a <=? x) eqn:E6; try lia; reflexivity.
           ++ destruct (a <=? x) eqn:E6; [lia|reflexivity].
Qed.

Lemma setq_table_unchanged : forall tb prev t q, snd (setq_table prev tb t q) = false -> fst (setq_table prev tb t q) = tb.
Proof.
  induction tb as [|[a v] r IH]; intros prev t q; simpl.
  - destruct prev as [p|]; [destruct (p =? q)|]; simpl; intros; congruence.
  - destruct (a <? t).
    + specialize (IH (Some v) t q). destruct (setq_table (Some v) r t q) as [r' c]. simpl in *. intros ->. rewrite IH; reflexivity.
    + destruct (a =? t).
      * destruct (v =? q); simpl; intros; congruence.
      * destruct prev as [p|]; [destruct (p =? q)|]; simpl; intros; congruence.
Qed.

Lemma set_quarter_fst s t q : fst (set_quarter s t q) = fst (setq_table None (fst s) t q).
Proof.
  unfold set_quarter. pose proof (setq_table_unchanged (fst s) None t q) as U.
  destruct (setq_table None (fst s) t q) as [tb' ch]. simpl in *. destruct ch; simpl; [reflexivity|]. symmetry. apply U. reflexivity.
Qed.

Lemma set_quarter_table_ok s t q : table_ok (fst s) -> 0 <= t -> table_ok (fst (set_quarter s t q)).
Proof.
  intros (v0 & r & E & I) Ht. rewrite set_quarter_fst, E. simpl.
  destruct (0 <? t) eqn:E1.
  - pose proof (setq_table_incr r (Some v0) 0 t q I ltac:(lia)) as I'.
    destruct (setq_table (Some v0) r t q) as [r' c]. simpl in *. exists v0, r'. auto.
  - assert (t = 0) by lia. subst t. simpl. destruct (v0 =? q); simpl; [exists v0, r | exists q, r]; auto.
Qed.

(* "that value takes effect until the time of the next quarter duration": the table's value after
   set_quarter_duration(t, q) is q on [t, t_next) and what it was elsewhere *)
Lemma set_quarter_div_at s t q x : table_ok (fst s) -> 0 <= t -> 0 <= x ->
  div_at (fst (set_quarter s t q)) x
  = if in_range t (next_time (fst (set_quarter s t q)) t) x then q else div_at (fst s) x.
Proof.
  intros (v0 & r & E & I) Ht Hx. rewrite set_quarter_fst, E. simpl.
  destruct (0 <? t) eqn:E1.
  - pose proof (setq_table_spec r v0 0 t q x I ltac:(lia)) as S.
    destruct (setq_table (Some v0) r t q) as [r' c]. simpl in *.
    rewrite next_time_skip by lia. exact S.
  - assert (t = 0) by lia. subst t. simpl.
    assert (G : forall v, div_at_from v r x = if in_range 0 (next_time ((0, v) :: r) 0) x then v else div_at_from v0 r x).
    { intros v. rewrite next_time_skip by lia. rewrite (next_time_incr r 0 0 I ltac:(lia)).
      unfold in_range. replace (0 <=? x) with true by lia. simpl.
      destruct r as [|[a1 v1] r1]; simpl; [reflexivity|].
      destruct (x <? a1) eqn:E5; destruct (a1 <=? x) eqn:E6; try lia; reflexivity. }
    destruct (v0 =? q) eqn:E2; simpl.
    + assert (v0 = q) by lia. subst v0. apply G.
    + apply G.
Qed.

(* ------------------------------------------------------------------ the time points *)

Lemma in_insert_point : forall pts t q p, In p (insert_point pts t q) -> p = (t, q) \/ In p pts.
Proof.
  induction pts as [|p0 r IH]; simpl; intros t q p H.
  - destruct H; [left; congruence|contradiction].
  - destruct (fst p0 <? t).
    + destruct H as [H|H]; [right; left; assumption|]. destruct (IH _ _ _ H); auto.
    + destruct (fst p0 =? t); simpl in H; [right; assumption|]. destruct H; [left; congruence|right; assumption].
Qed.

Lemma step_ok s ev : table_ok (fst s) -> consistent s -> event_ok ev ->
  table_ok (fst (step s ev)) /\ consistent (step s ev).
Proof.
  intros T C E. destruct ev as [t q|t|t|a b]; simpl in *.
  - split; [apply set_quarter_table_ok; assumption|].
    intros p Hp.
    pose proof (set_quarter_div_at s t q) as SP.
    unfold set_quarter in *. destruct (setq_table None (fst s) t q) as [tb' ch] eqn:ES. destruct ch; simpl in *.
    + unfold upd_points in Hp. apply in_map_iff in Hp as (p0 & <- & Hp0). destruct (C p0 Hp0) as [P1 P2].
      specialize (SP (fst p0) T E P1).
      destruct (in_range t (next_time tb' t) (fst p0)); simpl; split; try assumption; congruence.
    + apply C. assumption.
  - split; [assumption|]. intros p Hp. unfold add_point in Hp. simpl in *.
    apply in_insert_point in Hp as [->|Hp]; [simpl; split; [assumption|reflexivity]|apply C; assumption].
  - split; [assumption|]. intros p Hp. unfold remove_point in Hp. simpl in *. apply filter_In in Hp as [Hp _]. apply C; assumption.
  - split; assumption.
Qed.

Lemma run_ok : forall h s, table_ok (fst s) -> consistent s -> Forall event_ok h ->
  table_ok (fst (run s h)) /\ consistent (run s h).
Proof.
  induction h as [|ev h IH]; intros s T C F; simpl; [split; assumption|].
  inversion F; subst. destruct (step_ok s ev T C) as [T' C']; [assumption|]. apply IH; assumption.
Qed.

Lemma quarter_of_consistent s a q : consistent s -> quarter_of (snd s) a = Some q -> q = div_at (fst s) a.
Proof.
  intros C. unfold quarter_of. destruct (find (fun p => fst p =? a) (snd s)) as [p|] eqn:F; [|discriminate].
  apply find_some in F as [Hin Heq]. intros [= <-]. destruct (C p Hin) as [_ ->]. f_equal. lia.
Qed.

(* what a read returns is the estimate under the divisions the table holds NOW at the note's start *)
Lemma observe_current s a b : consistent s ->
  observe s a b = match quarter_of (snd s) a with Some _ => Some (estimate (b - a) (div_at (fst s) a)) | None => None end.
Proof.
  intros C. unfold observe. destruct (quarter_of (snd s) a) as [q|] eqn:Q; [|reflexivity].
  rewrite (quarter_of_consistent s a q C Q). reflexivity.
Qed.

Lemma run_obs_spec : forall h s, table_ok (fst s) -> consistent s -> Forall event_ok h -> run_obs s h = spec_obs s h.
Proof.
  induction h as [|ev h IH]; intros s T C F; [reflexivity|].
  inversion F as [|? ? E F']; subst.
  destruct ev as [t q|t|t|a b]; simpl.
  - destruct (step_ok s (ESetQ t q) T C E). apply IH; assumption.
  - destruct (step_ok s (EAddPoint t) T C E). apply IH; assumption.
  - destruct (step_ok s (ERemovePoint t) T C E). apply IH; assumption.
  - rewrite (observe_current s a b C). f_equal. apply IH; assumption.
Qed.

(* reads leave no trace in the state *)
Lemma run_without_reads : forall h s, run s h = run s (filter (fun e => negb (is_read e)) h).
Proof.
  induction h as [|ev h IH]; intros s; [reflexivity|].
  destruct ev; simpl; try apply IH.
Qed.

(* ... so the answer to a read is the same whatever was read before *)
Lemma read_independent_of_reads h s a b :
  observe (run s h) a b = observe (run s (filter (fun e => negb (is_read e)) h)) a b.
Proof. rewrite <- run_without_reads. reflexivity. Qed.

(* the statement is not vacuous: a getter that keeps its estimate per (start, end) answers a read after a change of
   the divisions with the estimate made before it.  The history of seed g: look, correct the divisions, look again *)
Definition ex_state : pstate := ([(0, 10)], [(0, 10); (5, 10)]).
Definition ex_history : list event := [ERead 0 5; ESetQ 0 4; ERead 0 5].
Lemma ex_state_ok : table_ok (fst ex_state) /\ consistent ex_state /\ Forall event_ok ex_history.
Proof.
  split; [exists 10, []; simpl; auto|]. split.
  - intros p [<-|[<-|[]]]; simpl; split; try lia; reflexivity.
  - repeat constructor; simpl; lia.
Qed.
Lemma ex_memo_stale :
  run_obs ex_state ex_history = spec_obs ex_state ex_history
  /\ run_obs_memo ex_state [] ex_history <> spec_obs ex_state ex_history
  /\ run_obs ex_state ex_history = [Some (ESome ("eighth"%string, 0, None)); Some ENone].
Proof. split; [vm_compute; reflexivity|]. split; [vm_compute; discriminate|vm_compute; reflexivity]. Qed.

Lemma memo_refuted_lemma :
  table_ok (fst ex_state) /\ consistent ex_state /\ Forall event_ok ex_history
  /\ run_obs ex_state ex_history = spec_obs ex_state ex_history
  /\ run_obs_memo ex_state [] ex_history <> spec_obs ex_state ex_history.
Proof.
  destruct ex_state_ok as (A & B & C). destruct ex_memo_stale as (D & E & _).
  split; [exact A|split; [exact B|split; [exact C|split; [exact D|exact E]]]].
Qed.

(* set_quarter_duration: an example with a redundant entry, a replacement and an insertion *)
Lemma ex_set_quarter :
  run ([(0, 12)], [(0, 12); (3, 12); (15, 12); (63, 12); (71, 12)]) [ESetQ 3 6; ESetQ 63 6; ESetQ 15 13; EAddPoint 70]
  = ([(0, 12); (3, 6); (15, 13)], [(0, 12); (3, 6); (15, 13); (63, 13); (70, 13); (71, 13)]).
Proof. vm_compute. reflexivity. Qed.
