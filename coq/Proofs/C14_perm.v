(* C14 -- a strictly sorted list is the only sorted permutation of itself; the control stream may be listed in any order. *)
From PV Require Import Lib.Base Lib.Round Model.C12 Model.C14 Model.C14_Spec
  Proofs.C14_lib Proofs.C14_so Proofs.C14.
From Coq Require Import QArith Qminmax Qabs Lqa Sorted Permutation.
#[local] Open Scope Q_scope.

Section Strict.
  Context {A : Type} (key : A -> Q).
  Definition lt_key (a b : A) : Prop := key a < key b.

  Lemma insert_by_strict x l :
    StronglySorted lt_key l -> Forall (fun b => ~ key x == key b) l -> StronglySorted lt_key (insert_by key x l).
  Proof.
    induction l as [|y r IH]; intros S D; simpl.
    - constructor; constructor.
    - inversion S; subst. inversion D; subst.
      destruct (Qle_bool (key x) (key y)) eqn:E.
      + apply Qle_bool_iff in E. assert (key x < key y) by (apply Qle_lt_or_eq in E; destruct E; [assumption|contradiction]).
        constructor; auto. constructor; auto.
        apply Forall_impl with (P := lt_key y); [|assumption]. unfold lt_key. intros a Ha. lra.
      + apply Qleb_false in E. constructor; auto.
        eapply Permutation_Forall; [symmetry; apply insert_by_perm|].
        constructor; auto.
  Qed.

  Lemma sort_by_strict l :
    ForallOrdPairs (fun a b => ~ key a == key b) l -> StronglySorted lt_key (sort_by key l).
  Proof.
    induction 1 as [|x r Hx Hr IH]; simpl; [constructor|].
    apply insert_by_strict; auto.
    eapply Permutation_Forall; [symmetry; apply sort_by_perm|]. exact Hx.
  Qed.

  (* a strictly sorted list and a sorted list that are permutations of each other are equal *)
  Lemma strict_sorted_unique : forall s s',
    StronglySorted lt_key s -> sorted_by_key key s' -> Permutation s s' -> s = s'.
  Proof.
    induction s as [|h t IH]; intros s' S S' P.
    - apply Permutation_nil in P. auto.
    - destruct s' as [|h' t']; [symmetry in P; apply Permutation_nil in P; discriminate|].
      inversion S; subst. inversion S'; subst.
      assert (Hh' : In h' (h :: t)) by (eapply Permutation_in; [symmetry; exact P|left; reflexivity]).
      assert (Hh : In h (h' :: t')) by (eapply Permutation_in; [exact P|left; reflexivity]).
      assert (E : h' = h).
      { destruct Hh' as [->|Hin]; [reflexivity|].
        rewrite Forall_forall in H2. specialize (H2 h' Hin). unfold lt_key in H2.
        destruct Hh as [->|Hin']; [reflexivity|].
        rewrite Forall_forall in H4. specialize (H4 h Hin'). unfold le_key in H4. lra. }
      subst h'. f_equal. apply IH; auto. eapply Permutation_cons_inv; eauto.
  Qed.
End Strict.

Lemma filter_perm {A} (f : A -> bool) l l' : Permutation l l' -> Permutation (filter f l) (filter f l').
Proof.
  induction 1; simpl; auto.
  - destruct (f x); auto.
  - destruct (f x), (f y); auto. apply perm_swap.
  - etransitivity; eauto.
Qed.

(* C14 -- the order in which the control events are listed does not matter. *)
(* the order in which the control events are listed does not matter (pedal events at distinct times) *)
Lemma control_order_irrelevant_lemma thr ns cs cs' :
  Permutation cs cs' -> distinct_pedal_times cs -> sound_offs thr ns cs = sound_offs thr ns cs'.
Proof.
  intros P D.
  assert (E : sorted_pedal cs = sorted_pedal cs').
  { unfold sorted_pedal. apply (strict_sorted_unique c_time).
    - apply sort_by_strict. exact D.
    - apply sort_by_sorted.
    - rewrite (sort_by_perm c_time (pedal_events cs)), (sort_by_perm c_time (pedal_events cs')).
      apply filter_perm. exact P. }
  unfold sound_offs. rewrite E. reflexivity.
Qed.

Example control_order_example :
  let cs := [mkCtrl 64 5 0; mkCtrl 7 2 100; mkCtrl 64 (1#2) 100] in
  let cs' := [mkCtrl 64 (1#2) 100; mkCtrl 64 5 0; mkCtrl 7 2 100] in
  Permutation cs cs' /\ distinct_pedal_times cs /\ sound_offs 64 ex_notes cs' = [3; 5; 6].
Proof.
  simpl. split; [|split].
  - apply Permutation_sym. apply (Permutation_cons_app [mkCtrl 64 5 0; mkCtrl 7 2 100] []). apply Permutation_refl.
  - apply example_lemma.
  - vm_compute. reflexivity.
Qed.
