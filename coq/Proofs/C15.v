(* C15 -- merge_parts: structure of the output, exact preservation of musical time, multiset of
   the kept elements, windows of voice / staff numbers per part (disjoint across parts, coherent
   within), structural elements from the first part, single part returned as it is. *)
From PV Require Import Lib.Base Model.C05 Model.C05_Spec Model.C15 Model.C15_Spec Proofs.C05_lib.
From Coq Require Import Permutation.
#[local] Open Scope Z_scope.

(* ------------------------------------------------------------------ small facts *)

Lemma fold_max_ge_init l : forall a, a <= fold_left Z.max l a.
Proof. induction l as [|x r IH]; simpl; intros a; [lia|]. specialize (IH (Z.max a x)). lia. Qed.

Lemma fold_max_ge_in l : forall a x, In x l -> x <= fold_left Z.max l a.
Proof.
  induction l as [|y r IH]; simpl; intros a x H; [tauto|]. destruct H as [->|H].
  - pose proof (fold_max_ge_init r (Z.max a x)). lia.
  - apply IH, H.
Qed.

Lemma zmax_list_ge d l x : In x l -> x <= zmax_list d l.
Proof.
  destruct l as [|y r]; simpl; [tauto|]. intros [->|H].
  - apply fold_max_ge_init.
  - apply fold_max_ge_in, H.
Qed.

Lemma zmax_list_lb d l : (forall x, In x l -> d <= x) -> d <= zmax_list d l.
Proof.
  destruct l as [|y r]; simpl; intros H; [lia|].
  pose proof (fold_max_ge_init r y). specialize (H y (or_introl eq_refl)). lia.
Qed.

Lemma filter_len_le {A} (f : A -> bool) l : (List.length (filter f l) <= List.length l)%nat.
Proof. induction l as [|x r IH]; simpl; [lia|]. destruct (f x); simpl; lia. Qed.

Lemma rank_nonneg v l : 0 <= rank v l.
Proof. unfold rank. lia. Qed.

Lemma rank_lt_length v l : In v l -> rank v l < Z.of_nat (List.length l).
Proof.
  unfold rank. intros H. apply inj_lt.
  induction l as [|x r IH]; simpl in *; [tauto|].
  destruct H as [->|H].
  - rewrite Z.ltb_irrefl. pose proof (filter_len_le (fun x => x <? v) r). lia.
  - specialize (IH H). destruct (x <? v); simpl; lia.
Qed.

Lemma filter_lt_mono a b (l : list Z) : a < b ->
  (List.length (filter (fun x => Z.ltb x a) l) <= List.length (filter (fun x => Z.ltb x b) l))%nat.
Proof.
  intros Hab. induction l as [|x r IH]; simpl; [lia|].
  destruct (Z.ltb x a) eqn:E1; destruct (Z.ltb x b) eqn:E2; simpl; lia.
Qed.

Lemma rank_mono a b l : a < b -> In a l -> rank a l < rank b l.
Proof.
  unfold rank. intros Hab H. apply inj_lt.
  induction l as [|x r IH]; simpl in *; [tauto|].
  destruct H as [->|H].
  - rewrite Z.ltb_irrefl. assert (E : Z.ltb a b = true) by lia. rewrite E. simpl.
    pose proof (filter_lt_mono a b r Hab). lia.
  - specialize (IH H). destruct (Z.ltb x a) eqn:E1; destruct (Z.ltb x b) eqn:E2; simpl; lia.
Qed.

Lemma rank_inj a b l : In a l -> In b l -> rank a l = rank b l -> a = b.
Proof.
  intros Ha Hb E. destruct (Z.lt_trichotomy a b) as [H|[H|H]]; [|assumption|].
  - pose proof (rank_mono a b l H Ha). lia.
  - pose proof (rank_mono b a l H Hb). lia.
Qed.

Lemma uniq_In x l : In x (uniq l) <-> In x l.
Proof. unfold uniq. apply nodup_In. Qed.

Lemma voices_of_In es e v : In e es -> generic e -> e_voice e = Some v -> In v (voices_of es).
Proof.
  unfold voices_of, generic. intros H G V. apply in_flat_map. exists e. split; [assumption|].
  rewrite G, V. left; reflexivity.
Qed.

Lemma staves_of_In es e : In e es -> staffed e -> In (staff1 e) (staves_of es).
Proof.
  unfold staves_of, staffed. intros H G. apply in_flat_map. exists e. split; [assumption|].
  rewrite G. left; reflexivity.
Qed.

Lemma voices_of_all es x : In x (voices_of es) -> exists e, In e es /\ generic e /\ e_voice e = Some x.
Proof.
  unfold voices_of, generic. intros H. apply in_flat_map in H as [e [He Hx]].
  exists e. destruct (is_generic (e_kind e)); [|destruct Hx].
  destruct (e_voice e) as [v|]; [|destruct Hx]. destruct Hx as [<-|[]]. auto.
Qed.

Lemma staves_of_all es x : In x (staves_of es) -> exists e, In e es /\ staffed e /\ staff1 e = x.
Proof.
  unfold staves_of, staffed. intros H. apply in_flat_map in H as [e [He Hx]].
  exists e. destruct (is_staffed (e_kind e)); [|destruct Hx]. destruct Hx as [<-|[]]. auto.
Qed.

Lemma maxv_pos es : voices_ok es -> 1 <= maxv es.
Proof.
  intros H. apply zmax_list_lb. intros x Hx.
  destruct (voices_of_all es x Hx) as [e [He [G V]]].
  destruct (H e He G) as [v [V' P]]. congruence.
Qed.

Lemma maxs_pos es : staves_ok es -> 1 <= maxs es.
Proof.
  intros H. apply zmax_list_lb. intros x Hx.
  destruct (staves_of_all es x Hx) as [e [He [G <-]]]. apply H; assumption.
Qed.

(* ------------------------------------------------------------------ one element *)

Lemma rescale_fields k e :
  e_oid (rescale_elem k e) = e_oid e /\ e_kind (rescale_elem k e) = e_kind e /\
  e_voice (rescale_elem k e) = e_voice e /\ e_staff (rescale_elem k e) = e_staff e /\
  e_pitch (rescale_elem k e) = e_pitch e /\ e_tie_prev (rescale_elem k e) = e_tie_prev e /\
  e_tie_next (rescale_elem k e) = e_tie_next e /\
  e_start (rescale_elem k e) = e_start e * k /\
  e_end (rescale_elem k e) = option_map (fun t => t * k) (e_end e).
Proof. repeat split. Qed.

Lemma staff1_rescale k e : staff1 (rescale_elem k e) = staff1 e.
Proof. reflexivity. Qed.

(* renumbering touches the voice and the staff only *)
Lemma renumber_fields m o uv us e e' : renumber m o uv us e = Some e' ->
  e_oid e' = e_oid e /\ e_kind e' = e_kind e /\ e_start e' = e_start e /\ e_end e' = e_end e /\
  e_pitch e' = e_pitch e /\ e_tie_prev e' = e_tie_prev e /\ e_tie_next e' = e_tie_next e.
Proof.
  unfold renumber. destruct m.
  - destruct (is_generic (e_kind e)); [destruct (e_voice e); [|discriminate]|];
      intros H; injection H as <-; repeat split.
  - destruct (is_staffed (e_kind e)); intros H; injection H as <-; repeat split.
  - destruct (is_generic (e_kind e)); [destruct (e_voice e); [|discriminate]|];
      destruct (is_staffed (e_kind e)); intros H; injection H as <-; repeat split.
Qed.

Lemma renumber_core m o uv us k e e' : renumber m o uv us (rescale_elem k e) = Some e' -> core e' = core e.
Proof.
  intros H. apply renumber_fields in H as [A [B [_ [_ [C [D E]]]]]]. unfold core.
  rewrite A, B, C, D, E. reflexivity.
Qed.

(* ------------------------------------------------------------------ one part *)

Lemma xform_elems_In m k first o uv us : forall es out, xform_elems m k first o uv us es = Some out ->
  forall e', In e' out -> exists e, In e es /\ keep m first e = true /\
                                    renumber m o uv us (rescale_elem k e) = Some e'.
Proof.
  induction es as [|e r IH]; simpl; intros out H e' Hin.
  - injection H as <-. destruct Hin.
  - destruct (keep m first e) eqn:K.
    + destruct (renumber m o uv us (rescale_elem k e)) as [e1|] eqn:R; [|discriminate].
      destruct (xform_elems m k first o uv us r) as [r'|] eqn:X; [|discriminate].
      injection H as <-. destruct Hin as [<-|Hin].
      * exists e. auto.
      * destruct (IH r' eq_refl e' Hin) as [e0 [A B]]. exists e0. split; [right; assumption | assumption].
    + destruct (IH out H e' Hin) as [e0 [A B]]. exists e0. split; [right; assumption | assumption].
Qed.

Lemma xform_elems_cores m k first o uv us : forall es out, xform_elems m k first o uv us es = Some out ->
  map core out = map core (filter (keep m first) es).
Proof.
  induction es as [|e r IH]; simpl; intros out H.
  - injection H as <-. reflexivity.
  - destruct (keep m first e) eqn:K.
    + destruct (renumber m o uv us (rescale_elem k e)) as [e1|] eqn:R; [|discriminate].
      destruct (xform_elems m k first o uv us r) as [r'|] eqn:X; [|discriminate].
      injection H as <-. simpl. rewrite (IH r' eq_refl), (renumber_core _ _ _ _ _ _ _ R). reflexivity.
    + apply IH, H.
Qed.

(* the element loop never raises when every kept GenericNote carries a voice (and never in
   "staff" mode) *)
Lemma renumber_total m o uv us e :
  (m = MStaff \/ (generic e -> e_voice e <> None)) -> exists e', renumber m o uv us e = Some e'.
Proof.
  unfold renumber, generic. intros H. destruct m.
  - destruct H as [H|H]; [discriminate|]. destruct (is_generic (e_kind e)); [|eauto].
    destruct (e_voice e); [eauto | exfalso; apply H; reflexivity].
  - destruct (is_staffed (e_kind e)); eauto.
  - destruct H as [H|H]; [discriminate|]. destruct (is_generic (e_kind e)).
    + destruct (e_voice e); [|exfalso; apply H; reflexivity].
      destruct (is_staffed (e_kind e)); eauto.
    + destruct (is_staffed (e_kind e)); eauto.
Qed.

Lemma xform_elems_total m k first o uv us : forall es,
  (m = MStaff \/ forall e, In e es -> generic e -> e_voice e <> None) ->
  exists out, xform_elems m k first o uv us es = Some out.
Proof.
  induction es as [|e r IH]; simpl; intros H; [eauto|].
  assert (Hr : m = MStaff \/ forall e0, In e0 r -> generic e0 -> e_voice e0 <> None).
  { destruct H as [H|H]; [left; assumption | right; intros; apply H; [right|]; assumption]. }
  destruct (IH Hr) as [r' ->].
  destruct (keep m first e); [|eauto].
  destruct (renumber_total m o uv us (rescale_elem k e)) as [e' ->]; [|eauto].
  destruct H as [H|H]; [left; assumption | right]. intros G. apply (H e (or_introl eq_refl) G).
Qed.

(* ------------------------------------------------------------------ the part loop *)

Lemma merge_from_tags m L : forall ps i o out, merge_from m L i o ps = Some out ->
  forall j e', In (j, e') out -> (i <= j)%nat.
Proof.
  induction ps as [|[es d] r IH]; simpl; intros i o out H j e' Hin.
  - injection H as <-. destruct Hin.
  - destruct (xform_elems m (L / d) (Nat.eqb i 0) o (uniq (voices_of es)) (uniq (staves_of es)) es) as [a|]; [|discriminate].
    destruct (merge_from m L (S i) (next_offs o es) r) as [b|] eqn:M; [|discriminate].
    injection H as <-. apply in_app_or in Hin as [Hin|Hin].
    + apply in_map_iff in Hin as [x [E _]]. injection E as <- _. lia.
    + specialize (IH _ _ _ M j e' Hin). lia.
Qed.

(* every output element is the renumbered, rescaled image of a kept element of the part its tag
   names *)
Lemma merge_from_In m L : forall ps i o out, merge_from m L i o ps = Some out ->
  forall j e', In (j, e') out ->
  exists k es d e o', j = (i + k)%nat /\ nth_error ps k = Some (es, d) /\ In e es /\
    keep m (Nat.eqb j 0) e = true /\
    renumber m o' (uniq (voices_of es)) (uniq (staves_of es)) (rescale_elem (L / d) e) = Some e'.
Proof.
  induction ps as [|[es d] r IH]; simpl; intros i o out H j e' Hin.
  - injection H as <-. destruct Hin.
  - destruct (xform_elems m (L / d) (Nat.eqb i 0) o (uniq (voices_of es)) (uniq (staves_of es)) es) as [a|] eqn:X; [|discriminate].
    destruct (merge_from m L (S i) (next_offs o es) r) as [b|] eqn:M; [|discriminate].
    injection H as <-. apply in_app_or in Hin as [Hin|Hin].
    + apply in_map_iff in Hin as [x [E Hx]]. injection E as <- ->.
      destruct (xform_elems_In _ _ _ _ _ _ _ _ X e' Hx) as [e [A [B C]]].
      exists 0%nat, es, d, e, o. rewrite Nat.add_0_r. auto.
    + destruct (IH _ _ _ M j e' Hin) as [k [es' [d' [e [o' [A [B C]]]]]]].
      exists (S k), es', d', e, o'. split; [lia | auto].
Qed.

Lemma merge_from_cores m L : forall ps i o out, merge_from m L i o ps = Some out ->
  map tag_core out = map tag_core (kept_from m i ps).
Proof.
  induction ps as [|[es d] r IH]; simpl; intros i o out H.
  - injection H as <-. reflexivity.
  - destruct (xform_elems m (L / d) (Nat.eqb i 0) o (uniq (voices_of es)) (uniq (staves_of es)) es) as [a|] eqn:X; [|discriminate].
    destruct (merge_from m L (S i) (next_offs o es) r) as [b|] eqn:M; [|discriminate].
    injection H as <-. rewrite !map_app, (IH _ _ _ M). f_equal.
    rewrite !map_map. unfold tag_core; simpl.
    pose proof (xform_elems_cores _ _ _ _ _ _ _ _ X) as C.
    rewrite <- (map_map core (fun c => (i, c))), <- (map_map core (fun c => (i, c)) (filter _ es)), C.
    reflexivity.
Qed.

Lemma merge_from_total m L : forall ps i o,
  (m = MStaff \/ forall p e, In p ps -> In e (fst p) -> generic e -> e_voice e <> None) ->
  exists out, merge_from m L i o ps = Some out.
Proof.
  induction ps as [|[es d] r IH]; simpl; intros i o H; [eauto|].
  destruct (xform_elems_total m (L / d) (Nat.eqb i 0) o (uniq (voices_of es)) (uniq (staves_of es)) es) as [a ->].
  { destruct H as [H|H]; [left; assumption | right]. intros e He. apply (H (es, d) e (or_introl eq_refl) He). }
  destruct (IH (S i) (next_offs o es)) as [b ->]; [|eauto].
  destruct H as [H|H]; [left; assumption | right]. intros p e Hp. apply H. right; assumption.
Qed.

(* ------------------------------------------------------------------ the top level *)

Lemma merge_parts_merged m ts L out : merge_parts m ts = RMerged L out ->
  L = merge_lcm (flat_map flatten ts) /\ merge_from m L 0 (mkOffs 0 0 0) (flat_map flatten ts) = Some out /\
  (2 <= List.length (flat_map flatten ts))%nat.
Proof.
  unfold merge_parts. destruct (flat_map flatten ts) as [|p [|q r]] eqn:F; try discriminate.
  destruct (merge_from m (merge_lcm (p :: q :: r)) 0 (mkOffs 0 0 0) (p :: q :: r)) as [o|] eqn:M; [|discriminate].
  intros H; injection H as <- <-. repeat split; [assumption | simpl; lia].
Qed.

Lemma single_identity_lemma m ts p : flat_map flatten ts = [p] -> merge_parts m ts = RSingle p.
Proof. unfold merge_parts. intros ->. reflexivity. Qed.

Lemma nth_error_divs (ps : list part) j es d : nth_error ps j = Some (es, d) -> In d (divs_of ps).
Proof.
  intros H. apply nth_error_In in H. unfold divs_of. apply in_map_iff. exists (es, d). auto.
Qed.

(* O1: same musical time, exactly, for every element of the merged part *)
Lemma merge_time_preserved_lemma m ts L out :
  merge_parts m ts = RMerged L out -> divs_pos (flat_map flatten ts) ->
  L = lcm_list (divs_of (flat_map flatten ts)) /\ 0 < L /\
  forall j e', In (j, e') out ->
  exists es d e, nth_error (flat_map flatten ts) j = Some (es, d) /\ In e es /\ core e' = core e /\
                 (d | L) /\ same_time L d e e'.
Proof.
  intros H P. destruct (merge_parts_merged _ _ _ _ H) as [EL [M _]].
  split; [exact EL|]. split; [rewrite EL; apply lcm_list_pos, P|].
  intros j e' Hin. destruct (merge_from_In _ _ _ _ _ _ M j e' Hin) as [k [es [d [e [o' [A [B [C [_ R]]]]]]]]].
  simpl in A. subst k. exists es, d, e. split; [assumption|]. split; [assumption|].
  split; [eapply renumber_core; eauto|].
  assert (Dd : (d | L)) by (rewrite EL; apply lcm_list_divides; eapply nth_error_divs; eauto).
  split; [assumption|].
  assert (Hd : 0 < d).
  { unfold divs_pos in P. rewrite Forall_forall in P. apply P. eapply nth_error_divs; eauto. }
  pose proof (divide_mul_div d L Hd Dd) as Q.
  apply renumber_fields in R as [_ [_ [S [E _]]]]. unfold same_time. rewrite S, E. simpl. split.
  - rewrite <- Q at 2. lia.
  - destruct (e_end e) as [t|]; simpl; [|exact I]. rewrite <- Q at 2. lia.
Qed.

(* O1: the merged part holds exactly the kept elements (as a multiset), unchanged in identity,
   class, pitch and tie links *)
Lemma merge_contains_all_lemma m ts L out : merge_parts m ts = RMerged L out ->
  Permutation (map tag_core out) (map tag_core (kept_from m 0 (flat_map flatten ts))).
Proof.
  intros H. destruct (merge_parts_merged _ _ _ _ H) as [_ [M _]].
  rewrite (merge_from_cores _ _ _ _ _ _ M). apply Permutation_refl.
Qed.

(* every GenericNote, and every element of a class that is not in el_to_discard, is kept *)
Lemma kept_from_In m : forall ps i j es d e, nth_error ps j = Some (es, d) -> In e es ->
  keep m (Nat.eqb (i + j) 0) e = true -> In ((i + j)%nat, e) (kept_from m i ps).
Proof.
  induction ps as [|[es0 d0] r IH]; intros i j es d e N He K; [destruct j; discriminate|].
  simpl. apply in_or_app. destruct j as [|j]; simpl in N.
  - injection N as -> ->. left. rewrite Nat.add_0_r in *. apply in_map. apply filter_In. auto.
  - right. replace (i + S j)%nat with (S i + j)%nat in * by lia. eapply IH; eauto.
Qed.

Lemma merge_keeps_lemma m ts L out j es d e :
  merge_parts m ts = RMerged L out -> nth_error (flat_map flatten ts) j = Some (es, d) -> In e es ->
  (j = 0%nat \/ discard m (e_kind e) = false) ->
  exists e', In (j, e') out /\ core e' = core e.
Proof.
  intros H N He K.
  assert (Kp : keep m (Nat.eqb (0 + j) 0) e = true).
  { unfold keep. simpl. destruct K as [->|K]; [reflexivity|]. rewrite K. apply orb_true_r. }
  pose proof (kept_from_In m _ 0%nat j es d e N He Kp) as Hin. simpl in Hin.
  pose proof (merge_contains_all_lemma _ _ _ _ H) as P.
  assert (Hc : In (tag_core (j, e)) (map tag_core out)).
  { eapply Permutation_in; [symmetry; exact P|]. apply in_map, Hin. }
  apply in_map_iff in Hc as [[j' e'] [E Hx]]. unfold tag_core in E; simpl in E.
  injection E as E1 E2 E3 E4 E5 E6. subst j'. exists e'. split; [assumption|].
  unfold core. congruence.
Qed.

(* O3: the classes of el_to_discard come from the first part only *)
Lemma structural_from_first_lemma m ts L out j e' :
  merge_parts m ts = RMerged L out -> In (j, e') out -> discard m (e_kind e') = true -> j = 0%nat.
Proof.
  intros H Hin D. destruct (merge_parts_merged _ _ _ _ H) as [_ [M _]].
  destruct (merge_from_In _ _ _ _ _ _ M j e' Hin) as [k [es [d [e [o' [_ [_ [_ [K R]]]]]]]]].
  apply renumber_fields in R as [_ [B _]]. simpl in B. rewrite B in D.
  unfold keep in K. rewrite D in K. simpl in K. rewrite orb_false_r in K.
  apply Nat.eqb_eq in K. exact K.
Qed.

Lemma doc_structural_discarded_lemma m k : doc_structural k = true ->
  discard m k = true \/ (k = KClef /\ m <> MVoice).
Proof. destruct k, m; simpl; intros H; try discriminate; auto; right; split; congruence. Qed.

Lemma discard_classes_lemma m k : discard m k = true ->
  doc_structural k = true \/ In k [KDaCapo; KFine; KFermata; KEnding; KTempo].
Proof. destruct k, m; simpl; intros H; try discriminate; auto 10. Qed.

(* ------------------------------------------------------------------ windows of numbers *)

(* Each part receives a window (lo o, lo o + width es] of new numbers; windows of successive parts
   do not overlap.  Instantiated for voice numbers in "voice" mode, staff numbers in "staff" mode,
   and both in "auto" mode. *)
Lemma sel_out (sel : kind -> bool) m o uv us k e e' : renumber m o uv us (rescale_elem k e) = Some e' ->
  sel (e_kind e') = sel (e_kind e).
Proof. intros R. apply renumber_fields in R as [_ [B _]]. simpl in B. rewrite B. reflexivity. Qed.

Section Window.
  Variable m : mode.
  Variable sel : kind -> bool.             (* the classes that are renumbered *)
  Variable newv : elem -> option Z.        (* the number after *)
  Variable lo : offs -> Z.
  Variable width : list elem -> Z.
  Variable good : list elem -> Prop.

  Hypothesis W_width : forall es, good es -> 0 <= width es.
  Hypothesis W_next : forall o es, good es -> lo o + width es <= lo (next_offs o es).
  Hypothesis W_in : forall o es k e e', good es -> In e es -> sel (e_kind e) = true ->
    renumber m o (uniq (voices_of es)) (uniq (staves_of es)) (rescale_elem k e) = Some e' ->
    exists x, newv e' = Some x /\ lo o < x <= lo o + width es.
  Lemma window_lower L : forall ps i o out, Forall good (map fst ps) ->
    merge_from m L i o ps = Some out ->
    forall j e', In (j, e') out -> sel (e_kind e') = true -> exists x, newv e' = Some x /\ lo o < x.
  Proof.
    induction ps as [|[es d] r IH]; simpl; intros i o out G H j e' Hin Hs.
    - injection H as <-. destruct Hin.
    - apply Forall_cons_iff in G as [Ge Gr]. simpl in Ge.
      destruct (xform_elems m (L / d) (Nat.eqb i 0) o (uniq (voices_of es)) (uniq (staves_of es)) es) as [a|] eqn:X; [|discriminate].
      destruct (merge_from m L (S i) (next_offs o es) r) as [b|] eqn:M; [|discriminate].
      injection H as <-. apply in_app_or in Hin as [Hin|Hin].
      + apply in_map_iff in Hin as [x [E Hx]]. injection E as _ ->.
        destruct (xform_elems_In _ _ _ _ _ _ _ _ X e' Hx) as [e [A [_ R]]].
        rewrite (sel_out sel _ _ _ _ _ _ _ R) in Hs.
        destruct (W_in o es _ e e' Ge A Hs R) as [x [Nx Bx]]. exists x. split; [assumption | lia].
      + destruct (IH _ _ _ Gr M j e' Hin Hs) as [x [Nx Bx]]. exists x. split; [assumption|].
        pose proof (W_next o es Ge). pose proof (W_width es Ge). lia.
  Qed.

  Lemma window_disjoint L : forall ps i o out, Forall good (map fst ps) ->
    merge_from m L i o ps = Some out ->
    forall j1 j2 e1 e2, In (j1, e1) out -> In (j2, e2) out -> j1 <> j2 ->
    sel (e_kind e1) = true -> sel (e_kind e2) = true -> newv e1 <> newv e2.
  Proof.
    induction ps as [|[es d] r IH]; simpl; intros i o out G H j1 j2 e1 e2 H1 H2 Nj S1 S2.
    - injection H as <-. destruct H1.
    - apply Forall_cons_iff in G as [Ge Gr]. simpl in Ge.
      destruct (xform_elems m (L / d) (Nat.eqb i 0) o (uniq (voices_of es)) (uniq (staves_of es)) es) as [a|] eqn:X; [|discriminate].
      destruct (merge_from m L (S i) (next_offs o es) r) as [b|] eqn:M; [|discriminate].
      injection H as <-.
      assert (Head : forall e', In e' a -> sel (e_kind e') = true ->
                     exists x, newv e' = Some x /\ x <= lo o + width es).
      { intros e' Hx Hs. destruct (xform_elems_In _ _ _ _ _ _ _ _ X e' Hx) as [e [A [_ R]]].
        rewrite (sel_out sel _ _ _ _ _ _ _ R) in Hs.
        destruct (W_in o es _ e e' Ge A Hs R) as [x [Nx Bx]]. exists x. split; [assumption | lia]. }
      assert (Tail : forall j e', In (j, e') b -> sel (e_kind e') = true ->
                     exists x, newv e' = Some x /\ lo o + width es < x).
      { intros j e' Hx Hs. destruct (window_lower L _ _ _ _ Gr M j e' Hx Hs) as [x [Nx Bx]].
        exists x. split; [assumption|]. pose proof (W_next o es Ge). lia. }
      apply in_app_or in H1 as [H1|H1]; apply in_app_or in H2 as [H2|H2].
      + apply in_map_iff in H1 as [x1 [E1 _]]. apply in_map_iff in H2 as [x2 [E2 _]].
        injection E1 as <- _. injection E2 as <- _. congruence.
      + apply in_map_iff in H1 as [x1 [E1 Hx1]]. injection E1 as _ ->.
        destruct (Head e1 Hx1 S1) as [v1 [N1 B1]]. destruct (Tail j2 e2 H2 S2) as [v2 [N2 B2]].
        rewrite N1, N2. intros E; injection E as E. lia.
      + apply in_map_iff in H2 as [x2 [E2 Hx2]]. injection E2 as _ ->.
        destruct (Head e2 Hx2 S2) as [v2 [N2 B2]]. destruct (Tail j1 e1 H1 S1) as [v1 [N1 B1]].
        rewrite N1, N2. intros E; injection E as E. lia.
      + eapply IH; eauto.
  Qed.

End Window.

Section Coherent.
  Variable m : mode.
  Variable sel : kind -> bool.
  Variable key : elem -> option Z.         (* the number before *)
  Variable newv : elem -> option Z.        (* the number after *)
  Variable good : list elem -> Prop.

  Hypothesis W_inj : forall o es k e1 e2 e1' e2', good es -> In e1 es -> In e2 es ->
    sel (e_kind e1) = true -> sel (e_kind e2) = true ->
    renumber m o (uniq (voices_of es)) (uniq (staves_of es)) (rescale_elem k e1) = Some e1' ->
    renumber m o (uniq (voices_of es)) (uniq (staves_of es)) (rescale_elem k e2) = Some e2' ->
    (newv e1' = newv e2' <-> key e1 = key e2).

  Lemma window_coherent L : forall ps i o out, Forall good (map fst ps) ->
    merge_from m L i o ps = Some out ->
    forall j e1' e2', In (j, e1') out -> In (j, e2') out ->
    sel (e_kind e1') = true -> sel (e_kind e2') = true ->
    exists es d e1 e2, nth_error ps (j - i) = Some (es, d) /\ In e1 es /\ In e2 es /\
      core e1' = core e1 /\ core e2' = core e2 /\ (newv e1' = newv e2' <-> key e1 = key e2).
  Proof.
    induction ps as [|[es d] r IH]; simpl; intros i o out G H j e1' e2' H1 H2 S1 S2.
    - injection H as <-. destruct H1.
    - apply Forall_cons_iff in G as [Ge Gr]. simpl in Ge.
      destruct (xform_elems m (L / d) (Nat.eqb i 0) o (uniq (voices_of es)) (uniq (staves_of es)) es) as [a|] eqn:X; [|discriminate].
      destruct (merge_from m L (S i) (next_offs o es) r) as [b|] eqn:M; [|discriminate].
      injection H as <-.
      apply in_app_or in H1 as [H1|H1]; apply in_app_or in H2 as [H2|H2].
      + apply in_map_iff in H1 as [x1 [E1 Hx1]]. apply in_map_iff in H2 as [x2 [E2 Hx2]].
        injection E1 as <- ->. injection E2 as ->.
        destruct (xform_elems_In _ _ _ _ _ _ _ _ X e1' Hx1) as [e1 [A1 [_ R1]]].
        destruct (xform_elems_In _ _ _ _ _ _ _ _ X e2' Hx2) as [e2 [A2 [_ R2]]].
        rewrite (sel_out sel _ _ _ _ _ _ _ R1) in S1. rewrite (sel_out sel _ _ _ _ _ _ _ R2) in S2.
        exists es, d, e1, e2. rewrite Nat.sub_diag. simpl.
        repeat split; try assumption; try (eapply renumber_core; eauto);
          apply (W_inj o es _ e1 e2 e1' e2' Ge A1 A2 S1 S2 R1 R2).
      + apply in_map_iff in H1 as [x1 [E1 _]]. injection E1 as <- _.
        pose proof (merge_from_tags _ _ _ _ _ _ M _ _ H2). lia.
      + apply in_map_iff in H2 as [x2 [E2 _]]. injection E2 as <- _.
        pose proof (merge_from_tags _ _ _ _ _ _ M _ _ H1). lia.
      + pose proof (merge_from_tags _ _ _ _ _ _ M _ _ H1) as T.
        destruct (IH _ _ _ Gr M j e1' e2' H1 H2 S1 S2) as [es' [d' [e1 [e2 [N R]]]]].
        exists es', d', e1, e2. split; [|exact R].
        replace (j - i)%nat with (S (j - S i))%nat by lia. exact N.
  Qed.
End Coherent.

(* ---- the four instances *)

Definition new_staff1 (e : elem) : option Z := e_staff e.

Lemma Some_add_iff a b c : Some (a + c) = Some (b + c) <-> Some a = Some b.
Proof. split; intros H; injection H as H; f_equal; lia. Qed.

(* "voice" mode, voice numbers *)
Lemma voice_W_in o es k e e' : voices_ok es -> In e es -> is_generic (e_kind e) = true ->
  renumber MVoice o (uniq (voices_of es)) (uniq (staves_of es)) (rescale_elem k e) = Some e' ->
  exists x, e_voice e' = Some x /\ o_voice o < x <= o_voice o + maxv es.
Proof.
  intros G He S. unfold renumber. simpl. rewrite S.
  destruct (G e He S) as [v [V P]]. rewrite V. intros H; injection H as <-. simpl.
  exists (v + o_voice o). split; [reflexivity|].
  pose proof (zmax_list_ge 1 (voices_of es) v (voices_of_In es e v He S V)). unfold maxv. lia.
Qed.

Lemma voice_W_inj o es k e1 e2 e1' e2' : voices_ok es -> In e1 es -> In e2 es ->
  is_generic (e_kind e1) = true -> is_generic (e_kind e2) = true ->
  renumber MVoice o (uniq (voices_of es)) (uniq (staves_of es)) (rescale_elem k e1) = Some e1' ->
  renumber MVoice o (uniq (voices_of es)) (uniq (staves_of es)) (rescale_elem k e2) = Some e2' ->
  (e_voice e1' = e_voice e2' <-> e_voice e1 = e_voice e2).
Proof.
  intros G H1 H2 S1 S2. unfold renumber. simpl. rewrite S1, S2.
  destruct (G e1 H1 S1) as [v1 [V1 _]]. destruct (G e2 H2 S2) as [v2 [V2 _]]. rewrite V1, V2.
  intros R1 R2; injection R1 as <-; injection R2 as <-. simpl. apply Some_add_iff.
Qed.

(* "staff" mode, staff numbers (a missing staff counted as staff 1) *)
Lemma staff_W_in o es k e e' : staves_ok es -> In e es -> is_staffed (e_kind e) = true ->
  renumber MStaff o (uniq (voices_of es)) (uniq (staves_of es)) (rescale_elem k e) = Some e' ->
  exists x, e_staff e' = Some x /\ o_staff o < x <= o_staff o + maxs es.
Proof.
  intros G He S. unfold renumber. simpl. rewrite S. intros H; injection H as <-. simpl.
  exists (staff1 e + o_staff o). split; [reflexivity|]. try rewrite staff1_rescale.
  pose proof (G e He S). pose proof (zmax_list_ge 1 (staves_of es) _ (staves_of_In es e He S)).
  unfold maxs. lia.
Qed.

Lemma staff_W_inj o es k e1 e2 e1' e2' : staves_ok es -> In e1 es -> In e2 es ->
  is_staffed (e_kind e1) = true -> is_staffed (e_kind e2) = true ->
  renumber MStaff o (uniq (voices_of es)) (uniq (staves_of es)) (rescale_elem k e1) = Some e1' ->
  renumber MStaff o (uniq (voices_of es)) (uniq (staves_of es)) (rescale_elem k e2) = Some e2' ->
  (e_staff e1' = e_staff e2' <-> Some (staff1 e1) = Some (staff1 e2)).
Proof.
  intros G H1 H2 S1 S2. unfold renumber. simpl. rewrite S1, S2.
  intros R1 R2; injection R1 as <-; injection R2 as <-. simpl. try rewrite !staff1_rescale.
  apply Some_add_iff.
Qed.

(* "auto" mode, staff numbers: no hypothesis on the part *)
Lemma auto_staff_of o uv us e e' : is_staffed (e_kind e) = true ->
  renumber MAuto o uv us e = Some e' -> e_staff e' = Some (o_nstaves o + 1 + rank (staff1 e) us).
Proof.
  unfold renumber. intros S. rewrite S.
  destruct (is_generic (e_kind e)); [destruct (e_voice e); [|discriminate]|];
    intros H; injection H as <-; reflexivity.
Qed.

Lemma auto_voice_of o uv us e e' v : is_generic (e_kind e) = true -> e_voice e = Some v ->
  renumber MAuto o uv us e = Some e' -> e_voice e' = Some (4 * o_nstaves o + 1 + rank v uv).
Proof.
  unfold renumber. intros S V. rewrite S, V.
  destruct (is_staffed (e_kind e)); intros H; injection H as <-; reflexivity.
Qed.

Lemma auto_voice_some o uv us e e' : is_generic (e_kind e) = true ->
  renumber MAuto o uv us e = Some e' -> exists v, e_voice e = Some v.
Proof.
  unfold renumber. intros S. rewrite S. destruct (e_voice e); [eauto | discriminate].
Qed.

Lemma auto_staff_W_in o es k e e' : True -> In e es -> is_staffed (e_kind e) = true ->
  renumber MAuto o (uniq (voices_of es)) (uniq (staves_of es)) (rescale_elem k e) = Some e' ->
  exists x, e_staff e' = Some x /\ o_nstaves o < x <= o_nstaves o + nstaves es.
Proof.
  intros _ He S R. rewrite (auto_staff_of _ _ _ (rescale_elem k e) _ S R). rewrite staff1_rescale.
  eexists; split; [reflexivity|].
  assert (Hin : In (staff1 e) (uniq (staves_of es))) by (apply uniq_In, staves_of_In; assumption).
  pose proof (rank_lt_length _ _ Hin). pose proof (rank_nonneg (staff1 e) (uniq (staves_of es))).
  unfold nstaves. lia.
Qed.

Lemma auto_staff_W_inj o es k e1 e2 e1' e2' : True -> In e1 es -> In e2 es ->
  is_staffed (e_kind e1) = true -> is_staffed (e_kind e2) = true ->
  renumber MAuto o (uniq (voices_of es)) (uniq (staves_of es)) (rescale_elem k e1) = Some e1' ->
  renumber MAuto o (uniq (voices_of es)) (uniq (staves_of es)) (rescale_elem k e2) = Some e2' ->
  (e_staff e1' = e_staff e2' <-> Some (staff1 e1) = Some (staff1 e2)).
Proof.
  intros _ H1 H2 S1 S2 R1 R2.
  rewrite (auto_staff_of _ _ _ (rescale_elem k e1) _ S1 R1), (auto_staff_of _ _ _ (rescale_elem k e2) _ S2 R2), !staff1_rescale.
  assert (I1 : In (staff1 e1) (uniq (staves_of es))) by (apply uniq_In, staves_of_In; assumption).
  assert (I2 : In (staff1 e2) (uniq (staves_of es))) by (apply uniq_In, staves_of_In; assumption).
  split; intros E; injection E as E.
  - f_equal. apply (rank_inj _ _ _ I1 I2). lia.
  - rewrite E. reflexivity.
Qed.

(* "auto" mode, voice numbers: needs at most four voices per staff in every part *)
Lemma auto_voice_W_in o es k e e' : four_per_staff es -> In e es -> is_generic (e_kind e) = true ->
  renumber MAuto o (uniq (voices_of es)) (uniq (staves_of es)) (rescale_elem k e) = Some e' ->
  exists x, e_voice e' = Some x /\ 4 * o_nstaves o < x <= 4 * o_nstaves o + nvoices es.
Proof.
  intros _ He S R. destruct (auto_voice_some _ _ _ (rescale_elem k e) _ S R) as [v V].
  rewrite (auto_voice_of _ _ _ (rescale_elem k e) _ v S V R). eexists; split; [reflexivity|].
  assert (Hin : In v (uniq (voices_of es))) by (apply uniq_In; eapply voices_of_In; eauto).
  pose proof (rank_lt_length _ _ Hin). pose proof (rank_nonneg v (uniq (voices_of es))).
  unfold nvoices. lia.
Qed.

Lemma auto_voice_W_inj o es k e1 e2 e1' e2' : True -> In e1 es -> In e2 es ->
  is_generic (e_kind e1) = true -> is_generic (e_kind e2) = true ->
  renumber MAuto o (uniq (voices_of es)) (uniq (staves_of es)) (rescale_elem k e1) = Some e1' ->
  renumber MAuto o (uniq (voices_of es)) (uniq (staves_of es)) (rescale_elem k e2) = Some e2' ->
  (e_voice e1' = e_voice e2' <-> e_voice e1 = e_voice e2).
Proof.
  intros _ H1 H2 S1 S2 R1 R2.
  destruct (auto_voice_some _ _ _ (rescale_elem k e1) _ S1 R1) as [v1 V1]. destruct (auto_voice_some _ _ _ (rescale_elem k e2) _ S2 R2) as [v2 V2].
  rewrite (auto_voice_of _ _ _ (rescale_elem k e1) _ v1 S1 V1 R1), (auto_voice_of _ _ _ (rescale_elem k e2) _ v2 S2 V2 R2).
  simpl in V1, V2. rewrite V1, V2.
  assert (I1 : In v1 (uniq (voices_of es))) by (apply uniq_In; exact (voices_of_In es e1 v1 H1 S1 V1)).
  assert (I2 : In v2 (uniq (voices_of es))) by (apply uniq_In; exact (voices_of_In es e2 v2 H2 S2 V2)).
  split; intros E; injection E as E.
  - f_equal. apply (rank_inj _ _ _ I1 I2). lia.
  - rewrite E. reflexivity.
Qed.

(* ---- the statements on merge_parts *)

Definition parts_good (good : list elem -> Prop) (ps : list part) : Prop := Forall good (map fst ps).

Lemma all_good_True (ps : list part) : parts_good (fun _ => True) ps.
Proof. unfold parts_good. apply Forall_forall. auto. Qed.

Lemma voices_disjoint_lemma ts L out : merge_parts MVoice ts = RMerged L out ->
  parts_good voices_ok (flat_map flatten ts) ->
  forall j1 j2 e1 e2, In (j1, e1) out -> In (j2, e2) out -> j1 <> j2 -> generic e1 -> generic e2 ->
  e_voice e1 <> e_voice e2.
Proof.
  intros H G. destruct (merge_parts_merged _ _ _ _ H) as [_ [M _]].
  refine (window_disjoint MVoice is_generic e_voice o_voice maxv voices_ok _ _ _ L _ 0%nat (mkOffs 0 0 0) out G M).
  - intros es Ge. pose proof (maxv_pos es Ge). lia.
  - intros o es Ge. simpl. lia.
  - intros o es k e e' Ge. apply voice_W_in, Ge.
Qed.

Lemma voices_coherent_lemma ts L out : merge_parts MVoice ts = RMerged L out ->
  parts_good voices_ok (flat_map flatten ts) ->
  forall j e1' e2', In (j, e1') out -> In (j, e2') out -> generic e1' -> generic e2' ->
  exists es d e1 e2, nth_error (flat_map flatten ts) j = Some (es, d) /\ In e1 es /\ In e2 es /\
    core e1' = core e1 /\ core e2' = core e2 /\ (e_voice e1' = e_voice e2' <-> e_voice e1 = e_voice e2).
Proof.
  intros H G j e1' e2' H1 H2 S1 S2. destruct (merge_parts_merged _ _ _ _ H) as [_ [M _]].
  destruct (window_coherent MVoice is_generic e_voice e_voice voices_ok
              (fun o es k e1 e2 a b Ge => voice_W_inj o es k e1 e2 a b Ge)
              L _ 0%nat (mkOffs 0 0 0) out G M j e1' e2' H1 H2 S1 S2) as [es [d [e1 [e2 R]]]].
  exists es, d, e1, e2. rewrite Nat.sub_0_r in R. exact R.
Qed.

Lemma staves_disjoint_lemma ts L out : merge_parts MStaff ts = RMerged L out ->
  parts_good staves_ok (flat_map flatten ts) ->
  forall j1 j2 e1 e2, In (j1, e1) out -> In (j2, e2) out -> j1 <> j2 -> staffed e1 -> staffed e2 ->
  e_staff e1 <> e_staff e2.
Proof.
  intros H G. destruct (merge_parts_merged _ _ _ _ H) as [_ [M _]].
  refine (window_disjoint MStaff is_staffed e_staff o_staff maxs staves_ok _ _ _ L _ 0%nat (mkOffs 0 0 0) out G M).
  - intros es Ge. pose proof (maxs_pos es Ge). lia.
  - intros o es Ge. simpl. lia.
  - intros o es k e e' Ge. apply staff_W_in, Ge.
Qed.

Lemma some_staff1_iff (P : Prop) e1 e2 : (P <-> Some (staff1 e1) = Some (staff1 e2)) -> (P <-> staff1 e1 = staff1 e2).
Proof. intros [A B]. split; intros E; [specialize (A E); congruence | apply B; congruence]. Qed.

Lemma staves_coherent_lemma ts L out : merge_parts MStaff ts = RMerged L out ->
  parts_good staves_ok (flat_map flatten ts) ->
  forall j e1' e2', In (j, e1') out -> In (j, e2') out -> staffed e1' -> staffed e2' ->
  exists es d e1 e2, nth_error (flat_map flatten ts) j = Some (es, d) /\ In e1 es /\ In e2 es /\
    core e1' = core e1 /\ core e2' = core e2 /\ (e_staff e1' = e_staff e2' <-> staff1 e1 = staff1 e2).
Proof.
  intros H G j e1' e2' H1 H2 S1 S2. destruct (merge_parts_merged _ _ _ _ H) as [_ [M _]].
  destruct (window_coherent MStaff is_staffed (fun e => Some (staff1 e)) e_staff staves_ok
              (fun o es k e1 e2 a b Ge => staff_W_inj o es k e1 e2 a b Ge)
              L _ 0%nat (mkOffs 0 0 0) out G M j e1' e2' H1 H2 S1 S2)
    as [es [d [e1 [e2 [N [A1 [A2 [C1 [C2 I]]]]]]]]].
  exists es, d, e1, e2. rewrite Nat.sub_0_r in N. repeat split; try assumption;
    apply (some_staff1_iff _ _ _ I).
Qed.

Lemma auto_staves_disjoint_lemma ts L out : merge_parts MAuto ts = RMerged L out ->
  forall j1 j2 e1 e2, In (j1, e1) out -> In (j2, e2) out -> j1 <> j2 -> staffed e1 -> staffed e2 ->
  e_staff e1 <> e_staff e2.
Proof.
  intros H. destruct (merge_parts_merged _ _ _ _ H) as [_ [M _]].
  refine (window_disjoint MAuto is_staffed e_staff o_nstaves nstaves (fun _ => True) _ _ _ L _ 0%nat (mkOffs 0 0 0) out (all_good_True _) M).
  - intros es _. unfold nstaves. lia.
  - intros o es _. simpl. lia.
  - intros o es k e e' Ge. apply auto_staff_W_in, Ge.
Qed.

Lemma auto_staves_coherent_lemma ts L out : merge_parts MAuto ts = RMerged L out ->
  forall j e1' e2', In (j, e1') out -> In (j, e2') out -> staffed e1' -> staffed e2' ->
  exists es d e1 e2, nth_error (flat_map flatten ts) j = Some (es, d) /\ In e1 es /\ In e2 es /\
    core e1' = core e1 /\ core e2' = core e2 /\ (e_staff e1' = e_staff e2' <-> staff1 e1 = staff1 e2).
Proof.
  intros H j e1' e2' H1 H2 S1 S2. destruct (merge_parts_merged _ _ _ _ H) as [_ [M _]].
  destruct (window_coherent MAuto is_staffed (fun e => Some (staff1 e)) e_staff (fun _ => True)
              (fun o es k e1 e2 a b Ge => auto_staff_W_inj o es k e1 e2 a b Ge)
              L _ 0%nat (mkOffs 0 0 0) out (all_good_True _) M j e1' e2' H1 H2 S1 S2)
    as [es [d [e1 [e2 [N [A1 [A2 [C1 [C2 I]]]]]]]]].
  exists es, d, e1, e2. rewrite Nat.sub_0_r in N. repeat split; try assumption;
    apply (some_staff1_iff _ _ _ I).
Qed.

Lemma auto_voices_disjoint_lemma ts L out : merge_parts MAuto ts = RMerged L out ->
  parts_good four_per_staff (flat_map flatten ts) ->
  forall j1 j2 e1 e2, In (j1, e1) out -> In (j2, e2) out -> j1 <> j2 -> generic e1 -> generic e2 ->
  e_voice e1 <> e_voice e2.
Proof.
  intros H G. destruct (merge_parts_merged _ _ _ _ H) as [_ [M _]].
  refine (window_disjoint MAuto is_generic e_voice (fun o => 4 * o_nstaves o) nvoices four_per_staff _ _ _ L _ 0%nat (mkOffs 0 0 0) out G M).
  - intros es _. unfold nvoices. lia.
  - intros o es Ge. unfold four_per_staff in Ge.
    change (o_nstaves (next_offs o es)) with (o_nstaves o + nstaves es). lia.
  - intros o es k e e' Ge. apply auto_voice_W_in, Ge.
Qed.

Lemma auto_voices_coherent_lemma ts L out : merge_parts MAuto ts = RMerged L out ->
  forall j e1' e2', In (j, e1') out -> In (j, e2') out -> generic e1' -> generic e2' ->
  exists es d e1 e2, nth_error (flat_map flatten ts) j = Some (es, d) /\ In e1 es /\ In e2 es /\
    core e1' = core e1 /\ core e2' = core e2 /\ (e_voice e1' = e_voice e2' <-> e_voice e1 = e_voice e2).
Proof.
  intros H j e1' e2' H1 H2 S1 S2. destruct (merge_parts_merged _ _ _ _ H) as [_ [M _]].
  destruct (window_coherent MAuto is_generic e_voice e_voice (fun _ => True)
              (fun o es k e1 e2 a b Ge => auto_voice_W_inj o es k e1 e2 a b Ge)
              L _ 0%nat (mkOffs 0 0 0) out (all_good_True _) M j e1' e2' H1 H2 S1 S2) as [es [d [e1 [e2 R]]]].
  exists es, d, e1, e2. rewrite Nat.sub_0_r in R. exact R.
Qed.

(* the merge never raises when every GenericNote carries a voice, and never in "staff" mode *)
Lemma merge_total_lemma m ts : (2 <= List.length (flat_map flatten ts))%nat ->
  (m = MStaff \/ forall p e, In p (flat_map flatten ts) -> In e (fst p) -> generic e -> e_voice e <> None) ->
  exists out, merge_parts m ts = RMerged (merge_lcm (flat_map flatten ts)) out.
Proof.
  intros Hl H. unfold merge_parts. destruct (flat_map flatten ts) as [|p [|q r]] eqn:F; simpl in Hl; try lia.
  destruct (merge_from_total m (merge_lcm (p :: q :: r)) (p :: q :: r) 0%nat (mkOffs 0 0 0) H) as [out ->].
  eauto.
Qed.
