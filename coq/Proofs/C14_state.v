(* C14 -- state carried between calls: what is seen after ANY history is a function of the current
   state; variants that remember something (a setter that returns early on an unchanged value, a
   pedal stream read once, a track map made once, an array of releases that keeps an integer dtype)
   are refuted by examples, so the statements are not vacuous. *)
From PV Require Import Lib.Base Lib.Round Model.C12 Model.C14 Model.C14_Note Model.C14_Trk Model.C14_State
  Proofs.C14_so Proofs.C14 Proofs.C14_hist Proofs.C14_trk.
From Coq Require Import QArith Qround ZArith List Lia Sorted.
#[local] Open Scope Z_scope.

(* ---- (1) a performed part *)
Lemma observation_after_history_lemma : forall ppq mpq p ss s,
  List.length (p_so p) = List.length (p_notes p) ->
  let q := run_history p (ss ++ [s]) in
  let so := sound_offs (p_thr q) (p_notes q) (p_ctrls q) in
  observe ppq mpq q = (so, map (na_row ppq mpq) (combine (p_notes q) so)).
Proof.
  intros ppq mpq p ss s W. cbv zeta. unfold observe, note_array.
  rewrite (history_independent_lemma p ss s W). reflexivity.
Qed.

Lemma observations_agree_lemma : forall ppq mpq p p' ss ss' s s',
  List.length (p_so p) = List.length (p_notes p) ->
  List.length (p_so p') = List.length (p_notes p') ->
  let q := run_history p (ss ++ [s]) in
  let q' := run_history p' (ss' ++ [s']) in
  p_notes q = p_notes q' -> p_ctrls q = p_ctrls q' -> p_thr q = p_thr q' ->
  observe ppq mpq q = observe ppq mpq q'.
Proof.
  intros ppq mpq p p' ss ss' s s' W W'. cbv zeta. intros En Ec Et.
  rewrite (observation_after_history_lemma ppq mpq p ss s W), (observation_after_history_lemma ppq mpq p' ss' s' W').
  cbv zeta. rewrite En, Ec, Et. reflexivity.
Qed.

(* a setter that returns early when the value is the one the part already has *)
Definition set_threshold_memo (p : part) (t : Z) : part :=
  if (t =? p_thr p) then p else set_threshold p t.
Definition apply_step_memo (p : part) (s : step) : part :=
  match s with
  | SetThr t => set_threshold_memo p t
  | SetCtrls cs t => set_threshold_memo (mkPart (p_notes p) cs (p_thr p) (p_so p)) t
  | SetNotes ns t => set_threshold_memo (mkPart ns (p_ctrls p) (p_thr p) (stale ns (p_so p))) t
  | Rebuild cs t => new_part_carrying t (p_notes p) (p_so p) cs
  | RoundTrip ppq mpq => from_note_array (note_array ppq mpq p)
  end.
(* a part that reads the pedal events once, at construction (the controls assigned later are stored,
   the sounding ends keep following the old ones) *)
Definition apply_step_cached (c0 : list ctrl) (p : part) (s : step) : part :=
  match s with
  | SetCtrls cs t => mkPart (p_notes p) cs t (sound_offs t (p_notes p) c0)
  | _ => apply_step p s
  end.

Lemma memo_setter_refuted_lemma :
  exists p ss s, List.length (p_so p) = List.length (p_notes p) /\
    let q := fold_left apply_step_memo (ss ++ [s]) p in
    p_so q <> sound_offs (p_thr q) (p_notes q) (p_ctrls q).
Proof.
  exists (new_part 64 hx_notes hx_pedal), [], (SetCtrls hx_other 64). split; [reflexivity|].
  vm_compute. intros H. discriminate H.
Qed.

Lemma cached_pedal_refuted_lemma :
  exists p ss s, List.length (p_so p) = List.length (p_notes p) /\
    let q := fold_left (apply_step_cached (p_ctrls p)) (ss ++ [s]) p in
    p_so q <> sound_offs (p_thr q) (p_notes q) (p_ctrls q).
Proof.
  exists (new_part 64 hx_notes hx_pedal), [SetThr 10], (SetCtrls hx_other 64). split; [reflexivity|].
  vm_compute. intros H. discriminate H.
Qed.

(* an array of the releases that takes the integer dtype when every release is a whole number:
   every sounding end written into it is truncated *)
Definition is_whole (q : Q) : bool := Qeq_bool q (inject_Z (Qfloor q)).
Definition sound_offs_intdtype (thr : Z) (ns : list note) (cs : list ctrl) : list Q :=
  if forallb (fun n => is_whole (n_off n)) ns
  then map (fun q => inject_Z (Qfloor q)) (sound_offs thr ns cs)
  else sound_offs thr ns cs.
Definition ix_notes : list note := [mkNote 60 64 0 2; mkNote 62 64 0 1; mkNote 62 64 (3#2) 3].
Definition ix_ctrls : list ctrl := [mkCtrl 64 (1#2) 100; mkCtrl 7 1 90; mkCtrl 64 (5#2) 0].
Lemma int_dtype_refuted_lemma :
  forallb valid_note ix_notes = true /\
  sound_offs 64 ix_notes ix_ctrls = [5#2; 3#2; 3]%Q /\
  sound_offs_intdtype 64 ix_notes ix_ctrls = [2; 1; 3]%Q /\
  sound_offs_intdtype 64 ix_notes ix_ctrls <> sound_offs 64 ix_notes ix_ctrls.
Proof. vm_compute. repeat split; try reflexivity. intros H. discriminate H. Qed.

(* ---- (2) a Performance *)
Lemma prun_app ps ss ss' : prun ps (ss ++ ss') = prun (prun ps ss) ss'.
Proof. unfold prun. apply fold_left_app. Qed.

Lemma perf_history_sanitize_lemma ps ss : prun ps (ss ++ [PSanitize]) = sanitize (prun ps ss).
Proof. rewrite prun_app. reflexivity. Qed.

(* whatever was done to the performance before, the renumbering partitions the events the parts hold NOW *)
Lemma perf_history_partition_lemma ps ss k1 k2 a b x y :
  let cur := prun ps ss in
  let fin := prun ps (ss ++ [PSanitize]) in
  nth_error (all_pairs 0 cur) k1 = Some a -> nth_error (all_pairs 0 cur) k2 = Some b ->
  nth_error (map snd (all_pairs 0 fin)) k1 = Some x -> nth_error (map snd (all_pairs 0 fin)) k2 = Some y ->
  map shape fin = map shape cur /\ (x = y <-> a = b) /\ (fst a <> fst b -> x <> y).
Proof.
  cbv zeta. rewrite perf_history_sanitize_lemma. intros Ha Hb Hx Hy.
  split; [apply sanitize_shape_lemma|].
  pose proof (sanitize_partition_lemma (prun ps ss) k1 k2 a b x y Ha Hb Hx Hy) as P.
  split; [exact P|]. intros Hne E. apply P in E. subst. auto.
Qed.

(* a performance that makes its track map once, at construction, and renumbers with it later *)
Definition papply_memo (ids : list (Z * Z)) (ps : list ptracks) (s : pstep) : list ptracks :=
  match s with
  | PSanitize => renum ids 0 ps
  | _ => papply ps s
  end.
Definition px_parts : list ptracks := [([Some 0; Some 1], [Some 0], []); ([Some 0], [], [])].
Definition px_new : ptracks := ([Some 2; Some 0], [], []).
Lemma perf_memo_refuted_lemma :
  let ps := sanitize px_parts in
  let ids := usort (all_pairs 0 px_parts) in
  map snd (all_pairs 0 (prun ps [PAppend px_new; PSanitize])) = [0; 1; 0; 2; 4; 3] /\
  map snd (all_pairs 0 (fold_left (papply_memo ids) [PAppend px_new; PSanitize] ps)) = [0; 1; 0; -1; -1; -1].
Proof. vm_compute. split; reflexivity. Qed.

(* ---- num_tracks: the number of distinct (part, track) pairs; sanitising does not change it, and it is
   the number of distinct new numbers *)
Definition plt (a b : Z * Z) : Prop := pair_ltb a b = true.

Lemma pair_ltb_trans a b c : plt a b -> plt b c -> plt a c.
Proof.
  unfold plt, pair_ltb. destruct a as [a1 a2], b as [b1 b2], c as [c1 c2]. simpl.
  rewrite !orb_true_iff, !andb_true_iff, !Z.ltb_lt, !Z.eqb_eq. lia.
Qed.
Lemma pair_ltb_irrefl a : ~ plt a a.
Proof.
  unfold plt, pair_ltb. destruct a as [a1 a2]. simpl.
  rewrite orb_true_iff, andb_true_iff, !Z.ltb_lt, Z.eqb_eq. lia.
Qed.
Lemma pair_tricho a b : pair_eqb a b = false -> pair_ltb a b = false -> plt b a.
Proof.
  unfold plt, pair_eqb, pair_ltb. destruct a as [a1 a2], b as [b1 b2]. simpl.
  rewrite !andb_false_iff, !orb_false_iff, !andb_false_iff, orb_true_iff, andb_true_iff, !Z.ltb_lt, !Z.ltb_ge, !Z.eqb_eq, !Z.eqb_neq. lia.
Qed.

Lemma insert_u_sorted a l : StronglySorted plt l -> StronglySorted plt (insert_u a l).
Proof.
  induction l as [|b r IH]; intros S; simpl.
  - constructor; constructor.
  - destruct (pair_eqb a b) eqn:E; [exact S|].
    destruct (pair_ltb a b) eqn:L.
    + constructor; [exact S|]. inversion S as [|? ? Sr Fb]; subst. constructor; [exact L|].
      eapply Forall_impl; [|exact Fb]. intros c Hc. eapply pair_ltb_trans; eauto.
    + inversion S as [|? ? Sr Fb]; subst. constructor; [apply IH; exact Sr|].
      apply Forall_forall. intros c Hc. apply insert_u_In in Hc as [->|Hc].
      * apply pair_tricho; assumption.
      * rewrite Forall_forall in Fb. apply Fb. exact Hc.
Qed.
Lemma usort_sorted l : StronglySorted plt (usort l).
Proof. induction l as [|a r IH]; simpl; [constructor|apply insert_u_sorted; exact IH]. Qed.
Lemma sorted_NoDup l : StronglySorted plt l -> NoDup l.
Proof.
  induction l as [|a r IH]; intros S; [constructor|]. inversion S as [|? ? Sr Fa]; subst.
  constructor; [|apply IH; exact Sr]. intros Hin. rewrite Forall_forall in Fa.
  apply (pair_ltb_irrefl a). apply Fa. exact Hin.
Qed.
Lemma usort_NoDup l : NoDup (usort l).
Proof. apply sorted_NoDup, usort_sorted. Qed.

Lemma NoDup_map_inj_in {A B} (f : A -> B) l :
  (forall x y, In x l -> In y l -> f x = f y -> x = y) -> NoDup l -> NoDup (map f l).
Proof.
  induction l as [|a r IH]; intros Hinj N; simpl; [constructor|]. inversion N as [|? ? Hn Nr]; subst.
  constructor.
  - intros Hin. apply in_map_iff in Hin as (b & E & Hb). apply Hn.
    assert (b = a) by (apply Hinj; [right; exact Hb|left; reflexivity|exact E]). subst. exact Hb.
  - apply IH; [|exact Nr]. intros x y Hx Hy. apply Hinj; right; assumption.
Qed.

Lemma usort_map_length (f : Z * Z -> Z * Z) l :
  (forall x y, In x l -> In y l -> f x = f y -> x = y) ->
  List.length (usort (map f l)) = List.length (usort l).
Proof.
  intros Hinj.
  assert (N1 : NoDup (map f (usort l))).
  { apply NoDup_map_inj_in; [|apply usort_NoDup]. intros x y Hx Hy. apply Hinj; apply usort_In; assumption. }
  assert (I1 : incl (map f (usort l)) (usort (map f l))).
  { intros z Hz. apply in_map_iff in Hz as (x & <- & Hx). apply usort_In. apply in_map. apply usort_In. exact Hx. }
  assert (I2 : incl (usort (map f l)) (map f (usort l))).
  { intros z Hz. apply (proj1 (usort_In _ _)) in Hz. apply in_map_iff in Hz as (x & <- & Hx). apply in_map. apply usort_In. exact Hx. }
  pose proof (NoDup_incl_length N1 I1) as L1.
  pose proof (NoDup_incl_length (usort_NoDup (map f l)) I2) as L2.
  rewrite map_length in L1, L2. lia.
Qed.

Lemma num_tracks_sanitize_lemma ps : num_tracks (sanitize ps) = num_tracks ps.
Proof.
  unfold num_tracks. rewrite all_pairs_sanitize. f_equal. apply usort_map_length.
  intros x y Hx Hy E. inversion E as [[E1 E2]].
  apply (tmap_inj (usort (all_pairs 0 ps))); [apply usort_In; exact Hx|apply usort_In; exact Hy|exact E2].
Qed.

(* the numbers in use after sanitising are exactly 0 .. num_tracks - 1, each of them used *)
Lemma usort_snd_length l :
  (forall a b, In a l -> In b l -> snd a = snd b -> a = b) ->
  List.length (nodup Z.eq_dec (map snd l)) = List.length (usort l).
Proof.
  intros Hinj.
  assert (N1 : NoDup (map snd (usort l))).
  { apply NoDup_map_inj_in; [|apply usort_NoDup]. intros x y Hx Hy. apply Hinj; apply usort_In; assumption. }
  assert (I1 : incl (map snd (usort l)) (nodup Z.eq_dec (map snd l))).
  { intros z Hz. apply in_map_iff in Hz as (x & <- & Hx). apply nodup_In. apply in_map. apply usort_In. exact Hx. }
  assert (I2 : incl (nodup Z.eq_dec (map snd l)) (map snd (usort l))).
  { intros z Hz. apply (proj1 (nodup_In _ _ _)) in Hz. apply in_map_iff in Hz as (x & <- & Hx). apply in_map. apply usort_In. exact Hx. }
  pose proof (NoDup_incl_length N1 I1) as L1.
  pose proof (NoDup_incl_length (NoDup_nodup Z.eq_dec (map snd l)) I2) as L2.
  rewrite map_length in L1, L2. lia.
Qed.

Lemma num_tracks_counts_new_numbers_lemma ps :
  num_tracks ps = Z.of_nat (List.length (nodup Z.eq_dec (new_numbers ps))).
Proof.
  rewrite <- (num_tracks_sanitize_lemma ps). unfold num_tracks, new_numbers. f_equal. symmetry.
  apply usort_snd_length. rewrite all_pairs_sanitize.
  intros a b Ha Hb E. apply in_map_iff in Ha as (a0 & <- & Ha0). apply in_map_iff in Hb as (b0 & <- & Hb0).
  simpl in E. assert (a0 = b0).
  { apply (tmap_inj (usort (all_pairs 0 ps))); [apply usort_In; exact Ha0|apply usort_In; exact Hb0|exact E]. }
  subst. reflexivity.
Qed.
