(* C17 -- shared tactics and small list lemmas. *)
From PV Require Import Lib.Base.
#[local] Open Scope Z_scope.

(* boolean comparisons in hypotheses -> propositions (lia does not always see through
   comparisons of uninterpreted terms) *)
Ltac zb := repeat match goal with
  | H : (_ <? _) = true |- _ => apply Z.ltb_lt in H
  | H : (_ <? _) = false |- _ => apply Z.ltb_ge in H
  | H : (_ <=? _) = true |- _ => apply Z.leb_le in H
  | H : (_ <=? _) = false |- _ => apply Z.leb_gt in H
  | H : (_ =? _) = true |- _ => apply Z.eqb_eq in H
  | H : (_ =? _) = false |- _ => apply Z.eqb_neq in H
  end.

Lemma zrange_In_inv : forall n lo x, In x (zrange lo n) -> lo <= x < lo + Z.of_nat n.
Proof.
  induction n as [|n IH]; intros lo x; cbn; [intros []|].
  intros [<-|H]; [lia|]. specialize (IH _ _ H). lia.
Qed.
