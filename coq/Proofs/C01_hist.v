From PV Require Import Lib.Base Gen.C01_ClassTree Model.C01 Model.C01_Spec Model.C01_Idx Model.C01_Hist Proofs.C01_lib Proofs.C01_inv Proofs.C01_main Proofs.C01_idx.
From Coq Require Import ZArith List Bool Lia.
Import ListNotations.
Open Scope Z_scope.

Lemma observe_current_lemma evs : forall p, InvW p -> mixed_run p (ops_of evs) ->
  observe step_idx (p, qtab p) evs = expected p evs.
Proof.
  induction evs as [|e r IH]; intros p I M; [reflexivity|].
  destruct e as [o|t|t]; cbn [observe expected ops_of] in *.
  - destruct M as [VR M]. rewrite (step_idx_eq_lemma p o I VR). cbn [fst snd]. apply IH; auto.
    destruct VR as [V|R]; [apply step_invw_lemma; auto | rewrite (rejected_step p o R); auto].
  - cbn [fst snd]. f_equal. apply IH; auto.
  - cbn [fst snd]. f_equal. apply IH; auto.
Qed.

Lemma history_answers_current_lemma q0 evs : mixed_run (init q0) (ops_of evs) ->
  observe step_idx (init_idx q0) evs = expected (init q0) evs.
Proof. intros M. apply (observe_current_lemma evs (init q0)); auto. apply inv_init_lemma. Qed.

Lemma history_answers_memo_refuted_lemma :
  mixed_run (init 1) (ops_of ex_events) /\
  observe step_idx (init_idx 1) ex_events = [2; 2; 3; 3; 1] /\
  expected (init 1) ex_events = [2; 2; 3; 3; 1] /\
  observe step_memo (init_idx 1) ex_events = [2; 2; 2; 3; 1].
Proof.
  split; [|split; [|split]; vm_compute; reflexivity].
  cbn [ops_of ex_events mixed_run]. repeat split; left; cbn; lia.
Qed.
