(* C11 -- add_measures: tiling, numbering, lengths *)
From PV Require Import Lib.Base Lib.Round Gen.C11_Tables Model.C11 Model.C11_Spec Proofs.C11_lib.
From Coq Require Import QArith Qabs Qround Qminmax Sorting.Sorted.
#[local] Open Scope Z_scope.

Lemma full_end_gt bl last pos : pos < full_end bl last pos.
Proof. unfold full_end. lia. Qed.

Lemma first_in_some ex lo hi m : first_in ex lo hi = Some m -> In m ex /\ lo <= fst m < hi.
Proof. unfold first_in. intros H. apply find_some in H as [H1 H2]. split; [assumption|lia]. Qed.

Lemma find_first_sorted {A} (R : A -> A -> Prop) (p : A -> bool) : forall l y x,
  StronglySorted R l -> find p l = Some y -> In x l -> p x = true -> x = y \/ R y x.
Proof.
  induction l as [|z l IH]; intros y x S F Hin Hp; [contradiction|].
  inversion S as [|? ? S' Fz]; subst. simpl in F.
  destruct (p z) eqn:Pz.
  - injection F as <-. destruct Hin as [->|Hin]; [left; reflexivity|].
    right. rewrite Forall_forall in Fz. apply Fz; assumption.
  - destruct Hin as [->|Hin]; [congruence|]. eapply IH; eassumption.
Qed.

Lemma first_in_none ex lo hi x : first_in ex lo hi = None -> In x ex -> ~ (lo <= fst x < hi).
Proof.
  unfold first_in. intros F Hin H.
  pose proof (find_none _ _ F x Hin) as N. simpl in N. lia.
Qed.

Lemma last_end_m_cons m r d : last_end_m (m :: r) d = last_end_m r (m_end m).
Proof. unfold last_end_m. destruct r as [|m' r']; [reflexivity|]. rewrite last_cons. reflexivity. Qed.

Definition starts_free (ex : list (Z * Z)) (m : meas) : Prop :=
  m_old m = false -> forall x, In x ex -> ~ (m_start m <= fst x < m_end m).

(* the loop of one signature's stretch, from any position: the measures it meets or makes form a
   chain from pos to the end of the last one, which is at or beyond the end of the stretch (an
   existing measure may run across it) *)
Lemma fill_spec : forall fuel ex bl last ts_end pos cnt ms cnt',
  ex_pos ex ->
  fill fuel ex bl last ts_end pos cnt = Some (ms, cnt') ->
  chain_from pos (spans ms) (last_end_m ms pos)
  /\ (pos < ts_end -> ts_end <= last_end_m ms pos)
  /\ map m_num ms = zrange cnt (List.length ms) /\ cnt' = cnt + Z.of_nat (List.length ms)
  /\ (forall m, In m ms -> m_old m = true -> In (span m) ex)
  /\ (forall m, In m ms -> new_ok ex bl last ts_end m)
  /\ (forall m, In m ms -> pos <= m_start m < ts_end)
  /\ (forall m, In m ms -> m_old m = false -> m_end m <= ts_end).
Proof.
  induction fuel as [|f IH]; intros ex bl last ts_end pos cnt ms cnt' Hex H; [discriminate|].
  cbn [fill] in H.
  destruct (ts_end <=? pos) eqn:E.
  - injection H as <- <-. simpl. repeat split; try lia; intros m [].
  - set (mend := Z.min ts_end (full_end bl last pos)) in *.
    pose proof (full_end_gt bl last pos) as Hfe.
    assert (Hm : pos < mend <= ts_end) by (unfold mend; lia).
    destruct (first_in ex pos mend) as [[s e]|] eqn:EF.
    + apply first_in_some in EF as [Hin Hs]. simpl in Hs.
      pose proof (Hex _ Hin) as Hpos. simpl in Hpos.
      destruct (s =? pos) eqn:Es.
      * destruct (fill f ex bl last ts_end e (cnt + 1)) as [[ms1 c1]|] eqn:EFill; simpl in H; [|discriminate].
        injection H as <- <-.
        destruct (IH _ _ _ _ _ _ _ _ Hex EFill) as (C & G & N & Cn & O & Nw & R & B).
        pose proof (chain_from_le _ _ _ C) as Hle.
        rewrite last_end_m_cons. cbn [m_end].
        refine (conj _ (conj _ (conj _ (conj _ (conj _ (conj _ (conj _ _))))))).
        -- simpl. repeat split; try lia. exact C.
        -- intros _. destruct (Z_lt_dec e ts_end) as [L|L]; [specialize (G L); lia | lia].
        -- simpl. f_equal. exact N.
        -- simpl. lia.
        -- intros m [<-|Hm']; [intros _; unfold span; simpl; assert (s = pos) by lia; subst; assumption | apply O; assumption].
        -- intros m [<-|Hm']; [intros Ho; discriminate | apply Nw; assumption].
        -- intros m [<-|Hm']; [simpl; lia | specialize (R m Hm'); lia].
        -- intros m [<-|Hm']; [intros Ho; discriminate | apply B; assumption].
      * destruct (fill f ex bl last ts_end e (cnt + 2)) as [[ms1 c1]|] eqn:EFill; simpl in H; [|discriminate].
        injection H as <- <-.
        destruct (IH _ _ _ _ _ _ _ _ Hex EFill) as (C & G & N & Cn & O & Nw & R & B).
        pose proof (chain_from_le _ _ _ C) as Hle.
        rewrite !last_end_m_cons. cbn [m_end].
        refine (conj _ (conj _ (conj _ (conj _ (conj _ (conj _ (conj _ _))))))).
        -- simpl. repeat split; try lia. exact C.
        -- intros _. destruct (Z_lt_dec e ts_end) as [L|L]; [specialize (G L); lia | lia].
        -- simpl. f_equal. f_equal. replace (cnt + 1 + 1) with (cnt + 2) by lia. exact N.
        -- simpl. lia.
        -- intros m [<-|[<-|Hm']]; [intros Ho; discriminate | intros _; exact Hin | apply O; assumption].
        -- intros m [<-|[<-|Hm']]; [| intros Ho; discriminate | apply Nw; assumption].
           intros _. right. simpl. fold mend. split; [lia|]. exists (s, e). split; [assumption|reflexivity].
        -- intros m [<-|[<-|Hm']]; [simpl; lia | simpl; lia | specialize (R m Hm'); lia].
        -- intros m [<-|[<-|Hm']]; [intros _; simpl; lia | intros Ho; discriminate | apply B; assumption].
    + destruct (fill f ex bl last ts_end mend (cnt + 1)) as [[ms1 c1]|] eqn:EFill; simpl in H; [|discriminate].
      injection H as <- <-.
      destruct (IH _ _ _ _ _ _ _ _ Hex EFill) as (C & G & N & Cn & O & Nw & R & B).
      pose proof (chain_from_le _ _ _ C) as Hle.
      rewrite last_end_m_cons. cbn [m_end].
      refine (conj _ (conj _ (conj _ (conj _ (conj _ (conj _ (conj _ _))))))).
      * simpl. repeat split; try lia. exact C.
      * intros _. destruct (Z_lt_dec mend ts_end) as [L|L]; [specialize (G L); lia | lia].
      * simpl. f_equal. exact N.
      * simpl. lia.
      * intros m [<-|Hm']; [intros Ho; discriminate | apply O; assumption].
      * intros m [<-|Hm']; [| apply Nw; assumption]. intros _. left. reflexivity.
      * intros m [<-|Hm']; [simpl; lia | specialize (R m Hm'); lia].
      * intros m [<-|Hm']; [intros _; simpl; lia | apply B; assumption].
Qed.

(* a new measure contains the start of no existing measure *)
Lemma fill_new_free : forall fuel ex bl last ts_end pos cnt ms cnt',
  ex_sorted ex -> ex_pos ex ->
  fill fuel ex bl last ts_end pos cnt = Some (ms, cnt') ->
  forall m, In m ms -> starts_free ex m.
Proof.
  induction fuel as [|f IH]; intros ex bl last ts_end pos cnt ms cnt' Hso Hex H; [discriminate|].
  cbn [fill] in H.
  destruct (ts_end <=? pos) eqn:E.
  - injection H as <- <-. intros m [].
  - set (mend := Z.min ts_end (full_end bl last pos)) in *.
    pose proof (full_end_gt bl last pos) as Hfe.
    assert (Hm : pos < mend <= ts_end) by (unfold mend; lia).
    destruct (first_in ex pos mend) as [[s e]|] eqn:EF.
    + pose proof EF as EF0. apply first_in_some in EF as [Hin Hs]. simpl in Hs.
      pose proof (Hex _ Hin) as Hpos. simpl in Hpos.
      destruct (s =? pos) eqn:Es.
      * destruct (fill f ex bl last ts_end e (cnt + 1)) as [[ms1 c1]|] eqn:EFill; simpl in H; [|discriminate].
        injection H as <- <-.
        pose proof (IH _ _ _ _ _ _ _ _ Hso Hex EFill) as F.
        intros m [<-|Hm']; [intros Ho; discriminate | apply F; assumption].
      * destruct (fill f ex bl last ts_end e (cnt + 2)) as [[ms1 c1]|] eqn:EFill; simpl in H; [|discriminate].
        injection H as <- <-.
        pose proof (IH _ _ _ _ _ _ _ _ Hso Hex EFill) as F.
        intros m [<-|[<-|Hm']]; [| intros Ho; discriminate | apply F; assumption].
        intros _ x Hx Hr. simpl in Hr.
        unfold first_in in EF0.
        destruct (find_first_sorted _ _ ex (s, e) x Hso EF0 Hx ltac:(simpl; lia)) as [->|R]; simpl in *; lia.
    + destruct (fill f ex bl last ts_end mend (cnt + 1)) as [[ms1 c1]|] eqn:EFill; simpl in H; [|discriminate].
      injection H as <- <-.
      pose proof (IH _ _ _ _ _ _ _ _ Hso Hex EFill) as F.
      intros m [<-|Hm']; [| apply F; assumption].
      intros _ x Hx Hr. simpl in Hr. exact (first_in_none ex pos mend x EF Hx Hr).
Qed.

Lemma fill_total : forall fuel ex bl last ts_end pos cnt,
  ex_pos ex -> (Z.to_nat (ts_end - pos) < fuel)%nat ->
  fill fuel ex bl last ts_end pos cnt <> None.
Proof.
  induction fuel as [|f IH]; intros ex bl last ts_end pos cnt Hex Hf; [lia|].
  cbn [fill]. destruct (ts_end <=? pos) eqn:E; [discriminate|].
  set (mend := Z.min ts_end (full_end bl last pos)).
  pose proof (full_end_gt bl last pos) as Hfe.
  assert (Hm : pos < mend <= ts_end) by (unfold mend; lia).
  destruct (first_in ex pos mend) as [[s e]|] eqn:EF.
  - apply first_in_some in EF as [Hin Hs]. simpl in Hs.
    pose proof (Hex _ Hin) as Hpos. simpl in Hpos.
    destruct (s =? pos) eqn:Es.
    + pose proof (IH ex bl last ts_end e (cnt + 1) Hex ltac:(lia)) as N.
      destruct (fill f ex bl last ts_end e (cnt + 1)); [discriminate|congruence].
    + pose proof (IH ex bl last ts_end e (cnt + 2) Hex ltac:(lia)) as N.
      destruct (fill f ex bl last ts_end e (cnt + 2)); [discriminate|congruence].
  - pose proof (IH ex bl last ts_end mend (cnt + 1) Hex ltac:(lia)) as N.
    destruct (fill f ex bl last ts_end mend (cnt + 1)); [discriminate|congruence].
Qed.

Lemma chain_from_app : forall l1 l2 a b c, chain_from a l1 b -> chain_from b l2 c -> chain_from a (l1 ++ l2) c.
Proof.
  induction l1 as [|p r IH]; intros l2 a b c H1 H2; simpl in *.
  - subst. assumption.
  - destruct H1 as (E & L & C). repeat split; try assumption. eapply IH; eassumption.
Qed.

Lemma zrange_app lo n1 n2 : zrange lo (n1 + n2) = zrange lo n1 ++ zrange (lo + Z.of_nat n1) n2.
Proof.
  revert lo; induction n1 as [|n IH]; intros lo; simpl.
  - f_equal. lia.
  - f_equal. rewrite IH. f_equal. f_equal. lia.
Qed.

Lemma last_end_m_app ms1 ms2 d : last_end_m (ms1 ++ ms2) d = last_end_m ms2 (last_end_m ms1 d).
Proof.
  revert d; induction ms1 as [|m r IH]; intros d; [reflexivity|].
  change ((m :: r) ++ ms2) with (m :: (r ++ ms2)). rewrite !last_end_m_cons. apply IH.
Qed.

(* all stretches: the position is carried over *)
Lemma fill_all_spec : forall ss ex last cnt pos ms A B,
  ex_pos ex -> chain_from A (map st_span ss) B -> A <= pos ->
  fill_all ex last ss cnt pos = Some ms ->
  chain_from pos (spans ms) (last_end_m ms pos)
  /\ B <= last_end_m ms pos
  /\ map m_num ms = zrange cnt (List.length ms)
  /\ (forall m, In m ms -> m_old m = true -> In (span m) ex)
  /\ (forall m, In m ms -> new_ok_all ex last ss m)
  /\ (forall m, In m ms -> m_old m = false -> m_end m <= B).
Proof.
  induction ss as [|[[a b] bl] ss IH]; intros ex last cnt pos ms A B Hex C Hp H.
  - simpl in H. injection H as <-. simpl in *. subst. repeat split; auto; try lia; intros m [].
  - cbn [fill_all] in H.
    simpl in C. destruct C as (Ea & Lab & C). subst A. rewrite Z.max_r in H by lia.
    destruct (fill (S (Z.to_nat (b - pos))) ex bl last b pos cnt) as [[ms1 c1]|] eqn:EF; simpl in H; [|discriminate].
    destruct (fill_spec _ _ _ _ _ _ _ _ _ Hex EF) as (C1 & G1 & N1 & Cn & O1 & Nw1 & R1 & B1).
    destruct (fill_all ex last ss c1 (last_end_m ms1 pos)) as [ms2|] eqn:EA; simpl in H; [|discriminate].
    injection H as <-.
    assert (Hb : b <= last_end_m ms1 pos).
    { destruct (Z_lt_dec pos b) as [L|L]; [exact (G1 L)|]. pose proof (chain_from_le _ _ _ C1). lia. }
    destruct (IH ex last c1 _ ms2 b B Hex C Hb EA) as (C2 & G2 & N2 & O2 & Nw2 & B2).
    pose proof (chain_from_le _ _ _ C) as HbB.
    rewrite last_end_m_app.
    refine (conj _ (conj _ (conj _ (conj _ (conj _ _))))).
    + unfold spans. rewrite map_app. eapply chain_from_app; eassumption.
    + exact G2.
    + rewrite map_app, app_length, zrange_app, N1, N2, Cn. reflexivity.
    + intros m Hm. apply in_app_or in Hm as [Hm|Hm]; [apply O1 | apply O2]; assumption.
    + intros m Hm Ho. apply in_app_or in Hm as [Hm|Hm].
      * exists (a, b, bl). split; [left; reflexivity|]. split; [simpl; specialize (R1 m Hm); lia|]. apply Nw1; assumption.
      * destruct (Nw2 m Hm Ho) as (s & Hs & R & Nw). exists s. split; [right; assumption|]. split; assumption.
    + intros m Hm Ho. apply in_app_or in Hm as [Hm|Hm]; [specialize (B1 m Hm Ho); lia | apply B2; assumption].
Qed.

Lemma fill_all_new_free : forall ss ex last cnt pos ms,
  ex_sorted ex -> ex_pos ex ->
  fill_all ex last ss cnt pos = Some ms -> forall m, In m ms -> starts_free ex m.
Proof.
  induction ss as [|[[a b] bl] ss IH]; intros ex last cnt pos ms Hso Hex H.
  - simpl in H. injection H as <-. intros m [].
  - cbn [fill_all] in H.
    destruct (fill (S (Z.to_nat (b - Z.max a pos))) ex bl last b (Z.max a pos) cnt) as [[ms1 c1]|] eqn:EF; simpl in H; [|discriminate].
    destruct (fill_all ex last ss c1 (last_end_m ms1 (Z.max a pos))) as [ms2|] eqn:EA; simpl in H; [|discriminate].
    injection H as <-.
    intros m Hm. apply in_app_or in Hm as [Hm|Hm].
    + exact (fill_new_free _ _ _ _ _ _ _ _ _ Hso Hex EF m Hm).
    + exact (IH ex last c1 _ ms2 Hso Hex EA m Hm).
Qed.

Lemma fill_all_total : forall ss ex last cnt pos, ex_pos ex -> fill_all ex last ss cnt pos <> None.
Proof.
  induction ss as [|[[a b] bl] ss IH]; intros ex last cnt pos Hex; [discriminate|].
  cbn [fill_all].
  pose proof (fill_total (S (Z.to_nat (b - Z.max a pos))) ex bl last b (Z.max a pos) cnt Hex ltac:(lia)) as N.
  destruct (fill (S (Z.to_nat (b - Z.max a pos))) ex bl last b (Z.max a pos) cnt) as [[ms1 c1]|]; [|congruence]. simpl.
  pose proof (IH ex last c1 (last_end_m ms1 (Z.max a pos)) Hex) as N2.
  destruct (fill_all ex last ss c1 (last_end_m ms1 (Z.max a pos))); [discriminate|congruence].
Qed.

(* ---- the stretches *)
Lemma drop_last_filter : forall (l : list (Z * Z * Z)) last,
  StronglySorted Z.lt (map row_t l) -> Forall (fun r => row_t r <= last) l ->
  drop_last_if (fun r => last <=? row_t r) l = filter (fun r => row_t r <? last) l.
Proof.
  induction l as [|x r IH]; intros last S F; [reflexivity|].
  cbn [drop_last_if]. destruct r as [|y r'].
  - simpl. destruct (last <=? row_t x) eqn:E1, (row_t x <? last) eqn:E2; try reflexivity; lia.
  - inversion S as [|? ? S' Fx]; subst. inversion F as [|? ? Hx F']; subst.
    rewrite (IH last S' F'). 
    assert (row_t x < row_t y) by (inversion Fx; assumption).
    inversion F' as [|? ? Hy ?]; subst.
    cbn [filter]. destruct (row_t x <? last) eqn:E; [reflexivity|lia].
Qed.

Lemma last_lt_all l v : Forall (fun x => x < v) l -> last_lt l v = true.
Proof.
  induction l as [|x r IH]; intros F; [reflexivity|].
  inversion F; subst. cbn [last_lt]. destruct r; [lia | apply IH; assumption].
Qed.

Lemma zip_chain div last : forall rows,
  rows <> [] -> StronglySorted Z.lt (map row_t rows) -> Forall (fun r => row_t r < last) rows ->
  chain_from (row_t (hd (0, 0, 0) rows)) (map st_span (zip_stretches div rows (map row_t (tl rows) ++ [last]))) last.
Proof.
  induction rows as [|[[t b] bt] r IH]; intros N S F; [congruence|].
  destruct r as [|[[t' b'] bt'] r'].
  - simpl. inversion F; subst. unfold row_t in *. simpl in *. repeat split; lia.
  - inversion S as [|? ? S' Fx]; subst. inversion F as [|? ? Hx F']; subst.
    specialize (IH ltac:(discriminate) S' F').
    simpl. simpl in IH. inversion Fx; subst. unfold row_t in *. simpl in *. repeat split; try lia. exact IH.
Qed.

Lemma filter_sorted {A} (R : A -> A -> Prop) p l : StronglySorted R l -> StronglySorted R (filter p l).
Proof.
  induction 1 as [|x l S IH F]; simpl; [constructor|].
  destruct (p x); [|assumption]. constructor; [assumption|].
  apply Forall_forall. intros y Hy. apply filter_In in Hy as [Hy _].
  rewrite Forall_forall in F. apply F; assumption.
Qed.

Lemma map_filter_sorted (p : Z * Z * Z -> bool) l :
  StronglySorted Z.lt (map row_t l) -> StronglySorted Z.lt (map row_t (filter p l)).
Proof.
  induction l as [|x l IH]; intros S; simpl; [constructor|].
  inversion S as [|? ? S' F]; subst. destruct (p x); [|apply IH; assumption].
  simpl. constructor; [apply IH; assumption|].
  apply Forall_forall. intros y Hy. apply in_map_iff in Hy as (z & <- & Hz). apply filter_In in Hz as [Hz _].
  rewrite Forall_forall in F. apply F. apply in_map. assumption.
Qed.

Lemma stretches_chain div tsigs first last :
  ts_ok tsigs first last ->
  chain_from first (map st_span (stretches div tsigs first last)) last
  /\ forall s, In s (stretches div tsigs first last) -> first <= fst (st_span s) /\ snd (st_span s) <= last.
Proof.
  intros (N & Hfl & S & F).
  assert (Hrows : exists rows0, ts_rows tsigs first = rows0 /\ rows0 <> [] /\ row_t (hd (0,0,0) rows0) = first
                   /\ StronglySorted Z.lt (map row_t rows0) /\ Forall (fun r => row_t r <= last) rows0).
  { unfold ts_rows. destruct tsigs as [|[[t b] bt] r]; [congruence|].
    inversion F as [|? ? Ht F']; subst. unfold row_t in Ht; simpl in Ht.
    destruct (first <? t) eqn:E.
    - eexists. split; [reflexivity|]. split; [discriminate|]. split; [reflexivity|]. split.
      + simpl. constructor; [exact S|]. simpl in S. inversion S as [|? ? S' Fx]; subst.
        constructor; [unfold row_t; simpl; lia|].
        apply Forall_forall. intros y Hy. rewrite Forall_forall in Fx. specialize (Fx y Hy). unfold row_t in *; simpl in *. lia.
      + constructor; [unfold row_t; simpl; lia|]. constructor; [unfold row_t; simpl; lia|].
        apply Forall_forall. intros y Hy. rewrite Forall_forall in F'. specialize (F' y Hy). lia.
    - eexists. split; [reflexivity|]. split; [discriminate|]. split; [unfold row_t; simpl; lia|]. split; [exact S|].
      apply Forall_forall. intros y Hy. rewrite Forall_forall in F. specialize (F y Hy). lia. }
  destruct Hrows as (rows0 & E0 & N0 & H0 & S0 & F0).
  unfold stretches. rewrite E0. rewrite (drop_last_filter rows0 last S0 F0).
  set (rows := filter (fun r => row_t r <? last) rows0).
  assert (Fr : Forall (fun r => row_t r < last) rows).
  { apply Forall_forall. intros r Hr. apply filter_In in Hr as [_ Hr]. lia. }
  assert (Sr : StronglySorted Z.lt (map row_t rows)) by (apply map_filter_sorted; assumption).
  assert (Hhd : rows <> [] /\ row_t (hd (0,0,0) rows) = first).
  { unfold rows. destruct rows0 as [|x r]; [congruence|]. simpl in H0. simpl.
    destruct (row_t x <? last) eqn:E; [|lia]. split; [discriminate|assumption]. }
  destruct Hhd as [Nr Hr].
  assert (Fe : Forall (fun x => x < last) (map row_t (tl rows))).
  { apply Forall_forall. intros x Hx. apply in_map_iff in Hx as (r & <- & Hr').
    rewrite Forall_forall in Fr. apply Fr. destruct rows; [contradiction|]. right. assumption. }
  rewrite (last_lt_all _ _ Fe).
  pose proof (zip_chain div last rows Nr Sr Fr) as C. rewrite Hr in C.
  split; [exact C|].
  intros s Hs. pose proof (chain_from_bounds _ _ _ (st_span s) C (in_map st_span _ _ Hs)). lia.
Qed.

(* ---- main lemmas *)
Lemma add_measures_unfold div tsigs first last ex :
  tsigs <> [] -> first < last ->
  add_measures div tsigs first last ex = fill_all ex last (stretches div tsigs first last) 1 first.
Proof.
  intros N L. unfold add_measures. destruct tsigs; [congruence|].
  destruct (first =? last) eqn:E; [lia|reflexivity].
Qed.

Lemma last_In : forall (m : meas) r, In (List.last r m) (m :: r).
Proof.
  intros m r; revert m; induction r as [|x r' IH]; intros m; [left; reflexivity|].
  rewrite last_cons. right. apply IH.
Qed.

(* everything fill_all_spec gives, at the top level: the chain ends exactly at the last point *)
Lemma add_measures_spec div tsigs first last ex ms :
  pre tsigs first last ex -> add_measures div tsigs first last ex = Some ms ->
  chain_from first (spans ms) last
  /\ map m_num ms = zrange 1 (List.length ms)
  /\ (forall m, In m ms -> m_old m = true -> In (span m) ex)
  /\ (forall m, In m ms -> new_ok_all ex last (stretches div tsigs first last) m).
Proof.
  intros (T & Hex & Hw) H. pose proof T as (N & L & _).
  rewrite add_measures_unfold in H by assumption.
  destruct (stretches_chain div tsigs first last T) as [C _].
  destruct (fill_all_spec _ _ _ _ _ _ _ _ Hex C (Z.le_refl first) H) as (C1 & G & Nn & O & Nw & B).
  assert (E : last_end_m ms first = last).
  { apply Z.le_antisymm; [|exact G].
    destruct ms as [|m0 r]; [simpl in G; lia|].
    pose proof (last_In m0 r) as Hl. unfold last_end_m.
    destruct (m_old (List.last r m0)) eqn:Eo.
    - pose proof (O _ Hl Eo) as Hin. destruct (Hw _ Hin) as [_ W]. unfold span in W; simpl in W. exact W.
    - exact (B _ Hl Eo). }
  rewrite E in C1. repeat split; assumption.
Qed.

Lemma measures_tile_lemma div tsigs first last ex ms :
  pre tsigs first last ex -> add_measures div tsigs first last ex = Some ms ->
  chain_from first (spans ms) last.
Proof. intros P H. apply (add_measures_spec _ _ _ _ _ _ P H). Qed.

Lemma measures_numbered_lemma div tsigs first last ex ms :
  pre tsigs first last ex -> add_measures div tsigs first last ex = Some ms ->
  map m_num ms = zrange 1 (List.length ms).
Proof. intros P H. apply (add_measures_spec _ _ _ _ _ _ P H). Qed.

Lemma measures_old_lemma div tsigs first last ex ms :
  pre tsigs first last ex -> add_measures div tsigs first last ex = Some ms ->
  forall m, In m ms -> m_old m = true -> In (span m) ex.
Proof. intros P H. apply (add_measures_spec _ _ _ _ _ _ P H). Qed.

Lemma new_measure_length_lemma div tsigs first last ex ms :
  pre tsigs first last ex -> add_measures div tsigs first last ex = Some ms ->
  forall m, In m ms -> new_ok_all ex last (stretches div tsigs first last) m.
Proof. intros P H. apply (add_measures_spec _ _ _ _ _ _ P H). Qed.

Lemma add_measures_total_lemma div tsigs first last ex :
  pre tsigs first last ex -> exists ms, add_measures div tsigs first last ex = Some ms.
Proof.
  intros (T & Hex & _). pose proof T as (N & L & _).
  rewrite add_measures_unfold by assumption.
  pose proof (fill_all_total (stretches div tsigs first last) ex last 1 first Hex) as H.
  destruct (fill_all ex last (stretches div tsigs first last) 1 first) as [ms|]; [eauto|congruence].
Qed.

(* a bar that is a whole number B >= 1 of divisions: the full bar ends B divisions on, or at the last point *)
Lemma full_end_integral B last pos : 1 <= B -> pos < last ->
  full_end (inject_Z B) last pos = Z.min (pos + B) last.
Proof.
  intros HB Hp. unfold full_end.
  assert (E : (Qmin (inject_Z pos + inject_Z B) (inject_Z last) == inject_Z (Z.min (pos + B) last))%Q).
  { rewrite <- inject_Z_plus. destruct (Z_le_dec (pos + B) last) as [L|L].
    - rewrite Z.min_l by lia. apply Q.min_l. rewrite <- Zle_Qle. exact L.
    - rewrite Z.min_r by lia. apply Q.min_r. rewrite <- Zle_Qle. lia. }
  rewrite (round_half_even_comp _ _ E). rewrite round_half_even_Z. lia.
Qed.

(* tiling, pointwise: every time of [first, last) lies in exactly one measure *)
Lemma chain_from_unique : forall l a b, chain_from a l b ->
  forall x m1 m2, In m1 l -> In m2 l -> fst m1 <= x < snd m1 -> fst m2 <= x < snd m2 -> m1 = m2.
Proof.
  induction l as [|p r IH]; intros a b C x m1 m2 H1 H2 X1 X2; [contradiction|].
  simpl in C. destruct C as (E & L & C).
  destruct H1 as [<-|H1], H2 as [<-|H2].
  - reflexivity.
  - destruct (chain_from_bounds _ _ _ _ C H2). lia.
  - destruct (chain_from_bounds _ _ _ _ C H1). lia.
  - eapply IH; eassumption.
Qed.

(* sorted, positive-length existing measures do not overlap *)
Lemma ex_sorted_disjoint : forall ex, ex_sorted ex -> (forall m, In m ex -> fst m < snd m) ->
  forall x y, In x ex -> In y ex -> fst x <= fst y < snd x -> x = y.
Proof.
  induction ex as [|z ex IH]; intros S P x y Hx Hy H; [contradiction|].
  inversion S as [|? ? S' F]; subst. rewrite Forall_forall in F.
  assert (P' : forall m, In m ex -> fst m < snd m) by (intros m Hm; apply P; right; assumption).
  destruct Hx as [->|Hx], Hy as [->|Hy].
  - reflexivity.
  - specialize (F y Hy). lia.
  - specialize (F x Hx). pose proof (P y (or_introl eq_refl)). pose proof (P' x Hx). lia.
  - eapply IH; eassumption.
Qed.

(* existing measures are kept: every existing measure is one of the measures afterwards, with the
   same extent *)
Lemma existing_kept_lemma div tsigs first last ex ms :
  pre tsigs first last ex -> ex_sorted ex ->
  add_measures div tsigs first last ex = Some ms ->
  forall x, In x ex -> exists m, In m ms /\ m_old m = true /\ span m = x.
Proof.
  intros P Hso H x Hx.
  pose proof (measures_tile_lemma _ _ _ _ _ _ P H) as C.
  pose proof (measures_old_lemma _ _ _ _ _ _ P H) as O.
  destruct P as (T & Hex & Hw). pose proof T as (N & L & _).
  rewrite add_measures_unfold in H by assumption.
  pose proof (fill_all_new_free _ _ _ _ _ _ Hso Hex H) as NF.
  assert (Hr : first <= fst x < last) by (destruct (Hw x Hx); pose proof (Hex x Hx); lia).
  destruct (chain_from_locate _ _ _ (fst x) C Hr) as (sp & Hsp & Hin & _).
  unfold spans in Hsp. apply in_map_iff in Hsp as (m & <- & Hm).
  exists m. split; [exact Hm|].
  destruct (m_old m) eqn:Eo.
  - split; [reflexivity|].
    apply (ex_sorted_disjoint ex Hso Hex (span m) x (O m Hm Eo) Hx). unfold span in *. simpl in *. exact Hin.
  - exfalso. apply (NF m Hm Eo x Hx). unfold span in Hin; simpl in Hin. exact Hin.
Qed.

(* ---- the stretches and the signatures *)
Lemma zip_in_force div last : forall rows,
  StronglySorted Z.lt (map row_t rows) -> Forall (fun r => row_t r < last) rows ->
  forall s, In s (zip_stretches div rows (map row_t (tl rows) ++ [last])) ->
    stretch_in_force div rows s /\ snd (st_span s) <= last.
Proof.
  induction rows as [|[[t b] bt] r IH]; intros S F s Hs; [contradiction|].
  inversion S as [|? ? S' Fx]; subst. inversion F as [|? ? Hx F']; subst.
  rewrite Forall_forall in Fx.
  destruct r as [|[[t' b'] bt'] r'].
  - simpl in Hs. destruct Hs as [<-|[]]. unfold row_t in *; simpl in *. split; [|lia].
    exists b, bt. split; [left; reflexivity|]. split; [reflexivity|].
    intros r0 [<-|[]]. unfold row_t; simpl. lia.
  - simpl in Hs. destruct Hs as [<-|Hs].
    + split; [|inversion F'; subst; unfold row_t in *; simpl in *; lia].
      exists b, bt. split; [left; reflexivity|]. split; [reflexivity|].
      unfold st_span; simpl. intros r0 [<-|Hr0]; [unfold row_t; simpl; lia|].
      inversion S' as [|? ? S'' Fy]; subst. rewrite Forall_forall in Fy.
      destruct Hr0 as [<-|Hr0]; [unfold row_t; simpl; lia|].
      specialize (Fy (row_t r0) (in_map row_t _ _ Hr0)). unfold row_t in *; simpl in *. lia.
    + destruct (IH S' F' s Hs) as [(b0 & bt0 & I1 & I2 & I3) I4]. split; [|exact I4].
      exists b0, bt0. split; [right; exact I1|]. split; [exact I2|].
      intros r0 [<-|Hr0]; [|apply I3; exact Hr0].
      specialize (Fx (row_t (fst (st_span s), b0, bt0)) (in_map row_t _ _ I1)).
      unfold row_t in *; simpl in *. lia.
Qed.

Lemma stretches_in_force_lemma div tsigs first last :
  ts_ok tsigs first last ->
  forall s, In s (stretches div tsigs first last) -> stretch_in_force div (ts_rows tsigs first) s.
Proof.
  intros (N & Hfl & S & F) s Hs.
  assert (Hrows : StronglySorted Z.lt (map row_t (ts_rows tsigs first)) /\ Forall (fun r => row_t r <= last) (ts_rows tsigs first)).
  { unfold ts_rows. destruct tsigs as [|[[t b] bt] r]; [congruence|].
    inversion F as [|? ? Ht F']; subst. unfold row_t in Ht; simpl in Ht.
    destruct (first <? t) eqn:E.
    - split.
      + simpl. constructor; [exact S|]. simpl in S. inversion S as [|? ? S' Fx]; subst.
        constructor; [unfold row_t; simpl; lia|].
        apply Forall_forall. intros y Hy. rewrite Forall_forall in Fx. specialize (Fx y Hy). unfold row_t in *; simpl in *. lia.
      + constructor; [unfold row_t; simpl; lia|]. constructor; [unfold row_t; simpl; lia|].
        apply Forall_forall. intros y Hy. rewrite Forall_forall in F'. specialize (F' y Hy). lia.
    - split; [exact S|]. apply Forall_forall. intros y Hy. rewrite Forall_forall in F. specialize (F y Hy). lia. }
  destruct Hrows as [S0 F0].
  unfold stretches in Hs. set (rows0 := ts_rows tsigs first) in *.
  rewrite (drop_last_filter rows0 last S0 F0) in Hs.
  set (rows := filter (fun r => row_t r <? last) rows0) in *.
  assert (Fr : Forall (fun r => row_t r < last) rows).
  { apply Forall_forall. intros r Hr. apply filter_In in Hr as [_ Hr]. lia. }
  assert (Sr : StronglySorted Z.lt (map row_t rows)) by (apply map_filter_sorted; assumption).
  assert (Fe : Forall (fun x => x < last) (map row_t (tl rows))).
  { apply Forall_forall. intros x Hx. apply in_map_iff in Hx as (r & <- & Hr').
    rewrite Forall_forall in Fr. apply Fr. destruct rows; [contradiction|]. right. assumption. }
  rewrite (last_lt_all _ _ Fe) in Hs.
  destruct (zip_in_force div last rows Sr Fr s Hs) as [(b & bt & I1 & I2 & I3) I4].
  exists b, bt. split; [apply filter_In in I1 as [I1 _]; exact I1|]. split; [exact I2|].
  intros r Hr Hin.
  destruct (row_t r <? last) eqn:E.
  - apply (I3 r); [apply filter_In; split; assumption | exact Hin].
  - lia.
Qed.
