(* C11 -- proofs about the chained operations (Model/C11_Pipe.v): the per-operation theorems
   folded over every sequence of operations. *)
From PV Require Import Lib.Base Lib.Round Gen.C11_Tables Model.C11 Model.C11_Spec Model.C11_Norm Model.C11_Pipe
  Proofs.C11_lib Proofs.C11_meas Proofs.C11_norm.
From Coq Require Import QArith Sorting.Sorted.
#[local] Open Scope Z_scope.

Lemma chain_from_bounds : forall l a b, chain_from a l b ->
  a <= b /\ forall m, In m l -> a <= fst m /\ fst m < snd m /\ snd m <= b.
Proof.
  induction l as [|p r IH]; simpl; intros a b H.
  - subst. split; [lia|]. intros m [].
  - destruct H as (H1 & H2 & H3). destruct (IH _ _ H3) as (L & F). split; [lia|].
    intros m [<-|Hm]; [lia|]. destruct (F m Hm) as (A & B & C). lia.
Qed.

Lemma pre_of_chain tsigs first last ex ms :
  pre tsigs first last ex -> chain_from first ms last -> pre tsigs first last ms.
Proof.
  intros (T & _ & _) C. destruct (chain_from_bounds _ _ _ C) as (_ & F).
  split; [exact T|]. split; intros m Hm; destruct (F m Hm) as (A & B & D); lia.
Qed.

Lemma prun_app san E a b st :
  prun_with san E (a ++ b) st =
  match prun_with san E a st with Some st' => prun_with san E b st' | None => None end.
Proof.
  revert st. induction a as [|o a IH]; intros st; simpl; [reflexivity|].
  destruct (pstep_with san E o st) as [st'|]; [apply IH|reflexivity].
Qed.

(* ---------------------------------------------------------------- one step *)

Lemma tie_step_contiguous bars dm cs :
  all_contiguous cs -> all_contiguous (map (tie_chain_dm bars dm) cs).
Proof.
  unfold all_contiguous. intros F. apply Forall_forall. intros c Hc.
  apply in_map_iff in Hc as (c0 & <- & Hc0). rewrite Forall_forall in F. specialize (F _ Hc0).
  destruct c0 as [[[p v] st] ps]. simpl in *. apply tie_contiguous_dm. exact F.
Qed.

Lemma tie_step_sounding bars dm cs :
  map sounding (map (tie_chain_dm bars dm) cs) = map sounding cs.
Proof. rewrite map_map. apply map_ext. intros c. apply tie_sounding_dm. Qed.

Lemma pstep_note_array E op ms cs ms' cs' :
  tol_ok op -> all_contiguous cs -> pstep E op (ms, cs) = Some (ms', cs') ->
  map sounding cs' = map sounding cs /\ all_contiguous cs'.
Proof.
  intros T C H. unfold pstep, pstep_with in H. destruct op; simpl in H.
  - destruct (add_measures _ _ _ _ ms); inversion H; subst. auto.
  - inversion H; subst. split; [apply tie_step_sounding|apply tie_step_contiguous; exact C].
  - inversion H; subst. simpl in T. rewrite (sanitize_chains_rows_lemma tol cs T C). auto.
  - inversion H; subst. auto.
  - inversion H; subst. auto.
Qed.

(* the note array is the same after EVERY sequence of operations *)
Lemma pipeline_note_array_lemma E : forall ops st st',
  Forall tol_ok ops -> all_contiguous (snd st) -> prun E ops st = Some st' ->
  map sounding (snd st') = map sounding (snd st) /\ all_contiguous (snd st').
Proof.
  induction ops as [|o ops IH]; intros st st' T C H.
  - simpl in H. inversion H; subst. auto.
  - unfold prun in H. simpl in H. fold (pstep E o st) in H.
    destruct (pstep E o st) as [st1|] eqn:S; [|discriminate].
    inversion T as [|? ? To Tr]; subst.
    destruct st as [ms cs], st1 as [ms1 cs1]. simpl in C.
    destruct (pstep_note_array E o ms cs ms1 cs1 To C S) as (A & B).
    destruct (IH (ms1, cs1) st' Tr B H) as (A' & B'). simpl in A'. split; [simpl; rewrite A'; exact A|exact B'].
Qed.

(* ---------------------------------------------------------------- invariant of the steps before *)

Definition pinv (E : penv) (st : pstate) : Prop :=
  pre (pe_tsigs E) (pe_first E) (pe_last E) (fst st) /\ all_contiguous (snd st)
  /\ pieces_inside (pe_first E) (pe_last E) (snd st).

Lemma pstep_inv E op st :
  tol_ok op -> not_tie op -> pinv E st -> exists st', pstep E op st = Some st' /\ pinv E st'.
Proof.
  intros T N (P & C & I). destruct st as [ms cs]. simpl in *. unfold pstep, pstep_with.
  destruct op; simpl in *.
  - destruct (add_measures_total_lemma (pe_div E) _ _ _ _ P) as (r & Hr). rewrite Hr.
    eexists; split; [reflexivity|]. split; [|split; assumption]. simpl.
    eapply pre_of_chain; [exact P|]. eapply measures_tile_lemma; eassumption.
  - contradiction.
  - eexists; split; [reflexivity|]. rewrite (sanitize_chains_rows_lemma tol cs T C).
    split; [|split]; assumption.
  - eexists; split; [reflexivity|]. split; [|split]; assumption.
  - eexists; split; [reflexivity|]. split; [|split]; assumption.
Qed.

Lemma prun_inv E : forall ops st,
  Forall tol_ok ops -> Forall not_tie ops -> pinv E st -> exists st', prun E ops st = Some st' /\ pinv E st'.
Proof.
  induction ops as [|o ops IH]; intros st T N I.
  - exists st. split; [reflexivity|exact I].
  - inversion T; inversion N; subst.
    destruct (pstep_inv E o st) as (st1 & S & I1); try assumption.
    destruct (IH st1) as (st' & R & I'); try assumption.
    exists st'. split; [|exact I']. unfold prun in *. simpl. fold (pstep E o st). rewrite S. exact R.
Qed.

(* quiet operations (no add_measures, no tie_notes, tolerances >= 0) leave measures and contiguous
   chains exactly as they are *)
Lemma prun_quiet E : forall ops st,
  Forall quiet ops -> all_contiguous (snd st) -> prun E ops st = Some st.
Proof.
  induction ops as [|o ops IH]; intros st Q C; [reflexivity|].
  inversion Q as [|? ? Qo Qr]; subst. destruct st as [ms cs]. simpl in C.
  unfold prun. simpl. destruct o; simpl in *; try contradiction.
  - rewrite (sanitize_chains_rows_lemma tol cs Qo C). apply (IH (ms, cs) Qr C).
  - apply (IH (ms, cs) Qr C).
  - apply (IH (ms, cs) Qr C).
Qed.

(* add_measures, then tie_notes, whatever came before (anything but tie_notes) and whatever quiet
   operations come after: every piece of every chain lies within one of the measures the part holds
   at the end, which tile [first, last) *)
Lemma pipeline_within_lemma E ops1 ops2 ms0 cs0 :
  pre (pe_tsigs E) (pe_first E) (pe_last E) ms0 ->
  Forall (fun e => 0 < snd e) (pe_dm E) ->
  all_contiguous cs0 -> pieces_inside (pe_first E) (pe_last E) cs0 ->
  Forall tol_ok ops1 -> Forall not_tie ops1 -> Forall quiet ops2 ->
  exists ms cs, prun E (ops1 ++ PAdd :: PTie :: ops2) (ms0, cs0) = Some (ms, cs)
    /\ chain_from (pe_first E) ms (pe_last E) /\ pieces_in_measures ms cs
    /\ map sounding cs = map sounding cs0.
Proof.
  intros P D C I T N Q.
  destruct (prun_inv E ops1 (ms0, cs0) T N) as ([ms1 cs1] & R1 & (P1 & C1 & I1)).
  { split; [exact P|split; assumption]. }
  simpl in P1, C1, I1.
  destruct (add_measures_total_lemma (pe_div E) _ _ _ _ P1) as (r & Hr).
  pose proof (measures_tile_lemma _ _ _ _ _ _ P1 Hr) as Tile.
  set (cs2 := map (tie_chain_dm (map fst (spans r)) (pe_dm E)) cs1).
  exists (spans r), cs2.
  assert (C2 : all_contiguous cs2) by (apply tie_step_contiguous; exact C1).
  split; [|split; [exact Tile|split]].
  - unfold prun in *. rewrite prun_app, R1. simpl. rewrite Hr. fold cs2.
    apply (prun_quiet E ops2 (spans r, cs2) Q C2).
  - unfold pieces_in_measures, cs2. apply Forall_forall. intros c Hc.
    apply in_map_iff in Hc as (c0 & <- & Hc0).
    unfold pieces_inside in I1. rewrite Forall_forall in I1. specialize (I1 _ Hc0).
    destruct c0 as [[[p v] st] ps]. simpl in *.
    eapply tie_pieces_wf_dm; [exact D|exact Tile|reflexivity|exact I1].
  - assert (Forall tol_ok ops1 /\ True) as (T' & _) by auto.
    destruct (pipeline_note_array_lemma E ops1 (ms0, cs0) (ms1, cs1) T C R1) as (S1 & _). simpl in S1.
    unfold cs2. rewrite tie_step_sounding. exact S1.
Qed.

(* under `pre` every sequence of operations runs through (the model's fuel suffices at every
   add_measures, also at one that reads the measures an earlier one made) -- sequences with
   tie_notes included *)
Lemma pstep_total E op st :
  pre (pe_tsigs E) (pe_first E) (pe_last E) (fst st) ->
  exists st', pstep E op st = Some st' /\ pre (pe_tsigs E) (pe_first E) (pe_last E) (fst st').
Proof.
  intros P. destruct st as [ms cs]. simpl in P. unfold pstep, pstep_with. destruct op; simpl.
  - destruct (add_measures_total_lemma (pe_div E) _ _ _ _ P) as (r & Hr). rewrite Hr.
    eexists; split; [reflexivity|]. simpl.
    eapply pre_of_chain; [exact P|]. eapply measures_tile_lemma; eassumption.
  - eexists; split; [reflexivity|exact P].
  - eexists; split; [reflexivity|exact P].
  - eexists; split; [reflexivity|exact P].
  - eexists; split; [reflexivity|exact P].
Qed.

Lemma pipeline_total_lemma E : forall ops st,
  pre (pe_tsigs E) (pe_first E) (pe_last E) (fst st) -> exists st', prun E ops st = Some st'.
Proof.
  induction ops as [|o ops IH]; intros st P; [eexists; reflexivity|].
  destruct (pstep_total E o st P) as (st1 & S & P1). destruct (IH st1 P1) as (st' & R).
  exists st'. unfold prun in *. simpl. fold (pstep E o st). rewrite S. exact R.
Qed.

(* ---------------------------------------------------------------- add_measures on a covered timeline *)

Lemma chain_from_sorted : forall l a b, chain_from a l b -> ex_sorted l.
Proof.
  induction l as [|p r IH]; simpl; intros a b H; [constructor|].
  destruct H as (H1 & H2 & H3). constructor; [eapply IH; exact H3|].
  apply Forall_forall. intros y Hy. destruct (chain_from_bounds _ _ _ H3) as (_ & F).
  destruct (F y Hy) as (A & _). exact A.
Qed.

Lemma chains_equal : forall l1 l2 a b,
  chain_from a l1 b -> chain_from a l2 b -> (forall x, In x l1 -> In x l2) -> l1 = l2.
Proof.
  induction l1 as [|p r1 IH]; intros l2 a b C1 C2 S.
  - simpl in C1. subst. destruct l2 as [|q r2]; [reflexivity|].
    simpl in C2. destruct C2 as (Q1 & Q2 & Q3). destruct (chain_from_bounds _ _ _ Q3) as (L & _). lia.
  - simpl in C1. destruct C1 as (P1 & P2 & P3). destruct (chain_from_bounds _ _ _ P3) as (L1 & F1).
    destruct l2 as [|q r2]; [simpl in C2; lia|].
    simpl in C2. destruct C2 as (Q1 & Q2 & Q3). destruct (chain_from_bounds _ _ _ Q3) as (L2 & F2).
    assert (E : p = q).
    { destruct (S p (or_introl eq_refl)) as [E|Hin]; [symmetry; exact E|].
      destruct (F2 p Hin) as (A & _). lia. }
    subst q. f_equal. apply (IH r2 (snd p) b P3 Q3).
    intros x Hx. destruct (S x (or_intror Hx)) as [E|Hin]; [|exact Hin].
    subst x. destruct (F1 p Hx) as (A & _). lia.
Qed.

(* the existing measures already tile [first, last): add_measures adds nothing *)
Lemma add_measures_covered_lemma div tsigs first last ex ms :
  pre tsigs first last ex -> chain_from first ex last ->
  add_measures div tsigs first last ex = Some ms -> spans ms = ex.
Proof.
  intros P C H. symmetry.
  apply (chains_equal ex (spans ms) first last C (measures_tile_lemma _ _ _ _ _ _ P H)).
  intros x Hx.
  destruct (existing_kept_lemma div tsigs first last ex ms P (chain_from_sorted _ _ _ C) H x Hx) as (m & Hm & _ & <-).
  unfold spans. apply in_map. exact Hm.
Qed.

Lemma prun_cons san E o r st :
  prun_with san E (o :: r) st = match pstep_with san E o st with Some st' => prun_with san E r st' | None => None end.
Proof. reflexivity. Qed.
Lemma pstep_add san E ms cs :
  pstep_with san E PAdd (ms, cs) =
  match add_measures (pe_div E) (pe_tsigs E) (pe_first E) (pe_last E) ms with Some r => Some (spans r, cs) | None => None end.
Proof. reflexivity. Qed.

(* add_measures directly after add_measures changes nothing *)
Lemma pipeline_add_twice_lemma E ops st :
  pre (pe_tsigs E) (pe_first E) (pe_last E) (fst st) ->
  prun E (PAdd :: PAdd :: ops) st = prun E (PAdd :: ops) st.
Proof.
  intros P. destruct st as [ms cs]. simpl in P. unfold prun.
  rewrite (prun_cons _ E PAdd (PAdd :: ops)), (prun_cons _ E PAdd ops), pstep_add.
  destruct (add_measures_total_lemma (pe_div E) _ _ _ _ P) as (r & Hr). rewrite Hr.
  pose proof (measures_tile_lemma _ _ _ _ _ _ P Hr) as Tile.
  pose proof (pre_of_chain _ _ _ _ _ P Tile) as P2.
  destruct (add_measures_total_lemma (pe_div E) _ _ _ _ P2) as (r2 & Hr2).
  rewrite (prun_cons _ E PAdd ops), pstep_add, Hr2.
  rewrite (add_measures_covered_lemma _ _ _ _ _ _ P2 Tile Hr2). reflexivity.
Qed.

(* ---------------------------------------------------------------- examples and witnesses *)

Definition pex_env : penv := mk_penv 4 [(0, 4, 4); (32, 3, 4)] 0 56 [(0, 4)].
Definition pex_ms0 : list (Z * Z) := [(16, 32)].
Definition pex_cs0 : list chain := [(60, 1, 1, [(3, 35)]); (64, 2, 1, [(8, 16); (16, 21)])].
Definition pex_ops1 : list pop := [PRests; PSan 1; PAdd].
Definition pex_ops2 : list pop := [PTup; PSan 0; PRests].

Lemma pex_pre : pre (pe_tsigs pex_env) (pe_first pex_env) (pe_last pex_env) pex_ms0.
Proof.
  split; [|split].
  - split; [discriminate|]. split; [reflexivity|]. split.
    + simpl. repeat constructor.
    + constructor; [cbv; split; discriminate|constructor; [cbv; split; discriminate|constructor]].
  - intros m [<-|[]]; simpl; lia.
  - intros m [<-|[]]; simpl; lia.
Qed.

Lemma pex_hyps :
  Forall (fun e => 0 < snd e) (pe_dm pex_env) /\ all_contiguous pex_cs0
  /\ pieces_inside (pe_first pex_env) (pe_last pex_env) pex_cs0
  /\ Forall tol_ok pex_ops1 /\ Forall not_tie pex_ops1 /\ Forall quiet pex_ops2.
Proof.
  repeat split; repeat constructor; simpl; try lia; auto.
Qed.

Lemma pex_result :
  prun pex_env (pex_ops1 ++ PAdd :: PTie :: pex_ops2) (pex_ms0, pex_cs0)
  = Some ([(0, 16); (16, 32); (32, 44); (44, 56)],
          [(60, 1, 1, [(3, 4); (4, 16); (16, 32); (32, 35)]); (64, 2, 1, [(8, 16); (16, 20); (20, 21)])]).
Proof. vm_compute. reflexivity. Qed.

(* sanitize_part comparing with >= : the note array changes at tie_tolerance 0 *)
Lemma pipeline_ge_refuted_lemma :
  exists E ops st st', Forall tol_ok ops /\ all_contiguous (snd st)
    /\ prun_with sanitize_chains_ge E ops st = Some st'
    /\ map sounding (snd st') <> map sounding (snd st).
Proof.
  exists pex_env, [PAdd; PTie; PSan 0], (pex_ms0, pex_cs0).
  eexists. split; [repeat constructor; simpl; lia|]. split; [apply pex_hyps|].
  split; [vm_compute; reflexivity|]. vm_compute. discriminate.
Qed.

(* tie_notes without add_measures before it (measures with a gap): a piece outside every measure *)
Lemma pipeline_no_add_refuted_lemma :
  exists ms cs, prun pex_env [PRests; PTie; PSan 0] (pex_ms0, pex_cs0) = Some (ms, cs)
    /\ pieces_in_measuresb ms cs = false.
Proof. eexists. eexists. split; [vm_compute; reflexivity|]. vm_compute. reflexivity. Qed.
