(* C01 -- the READ paths of the quarter-duration table as the code has them (Model/C01_QMap.v):
   Part.quarter_duration_map = the len-1 doubling + scipy's interp1d(kind="previous") (binary search on the shifted
   x, clip, y[idx - 1], fill values (y[0], y[-1])) gives, on every strictly increasing table, the duration in
   force (qd_at, the scan of Model/C01.v) at EVERY integer time, before the first and beyond the last change
   included; Part.quarter_durations(start, end) gives exactly the entries of the half-open window. *)
From PV Require Import Lib.Base Gen.C01_ClassTree Model.C01 Model.C01_Spec Model.C01_Idx Model.C01_QMap
  Proofs.C01_lib Proofs.C01_qd Proofs.C01_inv Proofs.C01_main Proofs.C01_idx.
From Coq Require Import Sorting.Sorted Arith.

(* ---------------------------------------------------------------- lists *)
Lemma last_cons_default {A} (m : list A) a d : last (a :: m) d = last m a.
Proof. revert a d. induction m as [|b m IH]; intros a d; auto. change (last (a :: b :: m) d) with (last (b :: m) d). rewrite (IH b d), (IH b a). auto. Qed.

Lemma nth_error_last_app {A} (l r : list A) a : nth_error ((a :: l) ++ r) (List.length (a :: l) - 1) = Some (last l a).
Proof.
  replace (List.length (a :: l) - 1)%nat with (List.length l) by (simpl; lia).
  revert a. induction l as [|b l IH]; intros a; auto.
  cbn [List.length app nth_error]. specialize (IH b). cbn [app] in IH. rewrite IH. f_equal. symmetry. apply last_cons_default.
Qed.

(* a strictly increasing table splits at any s into the entries at or before s and those after it *)
Lemma tab_split s : forall tab lo, tab_incr lo tab ->
  exists l r, tab = l ++ r /\ Forall (fun e => fst e <= s) l /\ Forall (fun e => s < fst e) r.
Proof.
  induction tab as [|e tab IH]; intros lo H.
  - exists [], []. auto.
  - destruct H as [H1 H2]. destruct (Z_le_gt_dec (fst e) s) as [L|G].
    + destruct (IH _ H2) as [l [r [E [Fl Fr]]]]. exists (e :: l), r. subst. auto.
    + exists [], (e :: tab). repeat split; auto. constructor; [lia|].
      eapply Forall_impl; [|apply (tab_incr_ge _ _ H2)]. intros a Ha. simpl in Ha. lia.
Qed.

Lemma qd_prev_split s l r : Forall (fun e => fst e <= s) l -> Forall (fun e => s < fst e) r ->
  forall cur, qd_prev (l ++ r) s cur = last (map snd l) cur.
Proof.
  intros Fl Fr. induction Fl as [|[t' q'] l Hx Fl IH]; intros cur.
  - simpl. destruct Fr as [|[t' q'] r Hx Fr]; auto. simpl in *. assert (E : t' <=? s = false) by lia. rewrite E. auto.
  - simpl in Hx. cbn [app qd_prev map snd]. assert (E : t' <=? s = true) by lia. rewrite E, IH. symmetry. apply last_cons_default.
Qed.

(* ---------------------------------------------------------------- interp1d(kind="previous") on a strictly increasing table *)
Lemma interp_previous_eval below x0 xs y fill s i v :
  List.length (x0 :: xs) = List.length y -> searchsorted (x0 :: xs) (fun xi => below xi s) = i ->
  nth_error y (clip_nat 1 (List.length (x0 :: xs)) i - 1) = Some v ->
  interp_previous below (x0 :: xs) y fill s =
  Some (if s <? x0 then fst fill else if last (x0 :: xs) x0 <? s then snd fill else v).
Proof.
  intros L S N. unfold interp_previous. rewrite L, Nat.eqb_refl. cbn [negb]. rewrite <- L, S, N. auto.
Qed.

Lemma last_app_r {A} (l r : list A) d : r <> [] -> last (l ++ r) d = last r d.
Proof.
  intros R. induction l as [|a l IH]; auto. cbn [app]. destruct (l ++ r) eqn:E.
  - destruct l; simpl in E; [contradiction | discriminate].
  - rewrite <- IH. auto.
Qed.

Lemma last_forall {A} (P : A -> Prop) (r : list A) d : r <> [] -> Forall P r -> P (last r d).
Proof.
  intros R F. induction F as [|a r Ha F IH]; [contradiction|]. destruct r; auto. apply IH. discriminate.
Qed.

Lemma interp_previous_in_force t0 q0 tab lo s : tab_incr lo ((t0, q0) :: tab) ->
  interp_previous Z.leb (map fst ((t0, q0) :: tab)) (map snd ((t0, q0) :: tab))
                  (q0, last (map snd ((t0, q0) :: tab)) q0) s = Some (qd_at ((t0, q0) :: tab) s).
Proof.
  intros Hinc. destruct (tab_split s _ lo Hinc) as [l [r [E [Fl Fr]]]].
  assert (Hs : searchsorted (map fst (l ++ r)) (fun xi => xi <=? s) = List.length l).
  { rewrite map_app, <- (map_length fst l). apply searchsorted_split.
    - rewrite Forall_map. eapply Forall_impl; [|exact Fl]. intros a Ha. simpl in Ha. lia.
    - rewrite Forall_map. eapply Forall_impl; [|exact Fr]. intros a Ha. simpl in Ha. lia. }
  rewrite <- E in Hs.
  assert (Q : qd_at ((t0, q0) :: tab) s = last (map snd l) q0).
  { unfold qd_at. rewrite E. apply qd_prev_split; auto. }
  assert (Ln : List.length (map fst ((t0, q0) :: tab)) = S (List.length tab)) by (rewrite map_length; auto).
  destruct l as [|e l].
  - (* s before the first change: index 0, clipped to 1, then overwritten by the fill value below *)
    cbn [app] in E. subst r. inversion Fr as [|? ? Hx _]; subst. simpl in Hx.
    cbn [map fst snd] in *. rewrite (interp_previous_eval _ _ _ _ _ _ 0%nat q0); auto.
    + assert (E1 : s <? t0 = true) by lia. rewrite E1, Q. auto.
    + cbn [List.length]. rewrite !map_length. auto.
    + unfold clip_nat. cbn [List.length]. replace (Nat.min (S (List.length (map fst tab))) (Nat.max 1 0) - 1)%nat with 0%nat by lia. auto.
  - cbn [app] in E. injection E as <- ->. inversion Fl as [|? ? Hx Fl']; subst. simpl in Hx.
    cbn [map fst snd] in *.
    rewrite (interp_previous_eval _ _ _ _ _ _ (S (List.length l)) (last (map snd l) q0)); auto.
    + assert (E1 : s <? t0 = false) by lia. rewrite E1, Q. f_equal. cbn [fst snd].
      destruct (last (t0 :: map fst (l ++ r)) t0 <? s) eqn:EL; [| symmetry; apply last_cons_default].
      (* beyond the last change: the fill value above is y[-1], the very value the search found *)
      destruct r as [|e r].
      * rewrite app_nil_r. reflexivity.
      * exfalso. rewrite last_cons_default, map_app, last_app_r in EL by discriminate.
        assert (s < last (map fst (e :: r)) t0).
        { apply (last_forall (fun z => s < z)); [discriminate|]. rewrite Forall_map. auto. }
        lia.
    + cbn [List.length]. rewrite !map_length. auto.
    + unfold clip_nat. cbn [List.length]. rewrite map_length, app_length.
      replace (Nat.min (S (List.length l + List.length r)) (Nat.max 1 (S (List.length l))) - 1)%nat with (List.length l) by lia.
      rewrite map_app. change (q0 :: map snd l ++ map snd r) with ((q0 :: map snd l) ++ map snd r).
      rewrite <- (map_length snd l). pose proof (nth_error_last_app (map snd l) (map snd r) q0) as N.
      replace (List.length (q0 :: map snd l) - 1)%nat with (List.length (map snd l)) in N by (simpl; lia). exact N.
Qed.

(* ---------------------------------------------------------------- Part.quarter_duration_map *)
Lemma qmap_code_in_force_lemma tab lo : tab <> [] -> tab_incr lo tab -> forall s, qmap_code tab s = Some (qd_at tab s).
Proof.
  intros NE Hinc s. destruct tab as [|[t0 q0] tab]; [contradiction|]. destruct tab as [|e tab].
  - (* one entry: the lists are doubled, x = [t0; t0] *)
    unfold qmap_code, qmap_gen, fill_code, interp_previous, searchsorted, clip_nat, qd_at. simpl.
    destruct (t0 <=? s) eqn:E1; simpl; destruct (s <? t0) eqn:E2; auto; destruct (t0 <? s) eqn:E3; auto.
  - unfold qmap_code, qmap_gen. cbn [map List.length Nat.eqb]. unfold fill_code. cbn [map fst snd].
    apply (interp_previous_in_force t0 q0 (e :: tab) lo s Hinc).
Qed.

(* along every history the map built from the table is the duration in force *)
Lemma qmap_history_lemma q0 ops : mixed_run (init q0) ops ->
  forall s, qmap_code (qtab (run (init q0) ops)) s = Some (qd_at (qtab (run (init q0) ops)) s).
Proof.
  intros V s. destruct (reachable_mixed_lemma q0 ops V) as [I _]. destruct (iw_qtab _ I) as [Hinc [q [r E]]].
  apply (qmap_code_in_force_lemma _ (-1)); auto. rewrite E. discriminate.
Qed.

(* set_quarter_duration seen through the map the code builds *)
Lemma qmap_set_qd_lemma p t q : InvW p -> 0 <= t -> forall s, 0 <= s ->
  qmap_code (qtab (set_quarter_duration p t q)) s =
  if in_span t (next_change t (qtab p)) s then Some q else qmap_code (qtab p) s.
Proof.
  intros I Ht s Hs.
  assert (I' : InvW (set_quarter_duration p t q)) by (apply (step_invw_lemma p (OSetQ t q) I); exact Ht).
  destruct (iw_qtab _ I) as [Hinc [q1 [r1 E1]]]. destruct (iw_qtab _ I') as [Hinc' [q2 [r2 E2]]].
  rewrite (qmap_code_in_force_lemma _ (-1)), (qmap_code_in_force_lemma (qtab p) (-1)); auto;
    try (rewrite E1; discriminate); try (rewrite E2; discriminate).
  destruct (set_qd_spec_lemma p t q I Ht) as [A _]. rewrite (A s Hs). destruct (in_span t (next_change t (qtab p)) s); auto.
Qed.

(* the two slips are excluded by the statement *)
Lemma qmap_refuted_lemma :
  qmap_code [(0, 1); (4, 2)] 7 = Some 2 /\ qmap_fill_first [(0, 1); (4, 2)] 7 = Some 1 /\
  qmap_code [(0, 1); (4, 2)] 4 = Some 2 /\ qmap_unshifted [(0, 1); (4, 2)] 4 = Some 1 /\
  qd_at [(0, 1); (4, 2)] 7 = 2 /\ qd_at [(0, 1); (4, 2)] 4 = 2.
Proof. vm_compute. repeat split; reflexivity. Qed.

Lemma qmap_nontrivial_lemma :
  tab_incr (-1) [(0, 1); (4, 2); (9, 1)] /\
  map (qmap_code [(0, 1); (4, 2); (9, 1)]) [-3; 0; 3; 4; 8; 9; 1000] = map Some [1; 1; 1; 2; 2; 1; 1] /\
  map (qmap_code [(0, 5)]) [-1; 0; 7] = map Some [5; 5; 5].
Proof. vm_compute. repeat split; reflexivity. Qed.

(* ---------------------------------------------------------------- Part.quarter_durations(start, end) *)
Lemma qdur_code_model p a b : qdur_code (qtab p) a b = quarter_durations p a b.
Proof.
  unfold qdur_code, qdur_gen, quarter_durations. destruct a as [x|], b as [y|]; cbn [is_not_none].
  - induction (qtab p) as [|e l IH]; auto. cbn [filter]. destruct (x <=? fst e) eqn:E1; cbn [filter andb]; rewrite IH; auto.
  - apply filter_ext. intros e. rewrite andb_true_r. auto.
  - apply filter_ext. intros e. auto.
  - induction (qtab p) as [|e l IH]; auto. simpl. f_equal. exact IH.
Qed.

Lemma tab_incr_sorted tab : forall lo, tab_incr lo tab -> StronglySorted Z.lt (map fst tab).
Proof.
  induction tab as [|e r IH]; intros lo H; [constructor|]. destruct H as [H1 H2]. cbn [map]. constructor; eauto.
  rewrite Forall_map. apply (tab_incr_ge _ _ H2).
Qed.

Lemma filter_sorted f (l : list (Z * Z)) : StronglySorted Z.lt (map fst l) -> StronglySorted Z.lt (map fst (filter f l)).
Proof.
  induction l as [|e l IH]; intros S; auto. cbn [map] in S. inversion S as [|? ? S' F]; subst. cbn [filter].
  destruct (f e); auto. cbn [map]. constructor; auto. rewrite Forall_map in *. rewrite Forall_forall in *.
  intros x Hx. apply filter_In in Hx. apply F. tauto.
Qed.

Lemma qd_at_entry tab lo t q : tab_incr lo tab -> In (t, q) tab -> qd_at tab t = q.
Proof.
  intros Hinc Hin. destruct (tab_split t tab lo Hinc) as [l [r [E [Fl Fr]]]].
  destruct tab as [|[t0 q0] tab]; [contradiction|]. unfold qd_at. rewrite E, (qd_prev_split t l r Fl Fr).
  (* (t, q) is the last entry of l *)
  rewrite E in Hin, Hinc. apply in_app_or in Hin. destruct Hin as [Hin|Hin].
  2:{ rewrite Forall_forall in Fr. specialize (Fr _ Hin). simpl in Fr. lia. }
  clear E. revert lo q0 Hinc Hin. induction l as [|[t1 q1] l IH]; intros lo q0 Hinc Hin; [contradiction|].
  cbn [map snd]. rewrite last_cons_default. destruct Hin as [Hin|Hin].
  - injection Hin as -> ->. destruct l as [|[t2 q2] l]; auto. exfalso.
    cbn [app] in Hinc. destruct Hinc as [_ [H2 _]]. inversion Fl as [|? ? _ Fl']; subst. inversion Fl' as [|? ? Hx _]; subst. simpl in *. lia.
  - cbn [app] in Hinc. destruct Hinc as [_ H2]. inversion Fl; subst. eapply IH; eauto.
Qed.

Lemma qdur_spec_lemma tab lo a b : tab <> [] -> tab_incr lo tab ->
  (forall t q, In (t, q) (qdur_code tab a b) <-> In (t, q) tab /\ in_range a b t) /\
  StronglySorted Z.lt (map fst (qdur_code tab a b)) /\
  (forall t q, In (t, q) (qdur_code tab a b) -> qmap_code tab t = Some q) /\
  qdur_code tab None None = tab.
Proof.
  intros NE Hinc. pose proof (tab_incr_sorted _ _ Hinc) as S. repeat split.
  - unfold qdur_code, qdur_gen in H. destruct a as [x|], b as [y|]; cbn [is_not_none] in H;
      repeat (apply filter_In in H; destruct H as [H ?]); auto.
  - intros x Hx. subst a. unfold qdur_code, qdur_gen in H. destruct b as [y|]; cbn [is_not_none] in H;
      repeat (apply filter_In in H; destruct H as [H ?]); simpl in *; lia.
  - intros y Hy. subst b. unfold qdur_code, qdur_gen in H. destruct a as [x|]; cbn [is_not_none] in H;
      repeat (apply filter_In in H; destruct H as [H ?]); simpl in *; lia.
  - intros [Hin [Ha Hb]]. unfold qdur_code, qdur_gen. destruct a as [x|], b as [y|]; cbn [is_not_none];
      repeat (apply filter_In; split); auto; simpl.
    all: try (specialize (Ha _ eq_refl)); try (specialize (Hb _ eq_refl)); try lia.
  - unfold qdur_code, qdur_gen. destruct (is_not_none a), (is_not_none b); auto using filter_sorted.
  - intros t q H. rewrite (qmap_code_in_force_lemma tab lo NE Hinc). f_equal. apply (qd_at_entry tab lo); auto.
    unfold qdur_code, qdur_gen in H. destruct (is_not_none a), (is_not_none b); auto;
      repeat (apply filter_In in H; destruct H as [H ?]); auto.
Qed.

Lemma qdur_truthy_refuted_lemma :
  qdur_code [(0, 1); (4, 2)] (Some 0) (Some 0) = [] /\ qdur_truthy [(0, 1); (4, 2)] (Some 0) (Some 0) = [(0, 1); (4, 2)] /\
  ~ in_range (Some 0) (Some 0) 4.
Proof. split; [|split]; try reflexivity. intros [_ H]. specialize (H 0 eq_refl). lia. Qed.
