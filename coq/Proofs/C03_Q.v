(* C03 -- proofs, part 3: the reader in quarters (interp_q, used by the whole-part correspondence (b))
   is the division-axis reader (interp, the one the export theorems speak about) scaled by the
   divisions in force: on every stream without a change of divisions (barlines allowed), started in
   related states, it outputs the same notes in the same order, each at  c + onset/q  with duration
   dur/q  (c: the quarter position of division 0 of that stretch). *)
From PV Require Import Lib.Base Model.C03.
From Coq Require Import QArith.
#[local] Open Scope Z_scope.

#[local] Arguments Qred : simpl never.
#[local] Arguments qadv : simpl never.
#[local] Arguments qmaxq : simpl never.

Definition zq (q z : Z) : Q := z # Z.to_pos q.
Definition qof (c : Q) (q z : Z) : Q := (c + zq q z)%Q.

Definition rel (c : Q) (q : Z) (si : ist) (sq : qst) : Prop :=
  (qpos sq == qof c q (ipos si))%Q /\ (qlast sq == qof c q (ilast si))%Q /\
  (qmax sq == qof c q (imax si))%Q /\ qdiv sq = q.

Definition no_div (es : list elem) : Prop :=
  Forall (fun e => match e with EDivisions _ => False | _ => True end) es.

(* interp_q with its final state *)
Fixpoint interp_qs (es : list elem) (s : qst) : list (Z * Q * Q) * qst :=
  match es with
  | [] => ([], s)
  | e :: r => let (a, s1) := qstep e s in let (b, s2) := interp_qs r s1 in (a ++ b, s2)
  end.

Lemma interp_qs_fst es : forall s, fst (interp_qs es s) = interp_q es s.
Proof.
  induction es as [|e r IH]; intros s; simpl; [reflexivity|].
  destruct (qstep e s) as [a s1]. rewrite <- IH. destruct (interp_qs r s1). reflexivity.
Qed.

(* the notes of the two outputs correspond *)
Fixpoint note_rel (c : Q) (q : Z) (pl : list placed) (ql : list (Z * Q * Q)) : Prop :=
  match pl with
  | [] => ql = []
  | POther _ _ :: pr => note_rel c q pr ql
  | PNote i s d :: pr =>
      match ql with
      | (i', o, dq) :: qr => i = i' /\ (o == qof c q s)%Q /\ (dq == zq q d)%Q /\ note_rel c q pr qr
      | [] => False
      end
  end.

Lemma note_rel_app c q : forall a b x y,
  note_rel c q a x -> note_rel c q b y -> note_rel c q (a ++ b) (x ++ y).
Proof.
  induction a as [|p a IH]; intros b x y Ha Hb; simpl in *.
  - subst x. exact Hb.
  - destruct p as [i s d|t s].
    + destruct x as [|[[i' o] dq] x]; [contradiction|].
      destruct Ha as (E1 & E2 & E3 & Ha). simpl. repeat split; try assumption.
      apply IH; assumption.
    + apply IH; assumption.
Qed.

Lemma zq_plus q a b : (zq q a + zq q b == zq q (a + b))%Q.
Proof. unfold zq. apply Qinv_plus_distr. Qed.

Lemma qof_plus c q z d : (qof c q z + zq q d == qof c q (z + d))%Q.
Proof. unfold qof. rewrite <- Qplus_assoc, zq_plus. reflexivity. Qed.

Lemma zq_le q a b : (zq q a <= zq q b)%Q <-> a <= b.
Proof.
  unfold zq, Qle. simpl. split; intros H.
  - apply Zmult_le_reg_r in H; [exact H|]. apply Z.lt_gt, Pos2Z.is_pos.
  - apply Zmult_le_compat_r; [exact H|]. apply Pos2Z.is_nonneg.
Qed.

Lemma qof_le c q a b : (qof c q a <= qof c q b)%Q <-> a <= b.
Proof.
  unfold qof. rewrite <- zq_le with (q := q). split; intros H.
  - apply Qplus_le_r in H. exact H.
  - apply Qplus_le_r. exact H.
Qed.

Lemma qadv_spec p d q : (qadv p d q == p + zq q d)%Q.
Proof. unfold qadv, zq. apply Qred_correct. Qed.

Lemma qmaxq_spec c q a b x y :
  (a == qof c q x)%Q -> (b == qof c q y)%Q -> (qmaxq a b == qof c q (Z.max x y))%Q.
Proof.
  intros Ha Hb. unfold qmaxq. destruct (Qle_bool a b) eqn:E.
  - apply Qle_bool_iff in E. rewrite Ha, Hb in E. apply qof_le in E.
    rewrite Z.max_r by exact E. exact Hb.
  - assert (H : ~ (a <= b)%Q) by (intros H; apply Qle_bool_iff in H; congruence).
    rewrite Ha, Hb in H. rewrite qof_le in H.
    rewrite Z.max_l by lia. exact Ha.
Qed.

Lemma step_rel c q e si sq :
  match e with EDivisions _ => False | _ => True end ->
  rel c q si sq ->
  note_rel c q (fst (istep e si)) (fst (qstep e sq)) /\ rel c q (snd (istep e si)) (snd (qstep e sq)).
Proof.
  intros He (Rp & Rl & Rm & Rd).
  destruct e as [id d ch g v|d|d|t|q'|]; simpl in *; try contradiction.
  - (* note *)
    destruct g; simpl.
    + split.
      * split; [reflexivity|]. split; [destruct ch; assumption|].
        split; [unfold zq, Qeq; simpl; reflexivity|reflexivity].
      * unfold rel. repeat split; assumption.
    + rewrite Rd. split.
      * split; [reflexivity|]. split; [destruct ch; assumption|].
        split; [unfold zq; apply Qred_correct|reflexivity].
      * unfold rel; simpl. destruct ch; simpl.
        -- refine (conj _ (conj _ (conj _ _))); try assumption; try reflexivity.
           apply qmaxq_spec; assumption.
        -- assert (Hp : (qadv (qpos sq) d q == qof c q (ipos si + d))%Q).
           { rewrite qadv_spec, Rp. apply qof_plus. }
           refine (conj _ (conj _ (conj _ _))); try assumption; try reflexivity.
           apply qmaxq_spec; assumption.
  - (* forward *)
    rewrite Rd.
    assert (Hp : (qadv (qpos sq) d q == qof c q (ipos si + d))%Q).
    { rewrite qadv_spec, Rp. apply qof_plus. }
    split; [reflexivity|]. unfold rel; simpl.
    refine (conj _ (conj _ (conj _ _))); try assumption; try reflexivity.
    apply qmaxq_spec; assumption.
  - (* backup *)
    rewrite Rd.
    assert (Hp : (qadv (qpos sq) (- d) q == qof c q (ipos si - d))%Q).
    { rewrite qadv_spec, Rp. replace (ipos si - d) with (ipos si + - d) by lia. apply qof_plus. }
    split; [reflexivity|]. unfold rel; simpl.
    refine (conj _ (conj _ (conj _ _))); try assumption; try reflexivity.
  - (* other *)
    split; [reflexivity|]. unfold rel. refine (conj _ (conj _ (conj _ _))); try assumption; try reflexivity.
  - (* barline *)
    split; [reflexivity|]. unfold rel; simpl. refine (conj _ (conj _ (conj _ _))); try assumption; try reflexivity.
Qed.

Lemma interp_q_scales_lemma : forall es c q si sq,
  no_div es -> rel c q si sq ->
  note_rel c q (fst (interp es si)) (interp_q es sq) /\
  rel c q (snd (interp es si)) (snd (interp_qs es sq)).
Proof.
  induction es as [|e r IH]; intros c q si sq Hn HR.
  - simpl. split; [reflexivity|exact HR].
  - inversion Hn as [|x y He Hr]; subst x y.
    destruct (step_rel c q e si sq He HR) as [S1 S2].
    rewrite <- interp_qs_fst. simpl.
    destruct (istep e si) as [a si1]. destruct (qstep e sq) as [b sq1]. simpl in S1, S2.
    destruct (IH c q si1 sq1 Hr S2) as [I1 I2].
    rewrite <- interp_qs_fst in I1.
    destruct (interp r si1) as [a' si2]. destruct (interp_qs r sq1) as [b' sq2]. simpl in *.
    split; [apply note_rel_app; assumption|exact I2].
Qed.

(* the start state of a whole part (check_part) is related to the start state of the first measure *)
Lemma rel_start q : rel 0 q (mkI 0 0 0) (mkQ 0 0 0 q).
Proof. unfold rel, qof, zq; simpl. repeat split; reflexivity. Qed.

Example no_div_example :
  no_div [EBar; ENote 1 4 false false 1; ENote 2 4 true false 1; EBackup 4; EForward 2; EBar; ENote 3 0 false true 1].
Proof. repeat constructor. Qed.
