(* C01 -- the argument glue of Part.iter_all (Model/C01_Args.v): for every kind of bound (None / number / TimePoint
   object), every mode value and cls=None the call is the list-level iter_all of the half-open window, hence returns
   precisely the matching registered objects in time order. *)
From PV Require Import Lib.Base Gen.C01_ClassTree Model.C01 Model.C01_Spec Model.C01_Idx Model.C01_Args
  Proofs.C01_lib Proofs.C01_inv Proofs.C01_main Proofs.C01_query Proofs.C01_idx.
From Coq Require Import Sorting.Sorted.

Lemma iter_all_args_eq_lemma p c a b sub m : InvW p ->
  iter_all_args p c a b sub m = iter_all p c (b_opt a) (b_opt b) (sub_eff c sub) (mode_side m).
Proof.
  intros I. destruct (queries_idx_eq_lemma p I) as [Q _]. rewrite <- Q.
  unfold iter_all_args, iter_all_args_gen, iter_all_idx. destruct a, b; reflexivity.
Qed.

Lemma iter_all_args_spec_lemma p c a b sub m : InvW p ->
  (forall t o, In (t, o) (iter_all_args p c a b sub m) <->
               oref (mode_side m) p o = Some t /\ in_range (b_opt a) (b_opt b) t /\ cls_match c (sub_eff c sub) o) /\
  NoDup (iter_all_args p c a b sub m) /\
  StronglySorted Z.le (map fst (iter_all_args p c a b sub m)).
Proof. intros I. rewrite (iter_all_args_eq_lemma p c a b sub m I). apply iter_all_spec_lemma; auto. Qed.

(* along histories *)
Lemma iter_all_args_history_lemma q0 ops c a b sub m : mixed_run (init q0) ops ->
  let p := run (init q0) ops in
  forall t o, In (t, o) (iter_all_args p c a b sub m) <->
              oref (mode_side m) p o = Some t /\ in_range (b_opt a) (b_opt b) t /\ cls_match c (sub_eff c sub) o.
Proof.
  intros V p. destruct (reachable_mixed_lemma q0 ops V) as [I _]. apply (iter_all_args_spec_lemma p c a b sub m I).
Qed.

Definition args_ex_ops : list op := [OAdd (0, 0) (Some 3) (Some 5); OAdd (0, 1) (Some 0) (Some 3)].

(* the statement discriminates: with the truthiness test the end bound 0 is treated as omitted *)
Lemma iter_all_args_truthy_refuted_lemma :
  let p := run (init 1) args_ex_ops in
  mixed_run (init 1) args_ex_ops /\
  iter_all_args p None (BNum 0) (BNum 0) false MStarting = [] /\
  iter_all_args_truthy p None (BNum 0) (BNum 0) false MStarting = [(0, (0, 1)); (3, (0, 0))] /\
  iter_all_args_truthy p None (BTp 0) (BTp 0) false MStarting = [] /\
  ~ in_range (b_opt (BNum 0)) (b_opt (BNum 0)) 3.
Proof.
  cbv zeta. split; [|split; [|split; [|split]]]; try (vm_compute; reflexivity).
  - unfold args_ex_ops. cbn [mixed_run]. repeat split; left; split; intros t E; injection E as <-; (split; [lia | vm_compute; reflexivity]).
  - intros [_ H]. specialize (H 0 eq_refl). lia.
Qed.

Lemma iter_all_args_nontrivial_lemma :
  let p := run (init 1) args_ex_ops in
  iter_all_args p None BNone BNone false MOther = [(0, (0, 1)); (3, (0, 0))] /\
  iter_all_args p (Some 0) (BTp 3) (BNum 6) false MEnding = [(3, (0, 1)); (5, (0, 0))] /\
  iter_all_args p (Some 0) (BNum 1) BNone false MStarting = [(3, (0, 0))].
Proof. vm_compute. repeat split; reflexivity. Qed.
