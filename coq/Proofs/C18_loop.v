(* C18 -- the array-level model of decode_time (Model/C18_Loop.v: cumsum, zero array, one write per cell in the
   order of the groups, shift after the loop) refines the per-note decoder of Model/C18.v that every round-trip
   theorem is about.  Closed under the global context. *)
From Coq Require Import ZArith QArith Qabs Qround List Bool Lia Setoid.
From PV Require Import Lib.Base Lib.Round Model.C18 Model.C18_Check Model.C18_Loop Proofs.C18 Proofs.C18_glue.
Import ListNotations.
#[local] Open Scope Q_scope.

(* ---------- array update ---------- *)
Lemma upd_length {A} (l : list A) : forall j v, List.length (upd l j v) = List.length l.
Proof. induction l as [|a r IH]; intros [|j] v; simpl; auto. Qed.

Lemma upd_nth_same {A} (l : list A) : forall j v d, (j < List.length l)%nat -> nth j (upd l j v) d = v.
Proof.
  induction l as [|a r IH]; intros [|j] v d H; simpl in *; try lia; auto.
  apply IH. lia.
Qed.

Lemma upd_nth_other {A} (l : list A) : forall a j v d, a <> j -> nth j (upd l a v) d = nth j l d.
Proof.
  induction l as [|x r IH]; intros [|a] [|j] v d H; simpl; auto; try congruence.
Qed.

Lemma write_group_length h : forall jj perf, List.length (write_group h perf jj) = List.length perf.
Proof.
  induction jj as [|j r IH]; intros perf; simpl; auto.
  rewrite IH. apply upd_length.
Qed.

(* after performance[jj] = h(jj): the cells listed in jj hold h, the others what they held *)
Lemma write_group_nth h d : forall jj perf j, (j < List.length perf)%nat ->
  nth j (write_group h perf jj) d = if existsb (Nat.eqb j) jj then h j else nth j perf d.
Proof.
  induction jj as [|a r IH]; intros perf j Hj; simpl; auto.
  rewrite IH by (rewrite upd_length; exact Hj).
  destruct (existsb (Nat.eqb j) r).
  - rewrite orb_true_r. reflexivity.
  - rewrite orb_false_r. destruct (Nat.eqb j a) eqn:E.
    + apply Nat.eqb_eq in E. subst a. apply upd_nth_same. exact Hj.
    + apply Nat.eqb_neq in E. apply upd_nth_other. congruence.
Qed.

Lemma loop_length f : forall G i perf, List.length (loop f i G perf) = List.length perf.
Proof.
  induction G as [|g r IH]; intros i perf; simpl; auto.
  rewrite IH. apply write_group_length.
Qed.

(* the loop over ANY list of groups: every cell shows the write of the last group that lists it *)
Lemma loop_nth f d : forall G i perf j, (j < List.length perf)%nat ->
  nth j (loop f i G perf) d = match last_writer i G j with Some k => f k j | None => nth j perf d end.
Proof.
  induction G as [|g r IH]; intros i perf j Hj; simpl; auto.
  rewrite IH by (rewrite write_group_length; exact Hj).
  destruct (last_writer (S i) r j); auto.
  rewrite write_group_nth by exact Hj.
  destruct (existsb (Nat.eqb j) g); reflexivity.
Qed.

Lemma last_writer_Some : forall G i j k, last_writer i G j = Some k ->
  exists k', k = (i + k')%nat /\ (k' < List.length G)%nat /\ In j (nth k' G []).
Proof.
  induction G as [|g r IH]; intros i j k H; simpl in H; try discriminate.
  destruct (last_writer (S i) r j) eqn:E.
  - inversion H; subst. destruct (IH _ _ _ E) as [k' [E1 [E2 E3]]].
    exists (S k'). simpl. repeat split; try lia. exact E3.
  - destruct (existsb (Nat.eqb j) g) eqn:Eg; try discriminate. inversion H; subst.
    exists O. simpl. repeat split; try lia. apply existsb_eqb_In. exact Eg.
Qed.

Lemma last_writer_None : forall G i j, (gidx G j < List.length G)%nat -> last_writer i G j <> None.
Proof.
  induction G as [|g r IH]; intros i j H; simpl in *; try lia.
  destruct (existsb (Nat.eqb j) g) eqn:Eg.
  - destruct (last_writer (S i) r j); discriminate.
  - specialize (IH (S i) j). destruct (last_writer (S i) r j); try discriminate.
    exfalso. apply IH; auto. lia.
Qed.

(* ... and over a partition: the write of THE group of the cell *)
Lemma last_writer_partition G n j :
  groups_ok G n = true -> (j < n)%nat -> last_writer 0 G j = Some (gidx G j).
Proof.
  intros HG Hj. pose proof (groups_ok_gidx G n j HG Hj) as Hg.
  destruct (last_writer 0 G j) as [k|] eqn:E.
  - destruct (last_writer_Some _ _ _ _ E) as [k' [E1 [E2 E3]]]. simpl in E1. subst k'.
    destruct (groups_ok_member G n k j HG E2 E3) as [E4 _]. congruence.
  - exfalso. exact (last_writer_None G O j Hg E).
Qed.

Lemma loop_partition f G n :
  groups_ok G n = true ->
  loop f 0 G (repeat (0, 0) n) = map (fun j => f (gidx G j) j) (seq 0 n).
Proof.
  intros HG. apply (nth_ext _ _ (0, 0) (0, 0)).
  - rewrite loop_length, repeat_length, map_length, seq_length. reflexivity.
  - intros j Hj. rewrite loop_length, repeat_length in Hj.
    rewrite loop_nth by (rewrite repeat_length; exact Hj).
    rewrite (last_writer_partition G n j HG Hj).
    rewrite nth_map_seq by exact Hj. reflexivity.
Qed.

Lemma groups_ok_in_range G n : groups_ok G n = true -> in_range G n = true.
Proof.
  intros HG. unfold in_range. apply forallb_forall. intros g Hg. apply forallb_forall. intros m Hm.
  destruct (In_nth G g [] Hg) as [i [Hi Ei]]. subst g.
  destruct (groups_ok_member G n i m HG Hi Hm) as [_ H]. apply Nat.ltb_lt. exact H.
Qed.

(* ---------- cumsum = the recursion eq_on of the per-note model ---------- *)
Lemma cumsum_step : forall l acc i, (i < List.length l)%nat ->
  nth i (cumsum_from acc l) 0 = Qred (nth i (acc :: cumsum_from acc l) 0 + nth i l 0).
Proof.
  induction l as [|a r IH]; intros acc i Hi; simpl in Hi; try lia.
  destruct i as [|i].
  - reflexivity.
  - cbn [cumsum_from]. cbv zeta. cbn [nth]. rewrite IH by lia. reflexivity.
Qed.

Lemma cumsum_cons0 l : cumsum (0 :: l) = 0 :: cumsum_from 0 l.
Proof. reflexivity. Qed.

Lemma map2_nth_Qmult : forall a b i, (i < List.length a)%nat -> (i < List.length b)%nat ->
  nth i (map2 Qmult a b) 0 = nthQ a i * nthQ b i.
Proof.
  unfold nthQ. induction a as [|x a IH]; intros [|y b] i Ha Hb; simpl in *; try lia.
  destruct i as [|i]; [reflexivity|]. apply IH; lia.
Qed.

Lemma map2_length {A B C} (f : A -> B -> C) : forall a b, List.length a = List.length b ->
  List.length (map2 f a b) = List.length a.
Proof.
  induction a as [|x a IH]; intros [|y b] H; simpl in *; try lia. rewrite IH; lia.
Qed.

Lemma cumsum_eq_on ds bps : List.length ds = List.length bps ->
  forall i, (i <= List.length ds)%nat -> nth i (cumsum (0 :: map2 Qmult ds bps)) 0 = eq_on 0 bps ds i.
Proof.
  intros HL. rewrite cumsum_cons0. induction i as [|i IH]; intros Hi.
  - reflexivity.
  - change (nth (S i) (0 :: cumsum_from 0 (map2 Qmult ds bps)) 0)
      with (nth i (cumsum_from 0 (map2 Qmult ds bps)) 0).
    rewrite cumsum_step by (rewrite map2_length by exact HL; lia).
    rewrite IH by lia. rewrite map2_nth_Qmult by lia.
    cbn [eq_on]. apply Qred_complete. ring.
Qed.

Lemma diffs_length_cons : forall r a, List.length (diffs (a :: r)) = List.length r.
Proof.
  induction r as [|b r IH]; intros a; [reflexivity|].
  change (diffs (a :: b :: r)) with ((b - a) :: diffs (b :: r)).
  cbn [List.length]. rewrite IH. reflexivity.
Qed.
Lemma diffs_length l : List.length (diffs l) = pred (List.length l).
Proof. destruct l as [|a r]; [reflexivity|]. rewrite diffs_length_cons. reflexivity. Qed.

(* ---------- decode_time as written = the per-note decoder ---------- *)
Section Refine.
  Variable NP : Type.
  Variable pmean : list NP -> NP.
  Variable rescale : NP -> Q.
  Variable npdefault : NP.
  Variable exp2 : Q -> Q.
  Variables (so sd : list Q) (G : list (list nat)) (P : list (params NP)).
  Let bps := dec_bps NP pmean rescale npdefault G P.
  Let timing := map (p_timing NP) P.
  Let art := map (p_art NP) P.

  Lemma timing_nth j : nthQ timing j = p_timing NP (nth j P (pdefault NP npdefault)).
  Proof. unfold nthQ, timing. apply (map_nth (p_timing NP) P (pdefault NP npdefault) j). Qed.
  Lemma art_nth j : nthQ art j = p_art NP (nth j P (pdefault NP npdefault)).
  Proof. unfold nthQ, art. apply (map_nth (p_art NP) P (pdefault NP npdefault) j). Qed.

  Lemma dt_eq_dec_eq i : (i <= List.length G)%nat ->
    nthQ (dt_eq so sd G bps) i = dec_eq NP pmean rescale npdefault so sd G P i.
  Proof.
    intros Hi. unfold nthQ, dt_eq, dt_ioi, dec_eq.
    assert (HL : List.length (diffs (dt_x so sd G)) = List.length bps).
    { rewrite diffs_length. unfold dt_x, u_onsets. rewrite app_length, map_length. simpl.
      unfold bps, dec_bps. rewrite map_length, seq_length. lia. }
    rewrite cumsum_eq_on; [reflexivity | exact HL |].
    rewrite HL. unfold bps, dec_bps. rewrite map_length, seq_length. exact Hi.
  Qed.

  Theorem decode_time_loop_refines_lemma :
    so <> [] -> groups_ok G (List.length so) = true ->
    decode_time_loop exp2 so sd G bps timing art
    = Some (map (fun r => (fst (fst r), snd (fst r))) (decode NP pmean rescale npdefault exp2 so sd G P)).
  Proof.
    intros Hne HG. unfold decode_time_loop. destruct so as [|s0 sr] eqn:Eso; [congruence|].
    rewrite <- Eso in *. rewrite (groups_ok_in_range _ _ HG). f_equal.
    unfold dt_filled, dt_zeros. rewrite (loop_partition _ _ _ HG).
    assert (Hcell : forall j, (j < List.length so)%nat ->
              dt_cell exp2 so sd G bps timing art (gidx G j) j
              = (dec_raw NP pmean rescale npdefault so sd G P j,
                 dec_dur_with NP npdefault exp2 sd G P bps j)).
    { intros j Hj. unfold dt_cell, dec_raw, dec_dur_with.
      rewrite dt_eq_dec_eq by (pose proof (groups_ok_gidx G _ j HG Hj); lia).
      rewrite timing_nth, art_nth. reflexivity. }
    unfold shift_min, decode. cbv zeta. rewrite !map_map.
    assert (Hraws : map (fun x => fst (dt_cell exp2 so sd G bps timing art (gidx G x) x)) (seq 0 (List.length so))
                    = dec_raws NP pmean rescale npdefault so sd G P).
    { unfold dec_raws. apply map_ext_in. intros j Hj. apply in_seq in Hj. rewrite Hcell by lia. reflexivity. }
    rewrite Hraws. apply map_ext_in. intros j Hj. apply in_seq in Hj. rewrite Hcell by lia.
    cbn [fst snd]. unfold nthQ, dec_raws. rewrite nth_map_seq by lia. reflexivity.
  Qed.
End Refine.

(* the loop over ANY list of groups (packaged for Props/C18.v) *)
Lemma scatter_last_writer_lemma : forall (f : nat -> nat -> row2) G perf j d, (j < List.length perf)%nat ->
  nth j (loop f 0 G perf) d = match last_writer 0 G j with Some k => f k j | None => nth j perf d end.
Proof. intros f G perf j d H. apply loop_nth. exact H. Qed.

(* a partition is needed: with overlapping groups the loop shows the later group's value, the per-note model
   (gidx: the first group) the earlier one *)
Example scatter_overlap_refuted :
  let f := fun (i j : nat) => (inject_Z (Z.of_nat i), 0) in
  let G := [[O; 1%nat]; [1%nat]] in
  groups_ok G 2 = false /\
  loop f 0 G (repeat (0, 0) 2) = [(0, 0); (1, 0)] /\
  map (fun j => f (gidx G j) j) (seq 0 2) = [(0, 0); (0, 0)].
Proof. vm_compute. repeat split. Qed.

(* ---------- O1 for decode_time AS WRITTEN: the array the loop leaves holds the performance ---------- *)
Lemma decode_time_loop_roundtrip_lemma :
  forall (NP : Type) (scale : Q -> NP) (pmean : list NP -> NP) (rescale : NP -> Q) (npdefault : NP)
         (log2 exp2 : Q -> Q),
    (forall x k, 0 < x -> rescale (pmean (repeat (scale x) (S k))) == x) ->
    (forall x, 0 < x -> exp2 (log2 x) == x) ->
  forall (method : Z) (so sd po pd : list Q) (vel : list Z),
    so <> [] -> List.length po = List.length so ->
    onsets_separated so ->
    let Ge := enc_groups so in
    let bp := tempo_curve method (u_onsets so (map2 Qplus so sd) Ge) (u_onsets po (map2 Qplus po pd) Ge) in
    let P := encode NP scale log2 so sd po pd vel Ge bp in
    let G := dec_groups so in
    exists rows,
      decode_time_loop exp2 so sd G (dec_bps NP pmean rescale npdefault G P) (map (p_timing NP) P) (map (p_art NP) P)
      = Some rows /\
      List.length rows = List.length so /\
      (exists shift : Q, forall j, (j < List.length so)%nat -> fst (nth j rows (0, 0)) == nthQ po j + shift) /\
      (forall j, (j < List.length so)%nat -> 0 < nthQ sd j -> 0 < nthQ pd j -> snd (nth j rows (0, 0)) == nthQ pd j).
Proof.
  intros NP scale pmean rescale npdefault log2 exp2 Hn He method so sd po pd vel Hne Hlen Hsep Ge bp P G.
  destruct (codec_roundtrip_separated_lemma NP scale pmean rescale npdefault log2 exp2 Hn He method so sd po pd vel
              Hne Hlen Hsep) as [Hon [Hdur _]].
  fold Ge in Hon, Hdur. fold bp in Hon, Hdur. fold P in Hon, Hdur. fold G in Hon, Hdur.
  set (out := decode NP pmean rescale npdefault exp2 so sd G P) in *.
  exists (map (fun r : Q * Q * Z => (fst (fst r), snd (fst r))) out). split; [|split; [|split]].
  - apply decode_time_loop_refines_lemma; [exact Hne|]. apply codec_groups_partition.
  - rewrite map_length. unfold out, decode. rewrite map_length, seq_length. reflexivity.
  - destruct Hon as [shift Hs]. exists shift. intros j Hj.
    change (0, 0) with ((fun r : Q * Q * Z => (fst (fst r), snd (fst r))) (0, 0, 0%Z)).
    rewrite map_nth. cbn [fst]. apply Hs. exact Hj.
  - intros j Hj H1 H2.
    change (0, 0) with ((fun r : Q * Q * Z => (fst (fst r), snd (fst r))) (0, 0, 0%Z)).
    rewrite map_nth. cbn [snd]. apply Hdur; assumption.
Qed.

(* ---------- the statements discriminate ---------- *)
Definition red2 (l : list row2) : list row2 := map (fun r => (Qred (fst r), Qred (snd r))) l.
(* a chord, unsorted onsets, a grace note: hypotheses hold, the loop returns the per-note decoding *)
Definition lx_so : list Q := [1; 0; 1; 2 # 1; 0].
Definition lx_sd : list Q := [1; 1; 0; 1; 2 # 1].
Definition lx_P : list (params Q) :=
  [mkP Q (1 # 2) (1 # 2) (1 # 8) 1 (1 # 2); mkP Q (3 # 4) (3 # 4) (1 # 1) 2 (1 # 2); mkP Q (1 # 2) (1 # 2) (-(1 # 4)) 1 (1 # 2);
   mkP Q 1 1 0 (1 # 2) (1 # 2); mkP Q (3 # 4) (3 # 4) (1 # 2) 1 (1 # 2)].
Example loop_example :
  lx_so <> [] /\ dec_groups lx_so = [[1%nat; 4%nat]; [O; 2%nat]; [3%nat]] /\
  groups_ok (dec_groups lx_so) (List.length lx_so) = true /\
  option_map red2 (decode_time_loop (fun x => x) lx_so lx_sd (dec_groups lx_so)
    (dec_bps Q meanQ (fun x => x) 0 (dec_groups lx_so) lx_P) (map (p_timing Q) lx_P) (map (p_art Q) lx_P))
  = Some [(13 # 8, 1 # 2); (0, 3 # 2); (2 # 1, 0); (9 # 4, 1 # 2); (1 # 2, 3 # 2)].
Proof. vm_compute. repeat split. discriminate. Qed.

(* the shift indented into the loop (seeded/C18/d_decode_time_min_shift_in_loop): on two single notes the variant
   returns onsets 0, 1 where the per-note decoder -- and the loop as written -- return 0, 2: the distances between
   the decoded onsets are no longer those of the performance *)
Example decode_time_shift_inside_refuted :
  let so := [0; 1] in let sd := [1; 1] in let G := [[O]; [1%nat]] in
  let P := [mkP Q 1 1 1 1 (1 # 2); mkP Q 1 1 0 1 (1 # 2)] in
  let bps := dec_bps Q meanQ (fun x => x) 0 G P in
  so <> [] /\ groups_ok G (List.length so) = true /\ G = dec_groups so /\
  option_map red2 (decode_time_loop_bad (fun x => x) so sd G bps (map (p_timing Q) P) (map (p_art Q) P)) = Some [(0, 1); (1, 1)] /\
  red2 (map (fun r : Q * Q * Z => (fst (fst r), snd (fst r))) (decode Q meanQ (fun x => x) 0 (fun x => x) so sd G P)) = [(0, 1); (2 # 1, 1)] /\
  option_map red2 (decode_time_loop (fun x => x) so sd G bps (map (p_timing Q) P) (map (p_art Q) P)) = Some [(0, 1); (2 # 1, 1)].
Proof. vm_compute. repeat split. discriminate. Qed.
