(* C06 -- load (save p), tracks not merged: the parts that come back, their order, their ids *)
From PV Require Import Lib.Base Lib.Round Model.C12 Model.C06 Proofs.C06_lib Proofs.C06 Proofs.C06_pair Proofs.C06_save Proofs.C06_merge.
From Coq Require Import QArith Sorted Permutation.
#[local] Open Scope Z_scope.

Lemma nth_error_number_from {A} : forall (l : list A) k i a, nth_error l i = Some a ->
  nth_error (number_from k l) i = Some (k + Z.of_nat i, a).
Proof.
  induction l as [|x r IH]; intros k i a H; [destruct i; discriminate|].
  destruct i as [|j]; cbn [nth_error number_from] in *.
  - injection H as ->. f_equal. f_equal. lia.
  - rewrite (IH (k + 1) j a H). f_equal. f_equal. lia.
Qed.
Lemma number_from_length {A} : forall (l : list A) k, List.length (number_from k l) = List.length l.
Proof. induction l as [|x r IH]; intros k; [reflexivity|]. cbn. rewrite IH. reflexivity. Qed.

Lemma Forall2_nth {A B} (R : A -> B -> Prop) : forall l1 l2, List.length l1 = List.length l2 ->
  (forall i a b, nth_error l1 i = Some a -> nth_error l2 i = Some b -> R a b) -> Forall2 R l1 l2.
Proof.
  induction l1 as [|a r IH]; intros [|b r2] L H; try discriminate; constructor.
  - apply (H O); reflexivity.
  - apply IH; [cbn in L; lia|]. intros i x y Hx Hy. apply (H (S i)); assumption.
Qed.

Lemma Forall2_Forall_l {A B} (R : A -> B -> Prop) (P : A -> Prop) l1 l2 :
  Forall2 R l1 l2 -> (forall a b, In b l2 -> R a b -> P a) -> Forall P l1.
Proof.
  induction 1 as [|a b r1 r2 H F IH]; intros G; constructor.
  - apply (G a b); [left; reflexivity|exact H].
  - apply IH. intros x y Hy. apply G. right. exact Hy.
Qed.
Lemma in_number_from' {A} (x : Z * A) : forall l k, In x (number_from k l) -> In (snd x) l.
Proof.
  induction l as [|a r IH]; intros k H; [destruct H|]. cbn [number_from] in H. destruct H as [<-|H]; [left; reflexivity|].
  right. eapply IH. exact H.
Qed.

Lemma filter_all {A} (p : A -> bool) l : Forall (fun x => p x = true) l -> filter p l = l.
Proof. induction 1 as [|x r H HF IH]; [reflexivity|]. cbn. rewrite H, IH. reflexivity. Qed.

Section Tracks.
  Variables (rule ppq mpq : Z).
  Let Qn := quantised rule ppq mpq.
  Definition track_notes (ps : list ppart) (tr : Z) : list lnote := map Qn (filter (fun n => pn_track n =? tr) (all_notes ps)).
  (* the parts read from the saved file before the empty ones are dropped *)
  Definition read_all (file : list (list (Z * msg))) : list lpart :=
    map (fun x => read_track (fst x) (snd x)) (number_from 0 (map (undelta 0) file)).

  Lemma read_all_nth file i t : nth_error file i = Some t ->
    nth_error (read_all file) i = Some (read_track (Z.of_nat i) (undelta 0 t)).
  Proof.
    intros H. unfold read_all. apply (map_nth_error (undelta 0)) in H.
    apply (nth_error_number_from _ 0) in H. apply (map_nth_error (fun x => read_track (fst x) (snd x))) in H.
    exact H.
  Qed.

  (* the part read from the i-th file track: file track i, the notes of the i-th track number in id order *)
  Definition part_is (ps : list ppart) (i_tr : Z * Z) (part : lpart) : Prop :=
    lp_track part = fst i_tr /\
    Permutation (lp_notes part) (track_notes ps (snd i_tr)) /\
    StronglySorted (fun a b => lex4_le (lnote_key a) (lnote_key b)) (lp_notes part).

  Theorem save_load_parts_lemma dmpq ps : notes_ok rule ppq mpq ps ->
    (forall tr, In tr (save_tracks rule ppq mpq ps) -> exists n, In n (all_notes ps) /\ pn_track n = tr) ->
    Forall2 (fun part i_tr => part_is ps i_tr part)
            (fst (load dmpq false (save rule ppq mpq false ps))) (number_from 0 (save_tracks rule ppq mpq ps)).
  Proof.
    intros Hok Hne. destruct (save_load_notes_lemma rule ppq mpq ps Hok) as (HL & HN & _).
    rewrite load_unmerged_parts_lemma. fold (read_all (save rule ppq mpq false ps)).
    set (file := save rule ppq mpq false ps) in *. set (trs := save_tracks rule ppq mpq ps) in *.
    assert (F : Forall2 (fun part i_tr => part_is ps i_tr part) (read_all file) (number_from 0 trs)).
    { apply Forall2_nth.
      - unfold read_all. rewrite map_length, !number_from_length, map_length. exact HL.
      - intros i part [k tr] Hp Hk.
        assert (Ht : nth_error trs i = Some tr /\ k = Z.of_nat i).
        { destruct (nth_error trs i) as [tr'|] eqn:E.
          - rewrite (nth_error_number_from trs 0 i tr' E) in Hk. injection Hk as <- <-. split; [reflexivity|lia].
          - exfalso. apply nth_error_None in E. assert (nth_error (number_from 0 trs) i <> None) by congruence.
            apply nth_error_Some in H. rewrite number_from_length in H. lia. }
        destruct Ht as [Ht ->]. destruct (HN i tr Ht) as (t & Hf & P).
        rewrite (read_all_nth file i t Hf) in Hp. injection Hp as <-.
        split; [reflexivity|split; [exact P|]]. unfold read_track. cbn [lp_notes]. apply ids_sorted_perm_lemma. }
    rewrite filter_all; [exact F|].
    apply (Forall2_Forall_l _ _ _ _ F). intros part [k tr] Hin (_ & P & _).
    apply in_number_from' in Hin. cbn [snd] in Hin. destruct (Hne tr Hin) as (n & Hn & Ht).
    assert (Hq : In (Qn n) (track_notes ps tr)).
    { unfold track_notes. apply in_map. apply filter_In. split; [exact Hn|]. lia. }
    apply (Permutation_in _ (Permutation_sym P)) in Hq. unfold nonempty_part.
    destruct (lp_notes part); [destruct Hq|reflexivity].
  Qed.
End Tracks.

(* non-vacuity: in ex_ps both track numbers carry a note *)
Lemma save_load_parts_example_lemma :
  (forall tr, In tr (save_tracks 0 480 500000 ex_ps) -> exists n, In n (all_notes ex_ps) /\ pn_track n = tr) /\
  map lp_track (fst (load 500000 false (save 0 480 500000 false ex_ps))) = [0; 1].
Proof.
  split; [|vm_compute; reflexivity].
  intros tr H. assert (E : save_tracks 0 480 500000 ex_ps = [0; 1]) by (vm_compute; reflexivity).
  rewrite E in H. destruct H as [<-|[<-|[]]].
  - exists (mkPN 0 0 60 64 0 (1 # 2)). split; [left; reflexivity|reflexivity].
  - exists (mkPN 1 0 60 90 (1 # 10) (7 # 10)). split; [|reflexivity]. unfold all_notes, ex_ps. cbn. auto 10.
Qed.

(* ---- the order of the file tracks *)
Lemma zrange_In_iff : forall n lo x, In x (zrange lo n) <-> lo <= x < lo + Z.of_nat n.
Proof.
  induction n as [|n IH]; intros lo x; cbn [zrange In].
  - lia.
  - rewrite IH. lia.
Qed.
Lemma zrange_strict : forall n lo, StronglySorted Z.lt (zrange lo n).
Proof.
  induction n as [|n IH]; intros lo; cbn [zrange]; constructor; [apply IH|].
  apply Forall_forall. intros x Hx. apply zrange_In_iff in Hx. lia.
Qed.
Lemma zstrict_ext : forall l1 l2 : list Z, StronglySorted Z.lt l1 -> StronglySorted Z.lt l2 ->
  (forall x, In x l1 <-> In x l2) -> l1 = l2.
Proof.
  induction l1 as [|a r1 IH]; intros l2 S1 S2 H.
  - destruct l2 as [|b r2]; [reflexivity|]. exfalso. apply (H b). left. reflexivity.
  - destruct l2 as [|b r2]; [exfalso; apply (H a); left; reflexivity|].
    inversion S1 as [|? ? S1' F1]; subst. inversion S2 as [|? ? S2' F2]; subst.
    rewrite Forall_forall in F1, F2.
    assert (E : a = b).
    { destruct (proj1 (H a) (or_introl eq_refl)) as [E|Ha]; [symmetry; exact E|].
      destruct (proj2 (H b) (or_introl eq_refl)) as [E|Hb]; [exact E|].
      specialize (F1 b Hb). specialize (F2 a Ha). lia. }
    subst b. f_equal. apply IH; auto. intros x. split; intros Hx.
    + destruct (proj1 (H x) (or_intror Hx)) as [E|G]; [|exact G]. subst x. specialize (F1 a Hx). lia.
    + destruct (proj2 (H x) (or_intror Hx)) as [E|G]; [|exact G]. subst x. specialize (F2 a Hx). lia.
Qed.
Lemma zleb_total a b : Z.leb a b = false -> Z.leb b a = true.
Proof. lia. Qed.
Lemma zleb_trans a b c : Z.leb a b = true -> Z.leb b c = true -> Z.leb a c = true.
Proof. lia. Qed.
Lemma sorted_uniq_strict l : StronglySorted Z.lt (sorted_uniq l).
Proof.
  pose proof (sorted_uniq_NoDup l) as N. unfold sorted_uniq in *.
  pose proof (sort_le_sorted Z.leb zleb_total zleb_trans (zuniq l)) as S.
  induction S as [|x r S IH HF]; [constructor|]. inversion N as [|? ? Hx Nr]; subst.
  constructor; [apply IH; exact Nr|]. rewrite Forall_forall in *. intros y Hy.
  specialize (HF y Hy). unfold le_of in HF. assert (x <> y) by (intros ->; contradiction). lia.
Qed.

(* the track numbers written are those of the events, in increasing order; when they are 0 .. n-1 (what
   Performance(...) guarantees) the k-th file track is track number k *)
Lemma save_tracks_range_lemma rule ppq mpq ps n :
  (forall tr, In tr (map ev_track (emit_parts rule ppq mpq [] ps)) <-> 0 <= tr < Z.of_nat n) ->
  save_tracks rule ppq mpq ps = zrange 0 n /\
  number_from 0 (save_tracks rule ppq mpq ps) = map (fun k => (k, k)) (zrange 0 n).
Proof.
  intros H. assert (E : save_tracks rule ppq mpq ps = zrange 0 n).
  { apply zstrict_ext; [apply sorted_uniq_strict|apply zrange_strict|].
    intros x. unfold save_tracks. rewrite sorted_uniq_In, zrange_In_iff, H. lia. }
  split; [exact E|]. rewrite E. generalize 0 at 1 2 3. clear. induction n as [|n IH]; intros lo; [reflexivity|].
  cbn [zrange number_from map]. rewrite IH. reflexivity.
Qed.
