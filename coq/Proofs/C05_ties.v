(* C05 -- tie chains: duration_tied is the sum over the chain, chains of the heads partition the
   notes (every sounding note is covered by exactly one row). *)
From PV Require Import Lib.Base Model.C05 Model.C05_Spec.
From Coq Require Import Sorting.Permutation Arith.PeanoNat Wf_nat.
#[local] Open Scope Z_scope.

Lemma find_oid_some k ns m : find_oid k ns = Some m -> In m ns /\ n_oid m = k.
Proof.
  induction ns as [|n r IH]; simpl; [discriminate|].
  destruct (Z.eqb (n_oid n) k) eqn:E.
  - intros H; injection H as <-. split; [left; reflexivity | lia].
  - intros H. destruct (IH H). split; [right; assumption | assumption].
Qed.

Lemma find_oid_In ns m : NoDup (map n_oid ns) -> In m ns -> find_oid (n_oid m) ns = Some m.
Proof.
  induction ns as [|n r IH]; simpl; [tauto|]. intros ND [->|H].
  - rewrite Z.eqb_refl. reflexivity.
  - inversion ND as [|? ? Hn ND']; subst.
    destruct (Z.eqb (n_oid n) (n_oid m)) eqn:E.
    + exfalso. apply Hn. apply Z.eqb_eq in E. rewrite E. apply in_map, H.
    + apply IH; assumption.
Qed.

Lemma oid_inj ns a b : NoDup (map n_oid ns) -> In a ns -> In b ns -> n_oid a = n_oid b -> a = b.
Proof.
  intros ND Ha Hb E. pose proof (find_oid_In ns a ND Ha) as Fa.
  pose proof (find_oid_In ns b ND Hb) as Fb. rewrite E in Fa. congruence.
Qed.

(* ---------- fuel-based functions vs the relation ---------- *)

Lemma chain_sound ns fuel : forall n l, chain ns fuel n = Some l -> tie_chain ns n l.
Proof.
  induction fuel as [|f IH]; simpl; intros n l; [discriminate|].
  destruct (n_tie_next n) as [k|] eqn:E.
  - destruct (find_oid k ns) as [m|] eqn:F; [|discriminate].
    destruct (chain ns f m) as [l'|] eqn:C; [|discriminate].
    intros H; injection H as <-. eapply tc_step; eauto.
  - intros H; injection H as <-. apply tc_last, E.
Qed.

Lemma chain_complete ns n l : tie_chain ns n l ->
  forall fuel, (List.length l <= fuel)%nat -> chain ns fuel n = Some l.
Proof.
  induction 1 as [n E | n k m l E F T IH]; intros fuel Hf; destruct fuel as [|f]; simpl in *; try lia.
  - rewrite E. reflexivity.
  - rewrite E, F, (IH f) by lia. reflexivity.
Qed.

Lemma tie_chain_det ns n l : tie_chain ns n l -> forall l', tie_chain ns n l' -> l = l'.
Proof.
  induction 1 as [n E | n k m l E F T IH]; intros l' H'; inversion H'; subst; try congruence.
  f_equal. apply IH. congruence.
Qed.

Lemma duration_tied_chain ns fuel : forall n,
  duration_tied ns fuel n = option_map sum_dur (chain ns fuel n).
Proof.
  induction fuel as [|f IH]; simpl; intros n; [reflexivity|].
  destruct (n_tie_next n) as [k|]; [|simpl; f_equal; lia].
  destruct (find_oid k ns) as [m|]; [|reflexivity].
  rewrite IH. destruct (chain ns f m); reflexivity.
Qed.

(* row duration = sum of the durations along the tie chain *)
Lemma row_duration_is_chain_sum_lemma ns fuel n d :
  duration_tied ns fuel n = Some d -> exists l, tie_chain ns n l /\ d = sum_dur l.
Proof.
  rewrite duration_tied_chain. destruct (chain ns fuel n) as [l|] eqn:C; simpl; [|discriminate].
  intros H; injection H as <-. exists l. split; [eapply chain_sound; eauto | reflexivity].
Qed.

Lemma chain_sum_is_row_duration ns n l fuel :
  tie_chain ns n l -> (List.length l <= fuel)%nat -> duration_tied ns fuel n = Some (sum_dur l).
Proof.
  intros T Hf. rewrite duration_tied_chain, (chain_complete _ _ _ T fuel Hf). reflexivity.
Qed.

(* ---------- existence of chains under well-formed links ---------- *)

Lemma list_max_ge (f : note -> nat) ns n : In n ns -> (f n <= list_max (map f ns))%nat.
Proof.
  induction ns as [|x r IH]; simpl; [tauto|]. intros [->|H]; [lia|]. specialize (IH H). lia.
Qed.

Lemma chain_exists ns : wf_ties ns -> forall n, In n ns ->
  exists l, tie_chain ns n l /\ incl l ns /\ NoDup l /\ hd_error l = Some n.
Proof.
  intros [ND WN WP [rank AC]].
  set (B := S (list_max (map rank ns))).
  assert (HB : forall n, In n ns -> (rank n < B)%nat)
    by (intros n Hn; pose proof (list_max_ge rank ns n Hn); unfold B; lia).
  assert (G : forall k n, In n ns -> (B - rank n <= k)%nat ->
              exists l, tie_chain ns n l /\ incl l ns /\ NoDup l /\
                        Forall (fun x => (rank n <= rank x)%nat) l /\ hd_error l = Some n).
  { induction k as [|k IH]; intros n Hn Hk.
    - specialize (HB n Hn). lia.
    - destruct (n_tie_next n) as [j|] eqn:E.
      + destruct (WN n j Hn E) as [m [Hm [Om Pm]]].
        assert (F : find_oid j ns = Some m) by (rewrite <- Om; apply find_oid_In; assumption).
        assert (R : (rank n < rank m)%nat) by (apply AC; [assumption|assumption|congruence]).
        destruct (IH m Hm ltac:(lia)) as [l [T [I [N [Fr Hd]]]]].
        exists (n :: l). repeat split.
        * eapply tc_step; eauto.
        * intros x [<-|Hx]; [assumption | apply I, Hx].
        * constructor; [|assumption]. intros Hin.
          rewrite Forall_forall in Fr. specialize (Fr n Hin). lia.
        * constructor; [lia|]. eapply Forall_impl; [|exact Fr]. simpl. intros; lia.
      + exists [n]. repeat split.
        * apply tc_last, E.
        * intros x [<-|[]]; assumption.
        * constructor; [intros []|constructor].
        * constructor; [lia|constructor]. }
  intros n Hn. destruct (G (B - rank n)%nat n Hn (le_n _)) as [l [T [I [N [_ Hd]]]]].
  exists l. auto.
Qed.

(* with well-formed links the fuel [length ns] always suffices *)
Lemma duration_tied_total_lemma ns : wf_ties ns -> forall n, In n ns ->
  exists l, tie_chain ns n l /\ duration_tied ns (List.length ns) n = Some (sum_dur l).
Proof.
  intros W n Hn. destruct (chain_exists ns W n Hn) as [l [T [I [N _]]]].
  exists l. split; [assumption|].
  apply chain_sum_is_row_duration; [assumption|]. apply NoDup_incl_length; assumption.
Qed.

(* ---------- reachability; every note lies in the chain of exactly one head ---------- *)

Lemma reach_In ns h m : In h ns -> reach ns h m -> In m ns.
Proof. intros Hh R. induction R; auto. Qed.

Lemma reach_left ns h m0 x :
  n_tie_next h = Some (n_oid m0) -> In m0 ns -> reach ns m0 x -> reach ns h x.
Proof.
  intros E Hm R. induction R as [n | a n m R IH E' Hm'].
  - eapply reach_step; [apply reach_refl | exact E | exact Hm].
  - eapply reach_step; [apply IH; assumption | exact E' | exact Hm'].
Qed.

Lemma chain_reach ns h l : NoDup (map n_oid ns) -> tie_chain ns h l ->
  forall m, In m l -> reach ns h m.
Proof.
  intros ND T. induction T as [n E | n k m0 l E F T IH]; intros m Hm.
  - destruct Hm as [<-|[]]. apply reach_refl.
  - destruct Hm as [<-|Hm]; [apply reach_refl|].
    destruct (find_oid_some _ _ _ F) as [Hin Ho].
    eapply reach_left; [rewrite Ho; exact E | exact Hin | apply IH, Hm].
Qed.

Lemma tie_chain_head ns h l : tie_chain ns h l -> In h l.
Proof. intros T; inversion T; subst; left; reflexivity. Qed.

Lemma chain_closed ns h l : NoDup (map n_oid ns) -> tie_chain ns h l ->
  forall n m, In n l -> n_tie_next n = Some (n_oid m) -> In m ns -> In m l.
Proof.
  intros ND T. induction T as [n0 E | n0 k m0 l E F T IH]; intros n m Hn En Hm.
  - destruct Hn as [<-|[]]. congruence.
  - destruct Hn as [<-|Hn].
    + right. assert (m0 = m).
      { rewrite E in En. injection En as ->. rewrite (find_oid_In ns m ND Hm) in F. congruence. }
      subst m0. eapply tie_chain_head; eauto.
    + right. eapply IH; eauto.
Qed.

Lemma reach_chain ns h l : NoDup (map n_oid ns) -> tie_chain ns h l ->
  forall m, reach ns h m -> In m l.
Proof.
  intros ND T m R. induction R as [n | a n m R IH E Hm].
  - eapply tie_chain_head; eauto.
  - eapply chain_closed; eauto.
Qed.

Lemma head_exists ns : wf_ties ns -> forall m, In m ns ->
  exists h, In h ns /\ is_head h = true /\ reach ns h m.
Proof.
  intros [ND WN WP [rank AC]].
  assert (G : forall k m, In m ns -> (rank m <= k)%nat ->
              exists h, In h ns /\ is_head h = true /\ reach ns h m).
  { induction k as [|k IH]; intros m Hm Hk.
    - destruct (n_tie_prev m) as [j|] eqn:E.
      + destruct (WP m j Hm E) as [n [Hn [On En]]].
        pose proof (AC n m Hn Hm En). lia.
      + exists m. repeat split; [assumption | unfold is_head; rewrite E; reflexivity | apply reach_refl].
    - destruct (n_tie_prev m) as [j|] eqn:E.
      + destruct (WP m j Hm E) as [n [Hn [On En]]].
        pose proof (AC n m Hn Hm En).
        destruct (IH n Hn ltac:(lia)) as [h [Hh [Hd R]]].
        exists h. repeat split; [assumption | assumption | eapply reach_step; eauto].
      + exists m. repeat split; [assumption | unfold is_head; rewrite E; reflexivity | apply reach_refl]. }
  intros m Hm. apply (G (rank m) m Hm (le_n _)).
Qed.

Lemma head_unique ns : wf_ties ns -> forall h h' m, In h ns -> In h' ns ->
  is_head h = true -> is_head h' = true -> reach ns h m -> reach ns h' m -> h = h'.
Proof.
  intros [ND WN WP _] h h' m Hh Hh' Dh Dh' R. revert h' Hh' Dh'.
  induction R as [n | a n m R IH E Hm]; intros h' Hh' Dh' R'.
  - (* m = h is a head: it has no predecessor, so h' reaches it only trivially *)
    inversion R' as [|? n' ? R'' E' Hm']; subst; [reflexivity|].
    exfalso. assert (Hn' : In n' ns) by (exact (reach_In ns h' n' Hh' R'')).
    destruct (WN n' _ Hn' E') as [m' [Hm'' [Om Pm]]].
    assert (m' = n) by (eapply oid_inj; eauto). subst m'.
    unfold is_head in Dh. rewrite Pm in Dh. discriminate.
  - assert (Hn : In n ns) by (exact (reach_In ns a n Hh R)).
    destruct (WN n _ Hn E) as [m' [Hm' [Om Pm]]].
    assert (m' = m) by (eapply oid_inj; eauto). subst m'.
    inversion R' as [|? n' ? R'' E' Hm'']; subst.
    + exfalso. unfold is_head in Dh'. rewrite Pm in Dh'. discriminate.
    + assert (Hn' : In n' ns) by (exact (reach_In ns h' n' Hh' R'')).
      destruct (WN n' _ Hn' E') as [m'' [Hm3 [Om' Pm']]].
      assert (m'' = m) by (eapply oid_inj; eauto). subst m''.
      assert (n' = n) by (eapply oid_inj; eauto; congruence). subst n'.
      apply IH; assumption.
Qed.

(* every note of the part lies in the tie chain of exactly one chain head:
   one row per sounding note, a tie chain is one row *)
Lemma every_note_in_exactly_one_chain_lemma ns : wf_ties ns -> forall m, In m ns ->
  exists h, (In h ns /\ is_head h = true /\ exists l, tie_chain ns h l /\ In m l) /\
            forall h', (In h' ns /\ is_head h' = true /\ exists l, tie_chain ns h' l /\ In m l) -> h' = h.
Proof.
  intros W m Hm. destruct (head_exists ns W m Hm) as [h [Hh [Dh R]]].
  pose proof (wf_oids _ W) as ND.
  exists h. split.
  - repeat split; try assumption.
    destruct (chain_exists ns W h Hh) as [l [T _]]. exists l. split; [assumption|].
    eapply reach_chain; eauto.
  - intros h' [Hh' [Dh' [l [T Hl]]]].
    eapply head_unique; eauto. eapply chain_reach; eauto.
Qed.

(* a satisfiable, non-trivial instance: three notes, the first two tied *)
Definition ex_notes : list note :=
  [ mkNote 1 "a" 0 4 None (Some 2) "C" None 4 (Some 1) None None false;
    mkNote 2 "b" 4 12 (Some 1) None "C" None 4 (Some 1) None None false;
    mkNote 3 "c" 4 6 None None "E" (Some (-1)) 4 None (Some 2) (Some "grace"%string) false ].

Lemma ex_notes_wf : wf_ties ex_notes.
Proof.
  constructor.
  - repeat constructor; simpl; intuition congruence.
  - intros n k Hn E. simpl in Hn. destruct Hn as [<-|[<-|[<-|[]]]]; simpl in E; try discriminate.
    injection E as <-. eexists. split; [right; left; reflexivity|]. split; reflexivity.
  - intros m k Hm E. simpl in Hm. destruct Hm as [<-|[<-|[<-|[]]]]; simpl in E; try discriminate.
    injection E as <-. eexists. split; [left; reflexivity|]. split; reflexivity.
  - exists (fun n => Z.to_nat (n_start n)). intros n m Hn Hm E.
    simpl in Hn, Hm.
    destruct Hn as [<-|[<-|[<-|[]]]]; simpl in E; try discriminate;
    destruct Hm as [<-|[<-|[<-|[]]]]; simpl in E; try discriminate; simpl; lia.
Qed.
