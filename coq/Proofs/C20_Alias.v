(* C20 -- proofs about shallow copy + reference replacement (Model/C20_Alias.v). *)
From PV Require Import Lib.Base Model.C20 Model.C20_Mut Model.C20_Alias Proofs.C20 Proofs.C20_Mut.
From Coq Require Import ZArith List Bool Lia Arith.
Import ListNotations.
#[local] Open Scope nat_scope.

Lemma firstn_lset {A} n : forall (l : list A) k x, (n <= k)%nat -> firstn n (lset l k x) = firstn n l.
Proof.
  induction n as [|n IH]; intros l k x L; [reflexivity|].
  destruct l as [|y l]; [reflexivity|]. destruct k as [|k]; [lia|]. simpl. f_equal. apply IH. lia.
Qed.

Lemma firstn_app_le {A} n (a b : list A) : (n <= length a)%nat -> firstn n (a ++ b) = firstn n a.
Proof. intros L. rewrite firstn_app. replace (n - length a)%nat with 0%nat by lia. simpl. apply app_nil_r. Qed.

(* h extends h0: everything that existed in h0 -- every object with all its attributes, every list
   with all its elements -- is in h at the same address with the same content *)
Definition extends (h0 h : aheap) : Prop :=
  firstn (length (h_objs h0)) (h_objs h) = h_objs h0 /\
  firstn (length (h_lists h0)) (h_lists h) = h_lists h0.

Lemma extends_refl h : extends h h.
Proof. split; apply firstn_all. Qed.

Lemma extends_lengths h0 h : extends h0 h ->
  (length (h_objs h0) <= length (h_objs h))%nat /\ (length (h_lists h0) <= length (h_lists h))%nat.
Proof.
  intros [E1 E2]. split.
  - rewrite <- E1 at 1. rewrite firstn_length. lia.
  - rewrite <- E2 at 1. rewrite firstn_length. lia.
Qed.

Lemma extends_copy h0 h o : extends h0 h -> extends h0 (fst (shallow_copy h o)).
Proof.
  intros E. destruct (extends_lengths _ _ E) as [L1 L2]. destruct E as [E1 E2].
  split; cbn [shallow_copy fst h_objs h_lists]; [|exact E2]. now rewrite firstn_app_le.
Qed.

Lemma extends_set_attr h0 h o j v : extends h0 h -> (length (h_objs h0) <= o)%nat -> extends h0 (set_attr h o j v).
Proof.
  intros [E1 E2] L. split; cbn [set_attr h_objs h_lists]; [|exact E2]. now rewrite firstn_lset.
Qed.

Lemma extends_new_list h0 h l : extends h0 h -> extends h0 (mk_aheap (h_objs h) (h_lists h ++ [l])).
Proof.
  intros E. destruct (extends_lengths _ _ E) as [L1 L2]. destruct E as [E1 E2].
  split; cbn [h_objs h_lists]; [exact E1|]. now rewrite firstn_app_le.
Qed.

Lemma set_attr_objs_length h o j v : length (h_objs (set_attr h o j v)) = length (h_objs h).
Proof. cbn [set_attr h_objs]. apply lset_length. Qed.

(* replace_refs on an object that did not exist in h0 leaves h0's objects and lists alone *)
Lemma extends_replace_from m h0 o : (length (h_objs h0) <= o)%nat ->
  forall attrs h j, extends h0 h -> extends h0 (replace_from FreshList m h o j attrs).
Proof.
  intros L. induction attrs as [|a attrs IH]; intros h j E; [exact E|].
  destruct a as [[t|]|a]; cbn [replace_from].
  - apply IH. now apply extends_set_attr.
  - now apply IH.
  - apply IH. apply extends_set_attr; [|exact L]. now apply extends_new_list.
Qed.

Lemma extends_replace_refs m h0 h o : (length (h_objs h0) <= o)%nat -> extends h0 h ->
  extends h0 (replace_refs FreshList m h o).
Proof. intros L E. now apply extends_replace_from. Qed.

(* the copies are new objects *)
Lemma copy_all_spec sel : forall h0 h, extends h0 h ->
  extends h0 (fst (copy_all h sel)) /\
  Forall (fun p : nat * nat => (length (h_objs h0) <= snd p)%nat) (snd (copy_all h sel)) /\
  map fst (snd (copy_all h sel)) = sel.
Proof.
  induction sel as [|o sel IH]; intros h0 h E; [cbn [copy_all fst snd map]; split; [exact E | split; [constructor | reflexivity]]|].
  cbn [copy_all]. destruct (shallow_copy h o) as [h1 o'] eqn:S1.
  pose proof (extends_copy h0 h o E) as E1. rewrite S1 in E1. cbn [fst] in E1.
  destruct (IH h0 h1 E1) as [E2 [F M]]. destruct (copy_all h1 sel) as [h2 m]. cbn [fst snd] in *.
  split; [exact E2|]. split; [|cbn [map fst]; now rewrite M].
  constructor; [|exact F]. cbn [snd]. inversion S1; subst. apply (extends_lengths _ _ E).
Qed.

Lemma fold_replace_extends m h0 : forall os h,
  Forall (fun o => (length (h_objs h0) <= o)%nat) os -> extends h0 h ->
  extends h0 (fold_left (fun h' o' => replace_refs FreshList m h' o') os h).
Proof.
  induction os as [|o os IH]; intros h F E; [exact E|].
  inversion F as [|? ? Ho Fo]; subst. cbn [fold_left]. apply IH; [exact Fo|]. now apply extends_replace_refs.
Qed.

(* THE ARGUMENT IS LEFT AS IT WAS: for every heap, every selection of objects to copy (any order, with
   repetitions), after all copies were made and all their references replaced, every object and every
   list that existed before has its old content; and all copies are new objects *)
Lemma variant_preserves_argument_lemma h sel :
  extends h (fst (variant FreshList h sel)) /\
  Forall (fun p : nat * nat => (length (h_objs h) <= snd p)%nat) (snd (variant FreshList h sel)) /\
  map fst (snd (variant FreshList h sel)) = sel.
Proof.
  unfold variant. destruct (copy_all_spec sel h h (extends_refl h)) as [E [F M]].
  destruct (copy_all h sel) as [h1 m]. cbn [fst snd] in *.
  split; [|split; [exact F | exact M]].
  apply fold_replace_extends; [|exact E].
  apply Forall_forall. intros o Ho. apply in_map_iff in Ho as [p [<- Hp]].
  rewrite Forall_forall in F. now apply F.
Qed.

(* NO SHARING IS LEFT: after replace_refs, every list attribute of the object holds a list that was
   allocated by this very call, and every reference attribute holds the image under o_map *)
Definition attr_fresh (nl : nat) (a : attr) : Prop :=
  match a with AList x => (nl <= x)%nat | ARef _ => True end.

Lemma lset_nth {A} (l : list A) : forall k x d, (k < length l)%nat -> nth k (lset l k x) d = x.
Proof. induction l as [|y l IH]; intros [|k] x d H; simpl in *; try lia; auto. apply IH. lia. Qed.

Lemma lset_nth_neq {A} (l : list A) : forall k k' x d, k <> k' -> nth k' (lset l k x) d = nth k' l d.
Proof. induction l as [|y l IH]; intros [|k] [|k'] x d H; simpl; auto; try congruence. Qed.

Lemma obj_get_set_attr h o j v : (o < length (h_objs h))%nat -> obj_get (set_attr h o j v) o = lset (obj_get h o) j v.
Proof. intros L. unfold obj_get at 1. cbn [set_attr h_objs]. now apply lset_nth. Qed.

Lemma lists_length_replace_from m o : forall attrs h j,
  (length (h_lists h) <= length (h_lists (replace_from FreshList m h o j attrs)))%nat /\
  length (h_objs (replace_from FreshList m h o j attrs)) = length (h_objs h).
Proof.
  induction attrs as [|a attrs IH]; intros h j; [split; auto|].
  destruct a as [[t|]|a]; cbn [replace_from].
  - destruct (IH (set_attr h o j (ARef (remap m (Some t)))) (S j)) as [I1 I2].
    rewrite set_attr_objs_length in I2. cbn [set_attr h_lists] in I1. split; auto.
  - apply IH.
  - destruct (IH (set_attr (mk_aheap (h_objs h) (h_lists h ++ [map (remap m) (list_get h a)])) o j (AList (length (h_lists h)))) (S j)) as [I1 I2].
    rewrite set_attr_objs_length in I2. cbn [set_attr h_lists h_objs] in *. rewrite app_length in I1. simpl in I1.
    split; [lia | exact I2].
Qed.

Lemma lset_app_mid {A} (pre : list A) : forall a r v, lset (pre ++ a :: r) (length pre) v = pre ++ v :: r.
Proof. induction pre as [|y pre IH]; intros a r v; simpl; auto. now rewrite IH. Qed.

Lemma attr_fresh_mono n n' a : (n <= n')%nat -> attr_fresh n' a -> attr_fresh n a.
Proof. destruct a; simpl; auto. lia. Qed.

Lemma replace_from_fresh m o : forall attrs h j pre,
  (o < length (h_objs h))%nat -> obj_get h o = pre ++ attrs -> length pre = j ->
  exists new, obj_get (replace_from FreshList m h o j attrs) o = pre ++ new /\ length new = length attrs /\
              Forall (attr_fresh (length (h_lists h))) new.
Proof.
  induction attrs as [|a attrs IH]; intros h j pre L E J.
  - exists []. cbn [replace_from]. repeat split; auto.
  - assert (STEP : forall h1 v, (o < length (h_objs h1))%nat -> obj_get h1 o = pre ++ v :: attrs ->
             (length (h_lists h) <= length (h_lists h1))%nat -> attr_fresh (length (h_lists h)) v ->
             exists new, obj_get (replace_from FreshList m h1 o (S j) attrs) o = pre ++ new /\
                         length new = length (a :: attrs) /\ Forall (attr_fresh (length (h_lists h))) new).
    { intros h1 v L1 E1 LL FV.
      destruct (IH h1 (S j) (pre ++ [v]) L1) as [new [N1 [N2 N3]]].
      - rewrite E1, <- app_assoc. reflexivity.
      - rewrite app_length. simpl. lia.
      - exists (v :: new). rewrite N1, <- app_assoc. split; [reflexivity|]. split; [simpl; lia|].
        constructor; [exact FV|]. eapply Forall_impl; [|exact N3]. intros x. now apply attr_fresh_mono. }
    destruct a as [[t|]|a]; cbn [replace_from].
    + apply (STEP (set_attr h o j (ARef (remap m (Some t)))) (ARef (remap m (Some t)))).
      * now rewrite set_attr_objs_length.
      * rewrite obj_get_set_attr by exact L. rewrite E, <- J. apply lset_app_mid.
      * cbn [set_attr h_lists]. lia.
      * exact I.
    + apply (STEP h (ARef None)); auto. exact I.
    + apply (STEP (set_attr (mk_aheap (h_objs h) (h_lists h ++ [map (remap m) (list_get h a)])) o j (AList (length (h_lists h))))
                  (AList (length (h_lists h)))).
      * now rewrite set_attr_objs_length.
      * rewrite obj_get_set_attr by exact L. unfold obj_get at 1. cbn [h_objs].
        fold (obj_get h o). rewrite E, <- J. apply lset_app_mid.
      * cbn [set_attr h_lists]. rewrite app_length. lia.
      * simpl. lia.
Qed.

(* after replace_refs on an object, none of its list attributes is a list that existed before the
   call: the copy no longer shares any list with the original *)
Lemma replace_refs_unshares_lemma m h o : (o < length (h_objs h))%nat ->
  length (obj_get (replace_refs FreshList m h o) o) = length (obj_get h o) /\
  Forall (attr_fresh (length (h_lists h))) (obj_get (replace_refs FreshList m h o) o).
Proof.
  intros L. unfold replace_refs.
  destruct (replace_from_fresh m o (obj_get h o) h 0 [] L eq_refl eq_refl) as [new [N1 [N2 N3]]].
  rewrite N1. simpl. split; auto.
Qed.

(* the slip is refuted: with the elements written INTO the list the attribute holds, the original's
   list (shared with the copy) is rewritten; with the code's fresh list the same heap is preserved *)
Definition ex_heap : aheap :=
  (* object 0: a note with tie_next = object 1 and slur_starts = list 0 = [object 2];
     object 1: a note; object 2: a slur with start_note = object 0 *)
  mk_aheap [[ARef (Some 1%nat); AList 0%nat]; [ARef None; AList 1%nat]; [ARef (Some 0%nat)]] [[Some 2%nat]; []].

Lemma inplace_replace_refuted_lemma :
  exists (h : aheap) (sel : list nat),
    ~ extends h (fst (variant InPlaceList h sel)) /\
    list_get (fst (variant InPlaceList h sel)) 0 <> list_get h 0 /\
    extends h (fst (variant FreshList h sel)).
Proof.
  exists ex_heap, [0%nat; 2%nat]. split; [|split].
  - intros [_ E]. vm_compute in E. discriminate.
  - vm_compute. discriminate.
  - split; reflexivity.
Qed.

Example variant_example :
  variant FreshList ex_heap [0%nat; 2%nat]
  = (mk_aheap [[ARef (Some 1%nat); AList 0%nat]; [ARef None; AList 1%nat]; [ARef (Some 0%nat)];
               [ARef None; AList 2%nat]; [ARef (Some 3%nat)]]
              [[Some 2%nat]; []; [Some 4%nat]],
     [(0%nat, 3%nat); (2%nat, 4%nat)]).
Proof. reflexivity. Qed.

(* the checker compares whole heaps *)
Lemma opt_nat_eqb_eq a b : opt_nat_eqb a b = true -> a = b.
Proof. destruct a, b; simpl; try discriminate; auto. intros H. apply Nat.eqb_eq in H. now subst. Qed.

Lemma attr_eqb_eq a b : attr_eqb a b = true -> a = b.
Proof.
  destruct a, b; simpl; try discriminate; intros H.
  - f_equal. now apply opt_nat_eqb_eq.
  - apply Nat.eqb_eq in H. now subst.
Qed.

Lemma alias_ok_meaning_lemma h sel h' :
  alias_ok (h, sel, h') = true -> h' = fst (variant FreshList h sel) /\ extends h h'.
Proof.
  unfold alias_ok, aheap_eqb. intros H. apply andb_true_iff in H as [H1 H2].
  apply (list_eqb_eq _ (list_eqb_eq _ attr_eqb_eq)) in H1.
  apply (list_eqb_eq _ (list_eqb_eq _ opt_nat_eqb_eq)) in H2.
  assert (E : h' = fst (variant FreshList h sel)).
  { destruct h' as [o' l'], (fst (variant FreshList h sel)) as [o l]. cbn [h_objs h_lists] in *. now subst. }
  split; [exact E|]. rewrite E. apply variant_preserves_argument_lemma.
Qed.
