(* C17 -- est_best_connections / pairwise_cost (Model/C17_Contig.v): the greedy global-minimum policy yields a
   matching that covers every stream of the neighbouring contig. *)
From PV Require Import Lib.Base Gen.C17_VSTab Model.C17_Contig Proofs.C17_lib.
#[local] Open Scope Z_scope.

(* ---- row_best / rows_best return unmasked positions, and find one whenever there is one *)

Lemma row_best_some : forall cm row j b jb, row_best cm row j = Some (b, jb) ->
  (j <= jb < j + List.length row)%nat /\ nth jb cm false = false.
Proof.
  intros cm row. induction row as [|x r IH]; intros j b jb H; cbn in H; [discriminate|].
  cbn [List.length].
  destruct (nth j cm false) eqn:M.
  - apply IH in H. destruct H. split; [lia|auto].
  - destruct (row_best cm r (S j)) as [[b' j']|] eqn:R.
    + destruct (b' <? x).
      * inversion H; subst. apply IH in R. destruct R. split; [lia|auto].
      * inversion H; subst. split; [lia|auto].
    + inversion H; subst. split; [lia|auto].
Qed.

Lemma row_best_exists : forall cm row j t, (t < List.length row)%nat -> nth (j + t) cm false = false ->
  row_best cm row j <> None.
Proof.
  intros cm row. induction row as [|x r IH]; intros j t Ht M; cbn in Ht; [lia|].
  cbn [row_best]. destruct t as [|t].
  - rewrite Nat.add_0_r in M. rewrite M.
    destruct (row_best cm r (S j)) as [[b' j']|]; [destruct (b' <? x)|]; discriminate.
  - assert (R : row_best cm r (S j) <> None).
    { apply (IH (S j) t); [lia|]. replace (S j + t)%nat with (j + S t)%nat by lia. exact M. }
    destruct (nth j cm false); [exact R|].
    destruct (row_best cm r (S j)) as [[b' j']|]; [destruct (b' <? x)|]; discriminate.
Qed.

Lemma rows_best_some : forall rm cm rows i b ib, rows_best rm cm rows i = Some (b, ib) ->
  (i <= ib < i + List.length rows)%nat /\ nth ib rm false = false /\
  row_best cm (nth (ib - i) rows []) 0 <> None.
Proof.
  intros rm cm rows. induction rows as [|row rs IH]; intros i b ib H; cbn in H; [discriminate|].
  cbn [List.length].
  assert (REST : forall b ib, rows_best rm cm rs (S i) = Some (b, ib) ->
            (i <= ib < i + S (List.length rs))%nat /\ nth ib rm false = false /\
            row_best cm (nth (ib - i) (row :: rs) []) 0 <> None).
  { intros b0 ib0 R. apply (IH (S i) b0 ib0) in R. destruct R as [R1 [R2 R3]]. split; [lia|split; auto].
    replace (ib0 - i)%nat with (S (ib0 - S i)) by lia. exact R3. }
  destruct (nth i rm false) eqn:M.
  - apply (REST b). exact H.
  - destruct (row_best cm row 0) as [[x jx]|] eqn:RB.
    + assert (HERE : (i <= i < i + S (List.length rs))%nat /\ nth i rm false = false /\
                     row_best cm (nth (i - i) (row :: rs) []) 0 <> None).
      { split; [lia|split; auto]. rewrite Nat.sub_diag. cbn. rewrite RB. discriminate. }
      destruct (rows_best rm cm rs (S i)) as [[b' i']|] eqn:R.
      * destruct (b' <? x); inversion H; subst; [apply (REST b ib eq_refl) | exact HERE].
      * inversion H; subst. exact HERE.
    + apply (REST b). exact H.
Qed.

Lemma rows_best_exists : forall rm cm rows i t, (t < List.length rows)%nat ->
  nth (i + t) rm false = false -> row_best cm (nth t rows []) 0 <> None ->
  rows_best rm cm rows i <> None.
Proof.
  intros rm cm rows. induction rows as [|row rs IH]; intros i t Ht M RB; cbn in Ht; [lia|].
  cbn [rows_best]. destruct t as [|t].
  - rewrite Nat.add_0_r in M. rewrite M. cbn in RB.
    destruct (row_best cm row 0) as [[x jx]|]; [|contradiction].
    destruct (rows_best rm cm rs (S i)) as [[b' i']|]; [destruct (b' <? x)|]; discriminate.
  - assert (R : rows_best rm cm rs (S i) <> None).
    { apply (IH (S i) t); [lia| |exact RB]. replace (S i + t)%nat with (i + S t)%nat by lia. exact M. }
    destruct (if nth i rm false then None else row_best cm row 0) as [[x jx]|]; [|exact R].
    destruct (rows_best rm cm rs (S i)) as [[b' i']|]; [destruct (b' <? x)|]; discriminate.
Qed.

(* ---- masks *)

Fixpoint cnt (l : list bool) : nat := match l with [] => O | b :: r => ((if b then 1 else 0) + cnt r)%nat end.

Lemma cnt_le : forall l, (cnt l <= List.length l)%nat.
Proof. induction l as [|[] l IH]; cbn; lia. Qed.

Lemma free_exists : forall l, (cnt l < List.length l)%nat -> exists t, (t < List.length l)%nat /\ nth t l false = false.
Proof.
  induction l as [|b l IH]; cbn; intros H; [lia|].
  destruct b.
  - destruct IH as [t [Ht Hn]]; [lia|]. exists (S t). split; [lia|exact Hn].
  - exists O. split; [lia|reflexivity].
Qed.

Lemma set_true_length : forall i l, List.length (set_true i l) = List.length l.
Proof. intros i l. revert i. induction l as [|b l IH]; intros [|i]; cbn; auto. Qed.

Lemma set_true_cnt : forall i l, (i < List.length l)%nat -> nth i l false = false ->
  cnt (set_true i l) = S (cnt l).
Proof.
  intros i l. revert i. induction l as [|b l IH]; intros [|i] H M; cbn in *; try lia.
  - subst b. reflexivity.
  - rewrite IH by (auto; lia). lia.
Qed.

Lemma set_true_nth_same : forall i l, (i < List.length l)%nat -> nth i (set_true i l) false = true.
Proof. intros i l. revert i. induction l as [|b l IH]; intros [|i] H; cbn in *; try lia; auto. apply IH. lia. Qed.

Lemma set_true_mono : forall i j l, nth j (set_true i l) false = false -> nth j l false = false.
Proof.
  intros i j l. revert i j. induction l as [|b l IH]; intros [|i] [|j] H; cbn in *; auto; try discriminate.
  eapply IH. exact H.
Qed.

(* ---- the pick is an allowed connection whenever one is left *)

Lemma pick_free : forall nr nc rm cm rows, cost_wf nr nc rows ->
  List.length rm = nr -> List.length cm = nc -> (cnt rm < nr)%nat -> (cnt cm < nc)%nat ->
  (fst (pick rm cm rows) < nr)%nat /\ (snd (pick rm cm rows) < nc)%nat /\
  nth (fst (pick rm cm rows)) rm false = false /\ nth (snd (pick rm cm rows)) cm false = false.
Proof.
  intros nr nc rm cm rows [Wr Wc] Lr Lc Cr Cc.
  destruct (free_exists rm ltac:(lia)) as [t [Ht Mt]].
  destruct (free_exists cm ltac:(lia)) as [u [Hu Mu]].
  assert (RowLen : forall k, (k < nr)%nat -> List.length (nth k rows []) = nc).
  { intros k Hk. apply Wc. apply nth_In. lia. }
  assert (E : rows_best rm cm rows 0 <> None).
  { apply (rows_best_exists rm cm rows 0 t); [lia|exact Mt|].
    apply (row_best_exists cm _ 0 u); [rewrite RowLen by lia; lia| exact Mu]. }
  unfold pick. destruct (rows_best rm cm rows 0) as [[b r]|] eqn:R; [|contradiction].
  apply rows_best_some in R. destruct R as [R1 [R2 R3]]. rewrite Nat.sub_0_r in R3.
  destruct (row_best cm (nth r rows []) 0) as [[x c]|] eqn:RB; [|contradiction].
  apply row_best_some in RB. destruct RB as [B1 B2]. rewrite RowLen in B1 by lia.
  cbn [fst snd]. repeat split; auto; lia.
Qed.

(* ---- the greedy loop: as long as rows are not fewer than columns, the connections made are pairwise
   disjoint in rows and in columns and stay inside the matrix *)

Lemma greedy_spec : forall nr nc rows, cost_wf nr nc rows ->
  forall fuel rm cm, List.length rm = nr -> List.length cm = nc ->
  cnt rm = cnt cm -> (cnt cm + fuel <= nc)%nat -> (nc <= nr)%nat ->
  let res := greedy fuel rm cm rows in
  List.length res = fuel /\
  (forall p, In p res -> (fst p < nr)%nat /\ (snd p < nc)%nat /\
                         nth (fst p) rm false = false /\ nth (snd p) cm false = false) /\
  NoDup (map fst res) /\ NoDup (map snd res).
Proof.
  intros nr nc rows W. induction fuel as [|f IH]; intros rm cm Lr Lc Ceq Cf Hrc; cbn zeta.
  - cbn. split; [reflexivity|]. split; [intros q []|]. split; constructor.
  - cbn [greedy]. set (p := pick rm cm rows).
    destruct (pick_free nr nc rm cm rows W Lr Lc ltac:(lia) ltac:(lia)) as [P1 [P2 [P3 P4]]]. fold p in P1, P2, P3, P4.
    specialize (IH (set_true (fst p) rm) (set_true (snd p) cm)).
    rewrite !set_true_length in IH. rewrite !set_true_cnt in IH by (auto; lia).
    specialize (IH Lr Lc ltac:(lia) ltac:(lia) Hrc). cbv zeta in IH.
    destruct IH as [I1 [I2 [I3 I4]]].
    cbn [List.length map]. split; [lia|]. split; [|split].
    + intros q [<-|Hq]; [repeat split; auto|].
      destruct (I2 q Hq) as [Q1 [Q2 [Q3 Q4]]]. repeat split; auto; eapply set_true_mono; eauto.
    + constructor; [|exact I3]. intros Hin. apply in_map_iff in Hin. destruct Hin as [q [Eq Hq]].
      destruct (I2 q Hq) as [_ [_ [Q3 _]]]. rewrite Eq in Q3.
      rewrite set_true_nth_same in Q3 by lia. discriminate.
    + constructor; [|exact I4]. intros Hin. apply in_map_iff in Hin. destruct Hin as [q [Eq Hq]].
      destruct (I2 q Hq) as [_ [_ [_ Q4]]]. rewrite Eq in Q4.
      rewrite set_true_nth_same in Q4 by lia. discriminate.
Qed.

Lemma cnt_repeat_false : forall n, cnt (repeat false n) = O.
Proof. induction n; cbn; auto. Qed.

Lemma nth_repeat_false : forall n i, nth i (repeat false n) false = false.
Proof. induction n; intros [|i]; cbn; auto. Qed.

(* ---- transposition keeps the matrix rectangular *)

Lemma transpose_rows_wf : forall nc rows, cost_wf nc (List.length rows) (transpose_rows nc rows).
Proof.
  induction nc as [|k IH]; intros rows; cbn.
  - split; [reflexivity|intros r H; destruct H].
  - destruct (IH (map (fun r => tl r) rows)) as [L W]. rewrite map_length in W. split.
    + cbn. now rewrite L.
    + intros r [<-|H]; [now rewrite map_length | now apply W].
Qed.

Lemma pigeon : forall (l : list nat) n, NoDup l -> (forall x, In x l -> (x < n)%nat) -> List.length l = n ->
  forall c, (c < n)%nat -> In c l.
Proof.
  intros l n ND B L c Hc.
  assert (I : incl (seq 0 n) l).
  { apply NoDup_length_incl; auto.
    - rewrite seq_length. lia.
    - intros x Hx. apply in_seq. specialize (B x Hx). lia. }
  apply I. apply in_seq. lia.
Qed.

Lemma mem_nat_In : forall i l, mem_nat i l = true <-> In i l.
Proof.
  intros i l. unfold mem_nat. rewrite existsb_exists. split.
  - intros [x [Hx E]]. apply Nat.eqb_eq in E. now subst.
  - intros H. exists i. split; auto. apply Nat.eqb_refl.
Qed.

(* est_best_connections, both modes: as long as the side that receives the assignments (columns) is not
   larger than the side of the streams (rows), the connections form a matching that covers every column *)
Lemma est_best_spec : forall (pm : bool) np nn cost, cost_wf np nn cost ->
  let nr := if pm then np else nn in
  let nc := if pm then nn else np in
  (nc <= nr)%nat ->
  let r := est_best_connections pm np nn cost in
  List.length (fst r) = nc /\
  NoDup (map fst (fst r)) /\ NoDup (map snd (fst r)) /\
  (forall p, In p (fst r) -> (fst p < nr)%nat /\ (snd p < nc)%nat) /\
  (forall c, (c < nc)%nat -> In c (map snd (fst r))) /\
  (forall i, In i (snd r) <-> ((i < nr)%nat /\ ~ In i (map fst (fst r)))).
Proof.
  intros pm np nn cost W nr nc Hle r.
  assert (Wc : cost_wf nr nc (if pm then cost else transpose_rows nn cost)).
  { subst nr nc. destruct pm; [exact W|]. destruct W as [L _]. rewrite <- L. apply transpose_rows_wf. }
  pose proof (greedy_spec nr nc _ Wc nc (repeat false nr) (repeat false nc)
                (repeat_length _ _) (repeat_length _ _)) as G.
  rewrite !cnt_repeat_false in G. specialize (G eq_refl ltac:(lia) Hle). cbv zeta in G.
  assert (E : fst r = greedy nc (repeat false nr) (repeat false nc) (if pm then cost else transpose_rows nn cost)).
  { subst r nr nc. unfold est_best_connections. destruct pm; reflexivity. }
  assert (E2 : snd r = filter (fun i => negb (mem_nat i (map fst (fst r)))) (seq 0 nr)).
  { subst r nr nc. unfold est_best_connections. destruct pm; reflexivity. }
  rewrite <- E in G. destruct G as [G1 [G2 [G3 G4]]].
  split; [exact G1|]. split; [exact G3|]. split; [exact G4|].
  split; [intros p Hp; destruct (G2 p Hp) as [A [B _]]; split; assumption|].
  split.
  - apply pigeon; auto; [|now rewrite map_length].
    intros x Hx. apply in_map_iff in Hx. destruct Hx as [p [<- Hp]]. now destruct (G2 p Hp) as [_ [B _]].
  - intros i. rewrite E2. rewrite filter_In, in_seq. rewrite Bool.negb_true_iff.
    split.
    + intros [A B]. split; [lia|]. intros Hin. apply mem_nat_In in Hin. congruence.
    + intros [A B]. split; [lia|]. destruct (mem_nat i (map fst (fst r))) eqn:M; auto.
      apply mem_nat_In in M. contradiction.
Qed.

(* pairwise_cost returns a rectangular matrix: one row per voice, one column per note of the contig *)
Lemma pairwise_cost_wf : forall prev nxt, cost_wf (List.length prev) (List.length nxt) (pairwise_cost prev nxt).
Proof.
  intros prev nxt. unfold pairwise_cost, cost_wf. rewrite map_length. split; [reflexivity|].
  intros r Hr. apply in_map_iff in Hr. destruct Hr as [a [<- _]]. now rewrite map_length.
Qed.

(* forward step of the crystallisation: the voices' last notes against the first notes of the next contig
   (never more than there are voices): EVERY stream of the contig is continued by exactly one voice, no
   voice takes two streams *)
Lemma forward_connections_cover : forall prev nxt, (List.length nxt <= List.length prev)%nat ->
  let r := est_best_connections true (List.length prev) (List.length nxt) (pairwise_cost prev nxt) in
  NoDup (map fst (fst r)) /\ NoDup (map snd (fst r)) /\
  (forall c, (c < List.length nxt)%nat -> In c (map snd (fst r))) /\
  (forall p, In p (fst r) -> (fst p < List.length prev)%nat /\ (snd p < List.length nxt)%nat).
Proof.
  intros prev nxt H r.
  destruct (est_best_spec true _ _ _ (pairwise_cost_wf prev nxt) H) as [_ [A [B [C [D _]]]]].
  repeat split; auto; apply C; auto.
Qed.

(* backward step: the first notes of the voices against the last notes of the previous contig, mode "next" *)
Lemma backward_connections_cover : forall prev nxt, (List.length prev <= List.length nxt)%nat ->
  let r := est_best_connections false (List.length prev) (List.length nxt) (pairwise_cost prev nxt) in
  NoDup (map fst (fst r)) /\ NoDup (map snd (fst r)) /\
  (forall c, (c < List.length prev)%nat -> In c (map snd (fst r))) /\
  (forall p, In p (fst r) -> (fst p < List.length nxt)%nat /\ (snd p < List.length prev)%nat).
Proof.
  intros prev nxt H r.
  destruct (est_best_spec false _ _ _ (pairwise_cost_wf prev nxt) H) as [_ [A [B [C [D _]]]]].
  repeat split; auto; apply C; auto.
Qed.

(* the hypothesis "not more columns than rows" cannot be dropped: with one voice and two streams the
   second round finds everything masked and repeats the connection (0, 0) *)
Lemma more_columns_than_rows_repeats :
  est_best_connections true 1 2 [[3; 4]] = ([(0, 0); (0, 0)]%nat, []).
Proof. vm_compute. reflexivity. Qed.

Lemma best_connections_example_lemma :
  est_best_connections true 3 2 [[5; 1]; [0; 1]; [7; 7]] = ([(1, 0); (0, 1)]%nat, [2%nat]) /\
  est_best_connections false 2 3 [[5; 0; 7]; [1; 1; 7]] = ([(1, 0); (0, 1)]%nat, [2%nat]) /\
  pairwise_cost [(1, 60, 0); (2, 72, 0); (3, 50, 1)] [(2, 72, 0); (4, 64, 0)]
    = [[12; 4]; [- vs_max_cost; 8]; [vs_max_cost; vs_max_cost]].
Proof. vm_compute. repeat split; reflexivity. Qed.
