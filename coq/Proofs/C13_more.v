(* C13 -- further statements about the model: the stored cells occupy distinct positions (what the
   code's dictionary is for: a sparse constructor would ADD duplicates), and row-order invariance at
   the level of compute_pianoroll (field selection and drum filtering commute with reordering). *)
From PV Require Import Lib.Base Lib.Round Model.C13.
From Coq Require Import QArith Qround Qabs Permutation.
From PV Require Import Proofs.C13_lib Proofs.C13.
#[local] Open Scope Z_scope.

(* ---------- distinct positions ---------- *)
Definition pos_of_cell (x : cell) : Z * Z := let '(r, c, _) := x in (r, c).

Lemma In_put_keys m r c v k :
  In k (map pos_of_cell (put m r c v)) <-> In k (map pos_of_cell m) \/ k = (r, c).
Proof.
  induction m as [|[[r0 c0] v0] m IH]; simpl.
  - split; [intros [<-|[]]; right; reflexivity | intros [[] | ->]; left; reflexivity].
  - destruct ((r =? r0) && (c =? c0)) eqn:E; simpl.
    + assert (r = r0 /\ c = c0) as [-> ->] by lia. split; [tauto|].
      intros [H | ->]; [exact H | left; reflexivity].
    + rewrite IH. tauto.
Qed.

Lemma put_NoDup m r c v : NoDup (map pos_of_cell m) -> NoDup (map pos_of_cell (put m r c v)).
Proof.
  induction m as [|[[r0 c0] v0] m IH]; simpl; intros H.
  - constructor; [intros [] | constructor].
  - inversion H as [|? ? Hn Hm]; subst.
    destruct ((r =? r0) && (c =? c0)) eqn:E; simpl.
    + constructor; assumption.
    + constructor; [|apply IH, Hm].
      rewrite In_put_keys. intros [G|G]; [exact (Hn G)|]. injection G as -> ->. lia.
Qed.

Lemma fold_put_NoDup cs : forall m, NoDup (map pos_of_cell m) ->
  NoDup (map pos_of_cell (fold_left (fun m x => let '(r, c, v) := x in put m r c v) cs m)).
Proof.
  induction cs as [|[[r c] v] cs IH]; intros m H; simpl; [exact H|]. apply IH, put_NoDup, H.
Qed.

Lemma fill_NoDup cs : NoDup (map pos_of_cell (fill cs)).
Proof. unfold fill. apply fold_put_NoDup. constructor. Qed.

Lemma keys_map_val (f : Z -> Z) m :
  map pos_of_cell (map (fun x : cell => let '(r, c, v) := x in (r, c, f v)) m) = map pos_of_cell m.
Proof. induction m as [|[[r c] v] m IH]; simpl; [reflexivity | rewrite IH; reflexivity]. Qed.

Lemma filter_keys_NoDup (p : cell -> bool) m :
  NoDup (map pos_of_cell m) -> NoDup (map pos_of_cell (filter p m)).
Proof.
  induction m as [|x m IH]; simpl; intros H; [constructor|].
  inversion H as [|? ? Hn Hm]; subst. destruct (p x); simpl; [|apply IH, Hm].
  constructor; [|apply IH, Hm]. intros G. apply Hn.
  apply in_map_iff in G as [y [E Hy]]. apply filter_In in Hy as [Hy _].
  apply in_map_iff. exists y. split; assumption.
Qed.

Lemma NoDup_map_inj {A B} (f : A -> B) l : (forall x y, f x = f y -> x = y) -> NoDup l -> NoDup (map f l).
Proof.
  intros Inj H. induction H as [|x l Hn H IH]; simpl; constructor; [|exact IH].
  intros G. apply in_map_iff in G as [y [E Hy]]. apply Inj in E. subst y. exact (Hn Hy).
Qed.

Lemma stored_positions_distinct_lemma o ns R : make_pianoroll o ns = Some R ->
  NoDup (map pos_of_cell (r_cells R)).
Proof.
  intros H. apply make_pianoroll_inv in H. cbv zeta in H.
  destruct H as [_ [_ [n [_ [_ ->]]]]]. cbn [r_cells]. unfold slice_rows, bin_cells.
  assert (B : NoDup (map pos_of_cell
            (map (fun x : cell => let '(r, c, v) := x in (r, c, binarize (o_binary o) v))
               (fill (flat_map (note_cells o (min_time o (map snd (sort_on ns))) (lowest_pitch o ns))
                        (map snd (sort_on ns))))))).
  { rewrite keys_map_val. apply fill_NoDup. }
  destruct (o_piano_range o); [|exact B].
  match goal with |- NoDup (map pos_of_cell (map ?g (filter ?p ?m))) =>
    replace (map pos_of_cell (map g (filter p m)))
      with (map (fun k : Z * Z => (fst k - 21, snd k)) (map pos_of_cell (filter p m))) end.
  - apply NoDup_map_inj; [|apply filter_keys_NoDup, B].
    intros [a b] [a' b'] E. simpl in E. injection E as E1 E2. f_equal; lia.
  - rewrite !map_map. apply map_ext. intros [[r c] v]. reflexivity.
Qed.

(* ---------- reordering the rows of the note array ---------- *)
Lemma filter_perm {A} (p : A -> bool) l l' : Permutation l l' -> Permutation (filter p l) (filter p l').
Proof.
  intros P. induction P; simpl.
  - constructor.
  - destruct (p x); [apply perm_skip|]; assumption.
  - destruct (p x); destruct (p y); try apply Permutation_refl. apply perm_swap.
  - eapply Permutation_trans; eassumption.
Qed.

Lemma all_some_map_perm {A B} (f : A -> option B) l l' : Permutation l l' ->
  forall ns, all_some (map f l) = Some ns ->
  exists ns', all_some (map f l') = Some ns' /\ Permutation ns ns'.
Proof.
  intros P. induction P; intros ns H.
  - exists ns. split; [exact H | apply Permutation_refl].
  - simpl in *. destruct (f x) as [y|]; [|discriminate].
    destruct (all_some (map f l)) as [r|] eqn:E; [|discriminate]. injection H as <-.
    destruct (IHP r eq_refl) as [r' [E' P']]. rewrite E'. exists (y :: r'). split; [reflexivity|].
    apply perm_skip, P'.
  - simpl in *. destruct (f y) as [b|]; [|discriminate]. destruct (f x) as [a|]; [|discriminate].
    destruct (all_some (map f l)) as [r|]; [|discriminate]. injection H as <-.
    exists (a :: b :: r). split; [reflexivity | apply perm_swap].
  - destruct (IHP1 ns H) as [n1 [E1 P1']]. destruct (IHP2 n1 E1) as [n2 [E2 P2']].
    exists n2. split; [exact E2 | eapply Permutation_trans; eassumption].
Qed.

Lemma select_rows_perm us hv hc rows rows' u rd ns : Permutation rows rows' ->
  select_rows (us, hv, hc, rows) u rd = Some ns ->
  exists ns', select_rows (us, hv, hc, rows') u rd = Some ns' /\ Permutation ns ns'.
Proof.
  intros P. unfold select_rows. destruct (unit_pos u us) as [k|]; [|discriminate].
  apply all_some_map_perm. destruct (hc && rd); [apply filter_perm, P | exact P].
Qed.

Lemma compute_pianoroll_perm_lemma c us hv hc rows rows' R : Permutation rows rows' ->
  compute_pianoroll c (us, hv, hc, rows) = Some R ->
  exists R', compute_pianoroll c (us, hv, hc, rows') = Some R' /\
    r_rows R' = r_rows R /\ r_cols R' = r_cols R /\
    forall r j, cell_at (r_cells R') r j = cell_at (r_cells R) r j.
Proof.
  intros P H. apply compute_pianoroll_lemma in H as [u [ns [Eu [Es Hm]]]].
  destruct (select_rows_perm _ _ _ _ _ _ _ _ P Es) as [ns' [Es' Pn]].
  destruct (roll_perm_invariant_lemma _ _ _ _ Pn Hm) as [R' [Hm' G]].
  exists R'. split; [|exact G].
  unfold compute_pianoroll. change (resolve_unit (us, hv, hc, rows') (c_time_unit c))
    with (resolve_unit (us, hv, hc, rows) (c_time_unit c)).
  rewrite Eu, Es'. exact Hm'.
Qed.
