(* C19 -- proofs about Model/C19.v (notation denotation, MEI / kern arithmetic, divisions exactness). *)
From PV Require Import Lib.Base Model.C19.
From Coq Require Import QArith Qround Qfield Ascii Lqa.
#[local] Open Scope Q_scope.

Lemma Qpos_neq q : 0 < q -> ~ q == 0.
Proof. intros H E. rewrite E in H. discriminate. Qed.

Lemma qpow_pos q n : 0 < q -> 0 < qpow q n.
Proof. intros H; induction n; simpl; [reflexivity|]. apply Qmult_lt_0_compat; assumption. Qed.

Lemma qpow2_ge1 n : 1 <= qpow 2 n.
Proof.
  induction n; simpl; [apply Qle_refl|].
  assert (0 < qpow 2 n) by (apply qpow_pos; reflexivity). lra.
Qed.

Lemma qpow_half n : qpow (1 # 2) n == 1 / qpow 2 n.
Proof.
  induction n; simpl; [reflexivity|]. rewrite IHn.
  assert (0 < qpow 2 n) by (apply qpow_pos; reflexivity).
  field. intro E. rewrite E in H. discriminate.
Qed.

Lemma qpow2_Z n : inject_Z (2 ^ Z.of_nat n) == qpow 2 n.
Proof.
  induction n; [reflexivity|].
  rewrite Nat2Z.inj_succ, Z.pow_succ_r by lia. rewrite inject_Z_mult, IHn. simpl. reflexivity.
Qed.

Lemma dot_factor_closed d : dot_factor d == (2 * qpow 2 d - 1) / qpow 2 d.
Proof.
  unfold dot_factor. assert (0 < qpow 2 d) by (apply qpow_pos; reflexivity).
  field. intro E. rewrite E in H. discriminate.
Qed.

Lemma dot_factor_pos d : 0 < dot_factor d.
Proof.
  rewrite dot_factor_closed. pose proof (qpow2_ge1 d).
  apply Qlt_shift_div_l; lra.
Qed.

(* harmonic addition equals the dotted value *)
Lemma dot_function_closed r d : 0 < r -> dot_function r d == r / dot_factor d.
Proof.
  intros Hr. induction d.
  - simpl. unfold dot_factor. simpl. field.
  - cbn [dot_function].
    destruct (Qeq_bool r 0) eqn:E.
    { apply Qeq_bool_iff in E. rewrite E in Hr. discriminate. }
    unfold add_durations. rewrite IHd. rewrite !dot_factor_closed.
    cbn [qpow]. pose proof (qpow2_ge1 d) as H1. set (A := qpow 2 d) in *.
    field. repeat split; try lra.
    intro Hz. assert (Hp : 0 < r * A * (4 * A - 1)).
    { apply Qmult_lt_0_compat; [apply Qmult_lt_0_compat|]; lra. }
    assert (Heq : 2 * A * r * (2 * A - 1) + r * A == r * A * (4 * A - 1)) by ring.
    rewrite Heq in Hz. rewrite Hz in Hp. discriminate.
Qed.

Lemma kern_dot_function_lemma r d : 0 < r -> 4 / dot_function r d == (4 / r) * dot_factor d.
Proof.
  intros Hr. rewrite dot_function_closed by assumption.
  pose proof (dot_factor_pos d). field. split; apply Qpos_neq; assumption.
Qed.

Lemma inject_Z_pos z : (0 < z)%Z -> 0 < inject_Z z.
Proof. intros. unfold Qlt. simpl. lia. Qed.


Lemma kern_dur_denotes_lemma v num base d : (0 < v)%Z -> (0 < num)%Z -> (0 < base)%Z ->
  kern_quarters (kern_recip v num base) d == den_dur v d num base.
Proof.
  intros Hv Hn Hb. unfold kern_quarters, den_dur, kern_recip.
  assert (Hr : 0 < inject_Z (v * num) / inject_Z base).
  { apply Qlt_shift_div_l; [apply inject_Z_pos; lia|]. rewrite Qmult_0_l. apply inject_Z_pos. lia. }
  rewrite kern_dot_function_lemma by assumption.
  rewrite inject_Z_mult.
  pose proof (Qpos_neq _ (inject_Z_pos _ Hv)). pose proof (Qpos_neq _ (inject_Z_pos _ Hn)).
  pose proof (Qpos_neq _ (inject_Z_pos _ Hb)).
  field. repeat split; assumption.
Qed.

Lemma mei_duration_denotes_lemma divs v d num base : (0 < v)%Z -> (0 < num)%Z ->
  mei_duration divs v d num base == inject_Z divs * den_dur v d num base.
Proof.
  intros Hv Hn. unfold mei_duration, den_dur, dot_factor. rewrite qpow_half.
  rewrite !inject_Z_mult.
  pose proof (Qpos_neq _ (inject_Z_pos _ Hv)). pose proof (Qpos_neq _ (inject_Z_pos _ Hn)).
  assert (0 < qpow 2 d) by (apply qpow_pos; reflexivity).
  change (inject_Z 4) with 4. field. repeat split; try assumption. apply Qpos_neq; assumption.
Qed.

Lemma q_int_spec q k : q_int q = Some k -> q == inject_Z k.
Proof.
  unfold q_int. destruct (Z.pos (Qden (Qred q)) =? 1)%Z eqn:E; [|discriminate].
  intros H; inversion H; subst. rewrite <- (Qred_correct q) at 1.
  apply Z.eqb_eq in E. destruct (Qred q) as [n dd]. simpl in *.
  unfold Qeq, inject_Z. simpl. lia.
Qed.

Lemma mei_ticks_exact_lemma divs e k : (0 < e_val e)%Z -> (0 < e_num e)%Z ->
  mei_ticks divs e = Some k ->
  inject_Z k == inject_Z divs * (if e_grace e then 0 else den_dur (e_val e) (e_dots e) (e_num e) (e_base e)).
Proof.
  intros Hv Hn. unfold mei_ticks. destruct (e_grace e).
  - intros H; inversion H. ring.
  - intros H. apply q_int_spec in H. rewrite <- H. apply mei_duration_denotes_lemma; assumption.
Qed.


(* ---------------------------------------------------------------- kern pitch letters *)
#[local] Open Scope Z_scope.

Lemma count_repeat c n : count_char c (repeat_char c n) = Z.of_nat n.
Proof. induction n; simpl; [reflexivity|]. rewrite Ascii.eqb_refl, IHn. lia. Qed.

Lemma kern_pitch_octave_lemma c st lower n : letter_step c = Some (st, lower) ->
  kern_pitch (repeat_char c (S n)) = Some (st, if lower then 4 + Z.of_nat n else 3 - Z.of_nat n).
Proof.
  intros H. unfold kern_pitch. cbn [repeat_char]. rewrite H.
  change (String c (repeat_char c n)) with (repeat_char c (S n)). rewrite count_repeat.
  destruct lower; f_equal; f_equal; lia.
Qed.

(* ---------------------------------------------------------------- onsets are prefix sums *)
#[local] Open Scope Q_scope.

Lemma onsets_prefix_sums_lemma mlen evs : forall t i o e,
  nth_error (layer_onsets mlen t evs) i = Some (o, e) ->
  o == t + sum_dur mlen (firstn i evs) /\ nth_error evs i = Some e.
Proof.
  induction evs as [|e0 r IH]; intros t i o e H.
  - destruct i; discriminate.
  - destruct i as [|j]; simpl in H.
    + inversion H; subst. simpl. split; [ring|reflexivity].
    + apply IH in H. destruct H as [H1 H2]. simpl. split; [rewrite H1; ring|assumption].
Qed.

Lemma layer_onsets_length mlen evs : forall t, List.length (layer_onsets mlen t evs) = List.length evs.
Proof. induction evs; intros; simpl; [reflexivity|]. rewrite IHevs. reflexivity. Qed.

Lemma grace_zero_lemma mlen e : e_grace e = true -> ev_dur mlen e = 0.
Proof. intros H. unfold ev_dur. rewrite H. reflexivity. Qed.

(* the element after a grace note starts where the grace note starts *)
Lemma grace_next_onset_lemma mlen t g e r : e_grace g = true ->
  exists o, nth_error (layer_onsets mlen t (g :: e :: r)) 1 = Some (o, e) /\ o == t.
Proof.
  intros H. simpl. eexists. split; [reflexivity|]. rewrite (grace_zero_lemma mlen g H). ring.
Qed.

(* ---------------------------------------------------------------- measure start = max end over layers *)
Lemma qmax_ub_l a b : a <= qmax a b.
Proof. unfold qmax. destruct (Qle_bool a b) eqn:E; [apply Qle_bool_iff in E; assumption|apply Qle_refl]. Qed.
Lemma qmax_ub_r a b : b <= qmax a b.
Proof.
  unfold qmax. destruct (Qle_bool a b) eqn:E; [apply Qle_refl|].
  destruct (Qlt_le_dec b a) as [H|H]; [apply Qlt_le_weak; assumption|].
  apply Qle_bool_iff in H. congruence.
Qed.
Lemma qmax_cases a b : qmax a b = a \/ qmax a b = b.
Proof. unfold qmax. destruct (Qle_bool a b); auto. Qed.

Lemma fold_qmax_ub t l : t <= fold_right qmax t l /\ forall x, In x l -> x <= fold_right qmax t l.
Proof.
  induction l as [|a l [IH1 IH2]]; simpl.
  - split; [apply Qle_refl|intros x []].
  - split.
    + eapply Qle_trans; [exact IH1|apply qmax_ub_r].
    + intros x [->|Hx]; [apply qmax_ub_l|]. eapply Qle_trans; [apply IH2; assumption|apply qmax_ub_r].
Qed.

Lemma fold_qmax_attained t l : fold_right qmax t l = t \/ In (fold_right qmax t l) l.
Proof.
  induction l as [|a l IH]; simpl; [left; reflexivity|].
  destruct (qmax_cases a (fold_right qmax t l)) as [E|E]; rewrite E.
  - right; left; reflexivity.
  - destruct IH as [IH|IH]; [left; assumption|right; right; assumption].
Qed.

Lemma measure_start_max_lemma t m :
  t <= measure_end t m /\
  (forall evs, In evs (List.concat (m_staves m)) -> layer_end (m_len m) t evs <= measure_end t m) /\
  (measure_end t m = t \/ exists evs, In evs (List.concat (m_staves m)) /\ measure_end t m = layer_end (m_len m) t evs).
Proof.
  unfold measure_end. set (l := map (layer_end (m_len m) t) (List.concat (m_staves m))).
  destruct (fold_qmax_ub t l) as [H1 H2]. split; [assumption|]. split.
  - intros evs Hin. apply H2. unfold l. apply in_map. assumption.
  - destruct (fold_qmax_attained t l) as [H|H]; [left; assumption|right].
    unfold l in H at 2. apply in_map_iff in H. destruct H as [evs [E Hin]]. exists evs. split; [assumption|symmetry; assumption].
Qed.

(* ---------------------------------------------------------------- ties join to the sum *)
Definition row_dur (r : Q * Q * bool) : Q := snd (fst r).

Lemma join_chain chain : forall acc o d r,
  (forall x, In x chain -> snd x = true) ->
  join_ties (Some acc) (chain ++ (o, d, false) :: r)
  = (fst acc, fold_left Qplus (map row_dur (chain ++ [(o, d, false)])) (snd acc)) :: join_ties None r.
Proof.
  induction chain as [|[[o1 d1] t1] chain IH]; intros [o0 d0] o d r Hall.
  - simpl. reflexivity.
  - assert (t1 = true) by (apply (Hall (o1, d1, t1)); left; reflexivity). subst t1.
    cbn [app join_ties]. rewrite IH by (intros x Hx; apply Hall; right; assumption).
    simpl. reflexivity.
Qed.

Lemma ties_join_sum_lemma o0 d0 chain o d r :
  (forall x, In x chain -> snd x = true) ->
  join_ties None ((o0, d0, true) :: chain ++ (o, d, false) :: r)
  = (o0, fold_left Qplus (map row_dur (chain ++ [(o, d, false)])) d0) :: join_ties None r.
Proof. intros H. cbn [join_ties]. rewrite join_chain by assumption. reflexivity. Qed.

Lemma untied_alone_lemma o d r : join_ties None ((o, d, false) :: r) = (o, d) :: join_ties None r.
Proof. reflexivity. Qed.

(* joining conserves the total sounding time *)
Fixpoint qsum (l : list Q) : Q := match l with [] => 0 | x :: r => x + qsum r end.

Lemma join_total l : forall cur,
  qsum (map snd (join_ties cur l)) == (match cur with Some c => snd c | None => 0 end) + qsum (map row_dur l).
Proof.
  induction l as [|[[o d] t] l IH]; intros cur.
  - destruct cur; simpl; ring.
  - cbn [join_ties]. destruct t.
    + rewrite IH. destruct cur as [[o0 d0]|]; simpl; unfold row_dur; simpl; ring.
    + cbn [map qsum]. rewrite IH. destruct cur as [[o0 d0]|]; simpl; unfold row_dur; simpl; ring.
Qed.

Lemma ties_join_total_lemma l : qsum (map snd (join_ties None l)) == qsum (map row_dur l).
Proof. rewrite join_total. ring. Qed.

(* ---------------------------------------------------------------- divisions exactness *)
#[local] Open Scope Z_scope.

Lemma lcm_list_divide l x : In x l -> (x | lcm_list l).
Proof.
  induction l as [|a l IH]; intros H; [destruct H|]. simpl. destruct H as [->|H].
  - apply Z.divide_lcm_l.
  - eapply Z.divide_trans; [apply IH; assumption|apply Z.divide_lcm_r].
Qed.

Lemma den_dur_closed v d num base : 0 < v -> 0 < num ->
  (den_dur v d num base == 4 * inject_Z base * (2 * qpow 2 d - 1) / (inject_Z (v * num) * qpow 2 d))%Q.
Proof.
  intros Hv Hn. unfold den_dur. rewrite dot_factor_closed, inject_Z_mult.
  pose proof (Qpos_neq _ (inject_Z_pos _ Hv)). pose proof (Qpos_neq _ (inject_Z_pos _ Hn)).
  assert (0 < qpow 2 d)%Q by (apply qpow_pos; reflexivity).
  field. repeat split; try assumption. apply Qpos_neq; assumption.
Qed.

Lemma inject_Z_sub a b : (inject_Z (a - b) == inject_Z a - inject_Z b)%Q.
Proof. unfold Z.sub. rewrite inject_Z_plus, inject_Z_opp. reflexivity. Qed.

Lemma ppq_core (D VN B T P G Q' M : Q) :
  (~ T == 0 -> ~ P == 0 -> ~ G == 0 -> 4 * D == P * T * M -> VN == P * G -> B == G * Q' ->
   D * (4 * B * (2 * T - 1) / (VN * T)) == M * Q' * (2 * T - 1))%Q.
Proof.
  intros HT HP HG H1 H2 H3.
  assert (HD : (D == P * T * M / 4)%Q) by (rewrite <- H1; field).
  rewrite HD, H2, H3. field. repeat split; assumption.
Qed.

Lemma find_ppq_times4 units evs : 4 * find_ppq units evs = lcm_list (4 :: units ++ map ppq_term evs).
Proof.
  unfold find_ppq. set (L := lcm_list _).
  assert (H : (4 | L)) by (apply lcm_list_divide; left; reflexivity).
  destruct H as [k Hk]. rewrite Hk. rewrite Z.div_mul by lia. lia.
Qed.

(* every written value of the document is a whole number of the inferred divisions *)
Lemma mei_ppq_exact_lemma units evs e :
  In e evs -> 0 < e_val e -> 0 < e_num e -> 0 < e_base e ->
  exists k : Z, (inject_Z (find_ppq units evs) * den_dur (e_val e) (e_dots e) (e_num e) (e_base e) == inject_Z k)%Q.
Proof.
  intros Hin Hv Hn Hb.
  pose proof (find_ppq_times4 units evs) as H4.
  assert (Hdiv : (ppq_term e | lcm_list (4 :: units ++ map ppq_term evs))).
  { apply lcm_list_divide. right. apply in_or_app. right. apply in_map. assumption. }
  destruct Hdiv as [m Hm]. rewrite Hm in H4. unfold ppq_term, red_num in H4.
  set (g := Z.gcd (e_val e * e_num e) (e_base e)) in *.
  assert (Hg : 0 < g).
  { pose proof (Z.gcd_nonneg (e_val e * e_num e) (e_base e)).
    assert (g <> 0) by (unfold g; intro E; apply Z.gcd_eq_0_r in E; lia). unfold g in *; lia. }
  destruct (Z.gcd_divide_l (e_val e * e_num e) (e_base e)) as [p Hp].
  destruct (Z.gcd_divide_r (e_val e * e_num e) (e_base e)) as [q' Hq]. fold g in Hp, Hq.
  assert (Hpdiv : e_val e * e_num e / g = p) by (rewrite Hp; apply Z.div_mul; lia).
  rewrite Hpdiv in H4.
  assert (Hppos : 0 < p) by nia.
  exists (m * q' * (2 * 2 ^ Z.of_nat (e_dots e) - 1)).
  rewrite den_dur_closed by assumption.
  rewrite !inject_Z_mult, inject_Z_sub, !inject_Z_mult, qpow2_Z.
  change (inject_Z 2) with 2%Q. change (inject_Z 1) with 1%Q.
  apply ppq_core with (P := inject_Z p) (G := inject_Z g).
  - apply Qpos_neq, qpow_pos; reflexivity.
  - apply Qpos_neq, inject_Z_pos; assumption.
  - apply Qpos_neq, inject_Z_pos; assumption.
  - rewrite <- qpow2_Z. change 4%Q with (inject_Z 4). rewrite <- !inject_Z_mult. rewrite H4. replace (m * (p * 2 ^ Z.of_nat (e_dots e))) with (p * 2 ^ Z.of_nat (e_dots e) * m) by ring. reflexivity.
  - rewrite <- !inject_Z_mult. rewrite Hp. reflexivity.
  - rewrite <- inject_Z_mult. rewrite Hq. rewrite Z.mul_comm. reflexivity.
Qed.

(* ... and so is a measure rest in every declared meter count/unit *)
Lemma mei_ppq_mrest_lemma units evs u c : In u units -> 0 < u ->
  exists k : Z, (inject_Z (find_ppq units evs) * (4 * inject_Z c / inject_Z u) == inject_Z k)%Q.
Proof.
  intros Hin Hu. pose proof (find_ppq_times4 units evs) as H4.
  assert (Hdiv : (u | lcm_list (4 :: units ++ map ppq_term evs))).
  { apply lcm_list_divide. right. apply in_or_app. left. assumption. }
  destruct Hdiv as [m Hm]. rewrite Hm in H4.
  exists (m * c).
  assert (HQ : (4 * inject_Z (find_ppq units evs) == inject_Z m * inject_Z u)%Q).
  { change 4%Q with (inject_Z 4). rewrite <- !inject_Z_mult. rewrite H4. reflexivity. }
  assert (HD : (inject_Z (find_ppq units evs) == inject_Z m * inject_Z u / 4)%Q) by (rewrite <- HQ; field).
  rewrite HD, inject_Z_mult. field. apply Qpos_neq, inject_Z_pos. assumption.
Qed.

(* ---------------------------------------------------------------- kern divisions *)
Lemma all_int_spec l : all_int l = true -> forall q, In q l -> exists z, q_int q = Some z.
Proof.
  unfold all_int. intros H q Hq. rewrite forallb_forall in H. specialize (H q Hq).
  destruct (q_int q) as [z|]; [exists z; reflexivity|discriminate].
Qed.

Lemma Forall2_map_l {A B C} (R : B -> C -> Prop) (f : A -> B) l : forall l',
  Forall2 R (map f l) l' -> Forall2 (fun x y => R (f x) y) l l'.
Proof.
  induction l as [|a l IH]; intros l' H; inversion H; subst; constructor; auto.
Qed.

Lemma Forall2_impl {A B} (R S : A -> B -> Prop) l : forall l', (forall x y, R x y -> S x y) ->
  Forall2 R l l' -> Forall2 S l l'.
Proof. induction l; intros l' HRS H; inversion H; subst; constructor; auto. Qed.

Lemma Forall2_refl_Q (c : Q) l : (c == 1)%Q -> Forall2 (fun r r' : Q => (r' == c * r)%Q) l l.
Proof. intros Hc. induction l; constructor; auto. rewrite Hc. ring. Qed.

Lemma Forall2_In_l {A B} (R : A -> B -> Prop) l : forall l' x, Forall2 R l l' -> In x l -> exists y, In y l' /\ R x y.
Proof.
  induction l as [|a l IH]; intros l' x H Hin; [destruct Hin|].
  inversion H; subst. destruct Hin as [->|Hin].
  - eexists; split; [left; reflexivity|assumption].
  - destruct (IH _ _ H4 Hin) as [y0 [Hy HR]]. exists y0; split; [right; assumption|assumption].
Qed.

Lemma scale_loop_spec fuel : forall mul l l', 0 < mul -> scale_loop fuel mul l = Some l' ->
  all_int l' = true /\ exists c : Z, 0 < c /\ Forall2 (fun r r' : Q => (r' == inject_Z c * r)%Q) l l'.
Proof.
  induction fuel as [|f IH]; intros mul l l' Hmul H; cbn [scale_loop] in H;
    destruct (all_int l) eqn:E.
  - inversion H; subst. split; [assumption|]. exists 1. split; [lia|]. apply Forall2_refl_Q. reflexivity.
  - discriminate.
  - inversion H; subst. split; [assumption|]. exists 1. split; [lia|]. apply Forall2_refl_Q. reflexivity.
  - apply IH in H; [|lia]. destruct H as [Hall [c [Hc HF]]]. split; [assumption|].
    exists (c * mul). split; [nia|]. apply Forall2_map_l in HF.
    eapply Forall2_impl; [|exact HF]. intros x y Hxy. cbv beta in Hxy. rewrite Hxy, inject_Z_mult. ring.
Qed.

Lemma kern_core (r c z w : Q) : (0 < r -> c * r == z -> 4 / r * (z * w) == 4 * c * w)%Q.
Proof. intros Hr H. rewrite <- H. field. apply Qpos_neq; assumption. Qed.

Lemma q_int_num q z : q_int q = Some z -> z = Qnum (Qred q).
Proof. unfold q_int. destruct (_ =? _); [|discriminate]. intros H; inversion H; reflexivity. Qed.

(* every reciprocal value of the spine is a whole number of any multiple of the chosen divisions *)
Lemma kern_divs_exact_lemma fuel rs D : kern_spine_divs fuel rs = Some D ->
  forall r, In r rs -> (0 < r)%Q -> forall M, (D | M) ->
  exists t : Z, (4 / r * inject_Z M == inject_Z t)%Q.
Proof.
  unfold kern_spine_divs, opt_bind. destruct (scale_loop fuel 2 rs) as [l'|] eqn:E; [|discriminate].
  intros H; inversion H; subst; clear H. intros r Hin Hr M HM.
  apply scale_loop_spec in E; [|lia]. destruct E as [Hall [c [Hc HF]]].
  destruct (Forall2_In_l _ _ _ _ HF Hin) as [r' [Hr' Hrel]]. cbv beta in Hrel.
  destruct (all_int_spec _ Hall _ Hr') as [z Hz].
  pose proof (q_int_spec _ _ Hz) as Hzq. pose proof (q_int_num _ _ Hz) as Hzn.
  assert (Hzd : (z | M)).
  { eapply Z.divide_trans; [|exact HM]. eapply Z.divide_trans; [|apply Z.divide_lcm_l].
    apply lcm_list_divide. rewrite Hzn. apply (in_map (fun q => Qnum (Qred q))). assumption. }
  destruct Hzd as [w Hw]. exists (4 * c * w). subst M.
  rewrite (Z.mul_comm w z), !inject_Z_mult. change (inject_Z 4) with 4%Q.
  apply kern_core; [assumption|]. rewrite <- Hzq, Hrel. reflexivity.
Qed.

(* with exact divisions the ceil in element_parsing is the identity *)
Lemma kern_ticks_exact_lemma divs recip d t :
  (kern_quarters recip d * inject_Z divs == inject_Z t)%Q -> kern_ticks divs recip d = t.
Proof.
  intros H. unfold kern_ticks. rewrite H. unfold Qceiling. rewrite <- inject_Z_opp, Qfloor_Z. lia.
Qed.

(* ---------------------------------------------------------------- examples: hypotheses are satisfiable *)
#[local] Open Scope Z_scope.
Definition ex_note v d n b tie := Ev 0 v d n b false tie [(0, 0, 4)].
(* dotted triplet eighth + triplet 16th + triplet eighth, quarter tied to a double-dotted quarter, 64th *)
Definition ex_layer : list event :=
  [ex_note 8 1 3 2 false; ex_note 16 0 3 2 false; ex_note 8 0 3 2 false;
   ex_note 4 0 1 1 true; ex_note 4 2 1 1 false; ex_note 64 0 1 1 false].

Example ex_find_ppq : find_ppq [4] ex_layer = 48.
Proof. vm_compute. reflexivity. Qed.

Example ex_ticks : map (mei_ticks 48) ex_layer = [Some 24; Some 8; Some 16; Some 48; Some 84; Some 3].
Proof. vm_compute. reflexivity. Qed.

Example ex_onsets : map (fun oe => Qred (fst oe)) (layer_onsets 4 0 ex_layer) = [0; 1 # 2; 2 # 3; 1; 2; 15 # 4]%Q.
Proof. vm_compute. reflexivity. Qed.

Example ex_join : map (fun c => (Qred (fst c), Qred (snd c)))
    (join_ties None (tie_rows (denote_layer 0 0 0 [Me 4 [[ex_layer]]])))
  = [(0, 1 # 2); (1 # 2, 1 # 6); (2 # 3, 1 # 3); (1, 11 # 4); (15 # 4, 1 # 16)]%Q.
Proof. vm_compute. reflexivity. Qed.

Example ex_kern_pitch : map kern_pitch ["c"; "cc"; "C"; "CC"; "bbb"; "GGG"]%string
  = [Some (0, 4); Some (0, 5); Some (0, 3); Some (0, 2); Some (6, 6); Some (4, 1)].
Proof. vm_compute. reflexivity. Qed.

(* 12 = triplet eighth, dotted: 12. lasts 1/2 quarter; 3 (triplet half) needs divisions that are a multiple of 3 *)
Example ex_kern_divs : kern_spine_divs 10 [3; dot_function 12 1; 4]%Q = Some 24.
Proof. vm_compute. reflexivity. Qed.
Example ex_kern_ticks : kern_ticks 24 (dot_function 12 1) 0 = 12 /\ kern_ticks 24 3 0 = 32.
Proof. vm_compute. split; reflexivity. Qed.

(* the rule the loader used before commit 9b9ba16 (max instead of a common multiple) misses reciprocal value 3 *)
Definition old_kern_divs (rs : list Z) : Z := Z.max (lcm_list rs) 4.
Lemma kern_divs_max_rule_refuted_lemma :
  exists rs r, In r rs /\ 0 < r /\ ~ exists t : Z, (4 / inject_Z r * inject_Z (old_kern_divs rs) == inject_Z t)%Q.
Proof.
  exists [3], 3. split; [left; reflexivity|]. split; [lia|]. intros [t Ht].
  unfold Qeq in Ht. cbn in Ht. lia.
Qed.

(* the dot rule the MEI loader used before commit 80631e9 (multiply by 3/2 per dot) is wrong from two dots on *)
Fixpoint old_mei_dots (q : Q) (d : nat) : Q := match d with O => q | S k => (old_mei_dots q k + (1 # 2) * old_mei_dots q k)%Q end.
Lemma mei_dots_old_rule_refuted_lemma : ~ (old_mei_dots 1 2 == 1 * dot_factor 2)%Q.
Proof. vm_compute. discriminate. Qed.
