(* C18 -- proofs about the codec driven over time by a caller (Model/C18_Hist.v): every observation is a function
   of the state at the time of the call; a machine keeping the score-side note table per score object is not. *)
From Coq Require Import ZArith QArith List Bool Lia Sorting.Sorted Sorting.Permutation.
From PV Require Import Lib.Base Model.C18 Model.C18_Hist Proofs.C18 Proofs.C18_spec.
Import ListNotations.
#[local] Open Scope Q_scope.

Lemma hrun_current_lemma : forall ops s, hrun s ops = map observe (call_states s ops).
Proof.
  induction ops as [|o r IH]; intros s; simpl; [reflexivity|].
  destruct o; simpl; try apply IH. f_equal. apply IH.
Qed.

Lemma history_table_spec_lemma : forall ops s k st,
  nth_error (call_states s ops) k = Some st ->
  exists o, nth_error (hrun s ops) k = Some o /\
    Permutation (fst o) (matched_idx (map s_id (h_sna st)) (map p_id (h_pna st)) (h_al st)) /\
    Sorted (fun a b => lex2_leb (key2 (h_sna st) a) (key2 (h_sna st) b) = true) (fst o) /\
    snd o = matched_idx (map s_id (h_sna st)) (map p_id (h_pna st)) (h_al st).
Proof.
  intros ops s k st H. rewrite hrun_current_lemma.
  exists (observe st). split; [apply map_nth_error; exact H|].
  unfold observe, observe_with; simpl. split; [|split; [apply matched_sorted_admitted | reflexivity]].
  unfold matched_sorted. apply isort_perm.
Qed.

(* without in-place edits of the score the memoising machine cannot be told from the real one *)
Lemma hrun_memo_no_edit_lemma : forall ops s c,
  forallb (fun o => negb (edits_score o)) ops = true ->
  (forall k t, lookup_tab k c = Some t -> t = h_sna s) ->
  hrun_memo c s ops = hrun s ops.
Proof.
  induction ops as [|o r IH]; intros s c Hn Hc; simpl; [reflexivity|].
  simpl in Hn. apply andb_true_iff in Hn as [Ho Hr].
  destruct o; simpl in *; try discriminate; try (apply IH; [exact Hr | exact Hc]).
  assert (Ht : match lookup_tab (h_oid s) c with Some t => t | None => h_sna s end = h_sna s).
  { destruct (lookup_tab (h_oid s) c) eqn:E; [apply (Hc _ _ E) | reflexivity]. }
  rewrite Ht. f_equal. apply IH; [exact Hr|].
  intros k t. simpl. destruct (Z.eqb k (h_oid s)); [intros X; inversion X; reflexivity | apply Hc].
Qed.

Example hrun_memo_refuted_example :
  let s := mk_h 1%Z [(0%Z, 0, 1, 0%Z, 60%Z)] [(10%Z, 1, 1 # 2, 64%Z); (11%Z, 2, 1 # 2, 70%Z)] [(0%Z, 0%Z, 10%Z)] in
  let ops := [HCall; HScore (EAdd (1%Z, 1, 1, 4%Z, 62%Z)); HAlign [(0%Z, 0%Z, 10%Z); (0%Z, 1%Z, 11%Z)]; HCall] in
  hrun s ops = [([(0, 0)], [(0, 0)]); ([(0, 0); (1, 1)], [(0, 0); (1, 1)])]%nat /\
  hrun_memo [] s ops = [([(0, 0)], [(0, 0)]); ([(0, 0)], [(0, 0)])]%nat /\
  hrun_memo [] s (HCall :: HReplace 2%Z :: tl ops) = hrun s ops.
Proof. vm_compute. repeat split; reflexivity. Qed.
