(* C15 -- a concrete, non-trivial instance (divisions 4, 6, 10: lcm 60 above all of them; tied
   notes, a rest in a voice of its own, missing and stated staves, structural elements in several
   parts) satisfying every hypothesis of the theorems; the two boundaries of the property
   ("auto" beyond four voices per staff, classes dropped without being documented) by witnesses. *)
From PV Require Import Lib.Base Model.C05 Model.C05_Spec Model.C15 Model.C15_Spec
     Proofs.C05_lib Proofs.C05_ties Proofs.C05 Proofs.C15 Proofs.C15_link.
From Coq Require Import Permutation.
#[local] Open Scope Z_scope.

Definition ex_p0 : part :=
  ([ mkElem 1 KMeasure 0 (Some 16) None None 0 None None;
     mkElem 2 KTimeSig 0 None None None 0 None None;
     mkElem 3 KNote 1 (Some 3) (Some 1) None 60 None (Some 4);
     mkElem 4 KNote 3 (Some 8) (Some 1) None 60 (Some 3) None;
     mkElem 5 KRest 8 (Some 12) (Some 2) (Some 2) 0 None None;
     mkElem 6 KClef 0 None None (Some 2) 0 None None ], 4).
Definition ex_p1 : part :=
  ([ mkElem 11 KMeasure 0 (Some 24) None None 0 None None;
     mkElem 12 KNote 1 (Some 5) (Some 1) None 50 None None;
     mkElem 13 KNote 7 (Some 9) (Some 3) (Some 2) 52 None None;
     mkElem 14 KWords 7 None None None 0 None None;
     mkElem 15 KFermata 7 None None None 0 None None ], 6).
Definition ex_p2 : part :=
  ([ mkElem 21 KGrace 3 (Some 3) (Some 1) (Some 1) 70 None None;
     mkElem 22 KNote 3 (Some 13) (Some 1) (Some 1) 40 None None;
     mkElem 23 KSlur 3 (Some 13) None None 0 None None ], 10).
Definition ex_ps : list part := [ex_p0; ex_p1; ex_p2].
Definition ex_ts : list tree := [TGroup [TPart ex_p0; TPart ex_p1]; TPart ex_p2].

(* boolean forms of the hypotheses *)
Definition voices_okb (es : list elem) : bool :=
  forallb (fun e => if is_generic (e_kind e)
                    then match e_voice e with Some v => 1 <=? v | None => false end else true) es.
Definition staves_okb (es : list elem) : bool :=
  forallb (fun e => if is_staffed (e_kind e) then 1 <=? staff1 e else true) es.

Lemma voices_okb_spec es : voices_okb es = true -> voices_ok es.
Proof.
  unfold voices_okb, voices_ok, generic. intros H e He G. rewrite forallb_forall in H.
  specialize (H e He). rewrite G in H. destruct (e_voice e) as [v|]; [|discriminate].
  exists v. split; [reflexivity | lia].
Qed.

Lemma staves_okb_spec es : staves_okb es = true -> staves_ok es.
Proof.
  unfold staves_okb, staves_ok, staffed. intros H e He G. rewrite forallb_forall in H.
  specialize (H e He). rewrite G in H. lia.
Qed.

Definition ex_n0 : list note := Eval vm_compute in notes_of (fst ex_p0).
Definition ex_n1 : list note := Eval vm_compute in notes_of (fst ex_p1).
Definition ex_n2 : list note := Eval vm_compute in notes_of (fst ex_p2).

Lemma ex_n0_wf : wf_ties ex_n0.
Proof.
  constructor.
  - repeat constructor; simpl; intuition congruence.
  - intros n k Hn E. simpl in Hn. destruct Hn as [<-|[<-|[<-|[]]]]; simpl in E; try discriminate.
    injection E as <-. eexists. split; [right; left; reflexivity|]. split; reflexivity.
  - intros m k Hm E. simpl in Hm. destruct Hm as [<-|[<-|[<-|[]]]]; simpl in E; try discriminate.
    injection E as <-. eexists. split; [left; reflexivity|]. split; reflexivity.
  - exists (fun n => Z.to_nat (n_start n)). intros n m Hn Hm E. simpl in Hn, Hm.
    destruct Hn as [<-|[<-|[<-|[]]]]; simpl in E; try discriminate;
    destruct Hm as [<-|[<-|[<-|[]]]]; simpl in E; try discriminate; simpl; lia.
Qed.

Lemma ex_n1_wf : wf_ties ex_n1.
Proof.
  constructor.
  - repeat constructor; simpl; intuition congruence.
  - intros n k Hn E. simpl in Hn. destruct Hn as [<-|[<-|[]]]; simpl in E; discriminate.
  - intros n k Hn E. simpl in Hn. destruct Hn as [<-|[<-|[]]]; simpl in E; discriminate.
  - exists (fun n => 0%nat). intros n m Hn Hm E. simpl in Hn.
    destruct Hn as [<-|[<-|[]]]; simpl in E; discriminate.
Qed.

Lemma ex_n2_wf : wf_ties ex_n2.
Proof.
  constructor.
  - repeat constructor; simpl; intuition congruence.
  - intros n k Hn E. simpl in Hn. destruct Hn as [<-|[<-|[]]]; simpl in E; discriminate.
  - intros n k Hn E. simpl in Hn. destruct Hn as [<-|[<-|[]]]; simpl in E; discriminate.
  - exists (fun n => 0%nat). intros n m Hn Hm E. simpl in Hn.
    destruct Hn as [<-|[<-|[]]]; simpl in E; discriminate.
Qed.

Lemma ex_hypotheses :
  flat_map flatten ex_ts = ex_ps /\ divs_pos ex_ps /\
  parts_good voices_ok ex_ps /\ parts_good staves_ok ex_ps /\ parts_good four_per_staff ex_ps /\
  ties_ok ex_ps.
Proof.
  split; [reflexivity|]. split; [repeat constructor|].
  split; [repeat constructor; apply voices_okb_spec; reflexivity|].
  split; [repeat constructor; apply staves_okb_spec; reflexivity|].
  split; [repeat constructor; unfold four_per_staff; vm_compute; discriminate|].
  split.
  - vm_compute. repeat constructor; simpl; intuition congruence.
  - apply Forall_cons; [exact ex_n0_wf | apply Forall_cons; [exact ex_n1_wf | apply Forall_cons; [exact ex_n2_wf | constructor]]].
Qed.

(* what the three modes do with the example (lcm 60; voices 1,1,2 | 3,5 | 6,6 in "voice" mode;
   staves 1,1,2,2 | 3,4,3 | 5,5 in "staff" mode) *)
Lemma ex_results :
  (exists out, merge_parts MVoice ex_ts = RMerged 60 out /\
     map (fun x => (Z.of_nat (fst x), e_oid (snd x), e_start (snd x), e_voice (snd x))) (filter (fun x => is_generic (e_kind (snd x))) out)
     = [(0, 3, 15, Some 1); (0, 4, 45, Some 1); (0, 5, 120, Some 2);
        (1, 12, 10, Some 3); (1, 13, 70, Some 5); (2, 21, 18, Some 6); (2, 22, 18, Some 6)]) /\
  (exists out, merge_parts MStaff ex_ts = RMerged 60 out /\
     map (fun x => (Z.of_nat (fst x), e_oid (snd x), e_staff (snd x))) (filter (fun x => is_staffed (e_kind (snd x))) out)
     = [(0, 3, Some 1); (0, 4, Some 1); (0, 5, Some 2); (0, 6, Some 2);
        (1, 12, Some 3); (1, 13, Some 4); (1, 14, Some 3); (2, 21, Some 5); (2, 22, Some 5)]) /\
  (exists out, merge_parts MAuto ex_ts = RMerged 60 out /\
     map (fun x => (Z.of_nat (fst x), e_oid (snd x), e_voice (snd x), e_staff (snd x))) (filter (fun x => is_generic (e_kind (snd x))) out)
     = [(0, 3, Some 1, Some 1); (0, 4, Some 1, Some 1); (0, 5, Some 2, Some 2);
        (1, 12, Some 9, Some 3); (1, 13, Some 10, Some 4); (2, 21, Some 17, Some 5); (2, 22, Some 17, Some 5)]).
Proof. repeat split; eexists; split; vm_compute; reflexivity. Qed.

(* boundary 1: "auto" gives every staff four voice numbers; five voices on one staff run into the
   numbers of the next part *)
Definition ovf_ps : list part :=
  [ ([ mkElem 1 KNote 0 (Some 1) (Some 1) (Some 1) 60 None None;
       mkElem 2 KNote 0 (Some 1) (Some 2) (Some 1) 62 None None;
       mkElem 3 KNote 0 (Some 1) (Some 3) (Some 1) 64 None None;
       mkElem 4 KNote 0 (Some 1) (Some 4) (Some 1) 65 None None;
       mkElem 5 KNote 0 (Some 1) (Some 5) (Some 1) 67 None None ], 1);
    ([ mkElem 11 KNote 0 (Some 1) (Some 1) (Some 1) 48 None None ], 1) ].

Lemma auto_voices_overflow_lemma :
  exists ts L out j1 j2 e1 e2,
    merge_parts MAuto ts = RMerged L out /\ parts_good voices_ok (flat_map flatten ts) /\
    parts_good staves_ok (flat_map flatten ts) /\
    In (j1, e1) out /\ In (j2, e2) out /\ j1 <> j2 /\ generic e1 /\ generic e2 /\
    e_voice e1 = e_voice e2.
Proof.
  exists (map TPart ovf_ps), 1,
         (match merge_parts MAuto (map TPart ovf_ps) with RMerged _ o => o | _ => [] end),
         0%nat, 1%nat,
         (mkElem 5 KNote 0 (Some 1) (Some 5) (Some 1) 67 None None),
         (mkElem 11 KNote 0 (Some 1) (Some 5) (Some 2) 48 None None).
  split; [vm_compute; reflexivity|].
  split; [repeat constructor; apply voices_okb_spec; reflexivity|].
  split; [repeat constructor; apply staves_okb_spec; reflexivity|].
  split; [vm_compute; intuition|]. split; [vm_compute; intuition|].
  split; [discriminate|]. repeat split.
Qed.

(* boundary 2: a Fermata (not among the classes the documentation lists) of a later part is dropped *)
Lemma undocumented_drop_lemma :
  exists m ts L out e,
    merge_parts m ts = RMerged L out /\ In e (fst ex_p1) /\ nth_error (flat_map flatten ts) 1 = Some ex_p1 /\
    doc_structural (e_kind e) = false /\ forall j e', In (j, e') out -> core e' <> core e.
Proof.
  exists MVoice, ex_ts, 60,
         (match merge_parts MVoice ex_ts with RMerged _ o => o | _ => [] end),
         (mkElem 15 KFermata 7 None None None 0 None None).
  split; [vm_compute; reflexivity|]. split; [simpl; intuition|]. split; [reflexivity|].
  split; [reflexivity|]. intros j e' Hin. vm_compute in Hin.
  repeat (destruct Hin as [Hin|Hin]; [injection Hin as <- <-; vm_compute; discriminate|]).
  destruct Hin.
Qed.
