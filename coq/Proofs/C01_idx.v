(* C01 -- the index-level model (Model/C01_Idx.v: binary search with ComparableMixin's `<`, np.insert /
   np.delete / slices by index, the table update by index, the cached quarter map) computes exactly what
   the list-level model of Model/C01.v computes on every well-formed part, for every operation. *)
From PV Require Import Lib.Base Gen.C01_ClassTree Model.C01 Model.C01_Spec Model.C01_Idx Proofs.C01_lib Proofs.C01_points Proofs.C01_qd Proofs.C01_inv Proofs.C01_main.
From Coq Require Import Sorting.Sorted Arith.

(* ---------------------------------------------------------------- binary search *)
Lemma bsearch_split {A} (below : A -> bool) (l r : list A) :
  Forall (fun x => below x = true) l -> Forall (fun x => below x = false) r ->
  forall fuel lo hi, (lo <= List.length l)%nat -> (List.length l <= hi)%nat -> (hi <= List.length (l ++ r))%nat ->
    (hi - lo < fuel)%nat -> bsearch fuel below (l ++ r) lo hi = List.length l.
Proof.
  intros Fl Fr. induction fuel as [|f IH]; intros lo hi H1 H2 H3 H4; [lia|].
  simpl. destruct (lo <? hi)%nat eqn:E.
  - apply Nat.ltb_lt in E. set (mid := (lo + Nat.div2 (hi - lo))%nat).
    assert (Hm : (lo <= mid < hi)%nat). { pose proof (Nat.lt_div2 (hi - lo)). unfold mid. lia. }
    destruct (nth_error (l ++ r) mid) as [x|] eqn:N.
    + destruct (Nat.lt_ge_cases mid (List.length l)) as [L|L].
      * rewrite nth_error_app1 in N by auto.
        assert (B : below x = true). { rewrite Forall_forall in Fl. apply Fl. eapply nth_error_In; eauto. }
        rewrite B. apply IH; lia.
      * rewrite nth_error_app2 in N by auto.
        assert (B : below x = false). { rewrite Forall_forall in Fr. apply Fr. eapply nth_error_In; eauto. }
        rewrite B. apply IH; lia.
    + apply nth_error_None in N. lia.
  - apply Nat.ltb_ge in E. lia.
Qed.

Lemma searchsorted_split {A} (below : A -> bool) (l r : list A) :
  Forall (fun x => below x = true) l -> Forall (fun x => below x = false) r ->
  searchsorted (l ++ r) below = List.length l.
Proof.
  intros Fl Fr. unfold searchsorted. apply bsearch_split; auto; try lia. rewrite app_length. lia.
Qed.

(* np.searchsorted(points, TimePoint(t)) = the number of points before t *)
Lemma idx_of_before t ps : StronglySorted Z.lt (map pt ps) -> idx_of ps (Some t) = List.length (before t ps).
Proof.
  intros S. unfold idx_of. rewrite <- (before_from t ps) at 1. apply searchsorted_split.
  - eapply Forall_impl; [|apply before_lt]. intros q H. unfold tp_compare, cmpkey; simpl. simpl in H. lia.
  - eapply Forall_impl; [|apply from_ge; auto]. intros q H. unfold tp_compare, cmpkey; simpl. simpl in H. lia.
Qed.

Lemma idx_of_inf ps : idx_of ps None = List.length ps.
Proof.
  unfold idx_of. rewrite <- (app_nil_r ps) at 1. apply searchsorted_split; auto.
  apply Forall_forall. intros; reflexivity.
Qed.

(* ---------------------------------------------------------------- list plumbing *)
Lemma firstn_len_app {A} (l r : list A) : firstn (List.length l) (l ++ r) = l.
Proof. induction l; simpl; [destruct r; auto | f_equal; auto]. Qed.
Lemma skipn_len_app {A} (l r : list A) : skipn (List.length l) (l ++ r) = r.
Proof. induction l; simpl; auto. Qed.
Lemma nth_error_mid {A} (l : list A) x r : nth_error (l ++ x :: r) (List.length l) = Some x.
Proof. rewrite nth_error_app2 by lia. rewrite Nat.sub_diag. reflexivity. Qed.
Lemma upd_nth_mid {A} (f : A -> A) l x r : upd_nth (List.length l) f (l ++ x :: r) = l ++ f x :: r.
Proof. induction l; simpl; [auto | f_equal; auto]. Qed.
Lemma upd_nth_length {A} (f : A -> A) i l : List.length (upd_nth i f l) = List.length l.
Proof. revert i. induction l; intros [|i]; simpl; auto. Qed.

Lemma firstn_before t ps : firstn (List.length (before t ps)) ps = before t ps.
Proof. rewrite <- (before_from t ps) at 2. apply firstn_len_app. Qed.
Lemma skipn_before t ps : skipn (List.length (before t ps)) ps = from t ps.
Proof. rewrite <- (before_from t ps) at 2. apply skipn_len_app. Qed.

Lemma upd_last_snoc {A} (f : A -> A) l a : upd_last f (l ++ [a]) = l ++ [f a].
Proof.
  induction l as [|b l IH]; simpl; auto. rewrite IH. destruct l; simpl; auto.
Qed.
Lemma last_opt_snoc {A} (l : list A) a : last_opt (l ++ [a]) = Some a.
Proof. induction l as [|b l IH]; simpl; auto. rewrite IH. destruct l; simpl; auto. Qed.

Lemma exists_last_or_nil {A} (l : list A) : l = [] \/ exists l' a, l = l' ++ [a].
Proof. induction l using rev_ind; [left; auto | right; eauto]. Qed.
Lemma nth_error_mid2 {A} (l : list A) a b r : nth_error (l ++ a :: b :: r) (S (List.length l)) = Some b.
Proof. induction l; simpl; auto. Qed.
Lemma upd_nth_mid2 {A} (f : A -> A) l a b r : upd_nth (S (List.length l)) f (l ++ a :: b :: r) = l ++ a :: f b :: r.
Proof. induction l; simpl; [auto | f_equal; auto]. Qed.

Lemma link_pair_mid l a b r :
  link_pair (List.length l) (l ++ a :: b :: r) = l ++ set_next (Some (pt b)) a :: set_prev (Some (pt a)) b :: r.
Proof.
  unfold link_pair. rewrite nth_error_mid, nth_error_mid2, upd_nth_mid, upd_nth_mid2. reflexivity.
Qed.

(* ---------------------------------------------------------------- _add_point *)
Lemma add_point_idx_eq tp ps : StronglySorted Z.lt (map pt ps) -> add_point_idx tp ps = add_point tp ps.
Proof.
  intros Hs. unfold add_point_idx, add_point. unfold cmpkey. rewrite (idx_of_before (pt tp) ps Hs).
  set (t := pt tp). pose proof (before_from t ps) as BF. pose proof (firstn_before t ps) as FB. pose proof (skipn_before t ps) as SB.
  set (l := before t ps) in *. set (r := from t ps) in *.
  assert (C : ((List.length l =? List.length ps)%nat
     || negb (match nth_error ps (List.length l) with Some q => pt q =? t | None => false end))
     = match r with q :: _ => negb (pt q =? t) | [] => true end).
  { rewrite <- BF. destruct r as [|q r'].
    - rewrite app_nil_r, Nat.eqb_refl. auto.
    - rewrite nth_error_mid. rewrite app_length. simpl.
      assert (E : (List.length l =? List.length l + S (List.length r'))%nat = false) by (apply Nat.eqb_neq; lia).
      rewrite E. auto. }
  rewrite C. destruct (match r with q :: _ => negb (pt q =? t) | [] => true end); auto.
  unfold np_insert. rewrite FB, SB.
  destruct (exists_last_or_nil l) as [->|[l' [a ->]]].
  - simpl. destruct r as [|q r']; simpl; auto.
  - rewrite app_length. simpl List.length.
    assert (Z1 : (0 <? List.length l' + 1)%nat = true) by (apply Nat.ltb_lt; lia). rewrite Z1.
    replace (List.length l' + 1 - 1)%nat with (List.length l') by lia.
    rewrite <- app_assoc. simpl app. rewrite link_pair_mid.
    rewrite upd_last_snoc, last_opt_snoc.
    destruct r as [|q r'].
    + assert (Z2 : (List.length l' + 1 <? List.length (l' ++ set_next (Some (pt tp)) a :: [set_prev (Some (pt a)) tp]) - 1)%nat = false).
      { apply Nat.ltb_ge. rewrite app_length. simpl. lia. }
      rewrite Z2. rewrite <- app_assoc. reflexivity.
    + assert (Z2 : (List.length l' + 1 <? List.length (l' ++ set_next (Some (pt tp)) a :: set_prev (Some (pt a)) tp :: q :: r') - 1)%nat = true).
      { apply Nat.ltb_lt. rewrite app_length. simpl. lia. }
      rewrite Z2.
      change (l' ++ set_next (Some (pt tp)) a :: set_prev (Some (pt a)) tp :: q :: r')
        with (l' ++ [set_next (Some (pt tp)) a] ++ set_prev (Some (pt a)) tp :: q :: r').
      rewrite app_assoc.
      replace (List.length l' + 1)%nat with (List.length (l' ++ [set_next (Some (pt tp)) a])) by (rewrite app_length; auto).
      rewrite link_pair_mid. rewrite <- !app_assoc. reflexivity.
Qed.
(* ---------------------------------------------------------------- _remove_point *)
Lemma skipn_S_mid {A} (l : list A) x r : skipn (S (List.length l)) (l ++ x :: r) = r.
Proof. induction l; simpl; auto. Qed.
Lemma lastt_snoc' l q a : lastt (l ++ [q]) a = Some (pt q).
Proof. unfold lastt. rewrite last_opt_snoc. reflexivity. Qed.

Lemma remove_point_idx_eq t ps : StronglySorted Z.lt (map pt ps) -> remove_point_idx t ps = remove_point t ps.
Proof.
  intros Hs. unfold remove_point_idx, remove_point. rewrite (idx_of_before t ps Hs).
  pose proof (before_from t ps) as BF.
  remember (before t ps) as l eqn:Hl. clear Hl. destruct (from t ps) as [|q r'].
  - rewrite app_nil_r in BF. subst ps.
    assert (N : nth_error l (List.length l) = None) by (apply nth_error_None; lia). rewrite N. reflexivity.
  - subst ps. rewrite nth_error_mid.
    unfold tp_compare, cmpkey. simpl cmp_method. destruct (pt q =? t); [|reflexivity].
    f_equal. unfold np_delete. rewrite firstn_len_app, skipn_S_mid.
    destruct (exists_last_or_nil l) as [El|[l' [a El]]]; rewrite El.
    + simpl. destruct r' as [|b r'']; simpl; auto.
    + rewrite app_length. simpl List.length.
      assert (Z1 : (0 <? List.length l' + 1)%nat = true) by (apply Nat.ltb_lt; lia). rewrite Z1.
      replace (List.length l' + 1 - 1)%nat with (List.length l') by lia.
      rewrite <- app_assoc. simpl app. rewrite nth_error_mid.
      rewrite upd_last_snoc, lastt_snoc'.
      destruct r' as [|b r''].
      * assert (Z2 : (List.length l' + 1 <? List.length (l' ++ [a]))%nat = false) by (apply Nat.ltb_ge; rewrite app_length; simpl; lia).
        rewrite Z2. simpl option_map. rewrite upd_nth_mid. rewrite app_nil_r. reflexivity.
      * assert (Z2 : (List.length l' + 1 <? List.length (l' ++ a :: b :: r''))%nat = true) by (apply Nat.ltb_lt; rewrite app_length; simpl; lia).
        rewrite Z2. replace (List.length l' + 1)%nat with (S (List.length l')) by lia.
        rewrite nth_error_mid2. simpl option_map. rewrite upd_nth_mid, upd_nth_mid2.
        rewrite <- app_assoc. reflexivity.
Qed.

Lemma get_point_idx_eq t ps : StronglySorted Z.lt (map pt ps) -> get_point_idx t ps = get_point t ps.
Proof.
  intros Hs. unfold get_point_idx, get_point. rewrite (idx_of_before t ps Hs).
  pose proof (before_from t ps) as BF. set (l := before t ps) in *. set (r := from t ps) in *.
  rewrite <- BF. destruct r as [|q r'].
  - rewrite app_nil_r. assert (Z : (List.length l <? List.length l)%nat = false) by (apply Nat.ltb_ge; lia). rewrite Z. auto.
  - rewrite nth_error_mid. assert (Z : (List.length l <? List.length (l ++ q :: r'))%nat = true) by (apply Nat.ltb_lt; rewrite app_length; simpl; lia).
    rewrite Z. auto.
Qed.

Lemma cleanup_point_idx_eq t ps : StronglySorted Z.lt (map pt ps) -> cleanup_point_idx t ps = cleanup_point t ps.
Proof. intros Hs. unfold cleanup_point_idx, cleanup_point. rewrite remove_point_idx_eq by auto. reflexivity. Qed.

(* ---------------------------------------------------------------- points[start_idx:end_idx] *)
Lemma before_from_slice x y ps : StronglySorted Z.lt (map pt ps) ->
  before y (from x ps) = firstn (List.length (before y ps) - List.length (before x ps)) (from x ps).
Proof.
  induction ps as [|p r IH]; intros Hs; [reflexivity|].
  apply SS_cons_inv in Hs as [Hr Hp]. simpl.
  destruct (pt p <? x) eqn:Ex.
  - destruct (pt p <? y) eqn:Ey; simpl.
    + apply IH; auto.
    + pose proof (from_ge x r Hr) as G. destruct (from x r) as [|q r']; [reflexivity|].
      simpl. inversion G; subst. assert (E : pt q <? y = false) by lia. rewrite E. reflexivity.
  - rewrite Nat.sub_0_r. change (if pt p <? y then p :: before y r else []) with (before y (p :: r)).
    symmetry. apply firstn_before.
Qed.

Lemma pyslice_eq a b ps : StronglySorted Z.lt (map pt ps) ->
  pyslice (match a with Some t => idx_of ps (Some t) | None => O end)
          (match b with Some t => idx_of ps (Some t) | None => List.length ps end) ps
  = before_opt b (from_opt a ps).
Proof.
  intros Hs. unfold pyslice. destruct a as [x|], b as [y|]; simpl; rewrite ?idx_of_before by auto.
  - rewrite skipn_before. symmetry. apply before_from_slice; auto.
  - rewrite skipn_before. apply firstn_all2. rewrite <- (before_from x ps) at 2. rewrite app_length. lia.
  - rewrite Nat.sub_0_r. apply firstn_before.
  - rewrite Nat.sub_0_r. apply firstn_all.
Qed.

Lemma iter_all_idx_eq p c a b sub mode : InvW p -> iter_all_idx p c a b sub mode = iter_all p c a b sub mode.
Proof. intros I. unfold iter_all_idx, iter_all. rewrite pyslice_eq by apply (iw_sorted p I). reflexivity. Qed.

Lemma first_point_idx_eq p : first_point_idx p = first_point p.
Proof. unfold first_point_idx, first_point. destruct (points p); reflexivity. Qed.

Lemma last_point_idx_eq p : last_point_idx p = last_point p.
Proof.
  unfold last_point_idx, last_point. destruct (exists_last_or_nil (points p)) as [->|[l [a ->]]]; [reflexivity|].
  rewrite app_length. simpl List.length. assert (Z : (0 <? List.length l + 1)%nat = true) by (apply Nat.ltb_lt; lia). rewrite Z.
  replace (List.length l + 1 - 1)%nat with (List.length l) by lia. rewrite nth_error_mid, last_opt_snoc. reflexivity.
Qed.

(* ---------------------------------------------------------------- for tp in points[si:ei]: tp.quarter = q *)
Definition ei_of (ps : list point) (tn : key) : nat := match tn with Some x => List.length (before x ps) | None => List.length ps end.

Lemma upd_range_tail t tn f ps : StronglySorted Z.lt (map pt ps) -> Forall (fun x => t <= pt x) ps ->
  upd_range 0 (ei_of ps tn) f ps = map (fun x => if in_span t tn (pt x) then f x else x) ps.
Proof.
  induction ps as [|p r IH]; intros Hs F; [reflexivity|].
  pose proof Hs as Hs0. apply SS_cons_inv in Hs as [Hr Hp]. inversion F as [|? ? Fp Fr]; subst.
  destruct tn as [x|]; simpl.
  - destruct (pt p <? x) eqn:Ex; simpl.
    + unfold in_span at 1. assert (E : (t <=? pt p) && (pt p <? x) = true) by lia. rewrite E.
      f_equal. apply (IH Hr Fr).
    + f_equal.
      * unfold in_span. assert (E : (t <=? pt p) && (pt p <? x) = false) by lia. rewrite E. reflexivity.
      * symmetry. erewrite map_ext_in; [apply map_id|]. intros y Hy. simpl.
        assert (pt p < pt y) by (apply Hp; apply in_map; auto).
        unfold in_span. assert (E : (t <=? pt y) && (pt y <? x) = false) by lia. rewrite E. reflexivity.
  - unfold in_span at 1. assert (E : (t <=? pt p) && true = true) by lia. rewrite E. f_equal. apply (IH Hr Fr).
Qed.

Lemma upd_range_span t tn f ps : StronglySorted Z.lt (map pt ps) -> (forall x, tn = Some x -> t < x) ->
  upd_range (List.length (before t ps)) (ei_of ps tn) f ps = map (fun x => if in_span t tn (pt x) then f x else x) ps.
Proof.
  induction ps as [|p r IH]; intros Hs Ht; [reflexivity|].
  pose proof Hs as Hs0. apply SS_cons_inv in Hs as [Hr Hp].
  simpl before. destruct (pt p <? t) eqn:Et.
  - simpl List.length. simpl map.
    assert (E : in_span t tn (pt p) = false) by (unfold in_span; lia). rewrite E.
    assert (EI : ei_of (p :: r) tn = S (ei_of r tn)).
    { destruct tn as [x|]; simpl; auto. specialize (Ht x eq_refl). assert (Ex : pt p <? x = true) by lia. rewrite Ex. reflexivity. }
    rewrite EI. simpl. f_equal. apply IH; auto.
  - simpl List.length. apply upd_range_tail; auto.
    constructor; [lia|]. apply Forall_forall. intros y Hy. assert (pt p < pt y) by (apply Hp; apply in_map; auto). lia.
Qed.
(* ---------------------------------------------------------------- the quarter-duration tables *)
Fixpoint tbefore (t : Z) (tab : list (Z * Z)) : list (Z * Z) :=
  match tab with [] => [] | e :: r => if fst e <? t then e :: tbefore t r else [] end.
Fixpoint tfrom (t : Z) (tab : list (Z * Z)) : list (Z * Z) :=
  match tab with [] => [] | e :: r => if fst e <? t then tfrom t r else tab end.

Lemma tbefore_tfrom t tab : tbefore t tab ++ tfrom t tab = tab.
Proof. induction tab as [|e r IH]; simpl; auto. destruct (fst e <? t); simpl; [rewrite IH|]; auto. Qed.
Lemma tbefore_lt t tab : Forall (fun e => fst e < t) (tbefore t tab).
Proof. induction tab as [|e r IH]; simpl; auto. destruct (fst e <? t) eqn:E; auto. constructor; auto. lia. Qed.
Lemma tab_incr_ge lo tab : tab_incr lo tab -> Forall (fun e => lo < fst e) tab.
Proof.
  revert lo. induction tab as [|e r IH]; intros lo H; auto. destruct H as [H1 H2]. constructor; auto.
  eapply Forall_impl; [|apply (IH _ H2)]. intros a Ha. simpl in Ha. lia.
Qed.
Lemma tfrom_ge t lo tab : tab_incr lo tab -> Forall (fun e => t <= fst e) (tfrom t tab) /\ tab_incr (Z.max lo (t - 1)) (tfrom t tab).
Proof.
  revert lo. induction tab as [|e r IH]; intros lo H; simpl; [split; [auto|exact I]|].
  destruct H as [H1 H2]. destruct (fst e <? t) eqn:E.
  - destruct (IH _ H2) as [A B]. split; auto. destruct (tfrom t r) as [|e' r']; [exact I|].
    destruct B as [B1 B2]. split; auto. inversion A; subst. lia.
  - split.
    + constructor; [lia|]. eapply Forall_impl; [|apply (tab_incr_ge _ _ H2)]. intros a Ha. simpl in Ha. lia.
    + split; auto. lia.
Qed.

Lemma qt_search_eq t lo tab : tab_incr lo tab -> searchsorted tab (fun e => fst e <? t) = List.length (tbefore t tab).
Proof.
  intros H. rewrite <- (tbefore_tfrom t tab) at 1. apply searchsorted_split.
  - eapply Forall_impl; [|apply tbefore_lt]. intros e He. simpl in He. lia.
  - destruct (tfrom_ge t lo tab H) as [A _]. eapply Forall_impl; [|exact A]. intros e He. simpl in He. lia.
Qed.

Definition lastq (l : list (Z * Z)) (prevq : option Z) : option Z :=
  match last_opt l with Some e => Some (snd e) | None => prevq end.

Lemma set_q_tab_app t q l r : Forall (fun e => fst e < t) l -> forall prevq,
  set_q_tab t q prevq (l ++ r) = (l ++ fst (set_q_tab t q (lastq l prevq) r), snd (set_q_tab t q (lastq l prevq) r)).
Proof.
  induction l as [|[t' q'] l IH]; intros F prevq.
  - unfold lastq. simpl. destruct (set_q_tab t q prevq r); reflexivity.
  - inversion F as [|? ? F1 F2]; subst. simpl in F1. simpl app. simpl set_q_tab.
    assert (E : t' <? t = true) by lia. rewrite E. rewrite (IH F2 (Some q')).
    assert (L : lastq ((t', q') :: l) prevq = lastq l (Some q')).
    { unfold lastq. rewrite last_opt_cons. destruct l as [|e l']; [reflexivity|].
      destruct (last_opt_some e l') as [x ->]. reflexivity. }
    rewrite L. reflexivity.
Qed.

Lemma nth_error_len {A} (l : list A) : nth_error l (List.length l) = None.
Proof. apply nth_error_None. lia. Qed.

(* the index-level table update is the list-level one; i is the number of earlier changes *)
Lemma set_q_tab_idx_eq t q lo tab : tab_incr lo tab ->
  set_q_tab_idx t q tab = (fst (set_q_tab t q None tab), snd (set_q_tab t q None tab), List.length (tbefore t tab)).
Proof.
  intros H. unfold set_q_tab_idx. rewrite (qt_search_eq t lo tab H).
  pose proof (tbefore_tfrom t tab) as BF. pose proof (tbefore_lt t tab) as BL.
  destruct (tfrom_ge t lo tab H) as [FG _].
  remember (tbefore t tab) as l eqn:Hl. clear Hl. remember (tfrom t tab) as r eqn:Hr. clear Hr. subst tab.
  rewrite (set_q_tab_app t q l r BL None).
  assert (INS : (if (List.length l =? 0)%nat
                   || negb (match nth_error (l ++ r) (List.length l - 1) with Some e => snd e =? q | None => false end)
                then (np_insert (List.length l) (t, q) (l ++ r), true, List.length l) else (l ++ r, false, List.length l))
                = (if same_q (lastq l None) q then (l ++ r, false, List.length l) else (l ++ (t, q) :: r, true, List.length l))).
  { unfold np_insert. rewrite firstn_len_app, skipn_len_app.
    destruct (exists_last_or_nil l) as [->|[l' [a ->]]]; [reflexivity|].
    rewrite app_length. simpl List.length. assert (Z1 : (List.length l' + 1 =? 0)%nat = false) by (apply Nat.eqb_neq; lia). rewrite Z1.
    replace (List.length l' + 1 - 1)%nat with (List.length l') by lia. rewrite <- app_assoc. simpl app. rewrite nth_error_mid.
    unfold lastq. rewrite last_opt_snoc. simpl. destruct (snd a =? q); reflexivity. }
  destruct r as [|[t' q'] r'].
  - rewrite app_nil_r in *. rewrite nth_error_len. rewrite INS. simpl. destruct (same_q (lastq l None) q); simpl; rewrite ?app_nil_r; reflexivity.
  - rewrite nth_error_mid. inversion FG as [|? ? F1 F2]; subst. simpl in F1. simpl fst. simpl snd.
    simpl set_q_tab. assert (E1 : t' <? t = false) by lia. rewrite E1.
    destruct (t' =? t) eqn:E2.
    + destruct (q' =? q); simpl; [reflexivity|]. rewrite upd_nth_mid. reflexivity.
    + rewrite INS. destruct (same_q (lastq l None) q); reflexivity.
Qed.

Lemma next_change_mid t q l r : Forall (fun e => fst e < t) l ->
  next_change t (l ++ (t, q) :: r) = next_change t r.
Proof.
  induction l as [|[t' q'] l IH]; intros F; simpl.
  - rewrite Z.ltb_irrefl. reflexivity.
  - inversion F; subst. simpl in *. assert (E : t <? t' = false) by lia. rewrite E. auto.
Qed.

(* when the table changed, entry i is (t, q) and entry i + 1 (if any) is the next later change *)
Lemma set_q_tab_next t q lo tab : tab_incr lo tab -> snd (set_q_tab t q None tab) = true ->
  match nth_error (fst (set_q_tab t q None tab)) (S (List.length (tbefore t tab))) with
  | Some e => Some (fst e) | None => None end = next_change t (fst (set_q_tab t q None tab)).
Proof.
  intros H. pose proof (tbefore_tfrom t tab) as BF. pose proof (tbefore_lt t tab) as BL.
  destruct (tfrom_ge t lo tab H) as [FG FI].
  remember (tbefore t tab) as l eqn:Hl. clear Hl. remember (tfrom t tab) as r eqn:Hr. clear Hr. subst tab.
  rewrite (set_q_tab_app t q l r BL None). simpl fst. simpl snd.
  assert (K : forall r0, Forall (fun e => t < fst e) r0 ->
     match nth_error (l ++ (t, q) :: r0) (S (List.length l)) with Some e => Some (fst e) | None => None end
     = next_change t (l ++ (t, q) :: r0)).
  { intros r0 F0. rewrite next_change_mid by auto. destruct r0 as [|e r1].
    - replace (S (List.length l)) with (List.length (l ++ [(t, q)])) by (rewrite app_length; simpl; lia).
      change (l ++ [(t, q)]) with (l ++ [(t, q)]). replace (l ++ [(t, q)]) with (l ++ [(t, q)]) by auto.
      assert (N : nth_error (l ++ [(t, q)]) (List.length (l ++ [(t, q)])) = None) by apply nth_error_len.
      rewrite N. reflexivity.
    - rewrite nth_error_mid2. inversion F0; subst. destruct e as [t1 q1]. simpl in *.
      assert (E : t <? t1 = true) by lia. rewrite E. reflexivity. }
  destruct r as [|[t' q'] r'].
  - simpl. destruct (same_q (lastq l None) q); simpl; [discriminate|]. intros _. apply K. constructor.
  - inversion FG as [|? ? F1 F2]; subst. simpl in F1. simpl set_q_tab.
    assert (E1 : t' <? t = false) by lia. rewrite E1.
    assert (GT : Forall (fun e => t' < fst e) r').
    { destruct FI as [_ FI]. simpl in FI. apply (tab_incr_ge _ _ FI). }
    destruct (t' =? t) eqn:E2.
    + destruct (q' =? q); simpl; [discriminate|]. intros _. apply K.
      eapply Forall_impl; [|exact GT]. intros a Ha. simpl in Ha. lia.
    + destruct (same_q (lastq l None) q); simpl; [discriminate|]. intros _. apply K.
      constructor; [simpl; lia|]. eapply Forall_impl; [|exact GT]. intros a Ha. simpl in Ha. lia.
Qed.
(* ---------------------------------------------------------------- whole operations *)
Lemma next_change_gt t tab x : next_change t tab = Some x -> t < x.
Proof.
  induction tab as [|[t' q'] r IH]; simpl; [discriminate|]. destruct (t <? t') eqn:E; auto.
  intros H. inversion H; subst. lia.
Qed.

Lemma map_pt_upd_at t f ps : (forall q, pt (f q) = pt q) -> map pt (upd_at t f ps) = map pt ps.
Proof.
  intros H. unfold upd_at. rewrite map_map. apply map_ext. intros q. destruct (pt q =? t); auto.
Qed.

Lemma setq_idx_eq p t q : InvW p ->
  set_quarter_duration_idx (p, qtab p) t q = (set_quarter_duration p t q, qtab (set_quarter_duration p t q)).
Proof.
  intros I. unfold set_quarter_duration_idx, set_quarter_duration.
  destruct (iw_qtab p I) as [Hinc _]. rewrite (set_q_tab_idx_eq t q (-1) (qtab p) Hinc).
  pose proof (set_q_tab_next t q (-1) (qtab p) Hinc) as NX.
  destruct (set_q_tab t q None (qtab p)) as [tab' ch] eqn:E. simpl fst in *; simpl snd in *.
  destruct ch; [|reflexivity]. cbv beta iota zeta. unfold key in *.
  rewrite (NX eq_refl). simpl qtab. f_equal. f_equal.
  pose proof (iw_sorted p I) as Hs. rewrite idx_of_before by auto.
  assert (EI : idx_of (points p) (next_change t tab') = ei_of (points p) (next_change t tab')).
  { destruct (next_change t tab'); simpl; [apply idx_of_before; auto | apply idx_of_inf]. }
  rewrite EI. apply upd_range_span; auto. intros x Hx. eapply next_change_gt; eauto.
Qed.

Lemma goap_idx_eq p t : InvW p -> get_or_add_point_idx (p, qtab p) t = (get_or_add_point p t, qtab p).
Proof.
  intros I. pose proof (iw_sorted p I) as Hs. unfold get_or_add_point_idx, get_or_add_point.
  rewrite get_point_idx_eq by auto. destruct (get_point t (points p)); [reflexivity|].
  rewrite add_point_idx_eq by auto. reflexivity.
Qed.

Lemma add_side_idx_eq s p o t : InvW p -> add_side_idx s (p, qtab p) o t = (add_side s p o t, qtab p).
Proof. intros I. unfold add_side_idx, add_side. rewrite goap_idx_eq by auto. reflexivity. Qed.

Lemma add_opt_idx_eq s p o v : InvW p ->
  add_opt_idx s ((p, qtab p), OutOk) o v = ((fst (add_opt s (p, OutOk) o v), qtab p), snd (add_opt s (p, OutOk) o v)).
Proof.
  intros I. unfold add_opt_idx, add_opt. destruct v as [t|]; [|reflexivity].
  destruct (t <? 0); [reflexivity|]. rewrite add_side_idx_eq by auto. reflexivity.
Qed.

Lemma remove_side_idx_eq s p o : InvW p ->
  remove_side_idx s (p, qtab p) o = ((fst (remove_side s p o), qtab p), snd (remove_side s p o)).
Proof.
  intros I. unfold remove_side_idx, remove_side. destruct (oref s p o) as [t|]; [|reflexivity].
  rewrite cleanup_point_idx_eq.
  - destruct (cleanup_point t _); reflexivity.
  - rewrite map_pt_upd_at; [apply (iw_sorted p I)|]. intros q. destruct s; reflexivity.
Qed.

(* every operation on valid arguments, and every rejected call: the index-level code computes the list-level
   result, and the cached quarter map is the one of the current table afterwards *)
Lemma step_idx_eq_lemma p o : InvW p -> valid_op p o \/ rejected o ->
  step_idx (p, qtab p) o = ((fst (step p o), qtab (fst (step p o))), snd (step p o)).
Proof.
  intros I [V|R].
  2:{ assert (E : step_idx (p, qtab p) o = ((p, qtab p), OutInvalidTime)).
      { destruct o as [ob s e | ob w | t q | t | ob s]; simpl in R; try contradiction.
        - simpl. unfold add_idx. rewrite R. reflexivity.
        - simpl. assert (Z : t <? 0 = true) by lia. rewrite Z. reflexivity. }
      rewrite E. rewrite (rejected_step p o R). reflexivity. }
  destruct o as [ob s e | ob w | t q | t | ob s]; simpl in V; unfold step_idx, step; cbv beta iota.
  - destruct V as [Vs Ve]. unfold add_idx, add.
    destruct (neg_opt s || neg_opt e); [reflexivity|].
    rewrite add_opt_idx_eq by auto.
    destruct (add_opt_ok SStart p ob s I Vs) as [p1 [E1 [I1 [A1 [B1 [C1 D1]]]]]]. rewrite E1. cbn [fst snd].
    rewrite <- C1. rewrite add_opt_idx_eq by auto.
    assert (Ve' : forall t, e = Some t -> 0 <= t /\ oref SEnd p1 ob = None).
    { intros t Et. destruct (Ve t Et). split; auto. rewrite (B1 SEnd) by discriminate. auto. }
    destruct (add_opt_ok SEnd p1 ob e I1 Ve') as [p2 [E2 [I2 [A2 [B2 [C2 D2]]]]]]. rewrite E2. cbn [fst snd]. rewrite C2. reflexivity.
  - unfold remove_idx, remove. destruct w.
    + rewrite remove_side_idx_eq by auto.
      destruct (remove_side_ok SStart p ob I) as [p1 [E1 [I1 [A1 [B1 [C1 D1]]]]]]. rewrite E1. cbn [fst snd]. rewrite C1. reflexivity.
    + rewrite remove_side_idx_eq by auto.
      destruct (remove_side_ok SEnd p ob I) as [p1 [E1 [I1 [A1 [B1 [C1 D1]]]]]]. rewrite E1. cbn [fst snd]. rewrite C1. reflexivity.
    + rewrite remove_side_idx_eq by auto.
      destruct (remove_side_ok SStart p ob I) as [p1 [E1 [I1 [A1 [B1 [C1 D1]]]]]]. rewrite E1. cbn [fst snd].
      rewrite <- C1. rewrite remove_side_idx_eq by auto.
      destruct (remove_side_ok SEnd p1 ob I1) as [p2 [E2 [I2 [A2 [B2 [C2 D2]]]]]]. rewrite E2. cbn [fst snd]. rewrite C2. reflexivity.
  - rewrite setq_idx_eq by auto. reflexivity.
  - assert (E : t <? 0 = false) by lia. rewrite E. rewrite goap_idx_eq by auto. cbn [fst snd].
    destruct (goap_ok p t I V) as [_ [_ [_ [Hq _]]]]. rewrite Hq. reflexivity.
  - cbn [fst snd]. destruct (tp_remove_ok s p ob I) as [_ [_ [_ [C _]]]]. rewrite C. reflexivity.
Qed.

Lemma run_idx_eq_lemma ops : forall p, InvW p -> mixed_run p ops ->
  run_idx (p, qtab p) ops = (run p ops, qtab (run p ops)).
Proof.
  induction ops as [|o r IH]; intros p I M; [reflexivity|]. destruct M as [VR M]. simpl.
  rewrite (step_idx_eq_lemma p o I VR). simpl fst. apply IH; auto.
  destruct VR as [V|R]; [apply step_invw_lemma; auto | rewrite (rejected_step p o R); auto].
Qed.

Lemma reachable_idx_lemma q0 ops : mixed_run (init q0) ops ->
  run_idx (init_idx q0) ops = (run (init q0) ops, qtab (run (init q0) ops)).
Proof. intros M. apply (run_idx_eq_lemma ops (init q0)); auto. apply inv_init_lemma. Qed.

(* ---------------------------------------------------------------- rich comparison by time *)
Lemma cmp_by_time_lemma a b :
  all_cmp a b = [a <? b; a <=? b; a =? b; b <=? a; b <? a; negb (a =? b)].
Proof. reflexivity. Qed.

Lemma tp_compare_spec_lemma m x y :
  tp_compare m x (cmpkey y) = true <->
  match m with CLt => pt x < pt y | CLe => pt x <= pt y | CEq => pt x = pt y
             | CGe => pt x >= pt y | CGt => pt x > pt y | CNe => pt x <> pt y end.
Proof. unfold tp_compare, cmpkey. destruct m; simpl; lia. Qed.

(* the timeline is strictly ordered by the comparison the code uses, and == means "same point" *)
Lemma timeline_ordered_lemma p : InvW p -> forall i j x y,
  nth_error (points p) i = Some x -> nth_error (points p) j = Some y ->
  (tp_compare CLt x (cmpkey y) = true <-> (i < j)%nat) /\ (tp_compare CEq x (cmpkey y) = true <-> x = y).
Proof.
  intros I i j x y Hi Hj. pose proof (iw_sorted p I) as Hs.
  assert (M0 : forall ps, StronglySorted Z.lt (map pt ps) -> forall i j x y,
              nth_error ps i = Some x -> nth_error ps j = Some y -> (i < j)%nat -> pt x < pt y).
  { clear. induction ps as [|a ps IH]; intros Hs i j x y Hi Hj L; [destruct i; discriminate|].
    apply SS_cons_inv in Hs as [Hr Ha]. destruct j as [|j]; [lia|]. destruct i as [|i]; simpl in *.
    - inversion Hi; subst. apply Ha. apply in_map. eapply nth_error_In; eauto.
    - eapply (IH Hr i j); eauto. lia. }
  pose proof (M0 _ Hs) as M.
  rewrite !tp_compare_spec_lemma. split; split.
  - intros L. destruct (Nat.lt_ge_cases i j) as [|G]; auto. exfalso.
    destruct (Nat.eq_dec i j) as [->|N]; [rewrite Hi in Hj; inversion Hj; subst; lia|].
    assert (pt y < pt x) by (eapply M; eauto; lia). lia.
  - eapply M; eauto.
  - intros E. eapply pt_unique; eauto using nth_error_In.
  - intros ->. reflexivity.
Qed.

(* np.searchsorted(points, TimePoint(t)) counts the points strictly before t *)
Lemma filter_none {A} (f : A -> bool) (l : list A) : (forall x, In x l -> f x = false) -> filter f l = [].
Proof. induction l as [|a l IH]; intros H; simpl; auto. rewrite (H a) by (left; auto). apply IH. intros x Hx. apply H. right; auto. Qed.

Lemma before_filter t ps : StronglySorted Z.lt (map pt ps) -> before t ps = filter (fun x => pt x <? t) ps.
Proof.
  induction ps as [|p r IH]; intros Hs; [reflexivity|]. apply SS_cons_inv in Hs as [Hr Hp]. simpl.
  destruct (pt p <? t) eqn:E; [f_equal; auto|].
  symmetry. apply filter_none. intros y Hy. assert (pt p < pt y) by (apply Hp; apply in_map; auto). lia.
Qed.

Lemma searchsorted_counts_lemma p t : InvW p ->
  idx_of (points p) (Some t) = List.length (filter (fun x => pt x <? t) (points p)) /\
  idx_of (points p) None = List.length (points p).
Proof.
  intros I. pose proof (iw_sorted p I) as Hs. split; [|apply idx_of_inf].
  rewrite idx_of_before by auto. rewrite before_filter by auto. reflexivity.
Qed.

Lemma queries_idx_eq_lemma p : InvW p ->
  (forall c a b sub mode, iter_all_idx p c a b sub mode = iter_all p c a b sub mode) /\
  (forall t, get_point_idx t (points p) = get_point t (points p)) /\
  first_point_idx p = first_point p /\ last_point_idx p = last_point p.
Proof.
  intros I. split; [|split; [|split]].
  - intros. apply iter_all_idx_eq; auto.
  - intros. apply get_point_idx_eq. apply (iw_sorted p I).
  - apply first_point_idx_eq.
  - apply last_point_idx_eq.
Qed.

(* not vacuous: the 4-point example part, by the index-level code *)
Lemma idx_nontrivial_lemma :
  mixed_run (init 1) ex_ops /\
  run_idx (init_idx 1) ex_ops = (run (init 1) ex_ops, [(0, 1); (4, 1)]) /\
  map (fun t => idx_of (points (fst (run_idx (init_idx 1) ex_ops))) t) [Some 0; Some 4; Some 5; Some 12; Some 13; None]
  = [0; 1; 2; 3; 4; 4]%nat.
Proof.
  split; [|split; vm_compute; reflexivity].
  destruct ex_valid as [V _]. revert V. generalize (init 1). induction ex_ops as [|o r IH]; intros p V; simpl; auto.
  destruct V as [V1 V2]. split; auto.
Qed.
