(* C06 -- Performance.sanitize_track_numbers; remove_silence_from_performed_part *)
From PV Require Import Lib.Base Model.C06 Model.C06_perf Proofs.C06_lib.
From Coq Require Import QArith Qminmax Sorted Permutation.
#[local] Open Scope Z_scope.

(* ---- the order on (part, track) pairs *)
Definition pair_lt (a b : tpair) : Prop := fst a < fst b \/ (fst a = fst b /\ snd a < snd b).

Lemma pair_ltb_lt a b : pair_ltb a b = true <-> pair_lt a b.
Proof. unfold pair_ltb, pair_lt. destruct a, b; cbn [fst snd]. lia. Qed.
Lemma pair_eqb_eq a b : pair_eqb a b = true <-> a = b.
Proof.
  unfold pair_eqb. destruct a as [a1 a2], b as [b1 b2]; cbn [fst snd]. split.
  - intros H. f_equal; lia.
  - intros H. injection H as -> ->. lia.
Qed.
Lemma pair_leb_total a b : pair_leb a b = false -> pair_leb b a = true.
Proof. unfold pair_leb. destruct a, b; cbn [fst snd]. lia. Qed.
Lemma pair_leb_trans a b c : pair_leb a b = true -> pair_leb b c = true -> pair_leb a c = true.
Proof. unfold pair_leb. destruct a, b, c; cbn [fst snd]. lia. Qed.
Lemma pair_leb_lt a b : pair_leb a b = true -> a <> b -> pair_lt a b.
Proof.
  unfold pair_leb, pair_lt. destruct a as [a1 a2], b as [b1 b2]; cbn [fst snd]. intros H N.
  destruct (Z.eq_dec a1 b1) as [->|]; [|lia]. right. split; [reflexivity|].
  assert (a2 <> b2) by (intros ->; apply N; reflexivity). lia.
Qed.
Lemma pair_lt_irrefl a : ~ pair_lt a a.
Proof. unfold pair_lt. lia. Qed.
Lemma pair_lt_trans a b c : pair_lt a b -> pair_lt b c -> pair_lt a c.
Proof. unfold pair_lt. lia. Qed.
Lemma pair_lt_tricho a b : pair_lt a b \/ a = b \/ pair_lt b a.
Proof.
  unfold pair_lt. destruct a as [a1 a2], b as [b1 b2]; cbn [fst snd].
  destruct (Z.lt_trichotomy a1 b1) as [H|[H|H]]; [lia| |lia].
  destruct (Z.lt_trichotomy a2 b2) as [G|[G|G]]; [lia| |lia]. right. left. subst. reflexivity.
Qed.

Lemma pmem_In x l : pmem x l = true <-> In x l.
Proof.
  induction l as [|y r IH]; simpl; [split; [discriminate|tauto]|].
  rewrite orb_true_iff, IH, pair_eqb_eq. split; intros [H|H]; auto.
Qed.
Lemma puniq_In x l : In x (puniq l) <-> In x l.
Proof.
  induction l as [|y r IH]; simpl; [tauto|]. destruct (pmem y r) eqn:E.
  - rewrite IH. split; auto. intros [<-|H]; auto. apply pmem_In. exact E.
  - simpl. rewrite IH. tauto.
Qed.
Lemma puniq_NoDup l : NoDup (puniq l).
Proof.
  induction l as [|y r IH]; simpl; [constructor|]. destruct (pmem y r) eqn:E; auto.
  constructor; auto. rewrite puniq_In. intros H. apply pmem_In in H. congruence.
Qed.

Definition strict_sorted (l : list tpair) : Prop := StronglySorted pair_lt l.

Lemma sorted_pairs_perm l : Permutation (sorted_pairs l) (puniq l).
Proof. apply sort_le_perm. Qed.
Lemma sorted_pairs_In x l : In x (sorted_pairs l) <-> In x l.
Proof.
  split; intros H.
  - apply puniq_In. eapply Permutation_in; [apply sorted_pairs_perm|exact H].
  - eapply Permutation_in; [symmetry; apply sorted_pairs_perm|]. apply puniq_In. exact H.
Qed.
Lemma le_nodup_strict l : StronglySorted (le_of pair_leb) l -> NoDup l -> strict_sorted l.
Proof.
  induction 1 as [|x r S IH HF]; intros N; [constructor|]. inversion N as [|? ? Hx Nr]; subst.
  constructor; [apply IH; exact Nr|]. rewrite Forall_forall in *. intros y Hy.
  apply pair_leb_lt; [apply HF; exact Hy|]. intros ->. contradiction.
Qed.
Lemma sorted_pairs_strict l : strict_sorted (sorted_pairs l).
Proof.
  apply le_nodup_strict.
  - apply sort_le_sorted; [apply pair_leb_total|apply pair_leb_trans].
  - eapply Permutation_NoDup; [symmetry; apply sorted_pairs_perm|apply puniq_NoDup].
Qed.

(* two strictly sorted lists with the same members are equal *)
Lemma strict_sorted_ext : forall l1 l2, strict_sorted l1 -> strict_sorted l2 ->
  (forall x, In x l1 <-> In x l2) -> l1 = l2.
Proof.
  induction l1 as [|a r1 IH]; intros l2 S1 S2 H.
  - destruct l2 as [|b r2]; [reflexivity|]. exfalso. apply (H b). left. reflexivity.
  - destruct l2 as [|b r2]; [exfalso; apply (H a); left; reflexivity|].
    inversion S1 as [|? ? S1' F1]; subst. inversion S2 as [|? ? S2' F2]; subst.
    rewrite Forall_forall in F1, F2.
    assert (E : a = b).
    { destruct (proj1 (H a) (or_introl eq_refl)) as [E|Ha]; [symmetry; exact E|].
      destruct (proj2 (H b) (or_introl eq_refl)) as [E|Hb]; [exact E|].
      exfalso. apply (pair_lt_irrefl a). eapply pair_lt_trans; [apply F1; exact Hb|apply F2; exact Ha]. }
    subst b. f_equal. apply IH; auto. intros x. split; intros Hx.
    + destruct (proj1 (H x) (or_intror Hx)) as [E|G]; [|exact G].
      subst x. exfalso. apply (pair_lt_irrefl a). apply F1. exact Hx.
    + destruct (proj2 (H x) (or_intror Hx)) as [E|G]; [|exact G].
      subst x. exfalso. apply (pair_lt_irrefl a). apply F2. exact Hx.
Qed.

(* ---- the number of a pair is the number of distinct pairs below it *)
Definition below (x : tpair) (l : list tpair) : list tpair := filter (fun y => pair_ltb y x) l.

Lemma below_none x l : Forall (pair_lt x) l -> below x l = [].
Proof.
  induction 1 as [|y r H HF IH]; [reflexivity|]. unfold below in *. cbn [filter].
  destruct (pair_ltb y x) eqn:E; [|exact IH]. exfalso. apply pair_ltb_lt in E.
  apply (pair_lt_irrefl x). eapply pair_lt_trans; eassumption.
Qed.

Lemma index_from_below : forall l k x, strict_sorted l -> In x l ->
  index_from k x l = Some (k + Z.of_nat (List.length (below x l))).
Proof.
  induction l as [|y r IH]; intros k x S Hx; [destruct Hx|].
  inversion S as [|? ? S' F]; subst. cbn [index_from]. destruct (pair_eqb x y) eqn:E.
  - apply pair_eqb_eq in E. subst y. unfold below. cbn [filter].
    destruct (pair_ltb x x) eqn:E2; [apply pair_ltb_lt in E2; destruct (pair_lt_irrefl _ E2)|].
    fold (below x r). rewrite below_none by exact F. cbn. f_equal. lia.
  - destruct Hx as [->|Hx]; [rewrite (proj2 (pair_eqb_eq x x) eq_refl) in E; discriminate|].
    rewrite IH by assumption. unfold below. cbn [filter].
    rewrite Forall_forall in F. rewrite (proj2 (pair_ltb_lt y x) (F x Hx)). cbn [List.length]. f_equal. lia.
Qed.

Lemma Permutation_filter_len {A} (p : A -> bool) l l' : Permutation l l' -> List.length (filter p l) = List.length (filter p l').
Proof.
  induction 1 as [|x l l' P IH|x y l|l l' l'' P1 IH1 P2 IH2]; cbn [filter]; auto.
  - destruct (p x); cbn; auto.
  - destruct (p x), (p y); reflexivity.
  - congruence.
Qed.

Definition rank (l : list tpair) (x : tpair) : Z := Z.of_nat (List.length (below x (puniq l))).

Lemma track_no_rank l x : In x l -> track_no (sorted_pairs l) x = rank l x.
Proof.
  intros H. unfold track_no. rewrite index_from_below.
  - unfold rank, below. rewrite (Permutation_filter_len _ _ _ (sorted_pairs_perm l)). lia.
  - apply sorted_pairs_strict.
  - apply sorted_pairs_In. exact H.
Qed.

Lemma filter_len_le {A} (p q : A -> bool) l : (forall x, In x l -> p x = true -> q x = true) ->
  (List.length (filter p l) <= List.length (filter q l))%nat.
Proof.
  induction l as [|y r IH]; intros H; [apply le_n|]. cbn [filter].
  assert (IH' := IH (fun x Hx => H x (or_intror Hx))).
  destruct (p y) eqn:E.
  - rewrite (H y (or_introl eq_refl) E). cbn. lia.
  - destruct (q y); cbn; lia.
Qed.
Lemma filter_len_lt {A} (p q : A -> bool) l z : (forall x, In x l -> p x = true -> q x = true) ->
  In z l -> p z = false -> q z = true -> (List.length (filter p l) < List.length (filter q l))%nat.
Proof.
  induction l as [|y r IH]; intros H Hz Pz Qz; [destruct Hz|]. cbn [filter].
  assert (Hr := fun x Hx => H x (or_intror Hx)).
  destruct Hz as [->|Hz].
  - rewrite Pz, Qz. cbn. pose proof (filter_len_le p q r Hr). lia.
  - specialize (IH Hr Hz Pz Qz). destruct (p y) eqn:E.
    + rewrite (H y (or_introl eq_refl) E). cbn. lia.
    + destruct (q y); cbn; lia.
Qed.

Lemma rank_lt l x y : In x l -> pair_lt x y -> rank l x < rank l y.
Proof.
  intros Hx L. unfold rank, below. apply Nat2Z.inj_lt. apply (filter_len_lt _ _ _ x).
  - intros z _ Hz. apply pair_ltb_lt in Hz. apply pair_ltb_lt. eapply pair_lt_trans; eassumption.
  - apply puniq_In. exact Hx.
  - destruct (pair_ltb x x) eqn:E; [apply pair_ltb_lt in E; destruct (pair_lt_irrefl _ E)|reflexivity].
  - apply pair_ltb_lt. exact L.
Qed.

Lemma sanitize_order_lemma l x y : In x l -> In y l ->
  (track_no (sorted_pairs l) x < track_no (sorted_pairs l) y <-> pair_lt x y) /\
  (track_no (sorted_pairs l) x = track_no (sorted_pairs l) y <-> x = y).
Proof.
  intros Hx Hy. rewrite !track_no_rank by assumption.
  destruct (pair_lt_tricho x y) as [L|[E|G]].
  - pose proof (rank_lt l x y Hx L). split; split; intros; try lia; try assumption.
    subst y. destruct (pair_lt_irrefl _ L).
  - subst y. split; split; intros; try lia; try reflexivity. destruct (pair_lt_irrefl _ H).
  - pose proof (rank_lt l y x Hy G). split; split; intros; try lia.
    + exfalso. apply (pair_lt_irrefl x). eapply pair_lt_trans; eassumption.
    + subst y. destruct (pair_lt_irrefl _ G).
Qed.

Lemma sanitize_range_lemma l x : In x l ->
  0 <= track_no (sorted_pairs l) x < Z.of_nat (List.length (sorted_pairs l)).
Proof.
  intros Hx. rewrite track_no_rank by assumption. unfold rank, below.
  rewrite (Permutation_length (sorted_pairs_perm l)). split; [lia|]. apply Nat2Z.inj_lt.
  pose proof (filter_len_lt (fun y => pair_ltb y x) (fun _ => true) (puniq l) x) as H.
  assert (E : filter (fun _ : tpair => true) (puniq l) = puniq l).
  { clear. induction (puniq l) as [|a r IH]; [reflexivity|]. cbn. rewrite IH. reflexivity. }
  rewrite E in H. apply H; auto.
  - apply puniq_In. exact Hx.
  - destruct (pair_ltb x x) eqn:E2; [apply pair_ltb_lt in E2; destruct (pair_lt_irrefl _ E2)|reflexivity].
Qed.

(* ---- renumbering twice changes nothing *)
Lemma number_from_map {A B} (h : Z -> A -> B) : forall (l : list A) k,
  number_from k (map (fun x => h (fst x) (snd x)) (number_from k l))
  = map (fun x => (fst x, h (fst x) (snd x))) (number_from k l).
Proof.
  induction l as [|a r IH]; intros k; [reflexivity|]. cbn [number_from map fst snd]. rewrite IH. reflexivity.
Qed.
Lemma ptracks_all_pmap f p : ptracks_all (pmap f p) = map f (ptracks_all p).
Proof. destruct p as [[n c] g]. cbn. rewrite !map_app. reflexivity. Qed.
Lemma pmap_pmap f h p : pmap f (pmap h p) = pmap (fun t => f (h t)) p.
Proof. destruct p as [[n c] g]. cbn. rewrite !map_map. reflexivity. Qed.
Lemma pmap_ext_in f h p : (forall t, In t (ptracks_all p) -> f t = h t) -> pmap f p = pmap h p.
Proof.
  destruct p as [[n c] g]. cbn. intros H.
  rewrite (map_ext_in f h n), (map_ext_in f h c), (map_ext_in f h g); [reflexivity| | |];
    intros t Ht; apply H; rewrite !in_app_iff; auto.
Qed.

Definition pairs_of (L : list (Z * ptracks)) : list tpair :=
  flat_map (fun x => map (fun t => (fst x, t)) (ptracks_all (snd x))) L.
Definition renum (ids : list tpair) (x : tpair) : tpair := (fst x, track_no ids x).

Lemma pairs_of_renum ids L :
  pairs_of (map (fun x => (fst x, pmap (fun t => track_no ids (fst x, t)) (snd x))) L) = map (renum ids) (pairs_of L).
Proof.
  induction L as [|x r IH]; [reflexivity|]. unfold pairs_of in *. cbn [map flat_map fst snd].
  rewrite map_app, IH. f_equal. rewrite ptracks_all_pmap, !map_map. reflexivity.
Qed.
Lemma all_pairs_sanitize ps :
  all_pairs (sanitize ps) = map (renum (sorted_pairs (all_pairs ps))) (all_pairs ps).
Proof.
  unfold sanitize. cbv zeta. set (ids := sorted_pairs (all_pairs ps)).
  change (all_pairs ?p) with (pairs_of (number_from 0 p)).
  rewrite (number_from_map (fun i p => pmap (fun t => track_no ids (i, t)) p)). apply pairs_of_renum.
Qed.

Lemma renum_mono l x y : In x l -> In y l -> pair_lt x y ->
  pair_lt (renum (sorted_pairs l) x) (renum (sorted_pairs l) y).
Proof.
  intros Hx Hy L. unfold renum, pair_lt. cbn [fst snd]. destruct L as [L|[E L]]; [left; exact L|].
  right. split; [exact E|]. apply (sanitize_order_lemma l x y Hx Hy). right. auto.
Qed.
Lemma renum_inj l x y : In x l -> In y l -> renum (sorted_pairs l) x = renum (sorted_pairs l) y -> x = y.
Proof.
  intros Hx Hy E. destruct (pair_lt_tricho x y) as [L|[G|L]]; [|exact G|].
  - pose proof (renum_mono l x y Hx Hy L) as M. rewrite E in M. destruct (pair_lt_irrefl _ M).
  - pose proof (renum_mono l y x Hy Hx L) as M. rewrite E in M. destruct (pair_lt_irrefl _ M).
Qed.

Lemma strict_sorted_map (g : tpair -> tpair) L :
  strict_sorted L -> (forall x y, In x L -> In y L -> pair_lt x y -> pair_lt (g x) (g y)) -> strict_sorted (map g L).
Proof.
  induction 1 as [|a r S IH F]; intros M; [constructor|]. cbn [map]. constructor.
  - apply IH. intros x y Hx Hy. apply M; right; assumption.
  - rewrite Forall_forall in *. intros z Hz. apply in_map_iff in Hz as (y & <- & Hy).
    apply M; [left; reflexivity|right; exact Hy|apply F; exact Hy].
Qed.

Lemma sorted_pairs_renum l :
  sorted_pairs (map (renum (sorted_pairs l)) l) = map (renum (sorted_pairs l)) (sorted_pairs l).
Proof.
  apply strict_sorted_ext.
  - apply sorted_pairs_strict.
  - apply strict_sorted_map; [apply sorted_pairs_strict|].
    intros x y Hx Hy. apply renum_mono; apply sorted_pairs_In; assumption.
  - intros z. rewrite sorted_pairs_In, !in_map_iff. split; intros (x & E & Hx); exists x; split; auto;
      apply sorted_pairs_In; exact Hx.
Qed.

Lemma index_from_map_inj (g : tpair -> tpair) x : forall L k,
  (forall y, In y L -> g y = g x -> y = x) -> index_from k (g x) (map g L) = index_from k x L.
Proof.
  induction L as [|y r IH]; intros k H; [reflexivity|]. cbn [map index_from].
  destruct (pair_eqb x y) eqn:E.
  - apply pair_eqb_eq in E. subst y. rewrite (proj2 (pair_eqb_eq (g x) (g x)) eq_refl). reflexivity.
  - destruct (pair_eqb (g x) (g y)) eqn:E2.
    + apply pair_eqb_eq in E2. rewrite (H y (or_introl eq_refl) (eq_sym E2)) in E.
      rewrite (proj2 (pair_eqb_eq x x) eq_refl) in E. discriminate.
    + apply IH. intros z Hz. apply H. right. exact Hz.
Qed.

Lemma track_no_renum l x : In x l ->
  track_no (sorted_pairs (map (renum (sorted_pairs l)) l)) (renum (sorted_pairs l) x) = track_no (sorted_pairs l) x.
Proof.
  intros Hx. rewrite sorted_pairs_renum. unfold track_no. rewrite index_from_map_inj; [reflexivity|].
  intros y Hy E. apply (renum_inj l); auto. apply sorted_pairs_In. exact Hy.
Qed.

Lemma in_number_from {A} (x : Z * A) : forall l k, In x (number_from k l) -> In (snd x) l.
Proof.
  induction l as [|a r IH]; intros k H; [destruct H|]. cbn [number_from] in H. destruct H as [<-|H]; [left; reflexivity|].
  right. eapply IH. exact H.
Qed.

Theorem sanitize_idempotent_lemma ps : sanitize (sanitize ps) = sanitize ps.
Proof.
  unfold sanitize at 1. cbv zeta. rewrite all_pairs_sanitize.
  set (l := all_pairs ps). set (ids := sorted_pairs l). set (ids' := sorted_pairs (map (renum ids) l)).
  unfold sanitize at 1. cbv zeta. fold l. fold ids.
  rewrite (number_from_map (fun i p => pmap (fun t => track_no ids (i, t)) p)), map_map. cbn [fst snd].
  unfold sanitize. cbv zeta. fold l. fold ids. apply map_ext_in. intros x Hx.
  rewrite pmap_pmap. apply pmap_ext_in. intros t Ht.
  change (fst x, track_no ids (fst x, t)) with (renum ids (fst x, t)).
  apply track_no_renum. unfold l, all_pairs. apply in_flat_map. exists x. split; [exact Hx|].
  apply in_map_iff. exists t. auto.
Qed.

(* ---- what the loader hands to Performance(...): every part has all its items on one track *)
Definition single_track (p : ptracks) : Prop := exists t, ptracks_all p <> [] /\ Forall (eq t) (ptracks_all p).

Lemma index_from_numbered (F : Z * ptracks -> tpair) (HF : forall x, fst (F x) = fst x) x :
  forall ps k, In x (map F (number_from k ps)) -> index_from k x (map F (number_from k ps)) = Some (fst x).
Proof.
  induction ps as [|p r IH]; intros k H; [destruct H|]. cbn [number_from map index_from] in *.
  destruct (pair_eqb x (F (k, p))) eqn:E.
  - apply pair_eqb_eq in E. subst x. rewrite HF. reflexivity.
  - destruct H as [H|H]; [subst x; rewrite (proj2 (pair_eqb_eq _ _) eq_refl) in E; discriminate|].
    apply IH. exact H.
Qed.

Lemma number_from_fst_lt {A} (x : Z * A) : forall l k, In x (number_from k l) -> k <= fst x.
Proof.
  induction l as [|a r IH]; intros k H; [destruct H|]. cbn [number_from] in H. destruct H as [<-|H]; [cbn; lia|].
  apply IH in H. lia.
Qed.

Lemma numbered_strict (F : Z * ptracks -> tpair) (HF : forall x, fst (F x) = fst x) :
  forall ps k, strict_sorted (map F (number_from k ps)).
Proof.
  induction ps as [|p r IH]; intros k; [constructor|]. cbn [number_from map]. constructor; [apply IH|].
  apply Forall_forall. intros z Hz. apply in_map_iff in Hz as (y & <- & Hy).
  apply number_from_fst_lt in Hy. left. rewrite !HF. cbn. lia.
Qed.

Theorem sanitize_loaded_lemma ps : Forall single_track ps ->
  sanitize ps = map (fun x => pmap (fun _ => fst x) (snd x)) (number_from 0 ps).
Proof.
  intros H. unfold sanitize. cbv zeta.
  set (F := fun x : Z * ptracks => (fst x, hd 0 (ptracks_all (snd x)))).
  assert (E : sorted_pairs (all_pairs ps) = map F (number_from 0 ps)).
  { apply strict_sorted_ext; [apply sorted_pairs_strict|apply numbered_strict; reflexivity|].
    intros z. rewrite sorted_pairs_In. unfold all_pairs. rewrite in_flat_map, in_map_iff.
    split.
    - intros (x & Hx & Hz). exists x. split; [|exact Hx]. apply in_map_iff in Hz as (t & <- & Ht).
      unfold F. f_equal. rewrite Forall_forall in H. destruct (H _ (in_number_from x _ _ Hx)) as (t0 & _ & Ht0).
      rewrite Forall_forall in Ht0. destruct (ptracks_all (snd x)) as [|a r]; [destruct Ht|].
      cbn [hd]. rewrite <- (Ht0 a (or_introl eq_refl)), <- (Ht0 t Ht). reflexivity.
    - intros (x & <- & Hx). exists x. split; [exact Hx|]. apply in_map_iff.
      rewrite Forall_forall in H. destruct (H _ (in_number_from x _ _ Hx)) as (t0 & Hne & _).
      unfold F. destruct (ptracks_all (snd x)) as [|a r]; [congruence|]. exists a. split; [reflexivity|left; reflexivity]. }
  rewrite E. apply map_ext_in. intros x Hx. apply pmap_ext_in. intros t Ht.
  assert (G : In (fst x, t) (map F (number_from 0 ps))).
  { rewrite <- E. apply sorted_pairs_In. unfold all_pairs. apply in_flat_map. exists x. split; [exact Hx|].
    apply in_map_iff. exists t. auto. }
  pose proof (index_from_numbered F (fun _ => eq_refl) _ _ _ G) as R.
  exact (f_equal (fun o : option Z => match o with Some k => k | None => -1 end) R).
Qed.

(* ---- the checker of the correspondence: the observed numbering separates the items exactly as the model's *)
Lemma same_partition_sound m o : same_partition m o = true ->
  forall a b, In a (combine m o) -> In b (combine m o) -> (fst a = fst b <-> snd a = snd b).
Proof.
  unfold same_partition. intros H a b Ha Hb.
  pose proof (forallb_In _ _ (forallb_In _ _ H a Ha) b Hb) as E. cbv beta in E.
  apply Bool.eqb_prop in E. split; intros G.
  - apply Z.eqb_eq. rewrite <- E. apply Z.eqb_eq. exact G.
  - apply Z.eqb_eq. rewrite E. apply Z.eqb_eq. exact G.
Qed.

(* ---- remove_silence_from_performed_part *)
Lemma qmax0_id x : (0 <= x)%Q -> qmax0 x = x.
Proof. intros H. unfold qmax0. apply Qle_bool_iff in H. rewrite H. reflexivity. Qed.
Lemma qmax0_nonneg x : (0 <= qmax0 x)%Q.
Proof. unfold qmax0. destruct (Qle_bool 0 x) eqn:E; [apply Qle_bool_iff; exact E|apply Qle_refl]. Qed.
Lemma qmax0_mono x y : (x <= y)%Q -> (qmax0 x <= qmax0 y)%Q.
Proof.
  intros H. unfold qmax0. destruct (Qle_bool 0 x) eqn:E1, (Qle_bool 0 y) eqn:E2; try apply Qle_refl; auto.
  - apply Qle_bool_iff in E1. assert (G : (0 <= y)%Q) by (eapply Qle_trans; eassumption).
    apply Qle_bool_iff in G. congruence.
  - apply Qle_bool_iff. exact E2.
Qed.

Lemma Qsub_nonneg a b : (b <= a)%Q -> (0 <= a - b)%Q.
Proof. intros H. unfold Qminus. rewrite <- Qle_minus_iff. exact H. Qed.

Lemma fold_min_le t : forall r x, In x (t :: r) -> (fold_right Qmin t r <= x)%Q.
Proof.
  induction r as [|a r IH]; intros x H; cbn [fold_right].
  - destruct H as [<-|[]]. apply Qle_refl.
  - destruct H as [<-|[<-|H]].
    + eapply Qle_trans; [apply Q.le_min_r|]. apply IH. left. reflexivity.
    + apply Q.le_min_l.
    + eapply Qle_trans; [apply Q.le_min_r|]. apply IH. right. exact H.
Qed.
Lemma fold_min_in t : forall r, exists x, In x (t :: r) /\ (fold_right Qmin t r == x)%Q.
Proof.
  induction r as [|a r (x & Hx & E)]; cbn [fold_right].
  - exists t. split; [left; reflexivity|reflexivity].
  - destruct (Q.min_spec a (fold_right Qmin t r)) as [[_ G]|[_ G]].
    + exists a. split; [right; left; reflexivity|exact G].
    + exists x. split; [destruct Hx as [<-|Hx]; [left; reflexivity|right; right; exact Hx]|]. rewrite G. exact E.
Qed.

Theorem remove_silence_notes_lemma ns : ns <> [] -> Forall (fun n => (fst n <= snd n)%Q) ns ->
  let s := rs_start (map fst ns) in
  rs_notes ns = map (fun n => (fst n - s, snd n - s)%Q) ns /\
  (forall n, In n ns -> (0 <= fst n - s)%Q) /\
  (exists n, In n ns /\ (fst n - s == 0)%Q).
Proof.
  intros Hne Hv. cbv zeta. destruct ns as [|n0 r]; [congruence|]. clear Hne.
  set (ns := n0 :: r) in *. set (s := rs_start (map fst ns)).
  assert (Hle : forall n, In n ns -> (s <= fst n)%Q).
  { intros n Hn. unfold s, ns. cbn [map rs_start]. apply fold_min_le.
    change (In (fst n) (map fst (n0 :: r))). apply in_map. exact Hn. }
  assert (H0 : forall n, In n ns -> (0 <= fst n - s)%Q).
  { intros n Hn. apply Qsub_nonneg. apply Hle. exact Hn. }
  split; [|split].
  - unfold rs_notes. fold s. apply map_ext_in. intros n Hn. rewrite !qmax0_id; auto.
    apply Qsub_nonneg. eapply Qle_trans; [apply Hle; exact Hn|].
    rewrite Forall_forall in Hv. apply Hv. exact Hn.
  - exact H0.
  - unfold s, ns. cbn [map rs_start]. destruct (fold_min_in (fst n0) (map fst r)) as (x & Hx & E).
    change (In x (map fst (n0 :: r))) in Hx. apply in_map_iff in Hx as (n & <- & Hn).
    exists n. split; [exact Hn|]. rewrite E. ring.
Qed.

Theorem remove_silence_times_lemma ns ts :
  let s := rs_start (map fst ns) in
  rs_times ns ts = map (fun t => qmax0 (t - s)) ts /\
  (forall t, (s <= t)%Q -> qmax0 (t - s) = (t - s)%Q) /\
  (forall t, (0 <= qmax0 (t - s))%Q) /\
  (forall t u, (t <= u)%Q -> (qmax0 (t - s) <= qmax0 (u - s))%Q).
Proof.
  cbv zeta. split; [reflexivity|split; [|split]].
  - intros t H. apply qmax0_id. apply Qsub_nonneg. exact H.
  - intros t. apply qmax0_nonneg.
  - intros t u H. apply qmax0_mono. apply Qplus_le_compat; [exact H|apply Qle_refl].
Qed.

(* non-vacuity: three parts; numbers shared between parts, a control without track (-1), a
   non-contiguous number; the second renumbering changes nothing; what the loader builds *)
Lemma sanitize_example_lemma :
  sanitize [([0; 0; 2], [-1], []); ([0], [0; 5], [5]); ([], [], [1])]
  = [([1; 1; 2], [0], []); ([3], [3; 4], [4]); ([], [], [5])] /\
  Forall single_track [([3; 3], [3], []); ([], [7], []); ([4], [], [4])] /\
  sanitize [([3; 3], [3], []); ([], [7], []); ([4], [], [4])] = [([0; 0], [0], []); ([], [1], []); ([2], [], [2])].
Proof.
  split; [vm_compute; reflexivity|split; [|vm_compute; reflexivity]].
  repeat constructor.
  - exists 3. split; [discriminate|repeat constructor].
  - exists 7. split; [discriminate|repeat constructor].
  - exists 4. split; [discriminate|repeat constructor].
Qed.

Lemma remove_silence_example_lemma :
  forall2b (fun a b : Q * Q => Qeq_bool (fst a) (fst b) && Qeq_bool (snd a) (snd b))
    (rs_notes [(3 # 2, 2); (5 # 4, 5 # 4); (7, 8)]%Q) [(1 # 4, 3 # 4); (0, 0); (23 # 4, 27 # 4)]%Q = true /\
  forall2b Qeq_bool (rs_times [(3 # 2, 2); (5 # 4, 5 # 4)]%Q [0; 5 # 4; 2]%Q) [0; 0; 3 # 4]%Q = true.
Proof. split; vm_compute; reflexivity. Qed.

(* the statements on a performance *)
Lemma sanitize_numbering_lemma ps x : In x (all_pairs ps) ->
  track_no (sorted_pairs (all_pairs ps)) x
  = Z.of_nat (List.length (filter (fun y => pair_ltb y x) (puniq (all_pairs ps)))).
Proof. exact (track_no_rank (all_pairs ps) x). Qed.
Lemma sanitize_order_perf_lemma ps x y : In x (all_pairs ps) -> In y (all_pairs ps) ->
  (track_no (sorted_pairs (all_pairs ps)) x < track_no (sorted_pairs (all_pairs ps)) y <-> pair_lt x y) /\
  (track_no (sorted_pairs (all_pairs ps)) x = track_no (sorted_pairs (all_pairs ps)) y <-> x = y).
Proof. exact (sanitize_order_lemma (all_pairs ps) x y). Qed.
Lemma sanitize_range_perf_lemma ps x : In x (all_pairs ps) ->
  0 <= track_no (sorted_pairs (all_pairs ps)) x < Z.of_nat (List.length (sorted_pairs (all_pairs ps))).
Proof. exact (sanitize_range_lemma (all_pairs ps) x). Qed.
