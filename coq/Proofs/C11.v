(* C11 -- proofs about Model/C11.v *)
From PV Require Import Lib.Base Lib.Round Gen.C11_Tables Model.C11.
From Coq Require Import QArith Qabs Qround Qminmax.
#[local] Open Scope Z_scope.

(* pieces tile [s, e): the durations telescope *)
Lemma total_dur_pieces : forall cuts s e, total_dur (pieces s cuts e) = e - s.
Proof.
  induction cuts as [|c r IH]; intros s e; simpl.
  - lia.
  - rewrite IH. lia.
Qed.
