(* C11 -- final lemmas behind Props/C11.v (the groundwork is in C11_lib / C11_meas / C11_est) *)
From PV Require Import Lib.Base Lib.Round Gen.C11_Tables Model.C11 Model.C11_Spec Proofs.C11_lib Proofs.C11_meas Proofs.C11_est.
From Coq Require Import QArith Qabs Qround Qminmax Sorting.Sorted.
#[local] Open Scope Z_scope.

(* ---- measures: every time of [first, last) lies in exactly one measure *)
Lemma measures_partition_lemma div tsigs first last ex ms :
  pre tsigs first last ex -> add_measures div tsigs first last ex = Some ms ->
  forall x, first <= x < last ->
    exists m, In m (spans ms) /\ fst m <= x < snd m
              /\ forall m', In m' (spans ms) -> fst m' <= x < snd m' -> m' = m.
Proof.
  intros P H x Hx. pose proof (measures_tile_lemma _ _ _ _ _ _ P H) as C.
  destruct (chain_from_locate _ _ _ x C Hx) as (m & Hm & Hin & _).
  exists m. split; [exact Hm|]. split; [exact Hin|].
  intros m' Hm' Hin'. exact (chain_from_unique _ _ _ C x m' m Hm' Hm Hin' Hin).
Qed.

(* ---- length of a new measure *)
Lemma new_measure_length_full div tsigs first last ex ms :
  pre tsigs first last ex -> add_measures div tsigs first last ex = Some ms ->
  forall m, In m ms -> m_old m = false ->
  exists s, In s (stretches div tsigs first last)
            /\ stretch_in_force div (ts_rows tsigs first) s
            /\ fst (st_span s) <= m_start m < snd (st_span s) /\ snd (st_span s) <= last
            /\ new_ok ex (st_bl s) last (snd (st_span s)) m.
Proof.
  intros P H m Hm Ho.
  destruct (new_measure_length_lemma _ _ _ _ _ _ P H m Hm Ho) as (s & Hs & Hr & Hn).
  destruct P as (T & X).
  exists s. split; [exact Hs|]. split; [exact (stretches_in_force_lemma _ _ _ _ T s Hs)|].
  split; [exact Hr|]. split; [|exact Hn].
  destruct (stretches_chain div tsigs first last T) as [_ B]. apply (B s Hs).
Qed.

Lemma full_end_comp bl bl' last pos : (bl == bl')%Q -> full_end bl last pos = full_end bl' last pos.
Proof.
  intros E. unfold full_end. f_equal. apply round_half_even_comp.
  destruct (Qlt_le_dec (inject_Z pos + bl) (inject_Z last)) as [L|L].
  - rewrite Q.min_l by (apply Qlt_le_weak; exact L). rewrite Q.min_l by (rewrite <- E; apply Qlt_le_weak; exact L).
    rewrite E. reflexivity.
  - rewrite Q.min_r by exact L. rewrite Q.min_r by (rewrite <- E; exact L). reflexivity.
Qed.

(* a bar that is a whole number B of divisions: a new measure is B long, or shorter and cut by the
   end of the signature's stretch (the next signature or the last point), the last point, or the
   start of an existing measure *)
Lemma new_measure_length_integral_lemma div tsigs first last ex ms :
  pre tsigs first last ex -> add_measures div tsigs first last ex = Some ms ->
  forall m, In m ms -> m_old m = false ->
  exists s, In s (stretches div tsigs first last)
    /\ stretch_in_force div (ts_rows tsigs first) s
    /\ fst (st_span s) <= m_start m < snd (st_span s)
    /\ forall B, 1 <= B -> (st_bl s == inject_Z B)%Q ->
         m_end m - m_start m = B
         \/ (m_end m - m_start m < B
             /\ (m_end m = snd (st_span s) \/ m_end m = last \/ exists x, In x ex /\ fst x = m_end m)).
Proof.
  intros P H m Hm Ho.
  destruct (new_measure_length_full _ _ _ _ _ _ P H m Hm Ho) as (s & Hs & Hf & Hr & Hl & Hn).
  exists s. split; [exact Hs|]. split; [exact Hf|]. split; [exact Hr|].
  intros B HB EB. specialize (Hn Ho).
  rewrite (full_end_comp _ _ last (m_start m) EB) in Hn.
  rewrite (full_end_integral B last (m_start m) HB ltac:(lia)) in Hn.
  destruct Hn as [Hn|[Hlt Hx]].
  - destruct (Z.eq_dec (m_end m - m_start m) B) as [|Ne]; [left; assumption|right].
    split; [lia|]. destruct (Z.eq_dec (m_end m) (snd (st_span s))); [left; assumption|right; left; lia].
  - right. split; [lia|]. right. right. exact Hx.
Qed.

(* ---- tie_notes: pieces are non-empty and lie within one measure *)
Lemma tie_pieces_wf_lemma ms a b bars div ps :
  0 < div -> chain_from a ms b -> bars = map fst ms ->
  Forall (fun p => a <= fst p /\ fst p < snd p /\ snd p <= b) ps ->
  Forall (fun q => within_one ms q /\ fst q < snd q) (tie_pieces bars div ps).
Proof.
  intros Hd C -> F. apply Forall_forall. intros q Hq.
  unfold tie_pieces, stage2_pieces in Hq. apply in_flat_map in Hq as (p1 & Hp1 & Hq).
  unfold stage1_pieces in Hp1. apply in_flat_map in Hp1 as (p & Hp & Hp1).
  rewrite Forall_forall in F. destruct (F p Hp) as (A1 & A2 & A3).
  pose proof (stage1_within ms a b (fst p) (snd p) C A1 A2 A3 p1 Hp1) as (m & Hm & M1 & M2).
  destruct (pieces_between_bars (map fst ms) (fst p) (snd p) (chain_from_starts_sorted _ _ _ C) A2 p1 Hp1) as (B1 & B2 & _).
  destruct (stage2_piece_inside div p1 q Hd B2 Hq) as (D1 & D2 & D3).
  split; [|exact D2]. exists m. split; [exact Hm|]. lia.
Qed.

Lemma tie_chain_identity_lemma bars div p v st ps :
  exists ps', tie_chain bars div (p, v, st, ps) = (p, v, st, ps').
Proof. eexists. reflexivity. Qed.

(* stage 2: afterwards a piece has a notated value, or it is a piece of stage 1 that the splitter
   could not split (or the model ran out of fuel on it) *)
Lemma stage2_outcome_lemma div p q :
  0 < div -> fst p < snd p -> In q (stage2_piece div p) ->
  has_sym (piece_sym div q) = true
  \/ (q = p /\ ((forall cuts, find_tie_split (fst p) (snd p) div <> Some (Some cuts))
               \/ estimate (snd p - fst p) div = EFuel)).
Proof.
  intros Hd Hp Hin. unfold stage2_piece in Hin. unfold piece_sym.
  destruct (estimate (snd p - fst p) div) eqn:EE.
  - destruct Hin as [<-|[]]. right. split; [reflexivity|]. right. reflexivity.
  - destruct (find_tie_split (fst p) (snd p) div) as [[cuts|]|] eqn:EF.
    + left. destruct (find_tie_split_sound_lemma _ _ _ _ Hd Hp EF) as (_ & F & _).
      rewrite Forall_forall in F. exact (F q Hin).
    + destruct Hin as [<-|[]]. right. split; [reflexivity|]. left. intros cuts E. discriminate.
    + destruct Hin as [<-|[]]. right. split; [reflexivity|]. left. intros cuts E. discriminate.
  - destruct Hin as [<-|[]]. left. rewrite EE. reflexivity.
Qed.

Lemma tie_outcome_lemma bars div ps q :
  0 < div -> StronglySorted Z.lt bars -> Forall (fun p => fst p < snd p) ps ->
  In q (tie_pieces bars div ps) ->
  has_sym (piece_sym div q) = true
  \/ (In q (stage1_pieces bars ps)
      /\ ((forall cuts, find_tie_split (fst q) (snd q) div <> Some (Some cuts))
          \/ estimate (snd q - fst q) div = EFuel)).
Proof.
  intros Hd S F Hq.
  unfold tie_pieces, stage2_pieces in Hq. apply in_flat_map in Hq as (p1 & Hp1 & Hq).
  pose proof Hp1 as Hp1'.
  unfold stage1_pieces in Hp1. apply in_flat_map in Hp1 as (p & Hp & Hp1).
  rewrite Forall_forall in F. pose proof (F p Hp) as A2.
  destruct (pieces_between_bars bars (fst p) (snd p) S A2 p1 Hp1) as (_ & B2 & _).
  destruct (stage2_outcome_lemma div p1 q Hd B2 Hq) as [L|[-> R]]; [left; exact L|right].
  split; assumption.
Qed.

(* every symbolic duration assigned to a piece evaluates to the piece's numeric duration when the
   estimator hit its value exactly (no use of the eps tolerance) *)
Lemma assigned_symbolic_exact_lemma div q sd :
  0 < div -> fst q < snd q -> piece_sym div q = ESome sd -> exact_hit (snd q - fst q) div = true ->
  exists v, sym_to_num sd div = Some v /\ (v == inject_Z (snd q - fst q))%Q.
Proof.
  intros Hd Hq He Hx. unfold piece_sym in He.
  exact (estimate_exact_lemma (snd q - fst q) div sd ltac:(lia) Hd He Hx).
Qed.

(* ---- the hypotheses are satisfiable: 3/4 at 4 divisions from 0, 2/4 from 24, last point 40, an
   existing measure (5, 9) and one (22, 30) that runs across the signature change *)
Definition ex_tsigs : list (Z * Z * Z) := [(0, 3, 4); (24, 2, 4)].
Definition ex_existing : list (Z * Z) := [(5, 9); (22, 30)].

Lemma ex_pre : pre ex_tsigs 0 40 ex_existing /\ ex_sorted ex_existing.
Proof.
  split; [split; [|split]|].
  - split; [discriminate|]. split; [lia|]. split.
    + simpl. repeat constructor.
    + repeat constructor; unfold row_t; simpl; lia.
  - intros m [<-|[<-|[]]]; simpl; lia.
  - intros m [<-|[<-|[]]]; simpl; lia.
  - repeat constructor; simpl; lia.
Qed.

Lemma ex_result :
  add_measures 4 ex_tsigs 0 40 ex_existing
  = Some [(0, 5, 1, false); (5, 9, 2, true); (9, 21, 3, false); (21, 22, 4, false);
          (22, 30, 5, true); (30, 38, 6, false); (38, 40, 7, false)].
Proof. vm_compute. reflexivity. Qed.

(* a note (3, 35) of a part with these measures at 4 divisions: stage 1 cuts it at five bar lines, stage 2 splits the last piece of five sixteenths *)
Lemma ex_tie :
  tie_chain [0; 5; 9; 21; 22; 30; 38] 4 (60, 1, 1, [(3, 35)])
  = (60, 1, 1, [(3, 5); (5, 9); (9, 21); (21, 22); (22, 30); (30, 32); (32, 35)]).
Proof. vm_compute. reflexivity. Qed.
