(* C20 -- proofs about the mutable container and its construction (Model/C20_Mut.v). *)
From PV Require Import Lib.Base Model.C20 Model.C20_Mut Proofs.C20.
From Coq Require Import ZArith List Bool Lia Arith.
Import ListNotations.

(* ------------------------------------------------------------------------------------ *)
(* construction: iter_parts is the depth-first list of leaves *)

Section Tree.
  Context {A : Type}.

  (* the specification, independent of flat_map: leaves in depth-first order *)
  Inductive dfs : ptree A -> list A -> Prop :=
  | dfs_leaf x : dfs (PLeaf x) [x]
  | dfs_group cs l : dfs_list cs l -> dfs (PGroup cs) l
  with dfs_list : list (ptree A) -> list A -> Prop :=
  | dfs_nil : dfs_list [] []
  | dfs_cons t ts l1 l2 : dfs t l1 -> dfs_list ts l2 -> dfs_list (t :: ts) (l1 ++ l2).

  (* induction over nested trees *)
  Fixpoint ptree_ind' (P : ptree A -> Prop)
      (Hleaf : forall x, P (PLeaf x))
      (Hgroup : forall cs, Forall P cs -> P (PGroup cs)) (t : ptree A) : P t :=
    match t with
    | PLeaf x => Hleaf x
    | PGroup cs =>
        Hgroup cs ((fix go (l : list (ptree A)) : Forall P l :=
                      match l with
                      | [] => Forall_nil P
                      | t' :: r => Forall_cons t' (ptree_ind' P Hleaf Hgroup t') (go r)
                      end) cs)
    end.

  Lemma iter_tree_dfs : forall t : ptree A, dfs t (iter_tree t).
  Proof.
    apply ptree_ind'; [constructor|].
    intros cs H. constructor. simpl. induction H as [|t ts Ht _ IH]; simpl; constructor; auto.
  Qed.

  Lemma iter_list_dfs (ts : list (ptree A)) : dfs_list ts (flat_map iter_tree ts).
  Proof. induction ts as [|t ts IH]; simpl; constructor; auto using iter_tree_dfs. Qed.

  Lemma dfs_functional : forall t : ptree A, forall l, dfs t l -> l = iter_tree t.
  Proof.
    apply (ptree_ind' (fun t => forall l, dfs t l -> l = iter_tree t)).
    - intros x l H. now inversion H.
    - intros cs H l D. inversion D as [|cs' l' DL]; subst. simpl. clear D.
      revert l DL. induction H as [|t ts Ht _ IH]; intros l DL; inversion DL; subst; simpl; auto.
      f_equal; auto.
  Qed.

  Lemma iter_parts_depth_first_lemma (t : ptree A) : dfs t (iter_tree t) /\ forall l, dfs t l -> l = iter_tree t.
  Proof. split; [apply iter_tree_dfs | apply dfs_functional]. Qed.

  Lemma iter_tree_app (a b : list (ptree A)) : iter_tree (PGroup (a ++ b)) = iter_tree (PGroup a) ++ iter_tree (PGroup b).
  Proof. simpl. apply flat_map_app. Qed.
End Tree.

(* Score.__init__: for every argument it accepts, parts = the depth-first leaves of the structure it stores,
   a bare Part / PartGroup is the one-element structure, and only ArgOther raises *)
Lemma score_init_spec {A} (a : partlist_arg A) :
  match score_init a with
  | Some c => dfs_list (m_struct c) (m_parts c) /\ m_parts c = flat_map iter_tree (m_struct c) /\
              m_struct c = match a with ArgPart x => [PLeaf x] | ArgGroup cs => [PGroup cs] | ArgList ts => ts | ArgOther => [] end
  | None => a = ArgOther
  end.
Proof.
  destruct a as [x|cs|ts|]; cbn [score_init iter_parts_arg m_parts m_struct]; auto;
    (split; [apply iter_list_dfs | split; reflexivity]).
Qed.

(* ------------------------------------------------------------------------------------ *)
(* item assignment *)

Lemma lset_length {A} (l : list A) : forall n x, length (lset l n x) = length l.
Proof. induction l as [|y l IH]; intros [|n] x; simpl; auto. Qed.

Lemma lset_nth_same {A} (l : list A) : forall n x, (n < length l)%nat -> nth_error (lset l n x) n = Some x.
Proof. induction l as [|y l IH]; intros [|n] x H; simpl in *; try lia; auto. apply IH. lia. Qed.

Lemma lset_nth_other {A} (l : list A) : forall n m x, n <> m -> nth_error (lset l n x) m = nth_error l m.
Proof.
  induction l as [|y l IH]; intros [|n] [|m] x H; simpl; auto; try congruence.
Qed.

Lemma py_norm_spec n i : (0 <= n)%Z ->
  match py_norm n i with
  | Some j => (- n <= i < n)%Z /\ Z.of_nat j = (i mod n)%Z /\ (j < Z.to_nat n)%nat
  | None => ~ (- n <= i < n)%Z
  end.
Proof.
  intros Hn. unfold py_norm.
  destruct (Z.leb_spec 0 i), (Z.ltb_spec i n); simpl.
  - split; [lia|]. split; [rewrite Z.mod_small by lia; lia | lia].
  - destruct (Z.leb_spec (- n) i), (Z.ltb_spec i 0); simpl; lia.
  - destruct (Z.leb_spec (- n) i), (Z.ltb_spec i 0); simpl; try lia.
    split; [lia|]. split; [|lia].
    rewrite Z2Nat.id by lia. apply (Z.mod_unique i n (-1) (n + i)); lia.
  - lia.
Qed.

Lemma py_index_norm {A} (l : list A) i :
  py_index l i = match py_norm (Z.of_nat (length l)) i with Some j => nth_error l j | None => None end.
Proof.
  unfold py_index, py_norm.
  destruct ((0 <=? i)%Z && (i <? Z.of_nat (length l))%Z); [reflexivity|].
  destruct ((- Z.of_nat (length l) <=? i)%Z && (i <? 0)%Z); reflexivity.
Qed.

(* c[i] = x: IndexError exactly outside -len..len-1 and then nothing changes; otherwise the length is
   kept, c[i] is x afterwards and every other position (also through negative indices) is as before *)
Lemma setitem_spec {A} (l : list A) i x :
  let n := Z.of_nat (length l) in
  match py_set l i x with
  | None => ~ (- n <= i < n)%Z
  | Some l' => (- n <= i < n)%Z /\ length l' = length l /\ py_index l' i = Some x /\
               forall j, ((j - i) mod n <> 0)%Z -> py_index l' j = py_index l j
  end.
Proof.
  intros n. unfold py_set. pose proof (py_norm_spec n i (Nat2Z.is_nonneg _)) as Sp.
  fold n. destruct (py_norm n i) as [k|] eqn:E; [|exact Sp].
  destruct Sp as [R [M K]]. unfold n in K. rewrite Nat2Z.id in K.
  split; [exact R|]. split; [apply lset_length|]. split.
  - rewrite py_index_norm, lset_length. fold n. rewrite E. now apply lset_nth_same.
  - intros j Hj. rewrite !py_index_norm, lset_length. fold n.
    pose proof (py_norm_spec n j (Nat2Z.is_nonneg _)) as Sj.
    destruct (py_norm n j) as [kj|]; [|reflexivity].
    destruct Sj as [Rj [Mj _]]. apply lset_nth_other. intros ->. apply Hj.
    rewrite Zminus_mod, <- M, <- Mj, Z.sub_diag. apply Z.mod_0_l. lia.
Qed.

(* ------------------------------------------------------------------------------------ *)
(* the protocol on the mutable container *)

Section Mut.
  Context {A : Type}.

  Lemma mstep_MO (c : mcont A) cs o :
    mstep FromParts (c, cs) (MO o) =
    ((c, fst (fresh_step (m_parts c) cs o)), MR (snd (fresh_step (m_parts c) cs o))).
  Proof.
    destruct o as [k|k| |i]; cbn [mstep fresh_step iter_list fst snd]; try reflexivity.
    destruct (cur_get k cs) as [p|]; [|reflexivity]. destruct (nth_error (m_parts c) p); reflexivity.
  Qed.

  (* iteration, len and indexing never change the container (parts AND structure), and answer as the
     immutable model over the current parts *)
  Lemma mrun_readonly h : forall (c : mcont A) cs,
    mrun FromParts (c, cs) (map MO h) = map MR (run_fresh (m_parts c) cs h) /\
    mfinal FromParts (c, cs) (map MO h) = (c, final (fresh_step (m_parts c)) cs h).
  Proof.
    unfold run_fresh. induction h as [|o h IH]; intros c cs; [split; reflexivity|].
    cbn [map mrun mfinal run final]. rewrite mstep_MO. cbn [fst snd].
    destruct (fresh_step (m_parts c) cs o) as [cs' r]; cbn [fst snd].
    destruct (IH c cs') as [E1 E2]. rewrite E1, E2. split; reflexivity.
  Qed.

  Lemma mrun_app src : forall h1 h2 (st : mstate A),
    mrun src st (h1 ++ h2) = mrun src st h1 ++ mrun src (mfinal src st h1) h2.
  Proof.
    induction h1 as [|o h1 IH]; intros h2 st; [reflexivity|].
    cbn [app mrun mfinal]. destruct (mstep src st o) as [st' r]; cbn [fst]. now rewrite IH.
  Qed.

  Lemma mrun_length src : forall h (st : mstate A), length (mrun src st h) = length h.
  Proof. induction h as [|o h IH]; intros st; simpl; auto. destruct (mstep src st o); simpl; auto. Qed.

  (* the parts after a history are the initial parts with its successful item assignments applied; the
     structure is never touched; the length never changes *)
  Lemma mfinal_parts h : forall (c : mcont A) cs,
    m_parts (fst (mfinal FromParts (c, cs) h)) = apply_sets (m_parts c) h /\
    m_struct (fst (mfinal FromParts (c, cs) h)) = m_struct c.
  Proof.
    induction h as [|o h IH]; intros c cs; [split; reflexivity|].
    cbn [mfinal apply_sets]. destruct o as [o|i x].
    - rewrite mstep_MO. cbn [fst]. apply IH.
    - cbn [mstep]. destruct (py_set (m_parts c) i x) as [l|]; cbn [fst]; [|apply IH].
      destruct (IH (mk_mcont l (m_struct c)) cs) as [E1 E2]. split; [exact E1 | exact E2].
  Qed.

  Lemma apply_sets_length h : forall l : list A, length (apply_sets l h) = length l.
  Proof.
    induction h as [|o h IH]; intros l; [reflexivity|]. destruct o as [o|i x]; cbn [apply_sets]; [apply IH|].
    rewrite IH. unfold py_set. destruct (py_norm _ i); [apply lset_length | reflexivity].
  Qed.

  Lemma mpick_MR k h : forall rs : list (res A), mpick k h (map MR rs) = map MR (pick k h rs).
  Proof.
    induction h as [|o h IH]; intros [|r rs]; simpl; auto. destruct (on k o); simpl; now rewrite IH.
  Qed.

  (* After ANY history h1 -- item assignments, iterators, len, indexing in any interleaving -- an
     iteration bound now, however interleaved with other iterators / len / indexing (h2), yields
     exactly the parts the container holds now (P), in index order, each once, then StopIteration;
     and len / indexing in h2 answer for that same P.  P is the initial part list with the
     successful assignments of h1 applied, and has the initial length. *)
  Lemma consistent_after_any_history_lemma (c : mcont A) cs (h1 : list (mop A)) k (h2 : list op) :
    no_iter k h2 = true ->
    let P := apply_sets (m_parts c) h1 in
    let rs := skipn (S (length h1)) (mrun FromParts (c, cs) (h1 ++ MO (Iter k) :: map MO h2)) in
    mpick k h2 rs = map MR (map RYield (firstn (count_next k h2) P) ++ repeat RStop (count_next k h2 - length P)) /\
    Forall2 (len_index_spec P) h2 (map unMR rs) /\
    length P = length (m_parts c).
  Proof.
    intros H P rs.
    assert (R : rs = map MR (run_fresh P (cur_set k 0 (snd (mfinal FromParts (c, cs) h1))) h2)).
    { subst rs. rewrite mrun_app, skipn_app, mrun_length.
      rewrite skipn_all2 by (rewrite mrun_length; lia).
      replace (S (length h1) - length h1)%nat with 1%nat by lia.
      cbn [app mrun]. destruct (mfinal FromParts (c, cs) h1) as [c1 cs1] eqn:F.
      rewrite mstep_MO. cbn [fresh_step fst snd skipn].
      destruct (mrun_readonly h2 c1 (cur_set k 0 cs1)) as [E _]. rewrite E.
      destruct (mfinal_parts h1 c cs) as [EP _]. rewrite F in EP. cbn [fst] in EP. subst P. now rewrite EP. }
    split; [|split].
    - rewrite R, mpick_MR. f_equal.
      pose proof (iteration_complete_lemma P k [] h2 (snd (mfinal FromParts (c, cs) h1)) H) as IC.
      cbn [app length skipn] in IC. unfold run_fresh in *. cbn [run fresh_step] in IC. exact IC.
    - rewrite R, map_map. cbn [unMR]. rewrite map_id. apply len_index_consistent_lemma.
    - apply apply_sets_length.
  Qed.

  (* the slip: iteration from the structure.  On a container whose parts ARE the leaves of its structure
     (every freshly constructed one, score_init_spec) it answers every assignment-free history exactly
     as the code does *)
  Lemma mstep_structure_agrees (c : mcont A) cs o :
    m_parts c = flat_map iter_tree (m_struct c) ->
    mstep FromStructure (c, cs) (MO o) = mstep FromParts (c, cs) (MO o).
  Proof. intros E. destruct o as [k|k| |i]; cbn [mstep iter_list]; try reflexivity. now rewrite E. Qed.

  Lemma structure_iteration_agrees_until_set_lemma h : forall (c : mcont A) cs,
    m_parts c = flat_map iter_tree (m_struct c) ->
    mrun FromStructure (c, cs) (map MO h) = mrun FromParts (c, cs) (map MO h).
  Proof.
    induction h as [|o h IH]; intros c cs E; [reflexivity|].
    cbn [map mrun]. rewrite (mstep_structure_agrees c cs o E), mstep_MO. f_equal. now apply IH.
  Qed.
End Mut.

(* ... and is refuted as soon as one item is assigned (list(c) is no longer [c[0], c[1]]), or on a
   container whose parts were replaced as a whole (what unfold_part_maximal / minimal return for a
   Score: new_score.parts = [unfolded ...] next to the copied structure) *)
Definition list_then_index : list (mop Z) :=
  [MO (Iter 0%nat); MO (Next 0%nat); MO (Next 0%nat); MO (Next 0%nat); MO (Get 0); MO (Get 1); MO Len].

Lemma structure_iteration_refuted_lemma :
  (exists (a : partlist_arg Z) (c : mcont Z),
      score_init a = Some c /\
      mrun FromParts (c, []) (MSet 1 9%Z :: list_then_index)
      = [MSetDone; MR RIter; MR (RYield 1%Z); MR (RYield 9%Z); MR RStop; MR (RItem 1%Z); MR (RItem 9%Z); MR (RLen 2)] /\
      mrun FromStructure (c, []) (MSet 1 9%Z :: list_then_index)
      = [MSetDone; MR RIter; MR (RYield 1%Z); MR (RYield 2%Z); MR RStop; MR (RItem 1%Z); MR (RItem 9%Z); MR (RLen 2)]) /\
  (exists c : mcont Z,
      m_parts c <> flat_map iter_tree (m_struct c) /\
      mrun FromStructure (c, []) list_then_index <> mrun FromParts (c, []) list_then_index).
Proof.
  split.
  - exists (ArgList [PGroup [PLeaf 1%Z; PLeaf 2%Z]]), (mk_mcont [1; 2]%Z [PGroup [PLeaf 1%Z; PLeaf 2%Z]]).
    repeat split.
  - exists (mk_mcont [11; 12]%Z [PLeaf 1%Z; PLeaf 2%Z]). split; vm_compute; discriminate.
Qed.

(* ------------------------------------------------------------------------------------ *)
(* the correspondence checker accepts what the model itself answers (nothing is lost by masking) *)

Lemma res_eqb_refl (r : res Z) : res_eqb r r = true.
Proof. destruct r; simpl; auto using Z.eqb_refl, Nat.eqb_refl. Qed.

Lemma mres_eqb_refl (r : mres Z) : mres_eqb r r = true.
Proof. destruct r; simpl; auto using res_eqb_refl. Qed.

Lemma mres_eqb_eq (a b : mres Z) : mres_eqb a b = true -> a = b.
Proof.
  destruct a as [x| |], b as [y| |]; simpl; try discriminate; auto.
  destruct x, y; simpl; try discriminate; auto; intros H;
    try (apply Z.eqb_eq in H; now subst); apply Nat.eqb_eq in H; now subst.
Qed.

Lemma mstep_next_is_next (st : mstate Z) k :
  cur_get k (snd st) <> None -> is_next_res (snd (mstep FromParts st (MO (Next k)))) = true.
Proof.
  destruct st as [c cs]. cbn [mstep snd iter_list]. intros H.
  destruct (cur_get k cs) as [p|]; [|congruence]. destruct (nth_error (m_parts c) p); reflexivity.
Qed.

(* handles known to `born` are bound in the cursors *)
Definition born_bound (born cs : cursors) : Prop := forall k, cur_get k born <> None -> cur_get k cs <> None.

Lemma mstep_keeps_bound (st : mstate Z) o k :
  cur_get k (snd st) <> None -> cur_get k (snd (fst (mstep FromParts st o))) <> None.
Proof.
  destruct st as [c cs]. destruct o as [o|i x].
  - rewrite mstep_MO. cbn [fst snd]. destruct o as [k'|k'| |i]; cbn [fresh_step fst]; auto.
    + simpl. destruct (Nat.eqb k k'); auto; congruence.
    + destruct (cur_get k' cs) as [p|]; auto. destruct (nth_error (m_parts c) p); cbn [fst]; auto.
      simpl. destruct (Nat.eqb k k'); auto; congruence.
  - cbn [mstep]. destruct (py_set (m_parts c) i x); auto.
Qed.

Lemma mcheck_sound_lemma h : forall (st : mstate Z) gen born,
  born_bound born (snd st) -> mcheck st gen born h (mrun FromParts st h) = true.
Proof.
  induction h as [|o h IH]; intros st gen born B; [reflexivity|].
  cbn [mrun mcheck]. destruct (mstep FromParts st o) as [st' rm] eqn:E.
  apply andb_true_iff; split.
  - destruct o as [[k|k| |i]|i x]; try apply mres_eqb_refl.
    destruct (cur_get k born) as [g|] eqn:G; [|apply mres_eqb_refl].
    destruct (negb (Nat.eqb g gen)); [|apply mres_eqb_refl].
    replace rm with (snd (mstep FromParts st (MO (Next k)))) by now rewrite E.
    apply mstep_next_is_next, B. congruence.
  - apply IH. intros k Hk. replace st' with (fst (mstep FromParts st o)) by now rewrite E.
    destruct o as [[k'|k'| |i]|i x]; try (apply mstep_keeps_bound, B; exact Hk).
    destruct (Nat.eqb k k') eqn:Ek.
    + apply Nat.eqb_eq in Ek; subst k'. destruct st as [c cs]. rewrite mstep_MO. cbn [fresh_step fst snd].
      simpl. now rewrite Nat.eqb_refl.
    + apply mstep_keeps_bound, B. simpl in Hk. now rewrite Ek in Hk.
Qed.

(* and what it accepts is, outside the stale next() results, exactly what the model answers: with no
   item assignment in the history nothing is stale and the observed results ARE the model's *)
Fixpoint no_set {A} (h : list (mop A)) : bool :=
  match h with [] => true | MSet _ _ :: _ => false | MO _ :: r => no_set r end.

Definition born_at (gen : nat) (born : cursors) : Prop := forall k g, cur_get k born = Some g -> g = gen.

Lemma mcheck_meaning_lemma h : forall (st : mstate Z) gen born obs,
  no_set h = true -> born_at gen born -> mcheck st gen born h obs = true -> obs = mrun FromParts st h.
Proof.
  induction h as [|o h IH]; intros st gen born [|r obs] N B H; cbn [mcheck mrun] in *; try discriminate; auto.
  destruct o as [o|i x]; [|discriminate]. cbn [no_set] in N.
  destruct st as [c cs]. rewrite mstep_MO in *. cbn [fst snd] in *.
  apply andb_true_iff in H as [H1 H2].
  assert (G : (match MR (snd (fresh_step (m_parts c) cs o)) with MSetDone => S gen | _ => gen end) = gen) by reflexivity.
  f_equal.
  - destruct o as [k|k| |i]; try (symmetry; now apply mres_eqb_eq).
    destruct (cur_get k born) as [g|] eqn:Eg; [|symmetry; now apply mres_eqb_eq].
    rewrite (B k g Eg), Nat.eqb_refl in H1. simpl in H1. symmetry; now apply mres_eqb_eq.
  - eapply IH; [exact N| |exact H2].
    intros k g. destruct o as [k'|k'| |i]; try apply B. simpl. destruct (Nat.eqb k k'); [intros [= <-]; reflexivity | apply B].
Qed.

Example mutable_container_example :
  score_init (ArgList [PLeaf 1; PGroup [PGroup [PLeaf 2]; PLeaf 3]; PGroup []])%Z
  = Some (mk_mcont [1; 2; 3] [PLeaf 1; PGroup [PGroup [PLeaf 2]; PLeaf 3]; PGroup []])%Z /\
  mrun FromParts (mk_mcont [1; 2; 3]%Z [], [])
       [MO (Iter 0%nat); MO (Next 0%nat); MSet (-1) 7%Z; MSet 3 8%Z; MO (Iter 1%nat); MO (Next 1%nat); MO (Next 1%nat);
        MO (Next 1%nat); MO (Next 1%nat); MO (Get 2); MO Len]
  = [MR RIter; MR (RYield 1%Z); MSetDone; MSetIndexError; MR RIter; MR (RYield 1%Z); MR (RYield 2%Z);
     MR (RYield 7%Z); MR RStop; MR (RItem 7%Z); MR (RLen 3)] /\
  score_init (@ArgOther Z) = None.
Proof. repeat split. Qed.
