(* C18 -- the two built-in tempo curves of Model/C18.v (tempo_by_average, tempo_by_derivative after
   monotonize_times) are POSITIVE for every input: strictly increasing unique score onsets (+ last
   time) and ANY performed chord times whose last entry (the last performed offset) exceeds all
   the others -- in particular non-monotone performances. *)
From Coq Require Import ZArith QArith Qabs List Bool Lia Lqa Sorting.Sorted Setoid.
From PV Require Import Lib.Base Lib.Round Model.C18 Proofs.C18.
Import ListNotations.
#[local] Open Scope Q_scope.

Definition Qlt_r (a b : Q) : Prop := a < b.

(* ---------- a segment with positive slope ---------- *)
Lemma seg_val x0 y0 x1 y1 x : seg x0 y0 x1 y1 x == y0 + (y1 - y0) / (x1 - x0) * (x - x0).
Proof. unfold seg. apply Qred_correct. Qed.

Lemma slope_pos x0 y0 x1 y1 : x0 < x1 -> y0 < y1 -> 0 < (y1 - y0) / (x1 - x0).
Proof.
  intros Hx Hy. apply Qlt_shift_div_l; [lra | lra].
Qed.

Lemma seg_mono x0 y0 x1 y1 a b : x0 < x1 -> y0 < y1 -> a < b -> seg x0 y0 x1 y1 a < seg x0 y0 x1 y1 b.
Proof.
  intros Hx Hy Hab. rewrite !seg_val. pose proof (slope_pos x0 y0 x1 y1 Hx Hy) as Hs.
  set (s := (y1 - y0) / (x1 - x0)) in *.
  assert (s * (a - x0) < s * (b - x0)) by (apply Qmult_lt_l; [exact Hs | lra]).
  lra.
Qed.

Lemma seg_at_right x0 y0 x1 y1 : x0 < x1 -> seg x0 y0 x1 y1 x1 == y1.
Proof. apply seg_right. Qed.

(* ---------- piecewise-linear interpolation through knots increasing in both coordinates is
              strictly increasing (at least two knots) ---------- *)
Lemma interp_from_first rest : forall x0 y0, StronglySorted fst_lt ((x0, y0) :: rest) -> interp_from x0 y0 rest x0 == y0.
Proof.
  intros x0 y0 H. apply (interp_from_knot rest x0 y0 H x0 y0). left. reflexivity.
Qed.

Lemma interp_from_mono rest : forall x0 y0 x1 y1,
  StronglySorted fst_lt ((x0, y0) :: (x1, y1) :: rest) ->
  StronglySorted snd_lt ((x0, y0) :: (x1, y1) :: rest) ->
  forall a b, a < b -> interp_from x0 y0 ((x1, y1) :: rest) a < interp_from x0 y0 ((x1, y1) :: rest) b.
Proof.
  induction rest as [|[x2 y2] rest' IH]; intros x0 y0 x1 y1 HF HS a b Hab.
  - cbn [interp_from]. apply seg_mono; [| | exact Hab].
    + inversion HF as [|? ? _ F]; subst. rewrite Forall_forall in F. apply (F (x1, y1)). left. reflexivity.
    + inversion HS as [|? ? _ F]; subst. rewrite Forall_forall in F. apply (F (x1, y1)). left. reflexivity.
  - assert (Hx : x0 < x1).
    { inversion HF as [|? ? _ F]; subst. rewrite Forall_forall in F. apply (F (x1, y1)). left. reflexivity. }
    assert (Hy : y0 < y1).
    { inversion HS as [|? ? _ F]; subst. rewrite Forall_forall in F. apply (F (x1, y1)). left. reflexivity. }
    assert (HF' : StronglySorted fst_lt ((x1, y1) :: (x2, y2) :: rest')) by (inversion HF; assumption).
    assert (HS' : StronglySorted snd_lt ((x1, y1) :: (x2, y2) :: rest')) by (inversion HS; assumption).
    change (interp_from x0 y0 ((x1, y1) :: (x2, y2) :: rest') a)
      with (if Qle_bool a x1 then seg x0 y0 x1 y1 a else interp_from x1 y1 ((x2, y2) :: rest') a).
    change (interp_from x0 y0 ((x1, y1) :: (x2, y2) :: rest') b)
      with (if Qle_bool b x1 then seg x0 y0 x1 y1 b else interp_from x1 y1 ((x2, y2) :: rest') b).
    destruct (Qle_bool a x1) eqn:Ea; destruct (Qle_bool b x1) eqn:Eb.
    + apply seg_mono; assumption.
    + apply Qle_bool_iff in Ea.
      assert (Hb : x1 < b).
      { destruct (Qlt_le_dec x1 b) as [L | L]; [exact L|]. apply Qle_bool_iff in L. congruence. }
      apply Qle_lt_trans with (seg x0 y0 x1 y1 x1).
      * apply Qle_lteq in Ea as [L | E].
        -- apply Qlt_le_weak. apply seg_mono; assumption.
        -- rewrite (seg_comp_x x0 y0 x1 y1 a x1 E). apply Qle_refl.
      * apply Qle_lt_trans with (interp_from x1 y1 ((x2, y2) :: rest') x1).
        -- rewrite (seg_at_right x0 y0 x1 y1 Hx). rewrite (interp_from_first ((x2, y2) :: rest') x1 y1 HF'). apply Qle_refl.
        -- apply IH; assumption.
    + exfalso. apply Qle_bool_iff in Eb.
      assert (Qle_bool a x1 = true) by (apply Qle_bool_iff; lra). congruence.
    + apply IH; assumption.
Qed.

Lemma lin_interp_mono k0 k1 K :
  StronglySorted fst_lt (k0 :: k1 :: K) -> StronglySorted snd_lt (k0 :: k1 :: K) ->
  forall a b, a < b -> lin_interp (k0 :: k1 :: K) a < lin_interp (k0 :: k1 :: K) b.
Proof.
  destruct k0 as [x0 y0], k1 as [x1 y1]. intros HF HS a b Hab. unfold lin_interp.
  apply interp_from_mono; assumption.
Qed.

(* ---------- lists ---------- *)
Lemma map_mono_sorted (F : Q -> Q) l :
  (forall a b, a < b -> F a < F b) -> StronglySorted Qlt_r l -> StronglySorted Qlt_r (map F l).
Proof.
  intros HFm. induction 1 as [|a l HS IH HF]; cbn [map]; constructor; [exact IH|].
  rewrite Forall_forall in *. intros y Hy. apply in_map_iff in Hy as [x [E Hx]]. subst y. apply HFm. apply HF. exact Hx.
Qed.

Lemma combine_sorted a : forall b, StronglySorted Qlt_r a -> StronglySorted Qlt_r b ->
  StronglySorted fst_lt (combine a b) /\ StronglySorted snd_lt (combine a b).
Proof.
  induction a as [|x a IH]; intros b Ha Hb; [split; constructor|].
  destruct b as [|y b]; [split; constructor|].
  inversion Ha as [|? ? Ha' Fa]; subst. inversion Hb as [|? ? Hb' Fb]; subst.
  destruct (IH b Ha' Hb') as [I1 I2]. cbn [combine]. rewrite Forall_forall in Fa, Fb.
  split; constructor; try assumption; rewrite Forall_forall; intros [u v] Huv.
  - unfold fst_lt; cbn [fst]. apply Fa. eapply in_combine_l. exact Huv.
  - unfold snd_lt; cbn [snd]. apply Fb. eapply in_combine_r. exact Huv.
Qed.

Lemma diffs_pos l : StronglySorted Qlt_r l -> Forall (fun d => 0 < d) (diffs l).
Proof.
  induction 1 as [|a l HS IH HF]; [constructor|].
  destruct l as [|b r]; [constructor|]. cbn [diffs]. constructor; [|exact IH].
  rewrite Forall_forall in HF. assert (a < b) by (apply HF; left; reflexivity). lra.
Qed.

Lemma map2_div_pos a : forall b, Forall (fun d => 0 < d) a -> Forall (fun d => 0 < d) b ->
  Forall (fun d => 0 < d) (map2 (fun p q => Qred (p / q)) a b).
Proof.
  induction a as [|x a IH]; intros b Ha Hb; [constructor|].
  destruct b as [|y b]; [constructor|]. inversion Ha; subst. inversion Hb; subst.
  cbn [map2]. constructor; [|apply IH; assumption].
  rewrite Qred_correct. apply Qlt_shift_div_l; [assumption | lra].
Qed.

Lemma zoh_from_pos rest : forall y0 x, 0 < y0 -> Forall (fun p => 0 < snd p) rest -> 0 < zoh_from y0 rest x.
Proof.
  induction rest as [|[x1 y1] r IH]; intros y0 x H0 HF; cbn [zoh_from]; [exact H0|].
  inversion HF as [|? ? H1 HF']; subst. cbn [snd] in H1.
  destruct (Qle_bool x1 x); [apply IH; assumption | exact H0].
Qed.

Lemma combine_snd_pos a : forall b, Forall (fun d => 0 < d) b -> Forall (fun p : Q * Q => 0 < snd p) (combine a b).
Proof.
  induction a as [|x a IH]; intros b Hb; [constructor|].
  destruct b as [|y b]; [constructor|]. inversion Hb; subst. cbn [combine]. constructor; [assumption | apply IH; assumption].
Qed.

(* ---------- monotonize_times: the kept knots (record highs) increase strictly in both coordinates ---------- *)
Definition selp (M : Q) (ps : list (Q * Q)) : list (Q * Q) :=
  select (incr_mask M (runmax M (map snd ps))) ps.

Lemma selp_cons M p ps :
  selp M (p :: ps) =
  if negb (Qeq_bool (Qmaxb M (snd p)) M) then p :: selp (Qmaxb M (snd p)) ps else selp (Qmaxb M (snd p)) ps.
Proof.
  unfold selp, select. cbn [map runmax incr_mask combine filter fst].
  destruct (negb (Qeq_bool (Qmaxb M (snd p)) M)); reflexivity.
Qed.

Lemma Qmaxb_ge M e : M <= Qmaxb M e /\ e <= Qmaxb M e.
Proof.
  unfold Qmaxb. destruct (Qle_bool M e) eqn:E.
  - apply Qle_bool_iff in E. split; [exact E | apply Qle_refl].
  - split; [apply Qle_refl|]. destruct (Qlt_le_dec e M) as [L | L]; [apply Qlt_le_weak; exact L|].
    apply Qle_bool_iff in L. congruence.
Qed.
Lemma Qmaxb_cases M e : Qmaxb M e == M \/ (M < e /\ Qmaxb M e = e).
Proof.
  unfold Qmaxb. destruct (Qle_bool M e) eqn:E.
  - apply Qle_bool_iff in E. apply Qle_lteq in E as [L | Q]; [right; split; [exact L | reflexivity] | left; symmetry; exact Q].
  - left. reflexivity.
Qed.

Lemma selp_props ps : forall M, StronglySorted fst_lt ps ->
  StronglySorted fst_lt (selp M ps) /\ StronglySorted snd_lt (selp M ps) /\
  Forall (fun p => M < snd p) (selp M ps) /\ (forall p, In p (selp M ps) -> In p ps).
Proof.
  induction ps as [|p ps IH]; intros M HS.
  - unfold selp, select. cbn. repeat split; try constructor. intros p [].
  - inversion HS as [|? ? HS' HF]; subst.
    rewrite selp_cons. set (M' := Qmaxb M (snd p)).
    destruct (IH M' HS') as [I1 [I2 [I3 I4]]].
    destruct (Qmaxb_ge M (snd p)) as [G1 G2]. fold M' in G1, G2.
    assert (I3' : Forall (fun q => M < snd q) (selp M' ps)).
    { rewrite Forall_forall in *. intros q Hq. eapply Qle_lt_trans; [exact G1 | apply I3; exact Hq]. }
    destruct (negb (Qeq_bool M' M)) eqn:E.
    + (* p kept: a strict record *)
      apply negb_true_iff in E. apply Qeq_bool_neq in E.
      destruct (Qmaxb_cases M (snd p)) as [C | [C1 C2]]; [fold M' in C; contradiction|]. fold M' in C2.
      repeat split.
      * constructor; [exact I1|]. rewrite Forall_forall in *. intros q Hq. apply HF. apply I4. exact Hq.
      * constructor; [exact I2|]. rewrite Forall_forall in *. intros q Hq. unfold snd_lt. rewrite <- C2. apply I3. exact Hq.
      * constructor; [exact C1 | exact I3'].
      * intros q [Hq | Hq]; [left; exact Hq | right; apply I4; exact Hq].
    + repeat split; try assumption. intros q Hq. right. apply I4. exact Hq.
Qed.

(* the last point is kept when it exceeds the current maximum and everything before it *)
Lemma selp_last ps : forall M pl, M < snd pl -> Forall (fun p => snd p < snd pl) ps -> In pl (selp M (ps ++ [pl])).
Proof.
  induction ps as [|p ps IH]; intros M pl HM HF.
  - cbn [app]. rewrite selp_cons.
    destruct (Qmaxb_cases M (snd pl)) as [C | [C1 C2]].
    + exfalso. destruct (Qmaxb_ge M (snd pl)) as [_ G2]. rewrite C in G2. lra.
    + rewrite C2. assert (E : Qeq_bool (snd pl) M = false).
      { destruct (Qeq_bool (snd pl) M) eqn:E; [|reflexivity]. apply Qeq_bool_iff in E. rewrite E in C1. lra. }
      rewrite E. cbn [negb]. left. reflexivity.
  - inversion HF as [|? ? Hp HF']; subst. cbn [app]. rewrite selp_cons.
    assert (HM' : Qmaxb M (snd p) < snd pl).
    { destruct (Qmaxb_cases M (snd p)) as [C | [_ C2]]; [rewrite C; exact HM | rewrite C2; exact Hp]. }
    destruct (negb _); [right|]; apply IH; assumption.
Qed.

Lemma select_combine (m : list bool) : forall (x s : list Q),
  combine (select m x) (select m s) = select m (combine x s).
Proof.
  induction m as [|b m IH]; intros x s; [reflexivity|].
  destruct x as [|a x]; [reflexivity|]. destruct s as [|c s].
  - unfold select at 2 3. cbn [combine filter map]. destruct (select (b :: m) (a :: x)); reflexivity.
  - unfold select in *. cbn [combine filter fst]. destruct b; cbn [map snd combine]; [f_equal|]; apply IH.
Qed.

Lemma combine_app' {A B} (a1 : list A) : forall (b1 : list B) a2 b2,
  List.length a1 = List.length b1 -> combine (a1 ++ a2) (b1 ++ b2) = combine a1 b1 ++ combine a2 b2.
Proof.
  induction a1 as [|x a1 IH]; intros [|y b1] a2 b2 H; cbn in *; try reflexivity; try discriminate.
  f_equal. apply IH. lia.
Qed.

Lemma map_snd_combine (x : list Q) : forall s : list Q, List.length x = List.length s -> map snd (combine x s) = s.
Proof.
  induction x as [|a x IH]; intros [|c s] H; cbn in *; try reflexivity; try discriminate.
  f_equal. apply IH. lia.
Qed.

(* the knots monotonize_times interpolates through: at least two, increasing in both coordinates *)
Lemma mono_knots x0 xr s0 sr sl :
  StronglySorted Qlt_r (x0 :: xr) -> List.length xr = S (List.length sr) ->
  s0 < sl -> Forall (fun e => e < sl) sr ->
  exists k1 K, combine (select (mono_mask (s0 :: sr ++ [sl])) (x0 :: xr)) (select (mono_mask (s0 :: sr ++ [sl])) (s0 :: sr ++ [sl]))
               = (x0, s0) :: k1 :: K /\
               StronglySorted fst_lt ((x0, s0) :: k1 :: K) /\ StronglySorted snd_lt ((x0, s0) :: k1 :: K).
Proof.
  intros HX HL H0 HF.
  rewrite select_combine. unfold mono_mask.
  assert (Hlen : List.length xr = List.length (sr ++ [sl])) by (rewrite app_length; cbn; lia).
  set (ps := combine xr (sr ++ [sl])).
  assert (Eps : map snd ps = sr ++ [sl]) by (apply map_snd_combine; exact Hlen).
  assert (E : select (true :: incr_mask s0 (runmax s0 (sr ++ [sl]))) (combine (x0 :: xr) (s0 :: sr ++ [sl]))
              = (x0, s0) :: selp s0 ps).
  { unfold selp. rewrite Eps. unfold select. cbn [combine filter fst map snd]. reflexivity. }
  rewrite E.
  assert (HXr : StronglySorted Qlt_r xr) by (inversion HX; assumption).
  assert (HXf : Forall (fun e => x0 < e) xr) by (inversion HX; assumption).
  (* ps is sorted by abscissa *)
  assert (HPs : StronglySorted fst_lt ps).
  { clear - HXr. unfold ps. generalize (sr ++ [sl]) as b. induction HXr as [|a l HS IH HF]; intros b; [constructor|].
    destruct b as [|c b]; [constructor|]. cbn [combine]. constructor; [apply IH|].
    rewrite Forall_forall in *. intros [u v] Huv. unfold fst_lt; cbn [fst]. apply HF. eapply in_combine_l. exact Huv. }
  destruct (selp_props ps s0 HPs) as [P1 [P2 [P3 P4]]].
  (* ps = ps' ++ [(xl, sl)] *)
  destruct (exists_last (l := xr)) as [xr' [xl Exr]]; [intro Z; rewrite Z in HL; cbn in HL; lia|].
  assert (Eps2 : ps = combine xr' sr ++ [(xl, sl)]).
  { unfold ps. rewrite Exr. rewrite combine_app'; [reflexivity|].
    rewrite Exr, app_length in HL. cbn in HL. lia. }
  assert (HIn : In (xl, sl) (selp s0 ps)).
  { rewrite Eps2. apply selp_last; [exact H0|].
    rewrite Forall_forall in *. intros [u v] Huv. cbn [snd]. apply HF. eapply in_combine_r. exact Huv. }
  destruct (selp s0 ps) as [|k1 K] eqn:ES; [destruct HIn|].
  exists k1, K. split; [reflexivity|]. split.
  - constructor; [exact P1|]. rewrite Forall_forall in *. intros q Hq. unfold fst_lt; cbn [fst].
    apply HXf. specialize (P4 q Hq). unfold ps in P4. destruct q as [u v]. eapply in_combine_l. exact P4.
  - constructor; [exact P2|]. rewrite Forall_forall in *. intros q Hq. unfold snd_lt; cbn [snd]. apply P3. exact Hq.
Qed.

(* ---------- the two tempo curves ---------- *)
Section Tempo.
  Variables (x0 : Q) (xr : list Q) (s0 : Q) (sr : list Q) (sl : Q).
  Hypothesis HX : StronglySorted Qlt_r (x0 :: xr).
  Hypothesis HL : List.length xr = S (List.length sr).
  Hypothesis H0 : s0 < sl.
  Hypothesis HF : Forall (fun e => e < sl) sr.
  Let x := x0 :: xr.
  Let s := s0 :: sr ++ [sl].

  Lemma monotonize_sorted : StronglySorted Qlt_r (monotonize s x).
  Proof.
    unfold monotonize. destruct (mono_knots x0 xr s0 sr sl HX HL H0 HF) as [k1 [K [E [K1 K2]]]].
    unfold s, x. rewrite E. apply map_mono_sorted; [|exact HX].
    apply lin_interp_mono; assumption.
  Qed.

  Lemma tempo_average_pos_lemma : Forall (fun b => 0 < b) (tempo_average x s).
  Proof.
    unfold tempo_average. pose proof monotonize_sorted as HM.
    set (smt := monotonize s x) in *.
    set (bp := map2 (fun a b => Qred (a / b)) (diffs smt) (diffs x)).
    assert (Hbp : Forall (fun d => 0 < d) bp).
    { apply map2_div_pos; apply diffs_pos; [exact HM | exact HX]. }
    set (K := combine (removelast x) bp).
    assert (HK : Forall (fun p : Q * Q => 0 < snd p) K) by (apply combine_snd_pos; exact Hbp).
    assert (HK0 : exists p K', K = p :: K').
    { unfold K, bp, smt, monotonize, x. clear - HL. destruct xr as [|x1 xr']; [cbn in HL; lia|].
      cbn [map diffs map2]. destruct xr'; cbn [removelast combine]; eauto. }
    destruct HK0 as [[u0 y0] [K' EK]]. rewrite EK in *.
    rewrite Forall_forall. intros b Hb. apply in_map_iff in Hb as [u [E _]]. subst b.
    unfold zoh. inversion HK; subst. apply zoh_from_pos; assumption.
  Qed.

  Lemma tempo_derivative_pos_lemma : Forall (fun b => 0 < b) (tempo_derivative x s).
  Proof.
    unfold tempo_derivative. pose proof monotonize_sorted as HM.
    set (smt := monotonize s x) in *.
    destruct (combine_sorted x smt HX HM) as [C1 C2].
    assert (Hlen : exists k0 k1 K, combine x smt = k0 :: k1 :: K).
    { unfold smt, monotonize, x. destruct xr as [|x1 xr']; [cbn in HL; lia|]. cbn [map combine]. eauto. }
    destruct Hlen as [k0 [k1 [K E]]]. rewrite E in *.
    rewrite Forall_forall. intros b Hb. apply in_map_iff in Hb as [u [Eb _]]. subst b.
    rewrite Qred_correct.
    assert (lin_interp (k0 :: k1 :: K) (u - (1 # 2)) < lin_interp (k0 :: k1 :: K) (u + (1 # 2))).
    { apply lin_interp_mono; [assumption | assumption | lra]. }
    lra.
  Qed.
End Tempo.

(* the hypotheses are satisfiable by a NON-monotone performance: chord times 1, 3, 2, 5/2 and last offset 4 *)
Example tempo_example :
  Forall (fun b => 0 < b) (tempo_average [0; 1; 2; 3; 5] [1; 3; 2; 5 # 2; 4]) /\
  Forall (fun b => 0 < b) (tempo_derivative [0; 1; 2; 3; 5] [1; 3; 2; 5 # 2; 4]) /\
  map Qred (tempo_average [0; 1; 2; 3; 5] [1; 3; 2; 5 # 2; 4]) = [2; 1 # 4; 1 # 4; 1 # 4] /\
  map Qred (tempo_derivative [0; 1; 2; 3; 5] [1; 3; 2; 5 # 2; 4]) = [2; 9 # 8; 1 # 4; 1 # 4].
Proof.
  assert (HX : StronglySorted Qlt_r [0; 1; 2; 3; 5]).
  { repeat (constructor; [| repeat (constructor; [reflexivity|]); constructor]). constructor. }
  assert (HF : Forall (fun e => e < 4) [3; 2; 5 # 2]) by (repeat (constructor; [reflexivity|]); constructor).
  split; [| split; [| split; vm_compute; reflexivity]].
  - exact (tempo_average_pos_lemma 0 [1; 2; 3; 5] 1 [3; 2; 5 # 2] 4 HX eq_refl eq_refl HF).
  - exact (tempo_derivative_pos_lemma 0 [1; 2; 3; 5] 1 [3; 2; 5 # 2] 4 HX eq_refl eq_refl HF).
Qed.

Lemma tempo_curves_positive_lemma :
  forall (x0 : Q) (xr : list Q) (s0 : Q) (sr : list Q) (sl : Q),
    StronglySorted Qlt_r (x0 :: xr) -> List.length xr = S (List.length sr) ->
    s0 < sl -> Forall (fun e => e < sl) sr ->
    Forall (fun b => 0 < b) (tempo_average (x0 :: xr) (s0 :: sr ++ [sl])) /\
    Forall (fun b => 0 < b) (tempo_derivative (x0 :: xr) (s0 :: sr ++ [sl])).
Proof.
  intros x0 xr s0 sr sl HX HL H0 HF. split.
  - apply tempo_average_pos_lemma; assumption.
  - apply tempo_derivative_pos_lemma; assumption.
Qed.

(* ---------- the hypothesis on the performed side always holds for the codec's own lists ----------
   u_onsets po offsets G = chord means ++ [last_time]: the last time exceeds every chord mean *)
Lemma fold_max_ge r : forall x, x <= fold_left Qmaxb r x /\ Forall (fun e => e <= fold_left Qmaxb r x) r.
Proof.
  induction r as [|a r IH]; intros x; cbn [fold_left]; [split; [apply Qle_refl | constructor]|].
  destruct (IH (Qmaxb x a)) as [I1 I2]. destruct (Qmaxb_ge x a) as [G1 G2]. split.
  - eapply Qle_trans; eauto.
  - constructor; [eapply Qle_trans; eauto | exact I2].
Qed.

Lemma maxl_ge l j : (j < List.length l)%nat -> nthQ l j <= maxl l.
Proof.
  destruct l as [|x r]; cbn [List.length]; [lia|]. intros H. unfold maxl.
  destruct (fold_max_ge r x) as [I1 I2]. destruct j as [|j]; [exact I1|].
  unfold nthQ. cbn [nth]. rewrite Forall_forall in I2. apply I2. apply nth_In. lia.
Qed.

Lemma sumQ_le l M : Forall (fun e => e <= M) l -> sumQ l <= lenQ l * M.
Proof.
  induction 1 as [|a l Ha HF IH]; unfold lenQ in *; cbn [sumQ List.length]; [change (inject_Z (Z.of_nat 0)) with 0; lra|].
  rewrite Nat2Z.inj_succ. unfold Z.succ. rewrite inject_Z_plus.
  set (L := inject_Z (Z.of_nat (List.length l))) in *.
  setoid_replace ((L + inject_Z 1) * M) with (L * M + M) by ring.
  set (t := L * M) in *. lra.
Qed.

Lemma meanQ_le l M : l <> [] -> Forall (fun e => e <= M) l -> meanQ l <= M.
Proof.
  intros Hne HF. unfold meanQ. rewrite Qred_correct.
  assert (Hlen : 0 < lenQ l).
  { unfold lenQ. destruct l; [congruence|]. cbn [List.length]. rewrite Nat2Z.inj_succ.
    unfold Qlt; cbn. lia. }
  apply Qle_shift_div_r; [exact Hlen|]. rewrite Qmult_comm. apply sumQ_le. exact HF.
Qed.

Lemma last_time_gt on off : maxl on < last_time on off.
Proof.
  unfold last_time. destruct (Qle_bool (maxl off - maxl on) onset_eps) eqn:E; [lra|].
  assert (H : onset_eps < maxl off - maxl on).
  { destruct (Qlt_le_dec onset_eps (maxl off - maxl on)) as [L | L]; [exact L|]. apply Qle_bool_iff in L. congruence. }
  unfold onset_eps in H. lra.
Qed.

Lemma chord_mean_lt_last on off (g : list nat) :
  g <> [] -> (forall m, In m g -> (m < List.length on)%nat) -> meanQ (map (nthQ on) g) < last_time on off.
Proof.
  intros Hne Hm. eapply Qle_lt_trans; [| apply last_time_gt].
  apply meanQ_le.
  - destruct g; [congruence | discriminate].
  - rewrite Forall_forall. intros e He. apply in_map_iff in He as [m [E Hin]]. subst e. apply maxl_ge. apply Hm. exact Hin.
Qed.

(* the codec's tempo curves: positive as soon as the unique score onsets (+ last score time) increase *)
Lemma tempo_curves_positive_codec_lemma (so sd po pd : list Q) (G : list (list nat)) :
  G <> [] -> groups_ok G (List.length po) = true ->
  StronglySorted Qlt_r (u_onsets so (map2 Qplus so sd) G) ->
  Forall (fun b => 0 < b) (tempo_average (u_onsets so (map2 Qplus so sd) G) (u_onsets po (map2 Qplus po pd) G)) /\
  Forall (fun b => 0 < b) (tempo_derivative (u_onsets so (map2 Qplus so sd) G) (u_onsets po (map2 Qplus po pd) G)).
Proof.
  intros HG Hok HX. unfold u_onsets in *.
  destruct G as [|g0 G']; [congruence|]. cbn [map app] in *.
  set (off := map2 Qplus po pd) in *.
  assert (Hgrp : forall g, In g (g0 :: G') -> g <> [] /\ forall m, In m g -> (m < List.length po)%nat).
  { intros g Hg. apply In_nth with (d := []) in Hg as [i [Hi E]]. subst g. split.
    - destruct (groups_ok_nonempty _ _ i Hok Hi) as [k Hk]. intro Z. rewrite Z in Hk. discriminate.
    - intros m Hm. apply (groups_ok_member _ _ i m Hok Hi Hm). }
  apply tempo_curves_positive_lemma.
  - exact HX.
  - rewrite !app_length, !map_length. cbn. lia.
  - destruct (Hgrp g0 (or_introl eq_refl)) as [A B]. apply chord_mean_lt_last; assumption.
  - rewrite Forall_forall. intros e He. apply in_map_iff in He as [g [E Hg]]. subst e.
    destruct (Hgrp g (or_intror Hg)) as [A B]. apply chord_mean_lt_last; assumption.
Qed.

(* ================= the unique score onsets of the encoder's grouping increase strictly ================= *)
From Coq Require Import Qround Sorting.Permutation.

Lemma Qceiling_neg_le0 a : a < 0 -> (Qceiling a <= 0)%Z.
Proof.
  intros H. unfold Qceiling.
  assert (0 <= Qfloor (- a))%Z; [| lia].
  change 0%Z with (Qfloor 0). apply Qfloor_resp_le. lra.
Qed.

Lemma trunc_mono a b : a <= b -> (trunc a <= trunc b)%Z.
Proof.
  intros H. unfold trunc.
  destruct (Qle_bool 0 a) eqn:Ea; destruct (Qle_bool 0 b) eqn:Eb.
  - apply Qfloor_resp_le. exact H.
  - apply Qle_bool_iff in Ea. assert (Qle_bool 0 b = true) by (apply Qle_bool_iff; lra). congruence.
  - assert (Ha : a < 0).
    { destruct (Qlt_le_dec a 0) as [L | L]; [exact L|]. apply Qle_bool_iff in L. congruence. }
    apply Qle_bool_iff in Eb. pose proof (Qceiling_neg_le0 a Ha).
    assert (0 <= Qfloor b)%Z by (change 0%Z with (Qfloor 0); apply Qfloor_resp_le; exact Eb). lia.
  - apply Qceiling_resp_le. exact H.
Qed.

Lemma quantise_lt a b : quantise a < quantise b -> a < b.
Proof.
  intros H. destruct (Qlt_le_dec a b) as [L | L]; [exact L|]. exfalso.
  assert (T : (trunc (10000 * b) <= trunc (10000 * a))%Z) by (apply trunc_mono; lra).
  unfold quantise in H. rewrite <- Zlt_Qlt in H. lia.
Qed.

Lemma nthQ_map_quantise so j : nthQ (map quantise so) j = quantise (nthQ so j).
Proof. unfold nthQ. change 0 with (quantise 0) at 1. apply map_nth. Qed.

(* groups of get_unique_onset_idxs are separated: every key of an earlier group is below every key of a later one *)
Definition gsep (key : nat -> Q) (g h : list nat) : Prop := forall a b, In a g -> In b h -> key a < key b.

Lemma split_groups_sep key eps : 0 <= eps -> forall l prev cur,
  (forall a, In a cur -> key a <= key prev) ->
  Forall (fun b => key prev <= key b) l ->
  StronglySorted (fun a b => key a <= key b) l ->
  StronglySorted (gsep key) (split_groups key eps prev cur l).
Proof.
  intros Heps. induction l as [|j r IH]; intros prev cur Hc Hp Hs; cbn [split_groups].
  - constructor; constructor.
  - inversion Hp as [|? ? Hpj Hpr]; subst. inversion Hs as [|? ? Hs' Hjr]; subst.
    destruct (Qle_bool (key j - key prev) eps) eqn:E.
    + apply IH.
      * intros a [Ha | Ha]; [subst; apply Qle_refl | eapply Qle_trans; [apply Hc; exact Ha | exact Hpj]].
      * exact Hjr.
      * exact Hs'.
    + assert (Hgap : key prev < key j).
      { destruct (Qlt_le_dec eps (key j - key prev)) as [L | L]; [lra|]. apply Qle_bool_iff in L. congruence. }
      constructor.
      * apply IH; [intros a [Ha | []]; subst; apply Qle_refl | exact Hjr | exact Hs'].
      * rewrite Forall_forall. intros h Hh a b Ha Hb.
        apply in_rev in Ha.
        assert (Hbin : In b (j :: r)).
        { assert (In b (List.concat (split_groups key eps j [j] r))) by (apply in_concat; exists h; split; assumption).
          rewrite split_groups_concat in H. exact H. }
        apply Qle_lt_trans with (key prev); [apply Hc; exact Ha|].
        destruct Hbin as [Hb' | Hb'].
        -- subst. exact Hgap.
        -- rewrite Forall_forall in Hjr. eapply Qlt_le_trans; [exact Hgap | apply Hjr; exact Hb'].
Qed.

Lemma Sorted_key_SS key l : Sorted (fun a b => qkey_leb key a b = true) l -> StronglySorted (fun a b : nat => key a <= key b) l.
Proof.
  intros H. apply Sorted_StronglySorted in H.
  - induction H as [|a l HS IH HF]; constructor; [exact IH|].
    rewrite Forall_forall in *. intros b Hb. apply Qle_bool_iff. apply (HF b Hb).
  - intros a b c Hab Hbc. unfold qkey_leb in *. apply Qle_bool_iff in Hab, Hbc. apply Qle_bool_iff. eapply Qle_trans; eauto.
Qed.

Lemma qkey_leb_total key (a b : nat) : qkey_leb key a b = true \/ qkey_leb key b a = true.
Proof.
  unfold qkey_leb. destruct (Qlt_le_dec (key a) (key b)) as [L | L].
  - left. apply Qle_bool_iff, Qlt_le_weak. exact L.
  - right. apply Qle_bool_iff. exact L.
Qed.

Lemma groups_sep keys eps : 0 <= eps -> StronglySorted (gsep (nthQ keys)) (groups keys eps).
Proof.
  intros Heps. unfold groups.
  pose proof (isort_sorted (qkey_leb (nthQ keys)) (qkey_leb_total (nthQ keys)) (seq 0 (List.length keys))) as HS.
  change (isort (qkey_leb (nthQ keys)) (seq 0 (List.length keys))) with (sort_idx keys) in HS.
  apply Sorted_key_SS in HS.
  destruct (sort_idx keys) as [|j r]; [constructor|].
  inversion HS as [|? ? HS' HF]; subst.
  apply split_groups_sep; [exact Heps | intros a [Ha | []]; subst; apply Qle_refl | exact HF | exact HS'].
Qed.

(* strict bounds on means *)
Lemma lenQ_pos {A} (l : list A) : l <> [] -> 0 < lenQ l.
Proof.
  intros H. unfold lenQ. destruct l; [congruence|]. cbn [List.length]. rewrite Nat2Z.inj_succ. unfold Qlt; cbn. lia.
Qed.

Lemma sumQ_ge l c : Forall (fun e => c <= e) l -> lenQ l * c <= sumQ l.
Proof.
  induction 1 as [|a l Ha HF IH]; unfold lenQ in *; cbn [sumQ List.length]; [change (inject_Z (Z.of_nat 0)) with 0; lra|].
  rewrite Nat2Z.inj_succ. unfold Z.succ. rewrite inject_Z_plus.
  set (L := inject_Z (Z.of_nat (List.length l))) in *.
  setoid_replace ((L + inject_Z 1) * c) with (L * c + c) by ring.
  set (t := L * c) in *. lra.
Qed.

Lemma meanQ_lt l M : l <> [] -> Forall (fun e => e < M) l -> meanQ l < M.
Proof.
  intros Hne HF. unfold meanQ. rewrite Qred_correct.
  apply Qlt_shift_div_r; [apply lenQ_pos; exact Hne|]. rewrite Qmult_comm.
  destruct l as [|a l]; [congruence|]. inversion HF as [|? ? Ha HF']; subst.
  assert (H : sumQ l <= lenQ l * M).
  { apply sumQ_le. rewrite Forall_forall in *. intros e He. apply Qlt_le_weak. apply HF'. exact He. }
  unfold lenQ in *. cbn [sumQ List.length]. rewrite Nat2Z.inj_succ. unfold Z.succ. rewrite inject_Z_plus.
  set (L := inject_Z (Z.of_nat (List.length l))) in *.
  setoid_replace ((L + inject_Z 1) * M) with (L * M + M) by ring.
  set (t := L * M) in *. lra.
Qed.

Lemma meanQ_gt l c : l <> [] -> Forall (fun e => c < e) l -> c < meanQ l.
Proof.
  intros Hne HF. unfold meanQ. rewrite Qred_correct.
  apply Qlt_shift_div_l; [apply lenQ_pos; exact Hne|]. rewrite Qmult_comm.
  destruct l as [|a l]; [congruence|]. inversion HF as [|? ? Ha HF']; subst.
  assert (H : lenQ l * c <= sumQ l).
  { apply sumQ_ge. rewrite Forall_forall in *. intros e He. apply Qlt_le_weak. apply HF'. exact He. }
  unfold lenQ in *. cbn [sumQ List.length]. rewrite Nat2Z.inj_succ. unfold Z.succ. rewrite inject_Z_plus.
  set (L := inject_Z (Z.of_nat (List.length l))) in *.
  setoid_replace ((L + inject_Z 1) * c) with (L * c + c) by ring.
  set (t := L * c) in *. lra.
Qed.

Lemma SS_app_last {A} (R : A -> A -> Prop) l z :
  StronglySorted R l -> Forall (fun a => R a z) l -> StronglySorted R (l ++ [z]).
Proof.
  induction 1 as [|a l HS IH HF]; intros Hz; cbn [app]; [constructor; constructor|].
  inversion Hz; subst. constructor; [apply IH; assumption|].
  apply Forall_app. split; [exact HF | constructor; [assumption | constructor]].
Qed.

Lemma sep_means (val : nat -> Q) G :
  Forall (fun g => g <> []) G -> StronglySorted (gsep val) G ->
  StronglySorted Qlt_r (map (fun g => meanQ (map val g)) G).
Proof.
  intros HN. induction 1 as [|g G HS IH HF]; cbn [map]; [constructor|].
  inversion HN as [|? ? Hg HN']; subst. constructor; [apply IH; exact HN'|].
  rewrite Forall_forall in *. intros m Hm. apply in_map_iff in Hm as [h [E Hh]]. subst m.
  specialize (HF h Hh). assert (Hhne : h <> []) by (apply HN'; exact Hh).
  unfold Qlt_r. apply meanQ_lt.
  - destruct g; [congruence | discriminate].
  - rewrite Forall_forall. intros e He. apply in_map_iff in He as [a [E Ha]]. subst e.
    apply meanQ_gt.
    + destruct h; [congruence | discriminate].
    + rewrite Forall_forall. intros e He. apply in_map_iff in He as [b [E Hb]]. subst e. apply HF; assumption.
Qed.

Lemma enc_groups_nonempty so : Forall (fun g => g <> []) (enc_groups so).
Proof.
  unfold enc_groups, groups. destruct (sort_idx (map quantise so)) as [|j r]; [constructor|].
  apply split_groups_nonempty. discriminate.
Qed.

Lemma split_groups_ne key eps l : forall prev cur, split_groups key eps prev cur l <> [].
Proof.
  induction l as [|a l IH]; intros prev cur; cbn [split_groups]; [discriminate|].
  destruct (Qle_bool _ _); [apply IH | discriminate].
Qed.

Lemma enc_groups_ne so : so <> [] -> enc_groups so <> [].
Proof.
  intros H. unfold enc_groups, groups.
  pose proof (isort_perm (qkey_leb (nthQ (map quantise so))) (seq 0 (List.length (map quantise so)))) as HP.
  change (isort _ _) with (sort_idx (map quantise so)) in HP.
  destruct (sort_idx (map quantise so)) as [|j r].
  - apply Permutation_length in HP. rewrite seq_length, map_length in HP. destruct so; [congruence | cbn in HP; lia].
  - apply split_groups_ne.
Qed.

(* x = u_onsets of the score with the encoder's grouping increases strictly *)
Lemma enc_x_sorted so sd : so <> [] ->
  StronglySorted Qlt_r (u_onsets so (map2 Qplus so sd) (enc_groups so)).
Proof.
  intros Hne. unfold u_onsets. apply SS_app_last.
  - apply sep_means; [apply enc_groups_nonempty|].
    unfold enc_groups.
    assert (Heps : 0 <= onset_eps) by (unfold onset_eps; lra).
    pose proof (groups_sep (map quantise so) onset_eps Heps) as HS.
    clear - HS. induction HS as [|g G HS IH HF]; constructor; [exact IH|].
    rewrite Forall_forall in *. intros h Hh a b Ha Hb. apply quantise_lt.
    rewrite <- !nthQ_map_quantise. apply (HF h Hh); assumption.
  - rewrite Forall_forall. intros m Hm. apply in_map_iff in Hm as [g [E Hg]]. subst m. unfold Qlt_r.
    destruct (codec_groups_partition so) as [Hok _].
    apply In_nth with (d := []) in Hg as [i [Hi E]]. subst g.
    apply chord_mean_lt_last.
    + destruct (groups_ok_nonempty _ _ i Hok Hi) as [k Hk]. intro Z. rewrite Z in Hk. discriminate.
    + intros m Hm. apply (groups_ok_member _ _ i m Hok Hi Hm).
Qed.

(* both tempo curves of the encoder are positive for EVERY input: any score onsets / durations, any performed
   onsets / durations (monotone or not), the encoder's own grouping *)
Lemma tempo_curves_positive_encoder_lemma (so sd po pd : list Q) :
  so <> [] -> List.length po = List.length so ->
  let G := enc_groups so in
  let x := u_onsets so (map2 Qplus so sd) G in
  let s := u_onsets po (map2 Qplus po pd) G in
  Forall (fun b => 0 < b) (tempo_average x s) /\ Forall (fun b => 0 < b) (tempo_derivative x s).
Proof.
  intros Hne Hlen G x s. unfold x, s, G.
  apply tempo_curves_positive_codec_lemma.
  - apply enc_groups_ne. exact Hne.
  - rewrite Hlen. apply (proj1 (codec_groups_partition so)).
  - apply enc_x_sorted. exact Hne.
Qed.

(* ================= the whole round trip with the built-in tempo curves ================= *)
Definition builtin_curve (average : bool) (x s : list Q) : list Q :=
  if average then tempo_average x s else tempo_derivative x s.

Lemma builtin_curve_length average (l : list Q) z s : List.length (builtin_curve average (l ++ [z]) s) = List.length l.
Proof.
  destruct average; cbn [builtin_curve]; unfold tempo_average, tempo_derivative; cbv zeta;
    rewrite map_length, removelast_last; reflexivity.
Qed.

Lemma Forall_nthQ_pos l i : Forall (fun b => 0 < b) l -> (i < List.length l)%nat -> 0 < nthQ l i.
Proof. intros HF Hi. rewrite Forall_forall in HF. apply HF. unfold nthQ. apply nth_In. exact Hi. Qed.

Lemma codec_roundtrip_builtin_lemma :
  forall (NP : Type) (scale : Q -> NP) (pmean : list NP -> NP) (rescale : NP -> Q) (npdefault : NP)
         (log2 exp2 : Q -> Q),
    (forall x k, 0 < x -> rescale (pmean (repeat (scale x) (S k))) == x) ->
    (forall x, 0 < x -> exp2 (log2 x) == x) ->
  forall (average : bool) (so sd po pd : list Q) (vel : list Z),
    so <> [] -> List.length po = List.length so ->
    dec_groups so = enc_groups so ->
    let G := enc_groups so in
    let bp := builtin_curve average (u_onsets so (map2 Qplus so sd) G) (u_onsets po (map2 Qplus po pd) G) in
    let out := decode NP pmean rescale npdefault exp2 so sd (dec_groups so) (encode NP scale log2 so sd po pd vel G bp) in
    (exists shift : Q, forall j, (j < List.length so)%nat -> fst (fst (nth j out (0, 0, 0%Z))) == nthQ po j + shift) /\
    (forall j, (j < List.length so)%nat -> 0 < nthQ sd j -> 0 < nthQ pd j -> snd (fst (nth j out (0, 0, 0%Z))) == nthQ pd j) /\
    (forall j, (j < List.length so)%nat -> snd (nth j out (0, 0, 0%Z)) = dec_vel (enc_vel (nth j vel 0%Z))).
Proof.
  intros NP scale pmean rescale npdefault log2 exp2 Hn He average so sd po pd vel Hne Hlen HG G bp out.
  unfold out. rewrite HG. fold G.
  assert (Hok : groups_ok G (List.length so) = true) by apply (proj1 (codec_groups_partition so)).
  assert (Hbp : forall i, (i < List.length G)%nat -> 0 < nthQ bp i).
  { intros i Hi. apply Forall_nthQ_pos.
    - destruct (tempo_curves_positive_encoder_lemma so sd po pd Hne Hlen) as [A B].
      unfold bp. destruct average; [exact A | exact B].
    - unfold bp, u_onsets. rewrite builtin_curve_length, map_length. exact Hi. }
  split; [| split].
  - apply decode_encode_onsets_lemma; assumption.
  - intros j Hj Hs Hp. apply decode_encode_duration_lemma; assumption.
  - intros j Hj. apply decode_velocity_row. exact Hj.
Qed.

(* the same, with the curve selector the correspondence evaluates (Model/C18_Check.v: tempo_curve) *)
From PV Require Import Model.C18_Check.
Lemma codec_roundtrip_builtin_tc :
  forall (NP : Type) (scale : Q -> NP) (pmean : list NP -> NP) (rescale : NP -> Q) (npdefault : NP)
         (log2 exp2 : Q -> Q),
    (forall x k, 0 < x -> rescale (pmean (repeat (scale x) (S k))) == x) ->
    (forall x, 0 < x -> exp2 (log2 x) == x) ->
  forall (method : Z) (so sd po pd : list Q) (vel : list Z),
    so <> [] -> List.length po = List.length so ->
    dec_groups so = enc_groups so ->
    let G := enc_groups so in
    let bp := tempo_curve method (u_onsets so (map2 Qplus so sd) G) (u_onsets po (map2 Qplus po pd) G) in
    let out := decode NP pmean rescale npdefault exp2 so sd (dec_groups so) (encode NP scale log2 so sd po pd vel G bp) in
    (exists shift : Q, forall j, (j < List.length so)%nat -> fst (fst (nth j out (0, 0, 0%Z))) == nthQ po j + shift) /\
    (forall j, (j < List.length so)%nat -> 0 < nthQ sd j -> 0 < nthQ pd j -> snd (fst (nth j out (0, 0, 0%Z))) == nthQ pd j) /\
    (forall j, (j < List.length so)%nat -> snd (nth j out (0, 0, 0%Z)) = dec_vel (enc_vel (nth j vel 0%Z))).
Proof.
  intros NP scale pmean rescale npdefault log2 exp2 Hn He method so sd po pd vel Hne Hlen HG.
  exact (codec_roundtrip_builtin_lemma NP scale pmean rescale npdefault log2 exp2 Hn He (Z.eqb method 0) so sd po pd vel Hne Hlen HG).
Qed.
