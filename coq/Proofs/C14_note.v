(* C14 -- PerformedNote field validation, the validated write-back of the sounding ends,
   construction of a part from note dicts, note_array rows of notes with stored ticks,
   from_note_array as a construction from dicts carrying a sound_off. *)
From PV Require Import Lib.Base Lib.Round Model.C12 Model.C14 Model.C14_Note
  Proofs.C14_lib Proofs.C14_so Proofs.C14.
From Coq Require Import QArith Qminmax Qabs Lqa.
#[local] Open Scope Q_scope.

(* ---- validators *)
Lemma ok_off_iff on v : 0 <= on -> (ok_off on v = true <-> on <= v).
Proof.
  intros Hon. unfold ok_off.
  assert (E : Qltb on 0 = false) by (apply Qltb_false; exact Hon).
  rewrite E. simpl. rewrite andb_true_iff, !Qle_bool_iff. split; [tauto|]. intros H. split; lra.
Qed.

Lemma ok_so_iff off v : 0 <= off -> (ok_so off v = true <-> off <= v).
Proof. exact (ok_off_iff off v). Qed.

Lemma ok_on_iff v : ok_on v = true <-> 0 <= v.
Proof. unfold ok_on. apply Qle_bool_iff. Qed.

Lemma ok_pitch_iff v : ok_pitch v = true <-> (0 <= v <= 127)%Z.
Proof. unfold ok_pitch. rewrite andb_true_iff, !Z.leb_le. tauto. Qed.

Lemma ok_vel_iff v : ok_vel v = true <-> (0 <= v <= 127)%Z.
Proof. exact (ok_pitch_iff v). Qed.

Lemma ok_on_neg1 : ok_on (-1) = false.
Proof. reflexivity. Qed.

(* ---- the constructor accepts exactly the dicts the statement is about *)
Lemma pn_new_accepts_iff d : (exists n, pn_new d = Some n) <-> valid_dict d.
Proof.
  unfold pn_new, valid_dict. split.
  - intros [n H].
    destruct (ok_pitch (d_pitch d)) eqn:Ep; [|discriminate].
    destruct (ok_on (dflt (d_on d) (-1))) eqn:Eon; [|discriminate].
    destruct (ok_off (dflt (d_on d) (-1)) (dflt (d_off d) (-1))) eqn:Eoff; [|discriminate].
    destruct (ok_vel (dflt (d_vel d) 60%Z)) eqn:Ev; [|discriminate].
    destruct (ok_so (dflt (d_off d) (-1)) (dflt (d_so d) (dflt (d_off d) (-1)))) eqn:Eso; [|discriminate].
    destruct (ok_opt ok_ontick (d_ontick d)) eqn:Et1; [|discriminate].
    destruct (ok_opt (ok_offtick (d_ontick d)) (d_offtick d)) eqn:Et2; [|discriminate].
    clear H. apply ok_pitch_iff in Ep. apply ok_on_iff in Eon.
    destruct (d_on d) as [on|] eqn:Don; simpl in *; [|lra].
    apply (ok_off_iff on _ Eon) in Eoff.
    destruct (d_off d) as [off|] eqn:Doff; simpl in *; [|lra].
    assert (Hoff : 0 <= off) by lra.
    apply (ok_so_iff off _ Hoff) in Eso.
    split; [exact Ep|]. split; [|split; [|split]].
    + intros v Hv. rewrite Hv in Ev. simpl in Ev. apply ok_vel_iff in Ev. exact Ev.
    + exists on, off. repeat split; auto. intros so Hso. rewrite Hso in Eso. exact Eso.
    + intros k Hk. rewrite Hk in Et1. simpl in Et1. unfold ok_ontick in Et1. lia.
    + intros k v Hk Hv. rewrite Hk in Et1. rewrite Hk, Hv in Et2. simpl in Et1, Et2.
      unfold ok_ontick in Et1. unfold ok_offtick in Et2. simpl in Et2.
      apply orb_true_iff in Et2. destruct Et2 as [Et2|Et2]; [lia|].
      apply andb_true_iff in Et2. lia.
  - intros (Hp & Hv & (on & off & Don & Doff & Hon & Hle & Hso) & Ht1 & Ht2).
    rewrite Don, Doff. simpl.
    assert (E1 : ok_pitch (d_pitch d) = true) by (apply ok_pitch_iff; exact Hp).
    assert (E2 : ok_on on = true) by (apply ok_on_iff; exact Hon).
    assert (E3 : ok_off on off = true) by (apply ok_off_iff; auto).
    assert (E4 : ok_vel (dflt (d_vel d) 60%Z) = true).
    { apply ok_vel_iff. destruct (d_vel d) as [v|]; simpl; [apply Hv; reflexivity|lia]. }
    assert (E5 : ok_so off (dflt (d_so d) off) = true).
    { apply ok_so_iff; [lra|]. destruct (d_so d) as [so|]; simpl; [apply Hso; reflexivity|lra]. }
    assert (E6 : ok_opt ok_ontick (d_ontick d) = true).
    { destruct (d_ontick d) as [k|]; simpl; auto. unfold ok_ontick. specialize (Ht1 k eq_refl). lia. }
    assert (E7 : ok_opt (ok_offtick (d_ontick d)) (d_offtick d) = true).
    { destruct (d_offtick d) as [v|]; simpl; auto. unfold ok_offtick.
      destruct (d_ontick d) as [k|]; simpl; auto.
      specialize (Ht1 k eq_refl). specialize (Ht2 k v eq_refl eq_refl).
      apply orb_true_iff. right. apply andb_true_iff. lia. }
    rewrite E1, E2, E3, E4, E5, E6, E7. simpl. eexists. reflexivity.
Qed.

(* what an accepted dict stores, and that the stored note is well formed *)
Lemma pn_new_fields d n : pn_new d = Some n ->
  pn_pitch n = d_pitch d /\ d_on d = Some (pn_on n) /\ d_off d = Some (pn_off n) /\
  pn_so n = dflt (d_so d) (pn_off n) /\ pn_vel n = dflt (d_vel d) 60%Z /\
  pn_ontick n = d_ontick d /\ pn_offtick n = d_offtick d /\ wf_note n.
Proof.
  intros H.
  assert (V : valid_dict d) by (apply pn_new_accepts_iff; eauto).
  destruct V as (_ & _ & (on & off & Don & Doff & Hon & Hle & Hso) & _ & _).
  unfold pn_new in H. rewrite Don, Doff in H. simpl in H.
  match type of H with (if ?c then _ else _) = _ => destruct c; [|discriminate] end.
  inversion H; subst; clear H. simpl. rewrite Don, Doff. repeat split; auto.
  destruct (d_so d) as [so|]; simpl; [apply Hso; reflexivity|lra].
Qed.

(* ---- assigning the sounding end *)
Lemma pn_set_so n v n' : pn_set n (ESo v) = Some n' ->
  to_note n' = to_note n /\ pn_so n' = v /\ pn_ontick n' = pn_ontick n /\ pn_offtick n' = pn_offtick n.
Proof.
  simpl. destruct (ok_so (pn_off n) v); [|discriminate]. intros H. inversion H; subst. simpl. auto.
Qed.

Lemma pn_set_so_iff n v : 0 <= pn_off n -> ((exists n', pn_set n (ESo v) = Some n') <-> pn_off n <= v).
Proof.
  intros Hoff. simpl. rewrite <- (ok_so_iff _ v Hoff).
  destruct (ok_so (pn_off n) v); split; intros H; eauto; try discriminate.
  destruct H as [? H]. discriminate.
Qed.

Lemma assign_so_total : forall ns col,
  Forall timed ns -> Forall2 (fun n v => pn_off n <= v) ns col ->
  exists ns', assign_so ns col = Some ns' /\ map pn_so ns' = col /\ map to_note ns' = map to_note ns /\
              Forall wf_note ns' /\ map pn_ontick ns' = map pn_ontick ns.
Proof.
  intros ns col HT H2. induction H2 as [|n v r c Hv H2 IH].
  - exists []. simpl. repeat split; auto.
  - inversion HT; subst. destruct (IH H3) as (r' & E & A & B & C & D).
    destruct H1 as [T1 T2].
    assert (Hoff : 0 <= pn_off n) by lra.
    destruct (proj2 (pn_set_so_iff n v Hoff) Hv) as [n' En].
    destruct (pn_set_so n v n' En) as (P1 & P2 & P3 & P4).
    exists (n' :: r'). cbn [assign_so]. rewrite En, E. simpl. rewrite A, B, D, P1, P2, P3.
    repeat split; auto. constructor; auto.
    assert (Q1 : pn_on n' = pn_on n) by (change (n_on (to_note n') = n_on (to_note n)); rewrite P1; reflexivity).
    assert (Q2 : pn_off n' = pn_off n) by (change (n_off (to_note n') = n_off (to_note n)); rewrite P1; reflexivity).
    unfold wf_note. rewrite Q1, Q2, P2. lra.
Qed.

Lemma Forall2_map_l {A B C} (f : A -> B) (P : B -> C -> Prop) : forall l1 l2,
  Forall2 P (map f l1) l2 -> Forall2 (fun a c => P (f a) c) l1 l2.
Proof.
  induction l1 as [|a r IH]; intros l2 H; inversion H; subst; constructor; auto.
Qed.

(* the recomputation never raises, whatever sounding ends the notes held before (also ends
   below the release, left behind by an edit of the release), and leaves well-formed notes
   carrying exactly the column the pedal computation gives *)
Lemma recompute_total_lemma thr ns cs : Forall timed ns ->
  exists ns', recompute thr ns cs = Some ns' /\ map pn_so ns' = sound_offs thr (map to_note ns) cs /\
              map to_note ns' = map to_note ns /\ Forall wf_note ns' /\ map pn_ontick ns' = map pn_ontick ns.
Proof.
  intros HT. destruct ns as [|n r].
  - exists []. simpl. rewrite sound_offs_nil. repeat split; auto.
  - unfold recompute. apply assign_so_total; auto.
    apply Forall2_map_l with (f := to_note) (P := fun n so => n_off n <= so).
    apply sound_off_ge_release_lemma.
Qed.

Lemma wf_timed n : wf_note n -> timed n.
Proof. unfold wf_note, timed. tauto. Qed.

Lemma all_some_valid : forall ds, Forall valid_dict ds ->
  exists ns, all_some (map pn_new ds) = Some ns /\ Forall2 (fun d n => pn_new d = Some n) ds ns.
Proof.
  induction ds as [|d r IH]; intros H.
  - exists []. split; [reflexivity|constructor].
  - inversion H; subst. destruct (IH H3) as (ns & E & F).
    destruct (proj2 (pn_new_accepts_iff d) H2) as [n En].
    exists (n :: ns). simpl. rewrite En, E. split; [reflexivity|constructor; auto].
Qed.

Lemma all_some_inv {A} : forall (l : list (option A)) ns, all_some l = Some ns -> l = map Some ns.
Proof.
  induction l as [|o r IH]; intros ns H; simpl in H.
  - inversion H. reflexivity.
  - destruct o as [x|]; [|discriminate]. destruct (all_some r) as [r'|] eqn:E; [|discriminate].
    inversion H; subst. simpl. rewrite (IH r' eq_refl). reflexivity.
Qed.

(* O1 at the level of dicts: a part built from note dicts the statement is about -- optional keys
   absent, carrying a sounding end not before the release, carrying stored ticks -- never fails,
   whatever the controls and the threshold, and holds the column the pedal computation gives *)
Lemma pp_new_total_lemma thr ds cs : Forall valid_dict ds ->
  exists ns, pp_new thr ds cs = Some ns /\
             map pn_so ns = sound_offs thr (map to_note ns) cs /\ Forall wf_note ns /\
             Forall2 (fun d n => pn_pitch n = d_pitch d /\ d_on d = Some (pn_on n) /\ d_off d = Some (pn_off n) /\
                                 pn_vel n = dflt (d_vel d) 60%Z /\ pn_ontick n = d_ontick d) ds ns.
Proof.
  intros H. destruct (all_some_valid ds H) as (ns0 & E & F).
  assert (W : Forall wf_note ns0).
  { clear E H. induction F as [|d n0 ds' ns0' Hn F IH]; constructor; [|exact IH]. apply pn_new_fields in Hn. tauto. }
  assert (T : Forall timed ns0) by (eapply Forall_impl; [|exact W]; apply wf_timed).
  destruct (recompute_total_lemma thr ns0 cs T) as (ns & R & A & B & C & D).
  exists ns. unfold pp_new. rewrite E, R. split; [reflexivity|]. split; [rewrite B; exact A|]. split; [exact C|].
  clear E R A C T W H. revert ns B D. induction F as [|d n0 ds' ns0' Hn F IH]; intros ns B D.
  - destruct ns; [constructor|discriminate].
  - destruct ns as [|n ns']; [discriminate|]. simpl in B, D.
    injection B as Q1 Q4 Q2 Q3 B2. injection D as D1 D2.
    constructor; [|apply IH; auto].
    apply pn_new_fields in Hn. destruct Hn as (P1 & P2 & P3 & _ & P5 & P6 & _).
    rewrite Q1, Q2, Q3, Q4, D1. repeat split; auto.
Qed.

(* the other direction: a part is built only from dicts that all pass the field checks *)
Lemma pp_new_some_valid thr ds cs ns : pp_new thr ds cs = Some ns -> Forall valid_dict ds.
Proof.
  unfold pp_new. destruct (all_some (map pn_new ds)) as [ns0|] eqn:E; [|discriminate]. intros _.
  apply all_some_inv in E. revert ns0 E. induction ds as [|d r IH]; intros ns0 E; [constructor|].
  destruct ns0 as [|n0 r0]; [discriminate|]. simpl in E. inversion E.
  constructor; [apply pn_new_accepts_iff; eauto|]. eapply IH; eauto.
Qed.

(* ---- edits *)
Lemma pn_set_timed n e n' : timed n -> pn_set n e = Some n' ->
  (forall v, e = EOn v -> v <= pn_off n) -> timed n'.
Proof.
  unfold timed. intros [T1 T2] H Hon. destruct e; simpl in H.
  - destruct (ok_on v) eqn:E; [|discriminate]. inversion H; subst. simpl.
    apply ok_on_iff in E. split; auto.
  - destruct (ok_off (pn_on n) v) eqn:E; [|discriminate]. inversion H; subst. simpl.
    apply (ok_off_iff _ _ T1) in E. split; auto.
  - destruct (ok_so (pn_off n) v); [|discriminate]. inversion H; subst. simpl. auto.
  - destruct (ok_vel v); [|discriminate]. inversion H; subst. simpl. auto.
  - destruct (ok_pitch v); [|discriminate]. inversion H; subst. auto.
  - destruct (ok_ontick v); [|discriminate]. inversion H; subst. simpl. auto.
  - destruct (ok_offtick (pn_ontick n) v); [|discriminate]. inversion H; subst. simpl. auto.
  - inversion H; subst. auto.
  - discriminate.
Qed.

Lemma In_firstn_l {A} : forall i (l : list A) x, In x (firstn i l) -> In x l.
Proof.
  induction i as [|i IH]; intros l x H; [destruct H|]. destruct l as [|a r]; [destruct H|].
  simpl in H. destruct H as [->|H]; [left; reflexivity|right; apply IH; exact H].
Qed.

Lemma In_skipn_l {A} : forall i (l : list A) x, In x (skipn i l) -> In x l.
Proof.
  induction i as [|i IH]; intros l x H; [exact H|]. destruct l as [|a r]; [destruct H|].
  simpl in H. right. apply IH. exact H.
Qed.

(* moving the release of a note (also beyond its stored sounding end, which is then stale and
   below the release) is accepted exactly when the new release is not before the onset; the
   next threshold assignment repairs every sounding end *)
Lemma release_edit_repaired_lemma thr ns cs i n v :
  Forall wf_note ns -> nth_error ns i = Some n -> pn_on n <= v ->
  exists n', pn_set n (EOff v) = Some n' /\
  let ns1 := firstn i ns ++ n' :: skipn (S i) ns in
  exists ns', recompute thr ns1 cs = Some ns' /\ Forall wf_note ns' /\
              map pn_so ns' = sound_offs thr (map to_note ns1) cs.
Proof.
  intros W Hn Hv.
  assert (Wn : wf_note n) by (rewrite Forall_forall in W; apply W; eapply nth_error_In; eauto).
  assert (E : ok_off (pn_on n) v = true) by (apply ok_off_iff; [destruct Wn; auto|exact Hv]).
  eexists. split; [simpl; rewrite E; reflexivity|]. intros ns1.
  assert (T : Forall timed ns1).
  { unfold ns1. apply Forall_app. split.
    - eapply Forall_impl; [apply wf_timed|]. apply Forall_forall. intros x Hx.
      rewrite Forall_forall in W. apply W. eapply In_firstn_l; exact Hx.
    - constructor.
      + unfold timed. simpl. destruct Wn as (A & _). split; auto.
      + eapply Forall_impl; [apply wf_timed|]. apply Forall_forall. intros x Hx.
        rewrite Forall_forall in W. apply W. eapply In_skipn_l; exact Hx. }
  destruct (recompute_total_lemma thr ns1 cs T) as (ns' & R & A & _ & C & _).
  exists ns'. auto.
Qed.

Definition ex_stale : pnote := mkPN 60 1 2 3 64 None None.
Lemma release_edit_example :
  pn_set ex_stale (EOff 5) = Some (mkPN 60 1 5 3 64 None None) /\
  ~ wf_note (mkPN 60 1 5 3 64 None None) /\
  recompute 64 [mkPN 60 1 5 3 64 None None] [mkCtrl 64 0 127; mkCtrl 64 7 0] = Some [mkPN 60 1 5 7 64 None None] /\
  pn_new (mkND 60 (Some 1) (Some 2) (Some 3) None (Some 480%Z) (Some 960%Z)) = Some (mkPN 60 1 2 3 60 (Some 480%Z) (Some 960%Z)) /\
  pn_new (mkND 60 (Some 1) (Some 2) (Some (3#2)) None None None) = None /\
  pn_new (mkND 60 (Some 2) (Some 2) None (Some 0%Z) None None) = Some (mkPN 60 2 2 2 0 None None).
Proof.
  repeat split; try (vm_compute; reflexivity).
  unfold wf_note. simpl. intros (_ & _ & H). revert H. vm_compute. intros H. apply H. reflexivity.
Qed.

(* ---- note_array rows of notes with stored ticks *)
Lemma na_row_n_plain ppq mpq n : ticks_consistent ppq mpq n ->
  na_row_n ppq mpq n = na_row ppq mpq (to_note n, pn_so n).
Proof.
  unfold ticks_consistent, na_row_n, na_row. intros H. simpl.
  destruct (pn_ontick n) as [k|]; [rewrite (H k eq_refl)|]; reflexivity.
Qed.

Lemma onset_tick_agrees_n_lemma ppq mpq n : ticks_consistent ppq mpq n ->
  Qabs (inject_Z (1000000 * ppq) * r_on (na_row_n ppq mpq n) / inject_Z mpq
        - inject_Z (r_on_tick (na_row_n ppq mpq n))) <= 1 # 2.
Proof. intros H. rewrite (na_row_n_plain _ _ _ H). apply onset_tick_agrees_lemma. Qed.

Lemma duration_tick_agrees_n_lemma ppq mpq n : ticks_consistent ppq mpq n -> pn_so n == pn_off n ->
  Qabs (inject_Z (1000000 * ppq) * r_dur (na_row_n ppq mpq n) / inject_Z mpq
        - inject_Z (r_dur_tick (na_row_n ppq mpq n))) <= 1.
Proof. intros H E. rewrite (na_row_n_plain _ _ _ H). apply duration_tick_agrees_lemma. exact E. Qed.

Lemma duration_sec_is_sounding_end_lemma ppq mpq n :
  r_on (na_row_n ppq mpq n) + r_dur (na_row_n ppq mpq n) == pn_so n.
Proof. unfold na_row_n. simpl. ring. Qed.

(* ---- from_note_array(note_array()) through the dict constructor: never fails on a well-formed
        part and gives back pitches, velocities, onsets and sounding ends *)
Lemma sound_offs_no_ctrl thr ns : sound_offs thr ns [] = map n_off ns.
Proof. reflexivity. Qed.

Lemma roundtrip_n_lemma ppq mpq ns :
  Forall wf_note ns -> Forall (fun n => (0 <= pn_pitch n <= 127)%Z /\ (0 <= pn_vel n <= 127)%Z) ns ->
  exists ns', from_note_array_n (note_array_n ppq mpq ns) = Some ns' /\
              Forall2 (fun n m => pn_pitch m = pn_pitch n /\ pn_vel m = pn_vel n /\ pn_on m = pn_on n /\
                                  pn_so m == pn_so n /\ pn_off m == pn_so n) ns ns'.
Proof.
  intros W R. unfold from_note_array_n.
  assert (V : Forall valid_dict (map dict_of_row (note_array_n ppq mpq ns))).
  { unfold note_array_n. rewrite map_map. apply Forall_forall. intros d Hd. apply in_map_iff in Hd.
    destruct Hd as (n & <- & Hn). rewrite Forall_forall in W, R.
    destruct (W n Hn) as (A & B & C). destruct (R n Hn) as (P & Q).
    unfold valid_dict, dict_of_row, na_row_n. simpl.
    split; [lia|]. split; [|split; [|split]].
    - intros v Hv. inversion Hv; subst. lia.
    - exists (pn_on n), (pn_on n + (pn_so n - pn_on n)). repeat split; auto; try lra.
      intros so Hso. inversion Hso; subst. lra.
    - intros k Hk. discriminate.
    - intros k v Hk. discriminate. }
  destruct (pp_new_total_lemma 64 _ [] V) as (ns' & E & A & _ & F).
  exists ns'. split; [exact E|]. rewrite sound_offs_no_ctrl, map_map in A.
  clear E V W R. unfold note_array_n in F. rewrite map_map in F.
  revert ns' A F. induction ns as [|n r IH]; intros ns' A F.
  - inversion F; subst. constructor.
  - destruct ns' as [|m r']; [inversion F|]. simpl in F. inversion F as [|? ? ? ? Hd Hr]; subst.
    simpl in A. injection A as A1 A2.
    constructor; [|apply IH; auto].
    destruct Hd as (P1 & P2 & P3 & P4 & _). simpl in P1, P2, P3, P4.
    injection P2 as P2. injection P3 as P3. repeat split; auto.
    + rewrite A1, <- P3. ring.
    + rewrite <- P3. ring.
Qed.

(* ---- controllers other than the sustain pedal (number 64) *)
Lemma pedal_events_idem cs : pedal_events (pedal_events cs) = pedal_events cs.
Proof.
  unfold pedal_events. induction cs as [|c r IH]; simpl; auto.
  destruct (is_pedal c) eqn:E; simpl; [rewrite E, IH|]; auto.
Qed.

Lemma other_controllers_ignored_lemma thr ns cs :
  sound_offs thr ns cs = sound_offs thr ns (pedal_events cs).
Proof. unfold sound_offs, sorted_pedal. rewrite pedal_events_idem. reflexivity. Qed.

Lemma pedal_events_app a b : pedal_events (a ++ b) = pedal_events a ++ pedal_events b.
Proof. unfold pedal_events. apply filter_app. Qed.

(* controllers other than 64 may be interleaved anywhere *)
Lemma other_controllers_interleaved_lemma thr ns cs cs' :
  pedal_events cs = pedal_events cs' -> sound_offs thr ns cs = sound_offs thr ns cs'.
Proof.
  intros H. rewrite (other_controllers_ignored_lemma thr ns cs), (other_controllers_ignored_lemma thr ns cs'), H. reflexivity.
Qed.
