(* C09 -- the path search of Model.C09 (unfold / get_paths) on "simple repeat tables":
   segment i has id i, nothing awaiting, is no leap start, and continues to the next segment
   (END after the last one), preceded by a jump back to itself when it is a repeated section.
   For every such table (by induction on the flag list, not by enumeration):
     - the default search returns exactly the 2^r play-through combinations, in search order,
       without duplicates                                   (all_paths_simple, count_simple)
     - all_repeats returns the single maximal path          (maximal_simple)
     - no_repeats returns the single minimal path           (minimal_simple)
     - a score without any structure has the single path [A] (no_structure_single_path). *)
From PV Require Import Lib.Base Model.C09.
From Coq Require Import ZArith List Bool Lia.
Import ListNotations.
#[local] Open Scope Z_scope.

Definition nxt (n i : Z) : Z := if i + 1 =? n then END else i + 1.

(* g is a simple table for flags bs *)
Definition simple_table (g : list seg) (bs : list bool) : Prop :=
  length g = length bs /\
  forall i s, nth_error g i = Some s ->
    s_id s = Z.of_nat i /\ s_await s = [] /\ s_type s <> TLEAP_START /\
    s_to s = (if nth i bs false then [Z.of_nat i; nxt (Z.of_nat (length bs)) (Z.of_nat i)]
              else [nxt (Z.of_nat (length bs)) (Z.of_nat i)]).

(* suffixes from segment i on, flags of segments i.. : repeated first, then not (the search order) *)
Fixpoint sfx (i : Z) (bs : list bool) : list (list Z) :=
  match bs with
  | [] => [[]]
  | b :: r => (if b then map (fun q => i :: i :: q) (sfx (i + 1) r) else [])
              ++ map (fun q => i :: q) (sfx (i + 1) r)
  end.
Fixpoint maxsfx (i : Z) (bs : list bool) : list Z :=
  match bs with [] => [] | b :: r => (if b then [i; i] else [i]) ++ maxsfx (i + 1) r end.
Fixpoint minsfx (i : Z) (bs : list bool) : list Z :=
  match bs with [] => [] | b :: r => i :: minsfx (i + 1) r end.
Definition nrep (bs : list bool) : nat := length (filter (fun b => b) bs).

(* the three searches at once: norep wins over allrep, as in the implementation *)
Fixpoint gsfx (nr ar : bool) (i : Z) (bs : list bool) : list (list Z) :=
  match bs with
  | [] => [[]]
  | b :: r =>
      (if b && negb nr then map (fun q => i :: i :: q) (gsfx nr ar (i + 1) r) else []) ++
      (if b && negb nr && ar then [] else map (fun q => i :: q) (gsfx nr ar (i + 1) r))
  end.

Lemma gsfx_all i bs : gsfx false false i bs = sfx i bs.
Proof. revert i; induction bs as [|b r IH]; intros i; simpl; [reflexivity|]. rewrite IH. destruct b; reflexivity. Qed.

Lemma gsfx_max i bs : gsfx false true i bs = [maxsfx i bs].
Proof. revert i; induction bs as [|b r IH]; intros i; simpl; [reflexivity|]. rewrite IH. destruct b; reflexivity. Qed.

Lemma gsfx_min i bs : gsfx true false i bs = [minsfx i bs].
Proof. revert i; induction bs as [|b r IH]; intros i; simpl; [reflexivity|]. rewrite IH. destruct b; reflexivity. Qed.

(* ------------------------------------------------------------------ *)
(* unfold, one level at a time *)

Definition step (f : nat) (ign : bool) (st : pstate) (d : Z) : option (list (list Z)) :=
  if d =? END then Some [p_path st]
  else match find_seg d (p_segs st) with
       | None => None
       | Some _ => C09.unfold f ign (jump ign st d)
       end.

Fixpoint go_list (F : Z -> option (list (list Z))) (ds : list Z) : option (list (list Z)) :=
  match ds with
  | [] => Some []
  | d :: r => match F d with
              | None => None
              | Some a => match go_list F r with Some b => Some (a ++ b) | None => None end
              end
  end.

Lemma unfold_S f ign st :
  C09.unfold (S f) ign st =
  match dests st with None => None | Some ds => go_list (step f ign st) ds end.
Proof.
  simpl. destruct (dests st) as [ds|]; [|reflexivity].
  induction ds as [|d r IH]; [reflexivity|].
  simpl go_list. rewrite <- IH. reflexivity.
Qed.

(* ------------------------------------------------------------------ *)
(* small facts *)

Lemma zlast_app P x : zlast (P ++ [x]) = x.
Proof. unfold zlast. apply last_last. Qed.

Lemma find_seg_nat g k : find_seg (Z.of_nat k) g = nth_error g k.
Proof. unfold find_seg. destruct (Z.of_nat k <? 0) eqn:E; [lia|]. rewrite Nat2Z.id. reflexivity. Qed.

Lemma used_of_append_same i d u : used_of i (used_append i d u) = used_of i u ++ [d].
Proof.
  unfold used_of. induction u as [|[k l] u IH]; simpl.
  - rewrite Z.eqb_refl. reflexivity.
  - destruct (i =? k) eqn:E; simpl; rewrite E; auto.
Qed.

Lemma used_of_append_other j i d u : j <> i -> used_of j (used_append i d u) = used_of j u.
Proof.
  intros Hn. unfold used_of. induction u as [|[k l] u IH]; simpl.
  - destruct (j =? i) eqn:E; [lia|reflexivity].
  - destruct (i =? k) eqn:E; simpl; destruct (j =? k) eqn:E2; auto; lia.
Qed.

Lemma skipn_cons_inv {A} k : forall (l : list A) b r,
  skipn k l = b :: r ->
  nth_error l k = Some b /\ skipn (S k) l = r /\ length l = (k + S (length r))%nat.
Proof.
  induction k as [|k IH]; intros l b r H.
  - simpl in H. subst l. simpl. auto.
  - destruct l as [|a l]; [discriminate|]. simpl in H. apply IH in H. destruct H as (H1 & H2 & H3).
    simpl nth_error. simpl length. repeat split; auto. lia.
Qed.

Lemma nonempty_cons {A} (l : list A) : l <> [] -> exists b r, l = b :: r.
Proof. destruct l as [|b r]; [congruence|eauto]. Qed.

Definition nx_of (r : list bool) (i : Z) : Z := match r with [] => END | _ => i + 1 end.

Lemma nx_of_neq r i : 0 <= i -> nx_of r i <> i.
Proof. destruct r; unfold nx_of, END; lia. Qed.

Lemma map_app1 pre (i : Z) X :
  map (app (pre ++ [i])) X = map (app pre) (map (fun q => i :: q) X).
Proof. rewrite map_map. apply map_ext. intros q. rewrite <- app_assoc. reflexivity. Qed.

Lemma map_app2 pre (i : Z) X :
  map (app ((pre ++ [i]) ++ [i])) X = map (app pre) (map (fun q => i :: i :: q) X).
Proof. rewrite map_map. apply map_ext. intros q. rewrite <- !app_assoc. reflexivity. Qed.

(* ------------------------------------------------------------------ *)
Section Simple.
Variables (g : list seg) (bs : list bool) (ign : bool).
Hypothesis HT : simple_table g bs.

Lemma seg_at k b r : skipn k bs = b :: r ->
  exists s, nth_error g k = Some s /\
            s_to s = (if b then [Z.of_nat k; nx_of r (Z.of_nat k)] else [nx_of r (Z.of_nat k)]).
Proof.
  intros Hs. apply skipn_cons_inv in Hs. destruct Hs as (Hn & _ & Hl).
  destruct HT as [HL HS].
  destruct (nth_error g k) as [s|] eqn:E.
  2:{ apply nth_error_None in E. lia. }
  exists s. split; [reflexivity|].
  destruct (HS k s E) as (_ & _ & _ & Hto). rewrite Hto.
  rewrite (nth_error_nth _ _ false Hn).
  assert (Hx : nxt (Z.of_nat (length bs)) (Z.of_nat k) = nx_of r (Z.of_nat k)).
  { unfold nxt, nx_of. rewrite Hl. destruct r as [|b' r']; simpl length;
      destruct (Z.of_nat k + 1 =? _) eqn:E2; try lia; reflexivity. }
  rewrite Hx. reflexivity.
Qed.

Lemma no_leap id : (seg_type id g =? TLEAP_START) = false.
Proof.
  unfold seg_type, find_seg. destruct (id <? 0); [reflexivity|].
  destruct (nth_error g (Z.to_nat id)) as [s|] eqn:E; [|reflexivity].
  destruct HT as [_ HS]. destruct (HS _ _ E) as (_ & _ & Hty & _).
  apply Z.eqb_neq. assumption.
Qed.

Lemma jump_simple P u jb nr ar d :
  jump ign (mkP P u jb nr ar g) d = mkP (P ++ [d]) (used_append (zlast P) d u) jb nr ar g.
Proof. unfold jump. simpl. rewrite no_leap, andb_false_r. reflexivity. Qed.

Lemma dests_fresh k s P u jb nr ar :
  zlast P = Z.of_nat k -> nth_error g k = Some s -> used_of (Z.of_nat k) u = [] ->
  dests (mkP P u jb nr ar g) =
  if nr then match s_to s with [] => None | _ => Some [zlast (s_to s)] end
  else if ar then match s_to s with [] => None | x :: _ => Some [x] end
  else Some (s_to s).
Proof.
  intros HP E U. unfold dests. simpl. rewrite HP, find_seg_nat, E, U. reflexivity.
Qed.

Lemma dests_second k s P u jb ar nx :
  zlast P = Z.of_nat k -> nth_error g k = Some s ->
  s_to s = [Z.of_nat k; nx] -> nx <> Z.of_nat k ->
  used_of (Z.of_nat k) u = [Z.of_nat k] ->
  dests (mkP P u jb false ar g) = Some [nx].
Proof.
  intros HP E Hto Hn U. unfold dests. simpl. rewrite HP, find_seg_nat, E, U, Hto.
  revert Hn. generalize (Z.of_nat k). intros i Hn.
  unfold last_dest_index. simpl. rewrite Z.eqb_refl.
  destruct (i =? nx) eqn:E2; [lia|]. destruct ar; reflexivity.
Qed.

Definition RecH (nr ar : bool) (r : list bool) (k : nat) : Prop :=
  forall b' r', r = b' :: r' -> forall pre u jb fuel,
    (forall j, Z.of_nat (S k) <= j -> used_of j u = []) ->
    (2 * length r <= fuel)%nat ->
    C09.unfold fuel ign (mkP (pre ++ [Z.of_nat (S k)]) u jb nr ar g) =
    Some (map (app pre) (gsfx nr ar (Z.of_nat (S k)) r)).

(* leaving segment k by its forward destination *)
Lemma cont nr ar k b r P u jb f :
  skipn k bs = b :: r ->
  zlast P = Z.of_nat k ->
  (forall j, Z.of_nat k + 1 <= j -> used_of j u = []) ->
  RecH nr ar r k ->
  (2 * length r <= f)%nat ->
  step f ign (mkP P u jb nr ar g) (nx_of r (Z.of_nat k)) =
  Some (map (app P) (gsfx nr ar (Z.of_nat k + 1) r)).
Proof.
  intros Hs HP HU Hrec Hf. destruct r as [|b' r'].
  - simpl. unfold step. simpl. rewrite app_nil_r. reflexivity.
  - unfold step, nx_of. destruct (Z.of_nat k + 1 =? END) eqn:E; [unfold END in E; lia|].
    cbn [p_segs p_path].
    replace (Z.of_nat k + 1) with (Z.of_nat (S k)) by lia.
    rewrite find_seg_nat.
    destruct (seg_at (S k) b' r') as (s' & E' & _).
    { apply skipn_cons_inv in Hs. tauto. }
    rewrite E'. rewrite jump_simple. rewrite HP.
    apply (Hrec b' r' eq_refl); [|assumption].
    intros j Hj. rewrite used_of_append_other by lia. apply HU. lia.
Qed.

Lemma main_step nr ar r k b pre u jb fuel :
  RecH nr ar r k ->
  skipn k bs = b :: r ->
  (forall j, Z.of_nat k <= j -> used_of j u = []) ->
  (2 * length (b :: r) <= fuel)%nat ->
  C09.unfold fuel ign (mkP (pre ++ [Z.of_nat k]) u jb nr ar g) =
  Some (map (app pre) (gsfx nr ar (Z.of_nat k) (b :: r))).
Proof.
  intros Hrec Hs HU Hf.
  destruct (seg_at k b r Hs) as (s & E & Hto).
  assert (HP : zlast (pre ++ [Z.of_nat k]) = Z.of_nat k) by apply zlast_app.
  assert (HU0 : used_of (Z.of_nat k) u = []) by (apply HU; lia).
  simpl length in Hf.
  destruct fuel as [|f]; [lia|]. rewrite unfold_S.
  rewrite (dests_fresh k s _ u jb nr ar HP E HU0).
  cbn [gsfx].
  destruct (b && negb nr) eqn:Hb.
  - (* repeated section, played twice *)
    apply andb_true_iff in Hb. destruct Hb as [Hb1 Hb2]. subst b.
    destruct nr; [discriminate|]. clear Hb2.
    rewrite Hto.
    destruct f as [|f']; [lia|].
    assert (Hsec : step (S f') ign (mkP (pre ++ [Z.of_nat k]) u jb false ar g) (Z.of_nat k) =
                   Some (map (app ((pre ++ [Z.of_nat k]) ++ [Z.of_nat k]))
                             (gsfx false ar (Z.of_nat k + 1) r))).
    { unfold step. destruct (Z.of_nat k =? END) eqn:E1; [unfold END in E1; lia|].
      cbn [p_segs p_path]. rewrite find_seg_nat, E. rewrite jump_simple, HP.
      rewrite unfold_S.
      rewrite (dests_second k s _ _ jb ar (nx_of r (Z.of_nat k))); auto.
      - simpl go_list. rewrite (cont false ar k true r); auto.
        + rewrite app_nil_r. reflexivity.
        + apply zlast_app.
        + intros j Hj. rewrite used_of_append_other by lia. apply HU. lia.
        + lia.
      - apply zlast_app.
      - apply nx_of_neq. lia.
      - rewrite used_of_append_same, HU0. reflexivity. }
    destruct ar.
    + simpl go_list. rewrite Hsec. rewrite !app_nil_r. rewrite map_app2. reflexivity.
    + simpl go_list. rewrite Hsec.
      rewrite (cont false false k true r); auto.
      * rewrite app_nil_r, map_app, map_app2, map_app1. reflexivity.
      * intros j Hj. apply HU. lia.
      * lia.
  - (* played once *)
    assert (Hd : (if nr then match s_to s with [] => None | _ => Some [zlast (s_to s)] end
                  else if ar then match s_to s with [] => None | x :: _ => Some [x] end
                  else Some (s_to s)) = Some [nx_of r (Z.of_nat k)]).
    { rewrite Hto. destruct b, nr; try discriminate; try reflexivity. destruct ar; reflexivity. }
    rewrite Hd. simpl go_list.
    rewrite (cont nr ar k b r); auto.
    + rewrite app_nil_r, map_app1. reflexivity.
    + intros j Hj. apply HU. lia.
    + lia.
Qed.

Lemma main nr ar : forall r k b pre u jb fuel,
  skipn k bs = b :: r ->
  (forall j, Z.of_nat k <= j -> used_of j u = []) ->
  (2 * length (b :: r) <= fuel)%nat ->
  C09.unfold fuel ign (mkP (pre ++ [Z.of_nat k]) u jb nr ar g) =
  Some (map (app pre) (gsfx nr ar (Z.of_nat k) (b :: r))).
Proof.
  induction r as [|b' r' IH]; intros k b pre u jb fuel Hs HU Hf.
  - apply main_step; auto. intros b'' r'' Heq. discriminate.
  - apply main_step; auto. intros b'' r'' Heq. injection Heq as <- <-.
    intros pre' u' jb' fuel' HU' Hf'. apply IH; auto.
    apply skipn_cons_inv in Hs. tauto.
Qed.

Lemma get_paths_gsfx nr ar fuel : bs <> [] -> (2 * length bs <= fuel)%nat ->
  get_paths fuel g nr ar ign = Some (gsfx nr ar 0 bs).
Proof.
  intros Hne Hf. destruct (nonempty_cons bs Hne) as (b & r & Ebs).
  unfold get_paths, init_path.
  change [0] with ([] ++ [Z.of_nat 0]).
  rewrite (main nr ar r 0 b [] [] false fuel).
  - rewrite Ebs. f_equal. rewrite map_ext with (g := fun x => x) by reflexivity. apply map_id.
  - exact Ebs.
  - intros j _. reflexivity.
  - rewrite <- Ebs. assumption.
Qed.

End Simple.

(* ------------------------------------------------------------------ *)
(* the shape of the answer *)

Lemma sfx_length i bs : length (sfx i bs) = Nat.pow 2 (nrep bs).
Proof.
  revert i; induction bs as [|b r IH]; intros i; [reflexivity|].
  simpl sfx. rewrite app_length, map_length, IH.
  destruct b.
  - rewrite map_length, IH. unfold nrep. simpl. lia.
  - reflexivity.
Qed.

Lemma sfx_head i bs q : In q (sfx i bs) -> hd i q = i.
Proof.
  destruct bs as [|b r]; simpl.
  - intros [<-|[]]. reflexivity.
  - rewrite in_app_iff. intros [H|H].
    + destruct b; [|destruct H]. apply in_map_iff in H. destruct H as (t & <- & _). reflexivity.
    + apply in_map_iff in H. destruct H as (t & <- & _). reflexivity.
Qed.

Lemma NoDup_app_intro {A} (l1 l2 : list A) :
  NoDup l1 -> NoDup l2 -> (forall x, In x l1 -> In x l2 -> False) -> NoDup (l1 ++ l2).
Proof.
  induction l1 as [|a l1 IH]; simpl; intros H1 H2 H; [assumption|].
  inversion H1; subst. constructor.
  - rewrite in_app_iff. intros [Hi|Hi]; [auto|]. eapply H; eauto.
  - apply IH; auto. intros x Hx1 Hx2. eapply H; eauto.
Qed.

Lemma NoDup_map_cons {A} (a : A) l : NoDup l -> NoDup (map (cons a) l).
Proof.
  induction 1 as [|x l Hx Hl IH]; simpl; constructor; auto.
  intros Hi. apply in_map_iff in Hi. destruct Hi as (y & Hy & Hin). injection Hy as ->. auto.
Qed.

Lemma sfx_NoDup i bs : NoDup (sfx i bs).
Proof.
  revert i; induction bs as [|b r IH]; intros i; simpl.
  - constructor; [intros []|constructor].
  - destruct b; simpl.
    + apply NoDup_app_intro.
      * rewrite <- map_map with (f := cons i) (g := cons i).
        apply NoDup_map_cons, NoDup_map_cons, IH.
      * apply NoDup_map_cons, IH.
      * intros x H1 H2. apply in_map_iff in H1. destruct H1 as (q1 & <- & Hq1).
        apply in_map_iff in H2. destruct H2 as (q2 & Hq & Hq2). injection Hq as Hq.
        apply sfx_head in Hq2. subst q2. simpl in Hq2. lia.
    + apply NoDup_map_cons, IH.
Qed.

(* ------------------------------------------------------------------ *)
(* theorems *)

Theorem all_paths_simple : forall g bs ign fuel, simple_table g bs -> bs <> [] ->
  (2 * length bs + 1 <= fuel)%nat ->
  get_paths fuel g false false ign = Some (sfx 0 bs).
Proof.
  intros g bs ign fuel HT Hne Hf. rewrite (get_paths_gsfx g bs ign HT) by (auto; lia).
  rewrite gsfx_all. reflexivity.
Qed.

Theorem count_simple : forall g bs ign fuel, simple_table g bs -> bs <> [] ->
  (2 * length bs + 1 <= fuel)%nat ->
  exists ps, get_paths fuel g false false ign = Some ps /\
             length ps = Nat.pow 2 (nrep bs) /\ NoDup ps.
Proof.
  intros g bs ign fuel HT Hne Hf. exists (sfx 0 bs). split; [|split].
  - apply all_paths_simple; auto.
  - apply sfx_length.
  - apply sfx_NoDup.
Qed.

(* every repeated section twice, the others once, in order *)
Theorem maximal_simple : forall g bs ign fuel, simple_table g bs -> bs <> [] ->
  (2 * length bs + 1 <= fuel)%nat ->
  get_paths fuel g false true ign = Some [maxsfx 0 bs].
Proof.
  intros g bs ign fuel HT Hne Hf. rewrite (get_paths_gsfx g bs ign HT) by (auto; lia).
  rewrite gsfx_max. reflexivity.
Qed.

(* every section once *)
Theorem minimal_simple : forall g bs ign fuel, simple_table g bs -> bs <> [] ->
  (2 * length bs + 1 <= fuel)%nat ->
  get_paths fuel g true false ign = Some [minsfx 0 bs].
Proof.
  intros g bs ign fuel HT Hne Hf. rewrite (get_paths_gsfx g bs ign HT) by (auto; lia).
  rewrite gsfx_min. reflexivity.
Qed.

Theorem no_structure_single_path : forall g ign fuel nr ar, simple_table g [false] ->
  (3 <= fuel)%nat ->
  get_paths fuel g nr ar ign = Some [[0]].
Proof.
  intros g ign fuel nr ar HT Hf. rewrite (get_paths_gsfx g [false] ign HT).
  - reflexivity.
  - discriminate.
  - simpl. lia.
Qed.

(* ------------------------------------------------------------------ *)
(* the hypotheses are satisfiable: |: A :| B |: C :| *)

Definition g3 : list seg :=
  [ mkSeg 0 0 4 [0; 1] [] TLEAP_END;
    mkSeg 1 4 8 [2] [] TDEFAULT;
    mkSeg 2 8 12 [2; END] [] TDEFAULT ].

Example g3_simple : simple_table g3 [true; false; true].
Proof.
  split; [reflexivity|].
  intros i s H.
  destruct i as [|[|[|i]]]; simpl in H.
  - injection H as <-. simpl. repeat split; discriminate.
  - injection H as <-. simpl. repeat split; discriminate.
  - injection H as <-. simpl. repeat split; discriminate.
  - destruct i; discriminate.
Qed.

Example g3_paths :
  get_paths 64 g3 false false true = Some [[0;0;1;2;2];[0;0;1;2];[0;1;2;2];[0;1;2]].
Proof. vm_compute. reflexivity. Qed.

Example g3_paths_by_theorem : forall ign,
  get_paths 64 g3 false false ign = Some [[0;0;1;2;2];[0;0;1;2];[0;1;2;2];[0;1;2]].
Proof.
  intros ign. rewrite (all_paths_simple g3 [true; false; true] ign 64 g3_simple).
  - reflexivity.
  - discriminate.
  - simpl. lia.
Qed.
