(* C17 (3/3) -- proofs about the key estimation model (Model/C17_Key.v). *)
From PV Require Import Lib.Base Gen.C17_KeyTab Model.C17_Key Proofs.C17_lib.
#[local] Open Scope Z_scope.

(* ------------------------------------------------------------------ *)
(* argmax *)

Lemma argmax_by_in : forall lt cands best, In (argmax_by lt cands best) (best :: cands).
Proof.
  intros lt cands. induction cands as [|x r IH]; intros best; cbn [argmax_by]; [left; reflexivity|].
  specialize (IH (if lt best x then x else best)).
  destruct IH as [H|H]; [|right; right; exact H].
  destruct (lt best x); [right; left | left]; exact H.
Qed.

Lemma argmax_by_ext : forall lt lt' cands best,
  (forall a b, lt a b = lt' a b) -> argmax_by lt cands best = argmax_by lt' cands best.
Proof.
  intros lt lt' cands. induction cands as [|x r IH]; intros best H; cbn [argmax_by]; [reflexivity|].
  rewrite H. apply IH. exact H.
Qed.

Definition asym (lt : Z -> Z -> bool) : Prop := forall a b, lt a b = true -> lt b a = false.

(* i beats every other index of 0..23 *)
Definition unique_max (lt : Z -> Z -> bool) (i : Z) : Prop :=
  0 <= i < 24 /\ forall k, 0 <= k < 24 -> k <> i -> lt k i = true.

Lemma argmax_by_unique_gen : forall lt i, asym lt -> unique_max lt i ->
  forall cands best, (forall x, In x (best :: cands) -> 0 <= x < 24) -> In i (best :: cands) ->
  argmax_by lt cands best = i.
Proof.
  intros lt i A [Hi U] cands. induction cands as [|x r IH]; intros best R Hin; cbn [argmax_by].
  - destruct Hin as [H|[]]. exact H.
  - assert (Irr : lt i i = false).
    { destruct (lt i i) eqn:E; [|reflexivity]. rewrite (A _ _ E) in E. discriminate. }
    apply IH.
    + intros y [Hy|Hy].
      * subst y. destruct (lt best x); apply R; [right; left | left]; reflexivity.
      * apply R. right. right. exact Hy.
    + destruct Hin as [H|[H|H]].
      * subst best. destruct (Z.eq_dec x i) as [->|Ne].
        -- rewrite Irr. left. reflexivity.
        -- rewrite (A x i (U x (R x (or_intror (or_introl eq_refl))) Ne)). left. reflexivity.
      * subst x. destruct (Z.eq_dec best i) as [->|Ne].
        -- rewrite Irr. left. reflexivity.
        -- rewrite (U best (R best (or_introl eq_refl)) Ne). left. reflexivity.
      * right. exact H.
Qed.

Lemma zrange_bounds : forall x, In x (0 :: zrange 1 23) <-> 0 <= x < 24.
Proof.
  intros x. split.
  - intros [<-|H]; [lia|]. apply zrange_In_inv in H. lia.
  - intros H. destruct (Z.eq_dec x 0) as [->|Ne]; [left; reflexivity|]. right. apply zrange_In. lia.
Qed.

Lemma argmax_by_unique : forall lt i, asym lt -> unique_max lt i -> argmax_by lt (zrange 1 23) 0 = i.
Proof.
  intros lt i A U. apply argmax_by_unique_gen; auto.
  - intros x Hx. apply zrange_bounds. exact Hx.
  - apply zrange_bounds. destruct U as [Hi _]. exact Hi.
Qed.

(* ------------------------------------------------------------------ *)
(* the comparison of correlations *)

Lemma score_lt_asym : forall a b c d, score_lt a b c d = true -> score_lt c d a b = false.
Proof.
  intros a b c d. unfold score_lt.
  destruct (a <? 0) eqn:E1; destruct (c <? 0) eqn:E2; try discriminate; try reflexivity.
  - intros H. zb. apply Z.ltb_ge. lia.
  - intros H. zb. apply Z.ltb_ge. lia.
Qed.

Lemma key_lt_asym : forall M x, asym (key_lt M x).
Proof. intros M x a b. unfold key_lt. apply score_lt_asym. Qed.

Lemma ltb_iff : forall x y x' y', (x < y <-> x' < y') -> (x <? y) = (x' <? y').
Proof.
  intros x y x' y' H. destruct (x <? y) eqn:E1; destruct (x' <? y') eqn:E2; auto; zb; lia.
Qed.

(* proportional first arguments (a*A = b*A', a, b > 0) compare alike *)
Lemma sq_scale : forall a b A A' d, a * A = b * A' -> a * a * (A * A * d) = b * b * (A' * A' * d).
Proof.
  intros a b A A' d H.
  replace (a * a * (A * A * d)) with ((a * A) * (a * A) * d) by ring.
  rewrite H. ring.
Qed.

Lemma sign_scale : forall a b A A', 0 < a -> 0 < b -> a * A = b * A' -> (A <? 0) = (A' <? 0).
Proof.
  intros a b A A' Ha Hb H. apply ltb_iff. split; intros H1.
  - assert (b * A' < 0) by (rewrite <- H; apply Z.mul_pos_neg; assumption).
    destruct (Z.lt_ge_cases A' 0) as [L|G]; [exact L|]. pose proof (Z.mul_nonneg_nonneg b A' ltac:(lia) G). lia.
  - assert (a * A < 0) by (rewrite H; apply Z.mul_pos_neg; assumption).
    destruct (Z.lt_ge_cases A 0) as [L|G]; [exact L|]. pose proof (Z.mul_nonneg_nonneg a A ltac:(lia) G). lia.
Qed.

Lemma lt_scale : forall a b x y x' y', 0 < a -> 0 < b ->
  a * a * x = b * b * x' -> a * a * y = b * b * y' -> (x <? y) = (x' <? y').
Proof.
  intros a b x y x' y' Ha Hb Hx Hy. apply ltb_iff.
  assert (Haa : 0 < a * a) by (apply Z.mul_pos_pos; assumption).
  assert (Hbb : 0 < b * b) by (apply Z.mul_pos_pos; assumption).
  rewrite (Z.mul_lt_mono_pos_l (a * a) x y Haa), Hx, Hy.
  rewrite <- (Z.mul_lt_mono_pos_l (b * b) x' y' Hbb). reflexivity.
Qed.

Lemma score_lt_scale : forall a b A A' C C' v w, 0 < a -> 0 < b ->
  a * A = b * A' -> a * C = b * C' -> score_lt A v C w = score_lt A' v C' w.
Proof.
  intros a b A A' C C' v w Ha Hb HA HC. unfold score_lt.
  rewrite (sign_scale a b A A' Ha Hb HA), (sign_scale a b C C' Ha Hb HC).
  rewrite (lt_scale a b (C * C * v) (A * A * w) (C' * C' * v) (A' * A' * w) Ha Hb
             (sq_scale a b C C' v HC) (sq_scale a b A A' w HA)).
  rewrite (lt_scale a b (A * A * w) (C * C * v) (A' * A' * w) (C' * C' * v) Ha Hb
             (sq_scale a b A A' w HA) (sq_scale a b C C' v HC)).
  reflexivity.
Qed.

(* ------------------------------------------------------------------ *)
(* sums over the twelve pitch classes *)

Lemma sum12_ext : forall f g, (forall pc, 0 <= pc < 12 -> f pc = g pc) -> sum12 f = sum12 g.
Proof.
  intros f g H. unfold sum12.
  rewrite (H 0), (H 1), (H 2), (H 3), (H 4), (H 5), (H 6), (H 7), (H 8), (H 9), (H 10), (H 11) by lia.
  reflexivity.
Qed.

Lemma ky_cov_ext : forall x x' y y',
  (forall pc, 0 <= pc < 12 -> x pc = x' pc) -> (forall pc, 0 <= pc < 12 -> y pc = y' pc) ->
  ky_cov x y = ky_cov x' y'.
Proof.
  intros x x' y y' Hx Hy. unfold ky_cov.
  rewrite (sum12_ext x x' Hx), (sum12_ext y y' Hy).
  rewrite (sum12_ext (fun i => x i * y i) (fun i => x' i * y' i)); [reflexivity|].
  intros pc Hpc. cbv beta. rewrite (Hx pc Hpc), (Hy pc Hpc). reflexivity.
Qed.

Lemma ky_cov_scale : forall a b x x' y,
  (forall pc, 0 <= pc < 12 -> a * x pc = b * x' pc) -> a * ky_cov x y = b * ky_cov x' y.
Proof.
  intros a b x x' y H. unfold ky_cov, sum12.
  pose proof (H 0 ltac:(lia)). pose proof (H 1 ltac:(lia)). pose proof (H 2 ltac:(lia)).
  pose proof (H 3 ltac:(lia)). pose proof (H 4 ltac:(lia)). pose proof (H 5 ltac:(lia)).
  pose proof (H 6 ltac:(lia)). pose proof (H 7 ltac:(lia)). pose proof (H 8 ltac:(lia)).
  pose proof (H 9 ltac:(lia)). pose proof (H 10 ltac:(lia)). pose proof (H 11 ltac:(lia)).
  transitivity (12 * ((a * x 0) * y 0 + (a * x 1) * y 1 + (a * x 2) * y 2 + (a * x 3) * y 3 + (a * x 4) * y 4
                      + (a * x 5) * y 5 + (a * x 6) * y 6 + (a * x 7) * y 7 + (a * x 8) * y 8 + (a * x 9) * y 9
                      + (a * x 10) * y 10 + (a * x 11) * y 11)
                - (a * x 0 + a * x 1 + a * x 2 + a * x 3 + a * x 4 + a * x 5 + a * x 6 + a * x 7 + a * x 8
                   + a * x 9 + a * x 10 + a * x 11)
                  * (y 0 + y 1 + y 2 + y 3 + y 4 + y 5 + y 6 + y 7 + y 8 + y 9 + y 10 + y 11)); [ring|].
  repeat match goal with E : a * x ?k = b * x' ?k |- _ => rewrite E; clear E end. ring.
Qed.

(* re-indexing a sum over Z/12 by a rotation *)
Lemma sum12_shift : forall f j, sum12 (fun pc => f ((pc - j) mod 12)) = sum12 f.
Proof.
  intros f j.
  assert (H : forall pc, (pc - j) mod 12 = (pc - j mod 12) mod 12)
    by (intros; rewrite Zminus_mod_idemp_r; reflexivity).
  unfold sum12.
  rewrite (H 0), (H 1), (H 2), (H 3), (H 4), (H 5), (H 6), (H 7), (H 8), (H 9), (H 10), (H 11).
  pose proof (Z.mod_pos_bound j 12 ltac:(lia)) as Hb.
  assert (C : j mod 12 = 0 \/ j mod 12 = 1 \/ j mod 12 = 2 \/ j mod 12 = 3 \/ j mod 12 = 4 \/ j mod 12 = 5 \/
              j mod 12 = 6 \/ j mod 12 = 7 \/ j mod 12 = 8 \/ j mod 12 = 9 \/ j mod 12 = 10 \/ j mod 12 = 11) by lia.
  clear H Hb.
  destruct C as [E|[E|[E|[E|[E|[E|[E|[E|[E|[E|[E|E]]]]]]]]]]]; rewrite E;
    repeat match goal with |- context [(?a - ?b) mod 12] =>
      let v := eval vm_compute in ((a - b) mod 12) in change ((a - b) mod 12) with v end;
    ring.
Qed.

Lemma ky_cov_shift : forall x y j,
  ky_cov (fun pc => x ((pc - j) mod 12)) (fun pc => y ((pc - j) mod 12)) = ky_cov x y.
Proof.
  intros x y j. unfold ky_cov.
  rewrite (sum12_shift x j), (sum12_shift y j).
  rewrite (sum12_shift (fun q => x q * y q) j). reflexivity.
Qed.

(* ------------------------------------------------------------------ *)
(* 1. the result is one of the 24 names *)

Lemma key_names_length : List.length key_names = 24%nat.
Proof. vm_compute. reflexivity. Qed.

Lemma estimate_key_idx_range : forall M ns, 0 <= estimate_key_idx M ns < 24.
Proof.
  intros M ns. unfold estimate_key_idx. apply zrange_bounds. apply argmax_by_in.
Qed.

Lemma key_name_valid_lemma : forall M ns, In (estimate_key M ns) key_names.
Proof.
  intros M ns. unfold estimate_key. apply nth_In. rewrite key_names_length.
  pose proof (estimate_key_idx_range M ns). lia.
Qed.

(* format_key as run by the implementation gives the model's names; each of them is accepted by
   key_name_to_fifths_mode (tabulated from the implementation) with the fifths and mode of KEYS *)
Lemma key_names_impl_lemma : key_names = key_names_impl.
Proof. vm_compute. reflexivity. Qed.

(* index i < 12: major key with tonic pitch class i; index 12 + i: minor key with tonic pitch class i *)
Definition letter_pc (s : string) : Z :=
  match s with
  | String c r =>
      (match slookup (String c EmptyString)
               [("C", 0); ("D", 2); ("E", 4); ("F", 5); ("G", 7); ("A", 9); ("B", 11)]%string with
       | Some b => b | None => -100 end)
      + (if String.eqb r "#" then 1 else if String.eqb r "b" then -1 else if String.eqb r "" then 0 else -100)
  | EmptyString => -100
  end.

Fixpoint indexed_keys {A} (i : Z) (l : list A) : list (Z * A) :=
  match l with [] => [] | x :: r => (i, x) :: indexed_keys (i + 1) r end.

Definition keys_layout_ok : bool :=
  forallb (fun ik => let '(i, k) := ik in
     ((letter_pc (fst (fst k))) mod 12 =? i mod 12) &&
     String.eqb (snd (fst k)) (if i <? 12 then "major" else "minor")) (indexed_keys 0 keys_table).

Lemma keys_layout_lemma : keys_layout_ok = true /\ List.length keys_table = 24%nat.
Proof. split; vm_compute; reflexivity. Qed.

(* every name is accepted by key_name_to_fifths_mode (run on the working tree, tabulated in
   key_parse_tab) and what it answers MEANS the name: the mode of the KEYS entry, -7..7 fifths, and
   a key signature whose tonic (major: 7 f mod 12, minor: 7 f + 9 mod 12) is the pitch class the
   name spells.  (The fifths column of KEYS is not used: estimate_key never reads it.) *)
Definition parse_entry_ok (k : string * string * Z) (e : string * option (Z * string)) (nm : string) : bool :=
  String.eqb (fst e) nm &&
  match snd e with
  | Some (f, m) =>
      String.eqb m (snd (fst k)) && (-7 <=? f) && (f <=? 7) &&
      ((7 * f + (if String.eqb m "minor" then 9 else 0)) mod 12 =? letter_pc (fst (fst k)) mod 12)
  | None => false
  end.

Definition key_names_parse_ok : bool :=
  Nat.eqb (List.length key_parse_tab) 24 &&
  forallb (fun x => parse_entry_ok (fst (fst x)) (snd (fst x)) (snd x))
          (combine (combine keys_table key_parse_tab) key_names).

Lemma key_names_parse_lemma : key_names_parse_ok = true.
Proof. vm_compute. reflexivity. Qed.

(* ------------------------------------------------------------------ *)
(* 2. octave shifts *)

Lemma hist_octave : forall ns ns',
  Forall2 (fun n n' => fst n mod 12 = fst n' mod 12 /\ snd n = snd n') ns ns' ->
  forall pc, ky_hist ns pc = ky_hist ns' pc.
Proof.
  intros ns ns' F pc. unfold ky_hist. induction F as [|n n' r r' [H1 H2] F IH]; cbn; [reflexivity|].
  rewrite H1, H2, IH. reflexivity.
Qed.

Lemma idx_hist_ext : forall M ns ns', (forall pc, 0 <= pc < 12 -> ky_hist ns pc = ky_hist ns' pc) ->
  estimate_key_idx M ns = estimate_key_idx M ns'.
Proof.
  intros M ns ns' H. unfold estimate_key_idx. apply argmax_by_ext. intros a b. unfold key_lt.
  rewrite (ky_cov_ext (ky_hist ns) (ky_hist ns') (row_fn M a) (row_fn M a) H (fun _ _ => eq_refl)).
  rewrite (ky_cov_ext (ky_hist ns) (ky_hist ns') (row_fn M b) (row_fn M b) H (fun _ _ => eq_refl)).
  reflexivity.
Qed.

Lemma key_octave_invariant_lemma : forall M ns ns',
  Forall2 (fun n n' => fst n mod 12 = fst n' mod 12 /\ snd n = snd n') ns ns' ->
  estimate_key M ns = estimate_key M ns'.
Proof.
  intros M ns ns' F. unfold estimate_key. rewrite (idx_hist_ext M ns ns'); [reflexivity|].
  intros pc _. apply hist_octave. exact F.
Qed.

Lemma key_octave_shift_lemma : forall M ns k,
  estimate_key M (map (fun n => (fst n + 12 * k, snd n)) ns) = estimate_key M ns.
Proof.
  intros M ns k. symmetry. apply key_octave_invariant_lemma.
  induction ns as [|n r IH]; cbn [map]; constructor; [|exact IH].
  cbn [fst snd]. split; [|reflexivity].
  replace (fst n + 12 * k) with (fst n + k * 12) by lia. rewrite Z.mod_add by lia. reflexivity.
Qed.

(* ------------------------------------------------------------------ *)
(* 3. rescaling all durations: a * d = b * d' with a, b > 0, i.e. d' = (a/b) d *)

Lemma hist_scale : forall a b ns ns',
  Forall2 (fun n n' => fst n = fst n' /\ a * snd n = b * snd n') ns ns' ->
  forall pc, a * ky_hist ns pc = b * ky_hist ns' pc.
Proof.
  intros a b ns ns' F pc. unfold ky_hist. induction F as [|n n' r r' [H1 H2] F IH]; cbn; [lia|].
  rewrite <- H1. destruct (fst n mod 12 =? pc); [|exact IH].
  rewrite !Z.mul_add_distr_l, H2, IH. reflexivity.
Qed.

Lemma key_scale_invariant_lemma : forall M ns ns' a b, 0 < a -> 0 < b ->
  Forall2 (fun n n' => fst n = fst n' /\ a * snd n = b * snd n') ns ns' ->
  estimate_key M ns = estimate_key M ns'.
Proof.
  intros M ns ns' a b Ha Hb F. unfold estimate_key. f_equal. f_equal.
  unfold estimate_key_idx. apply argmax_by_ext. intros i k. unfold key_lt.
  apply (score_lt_scale a b); auto; apply ky_cov_scale; intros pc _; apply hist_scale; exact F.
Qed.

Lemma key_scale_by_lemma : forall M ns k, 0 < k ->
  estimate_key M (map (fun n => (fst n, k * snd n)) ns) = estimate_key M ns.
Proof.
  intros M ns k Hk. symmetry. apply (key_scale_invariant_lemma M _ _ k 1 Hk ltac:(lia)).
  induction ns as [|n r IH]; cbn [map]; constructor; [|exact IH].
  cbn [fst snd]. split; [reflexivity | lia].
Qed.

(* ------------------------------------------------------------------ *)
(* 4. transposition *)

Definition circulantb (M : list (list Z)) : bool :=
  forallb (fun i => forallb (fun pc =>
     (row_fn M i pc =? row_fn M 0 ((pc - i) mod 12)) &&
     (row_fn M (12 + i) pc =? row_fn M 12 ((pc - i) mod 12))) (zrange 0 12)) (zrange 0 12).

Lemma circulantb_spec : forall M, circulantb M = true ->
  forall i pc, 0 <= i < 12 -> 0 <= pc < 12 ->
  row_fn M i pc = row_fn M 0 ((pc - i) mod 12) /\ row_fn M (12 + i) pc = row_fn M 12 ((pc - i) mod 12).
Proof.
  intros M C i pc Hi Hpc. unfold circulantb in C.
  pose proof (forallb_In _ _ C i (zrange_In 0 12 i ltac:(lia))) as C1. cbv beta in C1.
  pose proof (forallb_In _ _ C1 pc (zrange_In 0 12 pc ltac:(lia))) as C2. cbv beta in C2.
  apply andb_true_iff in C2. destruct C2 as [E1 E2]. zb. auto.
Qed.

Lemma circulant_rows_lemma : forall s, circulantb (profile_set s) = true.
Proof.
  intros s. unfold profile_set.
  destruct s as [|p|p]; [vm_compute; reflexivity | | vm_compute; reflexivity].
  destruct p as [p|p|]; try destruct p; vm_compute; reflexivity.
Qed.

Definition transpose (j : Z) (ns : list knote) : list knote := map (fun n => (fst n + j, snd n)) ns.

Lemma hist_transpose : forall j ns pc, 0 <= pc < 12 ->
  ky_hist (transpose j ns) pc = ky_hist ns ((pc - j) mod 12).
Proof.
  intros j ns pc Hpc. unfold ky_hist, transpose. induction ns as [|n r IH]; cbn; [reflexivity|].
  rewrite IH.
  assert (E : ((fst n + j) mod 12 =? pc) = (fst n mod 12 =? (pc - j) mod 12)).
  { destruct ((fst n + j) mod 12 =? pc) eqn:E1; destruct (fst n mod 12 =? (pc - j) mod 12) eqn:E2; auto; zb; lia. }
  rewrite E. reflexivity.
Qed.

Lemma rot_key_range : forall j i, 0 <= i < 24 -> 0 <= rot_key j i < 24.
Proof.
  intros j i Hi. unfold rot_key. destruct (i <? 12) eqn:E.
  - pose proof (Z.mod_pos_bound (i + j) 12 ltac:(lia)). lia.
  - pose proof (Z.mod_pos_bound (i - 12 + j) 12 ltac:(lia)). lia.
Qed.

Lemma rot_key_inv : forall j k, 0 <= k < 24 -> rot_key j (rot_key (- j) k) = k.
Proof.
  intros j k Hk. unfold rot_key.
  destruct (k <? 12) eqn:E.
  - pose proof (Z.mod_pos_bound (k + - j) 12 ltac:(lia)) as B.
    replace ((k + - j) mod 12 <? 12) with true by (symmetry; apply Z.ltb_lt; lia). zb. lia.
  - pose proof (Z.mod_pos_bound (k - 12 + - j) 12 ltac:(lia)) as B.
    replace (12 + (k - 12 + - j) mod 12 <? 12) with false by (symmetry; apply Z.ltb_ge; lia). zb. lia.
Qed.

(* row (rot j i), seen at pitch class pc, is row i seen at pc - j *)
Lemma row_rot : forall M j i pc, circulantb M = true -> 0 <= i < 24 -> 0 <= pc < 12 ->
  row_fn M (rot_key j i) pc = row_fn M i ((pc - j) mod 12).
Proof.
  intros M j i pc C Hi Hpc. pose proof (circulantb_spec M C) as S. unfold rot_key.
  pose proof (Z.mod_pos_bound (pc - j) 12 ltac:(lia)) as Hq.
  destruct (i <? 12) eqn:E; zb.
  - pose proof (Z.mod_pos_bound (i + j) 12 ltac:(lia)) as Hr.
    rewrite (proj1 (S ((i + j) mod 12) pc Hr Hpc)).
    rewrite (proj1 (S i ((pc - j) mod 12) ltac:(lia) Hq)).
    f_equal. lia.
  - pose proof (Z.mod_pos_bound (i - 12 + j) 12 ltac:(lia)) as Hr.
    rewrite (proj2 (S ((i - 12 + j) mod 12) pc Hr Hpc)).
    replace i with (12 + (i - 12)) at 2 by lia.
    rewrite (proj2 (S (i - 12) ((pc - j) mod 12) ltac:(lia) Hq)).
    f_equal. lia.
Qed.

Lemma key_lt_rot : forall M j ns i k, circulantb M = true -> 0 <= i < 24 -> 0 <= k < 24 ->
  key_lt M (ky_hist (transpose j ns)) (rot_key j i) (rot_key j k) = key_lt M (ky_hist ns) i k.
Proof.
  intros M j ns i k C Hi Hk. unfold key_lt.
  assert (X : forall a b, 0 <= a < 24 -> 0 <= b < 24 ->
            ky_cov (row_fn M (rot_key j a)) (row_fn M (rot_key j b)) = ky_cov (row_fn M a) (row_fn M b)).
  { intros a b Ha Hb. rewrite <- (ky_cov_shift (row_fn M a) (row_fn M b) j).
    apply ky_cov_ext; intros pc Hpc; apply row_rot; auto. }
  assert (Y : forall a, 0 <= a < 24 ->
            ky_cov (ky_hist (transpose j ns)) (row_fn M (rot_key j a)) = ky_cov (ky_hist ns) (row_fn M a)).
  { intros a Ha. rewrite <- (ky_cov_shift (ky_hist ns) (row_fn M a) j).
    apply ky_cov_ext; intros pc Hpc; [apply hist_transpose | apply row_rot]; auto. }
  rewrite !X, !Y by assumption. reflexivity.
Qed.

Lemma key_transpose_equivariant_lemma : forall M ns j i, circulantb M = true ->
  unique_max (key_lt M (ky_hist ns)) i ->
  estimate_key_idx M ns = i /\ estimate_key_idx M (transpose j ns) = rot_key j i.
Proof.
  intros M ns j i C U. split.
  - unfold estimate_key_idx.
    exact (argmax_by_unique (key_lt M (ky_hist ns)) i (key_lt_asym M (ky_hist ns)) U).
  - unfold estimate_key_idx.
    refine (argmax_by_unique (key_lt M (ky_hist (transpose j ns))) (rot_key j i)
              (key_lt_asym M (ky_hist (transpose j ns))) _).
    destruct U as [Hi U]. split; [apply rot_key_range; exact Hi|].
    intros k' Hk' Ne.
    set (k := rot_key (- j) k').
    assert (Hk : 0 <= k < 24) by (apply rot_key_range; exact Hk').
    assert (Ek : rot_key j k = k') by (apply rot_key_inv; exact Hk').
    rewrite <- Ek. rewrite key_lt_rot by assumption.
    apply U; [exact Hk|]. intros ->. apply Ne. symmetry. exact Ek.
Qed.

(* the same on the names returned, for the three reflected profile sets *)
Lemma key_transpose_names_lemma : forall s ns j i,
  unique_max (key_lt (profile_set s) (ky_hist ns)) i ->
  estimate_key (profile_set s) ns = nth (Z.to_nat i) key_names "?"%string /\
  estimate_key (profile_set s) (transpose j ns) = nth (Z.to_nat (rot_key j i)) key_names "?"%string.
Proof.
  intros s ns j i U. unfold estimate_key.
  destruct (key_transpose_equivariant_lemma (profile_set s) ns j i (circulant_rows_lemma s) U) as [E1 E2].
  rewrite E1, E2. split; reflexivity.
Qed.

(* the property's own words: "transposing the input by k semitones transposes the estimated tonic by
   k with the same mode" -- tonic and mode READ FROM the KEYS entry of the estimated key *)
Definition key_entry (i : Z) : string * string * Z := nth (Z.to_nat i) keys_table (""%string, ""%string, 0).
Definition key_tonic_pc (i : Z) : Z := letter_pc (fst (fst (key_entry i))) mod 12.
Definition key_mode (i : Z) : string := snd (fst (key_entry i)).

Definition layout_sweep : bool :=
  forallb (fun i => Z.eqb (key_tonic_pc i) (i mod 12) &&
                    String.eqb (key_mode i) (if Z.ltb i 12 then "major" else "minor")%string) (zrange 0 24).

Lemma layout_spec : forall i, 0 <= i < 24 ->
  key_tonic_pc i = i mod 12 /\ key_mode i = (if Z.ltb i 12 then "major" else "minor")%string.
Proof.
  intros i Hi. assert (H : layout_sweep = true) by (vm_compute; reflexivity).
  pose proof (forallb_In _ _ H i (zrange_In 0 24 i ltac:(lia))) as H1. cbv beta in H1.
  apply andb_true_iff in H1. destruct H1 as [H1 H2]. split.
  - apply Z.eqb_eq. exact H1.
  - apply String.eqb_eq. exact H2.
Qed.

Lemma key_transpose_tonic_lemma : forall s ns j i,
  unique_max (key_lt (profile_set s) (ky_hist ns)) i ->
  let k := estimate_key_idx (profile_set s) ns in
  let k' := estimate_key_idx (profile_set s) (transpose j ns) in
  key_tonic_pc k' = (key_tonic_pc k + j) mod 12 /\ key_mode k' = key_mode k /\
  estimate_key (profile_set s) ns = nth (Z.to_nat k) key_names "?"%string /\
  estimate_key (profile_set s) (transpose j ns) = nth (Z.to_nat k') key_names "?"%string.
Proof.
  intros s ns j i U k k'.
  destruct (key_transpose_equivariant_lemma (profile_set s) ns j i (circulant_rows_lemma s) U) as [E1 E2].
  subst k k'. rewrite E1, E2. destruct U as [Hi _].
  pose proof (rot_key_range j i Hi) as Hr.
  destruct (layout_spec i Hi) as [P1 M1]. destruct (layout_spec _ Hr) as [P2 M2].
  rewrite P1, P2, M1, M2. unfold estimate_key. rewrite E1, E2.
  unfold rot_key in *. destruct (i <? 12) eqn:E.
  - assert (Hm : 0 <= (i + j) mod 12 < 12) by (apply Z.mod_pos_bound; lia).
    replace ((i + j) mod 12 <? 12) with true by (symmetry; apply Z.ltb_lt; lia).
    repeat split. rewrite Z.mod_mod by lia. rewrite Zplus_mod_idemp_l. reflexivity.
  - assert (Hm : 0 <= (i - 12 + j) mod 12 < 12) by (apply Z.mod_pos_bound; lia).
    replace (12 + (i - 12 + j) mod 12 <? 12) with false by (symmetry; apply Z.ltb_ge; lia).
    repeat split. zb.
    replace (12 + (i - 12 + j) mod 12) with ((i - 12 + j) mod 12 + 1 * 12) by lia.
    rewrite Z_mod_plus_full, Z.mod_mod by lia. rewrite Zplus_mod_idemp_l.
    replace (i - 12 + j) with (i + j + (-1) * 12) by lia. rewrite Z_mod_plus_full. reflexivity.
Qed.

(* the hypotheses are satisfiable: a C major triad is estimated as C, a third higher as E *)
Example key_example :
  estimate_key key_matrix_kk [(60, 4); (64, 2); (67, 2); (72, 4)] = "C"%string /\
  estimate_key key_matrix_kk (transpose 4 [(60, 4); (64, 2); (67, 2); (72, 4)]) = "E"%string /\
  forallb (fun k => (k =? 0) || key_lt key_matrix_kk (ky_hist [(60, 4); (64, 2); (67, 2); (72, 4)]) k 0)
          (zrange 0 24) = true.
Proof. vm_compute. repeat split; reflexivity. Qed.

(* ... and the hypothesis "one key attains the maximum" of the transposition theorems cannot be
   dropped: the chromatic cluster (every pitch class equally long) correlates with nothing, every
   comparison is false, the first key wins before and after transposing, which is not key 0 moved *)
Example key_transpose_tie_example :
  let ns := map (fun p => (p, 1)) (zrange 60 12) in
  estimate_key_idx (profile_set 0) ns = 0 /\ estimate_key_idx (profile_set 0) (transpose 1 ns) = 0 /\
  rot_key 1 0 = 1.
Proof. vm_compute. repeat split; reflexivity. Qed.

(* unique_max is satisfiable: for the C major triad above key 0 (C major) beats the 23 others strictly *)
Lemma unique_max_forallb : forall lt i, 0 <= i < 24 ->
  forallb (fun k => (k =? i) || lt k i) (zrange 0 24) = true -> unique_max lt i.
Proof.
  intros lt i Hi F. split; [exact Hi|]. intros k Hk Ne.
  pose proof (forallb_In _ _ F k (zrange_In 0 24 k ltac:(lia))) as H. cbv beta in H.
  apply orb_true_iff in H. destruct H as [H|H]; [zb; congruence | exact H].
Qed.

Lemma key_unique_max_example :
  unique_max (key_lt (profile_set 0) (ky_hist [(60, 4); (64, 2); (67, 2); (72, 4)])) 0.
Proof. apply unique_max_forallb; [lia|]. vm_compute. reflexivity. Qed.

(* the evaluator used by the correspondence (histogram tabulated once) is the model function *)
Lemma ky_hist_tab_eq : forall ns pc, 0 <= pc < 12 -> ky_hist_tab ns pc = ky_hist ns pc.
Proof.
  intros ns pc H. unfold ky_hist_tab.
  assert (C : pc = 0 \/ pc = 1 \/ pc = 2 \/ pc = 3 \/ pc = 4 \/ pc = 5 \/ pc = 6 \/ pc = 7 \/
              pc = 8 \/ pc = 9 \/ pc = 10 \/ pc = 11) by lia.
  destruct C as [E|[E|[E|[E|[E|[E|[E|[E|[E|[E|[E|E]]]]]]]]]]]; subst pc; reflexivity.
Qed.

Lemma estimate_key_fast_eq_lemma : forall M ns, estimate_key_fast M ns = estimate_key M ns.
Proof.
  intros M ns. unfold estimate_key_fast, estimate_key, estimate_key_idx.
  apply (f_equal (fun i => nth (Z.to_nat i) key_names "?"%string)).
  apply (argmax_by_ext (key_lt M (ky_hist_tab ns)) (key_lt M (ky_hist ns)) (zrange 1 23) 0).
  intros a b. unfold key_lt.
  rewrite (ky_cov_ext (ky_hist_tab ns) (ky_hist ns) (row_fn M a) (row_fn M a) (ky_hist_tab_eq ns) (fun _ _ => eq_refl)).
  rewrite (ky_cov_ext (ky_hist_tab ns) (ky_hist ns) (row_fn M b) (row_fn M b) (ky_hist_tab_eq ns) (fun _ _ => eq_refl)).
  reflexivity.
Qed.
