(* C12 (round j) -- proofs about the search / groups / sign-table model of
   note_name_to_pitch_spelling and note_name_to_midi_pitch (Model/C12_NoteName.v). *)
From PV Require Import Lib.Base Model.C12 Model.C12_NoteName Gen.C12_Tab Proofs.C12_model.
From Coq Require Import Ascii NArith Decimal DecimalString DecimalN.
#[local] Open Scope Z_scope.

(* ---------- greedy groups ---------- *)
Lemma span_spec p s a t : span p s = (a, t) ->
  s = (a ++ t)%string /\ all_chars p a = true /\ starts_not p t = true.
Proof.
  revert a t. induction s as [|c r IH]; intros a t H; cbn [span] in H.
  - inversion H; subst. repeat split.
  - destruct (p c) eqn:E.
    + destruct (span p r) as [a' t'] eqn:S. inversion H; subst.
      destruct (IH a' t eq_refl) as [H1 [H2 H3]]. subst r. cbn [append all_chars]. rewrite E, H2. auto.
    + inversion H; subst. cbn [append all_chars starts_not]. rewrite E. auto.
Qed.

Lemma span_app p a t : all_chars p a = true -> starts_not p t = true -> span p (a ++ t) = (a, t).
Proof.
  induction a as [|c r IH]; intros Ha Ht; cbn [append].
  - destruct t as [|c t]; cbn [span]; auto. cbn [starts_not] in Ht.
    destruct (p c); [discriminate | reflexivity].
  - cbn [all_chars] in Ha. apply andb_true_iff in Ha as [H1 H2]. cbn [span]. rewrite H1, (IH H2 Ht). reflexivity.
Qed.

(* ---------- one attempt ---------- *)
Lemma match_here_sound s c a d : match_here s = Some (c, a, d) ->
  exists rest, s = String c (a ++ d ++ rest) /\ is_step_char c = true /\
               all_chars is_acc_char a = true /\ all_chars is_digit_char d = true /\
               d <> EmptyString /\ starts_not is_digit_char rest = true.
Proof.
  destruct s as [|c0 r]; cbn [match_here]; [discriminate|].
  destruct (is_step_char c0) eqn:Ec; [|discriminate].
  destruct (span is_acc_char r) as [a0 t] eqn:Sa.
  destruct (span is_digit_char t) as [d0 u] eqn:Sd.
  destruct d0 as [|x d0]; [discriminate|]. intros H. inversion H; subst. clear H.
  destruct (span_spec _ _ _ _ Sa) as [E1 [A1 _]].
  destruct (span_spec _ _ _ _ Sd) as [E2 [A2 N2]].
  exists u. subst r t. repeat split; auto. discriminate.
Qed.

Lemma match_here_complete c a d rest :
  is_step_char c = true -> all_chars is_acc_char a = true -> all_chars is_digit_char d = true ->
  d <> EmptyString -> starts_not is_digit_char rest = true ->
  match_here (String c (a ++ d ++ rest)) = Some (c, a, d).
Proof.
  intros Hc Ha Hd Hne Hr. cbn [match_here]. rewrite Hc.
  assert (Hs : starts_not is_acc_char (d ++ rest) = true).
  { destruct d as [|x d]; [contradiction|]. cbn [append starts_not all_chars] in *.
    apply andb_true_iff in Hd as [Hx _].
    destruct x as [[] [] [] [] [] [] [] []]; try discriminate Hx; reflexivity. }
  rewrite (span_app _ _ _ Ha Hs), (span_app _ _ _ Hd Hr).
  destruct d; [contradiction | reflexivity].
Qed.

Lemma match_here_nonstep c r : is_step_char c = false -> match_here (String c r) = None.
Proof. intros H. cbn [match_here]. rewrite H. reflexivity. Qed.

(* ---------- the search: leftmost successful attempt ---------- *)
Lemma re_search_unfold s :
  re_search s = match match_here s with
                | Some g => Some g
                | None => match s with String _ r => re_search r | EmptyString => None end
                end.
Proof. destruct s; reflexivity. Qed.

(* what a successful search returns: the text is  pre ++ step ++ signs ++ digits ++ rest,
   the groups are maximal (the signs are followed by a digit, the digits by a non-digit or the
   end), and NO attempt succeeds at any earlier position *)
Lemma search_sound n c a d : re_search n = Some (c, a, d) ->
  exists pre rest, n = (pre ++ String c (a ++ d ++ rest))%string /\
    is_step_char c = true /\ all_chars is_acc_char a = true /\ all_chars is_digit_char d = true /\
    d <> EmptyString /\ starts_not is_digit_char rest = true /\
    (forall p1 p2, pre = (p1 ++ p2)%string -> p2 <> EmptyString ->
                   match_here (p2 ++ String c (a ++ d ++ rest)) = None).
Proof.
  induction n as [|x r IH]; rewrite re_search_unfold.
  - cbn. discriminate.
  - destruct (match_here (String x r)) as [g|] eqn:M.
    + intros H. inversion H; subst g. destruct (match_here_sound _ _ _ _ M) as [rest [E R]].
      exists EmptyString, rest. cbn [append]. split; [exact E|].
      destruct R as [R1 [R2 [R3 [R4 R5]]]]. repeat split; auto.
      intros p1 p2 E0 Hne. destruct p1; cbn [append] in E0; [subst p2; contradiction | discriminate].
    + intros H. destruct (IH H) as [pre [rest [E [R1 [R2 [R3 [R4 [R5 L]]]]]]]].
      exists (String x pre), rest. cbn [append]. split; [rewrite E; reflexivity|].
      repeat split; auto.
      intros p1 p2 E0 Hne. destruct p1 as [|y p1]; cbn [append] in E0.
      * subst p2. cbn [append]. rewrite <- E. exact M.
      * inversion E0; subst. apply (L p1 p2 eq_refl Hne).
Qed.

(* the search fails only when no attempt succeeds at any position of the text *)
Lemma search_none n : re_search n = None ->
  forall pre s, n = (pre ++ s)%string -> match_here s = None.
Proof.
  induction n as [|x r IH]; rewrite re_search_unfold; intros H pre s E.
  - destruct pre; cbn [append] in E; [subst s; reflexivity | discriminate].
  - destruct (match_here (String x r)) as [g|] eqn:M; [discriminate|].
    destruct pre as [|y pre]; cbn [append] in E.
    + subst s. exact M.
    + inversion E; subst. apply (IH H pre s eq_refl).
Qed.

(* hence: a text that holds a name of the grammar anywhere is never rejected by the search *)
Lemma search_finds pre c a d rest :
  is_step_char c = true -> all_chars is_acc_char a = true -> all_chars is_digit_char d = true ->
  d <> EmptyString -> starts_not is_digit_char rest = true ->
  exists g, re_search (pre ++ String c (a ++ d ++ rest)) = Some g.
Proof.
  intros Hc Ha Hd Hne Hr.
  destruct (re_search (pre ++ String c (a ++ d ++ rest))) as [g|] eqn:S; [eauto|].
  pose proof (search_none _ S pre _ eq_refl) as M.
  rewrite (match_here_complete c a d rest Hc Ha Hd Hne Hr) in M. discriminate.
Qed.

(* text in front that holds no letter A-G is skipped *)
Lemma search_skip pre s : all_chars (fun c => negb (is_step_char c)) pre = true ->
  re_search (pre ++ s) = re_search s.
Proof.
  induction pre as [|x pre IH]; intros H; cbn [append]; [reflexivity|].
  cbn [all_chars] in H. apply andb_true_iff in H as [H1 H2].
  rewrite re_search_unfold, match_here_nonstep by (destruct (is_step_char x); [discriminate | reflexivity]).
  apply IH, H2.
Qed.

(* ---------- the sign table ---------- *)
Lemma slookup_In {A} k (l : list (string * A)) v : slookup k l = Some v -> In (k, v) l.
Proof.
  induction l as [|[k' v'] l IH]; cbn [slookup]; [discriminate|].
  destruct (String.eqb k k') eqn:E.
  - intros H. inversion H; subst. apply String.eqb_eq in E. subst. left; reflexivity.
  - intros H. right. apply IH, H.
Qed.

(* what the algorithm needs of its table: every key over x b # counts one semitone per sign
   (x two), and the key of the empty group is the natural *)
Definition sign_table_ok (tab : list (string * option Z)) : bool :=
  forallb (fun kv => match kv with
                     | (k, Some v) => if all_chars is_acc_char k then zopt_eqb (sign_value k) (Some v) else true
                     | (_, None) => true
                     end) tab &&
  match slookup "n"%string tab with Some (Some 0) => true | _ => false end.

Lemma tab_sign_table_ok : sign_table_ok tab_sign_to_alter = true.
Proof. vm_compute. reflexivity. Qed.

Lemma bad_sign_table_not_ok : sign_table_ok bad_sign_table = false.
Proof. vm_compute. reflexivity. Qed.

Lemma zopt_eqb_some a b : zopt_eqb a (Some b) = true -> a = Some b.
Proof. destruct a as [x|]; cbn; [|discriminate]. intros H. apply Z.eqb_eq in H. subst. reflexivity. Qed.

Lemma sign_lookup_value tab a v : sign_table_ok tab = true -> all_chars is_acc_char a = true ->
  slookup (sign_key a) tab = Some (Some v) -> sign_value a = Some v.
Proof.
  unfold sign_table_ok. intros H Ha L. apply andb_true_iff in H as [H1 H2].
  destruct a as [|x a].
  - cbn [sign_key] in L. rewrite L in H2. destruct v; try discriminate. reflexivity.
  - cbn [sign_key] in L. apply slookup_In in L.
    pose proof (forallb_In _ _ H1 _ L) as P. cbn beta iota in P. rewrite Ha in P.
    apply zopt_eqb_some, P.
Qed.

(* ---------- the two functions ---------- *)
Lemma step_char_base c : is_step_char c = true ->
  exists b, base_pc (String c EmptyString) = Some b /\ upper_step (String c EmptyString) = String c EmptyString /\
            In (String c EmptyString) steps7.
Proof.
  intros H. destruct c as [[] [] [] [] [] [] [] []]; try discriminate H;
    eexists; (split; [reflexivity | split; [reflexivity | cbn; tauto]]).
Qed.

(* every value the two functions give, on ANY text and for any table that is sign_table_ok (the
   code's table is: tab_sign_table_ok): the step is the letter of the leftmost successful attempt,
   the alteration is one semitone per sign of its (maximal) sign group, the octave is the decimal
   value of its (maximal) digit group, and the MIDI pitch is (octave + 1) * 12 + base + alteration *)
Lemma nn_value_sound tab n s v o : sign_table_ok tab = true ->
  nn_spelling_with tab n = Some (s, v, o) ->
  exists c a d u b, re_search n = Some (c, a, d) /\ s = String c EmptyString /\ In s steps7 /\
    sign_value a = Some v /\
    NilEmpty.uint_of_string d = Some u /\ o = Z.of_N (N.of_uint u) /\ 0 <= o /\
    base_pc s = Some b /\ nn_midi_with tab n = Some ((o + 1) * 12 + b + v).
Proof.
  intros Hok H. unfold nn_midi_with. rewrite H. unfold nn_spelling_with in H.
  destruct (re_search n) as [[[c a] d]|] eqn:S; [|discriminate].
  destruct (search_sound _ _ _ _ S) as [pre [rest [E [Hc [Ha _]]]]].
  destruct (step_char_base c Hc) as [b [Hb [Hu Hin]]].
  rewrite Hb, Hu in H.
  destruct (slookup (sign_key a) tab) as [[v0|]|] eqn:L; try discriminate.
  destruct (NilEmpty.uint_of_string d) as [u|] eqn:U; [|discriminate].
  inversion H; subst s v0 o. clear H.
  exists c, a, d, u, b. repeat split; auto.
  - apply (sign_lookup_value tab); auto.
  - apply N2Z.is_nonneg.
  - unfold ps_to_midi. rewrite Hb. reflexivity.
Qed.

(* ---------- printing then reading, inside any text ---------- *)
Lemma sapp_assoc (a b c : string) : ((a ++ b) ++ c = a ++ b ++ c)%string.
Proof. induction a as [|x a IH]; cbn [append]; [reflexivity | rewrite IH; reflexivity]. Qed.

Lemma all_digits_uint u : all_chars is_digit_char (NilEmpty.string_of_uint u) = true.
Proof. induction u; cbn; auto. Qed.

Lemma digits_all n : all_chars is_digit_char (digits n) = true.
Proof. apply all_digits_uint. Qed.

Lemma digits_ne n : digits n <> EmptyString.
Proof. destruct (digits_nonempty n) as [c [r E]]. rewrite E. discriminate. Qed.

Lemma nn_read_printed tab s a o pre rest :
  (forall al, -3 <= al <= 3 -> slookup (sign_key (alter_sign al)) tab = Some (Some al)) ->
  In s steps7 -> -3 <= a <= 3 -> 0 <= o ->
  all_chars (fun c => negb (is_step_char c)) pre = true -> starts_not is_digit_char rest = true ->
  nn_spelling_with tab (pre ++ note_name s a o ++ rest) = Some (s, a, o) /\
  nn_midi_with tab (pre ++ note_name s a o ++ rest) = ps_to_midi s a o.
Proof.
  intros Htab Hs Ha Ho Hpre Hrest.
  assert (G : nn_spelling_with tab (pre ++ note_name s a o ++ rest) = Some (s, a, o)).
  { unfold nn_spelling_with. rewrite search_skip by exact Hpre.
    unfold note_name, print_octave. destruct (o <? 0) eqn:E; [lia|]. clear E.
    assert (Hn : o = Z.of_N (Z.to_N o)) by (rewrite Z2N.id; lia).
    set (k := Z.to_N o) in *. clearbody k. subst o.
    assert (Hacc : all_chars is_acc_char (alter_sign a) = true).
    { assert (Ha' : In a [-3; -2; -1; 0; 1; 2; 3]) by (cbn [In]; lia). cbn [In] in Ha'.
      repeat (destruct Ha' as [<-|Ha']; [reflexivity|]). contradiction. }
    assert (exists c, s = String c EmptyString /\ is_step_char c = true) as [c [-> Hc]].
    { cbn [In steps7] in Hs.
      repeat (destruct Hs as [<-|Hs]; [eexists; split; reflexivity|]). contradiction. }
    replace ((String c EmptyString ++ alter_sign a ++ digits k) ++ rest)%string
      with (String c (alter_sign a ++ digits k ++ rest)).
    2:{ cbn [append]. f_equal. rewrite sapp_assoc. reflexivity. }
    rewrite re_search_unfold, (match_here_complete c _ _ rest Hc Hacc (digits_all k) (digits_ne k) Hrest).
    destruct (step_char_base c Hc) as [b [Hb [Hu _]]]. rewrite Hb, Hu, (Htab a Ha), digits_read.
    rewrite DecimalN.Unsigned.of_to. reflexivity. }
  split; [exact G|]. unfold nn_midi_with. rewrite G. reflexivity.
Qed.

Lemma tab_sign_prints al : -3 <= al <= 3 ->
  slookup (sign_key (alter_sign al)) tab_sign_to_alter = Some (Some al).
Proof.
  intros H. assert (Ha' : In al [-3; -2; -1; 0; 1; 2; 3]) by (cbn [In]; lia). cbn [In] in Ha'.
  repeat (destruct Ha' as [<-|Ha']; [vm_compute; reflexivity|]). contradiction.
Qed.

(* ---------- the search model and the whole-string model agree where both speak ---------- *)
Lemma split_acc_span s : split_acc s = span is_acc_char s.
Proof. induction s as [|c r IH]; cbn [split_acc span]; [reflexivity | rewrite IH; reflexivity]. Qed.

Lemma span_all p t : all_chars p t = true -> span p t = (t, EmptyString).
Proof.
  induction t as [|c r IH]; intros H; cbn [span]; [reflexivity|].
  cbn [all_chars] in H. apply andb_true_iff in H as [H1 H2]. rewrite H1, (IH H2). reflexivity.
Qed.

Lemma uint_digits t : forall d, NilEmpty.uint_of_string t = Some d -> all_chars is_digit_char t = true.
Proof.
  induction t as [|x t IH]; intros d H; [reflexivity|].
  cbn [NilEmpty.uint_of_string] in H. destruct (NilEmpty.uint_of_string t) as [d'|] eqn:E.
  - cbn [all_chars]. rewrite (IH d' eq_refl), andb_true_r.
    destruct x as [[] [] [] [] [] [] [] []]; try reflexivity; cbn in H; discriminate H.
  - cbn in H. discriminate H.
Qed.

Lemma nn_agrees_parse_name tab n r r' : sign_table_ok tab = true ->
  parse_name n = Some r -> nn_spelling_with tab n = Some r' -> r' = r.
Proof.
  intros Hok P S. destruct n as [|c rr]; [discriminate|]. cbn [parse_name] in P.
  destruct (is_step_char c) eqn:Hc; [|discriminate].
  rewrite split_acc_span in P. destruct (span is_acc_char rr) as [a t] eqn:Sa.
  destruct t as [|x t]; [discriminate|].
  destruct (NilEmpty.uint_of_string (String x t)) as [d|] eqn:U; [|discriminate].
  destruct (sign_value a) as [v|] eqn:V; [|discriminate].
  inversion P; subst r. clear P.
  destruct (span_spec _ _ _ _ Sa) as [_ [Ha _]].
  assert (M : match_here (String c rr) = Some (c, a, String x t)).
  { cbn [match_here]. rewrite Hc, Sa, (span_all _ _ (uint_digits _ _ U)). reflexivity. }
  unfold nn_spelling_with in S. rewrite re_search_unfold, M in S.
  destruct (step_char_base c Hc) as [b [Hb [Hu _]]]. rewrite Hb, Hu, U in S.
  destruct (slookup (sign_key a) tab) as [[v0|]|] eqn:L; try discriminate.
  rewrite (sign_lookup_value tab a v0 Hok Ha L) in V. inversion V; subst v0.
  inversion S. reflexivity.
Qed.

(* ---------- non-vacuity and the variants ---------- *)
Example nn_embedded_example :
  nn_spelling_with tab_sign_to_alter "xyAb G##007;C4"%string = Some ("G"%string, 2, 7) /\
  nn_midi_with tab_sign_to_alter "xyAb G##007;C4"%string = Some 105 /\
  nn_spelling_with tab_sign_to_alter "Cxb4"%string = None /\
  nn_spelling_with tab_sign_to_alter "c4 H2 C#"%string = None.
Proof. vm_compute. repeat split. Qed.

(* a search that gives up after the first failed attempt rejects a text that holds a name *)
Example search_giveup_refuted :
  re_search_giveup "AB4"%string = None /\ match_here "B4"%string <> None /\
  re_search "AB4"%string = Some ("B"%char, EmptyString, "4"%string).
Proof. vm_compute. repeat split. discriminate. Qed.

(* an anchored match does not read a printed name behind other text *)
Example anchored_refuted :
  re_match ("= " ++ note_name "F" 1 3)%string = None /\
  re_search ("= " ++ note_name "F" 1 3)%string = Some ("F"%char, "#"%string, "3"%string).
Proof. vm_compute. split; reflexivity. Qed.

(* with a table in which x counts one semitone the value statement fails *)
Example bad_table_refuted :
  nn_spelling_with bad_sign_table "Cx4"%string = Some ("C"%string, 1, 4) /\
  sign_value "x"%string = Some 2 /\ nn_midi_with bad_sign_table "Cx4"%string = Some 61.
Proof. vm_compute. repeat split. Qed.
