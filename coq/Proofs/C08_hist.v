(* C08 proofs: state carried between calls (Model/C08_Hist.v).  For EVERY history of edits and saves the
   observation of a save is a function of the data the notes hold at that moment; for every history of edits
   of MatchFile.lines the derived alignment / note ids are those of the lines held at that moment. *)
From PV Require Import Lib.Base Lib.Round Model.C12 Model.C08 Model.C08_Hist.
From Coq Require Import QArith ZArith List.
Import ListNotations.
#[local] Open Scope Z_scope.

Lemma map_upd_nth {A B} (h : A -> B) (f : A -> A) (g : B -> B) :
  (forall x, h (f x) = g (h x)) ->
  forall i l, map h (upd_nth i f l) = upd_nth i g (map h l).
Proof.
  intros H i. induction i as [|i IH]; intros [|x r]; simpl; try reflexivity.
  - now rewrite H.
  - now rewrite IH.
Qed.

Lemma map_drop_nth {A B} (h : A -> B) : forall i l, map h (drop_nth i l) = drop_nth i (map h l).
Proof.
  induction i as [|i IH]; intros [|x r]; simpl; try reflexivity. now rewrite IH.
Qed.

Lemma exp_note_data ppq mpq p : exp_note ppq mpq p = exp_data ppq mpq (data_of p).
Proof. destruct p; reflexivity. Qed.

Lemma map_exp_note_data ppq mpq l : map (exp_note ppq mpq) l = map (exp_data ppq mpq) (map data_of l).
Proof. rewrite map_map. apply map_ext. intros; apply exp_note_data. Qed.

(* one step: the data after the step and the observation depend on the data before it only *)
Lemma hstep_data s o :
  map data_of (h_notes (fst (hstep s o))) = fst (sstep (map data_of (h_notes s)) o) /\
  snd (hstep s o) = snd (sstep (map data_of (h_notes s)) o).
Proof.
  destruct o; simpl; split; try reflexivity.
  - apply map_upd_nth. intros [pi ve on' off' st]; reflexivity.
  - apply map_upd_nth. intros [pi ve on' off' st]; reflexivity.
  - apply map_upd_nth. intros; reflexivity.
  - now rewrite map_app.
  - apply map_drop_nth.
  - now rewrite map_exp_note_data.
Qed.

Lemma history_current_state_lemma : forall ops s, hobs s ops = sobs (map data_of (h_notes s)) ops.
Proof.
  induction ops as [|o r IH]; intros s; simpl; [reflexivity|].
  destruct (hstep_data s o) as [Hd Ho].
  destruct (hstep s o) as [s' ob] eqn:E1. destruct (sstep (map data_of (h_notes s)) o) as [d' ob'] eqn:E2.
  simpl in Hd, Ho. subst ob'. rewrite <- Hd. destruct ob; now rewrite IH.
Qed.

(* consequence: two parts holding the same data (whatever ticks are stored on their notes, whatever their
   clock attributes, whatever was saved before) give the same observations under the same history *)
Lemma history_independent_of_carried_state_lemma : forall ops s s',
  map data_of (h_notes s) = map data_of (h_notes s') -> hobs s ops = hobs s' ops.
Proof. intros ops s s' H. now rewrite !history_current_state_lemma, H. Qed.

(* ---- MatchFile ---- *)
Lemma mhistory_current_lines_lemma : forall ops s, mobs mstep s ops = mspec (m_lines s) ops.
Proof.
  induction ops as [|o r IH]; intros s; simpl; [reflexivity|].
  destruct o; simpl; now rewrite IH.
Qed.
