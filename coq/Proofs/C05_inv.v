(* C05 -- proofs about the inverse direction (Model/C05_Inv.v): rounding, pickup measure, inferred
   divisions, lexsort, create_part + tie_notes followed by the forward note_array. *)
From PV Require Import Lib.Base Lib.Round Model.C05 Model.C05_Spec Model.C05_Ext Model.C05_Inv Proofs.C05_lib Proofs.C05_ties Proofs.C05.
From Coq Require Import QArith Qabs Qround Lqa Lia Permutation Sorting.Sorted.
#[local] Open Scope Z_scope.

(* ---------- rounding ---------- *)

Lemma inject_Z_lt_1 a b : (Qabs (inject_Z a - inject_Z b) < 1)%Q -> a = b.
Proof.
  intros H. apply Qabs_Qlt_condition in H. destruct H as [H1 H2].
  assert (E : (inject_Z a - inject_Z b == inject_Z (a - b))%Q).
  { unfold Z.sub. rewrite inject_Z_plus, inject_Z_opp. ring. }
  rewrite E in H1, H2.
  change (- (1))%Q with (inject_Z (-1)) in H1. change 1%Q with (inject_Z 1) in H2.
  rewrite <- Zlt_Qlt in H1, H2. lia.
Qed.

Lemma round_half_even_unique q d : (Qabs (q - inject_Z d) < 1 # 2)%Q -> round_half_even q = d.
Proof.
  intros H. pose proof (round_half_even_near q) as N. unfold half in N.
  apply inject_Z_lt_1.
  apply Qabs_Qlt_condition in H. apply Qabs_Qle_condition in N.
  apply Qabs_Qlt_condition. destruct H, N. split; lra.
Qed.

(* ---------- maxima ---------- *)

Lemma zmax_list_spec d l :
  (d <= zmax_list d l) /\ (forall x, In x l -> x <= zmax_list d l) /\ In (zmax_list d l) (d :: l).
Proof.
  induction l as [|x r [A [B C]]]; simpl.
  - split; [lia|]. split; [intros x []|left; reflexivity].
  - split; [lia|]. split.
    + intros y [<-|H]; [lia|]. specialize (B y H). lia.
    + destruct (Z.max_spec x (zmax_list d r)) as [[_ ->]|[_ ->]].
      * destruct C as [C|C]; [left; exact C | right; right; exact C].
      * right; left; reflexivity.
Qed.

Lemma qmax2_spec a b : (a <= qmax2 a b)%Q /\ (b <= qmax2 a b)%Q /\ (qmax2 a b = a \/ qmax2 a b = b).
Proof.
  unfold qmax2. destruct (Qle_bool a b) eqn:E.
  - apply Qle_bool_iff in E. split; [exact E|]. split; [apply Qle_refl | right; reflexivity].
  - assert (~ (a <= b)%Q) as N by (intros H; apply Qle_bool_iff in H; congruence).
    apply Qnot_le_lt in N. split; [apply Qle_refl|]. split; [apply Qlt_le_weak; exact N | left; reflexivity].
Qed.

Lemma qmax_list_spec d l :
  (d <= qmax_list d l)%Q /\ (forall x, In x l -> (x <= qmax_list d l)%Q) /\ In (qmax_list d l) (d :: l).
Proof.
  induction l as [|x r [A [B C]]]; simpl.
  - split; [apply Qle_refl|]. split; [intros x []|left; reflexivity].
  - destruct (qmax2_spec x (qmax_list d r)) as [M1 [M2 M3]].
    split; [eapply Qle_trans; eauto|]. split.
    + intros y [<-|H]; [exact M1|]. eapply Qle_trans; [apply B; exact H | exact M2].
    + destruct M3 as [-> | ->].
      * right; left; reflexivity.
      * destruct C as [C|C]; [left; exact C | right; right; exact C].
Qed.

(* ---------- pickup measure ---------- *)

Lemma q4_pos bt : 0 < bt -> (0 < q4 bt)%Q.
Proof.
  intros H. unfold q4. apply Qlt_shift_div_l.
  - change 0%Q with (inject_Z 0). rewrite <- Zlt_Qlt. exact H.
  - rewrite Qmult_0_l. reflexivity.
Qed.

Lemma beat_unit_pos divs bt : 0 < divs -> 0 < bt -> (0 < beat_unit divs bt)%Q.
Proof.
  intros Hd Hb. unfold beat_unit. apply Qmult_lt_0_compat; [|apply q4_pos; exact Hb].
  change 0%Q with (inject_Z 0). rewrite <- Zlt_Qlt. exact Hd.
Qed.

Lemma in_map_inv {A B} (f : A -> B) y x0 l : In y (f x0 :: map f l) -> exists x, In x (x0 :: l) /\ y = f x.
Proof.
  intros [<-|H]; [exists x0; split; [left; reflexivity | reflexivity]|].
  apply in_map_iff in H. destruct H as [x [<- I]]. exists x. split; [right; exact I | reflexivity].
Qed.

Lemma anacrusis_exact_lemma l divs bt P :
  0 < divs -> 0 < bt ->
  Forall (fun r => on_grid (beat_unit divs bt) P r /\ bt_of r = bt) l ->
  (exists r, In r l /\ (i_onb r < 0)%Q) ->
  anacrusis_divs l divs = P.
Proof.
  intros Hd Hb HF [rn [In_rn Neg_rn]].
  unfold anacrusis_divs.
  assert (HN : forall r, In r (neg_rows l) -> on_grid (beat_unit divs bt) P r /\ bt_of r = bt).
  { intros r H. apply filter_In in H. destruct H as [H _]. rewrite Forall_forall in HF. apply HF; exact H. }
  destruct (neg_rows l) as [|r0 rest] eqn:EN.
  - exfalso. assert (In rn (neg_rows l)) as H.
    { apply filter_In. split; [exact In_rn|]. unfold qltb.
      destruct (Qle_bool 0 (i_onb rn)) eqn:E; [|reflexivity].
      apply Qle_bool_iff in E. lra. }
    rewrite EN in H. destruct H.
  - apply round_half_even_unique. unfold anacrusis_value.
    pose proof (beat_unit_pos divs bt Hd Hb) as Hu. set (u := beat_unit divs bt) in *.
    destruct (qmax_list_spec (i_onb r0) (map i_onb rest)) as [Q1 [Q2 Q3]].
    destruct (zmax_list_spec (i_on r0) (map i_on rest)) as [Z1 [Z2 Z3]].
    destruct (zmax_list_spec (bt_of r0) (map bt_of rest)) as [_ [_ B3]].
    set (mb := qmax_list (i_onb r0) (map i_onb rest)) in *.
    set (md := zmax_list (i_on r0) (map i_on rest)) in *.
    apply in_map_inv in Q3. destruct Q3 as [rj [Ij Ej]].
    apply in_map_inv in Z3. destruct Z3 as [rk [Ik Ek]].
    apply in_map_inv in B3. destruct B3 as [rb [Ib Eb]].
    rewrite Eb. rewrite (proj2 (HN rb Ib)).
    (* every negative row has beat <= mb and division <= md *)
    assert (Lb : forall r, In r (r0 :: rest) -> (i_onb r <= mb)%Q).
    { intros r [<-|H]; [exact Q1 | apply Q2, in_map, H]. }
    assert (Ld : forall r, In r (r0 :: rest) -> i_on r <= md).
    { intros r [<-|H]; [exact Z1 | apply Z2, in_map, H]. }
    destruct (HN rj Ij) as [Gj _]. destruct (HN rk Ik) as [Gk _].
    unfold on_grid in Gj, Gk. rewrite <- Ej in Gj. rewrite <- Ek in Gk.
    apply Qabs_Qlt_condition in Gj. apply Qabs_Qlt_condition in Gk.
    pose proof (Lb rk Ik) as Lk. pose proof (Ld rj Ij) as Lj.
    assert (M : (i_onb rk * u <= mb * u)%Q) by (apply Qmult_le_compat_r; [exact Lk | apply Qlt_le_weak; exact Hu]).
    (* md = i_on rj *)
    assert (E : md = i_on rj).
    { assert (inject_Z (md - P) < inject_Z (i_on rj - P) + 1)%Q as H by (destruct Gj, Gk; lra).
      change 1%Q with (inject_Z 1) in H. rewrite <- inject_Z_plus in H. rewrite <- Zlt_Qlt in H. lia. }
    rewrite <- E in Gj.
    assert (X : (inject_Z md + (0 - mb) * inject_Z divs * q4 bt - inject_Z P == - (mb * u - inject_Z (md - P)))%Q).
    { unfold u, beat_unit. unfold Z.sub. rewrite inject_Z_plus, inject_Z_opp. ring. }
    rewrite X. rewrite Qabs_opp. apply Qabs_Qlt_condition. exact Gj.
Qed.

Lemma anacrusis_none_lemma l divs : Forall (fun r => (0 <= i_onb r)%Q) l -> anacrusis_divs l divs = 0.
Proof.
  intros H. unfold anacrusis_divs.
  assert (neg_rows l = []) as ->; [|reflexivity].
  unfold neg_rows. induction H as [|r t Hr _ IH]; simpl; [reflexivity|].
  unfold qltb at 1. apply Qle_bool_iff in Hr. rewrite Hr. simpl. exact IH.
Qed.

(* the beat map of the rebuilt part gives every row the beat position it came with *)
Lemma metrical_roundtrip_lemma l divs bt P :
  0 < divs -> 0 < bt ->
  Forall (fun r => (i_onb r * beat_unit divs bt == inject_Z (i_on r - P))%Q /\ bt_of r = bt) l ->
  (exists r, In r l /\ (i_onb r < 0)%Q) \/ (P = 0 /\ Forall (fun r => (0 <= i_onb r)%Q) l) ->
  anacrusis_divs l divs = P /\
  forall r, In r l -> (m_beat (rebuilt_maps divs (anacrusis_divs l divs) bt) (i_on r) == i_onb r)%Q.
Proof.
  intros Hd Hb HF HN.
  assert (A : anacrusis_divs l divs = P).
  { destruct HN as [HN | [-> HN]].
    - apply anacrusis_exact_lemma with (bt := bt); try assumption.
      eapply Forall_impl; [|exact HF]. intros r [E B]. split; [|exact B].
      unfold on_grid. rewrite E.
      setoid_replace (inject_Z (i_on r - P) - inject_Z (i_on r - P))%Q with 0%Q by ring. reflexivity.
    - apply anacrusis_none_lemma. exact HN. }
  split; [exact A|]. intros r Hr. rewrite A. simpl.
  rewrite Forall_forall in HF. destruct (HF r Hr) as [E _]. rewrite <- E.
  pose proof (beat_unit_pos divs bt Hd Hb) as Hu.
  field. intros Z. rewrite Z in Hu. apply (Qlt_irrefl 0). exact Hu.
Qed.

(* ---------- divisions of an array with both kinds of columns ---------- *)

Lemma divs_inference_lemma l r d :
  first_nonzero l = Some r -> ~ (i_durb r == 0)%Q ->
  (Qabs (divs_quotient r - inject_Z d) < 1 # 2)%Q -> infer_divs l = Some d.
Proof.
  intros F NZ H. unfold infer_divs. rewrite F.
  destruct (Qeq_bool (i_durb r) 0) eqn:E; [apply Qeq_bool_iff in E; contradiction|].
  f_equal. apply round_half_even_unique. exact H.
Qed.

(* a beat duration in the band around k / (d * 4/bt) [k / d without time signature columns]
   gives back d *)
Lemma divs_band_lemma k b bt d : 0 < bt -> (0 < b)%Q ->
  ((2 * inject_Z d - 1) * (b * q4 bt) < 2 * inject_Z k)%Q ->
  (2 * inject_Z k < (2 * inject_Z d + 1) * (b * q4 bt))%Q ->
  (Qabs (inject_Z k / b / q4 bt - inject_Z d) < 1 # 2)%Q.
Proof.
  intros Hb Hpos L U. pose proof (q4_pos bt Hb) as H4.
  assert (Hc : (0 < b * q4 bt)%Q) by (apply Qmult_lt_0_compat; assumption).
  set (c := (b * q4 bt)%Q) in *.
  assert (E : (inject_Z k / b / q4 bt == inject_Z k / c)%Q).
  { unfold c. field. split; intros Z; [rewrite Z in H4; apply (Qlt_irrefl 0); exact H4 | rewrite Z in Hpos; apply (Qlt_irrefl 0); exact Hpos]. }
  rewrite E. apply Qabs_Qlt_condition. split.
  - apply Qlt_shift_div_l in L; [|exact Hc].
    assert ((2 * inject_Z k / c == 2 * (inject_Z k / c))%Q) as R by (field; intros Z; rewrite Z in Hc; apply (Qlt_irrefl 0); exact Hc).
    rewrite R in L. lra.
  - apply Qlt_shift_div_r in U; [|exact Hc].
    assert ((2 * inject_Z k / c == 2 * (inject_Z k / c))%Q) as R by (field; intros Z; rewrite Z in Hc; apply (Qlt_irrefl 0); exact Hc).
    rewrite R in U. lra.
Qed.

Lemma divs_inference_exact_lemma l r d :
  first_nonzero l = Some r -> (0 < i_durb r)%Q -> 0 < bt_of r ->
  ((2 * inject_Z d - 1) * (i_durb r * q4 (bt_of r)) < 2 * inject_Z (i_dur r))%Q ->
  (2 * inject_Z (i_dur r) < (2 * inject_Z d + 1) * (i_durb r * q4 (bt_of r)))%Q ->
  infer_divs l = Some d.
Proof.
  intros F Hpos Hb L U. apply divs_inference_lemma with (r := r); [exact F | intros Z; rewrite Z in Hpos; apply (Qlt_irrefl 0); exact Hpos |].
  pose proof (divs_band_lemma (i_dur r) (i_durb r) (bt_of r) d Hb Hpos L U) as H.
  unfold divs_quotient. unfold bt_of in *. destruct (i_ts r) as [[b bt]|]; [exact H|].
  assert (E : (inject_Z (i_dur r) / i_durb r == inject_Z (i_dur r) / i_durb r / q4 4)%Q).
  { unfold q4. field. intros Z; rewrite Z in Hpos; apply (Qlt_irrefl 0); exact Hpos. }
  rewrite E. exact H.
Qed.

(* ---------- lexsort ---------- *)

Lemma iinsert_perm x l : Permutation (x :: l) (iinsert x l).
Proof.
  induction l as [|y r IH]; simpl; [reflexivity|].
  destruct (key_leb x y); [reflexivity|].
  etransitivity; [apply perm_swap | apply perm_skip, IH].
Qed.

Lemma inv_sort_perm l : Permutation l (inv_sort l).
Proof.
  induction l as [|x r IH]; simpl; [constructor|].
  etransitivity; [apply perm_skip, IH | apply iinsert_perm].
Qed.

Definition key_le (a b : irow) : Prop :=
  i_on a < i_on b \/ (i_on a = i_on b /\ (i_pitch a < i_pitch b \/ (i_pitch a = i_pitch b /\ i_dur a <= i_dur b))).

Lemma key_leb_le a b : key_leb a b = true <-> key_le a b.
Proof. unfold key_leb, key_le. lia. Qed.

Lemma key_le_total a b : key_leb a b = false -> key_le b a.
Proof. intros H. assert (~ key_le a b) as N by (rewrite <- key_leb_le; congruence). unfold key_le in *. lia. Qed.

Lemma key_le_trans a b c : key_le a b -> key_le b c -> key_le a c.
Proof. unfold key_le. lia. Qed.

Lemma iinsert_sorted x l : StronglySorted key_le l -> StronglySorted key_le (iinsert x l).
Proof.
  induction 1 as [|y r S IH F]; simpl; [repeat constructor|].
  destruct (key_leb x y) eqn:E.
  - apply key_leb_le in E. constructor; [constructor; assumption|].
    constructor; [exact E|]. eapply Forall_impl; [|exact F]. intros z Hz. eapply key_le_trans; eauto.
  - apply key_le_total in E. constructor; [exact IH|].
    apply (Permutation_Forall (iinsert_perm x r)). constructor; assumption.
Qed.

Lemma inv_sort_sorted l : StronglySorted key_le (inv_sort l).
Proof. induction l as [|x r IH]; simpl; [constructor | apply iinsert_sorted, IH]. Qed.

(* ---------- create_part + tie_notes, then note_array ---------- *)

Lemma zrange_app lo a b : zrange lo (a + b) = zrange lo a ++ zrange (lo + Z.of_nat a) b.
Proof.
  revert lo; induction a as [|a IH]; intros lo; simpl.
  - f_equal. lia.
  - f_equal. rewrite IH. do 2 f_equal. lia.
Qed.

Lemma zrange_bounds lo n x : In x (zrange lo n) -> lo <= x < lo + Z.of_nat n.
Proof.
  revert lo; induction n as [|n IH]; intros lo; simpl; [intros []|].
  intros [<-|H]; [lia|]. apply IH in H. lia.
Qed.

Lemma zrange_NoDup lo n : NoDup (zrange lo n).
Proof.
  revert lo; induction n as [|n IH]; intros lo; simpl; constructor; [|apply IH].
  intros H. apply zrange_bounds in H. lia.
Qed.

Lemma pieces_length r oid f s e cs : List.length (pieces r oid f s e cs) = S (List.length cs).
Proof. revert oid f s; induction cs as [|c t IH]; intros; simpl; [reflexivity | rewrite IH; reflexivity]. Qed.

Lemma pieces_oids r cs : forall oid f s e, map n_oid (pieces r oid f s e cs) = zrange oid (S (List.length cs)).
Proof. induction cs as [|c t IH]; intros; simpl; [reflexivity | rewrite IH; reflexivity]. Qed.

Lemma rebuild_oids l : forall oid, map n_oid (rebuild oid l) = zrange oid (List.length (rebuild oid l)).
Proof.
  induction l as [|r t IH]; intros oid; simpl; [reflexivity|].
  rewrite map_app, app_length, zrange_app. unfold row_pieces.
  rewrite pieces_oids, pieces_length, IH. f_equal. f_equal. lia.
Qed.

Lemma rebuild_NoDup l oid : NoDup (map n_oid (rebuild oid l)).
Proof. rewrite rebuild_oids. apply zrange_NoDup. Qed.

Lemma pieces_sum r cs : forall oid f s e, sum_dur (pieces r oid f s e cs) = e - s.
Proof.
  induction cs as [|c t IH]; intros; simpl; unfold n_dur; simpl; [lia|].
  rewrite IH. lia.
Qed.

Lemma pieces_sounding r cs : forall oid f s e, Forall (fun n => n_rest n = false) (pieces r oid f s e cs).
Proof. induction cs as [|c t IH]; intros; simpl; (constructor; [reflexivity|]); [constructor | apply IH]. Qed.

Lemma rebuild_sounding l : forall oid, sounding (rebuild oid l) = rebuild oid l.
Proof.
  assert (F : forall oid, Forall (fun n => n_rest n = false) (rebuild oid l)).
  { induction l as [|r t IH]; intros oid; simpl; [constructor|].
    apply Forall_app. split; [apply pieces_sounding | apply IH]. }
  intros oid. specialize (F oid). unfold sounding.
  induction F as [|n t Hn _ IH]; simpl; [reflexivity|]. rewrite Hn. simpl. f_equal. exact IH.
Qed.

(* the first piece *)
Definition first_piece (r : irow) (oid : Z) : note :=
  match i_cuts r with
  | [] => mk_piece r oid (i_on r) (i_on r + i_dur r) true true
  | c :: _ => mk_piece r oid (i_on r) c true false
  end.

Lemma pieces_tail_no_head r cs : forall oid s e, filter is_head (pieces r oid false s e cs) = [].
Proof. induction cs as [|c t IH]; intros; simpl; [reflexivity | apply IH]. Qed.

Lemma row_pieces_heads r oid : filter is_head (row_pieces r oid) = [first_piece r oid].
Proof.
  unfold row_pieces, first_piece. destruct (i_cuts r) as [|c t]; simpl; [reflexivity|].
  rewrite pieces_tail_no_head. reflexivity.
Qed.

Lemma row_pieces_hd r oid : exists t, row_pieces r oid = first_piece r oid :: t.
Proof. unfold row_pieces, first_piece. destruct (i_cuts r); simpl; eexists; reflexivity. Qed.

(* the pieces of a row form the tie chain of the first one, in any note list that contains them and
   has unique object identities *)
Lemma pieces_chain ns r : NoDup (map n_oid ns) -> forall cs oid f s e,
  incl (pieces r oid f s e cs) ns ->
  exists h t, pieces r oid f s e cs = h :: t /\ n_oid h = oid /\ tie_chain ns h (h :: t).
Proof.
  intros ND. induction cs as [|c rest IH]; intros oid f s e Hin; simpl in *.
  - eexists; eexists. split; [reflexivity|]. split; [reflexivity|]. apply tc_last. reflexivity.
  - destruct (IH (oid + 1) false c e) as [h [t [E [O T]]]].
    { intros x Hx. apply Hin. right. exact Hx. }
    eexists; eexists. split; [reflexivity|]. split; [reflexivity|].
    rewrite E. eapply tc_step with (k := oid + 1) (m := h); [reflexivity | | exact T].
    rewrite <- O. apply find_oid_In; [exact ND|]. apply Hin. right. rewrite E. left. reflexivity.
Qed.

Lemma first_piece_core ns r oid : NoDup (map n_oid ns) -> incl (row_pieces r oid) ns ->
  (List.length (row_pieces r oid) <= List.length ns)%nat ->
  head_core ns (first_piece r oid) = i_core r.
Proof.
  intros ND Hin Hlen.
  destruct (pieces_chain ns r ND (i_cuts r) oid true (i_on r) (i_on r + i_dur r) Hin) as [h [t [E [O T]]]].
  fold (row_pieces r oid) in E.
  destruct (row_pieces_hd r oid) as [t' E']. rewrite E' in E. injection E as <- <-.
  unfold head_core, i_core.
  rewrite (chain_sum_is_row_duration ns _ _ (List.length ns) T).
  - rewrite <- E'. unfold row_pieces. rewrite pieces_sum. simpl.
    unfold first_piece. destruct (i_cuts r); simpl; unfold midi_pitch, i_midi; simpl; repeat f_equal; lia.
  - rewrite <- E'. exact Hlen.
Qed.

Lemma rebuild_heads_core l : forall oid pre post,
  NoDup (map n_oid (pre ++ rebuild oid l ++ post)) ->
  map (head_core (pre ++ rebuild oid l ++ post)) (filter is_head (rebuild oid l)) = map i_core l.
Proof.
  induction l as [|r t IH]; intros oid pre post ND; simpl; [reflexivity|].
  rewrite filter_app, row_pieces_heads, map_app. simpl.
  set (oid' := oid + 1 + Z.of_nat (List.length (i_cuts r))) in *.
  set (ns := pre ++ (row_pieces r oid ++ rebuild oid' t) ++ post) in *.
  f_equal.
  - apply first_piece_core; [exact ND | |].
    + intros x Hx. unfold ns. apply in_or_app. right. apply in_or_app. left. apply in_or_app. left. exact Hx.
    + unfold ns. rewrite !app_length. lia.
  - assert (E : ns = (pre ++ row_pieces r oid) ++ rebuild oid' t ++ post).
    { unfold ns. rewrite <- !app_assoc. reflexivity. }
    rewrite E. apply IH. rewrite <- E. exact ND.
Qed.

Lemma raw_rows_some ns mp divs : forall sel,
  (forall h, In h sel -> exists d, duration_tied ns (List.length ns) h = Some d) ->
  exists rows, raw_rows ns mp divs sel = Some rows.
Proof.
  induction sel as [|h t IH]; intros H; simpl; [eexists; reflexivity|].
  destruct (H h (or_introl eq_refl)) as [d ->].
  destruct IH as [rows ->]; [intros x Hx; apply H; right; exact Hx|].
  eexists; reflexivity.
Qed.

Lemma rebuild_heads_total l : forall oid pre post,
  NoDup (map n_oid (pre ++ rebuild oid l ++ post)) ->
  forall h, In h (filter is_head (rebuild oid l)) ->
  exists d, duration_tied (pre ++ rebuild oid l ++ post) (List.length (pre ++ rebuild oid l ++ post)) h = Some d.
Proof.
  induction l as [|r t IH]; intros oid pre post ND h Hh; simpl in *; [destruct Hh|].
  rewrite filter_app, row_pieces_heads in Hh.
  set (oid' := oid + 1 + Z.of_nat (List.length (i_cuts r))) in *.
  set (ns := pre ++ (row_pieces r oid ++ rebuild oid' t) ++ post) in *.
  destruct Hh as [<-|Hh].
  - assert (Hin : incl (row_pieces r oid) ns).
    { intros x Hx. unfold ns. apply in_or_app. right. apply in_or_app. left. apply in_or_app. left. exact Hx. }
    destruct (pieces_chain ns r ND (i_cuts r) oid true (i_on r) (i_on r + i_dur r) Hin) as [h [tl [E [O T]]]].
    fold (row_pieces r oid) in E.
    destruct (row_pieces_hd r oid) as [t' E']. rewrite E' in E. injection E as <- <-.
    eexists. apply (chain_sum_is_row_duration ns _ _ (List.length ns) T).
    rewrite <- E'. unfold ns. rewrite !app_length. lia.
  - assert (E : ns = (pre ++ row_pieces r oid) ++ rebuild oid' t ++ post).
    { unfold ns. rewrite <- !app_assoc. reflexivity. }
    rewrite E. apply IH; [rewrite <- E; exact ND | exact Hh].
Qed.

Lemma rebuild_roundtrip_lemma l mp divs :
  exists out, note_array (rebuild 0 l) mp divs = Some out /\
              Permutation (map r_core out) (map i_core l).
Proof.
  pose proof (rebuild_NoDup l 0) as ND.
  assert (ND' : NoDup (map n_oid ([] ++ rebuild 0 l ++ []))) by (simpl; rewrite app_nil_r; exact ND).
  pose proof (rebuild_heads_total l 0 [] [] ND') as HT.
  pose proof (rebuild_heads_core l 0 [] [] ND') as HC.
  simpl in HT, HC. rewrite app_nil_r in HT, HC.
  unfold note_array. fold (sounding (rebuild 0 l)). rewrite rebuild_sounding. unfold notes_tied.
  destruct (raw_rows_some (rebuild 0 l) mp divs (filter is_head (rebuild 0 l)) HT) as [rows R].
  assert (A : array_of (rebuild 0 l) mp divs (filter is_head (rebuild 0 l)) = Some (sort_rows (sanitize_voices rows)))
    by (unfold array_of; rewrite R; reflexivity).
  rewrite A. eexists. split; [reflexivity|].
  apply array_of_core in A. rewrite HC in A. exact A.
Qed.

Lemma inv_sort_core_perm l : Permutation (map i_core (inv_sort l)) (map i_core l).
Proof. apply Permutation_map. symmetry. apply inv_sort_perm. Qed.

Lemma inverse_roundtrip_lemma l divs A bt :
  exists out, roundtrip l divs A bt = Some out /\
              Permutation (map r_core out) (map i_core l) /\ StronglySorted lexle out.
Proof.
  unfold roundtrip.
  destruct (rebuild_roundtrip_lemma (inv_sort l) (rebuilt_maps divs A bt) divs) as [out [E P]].
  exists out. split; [exact E|]. split.
  - etransitivity; [exact P | apply inv_sort_core_perm].
  - eapply rows_sorted_lemma. exact E.
Qed.

Definition core3 (c : string * Z * Z * Z) : Z * Z * Z := match c with (_, on, du, p) => (on, du, p) end.

Lemma inverse_roundtrip_pitch_lemma l divs A bt :
  Forall (fun r => i_midi r = i_pitch r) l ->
  exists out, roundtrip l divs A bt = Some out /\
              Permutation (map (fun r => (r_onset r, r_dur r, r_pitch r)) out)
                          (map (fun r => (i_on r, i_dur r, i_pitch r)) l).
Proof.
  intros F. destruct (inverse_roundtrip_lemma l divs A bt) as [out [E [P _]]].
  exists out. split; [exact E|].
  apply (Permutation_map core3) in P. rewrite !map_map in P.
  assert (E1 : map (fun x => core3 (r_core x)) out = map (fun r => (r_onset r, r_dur r, r_pitch r)) out)
    by (apply map_ext; intros r; reflexivity).
  assert (E2 : map (fun x => core3 (i_core x)) l = map (fun r => (i_on r, i_dur r, i_pitch r)) l).
  { apply map_ext_in. intros r Hr. rewrite Forall_forall in F. unfold i_core, core3. rewrite (F r Hr). reflexivity. }
  rewrite E1, E2 in P. exact P.
Qed.

(* the example of Model/C05_Inv: 6/8 at 6 divisions, pickup of 5 divisions beginning with a rest *)
Example ex_inv_values :
  infer_divs (inv_sort ex_inv) = Some 6 /\ anacrusis_divs (inv_sort ex_inv) 6 = 5 /\
  option_map (map (fun r => (r_core r, Qred (r_onb r)))) (roundtrip ex_inv 6 5 8)
  = Some [ (("a"%string, 2, 3, 60), (-1 # 1)%Q); (("b"%string, 5, 9, 64), (0 # 1)%Q); (("c"%string, 14, 12, 62), (3 # 1)%Q) ].
Proof. vm_compute. repeat split. Qed.

Example ex_inv_on_grid :
  Forall (fun r => (i_onb r * beat_unit 6 8 == inject_Z (i_on r - 5))%Q /\ bt_of r = 8) ex_inv /\
  (exists r, In r ex_inv /\ (i_onb r < 0)%Q).
Proof.
  split.
  - repeat constructor; vm_compute; reflexivity.
  - eexists. split; [right; left; reflexivity | vm_compute; reflexivity].
Qed.

(* ---------- time signatures from the columns ---------- *)

Lemma z2_eqb_eq a b : z2_eqb a b = true <-> a = b.
Proof. destruct a, b. unfold z2_eqb. simpl. split; [intros H; f_equal; lia | intros H; injection H as -> ->; lia]. Qed.

(* no signature other than cur up to time t: the lookup stays at cur *)
Lemma ts_at_changes_const l : forall cur t,
  (forall r, In r l -> i_on r <= t -> i_ts r = Some cur) ->
  (forall r, In r l -> exists ts, i_ts r = Some ts) ->
  ts_at (ts_changes cur l) cur t = cur.
Proof.
  induction l as [|r rest IH]; intros cur t H S; simpl; [reflexivity|].
  destruct (S r (or_introl eq_refl)) as [ts E]. rewrite E.
  destruct (z2_eqb ts cur) eqn:Q.
  - apply IH; intros x Hx; [intros L; apply H; [right; exact Hx | exact L] | apply S; right; exact Hx].
  - simpl. destruct (i_on r <=? t) eqn:L; [|reflexivity].
    exfalso. apply Z.leb_le in L. rewrite (H r (or_introl eq_refl) L) in E. injection E as <-.
    assert (z2_eqb cur cur = true) by (apply z2_eqb_eq; reflexivity). congruence.
Qed.

Lemma ts_changes_lookup l : forall cur,
  StronglySorted key_le l ->
  (forall a b, In a l -> In b l -> i_on a = i_on b -> i_ts a = i_ts b) ->
  (forall r, In r l -> exists ts, i_ts r = Some ts) ->
  forall r, In r l -> i_ts r = Some (ts_at (ts_changes cur l) cur (i_on r)).
Proof.
  induction l as [|r1 rest IH]; intros cur Srt C S r Hr; [destruct Hr|].
  inversion Srt as [|? ? Srt' F]; subst.
  assert (Hle : forall x, In x rest -> i_on r1 <= i_on x).
  { intros x Hx. rewrite Forall_forall in F. specialize (F x Hx). unfold key_le in F. lia. }
  assert (C' : forall a b, In a rest -> In b rest -> i_on a = i_on b -> i_ts a = i_ts b)
    by (intros a b Ha Hb; apply C; right; assumption).
  assert (S' : forall x, In x rest -> exists ts, i_ts x = Some ts) by (intros x Hx; apply S; right; exact Hx).
  destruct (S r1 (or_introl eq_refl)) as [ts1 E1].
  (* after r1 the running signature is ts1, and rows of rest at r1's onset carry it *)
  assert (K : forall x, In x rest -> i_on x <= i_on r1 -> i_ts x = Some ts1).
  { intros x Hx L. rewrite <- E1. apply C; [right; exact Hx | left; reflexivity | specialize (Hle x Hx); lia]. }
  simpl. rewrite E1. destruct (z2_eqb ts1 cur) eqn:Q.
  - apply z2_eqb_eq in Q. subst cur. destruct Hr as [<-|Hr].
    + rewrite ts_at_changes_const; [exact E1 | exact K | exact S'].
    + apply IH; assumption.
  - simpl. destruct Hr as [<-|Hr].
    + rewrite Z.leb_refl. rewrite ts_at_changes_const; [exact E1 | exact K | exact S'].
    + assert (i_on r1 <=? i_on r = true) as -> by (apply Z.leb_le, Hle, Hr).
      apply IH; assumption.
Qed.

(* the time signature list built from the columns gives back, at every row's onset, the row's signature *)
Lemma ts_segments_lookup_lemma l dflt :
  StronglySorted key_le l ->
  (forall a b, In a l -> In b l -> i_on a = i_on b -> i_ts a = i_ts b) ->
  (forall r, In r l -> exists ts, i_ts r = Some ts) ->
  (forall r, In r l -> 0 <= i_on r) ->
  forall r, In r l -> i_ts r = Some (ts_at (ts_segments l) dflt (i_on r)).
Proof.
  intros Srt C S NN r Hr. unfold ts_segments.
  destruct l as [|r0 rest]; [destruct Hr|].
  destruct (S r0 (or_introl eq_refl)) as [ts0 E0]. rewrite E0.
  set (X := ts_changes ts0 (r0 :: rest)). simpl ts_at.
  assert (0 <=? i_on r = true) as -> by (apply Z.leb_le, NN, Hr).
  unfold X. apply ts_changes_lookup; assumption.
Qed.
