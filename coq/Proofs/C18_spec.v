(* C18 -- proofs about the specifications the correspondence checks on the implementation's outputs
   (Model/C18.v: cons_off, sids_ok, perm_pairs, rescale_n / colmean / scale_n, tm_knots). *)
From Coq Require Import ZArith QArith Qabs Qround List Bool Lia Sorting.Sorted Sorting.Permutation Setoid.
From PV Require Import Lib.Base Lib.Round Model.C18 Proofs.C18.
Import ListNotations.
#[local] Open Scope Q_scope.

(* ================= decoding ANY consistent parameter array ================= *)
Section Consistent.
  Variable NP : Type.
  Variable pmean : list NP -> NP.
  Variable rescale : NP -> Q.
  Variable npdefault : NP.
  Variable exp2 : Q -> Q.
  Variables (so sd po : list Q) (G : list (list nat)) (P : list (params NP)).
  Let n := List.length so.

  Lemma decode_consistent_onsets_lemma c :
    (forall j, (j < n)%nat -> cons_off NP pmean rescale npdefault so sd po G P j == c) ->
    exists shift, forall j, (j < n)%nat ->
      fst (fst (nth j (decode NP pmean rescale npdefault exp2 so sd G P) (0, 0, 0%Z))) == nthQ po j + shift.
  Proof.
    intros H. exists (- c - minl (dec_raws NP pmean rescale npdefault so sd G P)).
    intros j Hj. unfold decode. rewrite nth_map_seq by exact Hj. cbn [fst].
    unfold nthQ at 1, dec_raws at 1. rewrite nth_map_seq by exact Hj.
    specialize (H j Hj). unfold cons_off in H. unfold dec_raw.
    set (e := dec_eq NP pmean rescale npdefault so sd G P (gidx G j)) in *.
    set (t := p_timing NP (nth j P (pdefault NP npdefault))) in *.
    setoid_replace (e - t) with (nthQ po j - (t + nthQ po j - e)) by ring.
    rewrite H. ring.
  Qed.

  (* and conversely: decoded onsets equal to the performed ones up to a shift force a common offset *)
  Lemma decode_onsets_consistent_lemma shift :
    (forall j, (j < n)%nat ->
      fst (fst (nth j (decode NP pmean rescale npdefault exp2 so sd G P) (0, 0, 0%Z))) == nthQ po j + shift) ->
    forall j, (j < n)%nat ->
      cons_off NP pmean rescale npdefault so sd po G P j
      == - shift - minl (dec_raws NP pmean rescale npdefault so sd G P).
  Proof.
    intros H j Hj. specialize (H j Hj). unfold decode in H. rewrite nth_map_seq in H by exact Hj. cbn [fst] in H.
    unfold nthQ at 1, dec_raws at 1 in H. rewrite nth_map_seq in H by exact Hj.
    unfold cons_off. unfold dec_raw in H.
    set (e := dec_eq NP pmean rescale npdefault so sd G P (gidx G j)) in *.
    set (t := p_timing NP (nth j P (pdefault NP npdefault))) in *.
    set (m := minl _) in *.
    setoid_replace (t + nthQ po j - e) with (nthQ po j - (e - t - m) - m) by ring.
    rewrite H. ring.
  Qed.
End Consistent.

(* the encoder's output is consistent (common offset = mean performed onset of the first chord) *)
Lemma encode_consistent_lemma (NP : Type) (scale : Q -> NP) (pmean : list NP -> NP) (rescale : NP -> Q)
      (npdefault : NP) (log2 : Q -> Q) :
  (forall x k, 0 < x -> rescale (pmean (repeat (scale x) (S k))) == x) ->
  forall (so sd po pd : list Q) (vel : list Z) (G : list (list nat)) (bp : list Q),
    groups_ok G (List.length so) = true ->
    (forall i, (i < List.length G)%nat -> 0 < nthQ bp i) ->
    forall j, (j < List.length so)%nat ->
      cons_off NP pmean rescale npdefault so sd po G (encode NP scale log2 so sd po pd vel G bp) j
      == enc_first po G.
Proof.
  intros Hn so sd po pd vel G bp HG Hbp j Hj.
  pose proof (dec_raw_ok NP scale pmean rescale npdefault log2 Hn so sd po pd vel G bp HG Hbp j Hj) as H.
  unfold cons_off. unfold dec_raw in H.
  set (e := dec_eq _ _ _ _ _ _ _ _ _) in *. set (t := p_timing _ _) in *.
  setoid_replace (t + nthQ po j - e) with (nthQ po j - (e - t)) by ring.
  rewrite H. ring.
Qed.

(* ================= normalisation columns as lists ================= *)
Lemma colmean_repeat1 a k : colmean (repeat [a] (S k)) = [meanQ (repeat a (S k))].
Proof.
  unfold colmean. cbn [repeat List.length seq map]. f_equal.
  change (a :: map (fun row : list Q => nthQ row 0) (repeat [a] k)) with (map (fun row : list Q => nthQ row 0) (repeat [a] (S k))).
  rewrite map_repeat'. reflexivity.
Qed.
Lemma colmean_repeat2 a b k : colmean (repeat [a; b] (S k)) = [meanQ (repeat a (S k)); meanQ (repeat b (S k))].
Proof.
  unfold colmean. cbn [repeat List.length seq map].
  change (nthQ [a; b] 0 :: map (fun row : list Q => nthQ row 0) (repeat [a; b] k)) with (map (fun row : list Q => nthQ row 0) (repeat [a; b] (S k))).
  change (nthQ [a; b] 1 :: map (fun row : list Q => nthQ row 1) (repeat [a; b] k)) with (map (fun row : list Q => nthQ row 1) (repeat [a; b] (S k))).
  rewrite !map_repeat'. reflexivity.
Qed.
Lemma colmean_repeat3 a b c k :
  colmean (repeat [a; b; c] (S k)) = [meanQ (repeat a (S k)); meanQ (repeat b (S k)); meanQ (repeat c (S k))].
Proof.
  unfold colmean. cbn [repeat List.length seq map].
  change (nthQ [a; b; c] 0 :: map (fun row : list Q => nthQ row 0) (repeat [a; b; c] k)) with (map (fun row : list Q => nthQ row 0) (repeat [a; b; c] (S k))).
  change (nthQ [a; b; c] 1 :: map (fun row : list Q => nthQ row 1) (repeat [a; b; c] k)) with (map (fun row : list Q => nthQ row 1) (repeat [a; b; c] (S k))).
  change (nthQ [a; b; c] 2 :: map (fun row : list Q => nthQ row 2) (repeat [a; b; c] k)) with (map (fun row : list Q => nthQ row 2) (repeat [a; b; c] (S k))).
  rewrite !map_repeat'. reflexivity.
Qed.

Lemma norm_list_inv_0 mu s x k : rescale_n 0 (colmean (repeat (scale_n 0 mu s x) (S k))) == x.
Proof. cbn [scale_n]. rewrite colmean_repeat1. cbn [rescale_n]. apply meanQ_repeat. Qed.

Lemma norm_list_inv_2 mu s x k : ~ mu == 0 -> rescale_n 2 (colmean (repeat (scale_n 2 mu s x) (S k))) == x.
Proof.
  intros Hmu. cbn [scale_n]. rewrite colmean_repeat2. cbn [rescale_n]. rewrite !meanQ_repeat. field. exact Hmu.
Qed.

Lemma norm_list_inv_4 mu s x k : (s == 0 -> x == mu) ->
  rescale_n 4 (colmean (repeat (scale_n 4 mu s x) (S k))) == x.
Proof.
  intros H. cbn [scale_n]. rewrite colmean_repeat3. cbn [rescale_n]. rewrite !meanQ_repeat.
  unfold std_z. destruct (Qeq_bool s 0) eqn:E.
  - apply Qeq_bool_iff in E. rewrite (H E), E. ring.
  - apply Qeq_bool_neq in E. field. exact E.
Qed.

(* ================= the matched table and snote_ids as specifications ================= *)
Lemma pair_eqb_eq a b : pair_eqb a b = true -> a = b.
Proof.
  destruct a as [a1 a2], b as [b1 b2]. unfold pair_eqb. cbn [fst snd]. intros H.
  apply andb_true_iff in H as [H1 H2]. apply Nat.eqb_eq in H1, H2. subst. reflexivity.
Qed.

Lemma perm_pairs_perm a b : perm_pairs a b = true -> Permutation a b.
Proof.
  unfold perm_pairs. intros H. apply (list_eqb_eq pair_eqb pair_eqb_eq) in H.
  rewrite <- (isort_perm pair_leb a). rewrite H. apply isort_perm.
Qed.

Lemma sorted_by_Sorted {A} (leb : A -> A -> bool) l :
  sorted_by leb l = true -> Sorted (fun a b => leb a b = true) l.
Proof.
  induction l as [|a r IH]; intros H; [constructor|].
  destruct r as [|b r'].
  - repeat constructor.
  - cbn [sorted_by] in H. apply andb_true_iff in H as [H1 H2].
    constructor; [apply IH; exact H2 | constructor; exact H1].
Qed.

Lemma sids_ok_spec_lemma sna pna al sids : sids_ok sna pna al sids = true ->
  let M := matched_idx (map s_id sna) (map p_id pna) al in
  let M' := pairs_by_ids sna M sids in
  Permutation M' M /\ Sorted (fun a b => lex2_leb (key2 sna a) (key2 sna b) = true) M'.
Proof.
  unfold sids_ok. intros H. apply andb_true_iff in H as [H1 H2]. split.
  - apply perm_pairs_perm. exact H1.
  - apply sorted_by_Sorted. exact H2.
Qed.

(* the modelled order (tie-break by position) is one of the orders the specification admits *)
Lemma lex3_lex2 sna a b : lex3_leb (key3 sna a) (key3 sna b) = true -> lex2_leb (key2 sna a) (key2 sna b) = true.
Proof. unfold key3, key2, lex3_leb, lex2_leb. lia. Qed.

Lemma Sorted_impl {A} (R1 R2 : A -> A -> Prop) l : (forall a b, R1 a b -> R2 a b) -> Sorted R1 l -> Sorted R2 l.
Proof.
  intros H. induction 1 as [|a l HS IH HH]; constructor; [exact IH|].
  destruct HH; constructor. apply H. assumption.
Qed.

Lemma matched_sorted_admitted sna pna al :
  Sorted (fun a b => lex2_leb (key2 sna a) (key2 sna b) = true) (matched_sorted sna pna al).
Proof.
  eapply Sorted_impl; [| apply (proj2 (matched_sorted_spec sna pna al))].
  intros a b. apply lex3_lex2.
Qed.

(* ================= time-map knots: strictly increasing score onsets, always ================= *)
Definition Qlt_l (a b : Q) : Prop := a < b.

Lemma uniq_sorted_cons2 a b r :
  uniq_sorted (a :: b :: r) = if Qeq_bool a b then uniq_sorted (b :: r) else a :: uniq_sorted (b :: r).
Proof. reflexivity. Qed.

Lemma uniq_sorted_In l x : In x (uniq_sorted l) -> In x l.
Proof.
  induction l as [|a r IH]; [auto|]. destruct r as [|b r'].
  - auto.
  - rewrite uniq_sorted_cons2. destruct (Qeq_bool a b).
    + intros H. right. apply IH. exact H.
    + intros [H | H]; [left; exact H | right; apply IH; exact H].
Qed.

Lemma Sorted_Qle_hd a l : Sorted (fun x y => Qle_bool x y = true) (a :: l) -> forall x, In x l -> a <= x.
Proof.
  intros H. apply Sorted_StronglySorted in H.
  - inversion H as [|? ? _ HF]; subst. rewrite Forall_forall in HF. intros x Hx. apply Qle_bool_iff. apply HF. exact Hx.
  - intros x y z Hxy Hyz. apply Qle_bool_iff in Hxy, Hyz. apply Qle_bool_iff. eapply Qle_trans; eauto.
Qed.

Lemma uniq_sorted_strict l : Sorted (fun x y => Qle_bool x y = true) l -> StronglySorted Qlt_l (uniq_sorted l).
Proof.
  induction l as [|a r IH]; intros HS; [constructor|].
  destruct r as [|b r'].
  - cbn. constructor; constructor.
  - assert (HSr : Sorted (fun x y => Qle_bool x y = true) (b :: r')) by (inversion HS; assumption).
    rewrite uniq_sorted_cons2. destruct (Qeq_bool a b) eqn:E.
    + apply IH. exact HSr.
    + constructor; [apply IH; exact HSr|].
      rewrite Forall_forall. intros x Hx. apply uniq_sorted_In in Hx.
      assert (Hab : a <= b) by (apply (Sorted_Qle_hd a (b :: r') HS); left; reflexivity).
      assert (Hlt : a < b).
      { apply Qle_lteq in Hab as [Hlt | Heq]; [exact Hlt|]. apply Qeq_bool_neq in E. contradiction. }
      destruct Hx as [Hx | Hx].
      * subst. exact Hlt.
      * eapply Qlt_le_trans; [exact Hlt|]. apply (Sorted_Qle_hd b r' HSr). exact Hx.
Qed.

Lemma flat_map_knots_sorted (f : Q -> option Q) us :
  StronglySorted Qlt_l us ->
  StronglySorted fst_lt (flat_map (fun u => match f u with Some m => [(u, m)] | None => [] end) us).
Proof.
  induction 1 as [|u l HS IH HF]; cbn [flat_map]; [constructor|].
  destruct (f u) as [m|]; cbn [app]; [|exact IH].
  constructor; [exact IH|].
  rewrite Forall_forall in *. intros [x y] Hx. apply in_flat_map in Hx as [u' [Hu' Hin]].
  destruct (f u'); [|destruct Hin]. destruct Hin as [E | []]. inversion E; subst.
  unfold fst_lt; cbn [fst]. apply HF. exact Hu'.
Qed.

Lemma Qle_bool_total a b : Qle_bool a b = true \/ Qle_bool b a = true.
Proof.
  destruct (Qlt_le_dec a b) as [H | H].
  - left. apply Qle_bool_iff, Qlt_le_weak. exact H.
  - right. apply Qle_bool_iff. exact H.
Qed.

Lemma tm_knots_sorted sna pna al rmo : StronglySorted fst_lt (tm_knots sna pna al rmo).
Proof.
  unfold tm_knots.
  set (rows := map _ _). set (us := uniq_sorted _).
  assert (HU : StronglySorted Qlt_l us).
  { apply uniq_sorted_strict. apply isort_sorted. apply Qle_bool_total. }
  match goal with |- StronglySorted _ (flat_map ?g us) =>
    assert (EQ : forall u, g u = match (match filter (fun r => Qeq_bool (s_on (fst r)) u && (negb rmo || negb (Qle_bool (s_dur (fst r)) 0))) rows with
                                      | [] => None
                                      | sel => Some (meanQ (map (fun r => p_on (snd r)) sel)) end)
                           with Some m => [(u, m)] | None => [] end)
  end.
  { intros u. destruct (filter _ rows); reflexivity. }
  erewrite flat_map_ext; [| exact EQ].
  apply flat_map_knots_sorted. exact HU.
Qed.

(* stime_to_ptime passes through every knot -- unconditionally (whatever the performed times) *)
Lemma stime_to_ptime_knots sna pna al rmo u p :
  In (u, p) (tm_knots sna pna al rmo) -> stime_to_ptime (tm_knots sna pna al rmo) u == p.
Proof. intros H. apply lin_interp_knot; [apply tm_knots_sorted | exact H]. Qed.

(* every knot is (a matched score onset, the mean performed onset of the matched notes counted there) *)
Lemma tm_knots_mean sna pna al rmo u p :
  In (u, p) (tm_knots sna pna al rmo) ->
  let M := matched_idx (map s_id sna) (map p_id pna) al in
  let rows := map (fun m => (nth (fst m) sna sdefault, nth (snd m) pna pdefault_row)) M in
  let sel := filter (fun r => Qeq_bool (s_on (fst r)) u && (negb rmo || negb (Qle_bool (s_dur (fst r)) 0))) rows in
  sel <> [] /\ p = meanQ (map (fun r => p_on (snd r)) sel).
Proof.
  unfold tm_knots. intros H. apply in_flat_map in H as [u' [_ H]].
  destruct (filter _ _) eqn:E in H; [destruct H|].
  destruct H as [H | []]. inversion H; subst. cbv zeta. rewrite E. split; [discriminate | reflexivity].
Qed.

(* the specification of snote_ids admits both orders of two notes sharing onset and pitch (ids 1 and 2),
   and rejects an order that is not sorted by pitch *)
Example sids_ok_example :
  let sna := [(0%Z, 0, 1, 0%Z, 60%Z); (1%Z, 1, 1, 4%Z, 64%Z); (2%Z, 1, 2, 4%Z, 64%Z); (3%Z, 1, 1, 4%Z, 67%Z)] in
  let pna := [(10%Z, 1 # 2, 1, 64%Z); (11%Z, 1, 1, 64%Z); (12%Z, 11 # 10, 1, 64%Z); (13%Z, 21 # 20, 1, 64%Z)] in
  let al := [(0%Z, 3%Z, 13%Z); (0%Z, 2%Z, 12%Z); (1%Z, 0%Z, 99%Z); (0%Z, 0%Z, 10%Z); (0%Z, 1%Z, 11%Z)] in
  sids_ok sna pna al [0; 1; 2; 3]%Z = true /\ sids_ok sna pna al [0; 2; 1; 3]%Z = true /\
  sids_ok sna pna al [0; 3; 1; 2]%Z = false /\ sids_ok sna pna al [0; 1; 2]%Z = false.
Proof. vm_compute. repeat split; reflexivity. Qed.

(* ---------- statements as they appear in Props/C18.v ---------- *)
Lemma decode_consistent_both :
  forall (NP : Type) (pmean : list NP -> NP) (rescale : NP -> Q) (npdefault : NP) (exp2 : Q -> Q)
         (so sd po : list Q) (G : list (list nat)) (P : list (params NP)),
    (forall c, (forall j, (j < List.length so)%nat -> cons_off NP pmean rescale npdefault so sd po G P j == c) ->
       exists shift, forall j, (j < List.length so)%nat ->
         fst (fst (nth j (decode NP pmean rescale npdefault exp2 so sd G P) (0, 0, 0%Z))) == nthQ po j + shift) /\
    (forall shift, (forall j, (j < List.length so)%nat ->
         fst (fst (nth j (decode NP pmean rescale npdefault exp2 so sd G P) (0, 0, 0%Z))) == nthQ po j + shift) ->
       forall j, (j < List.length so)%nat ->
         cons_off NP pmean rescale npdefault so sd po G P j
         == - shift - minl (dec_raws NP pmean rescale npdefault so sd G P)).
Proof.
  intros. split.
  - intros c H. eapply decode_consistent_onsets_lemma. exact H.
  - intros shift H. eapply decode_onsets_consistent_lemma. exact H.
Qed.

Lemma time_map_knots_both : forall sna pna al rmo,
  StronglySorted fst_lt (tm_knots sna pna al rmo) /\
  (forall u p, In (u, p) (tm_knots sna pna al rmo) ->
     stime_to_ptime (tm_knots sna pna al rmo) u == p /\
     let M := matched_idx (map s_id sna) (map p_id pna) al in
     let rows := map (fun m => (nth (fst m) sna sdefault, nth (snd m) pna pdefault_row)) M in
     let sel := filter (fun r => Qeq_bool (s_on (fst r)) u && (negb rmo || negb (Qle_bool (s_dur (fst r)) 0))) rows in
     sel <> [] /\ p = meanQ (map (fun r => p_on (snd r)) sel)).
Proof.
  intros. split; [apply tm_knots_sorted|]. intros u p H. split; [apply stime_to_ptime_knots; exact H | apply tm_knots_mean; exact H].
Qed.
