(* C15 -- state carried between calls: proofs about Model/C15_Hist.v.
   For every history of operations on a Score (item assignment, append / pop on the part list, the
   wholesale replacement unfold_part_* performs, calls that only read), what merge_parts and
   Score.note_array observe is a function of the CURRENT flat part list alone; the nested structure the
   score was built from (which those operations leave behind) never matters.  The per-merge theorems
   (time, lcm, link to the score-level array, disjoint voices) therefore hold for the score as it is
   now, whatever happened before.  Two variants that are not the code (a merge walking part_structure; a
   score that memoises its part list at the first read) are refuted by computed examples. *)
From PV Require Import Lib.Base Model.C05 Model.C05_Spec Model.C15 Model.C15_Spec Model.C15_Hist
     Proofs.C05_lib Proofs.C15 Proofs.C15_link Proofs.C15_ex Proofs.C15_ext.
From Coq Require Import Permutation.
#[local] Open Scope Z_scope.

(* ------------------------------------------------------------------ the machine *)

Lemma srun_lrun : forall ops s,
  srun ops s = option_map (fun l => mkScore l (sc_structure s)) (lrun ops (sc_parts s)).
Proof.
  induction ops as [|o ops IH]; intros [ps st]; simpl.
  - reflexivity.
  - unfold sstep; simpl. destruct (lstep ps o) as [l'|]; simpl; [|reflexivity].
    rewrite IH. reflexivity.
Qed.

(* forall history: the state reached = (the list operations applied to the flattened part list, the
   structure given at construction) *)
Lemma score_state_lemma partlist ops s :
  srun ops (score_init partlist) = Some s <->
  (lrun ops (flat_map flatten partlist) = Some (sc_parts s) /\ sc_structure s = partlist).
Proof.
  rewrite srun_lrun. unfold score_init; simpl. destruct s as [ps st]; simpl.
  destruct (lrun ops (flat_map flatten partlist)) as [l|]; simpl; split.
  - intros H; inversion H; auto.
  - intros [H1 H2]. inversion H1. subst. reflexivity.
  - discriminate.
  - intros [H _]; discriminate.
Qed.

(* forall history, observation = f (current state): the merge of the score and its note array *)
Lemma score_history_lemma m partlist ops :
  option_map (merge_parts_score m) (srun ops (score_init partlist)) =
  option_map (fun l => merge_parts m (map TPart l)) (lrun ops (flat_map flatten partlist)) /\
  option_map score_rows (srun ops (score_init partlist)) =
  option_map (fun l => match parts_rows l with Some arrs => Some (score_array false arrs) | None => None end)
             (lrun ops (flat_map flatten partlist)) /\
  option_map score_len (srun ops (score_init partlist)) =
  option_map (@List.length part) (lrun ops (flat_map flatten partlist)).
Proof.
  rewrite srun_lrun. unfold score_init; simpl.
  destruct (lrun ops (flat_map flatten partlist)); simpl; repeat split; reflexivity.
Qed.

Lemma score_structure_irrelevant_lemma m s s' : sc_parts s = sc_parts s' ->
  merge_parts_score m s = merge_parts_score m s' /\ score_rows s = score_rows s' /\ score_len s = score_len s'.
Proof. unfold merge_parts_score, score_rows, score_len. intros ->. auto. Qed.

(* a score nothing happened to: the Score argument of the dispatch theorems *)
Lemma fresh_score_lemma m partlist :
  merge_parts_score m (score_init partlist) = merge_parts_arg m (AScore partlist).
Proof. reflexivity. Qed.

(* calls that only read leave no trace *)
Lemma observe_silent_lemma : forall a b s, srun (a ++ SObserve :: b) s = srun (a ++ b) s.
Proof.
  induction a as [|o a IH]; intros b s; simpl.
  - unfold sstep; simpl. destruct s; reflexivity.
  - destruct (sstep s o); auto.
Qed.

(* what the list operations do *)
Lemma set_nth_spec {A} : forall i (x : A) l l', set_nth i x l = Some l' ->
  nth_error l' i = Some x /\ List.length l' = List.length l /\
  forall j, j <> i -> nth_error l' j = nth_error l j.
Proof.
  induction i as [|i IH]; intros x l l' H; destruct l as [|y r]; simpl in H; try discriminate.
  - inversion H; subst. repeat split; auto. intros [|j] Hj; [congruence|reflexivity].
  - destruct (set_nth i x r) as [r'|] eqn:E; [|discriminate]. inversion H; subst.
    destruct (IH _ _ _ E) as (H1 & H2 & H3). repeat split; simpl; auto.
    intros [|j] Hj; [reflexivity|]. simpl. apply H3. congruence.
Qed.

Lemma set_nth_defined {A} : forall i (x : A) l, (i < List.length l)%nat -> exists l', set_nth i x l = Some l'.
Proof.
  induction i as [|i IH]; intros x [|y r] H; simpl in *; try lia.
  - eauto.
  - destruct (IH x r) as [r' E]; [lia|]. rewrite E. eauto.
Qed.

Lemma pop_nth_spec {A} : forall i (l l' : list A), pop_nth i l = Some l' ->
  l' = firstn i l ++ skipn (S i) l.
Proof.
  induction i as [|i IH]; intros [|y r] l' H; simpl in H; try discriminate.
  - inversion H; reflexivity.
  - destruct (pop_nth i r) as [r'|] eqn:E; [|discriminate]. inversion H; subst.
    simpl. f_equal. apply IH. exact E.
Qed.

(* ------------------------------------------------------------------ the per-merge theorems on the current state *)

Lemma score_history_time_lemma m partlist ops s L out :
  srun ops (score_init partlist) = Some s ->
  merge_parts_score m s = RMerged L out -> divs_pos (sc_parts s) ->
  L = lcm_list (divs_of (sc_parts s)) /\ 0 < L /\
  forall j e', In (j, e') out ->
  exists es d e, nth_error (sc_parts s) j = Some (es, d) /\ In e es /\ core e' = core e /\
                 (d | L) /\ same_time L d e e'.
Proof.
  intros _ Hm Hd. unfold merge_parts_score in Hm.
  pose proof (merge_time_preserved_lemma m (map TPart (sc_parts s)) L out Hm) as H.
  rewrite flatten_map_TPart in H. exact (H Hd).
Qed.

Lemma score_history_link_lemma m partlist ops s L out :
  srun ops (score_init partlist) = Some s ->
  merge_parts_score m s = RMerged L out -> divs_pos (sc_parts s) -> ties_ok (sc_parts s) ->
  exists rows arrs,
    merged_rows L out = Some rows /\ parts_rows (sc_parts s) = Some arrs /\
    score_rows s = Some (score_array false arrs) /\
    Permutation (map (qkey (score_lcm arrs)) rows) (map (qkey L) (score_array false arrs)).
Proof.
  intros _ Hm Hd Ht. unfold merge_parts_score in Hm.
  pose proof (merge_eq_score_array_lemma m (map TPart (sc_parts s)) L out Hm) as H.
  rewrite flatten_map_TPart in H. destruct (H Hd Ht) as (rows & arrs & H1 & H2 & H3).
  exists rows, arrs. repeat split; auto. unfold score_rows. rewrite H2. reflexivity.
Qed.

(* a part that was replaced contributes nothing: every element of the merged part is an element of a
   part the score holds NOW *)
Lemma score_history_only_current_lemma m partlist ops s L out :
  srun ops (score_init partlist) = Some s ->
  merge_parts_score m s = RMerged L out ->
  forall j e', In (j, e') out -> exists es d e, nth_error (sc_parts s) j = Some (es, d) /\ In e es /\ core e' = core e.
Proof.
  intros _ Hm j e' Hin. unfold merge_parts_score in Hm.
  assert (Hp : In (tag_core (j, e')) (map tag_core out)) by (apply in_map; exact Hin).
  pose proof (merge_contains_all_lemma m _ L out Hm) as P. rewrite flatten_map_TPart in P.
  apply (Permutation_in _ P) in Hp. clear P Hm Hin.
  revert Hp. generalize (sc_parts s). intros ps.
  assert (G : forall ps i, In (tag_core (j, e')) (map tag_core (kept_from m i ps)) ->
              exists es d e, nth_error ps (j - i) = Some (es, d) /\ In e es /\ core e' = core e /\ (i <= j)%nat).
  { clear ps. induction ps as [|[es d] r IH]; intros i H; simpl in H; [contradiction|].
    rewrite map_app in H. apply in_app_or in H. destruct H as [H|H].
    - rewrite map_map in H. apply in_map_iff in H. destruct H as (e & He & Hin).
      unfold tag_core in He; simpl in He.
      assert (Hij : i = j) by congruence. assert (Hc : core e' = core e) by congruence. subst i.
      apply filter_In in Hin. destruct Hin as [Hin _].
      exists es, d, e. rewrite Nat.sub_diag. simpl. repeat split; auto.
    - destruct (IH (S i) H) as (es' & d' & e & H1 & H2 & H3 & H4).
      exists es', d', e. replace (j - i)%nat with (S (j - S i)) by lia. simpl. repeat split; auto. lia. }
  intros Hp. destruct (G ps 0%nat Hp) as (es & d & e & H1 & H2 & H3 & _).
  rewrite Nat.sub_0_r in H1. exists es, d, e. auto.
Qed.

(* ------------------------------------------------------------------ refutations: variants that are not the code *)

Definition hx_note (oid v p : Z) (s e : Z) : elem := mkElem oid KNote s (Some e) (Some v) (Some 1) p None None.
Definition hx_a : part := ([hx_note 1 1 60 0 4], 4).
Definition hx_b : part := ([hx_note 2 1 64 0 6], 6).
Definition hx_c : part := ([hx_note 3 1 67 0 3; hx_note 4 1 69 3 6], 3).

(* score = Score([a, b]); score[1] = c; merge_parts(score): the code merges a and c (lcm 12); a merge walking
   part_structure merges a and b (lcm 12 as well, but other elements) *)
Lemma by_structure_refuted_lemma :
  exists m partlist ops s,
    srun ops (score_init partlist) = Some s /\
    merge_parts_score_by_structure m s <> merge_parts_score m s /\
    (exists out, merge_parts_score m s = RMerged 12 out /\ map (fun x => e_oid (snd x)) out = [1; 3; 4]) /\
    (exists out, merge_parts_score_by_structure m s = RMerged 12 out /\ map (fun x => e_oid (snd x)) out = [1; 2]).
Proof.
  exists MVoice, [TPart hx_a; TPart hx_b], [SSetItem 1 hx_c].
  eexists. split; [vm_compute; reflexivity|]. split; [|split].
  - vm_compute. discriminate.
  - eexists. split; vm_compute; reflexivity.
  - eexists. split; vm_compute; reflexivity.
Qed.

(* score.note_array() (a read), score[1] = c, merge_parts(score): a score memoising its part list at the first
   read would still merge a and b *)
Lemma memo_refuted_lemma :
  exists m partlist ops s ms,
    srun ops (score_init partlist) = Some s /\
    mrun ops (mkMScore (score_init partlist) None) = Some ms /\ ms_score ms = s /\
    merge_parts_memo m ms <> merge_parts_score m s.
Proof.
  exists MVoice, [TPart hx_a; TPart hx_b], [SObserve; SSetItem 1 hx_c].
  eexists. eexists. split; [vm_compute; reflexivity|]. split; [vm_compute; reflexivity|].
  split; [reflexivity|]. vm_compute. discriminate.
Qed.

(* ------------------------------------------------------------------ (2) parts edited between two calls *)

Lemma edited_time_lemma m ps0 eds L out :
  merge_parts m (map TPart (edit_parts eds ps0)) = RMerged L out -> divs_pos (edit_parts eds ps0) ->
  L = lcm_list (divs_of (edit_parts eds ps0)) /\ 0 < L /\
  forall j e', In (j, e') out ->
  exists es d e, nth_error (edit_parts eds ps0) j = Some (es, d) /\ In e es /\ core e' = core e /\
                 (d | L) /\ same_time L d e e'.
Proof.
  intros Hm Hd. pose proof (merge_time_preserved_lemma m _ L out Hm) as H.
  rewrite flatten_map_TPart in H. exact (H Hd).
Qed.

Lemma edited_voices_disjoint_lemma ps0 eds L out :
  merge_parts MVoice (map TPart (edit_parts eds ps0)) = RMerged L out ->
  parts_good voices_ok (edit_parts eds ps0) ->
  forall j1 j2 e1 e2, In (j1, e1) out -> In (j2, e2) out -> j1 <> j2 -> generic e1 -> generic e2 ->
  e_voice e1 <> e_voice e2.
Proof.
  intros Hm Hg. pose proof (voices_disjoint_lemma (map TPart (edit_parts eds ps0)) L out Hm) as H.
  rewrite flatten_map_TPart in H. exact (H Hg).
Qed.

(* a note in a new voice 2 added to the first input after it was looked at: with voice offsets remembered from
   the earlier look the second input's voice 1 becomes 2 as well *)
Lemma edit_memo_refuted_lemma :
  exists ps0 eds out e1 e2,
    merge_voice_memo_offsets ps0 (edit_parts eds ps0) = Some out /\
    In (0%nat, e1) out /\ In (1%nat, e2) out /\ generic e1 /\ generic e2 /\ e_voice e1 = e_voice e2 /\
    parts_good voices_ok (edit_parts eds ps0) /\
    exists L out', merge_parts MVoice (map TPart (edit_parts eds ps0)) = RMerged L out' /\
                   map (fun x => (e_oid (snd x), e_voice (snd x))) out' = [(1, Some 1); (5, Some 2); (2, Some 3)].
Proof.
  exists [hx_a; hx_b], [(0%nat, PAdd (hx_note 5 2 72 0 4))].
  eexists. exists (mkElem 5 KNote 0 (Some 12) (Some 2) (Some 1) 72 None None),
                  (mkElem 2 KNote 0 (Some 12) (Some 2) (Some 1) 64 None None).
  split; [vm_compute; reflexivity|].
  split; [vm_compute; auto|]. split; [vm_compute; auto 6|].
  split; [reflexivity|]. split; [reflexivity|]. split; [reflexivity|].
  split.
  - change (edit_parts [(0%nat, PAdd (hx_note 5 2 72 0 4))] [hx_a; hx_b])
      with [([hx_note 1 1 60 0 4; hx_note 5 2 72 0 4], 4); hx_b].
    repeat constructor; apply voices_okb_spec; reflexivity.
  - eexists. eexists. split; vm_compute; reflexivity.
Qed.

(* edits that address another input, or an identity the part does not hold, change nothing there *)
Lemma map_nth_other {A} (f : A -> A) : forall i j l, i <> j -> nth_error (map_nth f i l) j = nth_error l j.
Proof.
  induction i as [|i IH]; intros [|j] [|x r] H; simpl; auto; try congruence.
Qed.

Lemma edit_parts_untouched eds : forall ps j, (forall x, In x eds -> fst x <> j) ->
  nth_error (edit_parts eds ps) j = nth_error ps j.
Proof.
  unfold edit_parts. induction eds as [|x eds IH]; intros ps j H; simpl; [reflexivity|].
  rewrite IH by (intros y Hy; apply H; right; exact Hy).
  apply map_nth_other. apply H. left; reflexivity.
Qed.

(* ------------------------------------------------------------------ (4) merged parts merged again, any depth *)

Section MInd.
  Variable P : mtree -> Prop.
  Hypothesis HL : forall p, P (MLeaf p).
  Hypothesis HN : forall m kids, Forall P kids -> P (MNode m kids).
  Fixpoint mtree_ind2 (t : mtree) : P t :=
    match t with
    | MLeaf p => HL p
    | MNode m kids =>
      HN m kids ((fix go (l : list mtree) : Forall P l :=
                    match l with
                    | [] => Forall_nil P
                    | k :: r => Forall_cons k (mtree_ind2 k) (go r)
                    end) kids)
    end.
End MInd.

Lemma map_opt_nth {A B} (f : A -> option B) : forall l ys, map_opt f l = Some ys ->
  forall j y, nth_error ys j = Some y -> exists x, nth_error l j = Some x /\ f x = Some y.
Proof.
  induction l as [|x r IH]; intros ys H j y Hy; simpl in H.
  - inversion H; subst. destruct j; discriminate.
  - destruct (f x) as [y0|] eqn:Fx; [|discriminate].
    destruct (map_opt f r) as [ys0|] eqn:Fr; [|discriminate]. inversion H; subst.
    destruct j as [|j]; simpl in Hy.
    + inversion Hy; subst. exists x. auto.
    + destruct (IH ys0 eq_refl j y Hy) as [x' [N F]]. exists x'. auto.
Qed.

Definition traces (t : mtree) (es : list elem) (L : Z) : Prop :=
  0 < L /\
  forall e', In e' es ->
  exists es0 d e, In (es0, d) (leaves t) /\ In e es0 /\ core e' = core e /\ (d | L) /\ same_time L d e e'.

Lemma same_time_trans L d d0 e0 e e' : 0 < d ->
  same_time d d0 e0 e -> same_time L d e e' -> same_time L d0 e0 e'.
Proof.
  intros Hd [A1 B1] [A2 B2]. unfold same_time. split.
  - apply (Z.mul_reg_r _ _ d); [lia|].
    replace (e_start e' * d0 * d) with (e_start e' * d * d0) by ring. rewrite A2.
    replace (e_start e * L * d0) with (e_start e * d0 * L) by ring. rewrite A1. ring.
  - destruct (e_end e') as [t'|], (e_end e) as [t|], (e_end e0) as [t0|]; try tauto.
    apply (Z.mul_reg_r _ _ d); [lia|].
    replace (t' * d0 * d) with (t' * d * d0) by ring. rewrite B2.
    replace (t * L * d0) with (t * d0 * L) by ring. rewrite B1. ring.
Qed.

Lemma nested_merge_lemma : forall t es L,
  meval t = Some (es, L) -> Forall (fun p => 0 < snd p) (leaves t) -> traces t es L.
Proof.
  induction t as [p | m kids IH] using mtree_ind2; intros es L He Hpos.
  - simpl in He. inversion He; subst. simpl in Hpos. inversion Hpos; subst. simpl in *.
    split; [assumption|]. intros e' Hin. exists es, L, e'. simpl. repeat split; auto.
    + apply Z.divide_refl.
    + destruct (e_end e'); auto.
  - simpl in He. destruct (map_opt meval kids) as [ps|] eqn:Eps; [|discriminate].
    (* every evaluated kid traces to its leaves *)
    assert (K : forall j es1 d1, nth_error ps j = Some (es1, d1) ->
                exists k, nth_error kids j = Some k /\ traces k es1 d1).
    { intros j es1 d1 N. destruct (map_opt_nth meval kids ps Eps j (es1, d1) N) as [k [Nk Ek]].
      exists k. split; [exact Nk|]. rewrite Forall_forall in IH.
      apply (IH k (nth_error_In _ _ Nk) es1 d1 Ek).
      rewrite Forall_forall in *. intros q Hq. apply Hpos. simpl.
      apply in_flat_map. exists k. split; [exact (nth_error_In _ _ Nk) | exact Hq]. }
    assert (LV : forall j k, nth_error kids j = Some k -> forall q, In q (leaves k) -> In q (leaves (MNode m kids))).
    { intros j k Nk q Hq. simpl. apply in_flat_map. exists k. split; [exact (nth_error_In _ _ Nk) | exact Hq]. }
    destruct (merge_parts m (map TPart ps)) as [p | L1 out | ] eqn:Em; simpl in He; try discriminate.
    + (* one part: returned as it is *)
      inversion He; subst p. unfold merge_parts in Em. rewrite flatten_map_TPart in Em.
      destruct ps as [|p0 [|p1 r]]; try discriminate.
      * inversion Em; subst p0.
        destruct (K 0%nat es L eq_refl) as [k [Nk [Lp T]]]. split; [exact Lp|].
        intros e' Hin. destruct (T e' Hin) as (es0 & d & e & H1 & H2 & H3 & H4 & H5).
        exists es0, d, e. split; [exact (LV 0%nat k Nk _ H1)|]. auto.
      * destruct (merge_from m (merge_lcm (p0 :: p1 :: r)) 0 (mkOffs 0 0 0) (p0 :: p1 :: r)); discriminate.
    + inversion He; subst es L. clear He.
      assert (DP : divs_pos (flat_map flatten (map TPart ps))).
      { rewrite flatten_map_TPart. unfold divs_pos, divs_of. apply Forall_forall. intros d Hd.
        apply in_map_iff in Hd. destruct Hd as [[es1 d1] [E Hin]]. simpl in E. subst d1.
        destruct (In_nth_error _ _ Hin) as [j N]. destruct (K j es1 d N) as [k [_ [Lp _]]]. exact Lp. }
      destruct (merge_time_preserved_lemma m _ L1 out Em DP) as [_ [Lp T]].
      rewrite flatten_map_TPart in T.
      split; [exact Lp|]. intros e' Hin.
      apply in_map_iff in Hin. destruct Hin as [[j e1] [E Hj]]. simpl in E. subst e1.
      destruct (T j e' Hj) as (es1 & d1 & e & N & He1 & C1 & D1 & S1).
      destruct (K j es1 d1 N) as [k [Nk [Lp1 T1]]].
      destruct (T1 e He1) as (es0 & d0 & e0 & H1 & H2 & H3 & H4 & H5).
      exists es0, d0, e0. split; [exact (LV j k Nk _ H1)|]. split; [exact H2|].
      split; [congruence|]. split; [eapply Z.divide_trans; eauto|].
      eapply same_time_trans; eauto.
Qed.

(* non-vacuity: ((a + b) + c) + a', three levels: 4, 6 -> 12; 12, 3 -> 12; 12, 5 -> 60 *)
Definition hx_d : part := ([hx_note 6 1 70 5 10], 5).
Definition hx_tree : mtree :=
  MNode MStaff [MNode MAuto [MNode MVoice [MLeaf hx_a; MLeaf hx_b]; MLeaf hx_c]; MLeaf hx_d].
Lemma nested_example_lemma :
  exists es, meval hx_tree = Some (es, 60) /\
    map (fun e => (e_oid e, e_start e, e_end e)) es =
      [(1, 0, Some 60); (2, 0, Some 60); (3, 0, Some 60); (4, 60, Some 120); (6, 60, Some 120)] /\
    leaves hx_tree = [hx_a; hx_b; hx_c; hx_d].
Proof. eexists. split; [vm_compute; reflexivity|]. split; vm_compute; reflexivity. Qed.

(* ------------------------------------------------------------------ third hardening: inputs looked at, then edited IN PLACE *)
(* a call that only reads a part (number_of_staves, clef_map, a note array, an exporter) is no operation of the
   model: [edit_parts] has no constructor for it, so whatever the code remembers during such a call must not show.
   O2 for the parts as they are at the call, in "staff" and in "auto" mode (the "voice" mode: above). *)
Lemma edited_staves_disjoint_lemma ps0 eds L out :
  merge_parts MStaff (map TPart (edit_parts eds ps0)) = RMerged L out ->
  parts_good staves_ok (edit_parts eds ps0) ->
  forall j1 j2 e1 e2, In (j1, e1) out -> In (j2, e2) out -> j1 <> j2 -> staffed e1 -> staffed e2 ->
  e_staff e1 <> e_staff e2.
Proof.
  intros Hm Hg. pose proof (staves_disjoint_lemma (map TPart (edit_parts eds ps0)) L out Hm) as H.
  rewrite flatten_map_TPart in H. exact (H Hg).
Qed.

Lemma edited_auto_staves_disjoint_lemma ps0 eds L out :
  merge_parts MAuto (map TPart (edit_parts eds ps0)) = RMerged L out ->
  forall j1 j2 e1 e2, In (j1, e1) out -> In (j2, e2) out -> j1 <> j2 -> staffed e1 -> staffed e2 ->
  e_staff e1 <> e_staff e2.
Proof. intros Hm. exact (auto_staves_disjoint_lemma (map TPart (edit_parts eds ps0)) L out Hm). Qed.

(* the general memo is the old one in "voice" mode *)
Lemma memo_offsets_voice ps0 ps : merge_memo_offsets MVoice ps0 ps = merge_voice_memo_offsets ps0 ps.
Proof. reflexivity. Qed.

(* with nothing edited the memoising variant IS the code (so the refutation below is about the edit only) *)
Definition hy_a : part := ([hx_note 1 1 60 0 4; hx_note 7 2 48 0 4], 4).

Lemma staff_memo_refuted_lemma :
  exists ps0 eds out e1 e2,
    (* input 0 looked at while everything is on staff 1, then its note 7 moved to staff 2 in place *)
    eds = [(0%nat, PSetStaff 7 (Some 2))] /\
    merge_memo_offsets MStaff ps0 (edit_parts eds ps0) = Some out /\
    In (0%nat, e1) out /\ In (1%nat, e2) out /\ staffed e1 /\ staffed e2 /\ e_staff e1 = e_staff e2 /\
    parts_good staves_ok (edit_parts eds ps0) /\
    (exists L out', merge_parts MStaff (map TPart (edit_parts eds ps0)) = RMerged L out' /\
                   map (fun x => (fst x, e_oid (snd x), e_staff (snd x))) out' = [(0%nat, 1, Some 1); (0%nat, 7, Some 2); (1%nat, 2, Some 3)]) /\
    (exists L out0, merge_parts MStaff (map TPart ps0) = RMerged L out0 /\ merge_memo_offsets MStaff ps0 ps0 = Some out0).
Proof.
  exists [hy_a; hx_b], [(0%nat, PSetStaff 7 (Some 2))].
  eexists. exists (mkElem 7 KNote 0 (Some 12) (Some 2) (Some 2) 48 None None),
                  (mkElem 2 KNote 0 (Some 12) (Some 1) (Some 2) 64 None None).
  split; [reflexivity|].
  split; [vm_compute; reflexivity|].
  split; [vm_compute; auto|]. split; [vm_compute; auto 6|].
  split; [reflexivity|]. split; [reflexivity|]. split; [reflexivity|].
  split; [|split].
  - change (edit_parts [(0%nat, PSetStaff 7 (Some 2))] [hy_a; hx_b])
      with [([hx_note 1 1 60 0 4; mkElem 7 KNote 0 (Some 4) (Some 2) (Some 2) 48 None None], 4); hx_b].
    repeat constructor; apply staves_okb_spec; reflexivity.
  - eexists. eexists. split; vm_compute; reflexivity.
  - eexists. eexists. split; vm_compute; reflexivity.
Qed.
