(* C20 -- proofs about array views that copy (Model/C20_Array.v). *)
From PV Require Import Lib.Base Model.C20 Model.C20_Mut Model.C20_Array.
From Coq Require Import ZArith List Bool Lia Arith.
Import ListNotations.
#[local] Open Scope Z_scope.
Notation row := (list Z) (only parsing).


Lemma firstn_lset' {A} n : forall (l : list A) k x, (n <= k)%nat -> firstn n (lset l k x) = firstn n l.
Proof.
  induction n as [|n IH]; intros l k x L; [reflexivity|].
  destruct l as [|y l]; [reflexivity|]. destruct k as [|k]; [lia|]. simpl. f_equal. apply IH. lia.
Qed.

Lemma lset_length' {A} (l : list A) : forall n x, length (lset l n x) = length l.
Proof. induction l as [|y l IH]; intros [|n] x; simpl; auto. Qed.

(* writing through an array whose buffer did not exist in bs0 leaves bs0's buffers alone *)
Lemma write_rows_preserves (needs : row -> bool) (w : row -> row) (n b : nat) : (n <= b)%nat -> forall rs bs,
  firstn n (fold_left (fun bs' r => if needs (row_get bs' b r)
                          then lset bs' b (lset (buf_get bs' b) r (w (row_get bs' b r))) else bs') rs bs) = firstn n bs.
Proof.
  intros L. induction rs as [|r rs IH]; intros bs; [reflexivity|].
  cbn [fold_left]. rewrite IH. destruct (needs (row_get bs b r)); [now apply firstn_lset' | reflexivity].
Qed.

Lemma firstn_app_exact' {A} (a b : list A) : firstn (length a) (a ++ b) = a.
Proof. rewrite firstn_app, Nat.sub_diag, firstn_all. simpl. apply app_nil_r. Qed.

(* THE ARGUMENT IS LEFT AS IT WAS: with the copying take, for every clipping function, window and flag, every
   buffer that existed before the call has all its rows unchanged, and the result lives in a new buffer *)
Lemma slice_copy_preserves_argument_lemma w bs a start stop clip :
  firstn (length bs) (fst (slice TakeCopy w bs a start stop clip)) = bs /\
  a_buf (snd (slice TakeCopy w bs a start stop clip)) = length bs.
Proof.
  unfold slice. cbn [take]. cbn [fst snd a_buf]. split; [|reflexivity].
  destruct clip; [|apply firstn_app_exact'].
  unfold write_rows. cbn [a_buf a_rows]. rewrite write_rows_preserves by lia. apply firstn_app_exact'.
Qed.

(* what the result holds without clipping: exactly the active rows of the argument, in their order *)
Lemma active_idx_spec start stop : forall rs i,
  map (fun j => nth (j - i) rs []) (active_idx start stop rs i) = filter (active start stop) rs /\
  Forall (fun j => (i <= j < i + length rs)%nat) (active_idx start stop rs i).
Proof.
  induction rs as [|r rs IH]; intros i; [split; constructor|].
  cbn [active_idx filter]. destruct (IH (S i)) as [E F].
  assert (F' : Forall (fun j => (i <= j < i + length (r :: rs))%nat) (active_idx start stop rs (S i))).
  { eapply Forall_impl; [|exact F]. simpl. intros; lia. }
  assert (E' : map (fun j => nth (j - i) (r :: rs) []) (active_idx start stop rs (S i)) = filter (active start stop) rs).
  { rewrite <- E. apply map_ext_in. intros j Hj. rewrite Forall_forall in F. specialize (F j Hj). cbv beta in F.
    replace (j - i)%nat with (S (j - S i)) by lia. reflexivity. }
  destruct (active start stop r).
  - split; [|constructor; [simpl; lia | exact F']]. cbn [map]. rewrite E', Nat.sub_diag. reflexivity.
  - split; [exact E' | exact F'].
Qed.

Lemma nth_seq_lt n : forall k j, (j < n)%nat -> nth j (seq k n) O = (k + j)%nat.
Proof. induction n as [|n IH]; intros k [|j] H; simpl; try lia. rewrite IH by lia. lia. Qed.

Lemma map_nth_seq (l : list (list Z)) : map (fun r => nth r l []) (seq 0 (length l)) = l.
Proof.
  induction l as [|r rs IH] using rev_ind; [reflexivity|].
  rewrite app_length. simpl. rewrite Nat.add_1_r, seq_S, map_app. cbn [map plus].
  rewrite nth_middle. f_equal.
  rewrite <- IH at 2. apply map_ext_in. intros j Hj. apply in_seq in Hj. rewrite app_nth1 by lia. reflexivity.
Qed.

Lemma slice_rows_spec_lemma m w (rows : list row) start stop :
  let a := mk_ndarr 0 (seq 0 (length rows)) in
  rows_of (fst (slice m w [rows] a start stop false)) (snd (slice m w [rows] a start stop false))
  = filter (active start stop) rows.
Proof.
  intros a.
  assert (R : rows_of [rows] a = rows).
  { unfold rows_of, a. cbn [a_buf a_rows]. unfold row_get, buf_get. cbn [nth]. apply map_nth_seq. }
  unfold slice. rewrite R. destruct (active_idx_spec start stop rows 0) as [E F].
  assert (G : map (fun i => row_get [rows] 0 (nth i (seq 0 (length rows)) O)) (active_idx start stop rows 0)
              = filter (active start stop) rows).
  { rewrite <- E. apply map_ext_in. intros j Hj. rewrite Forall_forall in F. specialize (F j Hj). cbv beta in F.
    rewrite nth_seq_lt by lia. unfold row_get, buf_get. cbn [nth]. now rewrite Nat.sub_0_r. }
  destruct m; cbn [take fst snd].
  - unfold rows_of. cbn [a_buf a_rows]. unfold a. cbn [a_buf a_rows]. rewrite G.
    unfold row_get, buf_get. cbn [length nth].
    assert (Len : length (active_idx start stop rows 0) = length (filter (active start stop) rows))
      by (rewrite <- G; now rewrite map_length).
    try rewrite map_length. rewrite Len.
    change (nth 1 ([rows] ++ [filter (active start stop) rows]) []) with (filter (active start stop) rows).
    apply map_nth_seq.
  - unfold rows_of. cbn [a_buf a_rows]. unfold a. cbn [a_buf a_rows]. rewrite map_map. exact G.
Qed.

(* the view is refuted: clipping through a view rewrites the caller's rows *)
Lemma slice_view_refuted_lemma :
  exists (w : row -> row) (rows : list row) (start stop : Z),
    let a := mk_ndarr 0 (seq 0 (length rows)) in
    buf_get (fst (slice TakeView w [rows] a start stop true)) 0 <> rows /\
    buf_get (fst (slice TakeCopy w [rows] a start stop true)) 0 = rows /\
    buf_get (fst (slice TakeView w [rows] a start stop false)) 0 = rows.
Proof.
  exists (fun r => [4; 2; nth 2 r 0]), [[0; 6; 60]; [8; 2; 62]; [20; 4; 64]], 4, 12.
  split; [vm_compute; discriminate | split; reflexivity].
Qed.

Example slice_example :
  slice TakeCopy (fun r => r) [[[0; 6; 60]; [8; 2; 62]; [20; 4; 64]; [3; 1; 65]]] (mk_ndarr 0 [0; 1; 2; 3]%nat) 4 12 false
  = ([[[0; 6; 60]; [8; 2; 62]; [20; 4; 64]; [3; 1; 65]]; [[0; 6; 60]; [8; 2; 62]]], mk_ndarr 1 [0; 1]%nat).
Proof. reflexivity. Qed.

Lemma row_eqb_eq a b : row_eqb a b = true -> a = b.
Proof. apply list_eqb_eq. intros x y. apply Z.eqb_eq. Qed.

(* the checker accepts only observations in which the argument is as before and -- without clipping -- the result
   holds exactly the active rows *)
Lemma rows_agree_length start stop : forall m o, rows_agree_unclipped start stop m o = true -> length m = length o.
Proof.
  induction m as [|x m IH]; intros [|y o] H; simpl in *; try discriminate; auto.
  apply andb_true_iff in H as [_ H]. f_equal. now apply IH.
Qed.

Lemma slice_snd_indep m w bs a start stop :
  snd (slice m w bs a start stop true) = snd (slice m w bs a start stop false).
Proof. unfold slice. destruct (take m bs a _); reflexivity. Qed.

Lemma slice_ok_meaning_lemma rows start stop clip res after :
  slice_ok (rows, start, stop, clip, res, after) = true ->
  after = rows /\ (clip = false -> res = filter (active start stop) rows) /\
  length res = length (filter (active start stop) rows).
Proof.
  unfold slice_ok. set (a := mk_ndarr 0 (seq 0 (length rows))).
  pose proof (slice_copy_preserves_argument_lemma (fun r => r) [rows] a start stop clip) as [P _].
  pose proof (slice_rows_spec_lemma TakeCopy (fun r => r) rows start stop) as Sp. fold a in Sp.
  pose proof (slice_snd_indep TakeCopy (fun r => r) [rows] a start stop) as In.
  assert (Len : forall bs1 bs2 s, length (rows_of bs1 s) = length (rows_of bs2 s)) by (intros; unfold rows_of; now rewrite !map_length).
  destruct clip.
  - destruct (slice TakeCopy (fun r => r) [rows] a start stop true) as [bs' s] eqn:E. cbn [fst snd] in *.
    intros H. apply andb_true_iff in H as [H1 H2].
    assert (B : buf_get bs' 0 = rows).
    { unfold buf_get. destruct bs' as [|b0 bs']; [discriminate P|]. cbn [length firstn] in P. now inversion P. }
    split; [|split; [discriminate|]].
    + apply (list_eqb_eq _ row_eqb_eq) in H1. now rewrite <- H1.
    + apply rows_agree_length in H2. rewrite <- H2.
      transitivity (length (rows_of (fst (slice TakeCopy (fun r : list Z => r) [rows] a start stop false))
                                    (snd (slice TakeCopy (fun r : list Z => r) [rows] a start stop false))));
        [rewrite <- In; apply Len | exact (f_equal (@length _) Sp)].
  - destruct (slice TakeCopy (fun r => r) [rows] a start stop false) as [bs' s] eqn:E. cbn [fst snd] in *.
    intros H. apply andb_true_iff in H as [H1 H2].
    assert (B : buf_get bs' 0 = rows).
    { unfold buf_get. destruct bs' as [|b0 bs']; [discriminate P|]. cbn [length firstn] in P. now inversion P. }
    apply (list_eqb_eq _ row_eqb_eq) in H1. apply (list_eqb_eq _ row_eqb_eq) in H2.
    split; [now rewrite <- H1|]. try (rewrite E in Sp; cbn [fst snd] in Sp). rewrite <- H2, Sp. split; auto.
Qed.
