(* C20 -- proofs about Model/C20_Beat.v: the exporter leaves the beat mode and the musical beats of the time signatures
   alone wherever it is called in a history of mode switches; "switch to notated beats and back" is not a restore. *)
From PV Require Import Lib.Base Model.C20 Model.C20_Mut Model.C20_Beat.
From Coq Require Import ZArith List Bool Lia.
Import ListNotations.
#[local] Open Scope Z_scope.

Lemma export_transparent_lemma : forall (h : list bop) (st : bstate),
  bfinal ReadOnly st h = bfinal ReadOnly st (filter (fun o => negb (is_export o)) h).
Proof.
  unfold bfinal. induction h as [|o r IH]; intros st; simpl; auto.
  destruct o; simpl; auto.
Qed.

Lemma export_only_lemma : forall (h : list bop) (st : bstate),
  forallb is_export h = true -> bfinal ReadOnly st h = st /\ brun ReadOnly st h = repeat st (length h).
Proof.
  unfold bfinal. induction h as [|o r IH]; intros st H; simpl in *; auto.
  apply andb_true_iff in H as [H1 H2]. destruct o; try discriminate. simpl.
  destruct (IH st H2) as [E1 E2]. split; auto. now f_equal.
Qed.

Lemma brun_export_step_lemma : forall (h1 h2 : list bop) (st : bstate),
  nth_error (brun ReadOnly st (h1 ++ BExport :: h2)) (length h1) = Some (bfinal ReadOnly st h1).
Proof.
  unfold bfinal. induction h1 as [|o r IH]; intros h2 st; simpl; auto.
Qed.

Lemma set_mb_nil_fix : forall tss, set_mb [] tss = tss <-> all_default tss.
Proof.
  unfold all_default. induction tss as [|[b t m] r IH]; simpl.
  - split; auto.
  - split.
    + intros H. injection H as H1 H2. constructor; simpl; auto. now apply IH.
    + intros H. inversion H as [|x l H1 H2]; subst. simpl in H1. subst. f_equal. now apply IH.
Qed.

Lemma toggle_identity_iff_lemma : forall st : bstate,
  export_effect ToggleAndBack st = st <-> (fst st = false \/ all_default (snd st)).
Proof.
  intros [[|] tss]; simpl.
  - unfold use_musical, use_notated. simpl. split.
    + intros H. right. apply set_mb_nil_fix. now injection H.
    + intros [H|H]; [discriminate|]. apply set_mb_nil_fix in H. now rewrite H.
  - split; auto.
Qed.

Lemma toggle_refuted_lemma :
  exists (st : bstate) (h : list bop),
    fst st = false /\ all_default (snd st) /\
    bfinal ToggleAndBack st h <> bfinal ReadOnly st h /\
    bfinal ReadOnly st h = (true, [mk_ts 6 8 3; mk_ts 4 4 8]) /\
    bfinal ToggleAndBack st h = (true, [mk_ts 6 8 2; mk_ts 4 4 4]).
Proof.
  exists (false, [new_ts 6 8; new_ts 4 4]), [BMusical [(6, 8, 3); (4, 4, 8)]; BExport].
  split; [reflexivity|]. split; [repeat constructor|]. vm_compute. repeat split. discriminate.
Qed.

Lemma set_mb_shape : forall tbl tss,
  map ts_beats (set_mb tbl tss) = map ts_beats tss /\ map ts_type (set_mb tbl tss) = map ts_type tss.
Proof. intros tbl tss. unfold set_mb. rewrite !map_map. split; reflexivity. Qed.

Lemma set_mb_all_default : forall tss, all_default (set_mb [] tss).
Proof. unfold all_default. induction tss; simpl; constructor; auto. Qed.

Lemma set_mb_idem : forall tbl tss, set_mb tbl (set_mb tbl tss) = set_mb tbl tss.
Proof. intros tbl tss. unfold set_mb. rewrite map_map. apply map_ext. intros ts. reflexivity. Qed.

Lemma mode_switch_laws_lemma : forall (st : bstate) (t1 t2 : mbtable),
  use_notated (use_notated st) = use_notated st /\
  use_musical t2 (use_musical t1 st) = use_musical t1 st /\
  (fst st = true -> fst (use_notated st) = false /\ all_default (snd (use_notated st))) /\
  (fst st = false -> fst (use_musical t1 st) = true /\
                     snd (use_musical t1 st) = match t1 with [] => snd st | _ => set_mb t1 (snd st) end) /\
  map ts_beats (snd (use_notated st)) = map ts_beats (snd st) /\
  map ts_beats (snd (use_musical t1 st)) = map ts_beats (snd st).
Proof.
  intros [[|] tss] t1 t2; unfold use_notated, use_musical; simpl; repeat split; auto using set_mb_all_default;
    try discriminate; try (apply set_mb_shape).
  all: destruct t1; simpl; auto; apply set_mb_shape.
Qed.

Lemma ts_eqb_eq : forall a b, ts_eqb a b = true -> a = b.
Proof.
  intros [a1 a2 a3] [b1 b2 b3]. unfold ts_eqb. simpl. rewrite !andb_true_iff, !Z.eqb_eq. intros [[-> ->] ->]. reflexivity.
Qed.

Lemma bstate_eqb_eq : forall a b, bstate_eqb a b = true -> a = b.
Proof.
  intros [f1 l1] [f2 l2]. unfold bstate_eqb. simpl. rewrite andb_true_iff. intros [H1 H2].
  apply eqb_prop in H1. apply (list_eqb_eq _ ts_eqb_eq) in H2. now subst.
Qed.

Lemma beat_ok_meaning_lemma : forall (st : bstate) (h : list bop) (obs : list bstate),
  beat_ok (st, h, obs) = true -> obs = brun ReadOnly st h.
Proof. intros st h obs H. unfold beat_ok in H. apply (list_eqb_eq _ bstate_eqb_eq) in H. auto. Qed.

Example beat_example :
  brun ReadOnly (false, [new_ts 6 8; new_ts 3 4]) [BMusical [(6, 8, 3)]; BExport; BMusical []; BNotated; BExport; BSetTable [(3, 4, 1)]]
  = [(true, [mk_ts 6 8 3; mk_ts 3 4 3]); (true, [mk_ts 6 8 3; mk_ts 3 4 3]); (true, [mk_ts 6 8 3; mk_ts 3 4 3]);
     (false, [mk_ts 6 8 2; mk_ts 3 4 3]); (false, [mk_ts 6 8 2; mk_ts 3 4 3]); (false, [mk_ts 6 8 2; mk_ts 3 4 1])].
Proof. vm_compute. reflexivity. Qed.
