(* C18 -- the normalisation table of the LIVE performance_codec.py (Gen/C18_norm.v, written on
   every run by harness/props/c18.py gen()) are the constants the model uses; rescale_n is the rescale function the
   column roles of the table describe. *)
From Coq Require Import ZArith QArith Qabs List Bool Lia Lqa.
From PV Require Import Lib.Base Lib.Round Model.C18 Gen.C18_norm.
Import ListNotations.
#[local] Open Scope Q_scope.

Lemma rescale_roles_ok idx roles lg c :
  In (idx, roles, lg) norm_table_model -> List.length c = List.length roles -> rescale_n idx c == rescale_roles roles c.
Proof.
  intros H L. unfold norm_table_model in H. cbn [In] in H.
  destruct H as [H | [H | [H | [H | [H | []]]]]]; inversion H; subst; clear H; cbn in L.
  - destruct c as [|b [|? ?]]; try discriminate. unfold rescale_roles, role_get; cbn. ring.
  - destruct c as [|b [|? ?]]; try discriminate. unfold rescale_roles, role_get; cbn. ring.
  - destruct c as [|r [|m [|? ?]]]; try discriminate. unfold rescale_roles, role_get; cbn. ring.
  - destruct c as [|r [|m [|? ?]]]; try discriminate. unfold rescale_roles, role_get; cbn. ring.
  - destruct c as [|z [|m [|s0 [|? ?]]]]; try discriminate. unfold rescale_roles, role_get; cbn. ring.
Qed.

Lemma norm_table_reflected_lemma :
  c18_norm_table = norm_table_model /\
  (forall idx roles lg c, In (idx, roles, lg) c18_norm_table -> List.length c = List.length roles ->
     rescale_n idx c == rescale_roles roles c).
Proof.
  assert (E : c18_norm_table = norm_table_model) by (vm_compute; reflexivity).
  split; [exact E|]. rewrite E. exact rescale_roles_ok.
Qed.
